import DFV.Lemmas.C08Ex
import DFV.Lemmas.C08Ex2
/-!
# C08 — validity masks follow the data through every operation that keeps or maps cells

Property theorems about the validity model of `DFV/Model/C08.lean`.  Programs (compositions of
public `Field` operations), input masks, shapes, indices, pad widths, turn counts and setter
arguments are universally quantified; nothing is bounded.

`eval` is the code-shaped evaluator (every node transforms the whole mask array the way
`field.py` does and stores a new buffer through the validity setter), `spec` the index-level
reading, `evalS` the same evaluation over an abstract store of buffers (ownership), `wf` the
acceptance check on shapes, `gradProg` … `ufuncProg` the compound operations as `field.py`
composes them, `Sess` / `Stmt` sessions of statements with in-place changes (every statement reads
its operands' masks from the store), `Prog.subst` inlining.

Second half: `SessM` = sessions with MESH OBJECTS (what a result shares with its operand and what
it owns); the setter as one total function of every argument kind, dictionaries over subregions
included; the OBJECT-LEVEL LINK — the validity array of the results of the field-level operations
of the C03, C05, C07, C12 (shared rotation), C06, C11 and C15 models is what the theorems above
say, stated on those models' own definitions.
-/
namespace DFV.C08
open DFV

/-! ## Programs: the code-shaped evaluation is the index-level reading -/

/-- **Refinement, all programs.**  Whenever a composition of operations is accepted, the mask
it produces has the predicted shape and, at every cell of the result, the value obtained by
pulling the cell back through the index maps of the operations to the input fields and
AND-ing (`spec`).  By induction over programs; every index map is shown to read inside its
source array. -/
theorem valid_program (env : Nat → Mask) (p : Prog) (m : Mask) (h : eval env p = .ok m) :
    m.shape = shapeOf env p ∧ ∀ j, inRange m.shape j = true → m.get j = spec env p j :=
  eval_spec env p m h

example : run (.map (.rot 0 1 1) (.binF (.leaf 0) (.un (.leaf 1))))
    = some ([3, 2], [false, false, false, false, true, true]) := by decide

/-- **AND of the leaves.**  For a composition without a setter step, a result cell is valid
exactly when every input-field cell it depends on (`deps`: the cells reached through the index
maps) is valid; a cell created by constant padding is invalid. -/
theorem valid_leaf_and (env : Nat → Mask) (p : Prog) (hp : setterFree p = true) (m : Mask)
    (h : eval env p = .ok m) (j : List Nat) (hj : inRange m.shape j = true) :
    m.get j = match deps env p j with
      | some l => l.all fun kj => (env kj.1).get kj.2
      | none => false := by
  rw [(eval_spec env p m h).2 j hj]
  exact spec_deps env p hp j

example : deps exEnv (.map (.rot 0 1 1) (.binF (.leaf 0) (.un (.leaf 1)))) [2, 1] = some [(0, [1, 0]), (1, [1, 0])] := by
  decide

/-! ## Unary and binary operations -/

/-- **Pass-through.**  `-f`, `abs(f)`, `f.norm`, `f.orientation`, component access, `real`,
`imag`, `conjugate`, `phase`, `abs`, `diff` (hence every component of `grad`) return the
operand's validity: same shape, same value at every cell. -/
theorem valid_unary (env : Nat → Mask) (p : Prog) (m : Mask) (h : eval env (.un p) = .ok m) :
    ∃ m0, eval env p = .ok m0 ∧ m.shape = m0.shape ∧ ∀ j, inRange m0.shape j = true → m.get j = m0.get j := by
  simp only [eval] at h
  split at h
  · cases h
  · rename_i m0 hm0
    simp only [Except.ok.injEq] at h; subst h
    exact ⟨m0, hm0, rfl, fun j hj => own_get m0 j hj⟩

example : run (.un (.leaf 0)) = some ([2, 3], [true, false, true, true, true, false]) := by decide

/-- **Binary, field with field.**  Every operator, `dot`, `cross`, `angle` and `<<` between two
fields returns the cell-wise AND of both validities (and is rejected when the shapes differ). -/
theorem valid_binary_fields (env : Nat → Mask) (p q : Prog) (m : Mask) (h : eval env (.binF p q) = .ok m) :
    ∃ a b, eval env p = .ok a ∧ eval env q = .ok b ∧ a.shape = b.shape ∧ m.shape = a.shape ∧
      ∀ j, inRange a.shape j = true → m.get j = (a.get j && b.get j) := by
  simp only [eval] at h
  split at h
  · cases h
  · rename_i a ha
    split at h
    · cases h
    · rename_i b hb
      split at h
      · rename_i hab
        simp only [Except.ok.injEq] at h; subst h
        exact ⟨a, b, ha, hb, hab, rfl, fun j hj => own_get (NDA.zipWith and a b) j hj⟩
      · cases h

example : run (.binF (.leaf 0) (.leaf 1)) = some ([2, 3], [true, false, false, true, false, false]) := by decide
example : run (.binF (.leaf 0) (.map (.take 0 0) (.leaf 1))) = none := by decide

/-- **Binary, field with a number / vector / array.**  The result has the field's own validity. -/
theorem valid_binary_other (env : Nat → Mask) (p : Prog) (m : Mask) (h : eval env (.binC p) = .ok m) :
    ∃ m0, eval env p = .ok m0 ∧ m.shape = m0.shape ∧ ∀ j, inRange m0.shape j = true → m.get j = m0.get j := by
  simp only [eval] at h
  split at h
  · cases h
  · rename_i m0 hm0
    simp only [Except.ok.injEq] at h; subst h
    exact ⟨m0, hm0, rfl, fun j hj => own_get m0 j hj⟩

/-- **Both orders.**  `a ∘ b` and `b ∘ a` (e.g. scalar field with vector field and vector field
with scalar field) carry the same validity. -/
theorem valid_binary_comm (env : Nat → Mask) (p q : Prog) (m : Mask) (h : eval env (.binF p q) = .ok m) :
    ∃ m', eval env (.binF q p) = .ok m' ∧ m'.shape = m.shape ∧
      ∀ j, inRange m.shape j = true → m'.get j = m.get j := by
  obtain ⟨a, b, ha, hb, hab, hm, hg⟩ := valid_binary_fields env p q m h
  refine ⟨own (NDA.zipWith and b a), ?_, ?_, ?_⟩
  · simp only [eval, ha, hb, if_pos hab.symm]
  · show b.shape = m.shape
    rw [hm, hab]
  · intro j hj
    rw [hm] at hj
    rw [own_get (NDA.zipWith and b a) j (by show inRange b.shape j = true; rw [← hab]; exact hj), hg j hj]
    exact Bool.and_comm _ _

/-- **Self-combination.**  Combining results derived from ONE field (divergence, curl,
Laplacian, `grad`: sums and stacks of derivatives of components) gives that field's validity. -/
theorem valid_binary_idem (env : Nat → Mask) (p : Prog) (m : Mask) (h : eval env (.binF p p) = .ok m) :
    ∃ m0, eval env p = .ok m0 ∧ m.shape = m0.shape ∧ ∀ j, inRange m0.shape j = true → m.get j = m0.get j := by
  obtain ⟨a, b, ha, hb, _, hm, hg⟩ := valid_binary_fields env p p m h
  rw [ha] at hb
  simp only [Except.ok.injEq] at hb; subst hb
  exact ⟨a, ha, hm, fun j hj => by rw [hg j hj, Bool.and_self]⟩

/-! ## Selection, extraction, padding, resampling, quarter turns -/

/-- **Mapped.**  `sel`, `field[region]`, `pad`, `resample`, `rotate90`: the validity of result
cell `j` is the validity of the source cell `op.src j` — a cell INSIDE the source array — or
`False` where constant padding created the cell. -/
theorem valid_mapped (env : Nat → Mask) (op : MapOp) (p : Prog) (m : Mask) (h : eval env (.map op p) = .ok m) :
    ∃ m0, eval env p = .ok m0 ∧ op.ok m0.shape = true ∧ m.shape = op.shape m0.shape ∧
      ∀ j, inRange m.shape j = true →
        match op.src m0.shape j with
        | some i => inRange m0.shape i = true ∧ m.get j = m0.get i
        | none => m.get j = false := by
  simp only [eval] at h
  split at h
  · cases h
  · rename_i m0 hm0
    split at h
    · rename_i hok
      simp only [Except.ok.injEq] at h; subst h
      have hsh : (op.apply m0 false).shape = op.shape m0.shape := apply_shape op m0 false
      refine ⟨m0, hm0, hok, hsh, fun j hj => ?_⟩
      have hj1 : inRange (op.apply m0 false).shape j = true := hj
      have hj2 : inRange (op.shape m0.shape) j = true := by rw [← hsh]; exact hj1
      have hget := apply_get op m0 false hok j hj2
      rw [← own_get (op.apply m0 false) j hj1] at hget
      cases hsrc : op.src m0.shape j with
      | none => rw [hsrc] at hget; exact hget
      | some i => rw [hsrc] at hget; exact ⟨src_inRange op m0.shape hok j hj2 i hsrc, hget⟩
    · cases h

example : run (.map (.pad .reflect [(1, 0), (0, 2)]) (.leaf 0))
    = some ([3, 5], [true, true, false, true, true, true, false, true, false, true, true, true, false, true, true]) := by
  decide
example : run (.map (.resample [4, 2]) (.leaf 0)) = some ([4, 2], [true, true, true, true, true, false, true, false]) := by
  decide +kernel

/-- **Exactly as the data.**  The array call of each mapping operation is one function for any
entry type: applied to the array of (value, validity) pairs it returns, at every cell, the pair
of what it returns on the values and on the validities — the validity stays attached to the
value it belongs to. -/
theorem mapped_with_data {τ : Type} (op : MapOp) (data : NDA τ) (valid : Mask) (fd : τ)
    (hsh : valid.shape = data.shape) (hok : op.ok data.shape = true) (j : List Nat)
    (hj : inRange (op.shape data.shape) j = true) :
    (op.apply (NDA.zipWith Prod.mk data valid) (fd, false)).get j =
      ((op.apply data fd).get j, (op.apply valid false).get j) :=
  apply_zip op data valid fd hsh hok j hj

/-- **Quarter turns.**  NumPy's `rot90` (flips and an axis swap) moves entries by the explicit
index map `rotSrc`, for every turn count and axis pair. -/
theorem rot90_moves_mask {α : Type} (x : NDA α) (p q : Nat) (k : Int) (hpq : p ≠ q) (hp : p < x.shape.length)
    (hq : q < x.shape.length) (j : List Nat) (hj : j.length = x.shape.length) :
    (T.rot90 x p q k).get j = x.get (rotSrc x.shape p q k j) := by
  rw [T.rot90_get, srcIdx_eq_rotSrc _ _ _ _ _ hpq hp hq hj]

/-- **Padding keeps the original cells.**  In every mode the cells of the unpadded field keep
their validity (result cell `j` inside the original block reads source cell `j − front width`). -/
theorem pad_keeps_inside (mode : PadMode) (w : List (Nat × Nat)) (s j : List Nat) (hj : j.length = s.length)
    (hin : ∀ b, b < s.length → (w.getD b (0, 0)).1 ≤ j.getD b 0 ∧ j.getD b 0 < (w.getD b (0, 0)).1 + s.getD b 0) :
    (MapOp.pad mode w).src s j = some (tab s.length fun b => j.getD b 0 - (w.getD b (0, 0)).1) :=
  pad_src_inside mode w s j hj hin

example : (MapOp.pad .wrap [(2, 1)]).src [3] [4] = some [2] ∧ (MapOp.pad .wrap [(2, 1)]).src [3] [0] = some [1] ∧
    (MapOp.pad .constant [(2, 1)]).src [3] [0] = none := by decide

/-- **Resampling is geometry-free.**  The nearest source cell computed on the real cell-centre
coordinates of any edge `[lo, lo+E]` (`E > 0`) is the one computed on the unit interval. -/
theorem resample_geometry_free (lo E : Rat) (hE : 0 < E) (n n' j : Nat) :
    nearestUpTo (fun k => lo + ((k : Rat) + 1 / 2) * (E / (n : Rat))) (lo + ((j : Rat) + 1 / 2) * (E / (n' : Rat))) (n - 1)
      = nearest n n' j := by
  unfold nearest
  simp only [centre_affine]
  exact nearestUpTo_affine (centre01 n) (centre01 n' j) lo E hE (n - 1)

example : nearest 2 3 1 = 1 := by decide +kernel  -- tie between both source cells: the larger index

/-! ## File round trips -/

/-- **VTK / HDF5.**  Writing a field and reading it back returns the same validity (VTK: integers
in first-index-fastest order, cast back to Booleans; HDF5: a Boolean dataset). -/
theorem valid_file_roundtrip (m : Mask) (i : List Nat) (h : inRange m.shape i = true) :
    (vtkRead m.shape (vtkWrite m)).get i = m.get i ∧ (h5Read m.shape (h5Write m)).get i = m.get i :=
  ⟨vtk_roundtrip_get m i h, h5_roundtrip_get m i h⟩

example : (match eval exEnv3 (.vtk (.leaf 0)) with
    | .ok m => some m.toList
    | .error _ => none) = some [true, false, false, true] := by decide
example : vtkWrite (exEnv3 0) = [1, 0, 0, 1] := by decide
example : run (.vtk (.leaf 0)) = none := by decide  -- only 3-d fields can be written to VTK

/-! ## The setter -/

/-- **Boolean array of the mesh shape.**  Whatever is assigned (`None`, a number, an array, a
callable, `'norm'`), if the setter accepts it the stored mask has shape `n` (entries are `Bool`
by type) and holds, at every cell, the value the specification assigns (`specMask`). -/
theorem setter_shape_bool (n : List Nat) (s : MSpec) (m : Mask) (h : setMask n s = .ok m) :
    m.shape = n ∧ ∀ j, inRange n j = true → m.get j = specMask n s j :=
  setMask_spec n s m h

/-- an array of the mesh shape (bool, int or float entries): valid where the entry is non-zero -/
theorem setter_array (n : List Nat) (a : NDA Rat) (ha : a.shape = n) :
    ∃ m, setMask n (.arr a) = .ok m ∧ m.shape = n ∧
      ∀ j, inRange n j = true → (m.get j = true ↔ a.get j ≠ 0) := by
  refine ⟨own ⟨n, fun j => decide (a.get j ≠ 0)⟩, by simp only [setMask, if_pos ha], rfl, fun j hj => ?_⟩
  rw [own_get ⟨n, fun j => decide (a.get j ≠ 0)⟩ j hj]
  simp

/-- an array with a trailing axis of length 1 that broadcasts to the mesh: accepted, and every
cell reads an entry inside the given array -/
theorem setter_broadcast (n : List Nat) (a : NDA Rat) (h1 : a.shape ≠ n) (h2 : a.shape.getLast? = some 1)
    (h3 : bcastOk a.shape (n ++ [1]) = true) :
    ∃ m, setMask n (.arr a) = .ok m ∧ m.shape = n ∧
      ∀ j, inRange n j = true →
        inRange a.shape (bcastIdx a.shape (n ++ [1]) (j ++ [0])) = true ∧
        (m.get j = true ↔ a.get (bcastIdx a.shape (n ++ [1]) (j ++ [0])) ≠ 0) := by
  refine ⟨own ⟨n, fun j => decide (a.get (bcastIdx a.shape (n ++ [1]) (j ++ [0])) ≠ 0)⟩, ?_, rfl,
    fun j hj => ⟨?_, ?_⟩⟩
  · simp only [setMask]
    rw [if_neg h1, if_neg (by rw [h2]; simp), if_neg (by rw [h3]; simp)]
  · exact bcastIdx_inRange _ _ _ h3 (inRange_snoc_one n j hj)
  · rw [own_get ⟨n, fun j => decide (a.get (bcastIdx a.shape (n ++ [1]) (j ++ [0])) ≠ 0)⟩ j hj]
    simp

example : bcastOk [3, 1, 1] ([2, 3, 4] ++ [1]) = true := by decide
example : bcastIdx [3, 1, 1] ([2, 3, 4] ++ [1]) ([1, 2, 3] ++ [0]) = [2, 0, 0] := by decide

/-- wrong shapes and unsupported arguments are rejected (nothing is stored) -/
theorem setter_rejects (n : List Nat) (a : NDA Rat) (h1 : a.shape ≠ n)
    (h2 : a.shape.getLast? ≠ some 1 ∨ bcastOk a.shape (n ++ [1]) = false) :
    setMask n (.arr a) = .error .value ∧ setMask n .bad = .error .type := by
  refine ⟨?_, rfl⟩
  simp only [setMask, if_neg h1]
  rcases h2 with h2 | h2
  · rw [if_pos h2]
  · split
    · rfl
    · simp [h2]

example : (NDA.const [2, 2] (1 : Rat)).shape ≠ [2, 3] ∧ (NDA.const [2, 2] (1 : Rat)).shape.getLast? ≠ some 1 := by decide
example : (NDA.const [5, 1] (1 : Rat)).shape.getLast? = some 1 ∧ bcastOk [5, 1] ([2, 3] ++ [1]) = false := by decide

/-- **`'norm'`.**  Exactly the cells whose stored value has squared length above `atol² = 1e-16`
are valid — a cell whose components are each below the threshold is valid when their
combined length exceeds it. -/
theorem setter_norm (f g : Fld) (h : setValid f .norm = .ok g) (j : List Nat) (hj : inRange f.mesh.n j = true) :
    (g.valid.get j = true ↔ atol * atol < sumSq (f.data.get j)) := by
  obtain ⟨m, hm, rfl⟩ := setValid_ok f g .norm h
  have := (setMask_spec _ _ m hm).2 j hj
  show m.get j = true ↔ _
  rw [this]
  simp [specMask, toMSpec]

/-- the threshold on the length itself: for a length `r ≥ 0` (any relative tolerance, since the
comparison value is 0), `~np.isclose(r, 0)` holds exactly when `r² > atol²` -/
theorem norm_threshold (r rtol : Rat) (hr : 0 ≤ r) :
    (!Region.isclose r 0 rtol atol) = decide (atol * atol < r * r) :=
  not_isclose_zero_iff r rtol hr

example : (match setValid exFld .norm with
    | .ok g => some g.valid.toList
    | .error _ => none) = some [false, true] := by decide +kernel
example : sumSq [6 / 1000000000, 9 / 1000000000] > atol * atol ∧ (9 : Rat) / 1000000000 ≤ atol := by
  simp only [sumSq, atol]; norm_num

/-- **Stored values untouched.**  An accepted assignment changes nothing but the mask: values,
mesh, component count, labels, mapping and unit are the operand's; the new mask has the mesh
shape. -/
theorem setValid_keeps_data (f g : Fld) (s : VSpec) (h : setValid f s = .ok g) :
    g.data = f.data ∧ g.mesh = f.mesh ∧ g.nvdim = f.nvdim ∧ g.vdims = f.vdims ∧ g.vmap = f.vmap ∧
      g.unit = f.unit ∧ g.valid.shape = f.mesh.n := by
  obtain ⟨m, hm, rfl⟩ := setValid_ok f g s h
  exact ⟨rfl, rfl, rfl, rfl, rfl, rfl, (setMask_spec _ _ m hm).1⟩

/-- a callable is asked at the CENTRE of every cell; the truth value of its answer is stored -/
theorem setValid_func_centres (f g : Fld) (fn : List Rat → Bool) (h : setValid f (.func fn) = .ok g)
    (j : List Nat) (hj : inRange f.mesh.n j = true) : g.valid.get j = fn (f.mesh.centre j) := by
  obtain ⟨m, hm, rfl⟩ := setValid_ok f g (.func fn) h
  exact (setMask_spec _ _ m hm).2 j hj

example : (match setValid exFld (.func fun p => decide (p.getD 0 0 < 1)) with
    | .ok g => some g.valid.toList
    | .error _ => none) = some [true, false] := by decide +kernel

/-- assigning validity to a result forgets the result's previous mask: only its shape matters -/
theorem setter_forgets (env : Nat → Mask) (s : MSpec) (p q : Prog) (a b : Mask) (ha : eval env p = .ok a)
    (hb : eval env q = .ok b) (hs : a.shape = b.shape) : eval env (.setv s p) = eval env (.setv s q) := by
  simp only [eval, ha, hb, hs]

/-! ## Ownership (modelled requirement; observed on the code with `np.shares_memory` and
write-through probes) -/

/-- **A result's validity is its own.**  In the store model every operation that builds a field
allocates the buffer of its mask: unless the program is the input field itself (`aliasOf`: only
unary plus returns its operand, known finding D7), the result's buffer is one allocated during
the evaluation — none of the buffers that existed before — and the old buffers are still there,
unchanged, as a prefix of the store. -/
theorem result_owns_validity (env : Nat → Mask) (addr : Nat → Nat) (p : Prog) (st st' : Store) (a : Nat)
    (h : evalS env addr p st = .ok (a, st')) (hp : aliasOf p = none) :
    st.length ≤ a ∧ a < st'.length ∧ ∃ ext, st' = st ++ ext := by
  obtain ⟨h1, h2, _⟩ := evalS_store env addr p st a st' h
  exact ⟨(h2 hp).1, (h2 hp).2, h1⟩

/-- the buffer the result owns holds exactly the mask the evaluator computes (C order) -/
theorem result_buffer_holds_mask (env : Nat → Mask) (addr : Nat → Nat) (p : Prog) (st st' : Store) (a : Nat)
    (h : evalS env addr p st = .ok (a, st')) (hp : aliasOf p = none) :
    ∃ m, eval env p = .ok m ∧ st'.getD a [] = m.toList :=
  evalS_content env addr p st a st' h hp

/-- **Write-through probe.**  Changing an entry of the result's mask afterwards leaves every
buffer that existed before the evaluation — in particular every operand's mask — as it was. -/
theorem write_leaves_operands (env : Nat → Mask) (addr : Nat → Nat) (p : Prog) (st st' : Store) (a : Nat)
    (h : evalS env addr p st = .ok (a, st')) (hp : aliasOf p = none) (k : Nat) (v : Bool) (b : Nat)
    (hb : b < st.length) : (write st' a k v).getD b [] = st.getD b [] := by
  obtain ⟨h1, h2, ⟨ext, rfl⟩⟩ := result_owns_validity env addr p st st' a h hp
  rw [write_other _ _ _ _ _ (by omega)]
  simp only [List.getD_eq_getElem?_getD]
  rw [List.getElem?_append_left hb]

/-- **Unary plus (code as it stands, D7).**  `+f` is `f`: the result's mask IS the operand's
buffer, so a write through the result changes the operand. -/
theorem unary_plus_aliases (env : Nat → Mask) (addr : Nat → Nat) (k : Nat) (st : Store) :
    evalS env addr (.pos (.leaf k)) st = .ok (addr k, st) := rfl

example : (match evalS exEnv id (.binF (.un (.leaf 0)) (.pos (.leaf 1))) [(exEnv 0).toList, (exEnv 1).toList] with
    | .ok r => some (r.1, r.2.length)
    | .error _ => none) = some (3, 4) := by decide
example : (write [[true, false]] 0 1 true).getD 0 [] = [true, true] := by decide
example : aliasOf (.un (.pos (.leaf 0))) = none ∧ aliasOf (.pos (.pos (.leaf 3))) = some 3 := by decide

/-! ## Acceptance: well-formed programs are accepted, and only those -/

/-- **Accepted = well formed.**  A composition of operations is accepted exactly when it is well
formed (`wf`, a check on shapes alone: combined fields have the same cells, every mapping
operation is applicable to the shape it receives, VTK only in three dimensions, setter arguments
of an acceptable shape and type). -/
theorem program_accepted_iff (env : Nat → Mask) (p : Prog) : (∃ m, eval env p = .ok m) ↔ wf env p = true :=
  eval_ok_iff env p

/-- **Refinement without the success hypothesis.**  Every well-formed program evaluates, and its
mask is the index-level reading on every cell of the predicted shape. -/
theorem valid_program_total (env : Nat → Mask) (p : Prog) (h : wf env p = true) :
    ∃ m, eval env p = .ok m ∧ m.shape = shapeOf env p ∧
      ∀ j, inRange (shapeOf env p) j = true → m.get j = spec env p j := by
  obtain ⟨m, hm⟩ := (eval_ok_iff env p).mpr h
  obtain ⟨h1, h2⟩ := eval_spec env p m hm
  exact ⟨m, hm, h1, fun j hj => h2 j (by rw [h1]; exact hj)⟩

example : wf exEnv (.map (.rot 0 1 1) (.binF (.leaf 0) (.un (.leaf 1)))) = true := by decide
example : wf exEnv (.binF (.leaf 0) (.map (.take 0 0) (.leaf 1))) = false := by decide

/-! ## Results on a new cell set -/

/-- **`mean` / `integrate` / FFT family / temporary fields.**  A field built without `valid=`
(directional mean and integral, cumulative integral, `fftn`, `ifftn`, `rfftn`, the
`Field(mesh, value=3)` inside `f << 3`) is valid in every cell of its own shape, whatever the
operand's mask was. -/
theorem valid_fresh (env : Nat → Mask) (k : FreshOp) (p : Prog) (m : Mask) (h : eval env (.fresh k p) = .ok m) :
    ∃ m0, eval env p = .ok m0 ∧ k.ok m0.shape = true ∧ m.shape = k.shape m0.shape ∧
      ∀ j, inRange m.shape j = true → m.get j = true := by
  simp only [eval] at h
  split at h
  · cases h
  · rename_i m0 hm0
    split at h
    · rename_i hok
      obtain ⟨h1, h2⟩ := setMask_spec _ _ _ h
      refine ⟨m0, hm0, hok, h1, fun j hj => ?_⟩
      rw [h2 j (by rw [← h1]; exact hj)]
      simp [specMask]
    · cases h

example : run (.fresh (.reduce [0]) (.leaf 0)) = some ([3], [true, true, true]) := by decide
example : run (.fresh .rfft (.leaf 0)) = some ([2, 2], [true, true, true, true]) := by decide
example : run (.fresh (.reduce [0, 1]) (.leaf 0)) = none := by decide  -- mean over every direction is not a field

/-! ## Several field operands; compound operations -/

/-- **n-ary AND.**  A chain `((a ∘ x₀) ∘ x₁) ∘ …` of field-with-field combinations (Python's `sum`,
stacking with `<<`, a ufunc with several field inputs) is valid exactly where `a` and every `xᵢ`
are valid; all operands have the same cells. -/
theorem valid_nary_and (env : Nat → Mask) (acc : Prog) (xs : List Prog) (m : Mask)
    (h : eval env (chainF acc xs) = .ok m) :
    ∃ a, eval env acc = .ok a ∧ m.shape = a.shape ∧
      (∀ x ∈ xs, ∃ b, eval env x = .ok b ∧ b.shape = a.shape) ∧
      ∀ j, inRange a.shape j = true →
        (m.get j = true ↔ a.get j = true ∧ ∀ x ∈ xs, ∃ b, eval env x = .ok b ∧ b.get j = true) := by
  have hw := (eval_ok_iff env _).mp ⟨m, h⟩
  rw [chainF_wf, Bool.and_eq_true, List.all_eq_true] at hw
  obtain ⟨a, ha⟩ := (eval_ok_iff env acc).mpr hw.1
  obtain ⟨h1, h2⟩ := eval_spec env _ m h
  obtain ⟨h3, h4⟩ := eval_spec env acc a ha
  have hs : m.shape = a.shape := by rw [h1, chainF_shapeOf, h3]
  have each : ∀ x ∈ xs, ∃ b, eval env x = .ok b ∧ b.shape = a.shape ∧
      ∀ j, inRange a.shape j = true → b.get j = spec env x j := by
    intro x hx
    have := hw.2 x hx
    simp only [Bool.and_eq_true, decide_eq_true_eq] at this
    obtain ⟨b, hb⟩ := (eval_ok_iff env x).mpr this.1
    obtain ⟨h5, h6⟩ := eval_spec env x b hb
    have hbs : b.shape = a.shape := by rw [h5, h3, this.2]
    exact ⟨b, hb, hbs, fun j hj => h6 j (by rw [hbs]; exact hj)⟩
  refine ⟨a, ha, hs, fun x hx => (each x hx).imp fun b hb => ⟨hb.1, hb.2.1⟩, fun j hj => ?_⟩
  rw [h2 j (by rw [hs]; exact hj), chainF_spec, Bool.and_eq_true, List.all_eq_true, h4 j hj]
  constructor
  · rintro ⟨e1, e2⟩
    refine ⟨e1, fun x hx => ?_⟩
    obtain ⟨b, hb, _, hg⟩ := each x hx
    exact ⟨b, hb, by rw [hg j hj]; exact e2 x hx⟩
  · rintro ⟨e1, e2⟩
    refine ⟨e1, fun x hx => ?_⟩
    obtain ⟨b, hb, hbg⟩ := e2 x hx
    obtain ⟨b', hb', _, hg⟩ := each x hx
    rw [hb] at hb'; simp only [Except.ok.injEq] at hb'; subst hb'
    rw [← hg j hj]; exact hbg

example : run (chainF (.leaf 0) [.leaf 1, .un (.leaf 0), .leaf 1]) = some ([2, 3], [true, false, false, true, false, false]) := by
  decide

/-- **ufuncs.**  `np.add(f, g)`, `np.divmod(f, g)`, `np.float64(2) * f`, …: the result of a NumPy
ufunc is valid exactly where ALL its field inputs are valid (`np.logical_and.reduce`), for any
number of field inputs. -/
theorem valid_ufunc (env : Nat → Mask) (x : Prog) (xs : List Prog) (m : Mask)
    (h : eval env (ufuncProg (x :: xs)) = .ok m) (j : List Nat) (hj : inRange m.shape j = true) :
    m.get j = (x :: xs).all fun y => spec env y j := by
  rw [(eval_spec env _ m h).2 j hj]
  exact (ufuncProg_facts env x xs).2.1 j

/-- **`sum`.**  Python's `sum` of fields (`0 + x₀ + x₁ + …`, the form `div` and `laplace` use) is
valid exactly where every summand is. -/
theorem valid_sum (env : Nat → Mask) (x : Prog) (xs : List Prog) (m : Mask)
    (h : eval env (sumProg (x :: xs)) = .ok m) (j : List Nat) (hj : inRange m.shape j = true) :
    m.get j = (x :: xs).all fun y => spec env y j := by
  rw [(eval_spec env _ m h).2 j hj]
  simp only [sumProg]
  rw [chainF_spec]; rfl

example : run (ufuncProg [.leaf 0, .leaf 1, .leaf 0]) = run (.binF (.leaf 0) (.leaf 1)) := by decide

/-- **`grad`, any number of directions.**  The gradient of a scalar field on a mesh with `nd ≥ 1`
directions (derivatives stacked with `<<`) has the operand's validity — and is accepted whenever
the operand is. -/
theorem valid_grad (env : Nat → Mask) (nd : Nat) (hn : 0 < nd) (p : Prog) :
    (wf env (gradProg nd p) = wf env p) ∧ ∀ m, eval env (gradProg nd p) = .ok m →
      ∃ m0, eval env p = .ok m0 ∧ m.shape = m0.shape ∧ ∀ j, inRange m0.shape j = true → m.get j = m0.get j := by
  obtain ⟨h1, h2, h3⟩ := gradProg_facts env nd p hn
  exact ⟨h3, same_mask_of_spec env _ p h1 h2 (by rw [h3]; exact id)⟩

/-- **`div`, any number of components.**  The divergence (sum over the `nv ≥ 1` components of the
derivative of each component) has the operand's validity. -/
theorem valid_div (env : Nat → Mask) (nv : Nat) (hn : 0 < nv) (p : Prog) :
    (wf env (divProg nv p) = wf env p) ∧ ∀ m, eval env (divProg nv p) = .ok m →
      ∃ m0, eval env p = .ok m0 ∧ m.shape = m0.shape ∧ ∀ j, inRange m0.shape j = true → m.get j = m0.get j := by
  obtain ⟨h1, h2, h3⟩ := divProg_facts env nv p hn
  exact ⟨h3, same_mask_of_spec env _ p h1 h2 (by rw [h3]; exact id)⟩

/-- **`curl`.**  Three differences of derivatives of components, stacked: the operand's validity. -/
theorem valid_curl (env : Nat → Mask) (p : Prog) :
    (wf env (curlProg p) = wf env p) ∧ ∀ m, eval env (curlProg p) = .ok m →
      ∃ m0, eval env p = .ok m0 ∧ m.shape = m0.shape ∧ ∀ j, inRange m0.shape j = true → m.get j = m0.get j := by
  obtain ⟨h1, h2, h3⟩ := curlProg_facts env p
  exact ⟨h3, same_mask_of_spec env _ p h1 h2 (by rw [h3]; exact id)⟩

/-- **`laplace`, any number of directions and components.**  Per component the sum of the second
derivatives over all `nd ≥ 1` directions, the `nv ≥ 1` results stacked: the operand's validity. -/
theorem valid_laplace (env : Nat → Mask) (nd nv : Nat) (hd : 0 < nd) (hv : 0 < nv) (p : Prog) :
    (wf env (laplaceProg nd nv p) = wf env p) ∧ ∀ m, eval env (laplaceProg nd nv p) = .ok m →
      ∃ m0, eval env p = .ok m0 ∧ m.shape = m0.shape ∧ ∀ j, inRange m0.shape j = true → m.get j = m0.get j := by
  obtain ⟨h1, h2, h3⟩ := laplaceProg_facts env nd nv p hd hv
  exact ⟨h3, same_mask_of_spec env _ p h1 h2 (by rw [h3]; exact id)⟩

example : run (gradProg 2 (.leaf 0)) = run (.un (.leaf 0)) ∧ run (divProg 2 (.leaf 0)) = run (.un (.leaf 0)) ∧
    run (curlProg (.leaf 0)) = run (.un (.leaf 0)) ∧ run (laplaceProg 2 3 (.leaf 0)) = run (.un (.leaf 0)) ∧
    run (laplaceProg 2 1 (.leaf 0)) = run (.un (.leaf 0)) := by decide

/-- **Number operands that become fields, reflected operators.**  `f << 3` and `3 << f` (the
number is first turned into an all-valid field on the same mesh and then combined), `other - f`
(`-f + other`) and `other & f` (`-(f & other)`) carry `f`'s validity. -/
theorem valid_reflected (env : Nat → Mask) (p : Prog) (P : Prog)
    (hP : P = lshiftConstProg p ∨ P = rlshiftConstProg p ∨ P = rsubProg p ∨ P = rcrossProg p) (m : Mask)
    (h : eval env P = .ok m) :
    ∃ m0, eval env p = .ok m0 ∧ m.shape = m0.shape ∧ ∀ j, inRange m0.shape j = true → m.get j = m0.get j := by
  rcases hP with rfl | rfl | rfl | rfl
  · exact same_mask_of_spec env (lshiftConstProg p) p rfl (fun j => by simp [lshiftConstProg, spec])
      (by simp only [lshiftConstProg, wf, Bool.and_eq_true]; tauto) m h
  · exact same_mask_of_spec env (rlshiftConstProg p) p rfl (fun j => by simp [rlshiftConstProg, spec])
      (by simp only [rlshiftConstProg, wf, Bool.and_eq_true]; tauto) m h
  · exact same_mask_of_spec env (rsubProg p) p rfl (fun j => rfl) (by simp [rsubProg, wf]) m h
  · exact same_mask_of_spec env (rcrossProg p) p rfl (fun j => rfl) (by simp [rcrossProg, wf]) m h

example : run (lshiftConstProg (.leaf 0)) = run (.un (.leaf 0)) ∧ run (rlshiftConstProg (.leaf 1)) = run (.un (.leaf 1)) := by
  decide

/-- **The constructor route.**  Every operation ends in `Field(..., valid=<Boolean array>)`, i.e. in
the setter with an array of the mesh shape: what is stored is a copy (`own`) of exactly that
array — `True` where it was `True`, `False` where it was `False`. -/
theorem ctor_route_stores_copy (m : Mask) : setMask m.shape (.arr (asArr m)) = .ok (own m) :=
  setMask_asArr m

/-- **Re-assigning a mask changes nothing.**  `g.valid = f.valid` for a mask the setter produced:
same shape, same value in every cell (`f.valid = f.valid` is the identity on validity). -/
theorem setter_idempotent (n : List Nat) (s : MSpec) (m : Mask) (h : setMask n s = .ok m) :
    ∃ m', setMask n (.arr (asArr m)) = .ok m' ∧ m'.shape = n ∧ ∀ j, inRange n j = true → m'.get j = m.get j := by
  have hs := (setMask_spec n s m h).1
  refine ⟨own m, by rw [← hs]; exact setMask_asArr m, hs, fun j hj => own_get m j (by rw [hs]; exact hj)⟩

example : setMask [2, 3] (.arr (asArr (exEnv 0))) = .ok (own (exEnv 0)) := ctor_route_stores_copy (exEnv 0)

/-- **`'norm'` on empty cells.**  A cell whose stored value is the zero vector (any number of
components) is invalid after `valid = 'norm'`. -/
theorem setter_norm_zero (f g : Fld) (h : setValid f .norm = .ok g) (j : List Nat) (hj : inRange f.mesh.n j = true)
    (hz : ∀ c ∈ f.data.get j, c = 0) : g.valid.get j = false := by
  have hsq : sumSq (f.data.get j) = 0 := by
    generalize f.data.get j = l at hz
    induction l with
    | nil => rfl
    | cons c cs ih =>
      simp only [sumSq]
      rw [hz c (by simp), ih (fun x hx => hz x (by simp [hx]))]; simp
  have := (setter_norm f g h j hj).not
  rw [hsq] at this
  have hn : ¬ (atol * atol < (0 : Rat)) := by unfold atol; norm_num
  simpa using this.mpr hn

/-! ## Sessions: ownership over whole histories with in-place changes

A session is a history of statements over numbered variables: `x_new = <expression>`,
`x_i.valid = spec`, `x_i.rotate90(..., inplace=True)`, `x_i.valid[idx] = v`.  Every statement
reads its operands' masks from the store as it is at that moment. -/

/-- **Invariant, all histories.**  After any history from any input fields: every variable names
an object, every object's mask buffer lies in the store, and two variables read the same buffer
exactly when they are names of ONE object (which only `y = +x` creates). -/
theorem session_invariant (leaves : List Mask) (h : List Stmt) (st : Sess) (hr : (Sess.init leaves).run h = .ok st) :
    (∀ i, i < st.vars.length → st.objOf i < st.objs.length ∧ st.addrOf i < st.store.length) ∧
    ∀ i j, i < st.vars.length → j < st.vars.length → (st.addrOf i = st.addrOf j ↔ st.objOf i = st.objOf j) := by
  have hI := Sess.run_inv h _ st (Sess.init_inv leaves) hr
  refine ⟨fun i hi => ⟨hI.vars_lt i hi, hI.addr_lt _ (hI.vars_lt i hi)⟩, fun i j hi hj => ⟨fun he => ?_, fun he => ?_⟩⟩
  · exact hI.addr_inj _ _ (hI.vars_lt i hi) (hI.vars_lt j hj) he
  · unfold Sess.addrOf; rw [he]

/-- **Write-through, at any point of any history.**  `x_i.valid[idx] = v` leaves the mask of every
variable that is not a name of the same object exactly as it was. -/
theorem session_write_isolated (leaves : List Mask) (h : List Stmt) (st st' : Sess)
    (hr : (Sess.init leaves).run h = .ok st) (i pos : Nat) (v : Bool) (hs : st.step (.poke i pos v) = .ok st')
    (j : Nat) (hj : j < st.vars.length) (hne : st.objOf j ≠ st.objOf i) : st'.mask j = st.mask j :=
  Sess.poke_other st st' (Sess.run_inv h _ st (Sess.init_inv leaves) hr) i pos v hs j hj hne

/-- **Assigning validity in place.**  `x_i.valid = spec` at any point of any history: the argument
is judged against the shape of `x_i`; afterwards every name of that object reads the new mask,
every other variable reads what it read before, and the old buffer is still in the store,
untouched (the store only grew). -/
theorem session_assign (leaves : List Mask) (h : List Stmt) (st st' : Sess)
    (hr : (Sess.init leaves).run h = .ok st) (i : Nat) (s : MSpec) (hs : st.step (.assign i s) = .ok st') :
    ∃ m, setMask (st.shapeOfVar i) s = .ok m ∧
      (∀ j, j < st.vars.length → st.objOf j ≠ st.objOf i → st'.mask j = st.mask j) ∧
      (∀ j, st.objOf j = st.objOf i → st'.mask j = m.force false) ∧
      st'.store = st.store ++ [m.toList] :=
  (Sess.assign_effect st st' (Sess.run_inv h _ st (Sess.init_inv leaves) hr) i s hs).imp
    fun _ hm => ⟨hm.1, hm.2.1, hm.2.2.1, hm.2.2.2.1⟩

/-- **In-place quarter turn.**  `x_i.rotate90(ax1, ax2, k, inplace=True)` stores the turned mask
(the same `rot90` as for the values) in a new buffer of the same object; no other object's mask
changes. -/
theorem session_rotate_inplace (leaves : List Mask) (h : List Stmt) (st st' : Sess)
    (hr : (Sess.init leaves).run h = .ok st) (i a b : Nat) (k : Int) (hs : st.step (.rotI i a b k) = .ok st') :
    (∀ j, j < st.vars.length → st.objOf j ≠ st.objOf i → st'.mask j = st.mask j) ∧
    (∀ j, st.objOf j = st.objOf i → st'.mask j = (own ((MapOp.rot a b k).apply (st.mask i) false)).force false) :=
  let e := Sess.rotI_effect st st' (Sess.run_inv h _ st (Sess.init_inv leaves) hr) i a b k hs
  ⟨e.2.1, e.2.2.1⟩

/-- **Building a field.**  `x_new = <expression over the variables>` evaluates the expression on
the masks the variables have NOW, changes no existing variable, and — unless the expression is a
variable itself behind unary plus — the new variable is a new object whose buffer was not in the
store before. -/
theorem session_build (leaves : List Mask) (h : List Stmt) (st st' : Sess)
    (hr : (Sess.init leaves).run h = .ok st) (p : Prog) (hs : st.step (.build p) = .ok st') :
    ∃ m, eval st.mask p = .ok m ∧
      (∀ j, j < st.vars.length → st'.mask j = st.mask j) ∧
      (aliasOf p = none → st'.mask st.vars.length = m.force false ∧ st'.objOf st.vars.length = st.objs.length ∧
        st'.addrOf st.vars.length = st.store.length) := by
  obtain ⟨m, h1, h2, _, h4, _⟩ := Sess.build_effect st st' (Sess.run_inv h _ st (Sess.init_inv leaves) hr) p hs
  exact ⟨m, h1, fun j hj => (h2 j hj).1, h4⟩

/-- **Without unary plus every variable is its own object**, after any history. -/
theorem session_distinct_without_plus (leaves : List Mask) (h : List Stmt) (st : Sess)
    (hr : (Sess.init leaves).run h = .ok st) (ha : (h.all fun s => !s.aliases) = true) (i j : Nat)
    (hi : i < st.vars.length) (hj : j < st.vars.length) (he : st.objOf i = st.objOf j) : i = j :=
  Sess.run_distinct h _ st (Sess.init_inv leaves) (Sess.init_distinct leaves) ha hr i j hi hj he

/-- **A result's validity is its own — over whole histories.**  Take any history without unary
plus, any variable `j` that exists at some point of it, and ANY continuation in which no
statement is an in-place change of `j` itself: builds of new fields from `j`, assignments,
in-place rotations and element writes on every other variable (operands and results alike).
At the end `j` reads exactly the mask it read at that point. -/
theorem session_ownership (leaves : List Mask) (h1 h2 : List Stmt) (st st' : Sess)
    (hr1 : (Sess.init leaves).run h1 = .ok st) (ha1 : (h1.all fun s => !s.aliases) = true) (j : Nat)
    (hj : j < st.vars.length) (ha2 : (h2.all fun s => !s.aliases && decide (s.target ≠ some j)) = true)
    (hr2 : st.run h2 = .ok st') : st'.mask j = st.mask j :=
  Sess.run_keeps h2 j st st' (Sess.run_inv h1 _ st (Sess.init_inv leaves) hr1)
    (Sess.run_distinct h1 _ st (Sess.init_inv leaves) (Sess.init_distinct leaves) ha1 hr1) hj ha2 hr2

/-- **Unary plus (code as it stands, D7).**  `y = +x_i` gives a second name to the object of
`x_i`: a later write through `y` is a write into `x_i`'s buffer. -/
theorem session_unary_plus_shares (st st1 st2 : Sess) (i pos : Nat) (v : Bool)
    (h1 : st.step (.build (.pos (.leaf i))) = .ok st1) (h2 : st1.step (.poke st.vars.length pos v) = .ok st2) :
    st1.objOf st.vars.length = st.objOf i ∧
    st2.store.getD (st2.addrOf i) [] = (st1.store.getD (st1.addrOf i) []).set pos v := by
  have e1 : st1 = { st with vars := st.vars ++ [st.objOf i] } := by
    simp only [Sess.step] at h1
    split at h1
    · cases h1
    · simp only [eval, aliasOf, Except.ok.injEq] at h1; exact h1.symm
  have ho : st1.objOf st.vars.length = st.objOf i := by
    subst e1; exact getD_append_len _ _ _
  have hi : i < st.vars.length := by
    simp only [Sess.step] at h1
    split at h1
    · cases h1
    · rename_i hl; simpa [leavesLt] using hl
  have ho' : st1.objOf i = st.objOf i := by
    subst e1; exact getD_append_lt _ _ _ _ hi
  exact ⟨ho, (Sess.poke_same st1 st2 _ pos v h2 i (by rw [ho', ho])).2⟩

example : (match (Sess.init [exEnv 0, exEnv 1]).run
      [.build (.binF (.leaf 0) (.leaf 1)), .poke 2 0 false, .assign 0 (.const 0), .rotI 1 0 1 1, .build (.un (.leaf 2))] with
    | .ok st => some (st.vars, (st.mask 0).toList, (st.mask 1).shape, (st.mask 2).toList, (st.mask 3).toList)
    | .error _ => none)
    = some ([0, 1, 2, 3], [false, false, false, false, false, false], [3, 2],
            [false, false, false, true, false, false], [false, false, false, true, false, false]) := by decide
example : (match (Sess.init [exEnv 0]).run [.build (.pos (.leaf 0)), .poke 1 1 true] with
    | .ok st => some (st.vars, (st.mask 0).toList)
    | .error _ => none) = some ([0, 0], [true, true, true, true, true, false]) := by decide

/-! ## A field as validity; laws of the mapping operations -/

/-- **A Boolean field as validity.**  `valid = <scalar field of Booleans on a mesh whose region
contains this one>` (what `resample` hands to the constructor) is accepted, gives the mesh shape,
and every cell reads the field's cell whose centre is nearest to its own, axis by axis — a cell
INSIDE the field's array. -/
theorem setter_field_lookup (n : List Nat) (src : Mask) (cs xs : Nat → Nat → Rat) (hl : src.shape.length = n.length)
    (hpos : ∀ b, b < src.shape.length → 0 < src.shape.getD b 0) :
    ∃ m, setMask n (.lookup src true cs xs) = .ok m ∧ m.shape = n ∧
      ∀ j, inRange n j = true → inRange src.shape (lookupIdx src.shape cs xs j) = true ∧
        m.get j = src.get (lookupIdx src.shape cs xs j) := by
  obtain ⟨m, hm⟩ := (setMask_ok_iff n (.lookup src true cs xs)).mpr (by simp [MSpec.ok, hl])
  obtain ⟨h1, h2⟩ := setMask_spec _ _ _ hm
  exact ⟨m, hm, h1, fun j hj => ⟨lookupIdx_inRange _ _ _ _ hpos, h2 j hj⟩⟩

/-- **`resample` IS the setter with a field.**  `field.py` resamples the validity by handing
`Field(self.mesh, nvdim=1, value=self.valid, dtype=bool)` as `valid=` to the constructor on the new
mesh; with both meshes on the same region (any corner `lo`, any edge lengths `E > 0`) the stored
mask is exactly the mapping operation `resample` applied to the mask, for all shapes. -/
theorem resample_is_field_setter (m : Mask) (n' : List Nat) (hl : m.shape.length = n'.length) (lo E : Nat → Rat)
    (hE : ∀ b, 0 < E b) :
    setMask n' (.lookup m true (fun b k => lo b + ((k : Rat) + 1 / 2) * (E b / (m.shape.getD b 0 : Rat)))
        (fun b k => lo b + ((k : Rat) + 1 / 2) * (E b / (n'.getD b 0 : Rat))))
      = .ok (own ((MapOp.resample n').apply m false)) :=
  setMask_lookup_resample m n' hl lo E hE

example : (match setMask [4, 2] (.lookup (exEnv 0) true (fun _ k => ((k : Rat) + 1 / 2) * (1 / ([2, 3].getD 0 0 : Rat)))
      (fun b k => ((k : Rat) + 1 / 2) * (1 / ([4, 2].getD b 0 : Rat)))) with
    | .ok m => some m.shape
    | .error _ => none) = some [4, 2] := by decide
example : (match setMask [4, 2] (.lookup (exEnv 0) false (fun _ _ => 0) (fun _ _ => 0)) with
    | .ok _ => true
    | .error _ => false) = false := by decide

/-- **Padding and taking the original block back.**  For every pad mode and all widths,
`f.pad(w, mode)[region of f]` (also the `out[slices]` step of `diff` on a periodic mesh) has
exactly `f`'s validity; it is accepted whenever `f` is, has one width pair per axis and no empty
axis. -/
theorem pad_then_crop_back (env : Nat → Mask) (mode : PadMode) (w : List (Nat × Nat)) (p : Prog) :
    (wf env p = true → w.length = (shapeOf env p).length →
      (∀ b, b < (shapeOf env p).length → 0 < (shapeOf env p).getD b 0) →
      wf env (.map (unpad w (shapeOf env p)) (.map (.pad mode w) p)) = true) ∧
    ∀ m, eval env (.map (unpad w (shapeOf env p)) (.map (.pad mode w) p)) = .ok m →
      ∃ m0, eval env p = .ok m0 ∧ m.shape = m0.shape ∧ ∀ j, inRange m0.shape j = true → m.get j = m0.get j := by
  obtain ⟨h1, h2, h3, h4⟩ := unpad_pad_facts env mode w p
  exact ⟨h4, same_mask_of_spec_in env _ p h1 h2 h3⟩

example : run (.map (unpad [(2, 1), (0, 3)] [2, 3]) (.map (.pad .symmetric [(2, 1), (0, 3)]) (.leaf 0))) = run (.un (.leaf 0)) := by
  decide

/-- **Well-formed arguments are accepted.**  `None`, `'norm'`, any number, any callable and any
array of the mesh shape are accepted by the setter on EVERY field (no hypothesis on the field). -/
theorem setValid_accepts (f : Fld) (s : VSpec)
    (hs : s = .none ∨ s = .norm ∨ (∃ v, s = .const v) ∨ (∃ fn, s = .func fn) ∨ ∃ a, s = .arr a ∧ a.shape = f.mesh.n) :
    ∃ g, setValid f s = .ok g := by
  rcases hs with rfl | rfl | ⟨v, rfl⟩ | ⟨fn, rfl⟩ | ⟨a, rfl, ha⟩
  · exact ⟨_, rfl⟩
  · exact ⟨_, rfl⟩
  · exact ⟨_, rfl⟩
  · exact ⟨_, rfl⟩
  · exact ⟨_, by simp only [setValid, toMSpec, setMask, if_pos ha]; rfl⟩

example : ∃ g, setValid exFld .norm = .ok g := setValid_accepts exFld .norm (Or.inr (Or.inl rfl))

/-! ## Step by step = inlined -/

/-- **Compositions: step-by-step evaluation is evaluation of the inlined expression.**  Let the
inputs of `p` be results of earlier programs `σ k` that evaluate to the masks `vals k`.  Then
running `p` on those stored results and running the single inlined expression `p.subst σ` on the
original input fields accept exactly the same programs and produce the same shape and the same
validity in every cell — for all programs, by induction (the index-level reading commutes with
substitution, and evaluation depends only on shapes and in-range entries of its inputs). -/
theorem stepwise_is_inlined (env vals : Nat → Mask) (σ : Nat → Prog) (hσ : ∀ k, eval env (σ k) = .ok (vals k))
    (p : Prog) :
    ((∃ m, eval env (p.subst σ) = .ok m) ↔ ∃ m', eval vals p = .ok m') ∧
    ∀ m m', eval env (p.subst σ) = .ok m → eval vals p = .ok m' →
      m.shape = m'.shape ∧ ∀ j, inRange m'.shape j = true → m.get j = m'.get j :=
  eval_subst env vals σ hσ p

example : ∀ k, eval exEnv ((fun k => Prog.un (.leaf k)) k) = .ok ((fun k => own (exEnv k)) k) := fun _ => rfl
example : (Prog.binF (.leaf 0) (.map (.rot 0 1 2) (.leaf 1))).subst (fun k => .un (.leaf k))
    = .binF (.un (.leaf 0)) (.map (.rot 0 1 2) (.un (.leaf 1))) := rfl

/-! ## Sessions with mesh objects: what a result shares with its operand, and what it owns

`field.py` hands `self.mesh` to the constructor in every operation that keeps the cells: the result
holds a reference to the SAME `Mesh` object as its operand, but a validity buffer of its own.
`SessM` adds the mesh objects to the sessions: object ↦ mesh object ↦ cells per axis. -/

/-- **The masks are those of the plain session.**  Running a history with the mesh bookkeeping is
running it without (so every session theorem above applies to `st'.base`), and the bookkeeping never
refuses a statement the plain session accepts. -/
theorem session_mesh_conservative (leaves : List Mask) (h : List Stmt) :
    (∀ st', (SessM.init leaves).run h = .ok st' → (Sess.init leaves).run h = .ok st'.base) ∧
    ∀ (st : SessM) (s : Stmt) (b : Sess), st.base.step s = .ok b → ∃ st', st.step s = .ok st' ∧ st'.base = b :=
  ⟨fun st' hr => SessM.run_base h _ st' hr, fun st s b hb => SessM.step_total st s b hb⟩

/-- **`x.valid.shape == x.mesh.n`, all histories.**  After any history of builds, assignments,
element writes and in-place quarter turns — on fields that share their `Mesh` object with operands
and results alike — every variable's validity has exactly the cells of the mesh object it holds
(repo fix d0059dba: the turned field gets a NEW mesh object). -/
theorem session_mesh_consistent (leaves : List Mask) (h : List Stmt) (st : SessM)
    (hr : (SessM.init leaves).run h = .ok st) (i : Nat) (hi : i < st.base.vars.length) :
    st.meshObj i < st.meshN.length ∧ (st.base.mask i).shape = st.meshNOf i := by
  have hI := SessM.run_inv h _ st (SessM.init_inv leaves) hr
  have ho := hI.base.vars_lt i hi
  exact ⟨hI.lt _ ho, (hI.shape _ ho).symm⟩

/-- **Mesh objects are never mutated.**  Whatever a continuation does (in-place quarter turns of
fields that share the mesh included), a mesh object that exists keeps its cells per axis: the table
of mesh objects only grows. -/
theorem session_mesh_immutable (st st' : SessM) (h : List Stmt) (hr : st.run h = .ok st') (o : Nat)
    (ho : o < st.meshN.length) : st'.meshN.getD o [] = st.meshN.getD o [] := by
  obtain ⟨ext, he⟩ := SessM.run_meshN h st st' hr
  rw [he]; exact getD_append_lt _ _ _ _ ho

/-- **What a built field shares.**  `x_new = <expression>` at any point of any history: every
existing variable keeps its mesh object; the new field holds the mesh object of the variable
`meshOf` names (unary / derived / binary operations, the left operand's) — while its validity
buffer is new (`session_build`) — or, for cell-mapping operations, file round trips, directional
means and the FFT family, a mesh object that did not exist before. -/
theorem session_build_shares_mesh (leaves : List Mask) (h : List Stmt) (st st' : SessM)
    (hr : (SessM.init leaves).run h = .ok st) (p : Prog) (hs : st.step (.build p) = .ok st') :
    (∀ j, j < st.base.vars.length → st'.meshObj j = st.meshObj j) ∧
    (∀ k, meshOf p = some k → st'.meshObj st.base.vars.length = st.meshObj k) ∧
    (meshOf p = none → st'.meshObj st.base.vars.length = st.meshN.length) :=
  SessM.build_mesh st st' (SessM.run_inv h _ st (SessM.init_inv leaves) hr) p hs

/-- **An in-place quarter turn un-shares the mesh.**  `x_i.rotate90(..., inplace=True)` at any point of
any history: the names of the turned object get a mesh object that did not exist before; every
other variable — also one that shared the mesh object with `x_i` — keeps its mesh object, whose
cells are unchanged, and its mask. -/
theorem session_rotate_unshares_mesh (leaves : List Mask) (h : List Stmt) (st st' : SessM)
    (hr : (SessM.init leaves).run h = .ok st) (i a b : Nat) (k : Int) (hs : st.step (.rotI i a b k) = .ok st') :
    (∀ j, st.base.objOf j = st.base.objOf i → st'.meshObj j = st.meshN.length) ∧
    (∀ j, j < st.base.vars.length → st.base.objOf j ≠ st.base.objOf i →
      st'.meshObj j = st.meshObj j ∧ st'.meshNOf j = st.meshNOf j ∧ st'.base.mask j = st.base.mask j) := by
  have hI := SessM.run_inv h _ st (SessM.init_inv leaves) hr
  obtain ⟨h1, h2⟩ := SessM.rotI_mesh st st' hI i a b k hs
  refine ⟨h2, fun j hj hne => ⟨h1 j hj hne, ?_, ?_⟩⟩
  · unfold SessM.meshNOf
    rw [h1 j hj hne]
    exact session_mesh_immutable st st' [.rotI i a b k] (by simp only [SessM.run, hs]) _ (hI.lt _ (hI.base.vars_lt j hj))
  · exact (Sess.rotI_effect st.base st'.base hI.base i a b k (SessM.step_base st st' _ hs)).2.1 j hj hne

/-- assignments `x.valid = spec` and element writes `x.valid[idx] = v` leave every mesh reference and
every mesh object alone -/
theorem session_assign_poke_keep_mesh (st st' : SessM) (s : Stmt)
    (hs : (∃ i sp, s = .assign i sp) ∨ ∃ i pos v, s = .poke i pos v) (h : st.step s = .ok st') :
    st'.meshes = st.meshes ∧ st'.meshN = st.meshN ∧ ∀ j, st'.meshObj j = st.meshObj j :=
  SessM.assign_poke_mesh st st' s hs h

/-- `g = -f; g.rotate90('x', 'y', inplace=True)`: afterwards `f` and `g` hold different mesh objects, `f` still
2 × 3 cells, `g` 3 × 2 -/
example : (match (SessM.init [exEnv 0]).run [.build (.un (.leaf 0)), .rotI 1 0 1 1] with
    | .ok st => some (st.meshObj 0, st.meshObj 1, st.meshNOf 0, st.meshNOf 1)
    | .error _ => none) = some (0, 1, [2, 3], [3, 2]) := by decide
example : (match (SessM.init [exEnv 0]).run [.build (.un (.leaf 0)), .rotI 1 0 1 1] with
    | .ok st => some ((st.base.mask 0).shape, (st.base.mask 1).shape)
    | .error _ => none) = some ([2, 3], [3, 2]) := by decide
/-- before the turn both held mesh object 0; a sum and a slice: the sum shares, the slice does not -/
example : (match (SessM.init [exEnv 0, exEnv 1]).run [.build (.binF (.leaf 1) (.leaf 0)), .build (.map (.slice 1 0 2) (.leaf 2))] with
    | .ok st => some (st.meshObj 2, st.meshObj 3, st.meshNOf 3)
    | .error _ => none) = some (1, 2, [2, 2]) := by decide
/-- contrast — the behaviour before the fix (`rotIOld` turns the shared mesh object): `f`'s validity
keeps 2 × 3 cells on a mesh that now says 3 × 2 -/
example : (match (SessM.init [exEnv 0]).step (.build (.un (.leaf 0))) with
    | .ok st => (match st.rotIOld 1 0 1 1 with
      | .ok st' => some (st'.meshNOf 0, (st'.base.mask 0).shape)
      | .error _ => none)
    | .error _ => none) = some ([3, 2], [2, 3]) := by decide

/-- **Shared mesh, own validity.**  A field built by an operation that keeps the cells (`meshOf p =
some k`, the expression is not just a variable behind unary plus) at any point of any history holds
the SAME mesh object as variable `k` — and a validity buffer that no existing variable reads: its
address is new, so writing through it (`session_write_isolated`) or re-assigning it reaches nobody
else, while an in-place quarter turn of either field gives that field a mesh of its own
(`session_rotate_unshares_mesh`). -/
theorem session_result_shares_mesh_not_validity (leaves : List Mask) (h : List Stmt) (st st' : SessM)
    (hr : (SessM.init leaves).run h = .ok st) (p : Prog) (k : Nat) (hs : st.step (.build p) = .ok st')
    (hm : meshOf p = some k) (ha : aliasOf p = none) :
    st'.meshObj st.base.vars.length = st'.meshObj k ∧
    ∀ j, j < st.base.vars.length → st'.base.addrOf st.base.vars.length ≠ st'.base.addrOf j := by
  have hI := SessM.run_inv h _ st (SessM.init_inv leaves) hr
  obtain ⟨m1, m2, _⟩ := SessM.build_mesh st st' hI p hs
  have hb := SessM.step_base st st' _ hs
  obtain ⟨m, hm', hl, _⟩ := Sess.step_objs st.base st'.base (.build p) hb
  have hk : k < st.base.vars.length := meshOf_lt _ p k hm hl
  refine ⟨by rw [m2 k hm, m1 k hk], fun j hj => ?_⟩
  have hI' := SessM.step_inv st st' _ hI hs
  obtain ⟨_, _, e2, e3, e4, _⟩ := Sess.build_effect st.base st'.base hI.base p hb
  have hnew : st'.base.objOf st.base.vars.length = st.base.objs.length := (e4 ha).2.1
  have hold : st'.base.objOf j = st.base.objOf j := (e2 j hj).2
  intro he
  have := hI'.base.addr_inj _ _ (hI'.base.vars_lt _ (by omega)) (hI'.base.vars_lt j (by omega)) he
  have hlt := hI.base.vars_lt j hj
  unfold Sess.objOf at hnew hold this
  rw [hnew, hold] at this
  omega

/-- **A statement is accepted iff it is well formed** in the state it meets: a build when the
variables it names exist and the expression is well formed on the masks they have NOW
(`program_accepted_iff`), an assignment when the argument fits the target's cells
(`setter_accepted_iff`), an in-place quarter turn when it names two different axes of the target,
an element write when the target exists — for every state, hence at every point of every history. -/
theorem session_step_accepted_iff (st : Sess) (s : Stmt) : (∃ st', st.step s = .ok st') ↔ stmtOk st s = true :=
  Sess.step_ok_iff st s

example : stmtOk (Sess.init [exEnv 0, exEnv 1]) (.build (.binF (.leaf 0) (.map (.rot 0 1 1) (.leaf 1)))) = false ∧
    stmtOk (Sess.init [exEnv 0, exEnv 1]) (.build (.binF (.leaf 0) (.map (.rot 0 1 2) (.leaf 1)))) = true ∧
    stmtOk (Sess.init [exEnv 0]) (.assign 0 (.arr (NDA.const [3, 1] 1))) = true ∧
    stmtOk (Sess.init [exEnv 0]) (.assign 0 (.arr (NDA.const [3, 2] 1))) = false ∧
    stmtOk (Sess.init [exEnv 0]) (.rotI 0 1 1 1) = false ∧ stmtOk (Sess.init [exEnv 0]) (.poke 1 0 true) = false := by decide

/-! ## The setter as one total function: refusal iff malformed -/

/-- **Accepted iff well formed (every argument kind of the property's list).**  `None`, a number,
an array (shape `n`, or a trailing axis 1 that broadcasts), a callable, `'norm'`, a Boolean field on
a containing region: the setter accepts the argument exactly when `MSpec.ok` holds — anything else
(other shapes, other strings, other objects, a field that does not contain the region) is refused,
and nothing is stored. -/
theorem setter_accepted_iff (n : List Nat) (s : MSpec) : (∃ m, setMask n s = .ok m) ↔ s.ok n = true :=
  setMask_ok_iff n s

/-- the same at field level, for every field: `field.valid = spec` is accepted iff the argument is
well formed for the field's mesh -/
theorem setValid_accepted_iff (f : Fld) (s : VSpec) :
    (∃ g, setValid f s = .ok g) ↔ (toMSpec f s).ok f.mesh.n = true := by
  rw [← setMask_ok_iff]
  unfold setValid
  constructor
  · rintro ⟨g, hg⟩
    split at hg
    · cases hg
    · rename_i m hm; exact ⟨m, hm⟩
  · rintro ⟨m, hm⟩
    rw [hm]; exact ⟨_, rfl⟩

example : (toMSpec exFld (.arr (NDA.const [2, 1, 1] 1))).ok exFld.mesh.n = true ∧
    (toMSpec exFld (.arr (NDA.const [1, 2] 1))).ok exFld.mesh.n = false ∧ (toMSpec exFld .bad).ok exFld.mesh.n = false := by
  decide

/-- **A dictionary over the subregions, cell by cell.**  `valid = {name: value, …, "default": …}` (the
`dict` branch of `_as_array`, which paints the subregions in REVERSED order): if accepted, the mask
has the mesh shape and every cell holds what the FIRST subregion (in the order of the mesh) that
is a key and contains the cell assigns to it — read inside that subregion's own block — and the
default where no such subregion exists. -/
theorem dict_setter_first_wins (n : List Nat) (d : DictSpec) (m : Mask) (h : setMaskDict n d = .ok m) :
    m.shape = n ∧ ∀ j, inRange n j = true → m.get j = dictCell d.dflt d.subs j :=
  setMaskDict_spec n d m h

/-- **The setter, every argument kind, dictionaries included: accepted iff well formed.**  A
dictionary is well formed when every value is acceptable on the block of its own subregion and
either every cell lies in a subregion that is a key or a default is given. -/
theorem setter_any_accepted_iff (n : List Nat) (a : SetArg) : (∃ m, setMaskAny n a = .ok m) ↔ a.ok n = true :=
  setMaskAny_ok_iff n a

/-- overlapping subregions, the first wins; a callable default on the uncovered cells -/
example : (match setMaskDict [4, 2]
      { dflt := .func fun j => j.getD 1 0 == 1,
        subs := [⟨[1, 0], [3, 1], some (.const 1)⟩, ⟨[2, 0], [4, 2], some (.const 0)⟩] } with
    | .ok m => some m.toList
    | .error _ => none) = some [false, true, true, true, true, false, false, false] := by decide
example : DictSpec.ok [4, 2] { dflt := .none, subs := [⟨[1, 0], [3, 1], some (.const 1)⟩] } = false ∧
    DictSpec.ok [4, 2] { dflt := .none, subs := [⟨[0, 0], [4, 2], none⟩, ⟨[0, 0], [4, 2], some (.cells fun _ => true)⟩] } = true ∧
    DictSpec.ok [4, 2] { dflt := .const 1, subs := [⟨[1, 0], [3, 1], some (.arr (NDA.const [2, 2] 1))⟩] } = false := by
  decide

/-- **The dictionary at field level** (`mesh[name]` and `region2slices` are the C07 model's): an
accepted assignment changes nothing but the mask, which has the mesh shape. -/
theorem setValidDict_keeps_data (f g : Fld) (dflt : DDef) (val : List (String × DVal))
    (h : setValidDict f dflt val = .ok g) :
    g.data = f.data ∧ g.mesh = f.mesh ∧ g.nvdim = f.nvdim ∧ g.vdims = f.vdims ∧ g.vmap = f.vmap ∧ g.unit = f.unit ∧
      g.valid.shape = f.mesh.n := by
  unfold setValidDict at h
  split at h
  · cases h
  · split at h
    · cases h
    · rename_i es _ m hm
      simp only [Except.ok.injEq] at h; subst h
      exact ⟨rfl, rfl, rfl, rfl, rfl, rfl, (setMaskDict_spec _ _ _ hm).1⟩

example : validOf (setValidDict exF (.func fun p => decide (p.getD 1 0 < 1)) [("b", .const 0), ("a", .const 1)])
    = some ([4, 2], [true, false, true, false, true, false, false, false]) := by decide +kernel
example : isOk (setValidDict exF .none [("a", .const 1)]) = false ∧ isOk (setValidDict exF (.const 0) [("a", .bad)]) = false := by
  decide +kernel

/-! ## The object-level link: the field-level models hand exactly these arrays to the constructor -/

/-- a mapping operation applied to one input field, in terms of the evaluator: the stored mask is
the copy of `op.apply` of the operand's mask -/
theorem eval_map_leaf (env : Nat → Mask) (op : MapOp) (k : Nat) (hok : op.ok (env k).shape = true) :
    eval env (.map op (.leaf k)) = .ok (own (op.apply (env k) false)) := by
  simp only [eval, hok, if_true]

/-- **C03 (field algebra), every expression.**  Take any expression of the C03 model — operators in
forward and reflected form, NumPy ufuncs, `dot`, `cross`, `angle`, `<<`, unary operations, numbers /
arrays / NumPy objects as operands, in any nesting — over fields whose validity has their mesh's
shape.  If the C03 model (the operator paths of `field.py`) evaluates it to a field `g`, then the
C08 evaluator accepts the translated validity program `progOf e` on the fields' masks, and its
mask IS `g.valid`: same shape, same entry in every cell; and `g.valid` has the shape of `g`'s mesh. -/
theorem link_c03_expression (env : C03.Env) (henv : ∀ (k : Nat) (f : C03.CF), env.fields[k]? = some f → f.valid.shape = f.mesh.n)
    (e : C03.Expr) (g : C03.CF) (h : C03.evalF env e = .ok (.fld g)) :
    g.valid.shape = g.mesh.n ∧ ∃ m, eval (maskEnv env) (progOf e) = .ok m ∧ m.shape = g.valid.shape ∧
      ∀ j, inRange m.shape j = true → m.get j = g.valid.get j := by
  obtain ⟨_, hinv, m, hm, hme⟩ := expr_link env henv e _ h
  exact ⟨hinv, m, hm, hme.1, hme.2⟩

/-- **C03, operation by operation (what is STORED).**  The constructor of the C03 model stores `own V`
— the `own` of this model — for the mask `V` it is handed: the operand's mask for unary operations,
`norm`, component access and unary ufuncs; for every operator / `dot` / `cross` / `<<` between two
fields the cell-wise AND of both, on the left operand's mesh, and both operands have the same
number of cells. -/
theorem link_c03_operations (self : C03.CF) (hs : self.valid.shape = self.mesh.n) :
    (∀ fn pw o g, C03.applyOperator fn pw self (.fld o) = .ok g →
      g.valid = own (NDA.zipWith and self.valid o.valid) ∧ g.mesh = self.mesh ∧ self.mesh.n = o.mesh.n) ∧
    (∀ fn pw od g, C03.applyOperator fn pw self (.raw od) = .ok g → g.valid = own self.valid ∧ g.mesh = self.mesh) ∧
    (∀ fn rk ku g, C03.mapField fn rk ku self = .ok g → g.valid = own self.valid ∧ g.mesh = self.mesh) ∧
    (∀ o g, C03.dotOp self (.fld o) = .ok g → g.valid = own (NDA.zipWith and self.valid o.valid)) ∧
    (∀ o g, C03.crossOp self (.fld o) = .ok g → g.valid = own (NDA.zipWith and self.valid o.valid)) ∧
    (∀ o g, C03.shlFF self o = .ok g → g.valid = own (NDA.zipWith and self.valid o.valid)) ∧
    (∀ sq g, C03.normOp sq self = .ok g → g.valid = own self.valid) ∧
    (∀ l g, C03.getComp self l = .ok g → g.valid = own self.valid) ∧
    (∀ fn rk g, C03.ufunc1 fn rk self = .ok g → g.valid = own self.valid) :=
  ⟨fun _ _ _ _ h => let r := c03_applyOperator_fld h hs; ⟨r.hvalid, r.hmesh, r.hsame⟩,
   fun _ _ _ _ h => let r := c03_applyOperator_raw h hs; ⟨r.hvalid, r.hmesh⟩,
   fun _ _ _ _ h => let r := c03_mapField h hs; ⟨r.hvalid, r.hmesh⟩,
   fun _ _ h => (c03_dotOp_fld h hs).hvalid, fun _ _ h => (c03_crossOp_fld h hs).hvalid,
   fun _ _ h => (c03_shlFF h hs).hvalid, fun _ _ h => (c03_normOp h hs).hvalid,
   fun _ _ h => (c03_getComp h hs).hvalid, fun _ _ _ h => (c03_ufunc1 h hs).hvalid⟩

/-- `2.5 - (f0 * f1)` and `np.float64(2) * f0 << f1`-style nestings evaluate in the C03 model; the masks differ -/
example : (match C03.evalF exC03 (.bin .sub (.opd (.num ⟨5 / 2, 0⟩ .float false)) (.bin .mul (.leaf 0) (.leaf 1))) with
    | .ok (.fld g) => some g.valid.toList
    | _ => none) = some [true, false, false, false, true, false, false, false] := by decide +kernel
example : progOf (.bin .sub (.opd (.num ⟨5 / 2, 0⟩ .float false)) (.bin .mul (.leaf 0) (.leaf 1)))
    = rsubProg (.binF (.leaf 0) (.leaf 1)) := rfl
example : ∀ (k : Nat) (f : C03.CF), exC03.fields[k]? = some f → f.valid.shape = f.mesh.n := by
  intro k f h
  match k with
  | 0 => simp only [exC03, List.getElem?_cons_zero, Option.some.injEq] at h; subst h; rfl
  | 1 => simp only [exC03, List.getElem?_cons_succ, List.getElem?_cons_zero, Option.some.injEq] at h; subst h; rfl
  | k + 2 => simp [exC03] at h

/-- **C05 (`grad`, `div`, `curl`, `laplace`; `diff` underneath).**  Whenever the C05 model returns a
field, its validity array has the operand's shape and the operand's entry at every index — and that is
what the C08 evaluator computes for the composition `field.py` builds (`gradProg` … `laplaceProg`
with the mesh's number of directions and the field's number of components) on the operand's mask. -/
theorem link_c05_derivatives (f g : Fld) :
    (C05.grad f = .ok g → (g.valid.shape = f.valid.shape ∧ ∀ j, g.valid.get j = f.valid.get j) ∧
      ∃ m, eval (fun _ => f.valid) (gradProg f.mesh.region.dims.length (.leaf 0)) = .ok m ∧ m.shape = g.valid.shape ∧
        ∀ j, inRange m.shape j = true → m.get j = g.valid.get j) ∧
    (C05.div f = .ok g → (g.valid.shape = f.valid.shape ∧ ∀ j, g.valid.get j = f.valid.get j) ∧
      ∃ vs, f.vdims = some vs ∧
      ∃ m, eval (fun _ => f.valid) (divProg vs.length (.leaf 0)) = .ok m ∧ m.shape = g.valid.shape ∧
        ∀ j, inRange m.shape j = true → m.get j = g.valid.get j) ∧
    (C05.curl f = .ok g → (g.valid.shape = f.valid.shape ∧ ∀ j, g.valid.get j = f.valid.get j) ∧
      ∃ m, eval (fun _ => f.valid) (curlProg (.leaf 0)) = .ok m ∧ m.shape = g.valid.shape ∧
        ∀ j, inRange m.shape j = true → m.get j = g.valid.get j) ∧
    (C05.laplace f = .ok g → (g.valid.shape = f.valid.shape ∧ ∀ j, g.valid.get j = f.valid.get j) ∧
      ∃ nv, 0 < nv ∧
      ∃ m, eval (fun _ => f.valid) (laplaceProg f.mesh.region.dims.length nv (.leaf 0)) = .ok m ∧ m.shape = g.valid.shape ∧
        ∀ j, inRange m.shape j = true → m.get j = g.valid.get j) := by
  -- the evaluator side: a compound program on one leaf returns the leaf's mask
  have side : ∀ (P : Prog), wf (fun _ => f.valid) P = wf (fun _ => f.valid) (.leaf 0) →
      (∀ m, eval (fun _ => f.valid) P = .ok m → ∃ m0, eval (fun _ => f.valid) (.leaf 0) = .ok m0 ∧ m.shape = m0.shape ∧
        ∀ j, inRange m0.shape j = true → m.get j = m0.get j) →
      g.valid.shape = f.valid.shape → (∀ j, g.valid.get j = f.valid.get j) →
      ∃ m, eval (fun _ => f.valid) P = .ok m ∧ m.shape = g.valid.shape ∧ ∀ j, inRange m.shape j = true → m.get j = g.valid.get j := by
    intro P hw hev hs hg
    obtain ⟨m, hm⟩ := (eval_ok_iff _ P).mpr (by rw [hw]; rfl)
    obtain ⟨m0, hm0, h1, h2⟩ := hev m hm
    simp only [eval, Except.ok.injEq] at hm0; subst hm0
    exact ⟨m, hm, by rw [h1, hs], fun j hj => by rw [h2 j (by rw [← h1]; exact hj), hg j]⟩
  refine ⟨fun h => ?_, fun h => ?_, fun h => ?_, fun h => ?_⟩
  · obtain ⟨⟨hs, hg⟩, hpos⟩ := c05_grad_valid f g h
    obtain ⟨hw, hev⟩ := valid_grad (fun _ => f.valid) _ hpos (.leaf 0)
    exact ⟨⟨hs, hg⟩, side _ hw hev hs hg⟩
  · obtain ⟨⟨hs, hg⟩, vs, hvs, hpos⟩ := c05_div_valid f g h
    obtain ⟨hw, hev⟩ := valid_div (fun _ => f.valid) _ hpos (.leaf 0)
    exact ⟨⟨hs, hg⟩, vs, hvs, side _ hw hev hs hg⟩
  · obtain ⟨hs, hg⟩ := c05_curl_valid f g h
    obtain ⟨hw, hev⟩ := valid_curl (fun _ => f.valid) (.leaf 0)
    exact ⟨⟨hs, hg⟩, side _ hw hev hs hg⟩
  · obtain ⟨⟨hs, hg⟩, hpos, _⟩ := c05_laplace_valid f g h
    obtain ⟨hw, hev⟩ := valid_laplace (fun _ => f.valid) _ 1 hpos (by omega) (.leaf 0)
    exact ⟨⟨hs, hg⟩, 1, by omega, side _ hw hev hs hg⟩

example : validOf (C05.grad exF) = some ([4, 2], [true, true, false, false, true, true, false, false]) ∧
    validOf (C05.laplace exF) = validOf (C05.grad exF) := by decide +kernel
example : validOf (C05.div exV) = some ([4, 2], [true, true, false, true, true, true, true, true]) := by decide +kernel

/-- **C04 / C05 `diff`.**  The derivative of the C04 model (`Field.diff`, any direction, order 1 or 2,
`restrict2valid` on or off — the flag only decides which cells the STENCIL reads) and `C05.diffDim`
return exactly the operand's validity array, on the operand's mesh. -/
theorem link_c04_diff (f g : Fld) :
    (∀ ax o r, C04.diff f ax o r = .ok g → g.valid = f.valid ∧ g.mesh = f.mesh) ∧
    (∀ d o, C05.diffDim f d o = .ok g → g.valid = f.valid) := by
  refine ⟨fun ax o r h => ?_, fun d o h => c05_diffDim_valid h⟩
  unfold C04.diff at h
  split at h
  · cases h
  · split at h
    · cases h
    · simp only [Except.ok.injEq] at h; subst h; exact ⟨rfl, rfl⟩

example : validOf (C04.diff exF 0 1 false) = some ([4, 2], exF.valid.toList) ∧
    validOf (C04.diff exF 1 2 true) = some ([4, 2], exF.valid.toList) ∧ isOk (C04.diff exF 2 1 true) = false := by
  decide +kernel

/-- **C07 `sel`.**  A plane or range selection of the C07 model hands to the constructor a value
array and a validity array that are ONE mapping operation (`take` / `slice` at the index the point was
located in) applied to the operand's value array and validity array. -/
theorem link_c07_sel (f g : Fld) (dim : String) (arg : C07.SelArg) (h : C07.selFld f dim arg = .ok (.field g))
    (hv : f.valid.shape.length = f.mesh.region.dims.length) (hd : f.data.shape.length = f.mesh.region.dims.length) :
    ∃ op : MapOp,
      g.valid.shape = (op.apply f.valid false).shape ∧ g.data.shape = (op.apply f.data []).shape ∧
      ∀ j, (inRange g.valid.shape j = true → g.valid.get j = (op.apply f.valid false).get j) ∧
           (inRange g.data.shape j = true → g.data.get j = (op.apply f.data []).get j) :=
  selFld_link f g dim arg h hv hd

/-- **C07 `field[region]` / `field["name"]`.**  The block of cells `crop lo (lo + n')` with `n'` the cells
of the sub-mesh, for values and validity alike. -/
theorem link_c07_getitem (f g : Fld) (item : C07.Item) (h : C07.getItem f item = .ok g) :
    ∃ lo : List Nat,
      g.valid.shape = ((MapOp.crop lo (tab f.valid.shape.length fun b => lo.getD b 0 + g.mesh.n.getD b 0)).apply f.valid false).shape ∧
      g.data.shape = ((MapOp.crop lo (tab f.data.shape.length fun b => lo.getD b 0 + g.mesh.n.getD b 0)).apply f.data []).shape ∧
      ∀ j, g.valid.get j = ((MapOp.crop lo (tab f.valid.shape.length fun b => lo.getD b 0 + g.mesh.n.getD b 0)).apply f.valid false).get j ∧
           g.data.get j = ((MapOp.crop lo (tab f.data.shape.length fun b => lo.getD b 0 + g.mesh.n.getD b 0)).apply f.data []).get j :=
  getItem_link f g item h

/-- **C07 `pad`.**  `np.pad` as the C07 model has it (index arithmetic in ℤ, all five modes) IS the
mapping operation `pad` of this model, with one width pair per axis, for values (fill: the zero
vector) and validity (fill: `False`) alike. -/
theorem link_c07_pad (f g : Fld) (pw : List C07.PadW) (mode : C07.PadMode) (h : C07.padFld f pw mode = .ok g)
    (hs : f.data.shape = f.valid.shape) (hpos : ∀ b, b < f.valid.shape.length → 0 < f.valid.shape.getD b 0) :
    ∃ w : List (Nat × Nat), w.length = f.valid.shape.length ∧
      g.valid.shape = ((MapOp.pad (padModeOf mode) w).apply f.valid false).shape ∧
      g.data.shape = ((MapOp.pad (padModeOf mode) w).apply f.data (List.replicate f.nvdim 0)).shape ∧
      ∀ j, g.valid.get j = ((MapOp.pad (padModeOf mode) w).apply f.valid false).get j ∧
           g.data.get j = ((MapOp.pad (padModeOf mode) w).apply f.data (List.replicate f.nvdim 0)).get j :=
  padFld_link f g pw mode h hs hpos

/-- **C07 `resample`.**  The coordinate lookup of the C07 model (`mesh.cells`, nearest centre, ties to
the larger index) on the REAL cell-centre coordinates is the mapping operation `resample` — the
nearest-cell map on the unit interval — for values and validity alike, on every mesh with at least
one cell per axis and positive edge lengths. -/
theorem link_c07_resample (f g : Fld) (n : List Int) (h : C07.resample f n = .ok g)
    (hv : f.valid.shape = f.mesh.n) (hd : f.data.shape = f.mesh.n) (hl : f.mesh.n.length = f.mesh.ndim)
    (hpos : ∀ a, a < f.mesh.ndim → 0 < f.mesh.nAt a) (hE : ∀ a, a < f.mesh.ndim → 0 < f.mesh.region.edge a) :
    g.mesh.n = n.map Int.toNat ∧
    g.valid.shape = ((MapOp.resample g.mesh.n).apply f.valid false).shape ∧
    g.data.shape = ((MapOp.resample g.mesh.n).apply f.data []).shape ∧
    ∀ j, inRange g.mesh.n j = true →
      g.valid.get j = ((MapOp.resample g.mesh.n).apply f.valid false).get j ∧
      g.data.get j = ((MapOp.resample g.mesh.n).apply f.data []).get j :=
  resample_link f g n h hv hd hl hpos hE

/-- **C12 `rotate90`, copy and in place.**  In the shared rotation model the validity of the result
is literally the mapping operation `rot` (`np.rot90`) applied to the operand's validity; the values
are the same `rot90` of the value array, followed by the turn of the two in-plane components. -/
theorem link_c12_rotate90 (f r g : Fld) (a1 a2 : String) (k : Int) (ref : Option (List Rat)) (inplace : Bool)
    (h : T.rotate90F f a1 a2 k ref inplace = .ok (r, g)) :
    ∃ i1 i2 : Nat, f.mesh.region.dim2index a1 = .ok i1 ∧ f.mesh.region.dim2index a2 = .ok i2 ∧
      g.valid = (MapOp.rot i1 i2 k).apply f.valid false ∧
      (∃ turn : List Rat → List Rat, g.data = ((MapOp.rot i1 i2 k).apply f.data []).map turn) ∧
      (inplace = true → r = g) ∧ (inplace = false → r = f) :=
  rotate90F_link f r g a1 a2 k ref inplace h

example : isField (C07.selFld exF "x" (.point (5 / 2))) = true ∧ isField (C07.selFld exF "y" (.range (1 / 4) (7 / 4))) = true ∧
    isOk (C07.getItem exF (.name "a")) = true ∧ isOk (C07.padFld exF [⟨"x", 1, 2⟩] .reflect) = true ∧
    isOk (C07.resample exF [2, 3]) = true ∧ isOk (T.rotate90F exF "x" "y" 1 none true) = true := by decide +kernel
example : validOf (C07.padFld exF [⟨"x", 1, 2⟩] .reflect)
    = some ([7, 2], [false, false, true, true, false, false, true, true, false, false, true, true, false, false]) := by
  decide +kernel
example : exF.valid.shape = exF.mesh.n ∧ exF.data.shape = exF.mesh.n ∧ exF.mesh.n.length = exF.mesh.ndim ∧
    (∀ a, a < exF.mesh.ndim → 0 < exF.mesh.nAt a) := by
  refine ⟨rfl, rfl, rfl, fun a ha => ?_⟩
  have : a = 0 ∨ a = 1 := by have : exF.mesh.ndim = 2 := rfl; omega
  rcases this with rfl | rfl <;> decide

/-! ## Results on a new cell set, tied to the C06 and C11 models -/

/-- **C06 `mean(direction)` / `integrate(direction)` / cumulative integral.**  Every field these
operations of the C06 model return is valid in every cell of its own mesh, whatever the operand's
validity was — the array the C08 evaluator stores for a `fresh` node (a copy of all-`True` on the
new shape). -/
theorem link_c06_fresh (f g : Fld) :
    (∀ dir cum, C06.integrate f dir cum = .ok (.field g) → g.valid = NDA.const g.mesh.n true) ∧
    (∀ dir, C06.mean f dir = .ok (.field g) → g.valid = NDA.const g.mesh.n true) ∧
    ∀ (env : Nat → Mask) (k : FreshOp) (p : Prog) (m0 : Mask), eval env p = .ok m0 → k.ok m0.shape = true →
      eval env (.fresh k p) = .ok (own (NDA.const (k.shape m0.shape) true)) :=
  ⟨fun dir cum h => c06_integrate_valid f g dir cum h, fun dir h => c06_mean_valid f g dir h,
   fun env k p m0 h0 hok => eval_fresh_eq env k p m0 h0 hok⟩

/-- **C11: the k-mesh.**  The meshes the FFT family of the C11 model builds have exactly the cells the
`fresh` nodes name: `mesh.fftn()` the same counts (`spectrum`), `mesh.fftn(rfft=True)` half of the
last axis plus one (`rfft`); `mesh.ifftn(rfft=True, shape)` is accepted only for the shapes `irfft`
accepts, and then has the last count the shape names — or `(n_last − 1)·2` without a shape. -/
theorem link_c11_kmesh (m k : Mesh) (hl : m.n.length = m.ndim) :
    (∀ rfft, C11.meshFftn m rfft = .ok k → k.n = (if rfft then FreshOp.rfft else FreshOp.spectrum).shape m.n) ∧
    (∀ shape, C11.meshIfftn m true shape = .ok k → 0 < m.ndim →
      (FreshOp.irfft (shape.map fun s => s.getD (m.ndim - 1) 0)).ok m.n = true ∧
      k.n = (FreshOp.irfft (shape.map fun s => s.getD (m.ndim - 1) 0)).shape m.n) :=
  ⟨fun rfft h => c11_meshFftn_n m k rfft h hl, fun shape h hnd => c11_meshIfftn_n m k shape h hl hnd⟩

example : run (.fresh (.irfft none) (.fresh .rfft (.leaf 0))) = some ([2, 2], [true, true, true, true]) ∧
    run (.fresh (.irfft (some 3)) (.fresh .rfft (.leaf 0))) = some ([2, 3], [true, true, true, true, true, true]) ∧
    run (.fresh (.irfft (some 4)) (.fresh .rfft (.leaf 0))) = none ∧
    run (.fresh (.irfft (some 5)) (.leaf 0)) = some ([2, 5], List.replicate 10 true) := by decide
example : (match C11.meshFftn exMesh true with
    | .ok k => some k.n
    | .error _ => none) = some [4, 2] ∧ (match C11.meshIfftn exMesh true (some [4, 3]) with
    | .ok k => some k.n
    | .error _ => none) = some [4, 3] := by decide +kernel

/-! ## Norm, orientation, zero vectors (C15) -/

/-- **Setting the norm leaves validity alone — over whole histories.**  Any history of
`field.norm = …` (number, array, callable, field, `None`) and `field.update_field_values(…)` of the C15
model on a field with invalid cells, zero vectors included: the validity array and the mesh are
exactly what they were.  (Only `field.valid = …` changes validity.) -/
theorem norm_history_keeps_validity (sqrt : Rat → Rat) (atol' : Rat) (steps : List C15.Step) (f g : Fld)
    (h : C15.run sqrt atol' f steps = .ok g) (hs : steps.all notSetValid = true) :
    g.valid = f.valid ∧ g.mesh = f.mesh :=
  c15_run_valid sqrt atol' steps f g h hs

/-- `Field.norm` and `Field.orientation` of the C15 model return the operand's validity, cell by
cell, on the operand's mesh shape — also in the cells whose vector is zero (which `orientation` maps
to the zero vector): the values never decide the validity. -/
theorem norm_orientation_keep_validity (sqrt : Rat → Rat) (atol' : Rat) (f : Fld) (j : List Nat) :
    (C15.norm sqrt f).valid.get j = f.valid.get j ∧ (C15.orientation sqrt atol' f).valid.get j = f.valid.get j ∧
    (C15.norm sqrt f).valid.shape = f.mesh.n ∧ (C15.orientation sqrt atol' f).valid.shape = f.mesh.n :=
  ⟨rfl, rfl, rfl, rfl⟩

/-- **`valid='norm'` in both models.**  The C15 model marks a cell valid when `~isclose(norm, 0)` with
the norm computed through a square root; this model compares the squared length with `atol²`.  For
every cell where `sqrt` is the non-negative root of the squared length (`C15.SqrtAt`) the two
coincide — so after `field.norm = t` the cells `'norm'` marks are decided by the NEW values alone. -/
theorem norm_mask_agrees_c15 (sqrt : Rat → Rat) (f g : Fld) (m : NDA Bool) (h : setValid f .norm = .ok g)
    (hm : C15.validOf sqrt atol f .byNorm = .ok m) (j : List Nat) (hj : inRange f.mesh.n j = true)
    (hs : C15.SqrtAt sqrt (C15.sqLen (f.data.get j))) : g.valid.get j = m.get j := by
  simp only [C15.validOf, Except.ok.injEq] at hm; subst hm
  show g.valid.get j = !C15.closeZero atol (C15.normCell sqrt (f.data.get j))
  have hb : g.valid.get j = decide (atol * atol < sumSq (f.data.get j)) := by
    rw [Bool.eq_iff_iff]; simpa using setter_norm f g h j hj
  rw [hb, sumSq_eq_sqLen]
  exact (closeZero_iff sqrt _ atol (le_of_lt atol_pos) hs).symm

example : C15.SqrtAt (fun x => if x = 25 / 1000000000000000000 then 5 / 1000000000 else 0)
    (C15.sqLen (exFld.data.get [0, 0])) := by
  constructor
  · show (0 : Rat) ≤ if C15.sqLen (exFld.data.get [0, 0]) = 25 / 1000000000000000000 then 5 / 1000000000 else 0
    split <;> norm_num
  · have : C15.sqLen (exFld.data.get [0, 0]) = 25 / 1000000000000000000 := by decide +kernel
    simp only [this, if_true]; norm_num
example : (match C15.run (fun x => x) (1 / 100000000) exF [.setNorm (some (.const 3)), .update (.scalar 0), .setNorm none] with
    | .ok g => some g.valid.toList
    | .error _ => none) = some exF.valid.toList := by decide +kernel

/-! ## The nearest-cell map in closed form -/

/-- **Closed form of the source cell of `resample`.**  On a uniform axis the nearest cell centre is the
centre of the cell that CONTAINS the point, and a point on the border of two cells goes to the upper
one: the source cell of target cell `j` when `n` cells are resampled to `n'` is
`⌊(2j+1)·n / (2n')⌋` (capped at the last cell) — for all `n, n' ≥ 1` and all `j`, by induction over the
search. -/
theorem nearest_closed_form (n n' j : Nat) (hn : 0 < n) (hn' : 0 < n') :
    nearest n n' j = min (n - 1) (((2 * j + 1) * n) / (2 * n')) :=
  nearest_eq_fast n n' j hn hn'

/-- **`resample` through the closed form.**  The array the driver computes for large cases
(`resampleFast`, one integer division per cell and axis) is the mapping operation `resample` of the
model, entry by entry, for every entry type, whenever the operation is applicable. -/
theorem resample_fast_is_resample {α : Type} (x : NDA α) (n' : List Nat) (fill : α)
    (hok : (MapOp.resample n').ok x.shape = true) :
    (resampleFast x n').shape = ((MapOp.resample n').apply x fill).shape ∧
    ∀ j, (resampleFast x n').get j = ((MapOp.resample n').apply x fill).get j :=
  resampleFast_eq x n' fill hok

example : (resampleFast (exEnv 0) [4, 2]).toList = ((MapOp.resample [4, 2]).apply (exEnv 0) false).toList ∧
    nearestFast 2 3 1 = 1 ∧ nearestFast 4000 8192 8191 = 3999 ∧ nearestFast 6 3 1 = 3 := by decide +kernel

end DFV.C08
