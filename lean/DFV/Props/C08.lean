import DFV.Lemmas.C08Ex
/-!
# C08 — validity masks follow the data through every operation that keeps or maps cells

Property theorems about the validity model of `DFV/Model/C08.lean`.  Programs (compositions of
public `Field` operations), input masks, shapes, indices, pad widths, turn counts and setter
arguments are universally quantified; nothing is bounded.

`eval` is the code-shaped evaluator (every node transforms the whole mask array the way
`field.py` does and stores a new buffer through the validity setter), `spec` the index-level
reading, `evalS` the same evaluation over an abstract store of buffers (ownership), `wf` the
acceptance check on shapes, `gradProg` … `ufuncProg` the compound operations as `field.py`
composes them, `Sess` / `Stmt` sessions of statements with in-place changes (every statement reads
its operands' masks from the store), `Prog.subst` inlining.
-/
namespace DFV.C08
open DFV

/-! ## Programs: the code-shaped evaluation is the index-level reading -/

/-- **Refinement, all programs.**  Whenever a composition of operations is accepted, the mask
it produces has the predicted shape and, at every cell of the result, the value obtained by
pulling the cell back through the index maps of the operations to the input fields and
AND-ing (`spec`).  By induction over programs; every index map is shown to read inside its
source array. -/
theorem valid_program (env : Nat → Mask) (p : Prog) (m : Mask) (h : eval env p = .ok m) :
    m.shape = shapeOf env p ∧ ∀ j, inRange m.shape j = true → m.get j = spec env p j :=
  eval_spec env p m h

example : run (.map (.rot 0 1 1) (.binF (.leaf 0) (.un (.leaf 1))))
    = some ([3, 2], [false, false, false, false, true, true]) := by decide

/-- **AND of the leaves.**  For a composition without a setter step, a result cell is valid
exactly when every input-field cell it depends on (`deps`: the cells reached through the index
maps) is valid; a cell created by constant padding is invalid. -/
theorem valid_leaf_and (env : Nat → Mask) (p : Prog) (hp : setterFree p = true) (m : Mask)
    (h : eval env p = .ok m) (j : List Nat) (hj : inRange m.shape j = true) :
    m.get j = match deps env p j with
      | some l => l.all fun kj => (env kj.1).get kj.2
      | none => false := by
  rw [(eval_spec env p m h).2 j hj]
  exact spec_deps env p hp j

example : deps exEnv (.map (.rot 0 1 1) (.binF (.leaf 0) (.un (.leaf 1)))) [2, 1] = some [(0, [1, 0]), (1, [1, 0])] := by
  decide

/-! ## Unary and binary operations -/

/-- **Pass-through.**  `-f`, `abs(f)`, `f.norm`, `f.orientation`, component access, `real`,
`imag`, `conjugate`, `phase`, `abs`, `diff` (hence every component of `grad`) return the
operand's validity: same shape, same value at every cell. -/
theorem valid_unary (env : Nat → Mask) (p : Prog) (m : Mask) (h : eval env (.un p) = .ok m) :
    ∃ m0, eval env p = .ok m0 ∧ m.shape = m0.shape ∧ ∀ j, inRange m0.shape j = true → m.get j = m0.get j := by
  simp only [eval] at h
  split at h
  · cases h
  · rename_i m0 hm0
    simp only [Except.ok.injEq] at h; subst h
    exact ⟨m0, hm0, rfl, fun j hj => own_get m0 j hj⟩

example : run (.un (.leaf 0)) = some ([2, 3], [true, false, true, true, true, false]) := by decide

/-- **Binary, field with field.**  Every operator, `dot`, `cross`, `angle` and `<<` between two
fields returns the cell-wise AND of both validities (and is rejected when the shapes differ). -/
theorem valid_binary_fields (env : Nat → Mask) (p q : Prog) (m : Mask) (h : eval env (.binF p q) = .ok m) :
    ∃ a b, eval env p = .ok a ∧ eval env q = .ok b ∧ a.shape = b.shape ∧ m.shape = a.shape ∧
      ∀ j, inRange a.shape j = true → m.get j = (a.get j && b.get j) := by
  simp only [eval] at h
  split at h
  · cases h
  · rename_i a ha
    split at h
    · cases h
    · rename_i b hb
      split at h
      · rename_i hab
        simp only [Except.ok.injEq] at h; subst h
        exact ⟨a, b, ha, hb, hab, rfl, fun j hj => own_get (NDA.zipWith and a b) j hj⟩
      · cases h

example : run (.binF (.leaf 0) (.leaf 1)) = some ([2, 3], [true, false, false, true, false, false]) := by decide
example : run (.binF (.leaf 0) (.map (.take 0 0) (.leaf 1))) = none := by decide

/-- **Binary, field with a number / vector / array.**  The result has the field's own validity. -/
theorem valid_binary_other (env : Nat → Mask) (p : Prog) (m : Mask) (h : eval env (.binC p) = .ok m) :
    ∃ m0, eval env p = .ok m0 ∧ m.shape = m0.shape ∧ ∀ j, inRange m0.shape j = true → m.get j = m0.get j := by
  simp only [eval] at h
  split at h
  · cases h
  · rename_i m0 hm0
    simp only [Except.ok.injEq] at h; subst h
    exact ⟨m0, hm0, rfl, fun j hj => own_get m0 j hj⟩

/-- **Both orders.**  `a ∘ b` and `b ∘ a` (e.g. scalar field with vector field and vector field
with scalar field) carry the same validity. -/
theorem valid_binary_comm (env : Nat → Mask) (p q : Prog) (m : Mask) (h : eval env (.binF p q) = .ok m) :
    ∃ m', eval env (.binF q p) = .ok m' ∧ m'.shape = m.shape ∧
      ∀ j, inRange m.shape j = true → m'.get j = m.get j := by
  obtain ⟨a, b, ha, hb, hab, hm, hg⟩ := valid_binary_fields env p q m h
  refine ⟨own (NDA.zipWith and b a), ?_, ?_, ?_⟩
  · simp only [eval, ha, hb, if_pos hab.symm]
  · show b.shape = m.shape
    rw [hm, hab]
  · intro j hj
    rw [hm] at hj
    rw [own_get (NDA.zipWith and b a) j (by show inRange b.shape j = true; rw [← hab]; exact hj), hg j hj]
    exact Bool.and_comm _ _

/-- **Self-combination.**  Combining results derived from ONE field (divergence, curl,
Laplacian, `grad`: sums and stacks of derivatives of components) gives that field's validity. -/
theorem valid_binary_idem (env : Nat → Mask) (p : Prog) (m : Mask) (h : eval env (.binF p p) = .ok m) :
    ∃ m0, eval env p = .ok m0 ∧ m.shape = m0.shape ∧ ∀ j, inRange m0.shape j = true → m.get j = m0.get j := by
  obtain ⟨a, b, ha, hb, _, hm, hg⟩ := valid_binary_fields env p p m h
  rw [ha] at hb
  simp only [Except.ok.injEq] at hb; subst hb
  exact ⟨a, ha, hm, fun j hj => by rw [hg j hj, Bool.and_self]⟩

/-! ## Selection, extraction, padding, resampling, quarter turns -/

/-- **Mapped.**  `sel`, `field[region]`, `pad`, `resample`, `rotate90`: the validity of result
cell `j` is the validity of the source cell `op.src j` — a cell INSIDE the source array — or
`False` where constant padding created the cell. -/
theorem valid_mapped (env : Nat → Mask) (op : MapOp) (p : Prog) (m : Mask) (h : eval env (.map op p) = .ok m) :
    ∃ m0, eval env p = .ok m0 ∧ op.ok m0.shape = true ∧ m.shape = op.shape m0.shape ∧
      ∀ j, inRange m.shape j = true →
        match op.src m0.shape j with
        | some i => inRange m0.shape i = true ∧ m.get j = m0.get i
        | none => m.get j = false := by
  simp only [eval] at h
  split at h
  · cases h
  · rename_i m0 hm0
    split at h
    · rename_i hok
      simp only [Except.ok.injEq] at h; subst h
      have hsh : (op.apply m0 false).shape = op.shape m0.shape := apply_shape op m0 false
      refine ⟨m0, hm0, hok, hsh, fun j hj => ?_⟩
      have hj1 : inRange (op.apply m0 false).shape j = true := hj
      have hj2 : inRange (op.shape m0.shape) j = true := by rw [← hsh]; exact hj1
      have hget := apply_get op m0 false hok j hj2
      rw [← own_get (op.apply m0 false) j hj1] at hget
      cases hsrc : op.src m0.shape j with
      | none => rw [hsrc] at hget; exact hget
      | some i => rw [hsrc] at hget; exact ⟨src_inRange op m0.shape hok j hj2 i hsrc, hget⟩
    · cases h

example : run (.map (.pad .reflect [(1, 0), (0, 2)]) (.leaf 0))
    = some ([3, 5], [true, true, false, true, true, true, false, true, false, true, true, true, false, true, true]) := by
  decide
example : run (.map (.resample [4, 2]) (.leaf 0)) = some ([4, 2], [true, true, true, true, true, false, true, false]) := by
  decide +kernel

/-- **Exactly as the data.**  The array call of each mapping operation is one function for any
entry type: applied to the array of (value, validity) pairs it returns, at every cell, the pair
of what it returns on the values and on the validities — the validity stays attached to the
value it belongs to. -/
theorem mapped_with_data {τ : Type} (op : MapOp) (data : NDA τ) (valid : Mask) (fd : τ)
    (hsh : valid.shape = data.shape) (hok : op.ok data.shape = true) (j : List Nat)
    (hj : inRange (op.shape data.shape) j = true) :
    (op.apply (NDA.zipWith Prod.mk data valid) (fd, false)).get j =
      ((op.apply data fd).get j, (op.apply valid false).get j) :=
  apply_zip op data valid fd hsh hok j hj

/-- **Quarter turns.**  NumPy's `rot90` (flips and an axis swap) moves entries by the explicit
index map `rotSrc`, for every turn count and axis pair. -/
theorem rot90_moves_mask {α : Type} (x : NDA α) (p q : Nat) (k : Int) (hpq : p ≠ q) (hp : p < x.shape.length)
    (hq : q < x.shape.length) (j : List Nat) (hj : j.length = x.shape.length) :
    (T.rot90 x p q k).get j = x.get (rotSrc x.shape p q k j) := by
  rw [T.rot90_get, srcIdx_eq_rotSrc _ _ _ _ _ hpq hp hq hj]

/-- **Padding keeps the original cells.**  In every mode the cells of the unpadded field keep
their validity (result cell `j` inside the original block reads source cell `j − front width`). -/
theorem pad_keeps_inside (mode : PadMode) (w : List (Nat × Nat)) (s j : List Nat) (hj : j.length = s.length)
    (hin : ∀ b, b < s.length → (w.getD b (0, 0)).1 ≤ j.getD b 0 ∧ j.getD b 0 < (w.getD b (0, 0)).1 + s.getD b 0) :
    (MapOp.pad mode w).src s j = some (tab s.length fun b => j.getD b 0 - (w.getD b (0, 0)).1) :=
  pad_src_inside mode w s j hj hin

example : (MapOp.pad .wrap [(2, 1)]).src [3] [4] = some [2] ∧ (MapOp.pad .wrap [(2, 1)]).src [3] [0] = some [1] ∧
    (MapOp.pad .constant [(2, 1)]).src [3] [0] = none := by decide

/-- **Resampling is geometry-free.**  The nearest source cell computed on the real cell-centre
coordinates of any edge `[lo, lo+E]` (`E > 0`) is the one computed on the unit interval. -/
theorem resample_geometry_free (lo E : Rat) (hE : 0 < E) (n n' j : Nat) :
    nearestUpTo (fun k => lo + ((k : Rat) + 1 / 2) * (E / (n : Rat))) (lo + ((j : Rat) + 1 / 2) * (E / (n' : Rat))) (n - 1)
      = nearest n n' j := by
  unfold nearest
  simp only [centre_affine]
  exact nearestUpTo_affine (centre01 n) (centre01 n' j) lo E hE (n - 1)

example : nearest 2 3 1 = 1 := by decide +kernel  -- tie between both source cells: the larger index

/-! ## File round trips -/

/-- **VTK / HDF5.**  Writing a field and reading it back returns the same validity (VTK: integers
in first-index-fastest order, cast back to Booleans; HDF5: a Boolean dataset). -/
theorem valid_file_roundtrip (m : Mask) (i : List Nat) (h : inRange m.shape i = true) :
    (vtkRead m.shape (vtkWrite m)).get i = m.get i ∧ (h5Read m.shape (h5Write m)).get i = m.get i :=
  ⟨vtk_roundtrip_get m i h, h5_roundtrip_get m i h⟩

example : (match eval exEnv3 (.vtk (.leaf 0)) with
    | .ok m => some m.toList
    | .error _ => none) = some [true, false, false, true] := by decide
example : vtkWrite (exEnv3 0) = [1, 0, 0, 1] := by decide
example : run (.vtk (.leaf 0)) = none := by decide  -- only 3-d fields can be written to VTK

/-! ## The setter -/

/-- **Boolean array of the mesh shape.**  Whatever is assigned (`None`, a number, an array, a
callable, `'norm'`), if the setter accepts it the stored mask has shape `n` (entries are `Bool`
by type) and holds, at every cell, the value the specification assigns (`specMask`). -/
theorem setter_shape_bool (n : List Nat) (s : MSpec) (m : Mask) (h : setMask n s = .ok m) :
    m.shape = n ∧ ∀ j, inRange n j = true → m.get j = specMask n s j :=
  setMask_spec n s m h

/-- an array of the mesh shape (bool, int or float entries): valid where the entry is non-zero -/
theorem setter_array (n : List Nat) (a : NDA Rat) (ha : a.shape = n) :
    ∃ m, setMask n (.arr a) = .ok m ∧ m.shape = n ∧
      ∀ j, inRange n j = true → (m.get j = true ↔ a.get j ≠ 0) := by
  refine ⟨own ⟨n, fun j => decide (a.get j ≠ 0)⟩, by simp only [setMask, if_pos ha], rfl, fun j hj => ?_⟩
  rw [own_get ⟨n, fun j => decide (a.get j ≠ 0)⟩ j hj]
  simp

/-- an array with a trailing axis of length 1 that broadcasts to the mesh: accepted, and every
cell reads an entry inside the given array -/
theorem setter_broadcast (n : List Nat) (a : NDA Rat) (h1 : a.shape ≠ n) (h2 : a.shape.getLast? = some 1)
    (h3 : bcastOk a.shape (n ++ [1]) = true) :
    ∃ m, setMask n (.arr a) = .ok m ∧ m.shape = n ∧
      ∀ j, inRange n j = true →
        inRange a.shape (bcastIdx a.shape (n ++ [1]) (j ++ [0])) = true ∧
        (m.get j = true ↔ a.get (bcastIdx a.shape (n ++ [1]) (j ++ [0])) ≠ 0) := by
  refine ⟨own ⟨n, fun j => decide (a.get (bcastIdx a.shape (n ++ [1]) (j ++ [0])) ≠ 0)⟩, ?_, rfl,
    fun j hj => ⟨?_, ?_⟩⟩
  · simp only [setMask]
    rw [if_neg h1, if_neg (by rw [h2]; simp), if_neg (by rw [h3]; simp)]
  · exact bcastIdx_inRange _ _ _ h3 (inRange_snoc_one n j hj)
  · rw [own_get ⟨n, fun j => decide (a.get (bcastIdx a.shape (n ++ [1]) (j ++ [0])) ≠ 0)⟩ j hj]
    simp

example : bcastOk [3, 1, 1] ([2, 3, 4] ++ [1]) = true := by decide
example : bcastIdx [3, 1, 1] ([2, 3, 4] ++ [1]) ([1, 2, 3] ++ [0]) = [2, 0, 0] := by decide

/-- wrong shapes and unsupported arguments are rejected (nothing is stored) -/
theorem setter_rejects (n : List Nat) (a : NDA Rat) (h1 : a.shape ≠ n)
    (h2 : a.shape.getLast? ≠ some 1 ∨ bcastOk a.shape (n ++ [1]) = false) :
    setMask n (.arr a) = .error .value ∧ setMask n .bad = .error .type := by
  refine ⟨?_, rfl⟩
  simp only [setMask, if_neg h1]
  rcases h2 with h2 | h2
  · rw [if_pos h2]
  · split
    · rfl
    · simp [h2]

example : (NDA.const [2, 2] (1 : Rat)).shape ≠ [2, 3] ∧ (NDA.const [2, 2] (1 : Rat)).shape.getLast? ≠ some 1 := by decide
example : (NDA.const [5, 1] (1 : Rat)).shape.getLast? = some 1 ∧ bcastOk [5, 1] ([2, 3] ++ [1]) = false := by decide

/-- **`'norm'`.**  Exactly the cells whose stored value has squared length above `atol² = 1e-16`
are valid — a cell whose components are each below the threshold is valid when their
combined length exceeds it. -/
theorem setter_norm (f g : Fld) (h : setValid f .norm = .ok g) (j : List Nat) (hj : inRange f.mesh.n j = true) :
    (g.valid.get j = true ↔ atol * atol < sumSq (f.data.get j)) := by
  obtain ⟨m, hm, rfl⟩ := setValid_ok f g .norm h
  have := (setMask_spec _ _ m hm).2 j hj
  show m.get j = true ↔ _
  rw [this]
  simp [specMask, toMSpec]

/-- the threshold on the length itself: for a length `r ≥ 0` (any relative tolerance, since the
comparison value is 0), `~np.isclose(r, 0)` holds exactly when `r² > atol²` -/
theorem norm_threshold (r rtol : Rat) (hr : 0 ≤ r) :
    (!Region.isclose r 0 rtol atol) = decide (atol * atol < r * r) :=
  not_isclose_zero_iff r rtol hr

example : (match setValid exFld .norm with
    | .ok g => some g.valid.toList
    | .error _ => none) = some [false, true] := by decide +kernel
example : sumSq [6 / 1000000000, 9 / 1000000000] > atol * atol ∧ (9 : Rat) / 1000000000 ≤ atol := by
  simp only [sumSq, atol]; norm_num

/-- **Stored values untouched.**  An accepted assignment changes nothing but the mask: values,
mesh, component count, labels, mapping and unit are the operand's; the new mask has the mesh
shape. -/
theorem setValid_keeps_data (f g : Fld) (s : VSpec) (h : setValid f s = .ok g) :
    g.data = f.data ∧ g.mesh = f.mesh ∧ g.nvdim = f.nvdim ∧ g.vdims = f.vdims ∧ g.vmap = f.vmap ∧
      g.unit = f.unit ∧ g.valid.shape = f.mesh.n := by
  obtain ⟨m, hm, rfl⟩ := setValid_ok f g s h
  exact ⟨rfl, rfl, rfl, rfl, rfl, rfl, (setMask_spec _ _ m hm).1⟩

/-- a callable is asked at the CENTRE of every cell; the truth value of its answer is stored -/
theorem setValid_func_centres (f g : Fld) (fn : List Rat → Bool) (h : setValid f (.func fn) = .ok g)
    (j : List Nat) (hj : inRange f.mesh.n j = true) : g.valid.get j = fn (f.mesh.centre j) := by
  obtain ⟨m, hm, rfl⟩ := setValid_ok f g (.func fn) h
  exact (setMask_spec _ _ m hm).2 j hj

example : (match setValid exFld (.func fun p => decide (p.getD 0 0 < 1)) with
    | .ok g => some g.valid.toList
    | .error _ => none) = some [true, false] := by decide +kernel

/-- assigning validity to a result forgets the result's previous mask: only its shape matters -/
theorem setter_forgets (env : Nat → Mask) (s : MSpec) (p q : Prog) (a b : Mask) (ha : eval env p = .ok a)
    (hb : eval env q = .ok b) (hs : a.shape = b.shape) : eval env (.setv s p) = eval env (.setv s q) := by
  simp only [eval, ha, hb, hs]

/-! ## Ownership (modelled requirement; observed on the code with `np.shares_memory` and
write-through probes) -/

/-- **A result's validity is its own.**  In the store model every operation that builds a field
allocates the buffer of its mask: unless the program is the input field itself (`aliasOf`: only
unary plus returns its operand, known finding D7), the result's buffer is one allocated during
the evaluation — none of the buffers that existed before — and the old buffers are still there,
unchanged, as a prefix of the store. -/
theorem result_owns_validity (env : Nat → Mask) (addr : Nat → Nat) (p : Prog) (st st' : Store) (a : Nat)
    (h : evalS env addr p st = .ok (a, st')) (hp : aliasOf p = none) :
    st.length ≤ a ∧ a < st'.length ∧ ∃ ext, st' = st ++ ext := by
  obtain ⟨h1, h2, _⟩ := evalS_store env addr p st a st' h
  exact ⟨(h2 hp).1, (h2 hp).2, h1⟩

/-- the buffer the result owns holds exactly the mask the evaluator computes (C order) -/
theorem result_buffer_holds_mask (env : Nat → Mask) (addr : Nat → Nat) (p : Prog) (st st' : Store) (a : Nat)
    (h : evalS env addr p st = .ok (a, st')) (hp : aliasOf p = none) :
    ∃ m, eval env p = .ok m ∧ st'.getD a [] = m.toList :=
  evalS_content env addr p st a st' h hp

/-- **Write-through probe.**  Changing an entry of the result's mask afterwards leaves every
buffer that existed before the evaluation — in particular every operand's mask — as it was. -/
theorem write_leaves_operands (env : Nat → Mask) (addr : Nat → Nat) (p : Prog) (st st' : Store) (a : Nat)
    (h : evalS env addr p st = .ok (a, st')) (hp : aliasOf p = none) (k : Nat) (v : Bool) (b : Nat)
    (hb : b < st.length) : (write st' a k v).getD b [] = st.getD b [] := by
  obtain ⟨h1, h2, ⟨ext, rfl⟩⟩ := result_owns_validity env addr p st st' a h hp
  rw [write_other _ _ _ _ _ (by omega)]
  simp only [List.getD_eq_getElem?_getD]
  rw [List.getElem?_append_left hb]

/-- **Unary plus (code as it stands, D7).**  `+f` is `f`: the result's mask IS the operand's
buffer, so a write through the result changes the operand. -/
theorem unary_plus_aliases (env : Nat → Mask) (addr : Nat → Nat) (k : Nat) (st : Store) :
    evalS env addr (.pos (.leaf k)) st = .ok (addr k, st) := rfl

example : (match evalS exEnv id (.binF (.un (.leaf 0)) (.pos (.leaf 1))) [(exEnv 0).toList, (exEnv 1).toList] with
    | .ok r => some (r.1, r.2.length)
    | .error _ => none) = some (3, 4) := by decide
example : (write [[true, false]] 0 1 true).getD 0 [] = [true, true] := by decide
example : aliasOf (.un (.pos (.leaf 0))) = none ∧ aliasOf (.pos (.pos (.leaf 3))) = some 3 := by decide

/-! ## Acceptance: well-formed programs are accepted, and only those -/

/-- **Accepted = well formed.**  A composition of operations is accepted exactly when it is well
formed (`wf`, a check on shapes alone: combined fields have the same cells, every mapping
operation is applicable to the shape it receives, VTK only in three dimensions, setter arguments
of an acceptable shape and type). -/
theorem program_accepted_iff (env : Nat → Mask) (p : Prog) : (∃ m, eval env p = .ok m) ↔ wf env p = true :=
  eval_ok_iff env p

/-- **Refinement without the success hypothesis.**  Every well-formed program evaluates, and its
mask is the index-level reading on every cell of the predicted shape. -/
theorem valid_program_total (env : Nat → Mask) (p : Prog) (h : wf env p = true) :
    ∃ m, eval env p = .ok m ∧ m.shape = shapeOf env p ∧
      ∀ j, inRange (shapeOf env p) j = true → m.get j = spec env p j := by
  obtain ⟨m, hm⟩ := (eval_ok_iff env p).mpr h
  obtain ⟨h1, h2⟩ := eval_spec env p m hm
  exact ⟨m, hm, h1, fun j hj => h2 j (by rw [h1]; exact hj)⟩

example : wf exEnv (.map (.rot 0 1 1) (.binF (.leaf 0) (.un (.leaf 1)))) = true := by decide
example : wf exEnv (.binF (.leaf 0) (.map (.take 0 0) (.leaf 1))) = false := by decide

/-! ## Results on a new cell set -/

/-- **`mean` / `integrate` / FFT family / temporary fields.**  A field built without `valid=`
(directional mean and integral, cumulative integral, `fftn`, `ifftn`, `rfftn`, the
`Field(mesh, value=3)` inside `f << 3`) is valid in every cell of its own shape, whatever the
operand's mask was. -/
theorem valid_fresh (env : Nat → Mask) (k : FreshOp) (p : Prog) (m : Mask) (h : eval env (.fresh k p) = .ok m) :
    ∃ m0, eval env p = .ok m0 ∧ k.ok m0.shape = true ∧ m.shape = k.shape m0.shape ∧
      ∀ j, inRange m.shape j = true → m.get j = true := by
  simp only [eval] at h
  split at h
  · cases h
  · rename_i m0 hm0
    split at h
    · rename_i hok
      obtain ⟨h1, h2⟩ := setMask_spec _ _ _ h
      refine ⟨m0, hm0, hok, h1, fun j hj => ?_⟩
      rw [h2 j (by rw [← h1]; exact hj)]
      simp [specMask]
    · cases h

example : run (.fresh (.reduce [0]) (.leaf 0)) = some ([3], [true, true, true]) := by decide
example : run (.fresh .rfft (.leaf 0)) = some ([2, 2], [true, true, true, true]) := by decide
example : run (.fresh (.reduce [0, 1]) (.leaf 0)) = none := by decide  -- mean over every direction is not a field

/-! ## Several field operands; compound operations -/

/-- **n-ary AND.**  A chain `((a ∘ x₀) ∘ x₁) ∘ …` of field-with-field combinations (Python's `sum`,
stacking with `<<`, a ufunc with several field inputs) is valid exactly where `a` and every `xᵢ`
are valid; all operands have the same cells. -/
theorem valid_nary_and (env : Nat → Mask) (acc : Prog) (xs : List Prog) (m : Mask)
    (h : eval env (chainF acc xs) = .ok m) :
    ∃ a, eval env acc = .ok a ∧ m.shape = a.shape ∧
      (∀ x ∈ xs, ∃ b, eval env x = .ok b ∧ b.shape = a.shape) ∧
      ∀ j, inRange a.shape j = true →
        (m.get j = true ↔ a.get j = true ∧ ∀ x ∈ xs, ∃ b, eval env x = .ok b ∧ b.get j = true) := by
  have hw := (eval_ok_iff env _).mp ⟨m, h⟩
  rw [chainF_wf, Bool.and_eq_true, List.all_eq_true] at hw
  obtain ⟨a, ha⟩ := (eval_ok_iff env acc).mpr hw.1
  obtain ⟨h1, h2⟩ := eval_spec env _ m h
  obtain ⟨h3, h4⟩ := eval_spec env acc a ha
  have hs : m.shape = a.shape := by rw [h1, chainF_shapeOf, h3]
  have each : ∀ x ∈ xs, ∃ b, eval env x = .ok b ∧ b.shape = a.shape ∧
      ∀ j, inRange a.shape j = true → b.get j = spec env x j := by
    intro x hx
    have := hw.2 x hx
    simp only [Bool.and_eq_true, decide_eq_true_eq] at this
    obtain ⟨b, hb⟩ := (eval_ok_iff env x).mpr this.1
    obtain ⟨h5, h6⟩ := eval_spec env x b hb
    have hbs : b.shape = a.shape := by rw [h5, h3, this.2]
    exact ⟨b, hb, hbs, fun j hj => h6 j (by rw [hbs]; exact hj)⟩
  refine ⟨a, ha, hs, fun x hx => (each x hx).imp fun b hb => ⟨hb.1, hb.2.1⟩, fun j hj => ?_⟩
  rw [h2 j (by rw [hs]; exact hj), chainF_spec, Bool.and_eq_true, List.all_eq_true, h4 j hj]
  constructor
  · rintro ⟨e1, e2⟩
    refine ⟨e1, fun x hx => ?_⟩
    obtain ⟨b, hb, _, hg⟩ := each x hx
    exact ⟨b, hb, by rw [hg j hj]; exact e2 x hx⟩
  · rintro ⟨e1, e2⟩
    refine ⟨e1, fun x hx => ?_⟩
    obtain ⟨b, hb, hbg⟩ := e2 x hx
    obtain ⟨b', hb', _, hg⟩ := each x hx
    rw [hb] at hb'; simp only [Except.ok.injEq] at hb'; subst hb'
    rw [← hg j hj]; exact hbg

example : run (chainF (.leaf 0) [.leaf 1, .un (.leaf 0), .leaf 1]) = some ([2, 3], [true, false, false, true, false, false]) := by
  decide

/-- **ufuncs.**  `np.add(f, g)`, `np.divmod(f, g)`, `np.float64(2) * f`, …: the result of a NumPy
ufunc is valid exactly where ALL its field inputs are valid (`np.logical_and.reduce`), for any
number of field inputs. -/
theorem valid_ufunc (env : Nat → Mask) (x : Prog) (xs : List Prog) (m : Mask)
    (h : eval env (ufuncProg (x :: xs)) = .ok m) (j : List Nat) (hj : inRange m.shape j = true) :
    m.get j = (x :: xs).all fun y => spec env y j := by
  rw [(eval_spec env _ m h).2 j hj]
  exact (ufuncProg_facts env x xs).2.1 j

/-- **`sum`.**  Python's `sum` of fields (`0 + x₀ + x₁ + …`, the form `div` and `laplace` use) is
valid exactly where every summand is. -/
theorem valid_sum (env : Nat → Mask) (x : Prog) (xs : List Prog) (m : Mask)
    (h : eval env (sumProg (x :: xs)) = .ok m) (j : List Nat) (hj : inRange m.shape j = true) :
    m.get j = (x :: xs).all fun y => spec env y j := by
  rw [(eval_spec env _ m h).2 j hj]
  simp only [sumProg]
  rw [chainF_spec]; rfl

example : run (ufuncProg [.leaf 0, .leaf 1, .leaf 0]) = run (.binF (.leaf 0) (.leaf 1)) := by decide

/-- **`grad`, any number of directions.**  The gradient of a scalar field on a mesh with `nd ≥ 1`
directions (derivatives stacked with `<<`) has the operand's validity — and is accepted whenever
the operand is. -/
theorem valid_grad (env : Nat → Mask) (nd : Nat) (hn : 0 < nd) (p : Prog) :
    (wf env (gradProg nd p) = wf env p) ∧ ∀ m, eval env (gradProg nd p) = .ok m →
      ∃ m0, eval env p = .ok m0 ∧ m.shape = m0.shape ∧ ∀ j, inRange m0.shape j = true → m.get j = m0.get j := by
  obtain ⟨h1, h2, h3⟩ := gradProg_facts env nd p hn
  exact ⟨h3, same_mask_of_spec env _ p h1 h2 (by rw [h3]; exact id)⟩

/-- **`div`, any number of components.**  The divergence (sum over the `nv ≥ 1` components of the
derivative of each component) has the operand's validity. -/
theorem valid_div (env : Nat → Mask) (nv : Nat) (hn : 0 < nv) (p : Prog) :
    (wf env (divProg nv p) = wf env p) ∧ ∀ m, eval env (divProg nv p) = .ok m →
      ∃ m0, eval env p = .ok m0 ∧ m.shape = m0.shape ∧ ∀ j, inRange m0.shape j = true → m.get j = m0.get j := by
  obtain ⟨h1, h2, h3⟩ := divProg_facts env nv p hn
  exact ⟨h3, same_mask_of_spec env _ p h1 h2 (by rw [h3]; exact id)⟩

/-- **`curl`.**  Three differences of derivatives of components, stacked: the operand's validity. -/
theorem valid_curl (env : Nat → Mask) (p : Prog) :
    (wf env (curlProg p) = wf env p) ∧ ∀ m, eval env (curlProg p) = .ok m →
      ∃ m0, eval env p = .ok m0 ∧ m.shape = m0.shape ∧ ∀ j, inRange m0.shape j = true → m.get j = m0.get j := by
  obtain ⟨h1, h2, h3⟩ := curlProg_facts env p
  exact ⟨h3, same_mask_of_spec env _ p h1 h2 (by rw [h3]; exact id)⟩

/-- **`laplace`, any number of directions and components.**  Per component the sum of the second
derivatives over all `nd ≥ 1` directions, the `nv ≥ 1` results stacked: the operand's validity. -/
theorem valid_laplace (env : Nat → Mask) (nd nv : Nat) (hd : 0 < nd) (hv : 0 < nv) (p : Prog) :
    (wf env (laplaceProg nd nv p) = wf env p) ∧ ∀ m, eval env (laplaceProg nd nv p) = .ok m →
      ∃ m0, eval env p = .ok m0 ∧ m.shape = m0.shape ∧ ∀ j, inRange m0.shape j = true → m.get j = m0.get j := by
  obtain ⟨h1, h2, h3⟩ := laplaceProg_facts env nd nv p hd hv
  exact ⟨h3, same_mask_of_spec env _ p h1 h2 (by rw [h3]; exact id)⟩

example : run (gradProg 2 (.leaf 0)) = run (.un (.leaf 0)) ∧ run (divProg 2 (.leaf 0)) = run (.un (.leaf 0)) ∧
    run (curlProg (.leaf 0)) = run (.un (.leaf 0)) ∧ run (laplaceProg 2 3 (.leaf 0)) = run (.un (.leaf 0)) ∧
    run (laplaceProg 2 1 (.leaf 0)) = run (.un (.leaf 0)) := by decide

/-- **Number operands that become fields, reflected operators.**  `f << 3` and `3 << f` (the
number is first turned into an all-valid field on the same mesh and then combined), `other - f`
(`-f + other`) and `other & f` (`-(f & other)`) carry `f`'s validity. -/
theorem valid_reflected (env : Nat → Mask) (p : Prog) (P : Prog)
    (hP : P = lshiftConstProg p ∨ P = rlshiftConstProg p ∨ P = rsubProg p ∨ P = rcrossProg p) (m : Mask)
    (h : eval env P = .ok m) :
    ∃ m0, eval env p = .ok m0 ∧ m.shape = m0.shape ∧ ∀ j, inRange m0.shape j = true → m.get j = m0.get j := by
  rcases hP with rfl | rfl | rfl | rfl
  · exact same_mask_of_spec env (lshiftConstProg p) p rfl (fun j => by simp [lshiftConstProg, spec])
      (by simp only [lshiftConstProg, wf, Bool.and_eq_true]; tauto) m h
  · exact same_mask_of_spec env (rlshiftConstProg p) p rfl (fun j => by simp [rlshiftConstProg, spec])
      (by simp only [rlshiftConstProg, wf, Bool.and_eq_true]; tauto) m h
  · exact same_mask_of_spec env (rsubProg p) p rfl (fun j => rfl) (by simp [rsubProg, wf]) m h
  · exact same_mask_of_spec env (rcrossProg p) p rfl (fun j => rfl) (by simp [rcrossProg, wf]) m h

example : run (lshiftConstProg (.leaf 0)) = run (.un (.leaf 0)) ∧ run (rlshiftConstProg (.leaf 1)) = run (.un (.leaf 1)) := by
  decide

/-- **The constructor route.**  Every operation ends in `Field(..., valid=<Boolean array>)`, i.e. in
the setter with an array of the mesh shape: what is stored is a copy (`own`) of exactly that
array — `True` where it was `True`, `False` where it was `False`. -/
theorem ctor_route_stores_copy (m : Mask) : setMask m.shape (.arr (asArr m)) = .ok (own m) :=
  setMask_asArr m

/-- **Re-assigning a mask changes nothing.**  `g.valid = f.valid` for a mask the setter produced:
same shape, same value in every cell (`f.valid = f.valid` is the identity on validity). -/
theorem setter_idempotent (n : List Nat) (s : MSpec) (m : Mask) (h : setMask n s = .ok m) :
    ∃ m', setMask n (.arr (asArr m)) = .ok m' ∧ m'.shape = n ∧ ∀ j, inRange n j = true → m'.get j = m.get j := by
  have hs := (setMask_spec n s m h).1
  refine ⟨own m, by rw [← hs]; exact setMask_asArr m, hs, fun j hj => own_get m j (by rw [hs]; exact hj)⟩

example : setMask [2, 3] (.arr (asArr (exEnv 0))) = .ok (own (exEnv 0)) := ctor_route_stores_copy (exEnv 0)

/-- **`'norm'` on empty cells.**  A cell whose stored value is the zero vector (any number of
components) is invalid after `valid = 'norm'`. -/
theorem setter_norm_zero (f g : Fld) (h : setValid f .norm = .ok g) (j : List Nat) (hj : inRange f.mesh.n j = true)
    (hz : ∀ c ∈ f.data.get j, c = 0) : g.valid.get j = false := by
  have hsq : sumSq (f.data.get j) = 0 := by
    generalize f.data.get j = l at hz
    induction l with
    | nil => rfl
    | cons c cs ih =>
      simp only [sumSq]
      rw [hz c (by simp), ih (fun x hx => hz x (by simp [hx]))]; simp
  have := (setter_norm f g h j hj).not
  rw [hsq] at this
  have hn : ¬ (atol * atol < (0 : Rat)) := by unfold atol; norm_num
  simpa using this.mpr hn

/-! ## Sessions: ownership over whole histories with in-place changes

A session is a history of statements over numbered variables: `x_new = <expression>`,
`x_i.valid = spec`, `x_i.rotate90(..., inplace=True)`, `x_i.valid[idx] = v`.  Every statement
reads its operands' masks from the store as it is at that moment. -/

/-- **Invariant, all histories.**  After any history from any input fields: every variable names
an object, every object's mask buffer lies in the store, and two variables read the same buffer
exactly when they are names of ONE object (which only `y = +x` creates). -/
theorem session_invariant (leaves : List Mask) (h : List Stmt) (st : Sess) (hr : (Sess.init leaves).run h = .ok st) :
    (∀ i, i < st.vars.length → st.objOf i < st.objs.length ∧ st.addrOf i < st.store.length) ∧
    ∀ i j, i < st.vars.length → j < st.vars.length → (st.addrOf i = st.addrOf j ↔ st.objOf i = st.objOf j) := by
  have hI := Sess.run_inv h _ st (Sess.init_inv leaves) hr
  refine ⟨fun i hi => ⟨hI.vars_lt i hi, hI.addr_lt _ (hI.vars_lt i hi)⟩, fun i j hi hj => ⟨fun he => ?_, fun he => ?_⟩⟩
  · exact hI.addr_inj _ _ (hI.vars_lt i hi) (hI.vars_lt j hj) he
  · unfold Sess.addrOf; rw [he]

/-- **Write-through, at any point of any history.**  `x_i.valid[idx] = v` leaves the mask of every
variable that is not a name of the same object exactly as it was. -/
theorem session_write_isolated (leaves : List Mask) (h : List Stmt) (st st' : Sess)
    (hr : (Sess.init leaves).run h = .ok st) (i pos : Nat) (v : Bool) (hs : st.step (.poke i pos v) = .ok st')
    (j : Nat) (hj : j < st.vars.length) (hne : st.objOf j ≠ st.objOf i) : st'.mask j = st.mask j :=
  Sess.poke_other st st' (Sess.run_inv h _ st (Sess.init_inv leaves) hr) i pos v hs j hj hne

/-- **Assigning validity in place.**  `x_i.valid = spec` at any point of any history: the argument
is judged against the shape of `x_i`; afterwards every name of that object reads the new mask,
every other variable reads what it read before, and the old buffer is still in the store,
untouched (the store only grew). -/
theorem session_assign (leaves : List Mask) (h : List Stmt) (st st' : Sess)
    (hr : (Sess.init leaves).run h = .ok st) (i : Nat) (s : MSpec) (hs : st.step (.assign i s) = .ok st') :
    ∃ m, setMask (st.shapeOfVar i) s = .ok m ∧
      (∀ j, j < st.vars.length → st.objOf j ≠ st.objOf i → st'.mask j = st.mask j) ∧
      (∀ j, st.objOf j = st.objOf i → st'.mask j = m.force false) ∧
      st'.store = st.store ++ [m.toList] :=
  (Sess.assign_effect st st' (Sess.run_inv h _ st (Sess.init_inv leaves) hr) i s hs).imp
    fun _ hm => ⟨hm.1, hm.2.1, hm.2.2.1, hm.2.2.2.1⟩

/-- **In-place quarter turn.**  `x_i.rotate90(ax1, ax2, k, inplace=True)` stores the turned mask
(the same `rot90` as for the values) in a new buffer of the same object; no other object's mask
changes. -/
theorem session_rotate_inplace (leaves : List Mask) (h : List Stmt) (st st' : Sess)
    (hr : (Sess.init leaves).run h = .ok st) (i a b : Nat) (k : Int) (hs : st.step (.rotI i a b k) = .ok st') :
    (∀ j, j < st.vars.length → st.objOf j ≠ st.objOf i → st'.mask j = st.mask j) ∧
    (∀ j, st.objOf j = st.objOf i → st'.mask j = (own ((MapOp.rot a b k).apply (st.mask i) false)).force false) :=
  let e := Sess.rotI_effect st st' (Sess.run_inv h _ st (Sess.init_inv leaves) hr) i a b k hs
  ⟨e.2.1, e.2.2.1⟩

/-- **Building a field.**  `x_new = <expression over the variables>` evaluates the expression on
the masks the variables have NOW, changes no existing variable, and — unless the expression is a
variable itself behind unary plus — the new variable is a new object whose buffer was not in the
store before. -/
theorem session_build (leaves : List Mask) (h : List Stmt) (st st' : Sess)
    (hr : (Sess.init leaves).run h = .ok st) (p : Prog) (hs : st.step (.build p) = .ok st') :
    ∃ m, eval st.mask p = .ok m ∧
      (∀ j, j < st.vars.length → st'.mask j = st.mask j) ∧
      (aliasOf p = none → st'.mask st.vars.length = m.force false ∧ st'.objOf st.vars.length = st.objs.length ∧
        st'.addrOf st.vars.length = st.store.length) := by
  obtain ⟨m, h1, h2, _, h4, _⟩ := Sess.build_effect st st' (Sess.run_inv h _ st (Sess.init_inv leaves) hr) p hs
  exact ⟨m, h1, fun j hj => (h2 j hj).1, h4⟩

/-- **Without unary plus every variable is its own object**, after any history. -/
theorem session_distinct_without_plus (leaves : List Mask) (h : List Stmt) (st : Sess)
    (hr : (Sess.init leaves).run h = .ok st) (ha : (h.all fun s => !s.aliases) = true) (i j : Nat)
    (hi : i < st.vars.length) (hj : j < st.vars.length) (he : st.objOf i = st.objOf j) : i = j :=
  Sess.run_distinct h _ st (Sess.init_inv leaves) (Sess.init_distinct leaves) ha hr i j hi hj he

/-- **A result's validity is its own — over whole histories.**  Take any history without unary
plus, any variable `j` that exists at some point of it, and ANY continuation in which no
statement is an in-place change of `j` itself: builds of new fields from `j`, assignments,
in-place rotations and element writes on every other variable (operands and results alike).
At the end `j` reads exactly the mask it read at that point. -/
theorem session_ownership (leaves : List Mask) (h1 h2 : List Stmt) (st st' : Sess)
    (hr1 : (Sess.init leaves).run h1 = .ok st) (ha1 : (h1.all fun s => !s.aliases) = true) (j : Nat)
    (hj : j < st.vars.length) (ha2 : (h2.all fun s => !s.aliases && decide (s.target ≠ some j)) = true)
    (hr2 : st.run h2 = .ok st') : st'.mask j = st.mask j :=
  Sess.run_keeps h2 j st st' (Sess.run_inv h1 _ st (Sess.init_inv leaves) hr1)
    (Sess.run_distinct h1 _ st (Sess.init_inv leaves) (Sess.init_distinct leaves) ha1 hr1) hj ha2 hr2

/-- **Unary plus (code as it stands, D7).**  `y = +x_i` gives a second name to the object of
`x_i`: a later write through `y` is a write into `x_i`'s buffer. -/
theorem session_unary_plus_shares (st st1 st2 : Sess) (i pos : Nat) (v : Bool)
    (h1 : st.step (.build (.pos (.leaf i))) = .ok st1) (h2 : st1.step (.poke st.vars.length pos v) = .ok st2) :
    st1.objOf st.vars.length = st.objOf i ∧
    st2.store.getD (st2.addrOf i) [] = (st1.store.getD (st1.addrOf i) []).set pos v := by
  have e1 : st1 = { st with vars := st.vars ++ [st.objOf i] } := by
    simp only [Sess.step] at h1
    split at h1
    · cases h1
    · simp only [eval, aliasOf, Except.ok.injEq] at h1; exact h1.symm
  have ho : st1.objOf st.vars.length = st.objOf i := by
    subst e1; exact getD_append_len _ _ _
  have hi : i < st.vars.length := by
    simp only [Sess.step] at h1
    split at h1
    · cases h1
    · rename_i hl; simpa [leavesLt] using hl
  have ho' : st1.objOf i = st.objOf i := by
    subst e1; exact getD_append_lt _ _ _ _ hi
  exact ⟨ho, (Sess.poke_same st1 st2 _ pos v h2 i (by rw [ho', ho])).2⟩

example : (match (Sess.init [exEnv 0, exEnv 1]).run
      [.build (.binF (.leaf 0) (.leaf 1)), .poke 2 0 false, .assign 0 (.const 0), .rotI 1 0 1 1, .build (.un (.leaf 2))] with
    | .ok st => some (st.vars, (st.mask 0).toList, (st.mask 1).shape, (st.mask 2).toList, (st.mask 3).toList)
    | .error _ => none)
    = some ([0, 1, 2, 3], [false, false, false, false, false, false], [3, 2],
            [false, false, false, true, false, false], [false, false, false, true, false, false]) := by decide
example : (match (Sess.init [exEnv 0]).run [.build (.pos (.leaf 0)), .poke 1 1 true] with
    | .ok st => some (st.vars, (st.mask 0).toList)
    | .error _ => none) = some ([0, 0], [true, true, true, true, true, false]) := by decide

/-! ## A field as validity; laws of the mapping operations -/

/-- **A Boolean field as validity.**  `valid = <scalar field of Booleans on a mesh whose region
contains this one>` (what `resample` hands to the constructor) is accepted, gives the mesh shape,
and every cell reads the field's cell whose centre is nearest to its own, axis by axis — a cell
INSIDE the field's array. -/
theorem setter_field_lookup (n : List Nat) (src : Mask) (cs xs : Nat → Nat → Rat) (hl : src.shape.length = n.length)
    (hpos : ∀ b, b < src.shape.length → 0 < src.shape.getD b 0) :
    ∃ m, setMask n (.lookup src true cs xs) = .ok m ∧ m.shape = n ∧
      ∀ j, inRange n j = true → inRange src.shape (lookupIdx src.shape cs xs j) = true ∧
        m.get j = src.get (lookupIdx src.shape cs xs j) := by
  obtain ⟨m, hm⟩ := (setMask_ok_iff n (.lookup src true cs xs)).mpr (by simp [MSpec.ok, hl])
  obtain ⟨h1, h2⟩ := setMask_spec _ _ _ hm
  exact ⟨m, hm, h1, fun j hj => ⟨lookupIdx_inRange _ _ _ _ hpos, h2 j hj⟩⟩

/-- **`resample` IS the setter with a field.**  `field.py` resamples the validity by handing
`Field(self.mesh, nvdim=1, value=self.valid, dtype=bool)` as `valid=` to the constructor on the new
mesh; with both meshes on the same region (any corner `lo`, any edge lengths `E > 0`) the stored
mask is exactly the mapping operation `resample` applied to the mask, for all shapes. -/
theorem resample_is_field_setter (m : Mask) (n' : List Nat) (hl : m.shape.length = n'.length) (lo E : Nat → Rat)
    (hE : ∀ b, 0 < E b) :
    setMask n' (.lookup m true (fun b k => lo b + ((k : Rat) + 1 / 2) * (E b / (m.shape.getD b 0 : Rat)))
        (fun b k => lo b + ((k : Rat) + 1 / 2) * (E b / (n'.getD b 0 : Rat))))
      = .ok (own ((MapOp.resample n').apply m false)) :=
  setMask_lookup_resample m n' hl lo E hE

example : (match setMask [4, 2] (.lookup (exEnv 0) true (fun _ k => ((k : Rat) + 1 / 2) * (1 / ([2, 3].getD 0 0 : Rat)))
      (fun b k => ((k : Rat) + 1 / 2) * (1 / ([4, 2].getD b 0 : Rat)))) with
    | .ok m => some m.shape
    | .error _ => none) = some [4, 2] := by decide
example : (match setMask [4, 2] (.lookup (exEnv 0) false (fun _ _ => 0) (fun _ _ => 0)) with
    | .ok _ => true
    | .error _ => false) = false := by decide

/-- **Padding and taking the original block back.**  For every pad mode and all widths,
`f.pad(w, mode)[region of f]` (also the `out[slices]` step of `diff` on a periodic mesh) has
exactly `f`'s validity; it is accepted whenever `f` is, has one width pair per axis and no empty
axis. -/
theorem pad_then_crop_back (env : Nat → Mask) (mode : PadMode) (w : List (Nat × Nat)) (p : Prog) :
    (wf env p = true → w.length = (shapeOf env p).length →
      (∀ b, b < (shapeOf env p).length → 0 < (shapeOf env p).getD b 0) →
      wf env (.map (unpad w (shapeOf env p)) (.map (.pad mode w) p)) = true) ∧
    ∀ m, eval env (.map (unpad w (shapeOf env p)) (.map (.pad mode w) p)) = .ok m →
      ∃ m0, eval env p = .ok m0 ∧ m.shape = m0.shape ∧ ∀ j, inRange m0.shape j = true → m.get j = m0.get j := by
  obtain ⟨h1, h2, h3, h4⟩ := unpad_pad_facts env mode w p
  exact ⟨h4, same_mask_of_spec_in env _ p h1 h2 h3⟩

example : run (.map (unpad [(2, 1), (0, 3)] [2, 3]) (.map (.pad .symmetric [(2, 1), (0, 3)]) (.leaf 0))) = run (.un (.leaf 0)) := by
  decide

/-- **Well-formed arguments are accepted.**  `None`, `'norm'`, any number, any callable and any
array of the mesh shape are accepted by the setter on EVERY field (no hypothesis on the field). -/
theorem setValid_accepts (f : Fld) (s : VSpec)
    (hs : s = .none ∨ s = .norm ∨ (∃ v, s = .const v) ∨ (∃ fn, s = .func fn) ∨ ∃ a, s = .arr a ∧ a.shape = f.mesh.n) :
    ∃ g, setValid f s = .ok g := by
  rcases hs with rfl | rfl | ⟨v, rfl⟩ | ⟨fn, rfl⟩ | ⟨a, rfl, ha⟩
  · exact ⟨_, rfl⟩
  · exact ⟨_, rfl⟩
  · exact ⟨_, rfl⟩
  · exact ⟨_, rfl⟩
  · exact ⟨_, by simp only [setValid, toMSpec, setMask, if_pos ha]; rfl⟩

example : ∃ g, setValid exFld .norm = .ok g := setValid_accepts exFld .norm (Or.inr (Or.inl rfl))

/-! ## Step by step = inlined -/

/-- **Compositions: step-by-step evaluation is evaluation of the inlined expression.**  Let the
inputs of `p` be results of earlier programs `σ k` that evaluate to the masks `vals k`.  Then
running `p` on those stored results and running the single inlined expression `p.subst σ` on the
original input fields accept exactly the same programs and produce the same shape and the same
validity in every cell — for all programs, by induction (the index-level reading commutes with
substitution, and evaluation depends only on shapes and in-range entries of its inputs). -/
theorem stepwise_is_inlined (env vals : Nat → Mask) (σ : Nat → Prog) (hσ : ∀ k, eval env (σ k) = .ok (vals k))
    (p : Prog) :
    ((∃ m, eval env (p.subst σ) = .ok m) ↔ ∃ m', eval vals p = .ok m') ∧
    ∀ m m', eval env (p.subst σ) = .ok m → eval vals p = .ok m' →
      m.shape = m'.shape ∧ ∀ j, inRange m'.shape j = true → m.get j = m'.get j :=
  eval_subst env vals σ hσ p

example : ∀ k, eval exEnv ((fun k => Prog.un (.leaf k)) k) = .ok ((fun k => own (exEnv k)) k) := fun _ => rfl
example : (Prog.binF (.leaf 0) (.map (.rot 0 1 2) (.leaf 1))).subst (fun k => .un (.leaf k))
    = .binF (.un (.leaf 0)) (.map (.rot 0 1 2) (.un (.leaf 1))) := rfl

end DFV.C08
