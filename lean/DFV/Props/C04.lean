import DFV.Lemmas.C04
/-!
# C04 — derivatives are exact on low-degree polynomials, linear, and blind across gaps

Property theorems about the model of `_1d_diff` / `_split_diff_combine` / periodic wrap
(`DFV/Model/C04.lean`).  Line length, run length, run position, mask, step and values
are universally quantified.
-/
namespace DFV.C04
open DFV

/-! ## Each maximal run is differentiated on its own -/

/-- Segment lemma: in a line `a ++ [✗] ++ run ++ [✗] ++ b` the output on `run` is exactly
`diffRun run`, the delimiting invalid cell yields 0, and what precedes / follows is what
the prefix / suffix yield on their own. -/
theorem sdc_segment (order : Nat) (h : Rat)
    (a : List (Rat × Bool)) (y : Rat) (r : List Rat) (z : Rat) (b : List (Rat × Bool)) :
    diffLine order h (a ++ (y, false) :: (r.map (·, true) ++ (z, false) :: b))
      = diffLine order h (a ++ [(y, false)]) ++ diffRun order h r ++ 0 :: diffLine order h b :=
  sdcGo_segment _ (diffRun_nil order h) a y r z b []

/-- the same for a run that starts the line … -/
theorem sdc_segment_head (order : Nat) (h : Rat) (r : List Rat) (z : Rat) (b : List (Rat × Bool)) :
    diffLine order h (r.map (·, true) ++ (z, false) :: b)
      = diffRun order h r ++ 0 :: diffLine order h b :=
  sdcGo_head _ r z b

/-- … and for a run that ends it. -/
theorem sdc_segment_tail (order : Nat) (h : Rat) (a : List (Rat × Bool)) (y : Rat) (r : List Rat) :
    diffLine order h (a ++ (y, false) :: r.map (·, true))
      = diffLine order h (a ++ [(y, false)]) ++ diffRun order h r :=
  sdcGo_tail _ (diffRun_nil order h) a y r []

/-- a fully valid line is one run -/
theorem all_valid_one_run (order : Nat) (h : Rat) (r : List Rat) :
    diffLine order h (r.map (·, true)) = diffRun order h r :=
  sdcGo_all_valid _ r

/-- Locality: changing values (or validity) anywhere before the run's left delimiter or
after its right delimiter does not change the run's output. -/
theorem locality (order : Nat) (h : Rat)
    (a a' : List (Rat × Bool)) (y y' : Rat) (r : List Rat) (z z' : Rat) (b b' : List (Rat × Bool))
    (hlen : a.length = a'.length) :
    ((diffLine order h (a ++ (y, false) :: (r.map (·, true) ++ (z, false) :: b))).drop (a.length + 1)).take r.length
      = ((diffLine order h (a' ++ (y', false) :: (r.map (·, true) ++ (z', false) :: b'))).drop (a'.length + 1)).take r.length := by
  rw [sdc_segment, sdc_segment]
  have l1 : (diffLine order h (a ++ [(y, false)])).length = a.length + 1 := by
    unfold diffLine sdc
    rw [sdcGo_length _ (diffRun_length order h)]; simp
  have l2 : (diffLine order h (a' ++ [(y', false)])).length = a'.length + 1 := by
    unfold diffLine sdc
    rw [sdcGo_length _ (diffRun_length order h)]; simp
  have lr : (diffRun order h r).length = r.length := diffRun_length order h r
  simp only [List.append_assoc]
  rw [List.drop_append_of_le_length (by omega), List.drop_append_of_le_length (by omega)]
  rw [← l1, List.drop_length, ← l2, List.drop_length]
  simp only [List.nil_append]
  rw [List.take_append_of_le_length (by omega), List.take_append_of_le_length (by omega)]

/-- the output of the whole pass has the line's length (shape kept) -/
theorem diffLine_length (order : Nat) (h : Rat) (cells : List (Rat × Bool)) :
    (diffLine order h cells).length = cells.length := by
  unfold diffLine sdc
  rw [sdcGo_length _ (diffRun_length order h)]; simp

/-! ## Short runs give zero -/

theorem short_run_zero (order : Nat) (ho : order = 1 ∨ order = 2) (h : Rat) (xs : List Rat)
    (hs : xs.length ≤ order) (i : Nat) (hi : i < xs.length) :
    (diffRun order h xs).getD i 0 = 0 := by
  rw [diffRun_getD _ _ _ _ hi]
  unfold dAt d1At d2At
  rcases ho with rfl | rfl
  · have : xs.length < 2 := by omega
    simp [this]
  · have : xs.length < 3 := by omega
    simp [this]

/-! ## Exactness on polynomials (any run position `x0`, any step `h ≠ 0`, any run length) -/

/-- first derivative, run of ≥ 3 cells: exact for every polynomial of degree ≤ 2, at the
first cell, the interior cells and the last cell -/
theorem d1_exact (a b c x0 h : Rat) (hh : h ≠ 0) (L : Nat) (hL : 3 ≤ L) (i : Nat) (hi : i < L) :
    d1At h L (fun k => a + b * (x0 + (k : Rat) * h) + c * (x0 + (k : Rat) * h) ^ 2) i
      = b + 2 * c * (x0 + (i : Rat) * h) := by
  unfold d1At
  have h1 : ¬ L < 2 := by omega
  have h2 : ¬ L = 2 := by omega
  simp only [h1, h2, if_false]
  by_cases h0 : i = 0
  · subst h0; simp only [if_true]; field_simp; push_cast; ring
  · by_cases hl : i = L - 1
    · have e1 : ((L - 1 : Nat) : Rat) = (L : Rat) - 1 := by
        push_cast [Nat.cast_sub (by omega : 1 ≤ L)]; ring
      have e2 : ((L - 2 : Nat) : Rat) = (L : Rat) - 2 := by
        push_cast [Nat.cast_sub (by omega : 2 ≤ L)]; ring
      have e3 : ((L - 3 : Nat) : Rat) = (L : Rat) - 3 := by
        push_cast [Nat.cast_sub (by omega : 3 ≤ L)]; ring
      have hL0 : ¬ (L - 1 = 0) := by omega
      subst hl
      simp only [hL0, if_false, if_true, e1, e2, e3]
      field_simp; ring
    · have e2 : ((i - 1 : Nat) : Rat) = (i : Rat) - 1 := by
        push_cast [Nat.cast_sub (by omega : 1 ≤ i)]; ring
      simp only [h0, hl, if_false, e2]
      push_cast; field_simp; ring

/-- first derivative, two-cell run: exact for polynomials of degree ≤ 1 -/
theorem d1_exact_two (a b x0 h : Rat) (hh : h ≠ 0) (i : Nat) :
    d1At h 2 (fun k => a + b * (x0 + (k : Rat) * h)) i = b := by
  unfold d1At
  simp
  field_simp; ring

/-- second derivative, run of ≥ 4 cells: exact for every polynomial of degree ≤ 3 -/
theorem d2_exact (a b c d x0 h : Rat) (hh : h ≠ 0) (L : Nat) (hL : 4 ≤ L) (i : Nat) (hi : i < L) :
    d2At h L (fun k => a + b * (x0 + (k : Rat) * h) + c * (x0 + (k : Rat) * h) ^ 2
        + d * (x0 + (k : Rat) * h) ^ 3) i
      = 2 * c + 6 * d * (x0 + (i : Rat) * h) := by
  unfold d2At
  have h1 : ¬ L < 3 := by omega
  have h2 : ¬ L = 3 := by omega
  simp only [h1, h2, if_false]
  by_cases h0 : i = 0
  · subst h0; simp only [if_true]; field_simp; push_cast; ring
  · by_cases hl : i = L - 1
    · have e1 : ((L - 1 : Nat) : Rat) = (L : Rat) - 1 := by
        push_cast [Nat.cast_sub (by omega : 1 ≤ L)]; ring
      have e2 : ((L - 2 : Nat) : Rat) = (L : Rat) - 2 := by
        push_cast [Nat.cast_sub (by omega : 2 ≤ L)]; ring
      have e3 : ((L - 3 : Nat) : Rat) = (L : Rat) - 3 := by
        push_cast [Nat.cast_sub (by omega : 3 ≤ L)]; ring
      have e4 : ((L - 4 : Nat) : Rat) = (L : Rat) - 4 := by
        push_cast [Nat.cast_sub (by omega : 4 ≤ L)]; ring
      have hL0 : ¬ (L - 1 = 0) := by omega
      subst hl
      simp only [hL0, if_false, if_true, e1, e2, e3, e4]
      field_simp; ring
    · have e2 : ((i - 1 : Nat) : Rat) = (i : Rat) - 1 := by
        push_cast [Nat.cast_sub (by omega : 1 ≤ i)]; ring
      simp only [h0, hl, if_false, e2]
      push_cast; field_simp; ring

/-- second derivative, three-cell run: exact for polynomials of degree ≤ 2 -/
theorem d2_exact_three (a b c x0 h : Rat) (hh : h ≠ 0) (i : Nat) :
    d2At h 3 (fun k => a + b * (x0 + (k : Rat) * h) + c * (x0 + (k : Rat) * h) ^ 2) i = 2 * c := by
  unfold d2At
  simp
  field_simp; ring

/-! ## Linearity -/

/-- the stencils are linear in the values (same run length, same position) -/
theorem dAt_linear (order : Nat) (h : Rat) (L : Nat) (f g : Nat → Rat) (α β : Rat) (i : Nat) :
    dAt order h L (fun k => α * f k + β * g k) i = α * dAt order h L f i + β * dAt order h L g i := by
  unfold dAt d1At d2At
  split <;> (repeat' split) <;> ring

/-- the whole pass is linear for two lines with the same validity pattern -/
theorem sdc_linear (order : Nat) (h : Rat) (α β : Rat) (cells : List ((Rat × Rat) × Bool)) :
    ∀ (accF accG : List Rat), accF.length = accG.length →
    sdcGo (diffRun order h) (cells.map fun c => (α * c.1.1 + β * c.1.2, c.2))
        (List.zipWith (fun x y => α * x + β * y) accF accG)
      = List.zipWith (fun x y => α * x + β * y)
          (sdcGo (diffRun order h) (cells.map fun c => (c.1.1, c.2)) accF)
          (sdcGo (diffRun order h) (cells.map fun c => (c.1.2, c.2)) accG) := by
  have hrun : ∀ (xs ys : List Rat), xs.length = ys.length →
      diffRun order h (List.zipWith (fun x y => α * x + β * y) xs ys)
        = List.zipWith (fun x y => α * x + β * y) (diffRun order h xs) (diffRun order h ys) := by
    intro xs ys hl
    apply List.ext_getElem
    · simp [diffRun_length, hl]
    · intro i h1 h2
      have hi : i < xs.length := by simpa [diffRun_length, hl] using h1
      have hi' : i < ys.length := by omega
      simp only [List.getElem_zipWith]
      have e1 := diffRun_getD order h (List.zipWith (fun x y => α * x + β * y) xs ys) i (by simp [hl]; omega)
      have e2 := diffRun_getD order h xs i hi
      have e3 := diffRun_getD order h ys i hi'
      simp only [List.getD_eq_getElem?_getD] at e1 e2 e3
      rw [List.getElem?_eq_getElem h1] at e1
      rw [List.getElem?_eq_getElem (by simp [diffRun_length]; omega)] at e2
      rw [List.getElem?_eq_getElem (by simp [diffRun_length]; omega)] at e3
      simp only [Option.getD_some] at e1 e2 e3
      rw [e1, e2, e3]
      have hz : (List.zipWith (fun x y => α * x + β * y) xs ys).length = xs.length := by
        simp [hl]
      rw [hz, ← hl]
      have hf : (fun (k : Nat) => (List.zipWith (fun x y => α * x + β * y) xs ys)[k]?.getD 0)
          = fun (k : Nat) => α * (xs[k]?.getD 0) + β * (ys[k]?.getD 0) := by
        funext k
        by_cases hk : k < xs.length
        · have hk' : k < ys.length := by omega
          simp [List.getElem?_zipWith, List.getElem?_eq_getElem, hk, hk']
        · have hk' : ¬ k < ys.length := by omega
          simp [List.getElem?_zipWith, List.getElem?_eq_none, Nat.le_of_not_lt hk, Nat.le_of_not_lt hk']
      rw [hf]
      exact dAt_linear order h xs.length _ _ α β i
  have hrev : ∀ (xs ys : List Rat), xs.length = ys.length →
      (List.zipWith (fun x y => α * x + β * y) xs ys).reverse
        = List.zipWith (fun x y => α * x + β * y) xs.reverse ys.reverse := by
    intro xs ys hl
    rw [List.reverse_zipWith hl]
  induction cells with
  | nil =>
    intro accF accG hl
    simp only [List.map_nil, sdcGo]
    rw [hrev _ _ hl, hrun _ _ (by simp [hl])]
  | cons c cs ih =>
    intro accF accG hl
    obtain ⟨⟨x, y⟩, v⟩ := c
    cases v
    · simp only [List.map_cons, sdcGo]
      rw [hrev _ _ hl, hrun _ _ (by simp [hl])]
      have := ih [] [] rfl
      simp only [List.zipWith_nil_left] at this
      rw [this]
      rw [List.zipWith_append (by simp [diffRun_length, hl])]
      simp
    · simp only [List.map_cons, sdcGo]
      have := ih (x :: accF) (y :: accG) (by simp [hl])
      simpa using this

/-! ## Periodic direction: centred differences with wrap-around -/


/-- Periodic direction, every cell valid (or validity restriction off): the first
derivative is the centred difference with wrap-around, for every ring length `L ≥ 1`. -/
theorem ring_centred_d1 (h : Rat) (xs : List Rat) (j : Nat) (hj : j < xs.length) :
    (diffRing 1 h (xs.map (·, true))).getD j 0
      = (ringVal xs (j + 1) - ringVal xs (j + xs.length - 1)) / (2 * h) := by
  have hne : xs ≠ [] := by intro h; simp [h] at hj
  rw [diffRing_all_valid_getD 1 h xs hne j hj]
  unfold dAt d1At
  have h1 : ¬ (xs.length + 2 < 2) := by omega
  have h2 : ¬ (xs.length + 2 = 2) := by omega
  have h3 : ¬ (j + 1 = 0) := by omega
  have h4 : ¬ (j + 1 = xs.length + 2 - 1) := by omega
  simp only [h1, h2, h3, h4, if_false, if_true]
  rw [show j + 1 + 1 = j + 2 from rfl, show j + 1 - 1 = j from rfl, ringVal_succ xs j hj, ringVal_pred xs j hj]

/-- … and the second derivative is the centred second difference with wrap-around. -/
theorem ring_centred_d2 (h : Rat) (xs : List Rat) (j : Nat) (hj : j < xs.length) :
    (diffRing 2 h (xs.map (·, true))).getD j 0
      = (ringVal xs (j + 1) - 2 * ringVal xs j + ringVal xs (j + xs.length - 1)) / (h * h) := by
  have hne : xs ≠ [] := by intro h; simp [h] at hj
  rw [diffRing_all_valid_getD 2 h xs hne j hj]
  unfold dAt d2At
  have h0 : ¬ ((2 : Nat) = 1) := by omega
  have h1 : ¬ (xs.length + 2 < 3) := by omega
  simp only [h0, h1, if_false]
  by_cases h2 : xs.length + 2 = 3
  · -- ring of one cell
    have hL : xs.length = 1 := by omega
    have hj0 : j = 0 := by omega
    subst hj0
    simp only [h2, if_true]
    have a := ringVal_pred xs 0 (by omega)
    have b := ringVal_self xs 0 (by omega)
    have c := ringVal_succ xs 0 (by omega)
    simp only [Nat.zero_add] at a b c
    rw [a, b, c]
    unfold ringVal
    simp [hL]
  · have h3 : ¬ (j + 1 = 0) := by omega
    have h4 : ¬ (j + 1 = xs.length + 2 - 1) := by omega
    simp only [h2, h3, h4, if_false]
    rw [show j + 1 + 1 = j + 2 from rfl, show j + 1 - 1 = j from rfl, ringVal_succ xs j hj,
      ringVal_pred xs j hj, ringVal_self xs j hj]

/-- Hence on a fully valid ring the derivative commutes with cyclic shifts. -/
theorem ring_shift (order : Nat) (ho : order = 1 ∨ order = 2) (h : Rat) (xs : List Rat) (s : Nat)
    (j : Nat) (hj : j < xs.length) :
    (diffRing order h ((roll xs s).map (·, true))).getD j 0
      = ringVal (tab xs.length fun k => (diffRing order h (xs.map (·, true))).getD k 0) (j + s) := by
  have hne : xs ≠ [] := by intro h; simp [h] at hj
  have hL : 0 < xs.length := List.length_pos_iff.mpr hne
  have hrl : (roll xs s).length = xs.length := by simp [roll]
  have hrne : roll xs s ≠ [] := by intro h; rw [h] at hrl; simp at hrl; omega
  have hm : (j + s) % xs.length < xs.length := Nat.mod_lt _ hL
  conv_rhs => unfold ringVal; rw [tab_length, getD_tab _ _ _ _ hm]
  have k1 : ringVal xs (j + 1 + s) = ringVal xs ((j + s) % xs.length + 1) :=
    ringVal_congr _ _ _ (by rw [Nat.mod_add_mod]; congr 1; omega)
  have k2 : ringVal xs (j + xs.length - 1 + s) = ringVal xs ((j + s) % xs.length + xs.length - 1) := by
    apply ringVal_congr
    have e2 : (j + s) % xs.length + xs.length - 1 = (j + s) % xs.length + (xs.length - 1) := by omega
    rw [e2, Nat.mod_add_mod]; congr 1; omega
  have k3 : ringVal xs (j + s) = ringVal xs ((j + s) % xs.length) :=
    ringVal_congr _ _ _ (by rw [Nat.mod_mod])
  rcases ho with rfl | rfl
  · rw [ring_centred_d1 _ _ _ (by rw [hrl]; exact hj), ring_centred_d1 _ _ _ hm]
    rw [hrl, ringVal_roll _ _ _ hne, ringVal_roll _ _ _ hne, k1, k2]
  · rw [ring_centred_d2 _ _ _ (by rw [hrl]; exact hj), ring_centred_d2 _ _ _ hm]
    rw [hrl, ringVal_roll _ _ _ hne, ringVal_roll _ _ _ hne, ringVal_roll _ _ _ hne, k1, k2, k3]

/-! ## masked rings: where the seam is not crossed the ring is an open line -/

/-- Periodic direction, masked ring whose FIRST cell is invalid: no run crosses the seam and the
result is exactly that of the open line. -/
theorem ring_open_if_first_invalid (order : Nat) (h : Rat) (y : Rat) (rest : List (Rat × Bool)) :
    diffRing order h ((y, false) :: rest) = diffLine order h ((y, false) :: rest) := by
  unfold diffRing
  have hd : diffRun order h [] = [] := diffRun_nil order h
  have hlen : (diffLine order h ((y, false) :: rest)).length = rest.length + 1 := by
    rw [diffLine_length]; simp
  -- the padded line: last :: (y,false) :: rest ++ [(y,false)]
  have hw : wrap1 ((y, false) :: rest) = ((y, false) :: rest).getLast (by simp) :: ((y, false) :: rest) ++ [(y, false)] :=
    wrap1_eq rest (y, false)
  rw [hw]
  obtain ⟨lx, lv⟩ := ((y, false) :: rest).getLast (by simp)
  have hopen : diffLine order h ((y, false) :: rest) = 0 :: sdcGo (diffRun order h) rest [] := by
    unfold diffLine sdc; simp [sdcGo, hd]
  rw [hopen]
  unfold diffLine sdc
  simp only [List.cons_append, List.length_cons]
  cases lv
  · -- padding cell invalid
    simp only [sdcGo, List.reverse_nil, hd, List.nil_append, List.drop_succ_cons, List.drop_zero]
    rw [sdcGo_append_invalid _ hd]
    have : (sdcGo (diffRun order h) rest []).length = rest.length := by
      rw [sdcGo_length _ (diffRun_length order h)]; simp
    rw [show rest.length + 1 = (0 :: sdcGo (diffRun order h) rest []).length by simp [this]]
    rw [← List.cons_append, List.take_left']
    rfl
  · rw [sdcGo_cons_valid_then_invalid _ (by intro x; simp [diffRun_length])]
    rw [sdcGo_append_invalid _ hd]
    have : (sdcGo (diffRun order h) rest []).length = rest.length := by
      rw [sdcGo_length _ (diffRun_length order h)]; simp
    rw [show rest.length + 1 = (0 :: sdcGo (diffRun order h) rest []).length by simp [this]]
    rw [← List.cons_append, List.take_left']
    rfl


/-- … and likewise when the LAST cell is invalid. -/
theorem ring_open_if_last_invalid (order : Nat) (h : Rat) (y : Rat) (rest : List (Rat × Bool)) :
    diffRing order h (rest ++ [(y, false)]) = diffLine order h (rest ++ [(y, false)]) := by
  unfold diffRing
  have hd : diffRun order h [] = [] := diffRun_nil order h
  have hne : rest ++ [(y, false)] ≠ [] := by simp
  obtain ⟨c0, cs, hcs⟩ : ∃ c0 cs, rest ++ [(y, false)] = c0 :: cs := by
    cases hr : rest ++ [(y, false)] with
    | nil => exact absurd hr hne
    | cons c0 cs => exact ⟨c0, cs, rfl⟩
  have hh : (rest ++ [(y, false)]).head? = some c0 := by rw [hcs]; rfl
  have hl0 : (rest ++ [(y, false)]).getLast? = some (y, false) := by simp
  have hw : wrap1 (rest ++ [(y, false)]) = (y, false) :: (rest ++ [(y, false)]) ++ [c0] := by
    unfold wrap1
    rw [hh, hl0]
  rw [hw]
  have hopen : diffLine order h (rest ++ [(y, false)]) = sdcGo (diffRun order h) rest [] ++ [0] := by
    unfold diffLine sdc; rw [sdcGo_append_invalid _ hd]
  rw [hopen]
  unfold diffLine sdc
  simp only [List.cons_append, sdcGo, List.reverse_nil, hd, List.nil_append, List.drop_succ_cons, List.drop_zero,
    List.append_assoc, List.singleton_append]
  rw [sdcGo_split_invalid]
  have hl : (sdcGo (diffRun order h) rest []).length = rest.length := by
    rw [sdcGo_length _ (diffRun_length order h)]; simp
  have : (rest ++ [(y, false)]).length = (sdcGo (diffRun order h) rest [] ++ [0]).length := by simp [hl]
  rw [this]
  have e : sdcGo (diffRun order h) rest [] ++ 0 :: sdcGo (diffRun order h) [c0] []
      = (sdcGo (diffRun order h) rest [] ++ [0]) ++ sdcGo (diffRun order h) [c0] [] := by simp
  rw [e, List.take_left']
  rfl


/-! ## field level: per component, per grid line, metadata -/


/-- `Field.diff` keeps mesh, component count, labels, mapping, unit and validity, and the
array shape -/
theorem diff_keeps_meta (f g : Fld) (ax order : Nat) (restrict : Bool) (h : diff f ax order restrict = .ok g) :
    g.mesh = f.mesh ∧ g.nvdim = f.nvdim ∧ g.vdims = f.vdims ∧ g.vmap = f.vmap ∧ g.unit = f.unit ∧
    g.valid.shape = f.valid.shape ∧ g.valid.get = f.valid.get ∧ g.data.shape = f.data.shape := by
  unfold diff at h
  split at h
  · cases h
  · split at h
    · cases h
    · injection h with h; subst h
      exact ⟨rfl, rfl, rfl, rfl, rfl, rfl, rfl, rfl⟩

/-- orders other than 1 and 2 are refused -/
theorem diff_rejects_order (f : Fld) (ax order : Nat) (restrict : Bool) (ho : order ≠ 1 ∧ order ≠ 2) :
    diff f ax order restrict = .error .notImpl := by
  unfold diff; rw [if_pos ho]

/-- Per component and per grid line: the value of `diff` at cell `i`, component `c`, is entry
`i[ax]` of the 1-d derivative of the line through `i` — it depends on nothing else. -/
theorem diff_cell (f g : Fld) (ax order : Nat) (restrict : Bool) (h : diff f ax order restrict = .ok g)
    (i : List Nat) (c : Nat) (hc : c < f.nvdim) :
    (g.data.get i).getD c 0
      = (diffLine' (f.mesh.bc.toList.any fun ch => String.singleton ch == f.mesh.region.dims.getD ax "")
          restrict order (f.mesh.cellAt ax) (lineCells f ax i c)).getD (i.getD ax 0) 0 := by
  unfold diff at h
  split at h
  · cases h
  · split at h
    · cases h
    · injection h with h; subst h
      simp only [lineCells]
      rw [getD_tab _ _ _ _ hc]

/-- Hence two fields on the same mesh that agree (values of component `c` and validity) on the
grid line through `i` have the same derivative at `(i, c)`, whatever they hold elsewhere and in
other components. -/
theorem diff_linewise (f1 f2 g1 g2 : Fld) (ax order : Nat) (restrict : Bool)
    (h1 : diff f1 ax order restrict = .ok g1) (h2 : diff f2 ax order restrict = .ok g2)
    (hmesh : f1.mesh = f2.mesh) (i : List Nat) (c : Nat) (hc1 : c < f1.nvdim) (hc2 : c < f2.nvdim)
    (hline : lineCells f1 ax i c = lineCells f2 ax i c) :
    (g1.data.get i).getD c 0 = (g2.data.get i).getD c 0 := by
  rw [diff_cell f1 g1 ax order restrict h1 i c hc1, diff_cell f2 g2 ax order restrict h2 i c hc2, hmesh, hline]

/-- with the validity restriction switched off the whole line is treated as one run:
same result as for an all-true mask -/
theorem restrict_off (periodic : Bool) (order : Nat) (h : Rat) (cells : List (Rat × Bool)) :
    diffLine' periodic false order h cells = diffLine' periodic true order h (cells.map fun c => (c.1, true)) := by
  unfold diffLine'
  simp

/-- … and on an open line that is the plain stencil over the whole line -/
theorem restrict_off_open (order : Nat) (h : Rat) (cells : List (Rat × Bool)) :
    diffLine' false false order h cells = diffRun order h (cells.map (·.1)) := by
  unfold diffLine'
  simp only [Bool.false_eq_true, if_false]
  have : (cells.map fun c => (c.1, true)) = (cells.map (·.1)).map (·, true) := by simp
  rw [this, all_valid_one_run]


end DFV.C04
