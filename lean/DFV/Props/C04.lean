import DFV.Lemmas.C04
import DFV.Lemmas.C04Spec
import DFV.Lemmas.C04Fld
import DFV.Lemmas.C04Cyc
/-!
# C04 — derivatives are exact on low-degree polynomials, linear, and blind across gaps

Property theorems about the model of `_1d_diff` / `_split_diff_combine` / periodic wrap
(`DFV/Model/C04.lean`).  Line length, run length, run position, mask, step and values
are universally quantified.
-/
namespace DFV.C04
open DFV

/-! ## Each maximal run is differentiated on its own -/

/-- Segment lemma: in a line `a ++ [✗] ++ run ++ [✗] ++ b` the output on `run` is exactly
`diffRun run`, the delimiting invalid cell yields 0, and what precedes / follows is what
the prefix / suffix yield on their own. -/
theorem sdc_segment (order : Nat) (h : Rat)
    (a : List (Rat × Bool)) (y : Rat) (r : List Rat) (z : Rat) (b : List (Rat × Bool)) :
    diffLine order h (a ++ (y, false) :: (r.map (·, true) ++ (z, false) :: b))
      = diffLine order h (a ++ [(y, false)]) ++ diffRun order h r ++ 0 :: diffLine order h b :=
  sdcGo_segment _ (diffRun_nil order h) a y r z b []

/-- the same for a run that starts the line … -/
theorem sdc_segment_head (order : Nat) (h : Rat) (r : List Rat) (z : Rat) (b : List (Rat × Bool)) :
    diffLine order h (r.map (·, true) ++ (z, false) :: b)
      = diffRun order h r ++ 0 :: diffLine order h b :=
  sdcGo_head _ r z b

/-- … and for a run that ends it. -/
theorem sdc_segment_tail (order : Nat) (h : Rat) (a : List (Rat × Bool)) (y : Rat) (r : List Rat) :
    diffLine order h (a ++ (y, false) :: r.map (·, true))
      = diffLine order h (a ++ [(y, false)]) ++ diffRun order h r :=
  sdcGo_tail _ (diffRun_nil order h) a y r []

/-- a fully valid line is one run -/
theorem all_valid_one_run (order : Nat) (h : Rat) (r : List Rat) :
    diffLine order h (r.map (·, true)) = diffRun order h r :=
  sdcGo_all_valid _ r

/-- Locality: changing values (or validity) anywhere before the run's left delimiter or
after its right delimiter does not change the run's output. -/
theorem locality (order : Nat) (h : Rat)
    (a a' : List (Rat × Bool)) (y y' : Rat) (r : List Rat) (z z' : Rat) (b b' : List (Rat × Bool))
    (hlen : a.length = a'.length) :
    ((diffLine order h (a ++ (y, false) :: (r.map (·, true) ++ (z, false) :: b))).drop (a.length + 1)).take r.length
      = ((diffLine order h (a' ++ (y', false) :: (r.map (·, true) ++ (z', false) :: b'))).drop (a'.length + 1)).take r.length := by
  rw [sdc_segment, sdc_segment]
  have l1 : (diffLine order h (a ++ [(y, false)])).length = a.length + 1 := by
    unfold diffLine sdc
    rw [sdcGo_length _ (diffRun_length order h)]; simp
  have l2 : (diffLine order h (a' ++ [(y', false)])).length = a'.length + 1 := by
    unfold diffLine sdc
    rw [sdcGo_length _ (diffRun_length order h)]; simp
  have lr : (diffRun order h r).length = r.length := diffRun_length order h r
  simp only [List.append_assoc]
  rw [List.drop_append_of_le_length (by omega), List.drop_append_of_le_length (by omega)]
  rw [← l1, List.drop_length, ← l2, List.drop_length]
  simp only [List.nil_append]
  rw [List.take_append_of_le_length (by omega), List.take_append_of_le_length (by omega)]

/-- the output of the whole pass has the line's length (shape kept) -/
theorem diffLine_length (order : Nat) (h : Rat) (cells : List (Rat × Bool)) :
    (diffLine order h cells).length = cells.length := by
  unfold diffLine sdc
  rw [sdcGo_length _ (diffRun_length order h)]; simp

/-! ## Short runs give zero -/

theorem short_run_zero (order : Nat) (ho : order = 1 ∨ order = 2) (h : Rat) (xs : List Rat)
    (hs : xs.length ≤ order) (i : Nat) (hi : i < xs.length) :
    (diffRun order h xs).getD i 0 = 0 := by
  rw [diffRun_getD _ _ _ _ hi]
  unfold dAt d1At d2At
  rcases ho with rfl | rfl
  · have : xs.length < 2 := by omega
    simp [this]
  · have : xs.length < 3 := by omega
    simp [this]

/-! ## Exactness on polynomials (any run position `x0`, any step `h ≠ 0`, any run length) -/

/-- first derivative, run of ≥ 3 cells: exact for every polynomial of degree ≤ 2, at the
first cell, the interior cells and the last cell -/
theorem d1_exact (a b c x0 h : Rat) (hh : h ≠ 0) (L : Nat) (hL : 3 ≤ L) (i : Nat) (hi : i < L) :
    d1At h L (fun k => a + b * (x0 + (k : Rat) * h) + c * (x0 + (k : Rat) * h) ^ 2) i
      = b + 2 * c * (x0 + (i : Rat) * h) := by
  unfold d1At
  have h1 : ¬ L < 2 := by omega
  have h2 : ¬ L = 2 := by omega
  simp only [h1, h2, if_false]
  by_cases h0 : i = 0
  · subst h0; simp only [if_true]; field_simp; push_cast; ring
  · by_cases hl : i = L - 1
    · have e1 : ((L - 1 : Nat) : Rat) = (L : Rat) - 1 := by
        push_cast [Nat.cast_sub (by omega : 1 ≤ L)]; ring
      have e2 : ((L - 2 : Nat) : Rat) = (L : Rat) - 2 := by
        push_cast [Nat.cast_sub (by omega : 2 ≤ L)]; ring
      have e3 : ((L - 3 : Nat) : Rat) = (L : Rat) - 3 := by
        push_cast [Nat.cast_sub (by omega : 3 ≤ L)]; ring
      have hL0 : ¬ (L - 1 = 0) := by omega
      subst hl
      simp only [hL0, if_false, if_true, e1, e2, e3]
      field_simp; ring
    · have e2 : ((i - 1 : Nat) : Rat) = (i : Rat) - 1 := by
        push_cast [Nat.cast_sub (by omega : 1 ≤ i)]; ring
      simp only [h0, hl, if_false, e2]
      push_cast; field_simp; ring

/-- first derivative, two-cell run: exact for polynomials of degree ≤ 1 -/
theorem d1_exact_two (a b x0 h : Rat) (hh : h ≠ 0) (i : Nat) :
    d1At h 2 (fun k => a + b * (x0 + (k : Rat) * h)) i = b := by
  unfold d1At
  simp
  field_simp; ring

/-- second derivative, run of ≥ 4 cells: exact for every polynomial of degree ≤ 3 -/
theorem d2_exact (a b c d x0 h : Rat) (hh : h ≠ 0) (L : Nat) (hL : 4 ≤ L) (i : Nat) (hi : i < L) :
    d2At h L (fun k => a + b * (x0 + (k : Rat) * h) + c * (x0 + (k : Rat) * h) ^ 2
        + d * (x0 + (k : Rat) * h) ^ 3) i
      = 2 * c + 6 * d * (x0 + (i : Rat) * h) := by
  unfold d2At
  have h1 : ¬ L < 3 := by omega
  have h2 : ¬ L = 3 := by omega
  simp only [h1, h2, if_false]
  by_cases h0 : i = 0
  · subst h0; simp only [if_true]; field_simp; push_cast; ring
  · by_cases hl : i = L - 1
    · have e1 : ((L - 1 : Nat) : Rat) = (L : Rat) - 1 := by
        push_cast [Nat.cast_sub (by omega : 1 ≤ L)]; ring
      have e2 : ((L - 2 : Nat) : Rat) = (L : Rat) - 2 := by
        push_cast [Nat.cast_sub (by omega : 2 ≤ L)]; ring
      have e3 : ((L - 3 : Nat) : Rat) = (L : Rat) - 3 := by
        push_cast [Nat.cast_sub (by omega : 3 ≤ L)]; ring
      have e4 : ((L - 4 : Nat) : Rat) = (L : Rat) - 4 := by
        push_cast [Nat.cast_sub (by omega : 4 ≤ L)]; ring
      have hL0 : ¬ (L - 1 = 0) := by omega
      subst hl
      simp only [hL0, if_false, if_true, e1, e2, e3, e4]
      field_simp; ring
    · have e2 : ((i - 1 : Nat) : Rat) = (i : Rat) - 1 := by
        push_cast [Nat.cast_sub (by omega : 1 ≤ i)]; ring
      simp only [h0, hl, if_false, e2]
      push_cast; field_simp; ring

/-- second derivative, three-cell run: exact for polynomials of degree ≤ 2 -/
theorem d2_exact_three (a b c x0 h : Rat) (hh : h ≠ 0) (i : Nat) :
    d2At h 3 (fun k => a + b * (x0 + (k : Rat) * h) + c * (x0 + (k : Rat) * h) ^ 2) i = 2 * c := by
  unfold d2At
  simp
  field_simp; ring

/-! ## Linearity -/

/-- the stencils are linear in the values (same run length, same position) -/
theorem dAt_linear (order : Nat) (h : Rat) (L : Nat) (f g : Nat → Rat) (α β : Rat) (i : Nat) :
    dAt order h L (fun k => α * f k + β * g k) i = α * dAt order h L f i + β * dAt order h L g i := by
  unfold dAt d1At d2At
  split <;> (repeat' split) <;> ring

/-- the whole pass is linear for two lines with the same validity pattern -/
theorem sdc_linear (order : Nat) (h : Rat) (α β : Rat) (cells : List ((Rat × Rat) × Bool)) :
    ∀ (accF accG : List Rat), accF.length = accG.length →
    sdcGo (diffRun order h) (cells.map fun c => (α * c.1.1 + β * c.1.2, c.2))
        (List.zipWith (fun x y => α * x + β * y) accF accG)
      = List.zipWith (fun x y => α * x + β * y)
          (sdcGo (diffRun order h) (cells.map fun c => (c.1.1, c.2)) accF)
          (sdcGo (diffRun order h) (cells.map fun c => (c.1.2, c.2)) accG) := by
  have hrun : ∀ (xs ys : List Rat), xs.length = ys.length →
      diffRun order h (List.zipWith (fun x y => α * x + β * y) xs ys)
        = List.zipWith (fun x y => α * x + β * y) (diffRun order h xs) (diffRun order h ys) := by
    intro xs ys hl
    apply List.ext_getElem
    · simp [diffRun_length, hl]
    · intro i h1 h2
      have hi : i < xs.length := by simpa [diffRun_length, hl] using h1
      have hi' : i < ys.length := by omega
      simp only [List.getElem_zipWith]
      have e1 := diffRun_getD order h (List.zipWith (fun x y => α * x + β * y) xs ys) i (by simp [hl]; omega)
      have e2 := diffRun_getD order h xs i hi
      have e3 := diffRun_getD order h ys i hi'
      simp only [List.getD_eq_getElem?_getD] at e1 e2 e3
      rw [List.getElem?_eq_getElem h1] at e1
      rw [List.getElem?_eq_getElem (by simp [diffRun_length]; omega)] at e2
      rw [List.getElem?_eq_getElem (by simp [diffRun_length]; omega)] at e3
      simp only [Option.getD_some] at e1 e2 e3
      rw [e1, e2, e3]
      have hz : (List.zipWith (fun x y => α * x + β * y) xs ys).length = xs.length := by
        simp [hl]
      rw [hz, ← hl]
      have hf : (fun (k : Nat) => (List.zipWith (fun x y => α * x + β * y) xs ys)[k]?.getD 0)
          = fun (k : Nat) => α * (xs[k]?.getD 0) + β * (ys[k]?.getD 0) := by
        funext k
        by_cases hk : k < xs.length
        · have hk' : k < ys.length := by omega
          simp [List.getElem?_zipWith, List.getElem?_eq_getElem, hk, hk']
        · have hk' : ¬ k < ys.length := by omega
          simp [List.getElem?_zipWith, List.getElem?_eq_none, Nat.le_of_not_lt hk, Nat.le_of_not_lt hk']
      rw [hf]
      exact dAt_linear order h xs.length _ _ α β i
  have hrev : ∀ (xs ys : List Rat), xs.length = ys.length →
      (List.zipWith (fun x y => α * x + β * y) xs ys).reverse
        = List.zipWith (fun x y => α * x + β * y) xs.reverse ys.reverse := by
    intro xs ys hl
    rw [List.reverse_zipWith hl]
  induction cells with
  | nil =>
    intro accF accG hl
    simp only [List.map_nil, sdcGo]
    rw [hrev _ _ hl, hrun _ _ (by simp [hl])]
  | cons c cs ih =>
    intro accF accG hl
    obtain ⟨⟨x, y⟩, v⟩ := c
    cases v
    · simp only [List.map_cons, sdcGo]
      rw [hrev _ _ hl, hrun _ _ (by simp [hl])]
      have := ih [] [] rfl
      simp only [List.zipWith_nil_left] at this
      rw [this]
      rw [List.zipWith_append (by simp [diffRun_length, hl])]
      simp
    · simp only [List.map_cons, sdcGo]
      have := ih (x :: accF) (y :: accG) (by simp [hl])
      simpa using this

/-! ## Periodic direction: centred differences with wrap-around -/


/-- Periodic direction, every cell valid (or validity restriction off): the first
derivative is the centred difference with wrap-around, for every ring length `L ≥ 1`. -/
theorem ring_centred_d1 (h : Rat) (xs : List Rat) (j : Nat) (hj : j < xs.length) :
    (diffRing 1 h (xs.map (·, true))).getD j 0
      = (ringVal xs (j + 1) - ringVal xs (j + xs.length - 1)) / (2 * h) := by
  have hne : xs ≠ [] := by intro h; simp [h] at hj
  rw [diffRing_all_valid_getD 1 h xs hne j hj]
  unfold dAt d1At
  have h1 : ¬ (xs.length + 2 < 2) := by omega
  have h2 : ¬ (xs.length + 2 = 2) := by omega
  have h3 : ¬ (j + 1 = 0) := by omega
  have h4 : ¬ (j + 1 = xs.length + 2 - 1) := by omega
  simp only [h1, h2, h3, h4, if_false, if_true]
  rw [show j + 1 + 1 = j + 2 from rfl, show j + 1 - 1 = j from rfl, ringVal_succ xs j hj, ringVal_pred xs j hj]

/-- … and the second derivative is the centred second difference with wrap-around. -/
theorem ring_centred_d2 (h : Rat) (xs : List Rat) (j : Nat) (hj : j < xs.length) :
    (diffRing 2 h (xs.map (·, true))).getD j 0
      = (ringVal xs (j + 1) - 2 * ringVal xs j + ringVal xs (j + xs.length - 1)) / (h * h) := by
  have hne : xs ≠ [] := by intro h; simp [h] at hj
  rw [diffRing_all_valid_getD 2 h xs hne j hj]
  unfold dAt d2At
  have h0 : ¬ ((2 : Nat) = 1) := by omega
  have h1 : ¬ (xs.length + 2 < 3) := by omega
  simp only [h0, h1, if_false]
  by_cases h2 : xs.length + 2 = 3
  · -- ring of one cell
    have hL : xs.length = 1 := by omega
    have hj0 : j = 0 := by omega
    subst hj0
    simp only [h2, if_true]
    have a := ringVal_pred xs 0 (by omega)
    have b := ringVal_self xs 0 (by omega)
    have c := ringVal_succ xs 0 (by omega)
    simp only [Nat.zero_add] at a b c
    rw [a, b, c]
    unfold ringVal
    simp [hL]
  · have h3 : ¬ (j + 1 = 0) := by omega
    have h4 : ¬ (j + 1 = xs.length + 2 - 1) := by omega
    simp only [h2, h3, h4, if_false]
    rw [show j + 1 + 1 = j + 2 from rfl, show j + 1 - 1 = j from rfl, ringVal_succ xs j hj,
      ringVal_pred xs j hj, ringVal_self xs j hj]

/-- Hence on a fully valid ring the derivative commutes with cyclic shifts. -/
theorem ring_shift (order : Nat) (ho : order = 1 ∨ order = 2) (h : Rat) (xs : List Rat) (s : Nat)
    (j : Nat) (hj : j < xs.length) :
    (diffRing order h ((roll xs s).map (·, true))).getD j 0
      = ringVal (tab xs.length fun k => (diffRing order h (xs.map (·, true))).getD k 0) (j + s) := by
  have hne : xs ≠ [] := by intro h; simp [h] at hj
  have hL : 0 < xs.length := List.length_pos_iff.mpr hne
  have hrl : (roll xs s).length = xs.length := by simp [roll]
  have hrne : roll xs s ≠ [] := by intro h; rw [h] at hrl; simp at hrl; omega
  have hm : (j + s) % xs.length < xs.length := Nat.mod_lt _ hL
  conv_rhs => unfold ringVal; rw [tab_length, getD_tab _ _ _ _ hm]
  have k1 : ringVal xs (j + 1 + s) = ringVal xs ((j + s) % xs.length + 1) :=
    ringVal_congr _ _ _ (by rw [Nat.mod_add_mod]; congr 1; omega)
  have k2 : ringVal xs (j + xs.length - 1 + s) = ringVal xs ((j + s) % xs.length + xs.length - 1) := by
    apply ringVal_congr
    have e2 : (j + s) % xs.length + xs.length - 1 = (j + s) % xs.length + (xs.length - 1) := by omega
    rw [e2, Nat.mod_add_mod]; congr 1; omega
  have k3 : ringVal xs (j + s) = ringVal xs ((j + s) % xs.length) :=
    ringVal_congr _ _ _ (by rw [Nat.mod_mod])
  rcases ho with rfl | rfl
  · rw [ring_centred_d1 _ _ _ (by rw [hrl]; exact hj), ring_centred_d1 _ _ _ hm]
    rw [hrl, ringVal_roll _ _ _ hne, ringVal_roll _ _ _ hne, k1, k2]
  · rw [ring_centred_d2 _ _ _ (by rw [hrl]; exact hj), ring_centred_d2 _ _ _ hm]
    rw [hrl, ringVal_roll _ _ _ hne, ringVal_roll _ _ _ hne, ringVal_roll _ _ _ hne, k1, k2, k3]

/-! ## masked rings: where the seam is not crossed the ring is an open line -/

/-- Periodic direction, masked ring whose FIRST cell is invalid: no run crosses the seam and the
result is exactly that of the open line. -/
theorem ring_open_if_first_invalid (order : Nat) (h : Rat) (y : Rat) (rest : List (Rat × Bool)) :
    diffRing order h ((y, false) :: rest) = diffLine order h ((y, false) :: rest) := by
  unfold diffRing
  have hd : diffRun order h [] = [] := diffRun_nil order h
  have hlen : (diffLine order h ((y, false) :: rest)).length = rest.length + 1 := by
    rw [diffLine_length]; simp
  -- the padded line: last :: (y,false) :: rest ++ [(y,false)]
  have hw : wrap1 ((y, false) :: rest) = ((y, false) :: rest).getLast (by simp) :: ((y, false) :: rest) ++ [(y, false)] :=
    wrap1_eq rest (y, false)
  rw [hw]
  obtain ⟨lx, lv⟩ := ((y, false) :: rest).getLast (by simp)
  have hopen : diffLine order h ((y, false) :: rest) = 0 :: sdcGo (diffRun order h) rest [] := by
    unfold diffLine sdc; simp [sdcGo, hd]
  rw [hopen]
  unfold diffLine sdc
  simp only [List.cons_append, List.length_cons]
  cases lv
  · -- padding cell invalid
    simp only [sdcGo, List.reverse_nil, hd, List.nil_append, List.drop_succ_cons, List.drop_zero]
    rw [sdcGo_append_invalid _ hd]
    have : (sdcGo (diffRun order h) rest []).length = rest.length := by
      rw [sdcGo_length _ (diffRun_length order h)]; simp
    rw [show rest.length + 1 = (0 :: sdcGo (diffRun order h) rest []).length by simp [this]]
    rw [← List.cons_append, List.take_left']
    rfl
  · rw [sdcGo_cons_valid_then_invalid _ (by intro x; simp [diffRun_length])]
    rw [sdcGo_append_invalid _ hd]
    have : (sdcGo (diffRun order h) rest []).length = rest.length := by
      rw [sdcGo_length _ (diffRun_length order h)]; simp
    rw [show rest.length + 1 = (0 :: sdcGo (diffRun order h) rest []).length by simp [this]]
    rw [← List.cons_append, List.take_left']
    rfl


/-- … and likewise when the LAST cell is invalid. -/
theorem ring_open_if_last_invalid (order : Nat) (h : Rat) (y : Rat) (rest : List (Rat × Bool)) :
    diffRing order h (rest ++ [(y, false)]) = diffLine order h (rest ++ [(y, false)]) := by
  unfold diffRing
  have hd : diffRun order h [] = [] := diffRun_nil order h
  have hne : rest ++ [(y, false)] ≠ [] := by simp
  obtain ⟨c0, cs, hcs⟩ : ∃ c0 cs, rest ++ [(y, false)] = c0 :: cs := by
    cases hr : rest ++ [(y, false)] with
    | nil => exact absurd hr hne
    | cons c0 cs => exact ⟨c0, cs, rfl⟩
  have hh : (rest ++ [(y, false)]).head? = some c0 := by rw [hcs]; rfl
  have hl0 : (rest ++ [(y, false)]).getLast? = some (y, false) := by simp
  have hw : wrap1 (rest ++ [(y, false)]) = (y, false) :: (rest ++ [(y, false)]) ++ [c0] := by
    unfold wrap1
    rw [hh, hl0]
  rw [hw]
  have hopen : diffLine order h (rest ++ [(y, false)]) = sdcGo (diffRun order h) rest [] ++ [0] := by
    unfold diffLine sdc; rw [sdcGo_append_invalid _ hd]
  rw [hopen]
  unfold diffLine sdc
  simp only [List.cons_append, sdcGo, List.reverse_nil, hd, List.nil_append, List.drop_succ_cons, List.drop_zero,
    List.append_assoc, List.singleton_append]
  rw [sdcGo_split_invalid]
  have hl : (sdcGo (diffRun order h) rest []).length = rest.length := by
    rw [sdcGo_length _ (diffRun_length order h)]; simp
  have : (rest ++ [(y, false)]).length = (sdcGo (diffRun order h) rest [] ++ [0]).length := by simp [hl]
  rw [this]
  have e : sdcGo (diffRun order h) rest [] ++ 0 :: sdcGo (diffRun order h) [c0] []
      = (sdcGo (diffRun order h) rest [] ++ [0]) ++ sdcGo (diffRun order h) [c0] [] := by simp
  rw [e, List.take_left']
  rfl


/-! ## field level: per component, per grid line, metadata -/


/-- `Field.diff` keeps mesh, component count, labels, mapping, unit and validity, and the
array shape -/
theorem diff_keeps_meta (f g : Fld) (ax order : Nat) (restrict : Bool) (h : diff f ax order restrict = .ok g) :
    g.mesh = f.mesh ∧ g.nvdim = f.nvdim ∧ g.vdims = f.vdims ∧ g.vmap = f.vmap ∧ g.unit = f.unit ∧
    g.valid.shape = f.valid.shape ∧ g.valid.get = f.valid.get ∧ g.data.shape = f.data.shape := by
  unfold diff at h
  split at h
  · cases h
  · split at h
    · cases h
    · injection h with h; subst h
      exact ⟨rfl, rfl, rfl, rfl, rfl, rfl, rfl, rfl⟩

/-- orders other than 1 and 2 are refused -/
theorem diff_rejects_order (f : Fld) (ax order : Nat) (restrict : Bool) (ho : order ≠ 1 ∧ order ≠ 2) :
    diff f ax order restrict = .error .notImpl := by
  unfold diff; rw [if_pos ho]

/-- Per component and per grid line: the value of `diff` at cell `i`, component `c`, is entry
`i[ax]` of the 1-d derivative of the line through `i` — it depends on nothing else. -/
theorem diff_cell (f g : Fld) (ax order : Nat) (restrict : Bool) (h : diff f ax order restrict = .ok g)
    (i : List Nat) (c : Nat) (hc : c < f.nvdim) :
    (g.data.get i).getD c 0
      = (diffLine' (periodicBc f.mesh.bc (f.mesh.region.dims.getD ax ""))
          restrict order (f.mesh.cellAt ax) (lineCells f ax i c)).getD (i.getD ax 0) 0 := by
  unfold diff at h
  split at h
  · cases h
  · split at h
    · cases h
    · injection h with h; subst h
      simp only [lineCells]
      rw [getD_tab _ _ _ _ hc]

/-- Hence two fields on the same mesh that agree (values of component `c` and validity) on the
grid line through `i` have the same derivative at `(i, c)`, whatever they hold elsewhere and in
other components. -/
theorem diff_linewise (f1 f2 g1 g2 : Fld) (ax order : Nat) (restrict : Bool)
    (h1 : diff f1 ax order restrict = .ok g1) (h2 : diff f2 ax order restrict = .ok g2)
    (hmesh : f1.mesh = f2.mesh) (i : List Nat) (c : Nat) (hc1 : c < f1.nvdim) (hc2 : c < f2.nvdim)
    (hline : lineCells f1 ax i c = lineCells f2 ax i c) :
    (g1.data.get i).getD c 0 = (g2.data.get i).getD c 0 := by
  rw [diff_cell f1 g1 ax order restrict h1 i c hc1, diff_cell f2 g2 ax order restrict h2 i c hc2, hmesh, hline]

/-- with the validity restriction switched off the whole line is treated as one run:
same result as for an all-true mask -/
theorem restrict_off (periodic : Bool) (order : Nat) (h : Rat) (cells : List (Rat × Bool)) :
    diffLine' periodic false order h cells = diffLine' periodic true order h (cells.map fun c => (c.1, true)) := by
  unfold diffLine'
  simp

/-- … and on an open line that is the plain stencil over the whole line -/
theorem restrict_off_open (order : Nat) (h : Rat) (cells : List (Rat × Bool)) :
    diffLine' false false order h cells = diffRun order h (cells.map (·.1)) := by
  unfold diffLine'
  simp only [Bool.false_eq_true, if_false]
  have : (cells.map fun c => (c.1, true)) = (cells.map (·.1)).map (·, true) := by simp
  rw [this, all_valid_one_run]


/-! ## Refinement: the accumulator walk computes the index-level spec -/

/-- **Refinement theorem.**  At every position of every open line — every length, every one of
the `2^L` masks, both orders, any step — the code-shaped pass (`_split_diff_combine`: walk the
line, collect the current run, flush it through `_1d_diff` at an invalid cell or at the end)
returns `diffSpec`: 0 at an invalid cell, otherwise the stencil of the cell's own maximal run of
valid cells (`runBefore` cells before it, `runFrom` cells from it on) at its position in that run. -/
theorem diffLine_refines_spec (o : Nat) (h : Rat) (cells : List (Rat × Bool)) (i : Nat) (hi : i < cells.length) :
    (diffLine o h cells).getD i 0 = diffSpec o h cells.length (valOf cells) (okOf cells) i :=
  diffLine_getD_spec o h cells i hi

/-- … and in a periodic direction the same spec applied to the line padded by one wrapped cell on
each side, read at position `j + 1` (that is all the periodic code path does) -/
theorem diffRing_refines_spec (o : Nat) (h : Rat) (cells : List (Rat × Bool)) (j : Nat) (hj : j < cells.length) :
    (diffRing o h cells).getD j 0
      = diffSpec o h (cells.length + 2) (valOf (wrap1 cells)) (okOf (wrap1 cells)) (j + 1) := by
  have hne : cells ≠ [] := by intro e; subst e; simp at hj
  rw [diffRing_getD o h cells j hj, diffLine_getD_spec o h (wrap1 cells) (j + 1) (by rw [wrap1_length _ hne]; omega),
    wrap1_length _ hne]

/-- an invalid cell yields zero (open line; every order) -/
theorem invalid_cell_zero (o : Nat) (h : Rat) (cells : List (Rat × Bool)) (i : Nat) (hi : i < cells.length)
    (hv : okOf cells i = false) : (diffLine o h cells).getD i 0 = 0 := by
  rw [diffLine_getD_spec o h cells i hi]
  unfold diffSpec
  rw [hv]; rfl

/-- an invalid cell yields zero in a periodic direction too -/
theorem invalid_cell_zero_ring (o : Nat) (h : Rat) (cells : List (Rat × Bool)) (j : Nat) (hj : j < cells.length)
    (hv : okOf cells j = false) : (diffRing o h cells).getD j 0 = 0 := by
  rw [diffRing_refines_spec o h cells j hj]
  unfold diffSpec
  rw [okOf_wrap1_succ cells j hj, hv]; rfl

/-- a cell whose maximal run is not longer than the derivative order yields zero -/
theorem short_run_zero_at (o : Nat) (ho : o = 1 ∨ o = 2) (h : Rat) (cells : List (Rat × Bool)) (i : Nat)
    (hi : i < cells.length)
    (hs : runBefore (okOf cells) i + runFrom (okOf cells) cells.length i ≤ o) :
    (diffLine o h cells).getD i 0 = 0 := by
  rw [diffLine_getD_spec o h cells i hi]
  unfold diffSpec
  split
  · unfold dAt d1At d2At
    rcases ho with rfl | rfl
    · have : runBefore (okOf cells) i + runFrom (okOf cells) cells.length i < 2 := by omega
      simp [this]
    · have : runBefore (okOf cells) i + runFrom (okOf cells) cells.length i < 3 := by omega
      simp [this]
  · rfl

/-- **Locality, index form.**  Two lines of the same length and the same validity pattern whose
values agree on the maximal run of cell `i` have the same derivative at `i` — whatever they hold
outside that run. -/
theorem line_locality (o : Nat) (h : Rat) (c1 c2 : List (Rat × Bool)) (i : Nat) (hl : c1.length = c2.length)
    (hi : i < c1.length) (hv : ∀ j, j < c1.length → okOf c1 j = okOf c2 j)
    (hx : ∀ j, i - runBefore (okOf c1) i ≤ j → j < i + runFrom (okOf c1) c1.length i → valOf c1 j = valOf c2 j) :
    (diffLine o h c1).getD i 0 = (diffLine o h c2).getD i 0 := by
  rw [diffLine_getD_spec o h c1 i hi, diffLine_getD_spec o h c2 i (by omega), ← hl]
  unfold diffSpec
  have e1 : runBefore (okOf c1) i = runBefore (okOf c2) i := runBefore_congr _ _ i (fun j hj => hv j (by omega))
  have e2 : runFrom (okOf c1) c1.length i = runFrom (okOf c2) c1.length i :=
    runFromAux_congr _ _ _ i (fun j h1 h2 => hv j (by omega))
  rw [← hv i hi, ← e1, ← e2]
  split
  · rename_i hvi
    have hb := runBefore_le (okOf c1) i
    have hpos : 0 < runFrom (okOf c1) c1.length i := by
      unfold runFrom
      have : c1.length - i = (c1.length - i - 1) + 1 := by omega
      rw [this]; simp only [runFromAux, hvi, if_true]; omega
    apply dAt_congr _ _ _ _ _ _ _ (by omega)
    intro k hk
    exact hx _ (by omega) (by omega)
  · rfl

/-! ## Reversal -/

/-- **Reversal of an open line**, every mask: the derivative of the reversed line is the reversed
derivative, negated for order 1 (this is what a quarter turn does to a grid line, C05/C12). -/
theorem line_reverse (o : Nat) (h : Rat) (cells : List (Rat × Bool)) :
    diffLine o h cells.reverse = ((diffLine o h cells).map (revSign o * ·)).reverse :=
  diffLine_reverse o h cells

/-- **Reversal of a periodic line**, every mask — also for runs that cross the seam. -/
theorem ring_reverse (o : Nat) (h : Rat) (cells : List (Rat × Bool)) :
    diffRing o h cells.reverse = ((diffRing o h cells).map (revSign o * ·)).reverse :=
  diffRing_reverse o h cells

/-- the whole pass is homogeneous: scaling the values scales the derivative (every mask, open or
periodic, restricted or not) -/
theorem line_smul (p r : Bool) (o : Nat) (h s : Rat) (cells : List (Rat × Bool)) :
    diffLine' p r o h (cells.map fun c => (s * c.1, c.2)) = (diffLine' p r o h cells).map (s * ·) :=
  diffLine'_smul p r o h s cells

/-! ## Masked rings: what the code computes, run by run (known finding D17) -/

/-- **A run strictly inside the ring** (delimited by invalid cells on both sides within the stored
line) is differentiated on its own, exactly as on an open line: it gets the ring-run value. -/
theorem ring_inner_run (o : Nat) (h : Rat) (a : List (Rat × Bool)) (y : Rat) (r : List Rat) (z : Rat)
    (b : List (Rat × Bool)) (k : Nat) (hk : k < r.length) :
    (diffRing o h (a ++ (y, false) :: (r.map (·, true) ++ (z, false) :: b))).getD (a.length + 1 + k) 0
      = (diffRun o h r).getD k 0 := by
  have hne : a ++ (y, false) :: (r.map (·, true) ++ (z, false) :: b) ≠ [] := by simp
  obtain ⟨f, hf⟩ : ∃ f, (a ++ (y, false) :: (r.map (·, true) ++ (z, false) :: b)).head? = some f := by
    cases a <;> exact ⟨_, rfl⟩
  obtain ⟨l, hl⟩ : ∃ l, (a ++ (y, false) :: (r.map (·, true) ++ (z, false) :: b)).getLast? = some l :=
    ⟨_, List.getLast?_eq_some_getLast hne⟩
  rw [diffRing_getD _ _ _ _ (by simp; omega), wrap1_of _ f l hf hl]
  have e : l :: (a ++ (y, false) :: (r.map (·, true) ++ (z, false) :: b)) ++ [f]
      = (l :: a) ++ (y, false) :: (r.map (·, true) ++ (z, false) :: (b ++ [f])) := by simp
  rw [e, sdc_segment]
  have l1 : (diffLine o h ((l :: a) ++ [(y, false)])).length = a.length + 2 := by
    rw [diffLine_length]; simp
  rw [List.append_assoc, List.getD_eq_getElem?_getD, List.getElem?_append_right (by omega), l1,
    show a.length + 1 + k + 1 - (a.length + 2) = k by omega,
    List.getElem?_append_left (by rw [diffRun_length]; exact hk), ← List.getD_eq_getElem?_getD]

/-- **The run at the start of the stored line, when the last cell is valid too** (the ring run
crosses the seam): the code differentiates `last cell ++ head run` as if it were a whole run — the
head run sees exactly ONE cell from the other side of the seam, not the rest of its ring run.
This is known finding D17. -/
theorem ring_head_run_seam (o : Nat) (h : Rat) (x0 : Rat) (p : List Rat) (y : Rat) (rest : List (Rat × Bool)) (xl : Rat)
    (hl : (((x0 :: p).map (·, true)) ++ (y, false) :: rest).getLast? = some (xl, true)) (k : Nat) (hk : k < p.length + 1) :
    (diffRing o h (((x0 :: p).map (·, true)) ++ (y, false) :: rest)).getD k 0
      = (diffRun o h (xl :: x0 :: p)).getD (k + 1) 0 := by
  rw [diffRing_getD _ _ _ _ (by simp; omega), wrap1_of _ (x0, true) (xl, true) rfl hl]
  have e : (xl, true) :: (((x0 :: p).map (·, true)) ++ (y, false) :: rest) ++ [(x0, true)]
      = (xl :: x0 :: p).map (·, true) ++ (y, false) :: (rest ++ [(x0, true)]) := by simp
  rw [e, sdc_segment_head, List.getD_eq_getElem?_getD,
    List.getElem?_append_left (by rw [diffRun_length]; simp; omega), ← List.getD_eq_getElem?_getD]

/-- **The run at the end of the stored line, when the first cell is valid too**: likewise it is
differentiated together with exactly one cell (the first) from beyond the seam. -/
theorem ring_tail_run_seam (o : Nat) (h : Rat) (a : List (Rat × Bool)) (y : Rat) (q : List Rat) (x0 : Rat)
    (hf : (a ++ (y, false) :: q.map (·, true)).head? = some (x0, true)) (k : Nat) (hk : k < q.length) :
    (diffRing o h (a ++ (y, false) :: q.map (·, true))).getD (a.length + 1 + k) 0
      = (diffRun o h (q ++ [x0])).getD k 0 := by
  have hne : a ++ (y, false) :: q.map (·, true) ≠ [] := by simp
  obtain ⟨l, hl⟩ : ∃ l, (a ++ (y, false) :: q.map (·, true)).getLast? = some l :=
    ⟨_, List.getLast?_eq_some_getLast hne⟩
  rw [diffRing_getD _ _ _ _ (by simp; omega), wrap1_of _ (x0, true) l hf hl]
  have e : l :: (a ++ (y, false) :: q.map (·, true)) ++ [(x0, true)]
      = (l :: a) ++ (y, false) :: (q ++ [x0]).map (·, true) := by simp
  rw [e, sdc_segment_tail]
  have l1 : (diffLine o h ((l :: a) ++ [(y, false)])).length = a.length + 2 := by
    rw [diffLine_length]; simp
  rw [List.getD_eq_getElem?_getD, List.getElem?_append_right (by omega), l1,
    show a.length + 1 + k + 1 - (a.length + 2) = k by omega, ← List.getD_eq_getElem?_getD]

/-- **Shift-equivariance for masked rings whenever no run crosses the seam**: storing the ring
rotated so that another invalid cell comes first rotates the derivative by the same amount. -/
theorem ring_shift_off_seam (o : Nat) (h : Rat) (y z : Rat) (A B : List (Rat × Bool)) :
    diffRing o h ((z, false) :: B ++ (y, false) :: A)
      = (diffRing o h ((y, false) :: A ++ (z, false) :: B)).drop (A.length + 1)
        ++ (diffRing o h ((y, false) :: A ++ (z, false) :: B)).take (A.length + 1) := by
  have e1 : (y, false) :: A ++ (z, false) :: B = (y, false) :: (A ++ (z, false) :: B) := by simp
  have e2 : (z, false) :: B ++ (y, false) :: A = (z, false) :: (B ++ (y, false) :: A) := by simp
  rw [e1, e2, ring_open_if_first_invalid, ring_open_if_first_invalid]
  unfold diffLine sdc
  simp only [sdcGo, List.reverse_nil, diffRun_nil, List.nil_append]
  rw [sdcGo_split_invalid, sdcGo_split_invalid]
  have lA : (sdcGo (diffRun o h) A []).length = A.length := by
    rw [sdcGo_length _ (diffRun_length o h)]; simp
  have : (0 :: (sdcGo (diffRun o h) A [] ++ 0 :: sdcGo (diffRun o h) B []))
      = (0 :: sdcGo (diffRun o h) A []) ++ (0 :: sdcGo (diffRun o h) B []) := by simp
  rw [this, List.drop_left' (by simp [lA]), List.take_left' (by simp [lA])]
  simp

/-- … and the one-cell rotation that moves an invalid last cell to the front -/
theorem ring_shift_off_seam_one (o : Nat) (h : Rat) (y : Rat) (A : List (Rat × Bool)) :
    diffRing o h ((y, false) :: A) = 0 :: (diffRing o h (A ++ [(y, false)])).take A.length := by
  rw [ring_open_if_first_invalid, ring_open_if_last_invalid]
  unfold diffLine sdc
  simp only [sdcGo, List.reverse_nil, diffRun_nil, List.nil_append]
  rw [sdcGo_append_invalid _ (diffRun_nil o h)]
  have lA : (sdcGo (diffRun o h) A []).length = A.length := by
    rw [sdcGo_length _ (diffRun_length o h)]; simp
  rw [List.take_left' lA]

/-- **Known finding D17 on the model: `ring_shift` is FALSE for masked rings.**  Ring of 5 cells,
mask `[1,1,1,0,1]`, values `[7,1,4,9,2]`, `h = 1/2`, first derivative.  The ring run of cell 4 is
`2,7,1,4` (cells 4,0,1,2) and its one-sided stencil gives 21 at cell 4 — which is also what the
code returns when the SAME ring is stored rolled by 4 (`[2,7,1,4,9]`, mask `[1,1,1,1,0]`, cell 4
at position 0).  Stored as given, the run crosses the seam, cell 4 sees only `2,7` and gets 10. -/
theorem ring_shift_masked_counterexample :
    (diffRing 1 (1/2) [(7, true), (1, true), (4, true), (9, false), (2, true)]).getD 4 0 = 10 ∧
    (diffRun 1 (1/2) [2, 7, 1, 4]).getD 0 0 = 21 ∧
    (diffRing 1 (1/2) [(2, true), (7, true), (1, true), (4, true), (9, false)]).getD 0 0 = 21 := by
  refine ⟨?_, ?_, ?_⟩
  · simp [diffRing, wrap1, diffLine, sdc, sdcGo, diffRun, tab, dAt, d1At, List.range, List.range.loop]
    norm_num
  · simp [diffRun, tab, dAt, d1At, List.range, List.range.loop]
    norm_num
  · simp [diffRing, wrap1, diffLine, sdc, sdcGo, diffRun, tab, dAt, d1At, List.range, List.range.loop]
    norm_num

/-- hence shift-equivariance cannot be extended from fully valid rings (`ring_shift`) to all masks -/
theorem ring_shift_not_for_all_masks :
    ¬ ∀ (cells : List (Rat × Bool)) (s j : Nat), j < cells.length →
      (diffRing 1 (1/2) (tab cells.length fun k => cells.getD ((k + s) % cells.length) (0, false))).getD j 0
        = (diffRing 1 (1/2) cells).getD ((j + s) % cells.length) 0 := by
  intro hall
  have h1 := hall [(7, true), (1, true), (4, true), (9, false), (2, true)] 4 0 (by decide)
  have h2 := ring_shift_masked_counterexample
  have e : (tab [((7 : Rat), true), (1, true), (4, true), (9, false), (2, true)].length fun k =>
      [((7 : Rat), true), (1, true), (4, true), (9, false), (2, true)].getD
        ((k + 4) % [((7 : Rat), true), (1, true), (4, true), (9, false), (2, true)].length) (0, false))
      = [(2, true), (7, true), (1, true), (4, true), (9, false)] := by
    simp [tab, List.range, List.range.loop]
  rw [e] at h1
  simp only [List.length_cons, List.length_nil, Nat.zero_add] at h1
  rw [h2.2.2, show (0 + 4) % (0 + 1 + 1 + 1 + 1 + 1) = 4 by rfl, h2.1] at h1
  norm_num at h1

/-! ## n-d field level: every axis, every component, every cell -/

/-- **Field-level refinement.**  For every axis `ax` of an n-d mesh that is not periodic, every
component `c` and every cell `i`, `Field.diff(ax, order)` stores the index-level spec of the grid
line through `i` along `ax`: 0 if the cell is invalid, otherwise the stencil of the cell's own
maximal run of valid cells along that line — it reads nothing else of the field. -/
theorem diff_refines_spec (f g : Fld) (ax order : Nat) (h : diff f ax order true = .ok g)
    (hopen : periodicAx f ax = false) (i : List Nat) (c : Nat) (hc : c < f.nvdim) (hi : i.getD ax 0 < f.mesh.nAt ax) :
    (g.data.get i).getD c 0
      = diffSpec order (f.mesh.cellAt ax) (f.mesh.nAt ax) (fun j => (f.data.line ax i j).getD c 0)
          (fun j => f.valid.line ax i j) (i.getD ax 0) := by
  rw [diff_cell f g ax order true h i c hc]
  unfold periodicAx at hopen
  rw [hopen]
  unfold diffLine'
  simp only [Bool.false_eq_true, if_false, if_true]
  rw [diffLine_getD_spec _ _ _ _ (by rw [lineCells_length]; exact hi), lineCells_length]
  exact diffSpec_congr _ _ _ _ _ _ _ _ hi (fun j hj => valOf_lineCells f ax i c j hj) (fun j hj => okOf_lineCells f ax i c j hj)

/-- **Invalid cells yield zero** — every axis (open or periodic), both orders, every component. -/
theorem diff_invalid_zero (f g : Fld) (ax order : Nat) (h : diff f ax order true = .ok g)
    (i : List Nat) (c : Nat) (hc : c < f.nvdim) (hi : i.getD ax 0 < f.mesh.nAt ax) (hv : f.valid.get i = false) :
    (g.data.get i).getD c 0 = 0 := by
  rw [diff_cell f g ax order true h i c hc]
  have hok : okOf (lineCells f ax i c) (i.getD ax 0) = false := by
    rw [okOf_lineCells f ax i c _ hi]
    unfold NDA.line
    rw [setAt_getD_self]; exact hv
  unfold diffLine'
  simp only [if_true]
  split
  · exact invalid_cell_zero_ring _ _ _ _ (by rw [lineCells_length]; exact hi) hok
  · exact invalid_cell_zero _ _ _ _ (by rw [lineCells_length]; exact hi) hok

/-- **Runs not longer than the order yield zero** at field level (open axis): a cell whose
maximal run of valid cells along `ax` has at most `order` cells gets 0. -/
theorem diff_short_run_zero (f g : Fld) (ax order : Nat) (h : diff f ax order true = .ok g)
    (hopen : periodicAx f ax = false) (i : List Nat) (c : Nat) (hc : c < f.nvdim) (hi : i.getD ax 0 < f.mesh.nAt ax)
    (hs : runBefore (fun j => f.valid.line ax i j) (i.getD ax 0)
        + runFrom (fun j => f.valid.line ax i j) (f.mesh.nAt ax) (i.getD ax 0) ≤ order) :
    (g.data.get i).getD c 0 = 0 := by
  have ho : order = 1 ∨ order = 2 := by
    unfold diff at h
    split at h
    · cases h
    · omega
  rw [diff_refines_spec f g ax order h hopen i c hc hi]
  unfold diffSpec
  split
  · exact dAt_short order ho _ _ hs _ _
  · rfl

/-- **n-d locality.**  Take two fields on the same mesh, an open axis `ax`, a cell `i` and a
component `c`.  If the two fields have the same validity along the grid line through `i` and the
same values of component `c` on the cells of `i`'s own maximal run of valid cells along that
line, their derivatives at `(i, c)` coincide — whatever the fields hold anywhere else: outside the
run on the same line, on every other grid line, in every other component. -/
theorem diff_locality_nd (f1 f2 g1 g2 : Fld) (ax order : Nat)
    (h1 : diff f1 ax order true = .ok g1) (h2 : diff f2 ax order true = .ok g2)
    (hmesh : f1.mesh = f2.mesh) (hopen : periodicAx f1 ax = false)
    (i : List Nat) (c : Nat) (hc1 : c < f1.nvdim) (hc2 : c < f2.nvdim) (hi : i.getD ax 0 < f1.mesh.nAt ax)
    (hv : ∀ j, j < f1.mesh.nAt ax → f1.valid.line ax i j = f2.valid.line ax i j)
    (hx : ∀ j, i.getD ax 0 - runBefore (fun j => f1.valid.line ax i j) (i.getD ax 0) ≤ j →
        j < i.getD ax 0 + runFrom (fun j => f1.valid.line ax i j) (f1.mesh.nAt ax) (i.getD ax 0) →
        (f1.data.line ax i j).getD c 0 = (f2.data.line ax i j).getD c 0) :
    (g1.data.get i).getD c 0 = (g2.data.get i).getD c 0 := by
  have hopen2 : periodicAx f2 ax = false := by unfold periodicAx at hopen ⊢; rw [← hmesh]; exact hopen
  rw [diff_refines_spec f1 g1 ax order h1 hopen i c hc1 hi,
    diff_refines_spec f2 g2 ax order h2 hopen2 i c hc2 (by rw [← hmesh]; exact hi), ← hmesh]
  unfold diffSpec
  have e1 : runBefore (fun j => f1.valid.line ax i j) (i.getD ax 0) = runBefore (fun j => f2.valid.line ax i j) (i.getD ax 0) :=
    runBefore_congr _ _ _ (fun j hj => hv j (by omega))
  have e2 : runFrom (fun j => f1.valid.line ax i j) (f1.mesh.nAt ax) (i.getD ax 0)
      = runFrom (fun j => f2.valid.line ax i j) (f1.mesh.nAt ax) (i.getD ax 0) :=
    runFromAux_congr _ _ _ _ (fun j h1 h2 => hv j (by omega))
  rw [← e1, ← e2]
  beta_reduce
  rw [← hv _ hi]
  split
  · rename_i hvi
    have hb := runBefore_le (fun j => f1.valid.line ax i j) (i.getD ax 0)
    have hpos : 0 < runFrom (fun j => f1.valid.line ax i j) (f1.mesh.nAt ax) (i.getD ax 0) := by
      unfold runFrom
      have : f1.mesh.nAt ax - i.getD ax 0 = (f1.mesh.nAt ax - i.getD ax 0 - 1) + 1 := by omega
      rw [this]; simp only [runFromAux, hvi, if_true]; omega
    apply dAt_congr _ _ _ _ _ _ _ (by omega)
    intro k hk
    exact hx _ (by omega) (by omega)
  · rfl

/-- **Linearity of a whole line as `Field.diff` differentiates it** (open or periodic, restricted
or not, every mask): the derivative of `α·x + β·y` is `α·(derivative of x) + β·(derivative of y)`
entry by entry, for two lines with the same validity pattern. -/
theorem line_linear (p r : Bool) (o : Nat) (h α β : Rat) (cells : List ((Rat × Rat) × Bool)) (k : Nat) :
    (diffLine' p r o h (cells.map fun c => (α * c.1.1 + β * c.1.2, c.2))).getD k 0
      = α * (diffLine' p r o h (cells.map fun c => (c.1.1, c.2))).getD k 0
        + β * (diffLine' p r o h (cells.map fun c => (c.1.2, c.2))).getD k 0 := by
  have hline : ∀ cs : List ((Rat × Rat) × Bool),
      diffLine o h (cs.map fun c => (α * c.1.1 + β * c.1.2, c.2))
        = List.zipWith (fun x y => α * x + β * y) (diffLine o h (cs.map fun c => (c.1.1, c.2)))
            (diffLine o h (cs.map fun c => (c.1.2, c.2))) := by
    intro cs
    have := sdc_linear o h α β cs [] [] rfl
    simpa [diffLine, sdc] using this
  have hring : ∀ cs : List ((Rat × Rat) × Bool),
      diffRing o h (cs.map fun c => (α * c.1.1 + β * c.1.2, c.2))
        = List.zipWith (fun x y => α * x + β * y) (diffRing o h (cs.map fun c => (c.1.1, c.2)))
            (diffRing o h (cs.map fun c => (c.1.2, c.2))) := by
    intro cs
    unfold diffRing
    rw [wrap1_map, wrap1_map, wrap1_map, hline]
    simp only [List.length_map, List.drop_zipWith, List.take_zipWith]
  have hall : diffLine' p r o h (cells.map fun c => (α * c.1.1 + β * c.1.2, c.2))
      = List.zipWith (fun x y => α * x + β * y) (diffLine' p r o h (cells.map fun c => (c.1.1, c.2)))
          (diffLine' p r o h (cells.map fun c => (c.1.2, c.2))) := by
    unfold diffLine'
    have e : ∀ g : (Rat × Rat) → Rat,
        ((cells.map fun c => (g c.1, c.2)).map fun c => (c.1, true))
          = (cells.map fun c => (c.1, true)).map fun c => (g c.1, c.2) := by
      intro g; simp [List.map_map, Function.comp_def]
    cases r
    · simp only [Bool.false_eq_true, if_false]
      rw [e (fun c => α * c.1 + β * c.2), e (fun c => c.1), e (fun c => c.2)]
      cases p
      · simpa using hline (cells.map fun c => (c.1, true))
      · simpa using hring (cells.map fun c => (c.1, true))
    · cases p
      · simpa using hline cells
      · simpa using hring cells
  rw [hall]
  have hl : (diffLine' p r o h (cells.map fun c => (c.1.1, c.2))).length
      = (diffLine' p r o h (cells.map fun c => (c.1.2, c.2))).length := by
    rw [diffLine'_length, diffLine'_length]; simp
  simp only [List.getD_eq_getElem?_getD, List.getElem?_zipWith]
  by_cases hk : k < (diffLine' p r o h (cells.map fun c => (c.1.1, c.2))).length
  · have hk2 : k < (diffLine' p r o h (cells.map fun c => (c.1.2, c.2))).length := by omega
    simp [hk, hk2]
  · have hk2 : ¬ k < (diffLine' p r o h (cells.map fun c => (c.1.2, c.2))).length := by omega
    simp [Nat.le_of_not_lt hk, Nat.le_of_not_lt hk2]

/-- **`Field.diff` is linear in the field values**, at n-d field level: for three fields on the
same mesh with the same validity, if every component of `f3` is `α·f1 + β·f2` cell by cell, then
every component of `diff f3` is `α·diff f1 + β·diff f2` cell by cell — every axis, open or
periodic, both orders, restricted to valid cells or not, every mask. -/
theorem diff_linear (f1 f2 f3 g1 g2 g3 : Fld) (ax order : Nat) (r : Bool) (α β : Rat)
    (h1 : diff f1 ax order r = .ok g1) (h2 : diff f2 ax order r = .ok g2) (h3 : diff f3 ax order r = .ok g3)
    (hm2 : f2.mesh = f1.mesh) (hm3 : f3.mesh = f1.mesh)
    (hv2 : ∀ j, f2.valid.get j = f1.valid.get j) (hv3 : ∀ j, f3.valid.get j = f1.valid.get j)
    (i : List Nat) (c : Nat) (hc1 : c < f1.nvdim) (hc2 : c < f2.nvdim) (hc3 : c < f3.nvdim)
    (hd : ∀ j, (f3.data.get j).getD c 0 = α * (f1.data.get j).getD c 0 + β * (f2.data.get j).getD c 0) :
    (g3.data.get i).getD c 0 = α * (g1.data.get i).getD c 0 + β * (g2.data.get i).getD c 0 := by
  rw [diff_cell f1 g1 ax order r h1 i c hc1, diff_cell f2 g2 ax order r h2 i c hc2, diff_cell f3 g3 ax order r h3 i c hc3,
    hm2, hm3]
  let cells : List ((Rat × Rat) × Bool) := tab (f1.mesh.nAt ax) fun j =>
    (((f1.data.line ax i j).getD c 0, (f2.data.line ax i j).getD c 0), f1.valid.line ax i j)
  have e1 : lineCells f1 ax i c = cells.map fun c => (c.1.1, c.2) := by
    simp only [lineCells, cells, tab, List.map_map, Function.comp_def]
  have e2 : lineCells f2 ax i c = cells.map fun c => (c.1.2, c.2) := by
    simp only [lineCells, cells, tab, List.map_map, Function.comp_def, hm2]
    apply List.map_congr_left
    intro j _
    simp only [NDA.line, hv2]
  have e3 : lineCells f3 ax i c = cells.map fun c => (α * c.1.1 + β * c.1.2, c.2) := by
    simp only [lineCells, cells, tab, List.map_map, Function.comp_def, hm3]
    apply List.map_congr_left
    intro j _
    simp only [NDA.line, hv3, hd]
  rw [e1, e2, e3]
  exact line_linear _ r order _ α β cells _

/-! ## n-d field level: exactness on every run, periodic axes -/

/-- field-level refinement for a PERIODIC axis: the spec applied to the grid line padded by one
wrapped cell on each side, read one position further -/
theorem diff_refines_spec_periodic (f g : Fld) (ax order : Nat) (h : diff f ax order true = .ok g)
    (hper : periodicAx f ax = true) (i : List Nat) (c : Nat) (hc : c < f.nvdim) (hi : i.getD ax 0 < f.mesh.nAt ax) :
    (g.data.get i).getD c 0
      = diffSpec order (f.mesh.cellAt ax) (f.mesh.nAt ax + 2) (valOf (wrap1 (lineCells f ax i c)))
          (okOf (wrap1 (lineCells f ax i c))) (i.getD ax 0 + 1) := by
  rw [diff_cell f g ax order true h i c hc]
  unfold periodicAx at hper
  rw [hper]
  unfold diffLine'
  simp only [if_true]
  rw [diffRing_refines_spec _ _ _ _ (by rw [lineCells_length]; exact hi), lineCells_length]

/-- **Exactness at field level, first derivative, any mask**: at a valid cell whose own maximal run
of valid cells along an open axis has at least three cells, if component `c` samples a polynomial
of degree ≤ 2 of the position along that run (`a0 + b0·x + c0·x²`, `x = x0 + k·h` at the run's
`k`-th cell, `h` the cell size), the stored derivative is the exact one, `b0 + 2·c0·x`, at the
first cell of the run, in its interior and at its last cell — whatever the field holds elsewhere. -/
theorem diff_exact_run_d1 (f g : Fld) (ax : Nat) (h : diff f ax 1 true = .ok g)
    (hopen : periodicAx f ax = false) (i : List Nat) (c : Nat) (hc : c < f.nvdim) (hi : i.getD ax 0 < f.mesh.nAt ax)
    (hv : f.valid.line ax i (i.getD ax 0) = true) (hh : f.mesh.cellAt ax ≠ 0)
    (hlen : 3 ≤ runBefore (fun j => f.valid.line ax i j) (i.getD ax 0)
        + runFrom (fun j => f.valid.line ax i j) (f.mesh.nAt ax) (i.getD ax 0))
    (a0 b0 c0 x0 : Rat)
    (hx : ∀ k, k < runBefore (fun j => f.valid.line ax i j) (i.getD ax 0)
          + runFrom (fun j => f.valid.line ax i j) (f.mesh.nAt ax) (i.getD ax 0) →
        (f.data.line ax i (i.getD ax 0 - runBefore (fun j => f.valid.line ax i j) (i.getD ax 0) + k)).getD c 0
          = a0 + b0 * (x0 + (k : Rat) * f.mesh.cellAt ax) + c0 * (x0 + (k : Rat) * f.mesh.cellAt ax) ^ 2) :
    (g.data.get i).getD c 0
      = b0 + 2 * c0 * (x0 + (runBefore (fun j => f.valid.line ax i j) (i.getD ax 0) : Rat) * f.mesh.cellAt ax) := by
  rw [diff_refines_spec f g ax 1 h hopen i c hc hi]
  unfold diffSpec
  beta_reduce
  rw [hv]
  simp only [if_true]
  have hpos : 0 < runFrom (fun j => f.valid.line ax i j) (f.mesh.nAt ax) (i.getD ax 0) := by
    unfold runFrom
    have : f.mesh.nAt ax - i.getD ax 0 = (f.mesh.nAt ax - i.getD ax 0 - 1) + 1 := by omega
    rw [this]; simp only [runFromAux, hv, if_true]; omega
  rw [dAt_congr 1 _ _ _ _ _ (fun k hk => hx k hk) (by omega)]
  unfold dAt
  simp only [if_true]
  exact d1_exact a0 b0 c0 x0 _ hh _ hlen _ (by omega)

/-- … second derivative on runs of at least four cells: exact for polynomials of degree ≤ 3 -/
theorem diff_exact_run_d2 (f g : Fld) (ax : Nat) (h : diff f ax 2 true = .ok g)
    (hopen : periodicAx f ax = false) (i : List Nat) (c : Nat) (hc : c < f.nvdim) (hi : i.getD ax 0 < f.mesh.nAt ax)
    (hv : f.valid.line ax i (i.getD ax 0) = true) (hh : f.mesh.cellAt ax ≠ 0)
    (hlen : 4 ≤ runBefore (fun j => f.valid.line ax i j) (i.getD ax 0)
        + runFrom (fun j => f.valid.line ax i j) (f.mesh.nAt ax) (i.getD ax 0))
    (a0 b0 c0 d0 x0 : Rat)
    (hx : ∀ k, k < runBefore (fun j => f.valid.line ax i j) (i.getD ax 0)
          + runFrom (fun j => f.valid.line ax i j) (f.mesh.nAt ax) (i.getD ax 0) →
        (f.data.line ax i (i.getD ax 0 - runBefore (fun j => f.valid.line ax i j) (i.getD ax 0) + k)).getD c 0
          = a0 + b0 * (x0 + (k : Rat) * f.mesh.cellAt ax) + c0 * (x0 + (k : Rat) * f.mesh.cellAt ax) ^ 2
            + d0 * (x0 + (k : Rat) * f.mesh.cellAt ax) ^ 3) :
    (g.data.get i).getD c 0
      = 2 * c0 + 6 * d0 * (x0 + (runBefore (fun j => f.valid.line ax i j) (i.getD ax 0) : Rat) * f.mesh.cellAt ax) := by
  rw [diff_refines_spec f g ax 2 h hopen i c hc hi]
  unfold diffSpec
  beta_reduce
  rw [hv]
  simp only [if_true]
  have hpos : 0 < runFrom (fun j => f.valid.line ax i j) (f.mesh.nAt ax) (i.getD ax 0) := by
    unfold runFrom
    have : f.mesh.nAt ax - i.getD ax 0 = (f.mesh.nAt ax - i.getD ax 0 - 1) + 1 := by omega
    rw [this]; simp only [runFromAux, hv, if_true]; omega
  rw [dAt_congr 2 _ _ _ _ _ (fun k hk => hx k hk) (by omega)]
  unfold dAt
  simp only [show ¬ ((2 : Nat) = 1) by omega, if_false]
  exact d2_exact a0 b0 c0 d0 x0 _ hh _ hlen _ (by omega)

/-- **Periodic axis at field level**: when the whole grid line through `i` is valid, the stored
first derivative is the centred difference with wrap-around, for every line length ≥ 1 -/
theorem diff_periodic_centred_d1 (f g : Fld) (ax : Nat) (h : diff f ax 1 true = .ok g)
    (hper : periodicAx f ax = true) (i : List Nat) (c : Nat) (hc : c < f.nvdim) (hi : i.getD ax 0 < f.mesh.nAt ax)
    (hv : ∀ j, j < f.mesh.nAt ax → f.valid.line ax i j = true) :
    (g.data.get i).getD c 0
      = ((f.data.line ax i ((i.getD ax 0 + 1) % f.mesh.nAt ax)).getD c 0
          - (f.data.line ax i ((i.getD ax 0 + f.mesh.nAt ax - 1) % f.mesh.nAt ax)).getD c 0) / (2 * f.mesh.cellAt ax) := by
  rw [diff_cell f g ax 1 true h i c hc]
  unfold periodicAx at hper
  rw [hper]
  unfold diffLine'
  simp only [if_true]
  have e : lineCells f ax i c = (tab (f.mesh.nAt ax) fun j => (f.data.line ax i j).getD c 0).map (·, true) := by
    unfold lineCells tab
    rw [List.map_map]
    apply List.map_congr_left
    intro j hj
    simp only [Function.comp, hv j (List.mem_range.mp hj)]
  rw [e, ring_centred_d1 _ _ _ (by rw [tab_length]; exact hi)]
  unfold ringVal
  simp only [tab_length]
  have hn : 0 < f.mesh.nAt ax := by omega
  rw [getD_tab _ _ _ _ (Nat.mod_lt _ hn), getD_tab _ _ _ _ (Nat.mod_lt _ hn)]

/-- … first derivative on a run of exactly two cells: exact for polynomials of degree ≤ 1 -/
theorem diff_exact_run_d1_two (f g : Fld) (ax : Nat) (h : diff f ax 1 true = .ok g)
    (hopen : periodicAx f ax = false) (i : List Nat) (c : Nat) (hc : c < f.nvdim) (hi : i.getD ax 0 < f.mesh.nAt ax)
    (hv : f.valid.line ax i (i.getD ax 0) = true) (hh : f.mesh.cellAt ax ≠ 0)
    (hlen : runBefore (fun j => f.valid.line ax i j) (i.getD ax 0)
        + runFrom (fun j => f.valid.line ax i j) (f.mesh.nAt ax) (i.getD ax 0) = 2)
    (a0 b0 x0 : Rat)
    (hx : ∀ k, k < 2 →
        (f.data.line ax i (i.getD ax 0 - runBefore (fun j => f.valid.line ax i j) (i.getD ax 0) + k)).getD c 0
          = a0 + b0 * (x0 + (k : Rat) * f.mesh.cellAt ax)) :
    (g.data.get i).getD c 0 = b0 := by
  rw [diff_refines_spec f g ax 1 h hopen i c hc hi]
  unfold diffSpec
  beta_reduce
  rw [hv, hlen]
  simp only [if_true]
  have hpos : 0 < runFrom (fun j => f.valid.line ax i j) (f.mesh.nAt ax) (i.getD ax 0) := by
    unfold runFrom
    have : f.mesh.nAt ax - i.getD ax 0 = (f.mesh.nAt ax - i.getD ax 0 - 1) + 1 := by omega
    rw [this]; simp only [runFromAux, hv, if_true]; omega
  rw [dAt_congr 1 _ _ _ _ _ (fun k hk => hx k hk) (by omega)]
  unfold dAt
  simp only [if_true]
  exact d1_exact_two a0 b0 x0 _ hh _

/-- … second derivative on a run of exactly three cells: exact for polynomials of degree ≤ 2 -/
theorem diff_exact_run_d2_three (f g : Fld) (ax : Nat) (h : diff f ax 2 true = .ok g)
    (hopen : periodicAx f ax = false) (i : List Nat) (c : Nat) (hc : c < f.nvdim) (hi : i.getD ax 0 < f.mesh.nAt ax)
    (hv : f.valid.line ax i (i.getD ax 0) = true) (hh : f.mesh.cellAt ax ≠ 0)
    (hlen : runBefore (fun j => f.valid.line ax i j) (i.getD ax 0)
        + runFrom (fun j => f.valid.line ax i j) (f.mesh.nAt ax) (i.getD ax 0) = 3)
    (a0 b0 c0 x0 : Rat)
    (hx : ∀ k, k < 3 →
        (f.data.line ax i (i.getD ax 0 - runBefore (fun j => f.valid.line ax i j) (i.getD ax 0) + k)).getD c 0
          = a0 + b0 * (x0 + (k : Rat) * f.mesh.cellAt ax) + c0 * (x0 + (k : Rat) * f.mesh.cellAt ax) ^ 2) :
    (g.data.get i).getD c 0 = 2 * c0 := by
  rw [diff_refines_spec f g ax 2 h hopen i c hc hi]
  unfold diffSpec
  beta_reduce
  rw [hv, hlen]
  simp only [if_true]
  have hpos : 0 < runFrom (fun j => f.valid.line ax i j) (f.mesh.nAt ax) (i.getD ax 0) := by
    unfold runFrom
    have : f.mesh.nAt ax - i.getD ax 0 = (f.mesh.nAt ax - i.getD ax 0 - 1) + 1 := by omega
    rw [this]; simp only [runFromAux, hv, if_true]; omega
  rw [dAt_congr 2 _ _ _ _ _ (fun k hk => hx k hk) (by omega)]
  unfold dAt
  simp only [show ¬ ((2 : Nat) = 1) by omega, if_false]
  exact d2_exact_three a0 b0 c0 x0 _ hh _

/-- … and the second derivative along a fully valid periodic line is the centred second difference
with wrap-around -/
theorem diff_periodic_centred_d2 (f g : Fld) (ax : Nat) (h : diff f ax 2 true = .ok g)
    (hper : periodicAx f ax = true) (i : List Nat) (c : Nat) (hc : c < f.nvdim) (hi : i.getD ax 0 < f.mesh.nAt ax)
    (hv : ∀ j, j < f.mesh.nAt ax → f.valid.line ax i j = true) :
    (g.data.get i).getD c 0
      = ((f.data.line ax i ((i.getD ax 0 + 1) % f.mesh.nAt ax)).getD c 0
          - 2 * (f.data.line ax i (i.getD ax 0 % f.mesh.nAt ax)).getD c 0
          + (f.data.line ax i ((i.getD ax 0 + f.mesh.nAt ax - 1) % f.mesh.nAt ax)).getD c 0)
        / (f.mesh.cellAt ax * f.mesh.cellAt ax) := by
  rw [diff_cell f g ax 2 true h i c hc]
  unfold periodicAx at hper
  rw [hper]
  unfold diffLine'
  simp only [if_true]
  have e : lineCells f ax i c = (tab (f.mesh.nAt ax) fun j => (f.data.line ax i j).getD c 0).map (·, true) := by
    unfold lineCells tab
    rw [List.map_map]
    apply List.map_congr_left
    intro j hj
    simp only [Function.comp, hv j (List.mem_range.mp hj)]
  rw [e, ring_centred_d2 _ _ _ (by rw [tab_length]; exact hi)]
  unfold ringVal
  simp only [tab_length]
  have hn : 0 < f.mesh.nAt ax := by omega
  rw [getD_tab _ _ _ _ (Nat.mod_lt _ hn), getD_tab _ _ _ _ (Nat.mod_lt _ hn), getD_tab _ _ _ _ (Nat.mod_lt _ hn)]

/-! ## Which axes are periodic (repo fix 61bf94db)

`Field.diff` takes a direction as periodic only if `mesh.bc` is not one of the words `neumann` /
`dirichlet`, the direction's name is a single character and that character occurs in `bc`
(`periodicBc`).  Before the fix the test was the substring test `direction in mesh.bc`. -/

/-- **An axis is periodic exactly when `bc` is a list of axis letters that contains its name.** -/
theorem periodicAx_iff (f : Fld) (ax : Nat) :
    periodicAx f ax = true ↔ f.mesh.bc ≠ "neumann" ∧ f.mesh.bc ≠ "dirichlet" ∧
      ∃ ch ∈ f.mesh.bc.toList, f.mesh.region.dims.getD ax "" = String.singleton ch := by
  unfold periodicAx periodicBc
  simp only [Bool.and_eq_true, Bool.not_eq_true', Bool.or_eq_false_iff, beq_eq_false_iff_ne, ne_eq, List.any_eq_true, beq_iff_eq]
  constructor
  · rintro ⟨⟨w1, w2⟩, ch, hm, he⟩
    exact ⟨w1, w2, ch, hm, he.symm⟩
  · rintro ⟨w1, w2, ch, hm, he⟩
    exact ⟨⟨w1, w2⟩, ch, hm, he.symm⟩

/-- **On a `neumann` or `dirichlet` mesh every axis is open, whatever its name** (also `n`, `e`, `u`,
`ma`, … whose names are substrings of the word). -/
theorem periodicAx_word_open (f : Fld) (ax : Nat) (h : f.mesh.bc = "neumann" ∨ f.mesh.bc = "dirichlet") :
    periodicAx f ax = false := by
  unfold periodicAx periodicBc
  rcases h with h | h <;> rw [h] <;> simp

/-- **An axis whose name is not a single character is never periodic**, whatever `bc` is (also when
the name is a substring of `bc`, e.g. the axis `xy` of a mesh periodic along `x` and `y`). -/
theorem periodicAx_multichar_open (f : Fld) (ax : Nat) (h : (f.mesh.region.dims.getD ax "").toList.length ≠ 1) :
    periodicAx f ax = false := by
  cases hp : periodicAx f ax with
  | false => rfl
  | true =>
    obtain ⟨_, _, ch, _, he⟩ := (periodicAx_iff f ax).mp hp
    rw [he, String.toList_singleton] at h
    exact absurd rfl h

/-- Hence on a `neumann` / `dirichlet` mesh `Field.diff` along EVERY axis stores the open-line spec
(per-run one-sided / centred stencils, no wrap-around), whatever the axis is called. -/
theorem diff_refines_spec_word (f g : Fld) (ax order : Nat) (h : diff f ax order true = .ok g)
    (hw : f.mesh.bc = "neumann" ∨ f.mesh.bc = "dirichlet") (i : List Nat) (c : Nat) (hc : c < f.nvdim)
    (hi : i.getD ax 0 < f.mesh.nAt ax) :
    (g.data.get i).getD c 0
      = diffSpec order (f.mesh.cellAt ax) (f.mesh.nAt ax) (fun j => (f.data.line ax i j).getD c 0)
          (fun j => f.valid.line ax i j) (i.getD ax 0) :=
  diff_refines_spec f g ax order h (periodicAx_word_open f ax hw) i c hc hi

/-- … and likewise along every axis with a multi-character name on any mesh. -/
theorem diff_refines_spec_multichar (f g : Fld) (ax order : Nat) (h : diff f ax order true = .ok g)
    (hm : (f.mesh.region.dims.getD ax "").toList.length ≠ 1) (i : List Nat) (c : Nat) (hc : c < f.nvdim)
    (hi : i.getD ax 0 < f.mesh.nAt ax) :
    (g.data.get i).getD c 0
      = diffSpec order (f.mesh.cellAt ax) (f.mesh.nAt ax) (fun j => (f.data.line ax i j).getD c 0)
          (fun j => f.valid.line ax i j) (i.getD ax 0) :=
  diff_refines_spec f g ax order h (periodicAx_multichar_open f ax hm) i c hc hi

/-! ## Non-vacuity: concrete instances of the hypotheses -/

/-- a 2-d field (5×2 cells, two components, one invalid cell, all directions open) whose derivative
along both axes exists; axis 0 is not periodic; the cell (3,1) is invalid -/
example : (∃ g, diff exF 0 1 true = .ok g) ∧ (∃ g, diff exF 1 2 true = .ok g) ∧ periodicAx exF 0 = false ∧
    exF.valid.get [3, 1] = false ∧ [3, 1].getD 0 0 < exF.mesh.nAt 0 ∧ 1 < exF.nvdim :=
  ⟨⟨_, rfl⟩, ⟨_, rfl⟩, by decide, by decide, by decide, by decide⟩

/-- the hypothesis of `ring_head_run_seam` is met by the ring of finding D17 -/
example : (([(7 : Rat), 1, 4].map (·, true)) ++ (9, false) :: [((2 : Rat), true)]).getLast? = some (2, true) := by
  simp

/-- … and that of `ring_tail_run_seam` by the same ring -/
example : (([((7 : Rat), true), (1, true), (4, true)]) ++ (9, false) :: [(2 : Rat)].map (·, true)).head? = some (7, true) := by
  simp

/-- the run-length hypothesis of `short_run_zero_at` / `diff_short_run_zero`: in the mask
`[1,0,1,1,0]` cell 2 has no valid cell before it and a run of two from it on -/
example : runBefore (okOf [((1 : Rat), true), (2, false), (3, true), (4, true), (5, false)]) 2 = 0 ∧
    runFrom (okOf [((1 : Rat), true), (2, false), (3, true), (4, true), (5, false)]) 5 2 = 2 := by decide

/-- the hypotheses of `diff_exact_run_d1` are met by `exF` at cell (1,0) along axis 0 (run of five
valid cells, component 0 samples `x²` with `x = k·h`, `h = 1`): the stored derivative there is `2·x = 2` -/
example : ∃ g, diff exF 0 1 true = .ok g ∧ (g.data.get [1, 0]).getD 0 0 = 2 := by
  refine ⟨_, rfl, ?_⟩
  have hc : exF.mesh.cellAt 0 = 1 := by
    simp [Mesh.cellAt, Mesh.nAt, exF, Region.edge, Region.hi, Region.lo]
  have := diff_exact_run_d1 exF _ 0 rfl (by decide) [1, 0] 0 (by decide) (by decide) (by decide) (by rw [hc]; norm_num)
    (by decide) 0 0 1 0 (by
      intro k hk
      have h5 : runBefore (fun j => exF.valid.line 0 [1, 0] j) ([1, 0].getD 0 0)
          + runFrom (fun j => exF.valid.line 0 [1, 0] j) (exF.mesh.nAt 0) ([1, 0].getD 0 0) = 5 := by decide
      rw [h5] at hk
      rw [hc]
      have : k = 0 ∨ k = 1 ∨ k = 2 ∨ k = 3 ∨ k = 4 := by omega
      rcases this with rfl | rfl | rfl | rfl | rfl <;> simp [exF, NDA.line, setAt, runBefore] <;> norm_num)
  rw [this, hc]
  have h1 : runBefore (fun j => exF.valid.line 0 [1, 0] j) ([1, 0].getD 0 0) = 1 := by decide
  rw [h1]; norm_num

/-- `periodicAx_word_open` / `diff_refines_spec_word`: on `exFN` (axes `n`, `y`, `bc = "neumann"`) the axis `n` is open
although `"n"` is a substring of `"neumann"`, and the derivative along it exists -/
example : exFN.mesh.bc = "neumann" ∧ exFN.mesh.region.dims = ["n", "y"] ∧ periodicAx exFN 0 = false ∧
    ∃ g, diff exFN 0 1 true = .ok g :=
  ⟨rfl, rfl, periodicAx_word_open exFN 0 (Or.inl rfl), ⟨_, rfl⟩⟩

/-- `periodicAx_multichar_open` / `periodicAx_iff`: on `exFXY` (axes `x`, `y`, `xy`, `bc = "xy"`) the axes `x` and `y` are
periodic, the axis `xy` is not -/
example : periodicAx exFXY 0 = true ∧ periodicAx exFXY 1 = true ∧ periodicAx exFXY 2 = false ∧
    (exFXY.mesh.region.dims.getD 2 "").toList.length ≠ 1 ∧ ∃ g, diff exFXY 2 1 true = .ok g :=
  ⟨by decide, by decide, periodicAx_multichar_open exFXY 2 (by decide), by decide, ⟨_, rfl⟩⟩

/-! # Second extension round: periodic axes for every mask, both kinds of axis at field level, acceptance -/

/-! ## Periodic lines, every mask: the ring-level spec (known finding D17 stated exactly) -/

/-- **What `Field.diff` computes along a periodic line, for every mask — ONE statement that covers the
runs crossing the seam.**  At an invalid cell 0.  At a valid cell `j` the run stencil over the cells
`ringBefore` before `j` and `ringFrom` from `j` on, read off the ring cyclically, where these counts
are the valid cells around `j` INSIDE THE STORED LINE plus — when they reach the start (the end) of
the stored line — exactly ONE more cell from the other side of the seam if that cell is valid.  A
ring run that crosses the seam is therefore cut one cell beyond the seam (known finding D17); a run
that does not touch the seam, and a fully valid ring, are differentiated as the property says. -/
theorem diffRing_refines_ringSpec (o : Nat) (h : Rat) (cells : List (Rat × Bool)) (j : Nat) (hj : j < cells.length) :
    (diffRing o h cells).getD j 0 = ringSpec o h cells.length (valOf cells) (okOf cells) j :=
  diffRing_getD_ringSpec o h cells j hj

/-- **Every line as `Field.diff` differentiates it — open or periodic, restricted to valid cells or
not, every mask — computes `lineSpec`**: 0 at a cell that counts as invalid, otherwise the run stencil
over the window `winB` cells before and `winA` cells from the cell on (`runBefore`/`runFrom` on an open
line, `ringBefore`/`ringFrom` on a periodic one; with the restriction off every cell counts as valid). -/
theorem diffLine'_refines_lineSpec (p r : Bool) (o : Nat) (h : Rat) (cells : List (Rat × Bool)) (j : Nat)
    (hj : j < cells.length) :
    (diffLine' p r o h cells).getD j 0 = lineSpec p r o h cells.length (valOf cells) (okOf cells) j :=
  diffLine'_getD_lineSpec p r o h cells j hj

/-- **A cell whose run does not cross the seam is differentiated as on the open line**: if the valid
cells before `j` do not reach the start of the stored line or the last cell is invalid, and the valid
cells from `j` on do not reach its end or the first cell is invalid, periodic and open results agree
at `j` (generalises `ring_inner_run`, `ring_open_if_first_invalid`, `ring_open_if_last_invalid`). -/
theorem ring_cell_off_seam (o : Nat) (h : Rat) (cells : List (Rat × Bool)) (j : Nat) (hj : j < cells.length)
    (hb : runBefore (okOf cells) j < j ∨ okOf cells (cells.length - 1) = false)
    (ha : j + runFrom (okOf cells) cells.length j < cells.length ∨ okOf cells 0 = false) :
    (diffRing o h cells).getD j 0 = (diffLine o h cells).getD j 0 := by
  rw [diffRing_getD_ringSpec o h cells j hj, diffLine_getD_spec o h cells j hj, diffSpec_eq_winSpec _ _ _ _ _ _ hj,
    ringSpec_eq_winSpec]
  have eB : ringBefore (okOf cells) cells.length j = runBefore (okOf cells) j := by
    unfold ringBefore
    split
    · rename_i heq
      rcases hb with hb | hb
      · omega
      · rw [hb]; simp; omega
    · rfl
  have eA : ringFrom (okOf cells) cells.length j = runFrom (okOf cells) cells.length j := by
    unfold ringFrom
    split
    · rcases ha with ha | ha
      · omega
      · rw [ha]; simp
    · rfl
  unfold winSpec winIdx winB winA
  simp only [if_true, Bool.false_eq_true, if_false, eB, eA]

/-- **Short runs on a periodic line yield zero**: a cell whose differentiated run (its run in the
stored line plus at most one cell beyond the seam on each side) has at most `order` cells gets 0. -/
theorem ring_short_run_zero (o : Nat) (ho : o = 1 ∨ o = 2) (h : Rat) (cells : List (Rat × Bool)) (j : Nat)
    (hj : j < cells.length)
    (hs : ringBefore (okOf cells) cells.length j + ringFrom (okOf cells) cells.length j ≤ o) :
    (diffRing o h cells).getD j 0 = 0 := by
  rw [diffRing_getD_ringSpec o h cells j hj]
  unfold ringSpec
  split
  · exact dAt_short o ho h _ hs _ _
  · rfl

/-- **Locality on a periodic line, index form, every mask**: two rings of the same length with the same
validity whose values agree on the window of cell `j` (`ringBefore` cells before it, `ringFrom` from
it on, positions taken cyclically) have the same derivative at `j` — whatever they hold elsewhere. -/
theorem ring_locality (o : Nat) (h : Rat) (c1 c2 : List (Rat × Bool)) (j : Nat) (hl : c1.length = c2.length)
    (hj : j < c1.length) (hv : ∀ k, k < c1.length → okOf c1 k = okOf c2 k)
    (hx : ∀ k, k < ringBefore (okOf c1) c1.length j + ringFrom (okOf c1) c1.length j →
      valOf c1 ((j + c1.length - ringBefore (okOf c1) c1.length j + k) % c1.length)
        = valOf c2 ((j + c1.length - ringBefore (okOf c1) c1.length j + k) % c1.length)) :
    (diffRing o h c1).getD j 0 = (diffRing o h c2).getD j 0 := by
  rw [diffRing_getD_ringSpec o h c1 j hj, diffRing_getD_ringSpec o h c2 j (by omega), ← hl]
  have eB : ringBefore (okOf c1) c1.length j = ringBefore (okOf c2) c1.length j := winB_congr true _ _ _ j hj hv
  have eA : ringFrom (okOf c1) c1.length j = ringFrom (okOf c2) c1.length j := winA_congr true _ _ _ j hj hv
  unfold ringSpec
  rw [← hv j hj, ← eB, ← eA]
  split
  · rename_i hvj
    have := ringFrom_pos (okOf c1) c1.length j hj hvj
    exact dAt_congr _ _ _ _ _ _ (fun k hk => hx k hk) (by omega)
  · rfl

/-! ## Cyclic shifts: exactly which masks admit equivariance -/

/-- **On a fully valid ring the derivative of the rotated ring is the rotated derivative** (position
form of `ring_shift`: the ring stored from cell `s` on). -/
theorem ring_rot_all_valid (o : Nat) (h : Rat) (cells : List (Rat × Bool)) (s j : Nat) (hj : j < cells.length)
    (hall : ∀ k, k < cells.length → okOf cells k = true) :
    (diffRing o h (rotCells cells s)).getD j 0 = (diffRing o h cells).getD ((j + s) % cells.length) 0 :=
  ring_rot_allValid o h cells s j hj hall

/-- **… and on a ring without three cyclically consecutive valid cells** (every ring run has at most
two cells, wherever the seam is): every rotation commutes with the derivative, for every mask of
that kind, all data, both orders. -/
theorem ring_rot_no_three (o : Nat) (ho : o = 1 ∨ o = 2) (h : Rat) (cells : List (Rat × Bool)) (s j : Nat)
    (hj : j < cells.length) (h3 : noThree (okOf cells) cells.length) :
    (diffRing o h (rotCells cells s)).getD j 0 = (diffRing o h cells).getD ((j + s) % cells.length) 0 :=
  ring_rot_noThree o ho h cells s j hj h3

/-- **Shift-equivariance holds for EXACTLY these masks.**  For a mask `m` (any length), order 1 or 2
and step `h ≠ 0`: the periodic derivative commutes with every rotation of the stored ring for all
data with that validity pattern IF AND ONLY IF every cell is valid or the mask has no three
cyclically consecutive valid cells.  For every other mask (a ring run of three or more cells next to
an invalid cell) there are data and a rotation for which it fails — known finding D17, delimited
exactly. -/
theorem ring_shift_iff (o : Nat) (ho : o = 1 ∨ o = 2) (h : Rat) (hh : h ≠ 0) (m : List Bool) :
    (∀ (cells : List (Rat × Bool)), cells.map (·.2) = m → ∀ s j, j < m.length →
        (diffRing o h (rotCells cells s)).getD j 0 = (diffRing o h cells).getD ((j + s) % m.length) 0)
      ↔ ((∀ k, k < m.length → m.getD k false = true) ∨ noThree (fun k => m.getD k false) m.length) := by
  have hok : ∀ (cells : List (Rat × Bool)), cells.map (·.2) = m → ∀ k, okOf cells k = m.getD k false := by
    intro cells hm k
    subst hm
    unfold okOf
    simp only [List.getD_eq_getElem?_getD, List.getElem?_map]
    cases cells[k]? <;> rfl
  have hlen : ∀ (cells : List (Rat × Bool)), cells.map (·.2) = m → cells.length = m.length := by
    intro cells hm; subst hm; simp
  constructor
  · intro H
    apply Classical.byContradiction
    intro hnot
    have hnall : ¬ (∀ k, k < m.length → m.getD k false = true) := fun ha => hnot (Or.inl ha)
    have hn3 : ¬ noThree (fun k => m.getD k false) m.length := fun ha => hnot (Or.inr ha)
    -- an invalid cell and three consecutive valid cells
    obtain ⟨k0, hk0, hbad⟩ : ∃ k0, k0 < m.length ∧ m.getD k0 false = false := by
      apply Classical.byContradiction
      intro hne
      apply hnall
      intro k hk
      cases hv : m.getD k false with
      | true => rfl
      | false => exact absurd ⟨k, hk, hv⟩ hne
    obtain ⟨c, hc, h3⟩ : ∃ c, c < m.length ∧ (m.getD c false = true ∧ m.getD ((c + 1) % m.length) false = true
        ∧ m.getD ((c + 2) % m.length) false = true) := by
      apply Classical.byContradiction
      intro hne
      apply hn3
      intro j hj hc
      exact hne ⟨j, hj, hc⟩
    obtain ⟨e, he, hv, hp, hp2, hs⟩ := exists_run_end (fun k => m.getD k false) m.length k0 hk0 hbad c
      (by rw [Nat.mod_eq_of_lt hc]; exact h3)
    -- data: 1 at cell e, 0 elsewhere
    let cells : List (Rat × Bool) := tab m.length fun k => ((if k = e then 1 else 0 : Rat), m.getD k false)
    have hm : cells.map (·.2) = m := by
      apply List.ext_getElem
      · simp [cells]
      · intro i h1 h2
        simp [cells, tab, List.getD_eq_getElem?_getD, List.getElem?_eq_getElem h2]
    have hcl : cells.length = m.length := hlen cells hm
    have hx : ∀ k, k < cells.length → valOf cells k = if k = e then 1 else 0 := by
      intro k hk
      unfold valOf
      rw [getD_tab _ _ _ _ (by rw [← hcl]; exact hk)]
    have hfail := ring_rot_fails o ho h hh cells e (by rw [hcl]; exact he)
      (by rw [hok cells hm]; exact hv) (by rw [hok cells hm, hcl]; exact hp) (by rw [hok cells hm, hcl]; exact hp2)
      (by rw [hok cells hm, hcl]; exact hs) hx
    apply hfail
    have hL : 0 < m.length := by omega
    rw [hcl, H cells hm (e + 1) (m.length - 1) (by omega), H cells hm e 0 hL]
    congr 1
    rw [show m.length - 1 + (e + 1) = e + m.length by omega, Nat.add_mod_right, Nat.zero_add]
  · rintro (hall | h3) cells hm s j hj
    · have hcl := hlen cells hm
      rw [← hcl]
      exact ring_rot_allValid o h cells s j (by rw [hcl]; exact hj) (fun k hk => by rw [hok cells hm]; exact hall k (by rw [← hcl]; exact hk))
    · have hcl := hlen cells hm
      rw [← hcl]
      apply ring_rot_noThree o ho h cells s j (by rw [hcl]; exact hj)
      rw [hcl, show okOf cells = fun k => m.getD k false from funext (hok cells hm)]
      exact h3


/-! ## Line level, every kind of line: zeros on short runs, exactness on every window -/

/-- **Runs of length 1, and runs of length 2 for the second derivative, yield zero on every kind of line**
(open or periodic, restricted or not): a cell whose window has at most `order` cells gets 0. -/
theorem line_short_run_zero (p r : Bool) (o : Nat) (ho : o = 1 ∨ o = 2) (h : Rat) (cells : List (Rat × Bool)) (j : Nat)
    (hj : j < cells.length)
    (hs : winB p (effOk r (okOf cells)) cells.length j + winA p (effOk r (okOf cells)) cells.length j ≤ o) :
    (diffLine' p r o h cells).getD j 0 = 0 := by
  rw [diffLine'_getD_lineSpec p r o h cells j hj]
  unfold lineSpec winSpec
  split
  · exact dAt_short o ho h _ hs _ _
  · rfl

/-- **First derivative, window of ≥ 3 cells, every kind of line: exact for polynomials of degree ≤ 2** at
every position of the window (first cell, interior, last cell), any step `h ≠ 0`, any mask. -/
theorem line_exact_d1 (p r : Bool) (h : Rat) (hh : h ≠ 0) (cells : List (Rat × Bool)) (j : Nat) (hj : j < cells.length)
    (hv : effOk r (okOf cells) j = true)
    (hlen : 3 ≤ winB p (effOk r (okOf cells)) cells.length j + winA p (effOk r (okOf cells)) cells.length j)
    (a0 b0 c0 x0 : Rat)
    (hx : ∀ k, k < winB p (effOk r (okOf cells)) cells.length j + winA p (effOk r (okOf cells)) cells.length j →
      valOf cells (winIdx p (effOk r (okOf cells)) cells.length j k)
        = a0 + b0 * (x0 + (k : Rat) * h) + c0 * (x0 + (k : Rat) * h) ^ 2) :
    (diffLine' p r 1 h cells).getD j 0
      = b0 + 2 * c0 * (x0 + (winB p (effOk r (okOf cells)) cells.length j : Rat) * h) := by
  rw [diffLine'_getD_lineSpec p r 1 h cells j hj]
  unfold lineSpec winSpec
  rw [if_pos hv, dAt_congr 1 _ _ _ _ _ hx (win_pos p r cells j hj hv)]
  unfold dAt
  simp only [if_true]
  exact d1_exact a0 b0 c0 x0 h hh _ hlen _ (win_pos p r cells j hj hv)

/-- **First derivative, window of exactly two cells: exact for polynomials of degree ≤ 1** -/
theorem line_exact_d1_two (p r : Bool) (h : Rat) (hh : h ≠ 0) (cells : List (Rat × Bool)) (j : Nat) (hj : j < cells.length)
    (hv : effOk r (okOf cells) j = true)
    (hlen : winB p (effOk r (okOf cells)) cells.length j + winA p (effOk r (okOf cells)) cells.length j = 2)
    (a0 b0 x0 : Rat)
    (hx : ∀ k, k < 2 → valOf cells (winIdx p (effOk r (okOf cells)) cells.length j k) = a0 + b0 * (x0 + (k : Rat) * h)) :
    (diffLine' p r 1 h cells).getD j 0 = b0 := by
  rw [diffLine'_getD_lineSpec p r 1 h cells j hj]
  unfold lineSpec winSpec
  have hp := win_pos p r cells j hj hv
  rw [if_pos hv]
  rw [hlen] at hp ⊢
  rw [dAt_congr 1 _ _ _ _ _ hx hp]
  unfold dAt
  simp only [if_true]
  exact d1_exact_two a0 b0 x0 h hh _

/-- **Second derivative, window of ≥ 4 cells: exact for polynomials of degree ≤ 3** -/
theorem line_exact_d2 (p r : Bool) (h : Rat) (hh : h ≠ 0) (cells : List (Rat × Bool)) (j : Nat) (hj : j < cells.length)
    (hv : effOk r (okOf cells) j = true)
    (hlen : 4 ≤ winB p (effOk r (okOf cells)) cells.length j + winA p (effOk r (okOf cells)) cells.length j)
    (a0 b0 c0 d0 x0 : Rat)
    (hx : ∀ k, k < winB p (effOk r (okOf cells)) cells.length j + winA p (effOk r (okOf cells)) cells.length j →
      valOf cells (winIdx p (effOk r (okOf cells)) cells.length j k)
        = a0 + b0 * (x0 + (k : Rat) * h) + c0 * (x0 + (k : Rat) * h) ^ 2 + d0 * (x0 + (k : Rat) * h) ^ 3) :
    (diffLine' p r 2 h cells).getD j 0
      = 2 * c0 + 6 * d0 * (x0 + (winB p (effOk r (okOf cells)) cells.length j : Rat) * h) := by
  rw [diffLine'_getD_lineSpec p r 2 h cells j hj]
  unfold lineSpec winSpec
  rw [if_pos hv, dAt_congr 2 _ _ _ _ _ hx (win_pos p r cells j hj hv)]
  unfold dAt
  simp only [show ¬ ((2 : Nat) = 1) by omega, if_false]
  exact d2_exact a0 b0 c0 d0 x0 h hh _ hlen _ (win_pos p r cells j hj hv)

/-- **Second derivative, window of exactly three cells: exact for polynomials of degree ≤ 2** -/
theorem line_exact_d2_three (p r : Bool) (h : Rat) (hh : h ≠ 0) (cells : List (Rat × Bool)) (j : Nat) (hj : j < cells.length)
    (hv : effOk r (okOf cells) j = true)
    (hlen : winB p (effOk r (okOf cells)) cells.length j + winA p (effOk r (okOf cells)) cells.length j = 3)
    (a0 b0 c0 x0 : Rat)
    (hx : ∀ k, k < 3 → valOf cells (winIdx p (effOk r (okOf cells)) cells.length j k)
        = a0 + b0 * (x0 + (k : Rat) * h) + c0 * (x0 + (k : Rat) * h) ^ 2) :
    (diffLine' p r 2 h cells).getD j 0 = 2 * c0 := by
  rw [diffLine'_getD_lineSpec p r 2 h cells j hj]
  unfold lineSpec winSpec
  have hp := win_pos p r cells j hj hv
  rw [if_pos hv]
  rw [hlen] at hp ⊢
  rw [dAt_congr 2 _ _ _ _ _ hx hp]
  unfold dAt
  simp only [show ¬ ((2 : Nat) = 1) by omega, if_false]
  exact d2_exact_three a0 b0 c0 x0 h hh _


/-! ## `Field.diff` as a total function of its inputs: acceptance, refusal, what is kept -/

/-- **`Field.diff` succeeds exactly on well-formed requests, and then keeps everything but the array**:
the result is `g` iff the order is 1 or 2, the axis exists, and `g` is the operand with its array
replaced by `diffData` — same mesh (region, cells, `bc`, subregions), component count, labels,
`vdim_mapping`, unit and validity, for every axis, order and setting of `restrict2valid`. -/
theorem diff_ok_iff (f g : Fld) (ax order : Nat) (r : Bool) :
    diff f ax order r = .ok g ↔
      (order = 1 ∨ order = 2) ∧ ax < f.mesh.ndim ∧ g = { f with data := diffData f ax order r } := by
  rw [diff_eq]
  by_cases ho : order ≠ 1 ∧ order ≠ 2
  · rw [if_pos ho]
    constructor
    · intro h; cases h
    · rintro ⟨h1, _, _⟩; omega
  · rw [if_neg ho]
    by_cases hax : f.mesh.ndim ≤ ax
    · rw [if_pos hax]
      constructor
      · intro h; cases h
      · rintro ⟨_, h2, _⟩; omega
    · rw [if_neg hax]
      constructor
      · intro h
        injection h with h
        exact ⟨by omega, by omega, h.symm⟩
      · rintro ⟨_, _, h3⟩; rw [h3]

/-- acceptance from the inputs alone -/
theorem diff_accepts_iff (f : Fld) (ax order : Nat) (r : Bool) :
    (∃ g, diff f ax order r = .ok g) ↔ (order = 1 ∨ order = 2) ∧ ax < f.mesh.ndim := by
  constructor
  · rintro ⟨g, hg⟩
    have := (diff_ok_iff f g ax order r).mp hg
    exact ⟨this.1, this.2.1⟩
  · rintro ⟨h1, h2⟩
    exact ⟨_, (diff_ok_iff f _ ax order r).mpr ⟨h1, h2, rfl⟩⟩

/-- **refusal ⇔ malformed, with the kind of refusal**: `NotImplementedError` exactly for an order other
than 1 and 2 (whatever the axis), `ValueError` exactly for an admissible order and an axis the mesh
does not have; nothing else is refused. -/
theorem diff_rejects_iff (f : Fld) (ax order : Nat) (r : Bool) (e : Err) :
    diff f ax order r = .error e ↔
      (e = .notImpl ∧ order ≠ 1 ∧ order ≠ 2) ∨ (e = .value ∧ (order = 1 ∨ order = 2) ∧ f.mesh.ndim ≤ ax) := by
  rw [diff_eq]
  by_cases ho : order ≠ 1 ∧ order ≠ 2
  · rw [if_pos ho]
    constructor
    · intro h; injection h with h; exact Or.inl ⟨h.symm, ho⟩
    · rintro (⟨h1, _⟩ | ⟨_, h2, _⟩)
      · rw [h1]
      · omega
  · rw [if_neg ho]
    by_cases hax : f.mesh.ndim ≤ ax
    · rw [if_pos hax]
      constructor
      · intro h; injection h with h; exact Or.inr ⟨h.symm, by omega, hax⟩
      · rintro (⟨_, h2⟩ | ⟨h1, _, _⟩)
        · exact absurd h2 ho
        · rw [h1]
    · rw [if_neg hax]
      constructor
      · intro h; cases h
      · rintro (⟨_, h2⟩ | ⟨_, _, h3⟩)
        · exact absurd h2 ho
        · exact absurd h3 hax

/-- `Field.diff` with the direction given by NAME: a known name is the call with its index -/
theorem diffDir_eq_diff (f : Fld) (dir : String) (ax order : Nat) (r : Bool)
    (h : indexOf? f.mesh.region.dims dir = some ax) : diffDir f dir order r = diff f ax order r := by
  unfold diffDir Region.dim2index
  rw [h]
  by_cases ho : order ≠ 1 ∧ order ≠ 2
  · rw [if_pos ho, diff_eq, if_pos ho]
  · rw [if_neg ho]

/-- **acceptance of `Field.diff(direction, order, …)` from the inputs**: it succeeds iff the order is 1
or 2 and the name is one of the mesh's axis names (for a mesh whose region has one name per axis) -/
theorem diffDir_accepts_iff (f : Fld) (dir : String) (order : Nat) (r : Bool)
    (hd : f.mesh.region.dims.length = f.mesh.ndim) :
    (∃ g, diffDir f dir order r = .ok g) ↔ (order = 1 ∨ order = 2) ∧ dir ∈ f.mesh.region.dims := by
  unfold diffDir Region.dim2index
  by_cases ho : order ≠ 1 ∧ order ≠ 2
  · rw [if_pos ho]
    constructor
    · rintro ⟨g, hg⟩; cases hg
    · rintro ⟨h1, _⟩; omega
  · rw [if_neg ho]
    cases hi : indexOf? f.mesh.region.dims dir with
    | none =>
      constructor
      · rintro ⟨g, hg⟩; cases hg
      · rintro ⟨_, h2⟩; exact absurd h2 ((indexOf?_none _ _).mp hi)
    | some ax =>
      have hs := indexOf?_some _ _ _ hi
      constructor
      · intro _
        refine ⟨by omega, ?_⟩
        rw [← hs.2]
        rw [List.getD_eq_getElem?_getD, List.getElem?_eq_getElem hs.1]
        exact List.getElem_mem _
      · intro _
        exact (diff_accepts_iff f ax order r).mpr ⟨by omega, by rw [← hd]; exact hs.1⟩

/-- **refusal ⇔ malformed for the call by name**: `NotImplementedError` exactly for an order other than
1 and 2 — checked BEFORE the name, so also for an unknown name — and `ValueError` exactly for an
admissible order with an unknown name. -/
theorem diffDir_rejects_iff (f : Fld) (dir : String) (order : Nat) (r : Bool) (e : Err)
    (hd : f.mesh.region.dims.length = f.mesh.ndim) :
    diffDir f dir order r = .error e ↔
      (e = .notImpl ∧ order ≠ 1 ∧ order ≠ 2) ∨ (e = .value ∧ (order = 1 ∨ order = 2) ∧ dir ∉ f.mesh.region.dims) := by
  by_cases ho : order ≠ 1 ∧ order ≠ 2
  · unfold diffDir
    rw [if_pos ho]
    constructor
    · intro h; injection h with h; exact Or.inl ⟨h.symm, ho⟩
    · rintro (⟨h1, _⟩ | ⟨_, h2, _⟩)
      · rw [h1]
      · omega
  · cases hi : indexOf? f.mesh.region.dims dir with
    | none =>
      have hnm := (indexOf?_none _ _).mp hi
      unfold diffDir Region.dim2index
      rw [if_neg ho, hi]
      constructor
      · intro h; injection h with h; exact Or.inr ⟨h.symm, by omega, hnm⟩
      · rintro (⟨_, h2⟩ | ⟨h1, _, _⟩)
        · exact absurd h2 ho
        · rw [h1]
    | some ax =>
      have hs := indexOf?_some _ _ _ hi
      have hmem : dir ∈ f.mesh.region.dims := by
        rw [← hs.2, List.getD_eq_getElem?_getD, List.getElem?_eq_getElem hs.1]
        exact List.getElem_mem _
      rw [diffDir_eq_diff f dir ax order r hi, diff_rejects_iff]
      constructor
      · rintro (⟨_, h2⟩ | ⟨_, _, h3⟩)
        · exact absurd h2 ho
        · rw [← hd] at h3; omega
      · rintro (⟨_, h2⟩ | ⟨_, _, h3⟩)
        · exact absurd h2 ho
        · exact absurd hmem h3


/-! ## n-d field level, EVERY kind of axis and both settings of `restrict2valid` -/

/-- **Field-level refinement for every axis, periodic or open, restricted to valid cells or not.**  For
every axis `ax` of an n-d mesh, every component `c` and every cell `i`, `Field.diff` stores
`lineSpec` of the grid line through `i`: 0 if the cell counts as invalid, otherwise the run stencil
over the cell's window along that line (open axis: its maximal run of valid cells; periodic axis: that
run inside the stored line plus at most one cell beyond the seam on each side; restriction off: every
cell counts as valid) — it reads nothing else of the field. -/
theorem diff_refines_lineSpec (f g : Fld) (ax order : Nat) (r : Bool) (h : diff f ax order r = .ok g)
    (i : List Nat) (c : Nat) (hc : c < f.nvdim) (hi : i.getD ax 0 < f.mesh.nAt ax) :
    (g.data.get i).getD c 0
      = lineSpec (periodicAx f ax) r order (f.mesh.cellAt ax) (f.mesh.nAt ax) (fun j => (f.data.line ax i j).getD c 0)
          (fun j => f.valid.line ax i j) (i.getD ax 0) := by
  rw [diff_cell f g ax order r h i c hc]
  change (diffLine' (periodicAx f ax) r order (f.mesh.cellAt ax) (lineCells f ax i c)).getD (i.getD ax 0) 0 = _
  rw [diffLine'_getD_lineSpec _ _ _ _ _ _ (by rw [lineCells_length]; exact hi), lineCells_length]
  unfold lineSpec
  apply winSpec_congr _ _ _ _ _ _ _ _ _ hi (fun k hk => valOf_lineCells f ax i c k hk)
  intro k hk
  unfold effOk
  rw [okOf_lineCells f ax i c k hk]

/-- the same in terms of the cell's window: `fldB` cells before it, `fldA` from it on, `fldWin k` the
value at the window's `k`-th cell -/
theorem diff_refines_window (f g : Fld) (ax order : Nat) (r : Bool) (h : diff f ax order r = .ok g)
    (i : List Nat) (c : Nat) (hc : c < f.nvdim) (hi : i.getD ax 0 < f.mesh.nAt ax) :
    (g.data.get i).getD c 0
      = if fldOk f r i then dAt order (f.mesh.cellAt ax) (fldB f ax r i + fldA f ax r i) (fldWin f ax r i c) (fldB f ax r i)
        else 0 := by
  rw [diff_refines_lineSpec f g ax order r h i c hc hi]
  unfold lineSpec winSpec fldOk fldB fldA fldWin effOk NDA.line
  beta_reduce
  rw [setAt_getD_self]

/-- **Invalid cells yield zero** — every axis of either kind, both orders (restriction on). -/
theorem diff_invalid_zero_any (f g : Fld) (ax order : Nat) (r : Bool) (h : diff f ax order r = .ok g)
    (i : List Nat) (c : Nat) (hc : c < f.nvdim) (hi : i.getD ax 0 < f.mesh.nAt ax) (hv : fldOk f r i = false) :
    (g.data.get i).getD c 0 = 0 := by
  rw [diff_refines_window f g ax order r h i c hc hi, hv]; rfl

/-- **Runs not longer than the order yield zero — open AND periodic axes, restriction on or off**: a
cell whose window along `ax` has at most `order` cells gets 0 (on a periodic axis the window is the
run in the stored line plus at most one cell beyond the seam on each side). -/
theorem diff_short_run_zero_any (f g : Fld) (ax order : Nat) (r : Bool) (h : diff f ax order r = .ok g)
    (i : List Nat) (c : Nat) (hc : c < f.nvdim) (hi : i.getD ax 0 < f.mesh.nAt ax)
    (hs : fldB f ax r i + fldA f ax r i ≤ order) : (g.data.get i).getD c 0 = 0 := by
  have ho : order = 1 ∨ order = 2 := ((diff_ok_iff f g ax order r).mp h).1
  rw [diff_refines_window f g ax order r h i c hc hi]
  split
  · exact dAt_short order ho _ _ hs _ _
  · rfl

/-- **n-d locality for every kind of axis and both settings of the restriction.**  Two fields on the
same mesh with the same validity along the grid line through `i` whose component `c` agrees on the
cells of `i`'s window along that line have the same derivative at `(i, c)` — whatever they hold
anywhere else: outside the window on the same line, on every other grid line, in every other component. -/
theorem diff_locality_any (f1 f2 g1 g2 : Fld) (ax order : Nat) (r : Bool)
    (h1 : diff f1 ax order r = .ok g1) (h2 : diff f2 ax order r = .ok g2) (hmesh : f1.mesh = f2.mesh)
    (i : List Nat) (c : Nat) (hc1 : c < f1.nvdim) (hc2 : c < f2.nvdim) (hi : i.getD ax 0 < f1.mesh.nAt ax)
    (hv : ∀ j, j < f1.mesh.nAt ax → f1.valid.line ax i j = f2.valid.line ax i j)
    (hx : ∀ k, k < fldB f1 ax r i + fldA f1 ax r i → fldWin f1 ax r i c k = fldWin f2 ax r i c k) :
    (g1.data.get i).getD c 0 = (g2.data.get i).getD c 0 := by
  have hp : periodicAx f2 ax = periodicAx f1 ax := by unfold periodicAx; rw [hmesh]
  have he : ∀ j, j < f1.mesh.nAt ax → effOk r (fun j => f1.valid.line ax i j) j = effOk r (fun j => f2.valid.line ax i j) j := by
    intro j hj; unfold effOk; beta_reduce; rw [hv j hj]
  have eB : fldB f2 ax r i = fldB f1 ax r i := by
    unfold fldB; rw [hp, ← hmesh]; exact (winB_congr _ _ _ _ _ hi he).symm
  have eA : fldA f2 ax r i = fldA f1 ax r i := by
    unfold fldA; rw [hp, ← hmesh]; exact (winA_congr _ _ _ _ _ hi he).symm
  have eO : fldOk f2 r i = fldOk f1 r i := by
    have := he _ hi
    unfold effOk NDA.line at this
    beta_reduce at this
    rw [setAt_getD_self] at this
    exact this.symm
  rw [diff_refines_window f1 g1 ax order r h1 i c hc1 hi,
    diff_refines_window f2 g2 ax order r h2 i c hc2 (by rw [← hmesh]; exact hi), eB, eA, eO, ← hmesh]
  split
  · rename_i hok
    exact dAt_congr _ _ _ _ _ _ hx (fldOk_pos f1 ax r i hi hok)
  · rfl

/-- **Exactness at field level for every kind of axis, first derivative, windows of ≥ 3 cells**: if
component `c` samples a polynomial of degree ≤ 2 of the position along the cell's window, the stored
derivative is the exact one — at the first cell of the window, in its interior and at its last cell. -/
theorem diff_exact_d1_any (f g : Fld) (ax : Nat) (r : Bool) (h : diff f ax 1 r = .ok g)
    (i : List Nat) (c : Nat) (hc : c < f.nvdim) (hi : i.getD ax 0 < f.mesh.nAt ax) (hv : fldOk f r i = true)
    (hh : f.mesh.cellAt ax ≠ 0) (hlen : 3 ≤ fldB f ax r i + fldA f ax r i) (a0 b0 c0 x0 : Rat)
    (hx : ∀ k, k < fldB f ax r i + fldA f ax r i →
        fldWin f ax r i c k = a0 + b0 * (x0 + (k : Rat) * f.mesh.cellAt ax) + c0 * (x0 + (k : Rat) * f.mesh.cellAt ax) ^ 2) :
    (g.data.get i).getD c 0 = b0 + 2 * c0 * (x0 + (fldB f ax r i : Rat) * f.mesh.cellAt ax) := by
  rw [diff_refines_window f g ax 1 r h i c hc hi, hv]
  simp only [if_true]
  have hp := fldOk_pos f ax r i hi hv
  rw [dAt_congr 1 _ _ _ _ _ hx hp]
  unfold dAt
  simp only [if_true]
  exact d1_exact a0 b0 c0 x0 _ hh _ hlen _ hp

/-- … first derivative, windows of exactly two cells: exact for polynomials of degree ≤ 1 -/
theorem diff_exact_d1_two_any (f g : Fld) (ax : Nat) (r : Bool) (h : diff f ax 1 r = .ok g)
    (i : List Nat) (c : Nat) (hc : c < f.nvdim) (hi : i.getD ax 0 < f.mesh.nAt ax) (hv : fldOk f r i = true)
    (hh : f.mesh.cellAt ax ≠ 0) (hlen : fldB f ax r i + fldA f ax r i = 2) (a0 b0 x0 : Rat)
    (hx : ∀ k, k < 2 → fldWin f ax r i c k = a0 + b0 * (x0 + (k : Rat) * f.mesh.cellAt ax)) :
    (g.data.get i).getD c 0 = b0 := by
  rw [diff_refines_window f g ax 1 r h i c hc hi, hv]
  simp only [if_true]
  have hp := fldOk_pos f ax r i hi hv
  rw [hlen] at hp ⊢
  rw [dAt_congr 1 _ _ _ _ _ hx hp]
  unfold dAt
  simp only [if_true]
  exact d1_exact_two a0 b0 x0 _ hh _

/-- … second derivative, windows of ≥ 4 cells: exact for polynomials of degree ≤ 3 -/
theorem diff_exact_d2_any (f g : Fld) (ax : Nat) (r : Bool) (h : diff f ax 2 r = .ok g)
    (i : List Nat) (c : Nat) (hc : c < f.nvdim) (hi : i.getD ax 0 < f.mesh.nAt ax) (hv : fldOk f r i = true)
    (hh : f.mesh.cellAt ax ≠ 0) (hlen : 4 ≤ fldB f ax r i + fldA f ax r i) (a0 b0 c0 d0 x0 : Rat)
    (hx : ∀ k, k < fldB f ax r i + fldA f ax r i →
        fldWin f ax r i c k = a0 + b0 * (x0 + (k : Rat) * f.mesh.cellAt ax) + c0 * (x0 + (k : Rat) * f.mesh.cellAt ax) ^ 2
          + d0 * (x0 + (k : Rat) * f.mesh.cellAt ax) ^ 3) :
    (g.data.get i).getD c 0 = 2 * c0 + 6 * d0 * (x0 + (fldB f ax r i : Rat) * f.mesh.cellAt ax) := by
  rw [diff_refines_window f g ax 2 r h i c hc hi, hv]
  simp only [if_true]
  have hp := fldOk_pos f ax r i hi hv
  rw [dAt_congr 2 _ _ _ _ _ hx hp]
  unfold dAt
  simp only [show ¬ ((2 : Nat) = 1) by omega, if_false]
  exact d2_exact a0 b0 c0 d0 x0 _ hh _ hlen _ hp

/-- … second derivative, windows of exactly three cells: exact for polynomials of degree ≤ 2 -/
theorem diff_exact_d2_three_any (f g : Fld) (ax : Nat) (r : Bool) (h : diff f ax 2 r = .ok g)
    (i : List Nat) (c : Nat) (hc : c < f.nvdim) (hi : i.getD ax 0 < f.mesh.nAt ax) (hv : fldOk f r i = true)
    (hh : f.mesh.cellAt ax ≠ 0) (hlen : fldB f ax r i + fldA f ax r i = 3) (a0 b0 c0 x0 : Rat)
    (hx : ∀ k, k < 3 →
        fldWin f ax r i c k = a0 + b0 * (x0 + (k : Rat) * f.mesh.cellAt ax) + c0 * (x0 + (k : Rat) * f.mesh.cellAt ax) ^ 2) :
    (g.data.get i).getD c 0 = 2 * c0 := by
  rw [diff_refines_window f g ax 2 r h i c hc hi, hv]
  simp only [if_true]
  have hp := fldOk_pos f ax r i hi hv
  rw [hlen] at hp ⊢
  rw [dAt_congr 2 _ _ _ _ _ hx hp]
  unfold dAt
  simp only [show ¬ ((2 : Nat) = 1) by omega, if_false]
  exact d2_exact_three a0 b0 c0 x0 _ hh _


/-! ## `restrict2valid = False`: the whole line is one run, at n-d level, both kinds of axis -/

/-- **With the validity restriction switched off `Field.diff` is `Field.diff` of the same field with every
cell valid, with the operand's validity put back** — as fields, for every axis (open or periodic),
every order, including the refusals. -/
theorem diff_restrict_off_nd (f : Fld) (ax order : Nat) :
    diff f ax order false = (diff (allValid f) ax order true).map fun g => { g with valid := f.valid } := by
  have hd : diffData f ax order false = diffData (allValid f) ax order true := by
    unfold diffData allValid
    simp only
    congr 1
    funext i
    apply tab_congr
    intro c _
    rw [restrict_off, tab_map]
    rfl
  rw [diff_eq, diff_eq]
  by_cases ho : order ≠ 1 ∧ order ≠ 2
  · rw [if_pos ho, if_pos ho]; rfl
  · rw [if_neg ho, if_neg ho]
    by_cases hax : f.mesh.ndim ≤ ax
    · rw [if_pos hax, if_pos (show (allValid f).mesh.ndim ≤ ax from hax)]; rfl
    · rw [if_neg hax, if_neg (show ¬ (allValid f).mesh.ndim ≤ ax from hax), hd]; rfl

/-- **Open axis, restriction off: the whole grid line is ONE run** — the stored value is the run stencil
over all `n` cells of the line at the cell's position, whatever the validity pattern. -/
theorem diff_restrict_off_open_run (f g : Fld) (ax order : Nat) (h : diff f ax order false = .ok g)
    (hopen : periodicAx f ax = false) (i : List Nat) (c : Nat) (hc : c < f.nvdim) (hi : i.getD ax 0 < f.mesh.nAt ax) :
    (g.data.get i).getD c 0
      = dAt order (f.mesh.cellAt ax) (f.mesh.nAt ax) (fun j => (f.data.line ax i j).getD c 0) (i.getD ax 0) := by
  rw [diff_cell f g ax order false h i c hc]
  unfold periodicAx at hopen
  rw [hopen, restrict_off_open, diffRun_getD _ _ _ _ (by rw [List.length_map, lineCells_length]; exact hi),
    List.length_map, lineCells_length]
  apply dAt_congr _ _ _ _ _ _ _ hi
  intro k hk
  unfold lineCells
  rw [tab_map, getD_tab _ _ _ _ hk]

/-- **Periodic axis, restriction off or fully valid line: centred differences with wrap-around**, both
orders, every line length ≥ 1 (`centred`: `(x[j+1] − x[j−1]) / 2h` resp. `(x[j+1] − 2x[j] + x[j−1]) / h²`,
positions modulo `n`). -/
theorem diff_periodic_centred_any (f g : Fld) (ax order : Nat) (r : Bool) (h : diff f ax order r = .ok g)
    (hper : periodicAx f ax = true) (i : List Nat) (c : Nat) (hc : c < f.nvdim) (hi : i.getD ax 0 < f.mesh.nAt ax)
    (hv : r = false ∨ ∀ j, j < f.mesh.nAt ax → f.valid.line ax i j = true) :
    (g.data.get i).getD c 0
      = centred order (f.mesh.cellAt ax) (f.mesh.nAt ax) (fun j => (f.data.line ax i j).getD c 0) (i.getD ax 0) := by
  rw [diff_refines_lineSpec f g ax order r h i c hc hi, hper]
  unfold lineSpec
  rw [← ringSpec_eq_winSpec]
  apply ringSpec_allValid _ _ _ _ _ _ hi
  intro k hk
  unfold effOk
  beta_reduce
  rcases hv with hv | hv
  · rw [hv]; rfl
  · rw [hv k hk]; simp

/-! ## Linearity, components, boundary-condition words: statements about whole fields -/

/-- **`Field.diff` is linear, as an identity between fields**: for `f1`, `f2` on the same mesh with the
same validity and component count, `diff (α·f1 + β·f2) = α·diff f1 + β·diff f2` — same mesh, labels,
unit and validity on both sides, every cell and component of the array — for every axis (open or
periodic), both orders, restricted to valid cells or not, every mask; both sides are refused together. -/
theorem diff_linFld (f1 f2 : Fld) (ax order : Nat) (r : Bool) (α β : Rat)
    (hm : f2.mesh = f1.mesh) (hn : f2.nvdim = f1.nvdim) (hv : f2.valid.get = f1.valid.get) :
    diff (linFld α β f1 f2) ax order r
      = (diff f1 ax order r).bind fun g1 => (diff f2 ax order r).bind fun g2 => .ok (linFld α β g1 g2) := by
  have hd : diffData (linFld α β f1 f2) ax order r
      = (linFld α β { f1 with data := diffData f1 ax order r } { f2 with data := diffData f2 ax order r }).data := by
    unfold diffData linFld
    simp only
    congr 1
    funext i
    apply tab_congr
    intro c hc
    rw [hn, hm, getD_tab _ _ _ _ hc, getD_tab _ _ _ _ hc]
    let cells : List ((Rat × Rat) × Bool) := tab (f1.mesh.nAt ax) fun j =>
      (((f1.data.line ax i j).getD c 0, (f2.data.line ax i j).getD c 0), f1.valid.line ax i j)
    have e1 : (tab (f1.mesh.nAt ax) fun j => ((f1.data.line ax i j).getD c 0, f1.valid.line ax i j))
        = cells.map fun c => (c.1.1, c.2) := by
      simp only [cells, tab_map]
    have e2 : (tab (f1.mesh.nAt ax) fun j => ((f2.data.line ax i j).getD c 0, f2.valid.line ax i j))
        = cells.map fun c => (c.1.2, c.2) := by
      simp only [cells, tab_map, NDA.line, hv]
    have e3 : (tab (f1.mesh.nAt ax) fun j =>
          (((⟨f1.data.shape, fun i => tab f1.nvdim fun c => α * (f1.data.get i).getD c 0 + β * (f2.data.get i).getD c 0⟩ :
              NDA (List Rat)).line ax i j).getD c 0, f1.valid.line ax i j))
        = cells.map fun c => (α * c.1.1 + β * c.1.2, c.2) := by
      simp only [cells, tab_map, NDA.line]
      apply tab_congr
      intro j _
      rw [getD_tab _ _ _ _ hc]
    rw [e1, e2, e3]
    exact line_linear _ r order _ α β cells _
  rw [diff_eq, diff_eq, diff_eq]
  by_cases ho : order ≠ 1 ∧ order ≠ 2
  · rw [if_pos ho, if_pos ho]; rfl
  · rw [if_neg ho, if_neg ho, if_neg ho]
    by_cases hax : f1.mesh.ndim ≤ ax
    · rw [if_pos (show (linFld α β f1 f2).mesh.ndim ≤ ax from hax), if_pos hax]; rfl
    · rw [if_neg (show ¬ (linFld α β f1 f2).mesh.ndim ≤ ax from hax), if_neg hax, if_neg (by rw [hm]; exact hax), hd]
      rfl

/-- **Components are differentiated independently, as an identity between fields**: the derivative of
component `c` taken alone (a scalar field on the same mesh with the same validity) is component `c` of
the derivative of the whole field — every axis of either kind, both orders, restriction on or off. -/
theorem diff_compFld (f : Fld) (ax order : Nat) (r : Bool) (c : Nat) (hc : c < f.nvdim) :
    diff (compFld f c) ax order r = (diff f ax order r).map fun g => compFld g c := by
  have hd : diffData (compFld f c) ax order r
      = (compFld { f with data := diffData f ax order r } c).data := by
    unfold diffData compFld
    simp only
    congr 1
    funext i
    rw [tab_one, getD_tab _ _ _ _ hc]
    simp only [NDA.line, List.getD_cons_zero]
  rw [diff_eq, diff_eq]
  by_cases ho : order ≠ 1 ∧ order ≠ 2
  · rw [if_pos ho, if_pos ho]; rfl
  · rw [if_neg ho, if_neg ho]
    by_cases hax : f.mesh.ndim ≤ ax
    · rw [if_pos (show (compFld f c).mesh.ndim ≤ ax from hax), if_pos hax]; rfl
    · rw [if_neg (show ¬ (compFld f c).mesh.ndim ≤ ax from hax), if_neg hax, hd]; rfl

/-- **The boundary-condition words change nothing in `Field.diff`**: on a mesh with `bc = "neumann"` or
`bc = "dirichlet"` the derivative along EVERY axis — whatever the axis is called — is the derivative
on the same mesh with `bc = ""` (every axis open, no padding of any kind), with the word put back. -/
theorem diff_word_bc (f : Fld) (ax order : Nat) (r : Bool) (hw : f.mesh.bc = "neumann" ∨ f.mesh.bc = "dirichlet") :
    diff f ax order r = (diff (withBc f "") ax order r).map fun g => withBc g f.mesh.bc := by
  have hd : diffData f ax order r = diffData (withBc f "") ax order r := by
    unfold diffData withBc
    simp only
    rw [periodicBc_word _ _ hw, periodicBc_empty]
    rfl
  rw [diff_eq, diff_eq]
  by_cases ho : order ≠ 1 ∧ order ≠ 2
  · rw [if_pos ho, if_pos ho]; rfl
  · rw [if_neg ho, if_neg ho]
    by_cases hax : f.mesh.ndim ≤ ax
    · rw [if_pos hax, if_pos (show (withBc f "").mesh.ndim ≤ ax from hax)]; rfl
    · rw [if_neg hax, if_neg (show ¬ (withBc f "").mesh.ndim ≤ ax from hax), hd]; rfl

/-- … and, more generally, the derivative along an axis does not depend on `bc` at all as long as the
axis is open under both boundary conditions (e.g. `bc` lists other axes only) -/
theorem diff_bc_irrelevant (f : Fld) (ax order : Nat) (r : Bool) (bc : String)
    (h1 : periodicAx f ax = false) (h2 : periodicAx (withBc f bc) ax = false) :
    diff (withBc f bc) ax order r = (diff f ax order r).map fun g => withBc g bc := by
  have hd : diffData (withBc f bc) ax order r = diffData f ax order r := by
    unfold periodicAx at h1 h2
    unfold diffData
    rw [h2, h1]
    rfl
  rw [diff_eq, diff_eq]
  by_cases ho : order ≠ 1 ∧ order ≠ 2
  · rw [if_pos ho, if_pos ho]; rfl
  · rw [if_neg ho, if_neg ho]
    by_cases hax : f.mesh.ndim ≤ ax
    · rw [if_pos hax, if_pos (show (withBc f bc).mesh.ndim ≤ ax from hax)]; rfl
    · rw [if_neg hax, if_neg (show ¬ (withBc f bc).mesh.ndim ≤ ax from hax), hd]; rfl

/-! ## storage kind of the result (repo fix 5136d062) -/

/-- **The result is never stored as integers**: `np.result_type(dtype, float)` is binary64 for every
integer and real floating kind and complex128 for the complex kinds; the rule is idempotent and keeps
real / complex apart.  (The rule is a model definition tied to the code by the `dtype` stream.) -/
theorem resKind_rule (k : Kind) :
    (k.isComplex = false → resKind k = .f64) ∧ (k.isComplex = true → resKind k = .c128) ∧
    (resKind k).isInt = false ∧ (resKind k).isComplex = k.isComplex ∧ resKind (resKind k) = resKind k := by
  cases k <;> simp [resKind, Kind.isComplex, Kind.isInt]


/-! ## Non-vacuity of the second round: periodic axes, masks with holes, several cells -/

/-- `diffRing_refines_ringSpec` on the ring of finding D17 (`[7,1,4,9,2]`, mask `[1,1,1,0,1]`): the window of
cell 4 is the cell itself and ONE cell beyond the seam (so it gets the two-cell stencil, 10), the window of
cell 0 is one cell before the seam and three cells from it on -/
example : ringBefore (okOf exRing) 5 4 = 0 ∧ ringFrom (okOf exRing) 5 4 = 2 ∧
    ringBefore (okOf exRing) 5 0 = 1 ∧ ringFrom (okOf exRing) 5 0 = 3 ∧
    ringSpec 1 (1/2) 5 (valOf exRing) (okOf exRing) 4 = 10 := by
  refine ⟨by decide, by decide, by decide, by decide, ?_⟩
  have := diffRing_refines_ringSpec 1 (1/2) exRing 4 (by decide)
  rw [show exRing.length = 5 from rfl] at this
  rw [← this]
  exact ring_shift_masked_counterexample.1

/-- `ring_cell_off_seam`: in the ring `[1,0,1,1,1,0]` cell 3 sits in a run that touches neither end -/
example : runBefore (okOf [((1 : Rat), true), (2, false), (3, true), (5, true), (8, true), (13, false)]) 3 < 3 ∧
    3 + runFrom (okOf [((1 : Rat), true), (2, false), (3, true), (5, true), (8, true), (13, false)]) 6 3 < 6 := by decide

/-- `ring_shift_iff`, the good side: the mask `[1,1,0,1,0]` has no three cyclically consecutive valid cells
(its ring runs are `3,4→` … `[3]` and `[0,1]`), the mask `[1,1,1,1]` is fully valid -/
example : noThree (fun k => [true, true, false, true, false].getD k false) 5 ∧
    (∀ k, k < 4 → [true, true, true, true].getD k false = true) := by
  refine ⟨?_, by decide⟩
  unfold noThree; decide

/-- `ring_shift_iff`, the bad side: the mask of finding D17 satisfies neither condition, so for it the
derivative does NOT commute with all rotations (for some data) -/
example : ¬ ∀ (cells : List (Rat × Bool)), cells.map (·.2) = [true, true, true, false, true] → ∀ s j, j < 5 →
    (diffRing 1 (1/2) (rotCells cells s)).getD j 0 = (diffRing 1 (1/2) cells).getD ((j + s) % 5) 0 := by
  intro H
  have := (ring_shift_iff 1 (Or.inl rfl) (1/2) (by norm_num) [true, true, true, false, true]).mp H
  revert this
  unfold noThree
  decide

/-- `line_exact_d2_three` on a PERIODIC line with a hole: ring `[1,4,·,·,9,0]` with mask `[1,1,0,0,1,1]`,
restriction on; cell 0 has the window 5,0,1 (one cell beyond the seam, two from the cell on) holding `0,1,4`,
a quadratic: the second derivative there is exactly 2 -/
example : (diffLine' true true 2 1 [((1 : Rat), true), (4, true), (77, false), (78, false), (9, true), (0, true)]).getD 0 0 = 2 := by
  have := line_exact_d2_three true true 1 (by norm_num) [((1 : Rat), true), (4, true), (77, false), (78, false), (9, true), (0, true)]
    0 (by decide) (by decide) (by decide) 0 0 1 0 (by
      intro k hk
      have : k = 0 ∨ k = 1 ∨ k = 2 := by omega
      rcases this with rfl | rfl | rfl <;> (simp [winIdx, winB, ringBefore, runBefore, effOk, okOf, valOf]; try norm_num))
  simpa using this

/-- the periodic 2-d field `exP` (6×2 cells, `bc = "x"`, cell (3,0) invalid, two components): every request with
order 1 or 2 along an existing axis is accepted; axis 0 is periodic, axis 1 open; the window of cell (1,0)
along `x` is `5,0,1,2` (two cells before it — one of them beyond the seam — and two from it on), although its
ring run is `4,5,0,1,2`; cell (3,0) does not count as valid unless the restriction is off, and then its window
is the whole ring padded by one cell on each side -/
example : (∃ g, diff exP 0 1 true = .ok g) ∧ (∃ g, diff exP 1 2 false = .ok g) ∧
    periodicAx exP 0 = true ∧ periodicAx exP 1 = false ∧
    fldB exP 0 true [1, 0] = 2 ∧ fldA exP 0 true [1, 0] = 2 ∧ fldOk exP true [1, 0] = true ∧
    fldOk exP true [3, 0] = false ∧ fldOk exP false [3, 0] = true ∧
    fldB exP 0 false [3, 0] = 4 ∧ fldA exP 0 false [3, 0] = 4 :=
  ⟨(diff_accepts_iff exP 0 1 true).mpr ⟨Or.inl rfl, by decide⟩, (diff_accepts_iff exP 1 2 false).mpr ⟨Or.inr rfl, by decide⟩,
   by decide, by decide, by decide, by decide, by decide, by decide, by decide, by decide, by decide⟩

/-- the hypotheses of `diff_exact_d1_any` are met on the PERIODIC axis of `exP` at cell (1,0), whose window
crosses the seam: component 0 holds `0,1,4,9` along the window `5,0,1,2`, the stored derivative is `2·2 = 4` -/
example : ∃ g, diff exP 0 1 true = .ok g ∧ (g.data.get [1, 0]).getD 0 0 = 4 := by
  obtain ⟨g, hg⟩ := (diff_accepts_iff exP 0 1 true).mpr ⟨Or.inl rfl, by decide⟩
  refine ⟨g, hg, ?_⟩
  have hc : exP.mesh.cellAt 0 = 1 := by
    simp [Mesh.cellAt, Mesh.nAt, exP, Region.edge, Region.hi, Region.lo]
  have hB : fldB exP 0 true [1, 0] = 2 := by decide
  have hA : fldA exP 0 true [1, 0] = 2 := by decide
  have := diff_exact_d1_any exP g 0 true hg [1, 0] 0 (by decide) (by decide) (by decide) (by rw [hc]; norm_num)
    (by rw [hB, hA]; decide) 0 0 1 0 (by
      intro k hk
      rw [hB, hA] at hk
      rw [hc]
      have : k = 0 ∨ k = 1 ∨ k = 2 ∨ k = 3 := by omega
      have hI : ∀ k, winIdx (periodicAx exP 0) (effOk true fun j => exP.valid.line 0 [1, 0] j) (exP.mesh.nAt 0) ([1, 0].getD 0 0) k
          = (1 + 6 - 2 + k) % 6 := by
        intro k
        unfold winIdx
        rw [show winB (periodicAx exP 0) (effOk true fun j => exP.valid.line 0 [1, 0] j) (exP.mesh.nAt 0) ([1, 0].getD 0 0) = 2 from hB]
        rfl
      unfold fldWin
      rw [hI]
      rcases this with rfl | rfl | rfl | rfl <;> simp [exP, NDA.line, setAt])
  rw [this, hc, hB]; norm_num

/-- `diffDir`: on `exF` (axes `x`, `y`) the name `y` is axis 1; an unknown name with an admissible order is a
`ValueError`; an inadmissible order is a `NotImplementedError` whatever the name -/
example : diffDir exF "y" 2 true = diff exF 1 2 true ∧ diffDir exF "q" 1 true = .error .value ∧
    diffDir exF "q" 3 true = .error .notImpl ∧ diffDir exF "x" 0 false = .error .notImpl :=
  ⟨diffDir_eq_diff exF "y" 1 2 true (by decide),
   (diffDir_rejects_iff exF "q" 1 true .value (by decide)).mpr (Or.inr ⟨rfl, Or.inl rfl, by decide⟩),
   (diffDir_rejects_iff exF "q" 3 true .notImpl (by decide)).mpr (Or.inl ⟨rfl, by decide⟩),
   (diffDir_rejects_iff exF "x" 0 false .notImpl (by decide)).mpr (Or.inl ⟨rfl, by decide⟩)⟩

/-- the hypotheses of `diff_linFld` (same mesh, component count, validity) are met by `exF`, `exG`; those of
`diff_compFld` by component 1 of `exP`; those of `diff_word_bc` by `exFN`; those of `diff_bc_irrelevant` by
axis `y` of `exP` with `bc = "x"` replaced by `""` -/
example : exG.mesh = exF.mesh ∧ exG.nvdim = exF.nvdim ∧ exG.valid.get = exF.valid.get ∧ 1 < exP.nvdim ∧
    (exFN.mesh.bc = "neumann" ∨ exFN.mesh.bc = "dirichlet") ∧
    periodicAx exP 1 = false ∧ periodicAx (withBc exP "") 1 = false :=
  ⟨rfl, rfl, rfl, by decide, Or.inl rfl, by decide, by decide⟩
/-! ## Periodic lines: centred differences wherever both neighbours are valid; the integer order -/

/-- **On a periodic line every cell whose two ring neighbours are valid gets the centred wrap-around
difference — for EVERY mask**, also next to the seam and inside runs that cross it: the one-cell wrap
padding always supplies the neighbour.  (The deviation of finding D17 is confined to the END cells of a
run that is cut at the seam.) -/
theorem ring_centred_at (o : Nat) (h : Rat) (cells : List (Rat × Bool)) (j : Nat) (hj : j < cells.length)
    (hv : okOf cells j = true) (hs : okOf cells ((j + 1) % cells.length) = true)
    (hp : okOf cells ((j + cells.length - 1) % cells.length) = true) :
    (diffRing o h cells).getD j 0 = centred o h cells.length (valOf cells) j := by
  rw [diffRing_getD_ringSpec o h cells j hj]
  generalize cells.length = L at *
  generalize okOf cells = v at *
  generalize valOf cells = x at *
  have hB : 1 ≤ ringBefore v L j := by
    unfold ringBefore
    cases j with
    | zero =>
      rw [Nat.zero_add, Nat.mod_eq_of_lt (by omega)] at hp
      simp [runBefore, hp]
    | succ j' =>
      rw [show j' + 1 + L - 1 = j' + L by omega, Nat.add_mod_right, Nat.mod_eq_of_lt (by omega)] at hp
      simp only [runBefore, hp, if_true]
      split
      · omega
      · omega
  have hA : 2 ≤ ringFrom v L j := by
    unfold ringFrom runFrom
    by_cases hlt : j + 1 < L
    · rw [Nat.mod_eq_of_lt hlt] at hs
      obtain ⟨f, hf⟩ : ∃ f, L - j = f + 1 + 1 := ⟨L - j - 2, by omega⟩
      rw [hf]
      simp only [runFromAux, hv, hs, if_true]
      split <;> omega
    · have he : j + 1 = L := by omega
      rw [he, Nat.mod_self] at hs
      rw [show L - j = 1 by omega]
      simp only [runFromAux, hv, if_true, hs]
      rw [if_pos (by omega)]
  have hBle := ringBefore_le v L j
  unfold ringSpec
  rw [if_pos hv, dAt_interior o h _ _ _ (by omega) hB (by omega)]
  unfold centred
  have a1 : (j + L - ringBefore v L j + (ringBefore v L j + 1)) % L = (j + 1) % L := by
    rw [show j + L - ringBefore v L j + (ringBefore v L j + 1) = (j + 1) + L by omega, Nat.add_mod_right]
  have a2 : (j + L - ringBefore v L j + ringBefore v L j) % L = j % L := by
    rw [show j + L - ringBefore v L j + ringBefore v L j = j + L by omega, Nat.add_mod_right]
  have a3 : (j + L - ringBefore v L j + (ringBefore v L j - 1)) % L = (j + L - 1) % L := by
    congr 1; omega
  simp only [a1, a2, a3]

/-- … and at n-d field level: along a periodic axis, whatever the mask and the setting of the restriction,
a cell that counts as valid together with its two ring neighbours along the axis gets the centred
wrap-around difference of its grid line (both orders, every line length ≥ 1). -/
theorem diff_periodic_centred_at (f g : Fld) (ax order : Nat) (r : Bool) (h : diff f ax order r = .ok g)
    (hper : periodicAx f ax = true) (i : List Nat) (c : Nat) (hc : c < f.nvdim) (hi : i.getD ax 0 < f.mesh.nAt ax)
    (hv : r = false ∨ (f.valid.line ax i (i.getD ax 0) = true ∧ f.valid.line ax i ((i.getD ax 0 + 1) % f.mesh.nAt ax) = true
      ∧ f.valid.line ax i ((i.getD ax 0 + f.mesh.nAt ax - 1) % f.mesh.nAt ax) = true)) :
    (g.data.get i).getD c 0
      = centred order (f.mesh.cellAt ax) (f.mesh.nAt ax) (fun j => (f.data.line ax i j).getD c 0) (i.getD ax 0) := by
  rw [diff_cell f g ax order r h i c hc]
  unfold periodicAx at hper
  rw [hper]
  have hn : 0 < f.mesh.nAt ax := by omega
  have hcentred : ∀ cells' : List (Rat × Bool), cells'.length = f.mesh.nAt ax →
      (∀ k, k < f.mesh.nAt ax → valOf cells' k = (f.data.line ax i k).getD c 0) →
      centred order (f.mesh.cellAt ax) cells'.length (valOf cells') (i.getD ax 0)
        = centred order (f.mesh.cellAt ax) (f.mesh.nAt ax) (fun j => (f.data.line ax i j).getD c 0) (i.getD ax 0) := by
    intro cells' hl hval
    unfold centred
    rw [hl, hval _ (Nat.mod_lt _ hn), hval _ (Nat.mod_lt _ hn), hval _ (Nat.mod_lt _ hn)]
  unfold diffLine'
  simp only [if_true]
  change (diffRing order (f.mesh.cellAt ax) (if r = true then lineCells f ax i c else (lineCells f ax i c).map fun c => (c.1, true))).getD
      (i.getD ax 0) 0 = _
  have hl := lineCells_length f ax i c
  cases r with
  | false =>
    simp only [Bool.false_eq_true, if_false]
    have hl' : ((lineCells f ax i c).map fun c => (c.1, true)).length = f.mesh.nAt ax := by rw [List.length_map, hl]
    rw [ring_centred_at _ _ _ _ (by rw [hl']; exact hi) (okOf_map_allTrue _ _ (by rw [hl]; exact hi))
      (by rw [hl']; exact okOf_map_allTrue _ _ (by rw [hl]; exact Nat.mod_lt _ hn))
      (by rw [hl']; exact okOf_map_allTrue _ _ (by rw [hl]; exact Nat.mod_lt _ hn))]
    exact hcentred _ hl' (fun k hk => by rw [valOf_map_allTrue, valOf_lineCells f ax i c k hk])
  | true =>
    simp only [if_true]
    rcases hv with hv | ⟨h1, h2, h3⟩
    · exact absurd hv (by simp)
    · rw [ring_centred_at _ _ _ _ (by rw [hl]; exact hi) (by rw [okOf_lineCells f ax i c _ hi]; exact h1)
        (by rw [hl, okOf_lineCells f ax i c _ (Nat.mod_lt _ hn)]; exact h2)
        (by rw [hl, okOf_lineCells f ax i c _ (Nat.mod_lt _ hn)]; exact h3)]
      exact hcentred _ hl (fun k hk => valOf_lineCells f ax i c k hk)

/-- the order as the Python caller passes it (any integer): 1 and 2 are the two admissible calls, every
other integer — negative ones too — is a `NotImplementedError` before the name is even looked at -/
theorem diffDirI_spec (f : Fld) (dir : String) (order : Int) (r : Bool) :
    diffDirI f dir order r
      = if order = 1 then diffDir f dir 1 r else if order = 2 then diffDir f dir 2 r else .error .notImpl := by
  unfold diffDirI
  by_cases h1 : order = 1
  · subst h1; simp
  · by_cases h2 : order = 2
    · subst h2; simp
    · rw [if_pos ⟨h1, h2⟩, if_neg h1, if_neg h2]

/-- `ring_centred_at` on the ring of finding D17 (`[7,1,4,9,2]`, mask `[1,1,1,0,1]`): cell 0 sits next to the
seam inside the run `4,0,1,2` that crosses it; both its ring neighbours (4 and 1) are valid -/
example : okOf exRing 0 = true ∧ okOf exRing ((0 + 1) % exRing.length) = true ∧
    okOf exRing ((0 + exRing.length - 1) % exRing.length) = true ∧
    centred 1 (1/2) exRing.length (valOf exRing) 0 = -1 := by
  refine ⟨by decide, by decide, by decide, ?_⟩
  simp [centred, exRing, valOf]
  norm_num


/-- `ring_short_run_zero` / `line_short_run_zero`: in the periodic line with mask `[1,0,1,1,0]` cell 0 is a run of its
own also across the seam (the last cell is invalid): its window has one cell -/
example : ringBefore (okOf [((3 : Rat), true), (1, false), (4, true), (1, true), (5, false)]) 5 0
    + ringFrom (okOf [((3 : Rat), true), (1, false), (4, true), (1, true), (5, false)]) 5 0 ≤ 1 := by decide

/-- `diff_short_run_zero_any` / `diff_invalid_zero_any` on `exF` (5×2 cells, cell (3,1) invalid): along `x` the cell (4,1) is
a run of one cell, and (3,1) does not count as valid when the restriction is on -/
example : fldB exF 0 true [4, 1] + fldA exF 0 true [4, 1] ≤ 1 ∧ fldOk exF true [3, 1] = false ∧
    [4, 1].getD 0 0 < exF.mesh.nAt 0 ∧ ∃ g, diff exF 0 1 true = .ok g :=
  ⟨by decide, by decide, by decide, (diff_accepts_iff exF 0 1 true).mpr ⟨Or.inl rfl, by decide⟩⟩

/-- `diff_periodic_centred_at` on `exP` (periodic along `x`, cell (3,0) invalid): the cell (0,0) next to the seam and its
two ring neighbours (5,0) and (1,0) are valid although the line has a hole -/
example : periodicAx exP 0 = true ∧ exP.valid.line 0 [0, 0] ([0, 0].getD 0 0) = true ∧
    exP.valid.line 0 [0, 0] (([0, 0].getD 0 0 + 1) % exP.mesh.nAt 0) = true ∧
    exP.valid.line 0 [0, 0] (([0, 0].getD 0 0 + exP.mesh.nAt 0 - 1) % exP.mesh.nAt 0) = true ∧
    exP.valid.line 0 [0, 0] 3 = false := by decide

/-- the mesh and validity hypotheses of `diff_locality_any` / `diff_linFld` are met by two DIFFERENT fields: `exF` and `exG`
share mesh and validity along every grid line and hold different values -/
example : exF.mesh = exG.mesh ∧ (∀ j, j < exF.mesh.nAt 1 → exF.valid.line 1 [0, 0] j = exG.valid.line 1 [0, 0] j) ∧
    exF.data.get [0, 1] ≠ exG.data.get [0, 1] := by
  refine ⟨rfl, fun j _ => rfl, ?_⟩
  simp [exF, exG]


/-! ## The window of the code against the ring run of the property text -/

/-- **Finding D17 in one line: the window `Field.diff` differentiates around a cell of a periodic line is the
cell's RING run (counted cyclically, wherever the seam is) cut ONE cell beyond the seam on each side** — for every
mask, every line length, every position. -/
theorem ring_window_is_cut_run (v : Nat → Bool) (L j : Nat) (hj : j < L) :
    ringBefore v L j = min (cycBefore v L j) (j + 1) ∧ ringFrom v L j = min (cycFrom v L j) (L - j + 1) :=
  ⟨ringBefore_eq_min v L j hj, ringFrom_eq_min v L j hj⟩

/-- **Where the seam does not cut the ring run of a cell** (the run extends at most one cell beyond the seam on
each side) **the code computes what the property asks for**: the run stencil over the cell's whole ring run
(`idealRingSpec`, a description that does not mention the stored line at all). -/
theorem ring_ideal_of_uncut (o : Nat) (h : Rat) (cells : List (Rat × Bool)) (j : Nat) (hj : j < cells.length)
    (hb : cycBefore (okOf cells) cells.length j ≤ j + 1) (ha : cycFrom (okOf cells) cells.length j ≤ cells.length - j + 1) :
    (diffRing o h cells).getD j 0 = idealRingSpec o h cells.length (valOf cells) (okOf cells) j := by
  rw [diffRing_getD_ringSpec o h cells j hj]
  exact ringSpec_eq_ideal o h _ _ _ j hj hb ha

/-- **Shift-equivariance cell by cell, every mask**: the derivative of the ring stored from cell `s` on agrees at
position `j` with the derivative of the ring as given at cell `(j + s) mod L` whenever the ring run of that cell
is cut by neither seam (it extends at most one cell beyond either).  (`ring_shift_off_seam`,
`ring_shift_off_seam_one` and `ring_rot_no_three` are instances; for the cells of a run that IS cut the statement
fails, `ring_shift_iff`.) -/
theorem ring_rot_uncut (o : Nat) (h : Rat) (cells : List (Rat × Bool)) (s j : Nat) (hj : j < cells.length)
    (hb : cycBefore (okOf cells) cells.length ((j + s) % cells.length) ≤ min (j + 1) ((j + s) % cells.length + 1))
    (ha : cycFrom (okOf cells) cells.length ((j + s) % cells.length)
        ≤ min (cells.length - j + 1) (cells.length - (j + s) % cells.length + 1)) :
    (diffRing o h (rotCells cells s)).getD j 0 = (diffRing o h cells).getD ((j + s) % cells.length) 0 := by
  have hL : 0 < cells.length := by omega
  have hJ : (j + s) % cells.length < cells.length := Nat.mod_lt _ hL
  rw [diffRing_rot_getD o h cells s j hj,
    ringSpec_eq_ideal o h _ _ _ j hj (by rw [cycBefore_rot _ _ _ _ hL]; omega) (by rw [cycFrom_rot]; omega),
    idealRingSpec_rot o h _ (valOf cells) (okOf cells) s j hj (by omega),
    diffRing_getD_ringSpec o h cells _ hJ, ringSpec_eq_ideal o h _ _ _ _ hJ (by omega) (by omega)]

/-- on the ring of finding D17 (mask `[1,1,1,0,1]`) the ring run of cell 4 is `4,0,1,2`: nothing before it, four
cells from it on — more than the `5 - 4 + 1 = 2` the stored line lets through, so it IS cut; cell 1 of the same
run has two cells before it (`0` and, beyond the seam, `4`) and two from it on, and is not cut -/
example : cycBefore (okOf exRing) 5 4 = 0 ∧ cycFrom (okOf exRing) 5 4 = 4 ∧ ringFrom (okOf exRing) 5 4 = 2 ∧
    cycBefore (okOf exRing) 5 1 = 2 ∧ cycFrom (okOf exRing) 5 1 = 2 ∧
    cycBefore (okOf exRing) 5 1 ≤ 1 + 1 ∧ cycFrom (okOf exRing) 5 1 ≤ 5 - 1 + 1 := by decide

end DFV.C04
