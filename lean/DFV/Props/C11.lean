import DFV.Lemmas.Tab
import DFV.Model.C11
namespace DFV.C11
open DFV

/-- placeholder while the harness is brought up -/
theorem fftfreq_length (n : Nat) (d : Rat) : (fftfreq n d).length = n := by
  simp [fftfreq]

end DFV.C11
