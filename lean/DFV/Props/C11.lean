import DFV.Lemmas.C11Trip
import DFV.Lemmas.C11Complex
import DFV.Lemmas.C11Ex
import DFV.Lemmas.C11More
import DFV.Lemmas.C11Real
import DFV.Lemmas.C11PolyC
import DFV.Lemmas.C11Irf
import DFV.Lemmas.C11Back
import DFV.Lemmas.C11Trans
import DFV.Lemmas.C11Perm
import DFV.Lemmas.C11Exp
import DFV.Lemmas.C11NatNP
import DFV.Lemmas.C11Ex2
import DFV.Lemmas.C11Half
/-!
# C11 — field FFTs are the discrete Fourier transform at the k-mesh's frequencies

Property theorems only (helper lemmas and the spec-level definitions `kMesh`, `originMesh`,
`sumBox`, `phase`, `phaseR`, `ninvProd`, `lastShift`, `mirror`, `IsRoot`, `Roots`, `Root.swap`, `IsConj`, `CFInv`,
`IsHom`, `Root.map`, `CF.map`, `mapM`, `Ev`, `PrimRoot(s)`, `Ev.ConjOK`, `cEv`, and for part (d) `rMesh`, `KCanonical`,
`hermExtS`, `HermPlanes`, `rollIdx`, `rollArr`, `kr`, `krR`, `ifftshiftL` live in `DFV/Lemmas/C11*.lean`; `mirrorR`,
`symPlanes`, `irfftnNP` are model definitions).

Part (a) is exact arithmetic over `Rat` about the model of `Mesh.fftn` / `Mesh.ifftn`
(`DFV/Model/C11.lean`), for every number of dimensions, every region, every mix of even, odd and
single-cell axes.  Part (b) is about the model of `Field.fftn / ifftn / rfftn / irfftn` over an
arbitrary commutative ring `R`; `exp(-2πi/n)` enters as a per-axis parameter `ρ : Root R` whose
properties (`IsRoot n ρ`: `w^n = 1`, `w·wi = 1`, `ninv·n = 1`, `Σ_j w^(jk) = 0` for `0<k<n`) are
explicit hypotheses — satisfied by `exp(-2πi/n) ∈ ℂ` for every `n ≥ 1` (`complex_roots_exist`).
Part (c) ties the driver to part (b): the driver runs the generic model over formal combinations
of root-of-unity monomials (`Poly`); evaluation `Ev.eval` of such combinations into any
commutative ring preserves `0 1 + *` for arbitrary `ζ_a`, respects `Poly.conj` and the printed
dense form once `ζ_a^(n_a) = 1`, and the whole code-shaped model commutes with it — so what the
harness computes from the driver's output is the value of the model over `R`, to which the
theorems of part (b) apply.  Part (d) (second round): shifts as permutations; acceptance of the
inverse transforms as equivalences and their results on k-space meshes / fields that did not come
from a forward transform; forward ∘ inverse at field level; `irfftn` as one sum (full box and
stored half spectrum) and numpy's convention on arbitrary half spectra (`irfftnNP`, the model the
driver runs); shift theorem; the value theorems over ℂ with the phase written `exp(∓2πi k·r)`.
-/
namespace DFV.C11
open DFV

/-! ## (a) the k-mesh -/

/-- The shifted DFT sample frequencies of `n` samples of spacing `d`: entry `j` of
`fftshift(fftfreq(n, d))` is `(j - ⌊n/2⌋)/(n·d)`, for every `n` (even, odd, 1). -/
theorem fftfreq_shifted (n : Nat) (d : Rat) (j : Nat) (hj : j < n) :
    (fftshiftL (fftfreq n d)).getD j 0 = ((j : Rat) - ((n / 2 : Nat) : Rat)) * (1 / ((n : Rat) * d)) :=
  fftshift_fftfreq n d j hj

/-- `Mesh.fftn` succeeds on every valid mesh (any dimension, any counts, any position), for
both transform kinds, and returns a valid mesh without boundary conditions or subregions. -/
theorem fftn_mesh (m : Mesh) (rfft : Bool) (hm : m.Inv) :
    meshFftn m rfft = .ok (kMesh m rfft) ∧ (kMesh m rfft).Inv ∧ (kMesh m rfft).ndim = m.ndim ∧
      (kMesh m rfft).bc = "" ∧ (kMesh m rfft).subs = [] :=
  ⟨meshFftn_ok m rfft hm, kMesh_inv m rfft hm, kMesh_ndim m rfft, rfl, rfl⟩

/-- Reciprocal names and units: dimension `d` becomes `k_d`, unit `u` becomes `(u)$^{-1}$`; the
tolerance factor is kept. -/
theorem kmesh_names_units (m : Mesh) (rfft : Bool) (k : Mesh) (h : meshFftn m rfft = .ok k) (hm : m.Inv) :
    k.region.dims = m.region.dims.map (fun d => "k_" ++ d) ∧
    k.region.units = m.region.units.map (fun u => "(" ++ u ++ ")$^{-1}$") ∧
    k.region.tol = m.region.tol := by
  rw [meshFftn_ok m rfft hm] at h
  injection h with h
  subst h
  exact ⟨rfl, rfl, rfl⟩

/-- The k-cells have size `1/(n·cell)` on every axis, for both transform kinds. -/
theorem kcell_size (m : Mesh) (rfft : Bool) (k : Mesh) (h : meshFftn m rfft = .ok k) (hm : m.Inv)
    (a : Nat) (ha : a < m.ndim) : k.cellAt a = 1 / ((m.nAt a : Rat) * m.cellAt a) := by
  rw [meshFftn_ok m rfft hm] at h
  injection h with h
  subst h
  exact kMesh_cellAt m rfft hm a ha

/-- **k-cell centres, full transform.**  Along every axis — even, odd or single-cell — the
k-mesh has as many cells as the mesh, and the centre of k-cell `j` is exactly entry `j` of
`fftshift(fftfreq(n, cell))`. -/
theorem kcell_centres (m : Mesh) (k : Mesh) (h : meshFftn m false = .ok k) (hm : m.Inv)
    (a : Nat) (ha : a < m.ndim) :
    k.nAt a = m.nAt a ∧
    ∀ j, j < m.nAt a → k.centreAx a (j : Int) = (fftshiftL (fftfreq (m.nAt a) (m.cellAt a))).getD j 0 := by
  rw [meshFftn_ok m false hm] at h
  injection h with h
  subst h
  refine ⟨by rw [kMesh_nAt m false a ha, kN_full m false a (by simp)], ?_⟩
  intro j hj
  rw [fftshift_fftfreq _ _ j hj, kcentre_full m false hm a ha (by simp)]
  simp only [Int.cast_natCast]

/-- The same as a closed formula, for every integer index: `(j - ⌊n/2⌋)/(n·cell)`; in
particular the zero frequency sits at index `⌊n/2⌋` and a single-cell axis is centred at 0. -/
theorem kcell_centres_formula (m : Mesh) (k : Mesh) (h : meshFftn m false = .ok k) (hm : m.Inv)
    (a : Nat) (ha : a < m.ndim) (j : Int) :
    k.centreAx a j = ((j : Rat) - ((m.nAt a / 2 : Nat) : Rat)) / ((m.nAt a : Rat) * m.cellAt a) := by
  rw [meshFftn_ok m false hm] at h
  injection h with h
  subst h
  rw [kcentre_full m false hm a ha (by simp)]
  ring

/-- single-cell axes are centred at frequency 0 (repaired defect D16) -/
theorem kcell_single_zero (m : Mesh) (k : Mesh) (h : meshFftn m false = .ok k) (hm : m.Inv)
    (a : Nat) (ha : a < m.ndim) (h1 : m.nAt a = 1) : k.nAt a = 1 ∧ k.centreAx a 0 = 0 := by
  refine ⟨by rw [(kcell_centres m k h hm a ha).1, h1], ?_⟩
  rw [kcell_centres_formula m k h hm a ha 0, h1]
  simp

/-- the zero frequency is the centre of k-cell `⌊n/2⌋` on every axis -/
theorem kcell_zero_frequency (m : Mesh) (k : Mesh) (h : meshFftn m false = .ok k) (hm : m.Inv)
    (a : Nat) (ha : a < m.ndim) : k.centreAx a ((m.nAt a / 2 : Nat) : Int) = 0 := by
  rw [kcell_centres_formula m k h hm a ha]
  simp only [Int.cast_natCast, sub_self, zero_div]

/-- **k-cell centres, real transform.**  The last axis has `⌊n/2⌋ + 1` cells whose centres
are the non-negative frequencies `rfftfreq(n, cell)` (one cell centred at 0 when `n = 1`); all
other axes are as for the full transform. -/
theorem kcell_centres_rfft (m : Mesh) (k : Mesh) (h : meshFftn m true = .ok k) (hm : m.Inv) :
    k.nAt (m.ndim - 1) = m.nAt (m.ndim - 1) / 2 + 1 ∧
    (∀ j, j < m.nAt (m.ndim - 1) / 2 + 1 →
      k.centreAx (m.ndim - 1) (j : Int)
        = (rfftfreq (m.nAt (m.ndim - 1)) (m.cellAt (m.ndim - 1))).getD j 0) ∧
    (∀ a, a < m.ndim - 1 → k.nAt a = m.nAt a ∧
      ∀ j, j < m.nAt a → k.centreAx a (j : Int) = (fftshiftL (fftfreq (m.nAt a) (m.cellAt a))).getD j 0) := by
  rw [meshFftn_ok m true hm] at h
  injection h with h
  subst h
  have hl := last_lt m hm
  refine ⟨by rw [kMesh_nAt m true _ hl, kN_half m true _ (flag_last m)], ?_, ?_⟩
  · intro j hj
    rw [kcentre_half m true hm _ hl (flag_last m), rfftfreq, getD_tab _ _ _ _ hj]
    simp only [Int.cast_natCast]
  · intro a ha
    refine ⟨by rw [kMesh_nAt m true a (by omega), kN_full m true a (flag_notlast m a ha)], ?_⟩
    intro j hj
    rw [fftshift_fftfreq _ _ j hj, kcentre_full m true hm a (by omega) (flag_notlast m a ha)]
    simp only [Int.cast_natCast]

/-- The phase of the transform is `k·r`: the centre of k-cell `j` times the position `r·cell`
of real-space cell `r`, counted from the first cell, is `(j - ⌊n/2⌋)·r / n` — so that
`exp(-2πi k·r) = exp(-2πi/n)^((j - ⌊n/2⌋)·r)`, the factor `phase` of `fftn_is_dft`. -/
theorem phase_is_k_dot_r (m : Mesh) (k : Mesh) (h : meshFftn m false = .ok k) (hm : m.Inv)
    (a : Nat) (ha : a < m.ndim) (j r : Nat) :
    k.centreAx a (j : Int) * ((r : Rat) * m.cellAt a)
      = (((j : Rat) - ((m.nAt a / 2 : Nat) : Rat)) * (r : Rat)) / (m.nAt a : Rat) := by
  rw [kcell_centres_formula m k h hm a ha]
  have hn0 : (m.nAt a : Rat) ≠ 0 := ne_of_gt (nat_cast_pos' _ (hm.2.2 a ha))
  have hd0 : m.cellAt a ≠ 0 := ne_of_gt (cell_pos m hm a ha)
  simp only [Int.cast_natCast]
  generalize ((m.nAt a / 2 : Nat) : Rat) = H
  field_simp

/-- **Mesh-level round trip.**  `mesh.fftn().ifftn()` succeeds and is the mesh of the original
counts, cell sizes, dimension names and units, centred at the origin. -/
theorem ifftn_fftn_mesh (m : Mesh) (hm : m.Inv) :
    ∃ k b, meshFftn m false = .ok k ∧ meshIfftn k false none = .ok b ∧
      b.n = m.n ∧ b.region.dims = m.region.dims ∧ b.region.units = m.region.units ∧
      b.region.tol = m.region.tol ∧
      ∀ a, a < m.ndim → b.cellAt a = m.cellAt a ∧ b.region.lo a + b.region.hi a = 0 ∧
        b.region.hi a - b.region.lo a = m.region.edge a :=
  ⟨kMesh m false, originMesh m m.n, meshFftn_ok m false hm, mesh_roundtrip_full m hm, rfl, rfl, rfl, rfl,
    fun a ha => ⟨originMesh_cellAt m a ha, originMesh_centre m m.n a ha, by
      simp only [originMesh, Region.lo, Region.hi]
      rw [getD_tab _ _ _ _ ha, getD_tab _ _ _ _ ha]; ring⟩⟩

/-- The same for the real transform when the original counts are supplied:
`mesh.fftn(rfft=True).ifftn(rfft=True, shape=mesh.n)` recovers even and odd last counts alike. -/
theorem irfftn_rfftn_mesh (m : Mesh) (hm : m.Inv) :
    ∃ k b, meshFftn m true = .ok k ∧ meshIfftn k true (some m.n) = .ok b ∧
      b.n = m.n ∧ b.region.dims = m.region.dims ∧ b.region.units = m.region.units ∧
      ∀ a, a < m.ndim → b.cellAt a = m.cellAt a ∧ b.region.lo a + b.region.hi a = 0 :=
  ⟨kMesh m true, originMesh m m.n, meshFftn_ok m true hm, mesh_roundtrip_half_shape m hm, rfl, rfl, rfl,
    fun a ha => ⟨originMesh_cellAt m a ha, originMesh_centre m m.n a ha⟩⟩

/-- Without the counts the real inverse assumes an even last count: it recovers the mesh when
the last count is even or 1, and returns `n_last - 1` cells along the last axis when it is odd
and larger (which is why `shape` is needed to recover odd sizes); the extent is the original
one in every case. -/
theorem irfftn_mesh_default (m : Mesh) (hm : m.Inv) :
    ∃ k b, meshFftn m true = .ok k ∧ meshIfftn k true none = .ok b ∧
      b.n = (if m.nAt (m.ndim - 1) = 1 then m.n else setAt m.n (m.ndim - 1) (m.nAt (m.ndim - 1) / 2 * 2)) ∧
      (m.nAt (m.ndim - 1) % 2 = 0 → b.n = m.n) ∧
      ∀ a, a < m.ndim → b.region.lo a + b.region.hi a = 0 ∧ b.region.hi a - b.region.lo a = m.region.edge a := by
  refine ⟨kMesh m true, _, meshFftn_ok m true hm, mesh_roundtrip_half_none m hm, rfl, ?_, ?_⟩
  · intro heven
    show (if m.nAt (m.ndim - 1) = 1 then m.n else setAt m.n (m.ndim - 1) (m.nAt (m.ndim - 1) / 2 * 2)) = m.n
    have h1 : ¬ m.nAt (m.ndim - 1) = 1 := by omega
    rw [if_neg h1]
    have e : m.nAt (m.ndim - 1) / 2 * 2 = m.nAt (m.ndim - 1) := by omega
    rw [e]
    exact setAt_getD_self m.n (m.ndim - 1)
  · intro a ha
    refine ⟨originMesh_centre m _ a ha, ?_⟩
    simp only [originMesh, Region.lo, Region.hi]
    rw [getD_tab _ _ _ _ ha, getD_tab _ _ _ _ ha]; ring

/-- Shapes that do not match the k-mesh are rejected: wrong number of entries, a leading
entry different from the k-mesh's count, or a last entry `s` with `s // 2 + 1 ≠ n_last`. -/
theorem ifftn_shape_checked (k : Mesh) (rfft : Bool) (s : List Nat)
    (h : s.length ≠ k.ndim ∨ (∃ a, a < k.ndim - 1 ∧ s.getD a 0 ≠ k.nAt a) ∨
         s.getD (k.ndim - 1) 0 / 2 + 1 ≠ k.nAt (k.ndim - 1)) :
    meshIfftn k rfft (some s) = .error .value :=
  meshIfftn_err_of_shape k rfft s .value (ifftShape_rejects k rfft s h)

/-- **Extent of the k-mesh**: along every axis the full transform's k-mesh spans exactly one
sampling period `1/cell` (its `n` cells of size `1/(n·cell)`); the last axis of the real
transform spans `(⌊n/2⌋+1)/(n·cell)`. -/
theorem kmesh_extent (m : Mesh) (hm : m.Inv) (a : Nat) (ha : a < m.ndim) :
    (∀ k, meshFftn m false = .ok k → k.region.edge a = 1 / m.cellAt a) ∧
    (∀ k, meshFftn m true = .ok k → a = m.ndim - 1 →
      k.region.edge a = ((m.nAt a / 2 + 1 : Nat) : Rat) / ((m.nAt a : Rat) * m.cellAt a)) := by
  have hn0 : (m.nAt a : Rat) ≠ 0 := ne_of_gt (nat_cast_pos' _ (hm.2.2 a ha))
  have hd0 : m.cellAt a ≠ 0 := ne_of_gt (cell_pos m hm a ha)
  refine ⟨?_, ?_⟩
  · intro k h
    have h1 := kcell_size m false k h hm a ha
    have h2 := (kcell_centres m k h hm a ha).1
    unfold Mesh.cellAt at h1
    rw [h2] at h1
    have : k.region.edge a = (k.region.edge a / (m.nAt a : Rat)) * (m.nAt a : Rat) := by field_simp
    rw [this, h1]
    unfold Mesh.cellAt
    field_simp
  · intro k h hl
    subst hl
    have h1 := kcell_size m true k h hm _ ha
    have h2 := (kcell_centres_rfft m k h hm).1
    have hk0 : ((m.nAt (m.ndim - 1) / 2 + 1 : Nat) : Rat) ≠ 0 := by
      have : (0 : Rat) < ((m.nAt (m.ndim - 1) / 2 + 1 : Nat) : Rat) := nat_cast_pos' _ (Nat.succ_pos _)
      exact ne_of_gt this
    unfold Mesh.cellAt at h1
    rw [h2] at h1
    have : k.region.edge (m.ndim - 1)
        = (k.region.edge (m.ndim - 1) / ((m.nAt (m.ndim - 1) / 2 + 1 : Nat) : Rat)) *
            ((m.nAt (m.ndim - 1) / 2 + 1 : Nat) : Rat) := by field_simp
    rw [this, h1]
    unfold Mesh.cellAt
    field_simp

/-! ## (b) the transforms -/

section ring
variable {R : Type} [CommRing R]

/-- `fftshift` and `ifftshift` (index rotations by `⌊n/2⌋` and `⌈n/2⌉`) are mutually inverse
on every index of every shape — in particular for odd counts, where they differ. -/
theorem shift_ishift_inverse (ns m : List Nat) (h : inRange ns m = true) :
    fshift ns (ishift ns m) = m ∧ ishift ns (fshift ns m) = m :=
  ⟨fshift_ishift ns m h, ishift_fshift ns m h⟩

/-- `Field.fftn` succeeds on every valid field; the result lives on `mesh.fftn()`, keeps the
component count and the unit, and holds `fftshift(fftn(array))`. -/
theorem fftn_total (ρs : List (Root R)) (f : CF R) (hf : CFInv f) :
    ∃ g, fftn ρs f = .ok g ∧ meshFftn f.mesh false = .ok g.mesh ∧ g.nvdim = f.nvdim ∧ g.unit = f.unit ∧
      g.data = fftnArr ρs f.nvdim f.data :=
  ⟨_, fftn_ok ρs f hf, meshFftn_ok f.mesh false hf.mesh, rfl, rfl, rfl⟩

/-- **The forward transform is the DFT at the k-cell's frequency.**  Every component of every
cell `m` of `Field.fftn` holds the sum over all real-space cells `r` of
`value(r) · Π_a w_a^(m_a·r_a) · wi_a^(⌊n_a/2⌋·r_a)`, i.e. `value(r)·exp(-2πi k·r)` with `k` the
centre of k-cell `m` and `r` counted from the first cell (`phase_is_k_dot_r`). -/
theorem fftn_is_dft (ρs : List (Root R)) (f g : CF R) (h : fftn ρs f = .ok g)
    (hρ : Roots f.data.shape ρs) (m : List Nat) (hm : inRange f.data.shape m = true)
    (c : Nat) (hc : c < f.nvdim) :
    compA g.data c m = sumBox f.data.shape fun r => compA f.data c r * phase ρs f.data.shape m r := by
  unfold fftn at h
  split at h
  · cases h
  · have hd := (finish_ok h).2.1
    rw [hd, fftnArr_get _ _ _ _ _ hc, dftN_eq_sumBox]
    apply sumBox_congr
    intro r _
    rw [twProd_fshift ρs f.data.shape hρ m r hm]

/-- **The zero-frequency cell holds the plain sum of the field**: cell `(⌊n_a/2⌋)_a` of
`Field.fftn`, the one centred at `k = 0` (`kcell_zero_frequency`). -/
theorem dc_is_sum (ρs : List (Root R)) (f g : CF R) (h : fftn ρs f = .ok g)
    (hpos : ∀ n ∈ f.data.shape, 0 < n) (c : Nat) (hc : c < f.nvdim) :
    compA g.data c (f.data.shape.map (· / 2)) = sumBox f.data.shape (compA f.data c) := by
  unfold fftn at h
  split at h
  · cases h
  · have hd := (finish_ok h).2.1
    rw [hd, fftnArr_get _ _ _ _ _ hc]
    exact dftN_zero ρs _ _ _ (fshift_centre f.data.shape hpos)

/-- the same for the real transform, where the zero frequency sits at index 0 of the last
(unshifted) axis and at `⌊n/2⌋` of the others -/
theorem dc_is_sum_rfft (ρs : List (Root R)) (nv : Nat) (a : NDA (List R)) (hpos : ∀ n ∈ a.shape, 0 < n)
    (c : Nat) (hc : c < nv) :
    compA (rfftnArr ρs nv a) c (zeroIdxR a.shape) = sumBox a.shape (compA a c) := by
  rw [rfftnArr_get _ _ _ _ _ hc]
  exact dftN_zero ρs _ _ _ (fshiftR_zeroIdxR a.shape hpos)

/-- `Field.rfftn` succeeds on every valid field; the result lives on `mesh.fftn(rfft=True)` -/
theorem rfftn_total (ρs : List (Root R)) (f : CF R) (hf : CFInv f) :
    ∃ g, rfftn ρs f = .ok g ∧ meshFftn f.mesh true = .ok g.mesh ∧ g.nvdim = f.nvdim ∧ g.unit = f.unit ∧
      g.data = rfftnArr ρs f.nvdim f.data ∧ g.data.shape = halfShape f.mesh.n :=
  ⟨_, rfftn_ok ρs f hf, meshFftn_ok f.mesh true hf.mesh, rfl, rfl, rfl, by
    show halfShape f.data.shape = halfShape f.mesh.n
    rw [hf.shape]⟩

/-- **Linearity**: the transform of `α·a + β·b` (cell by cell, component by component) is
`α·F(a) + β·F(b)`, for arrays of the same shape. -/
theorem fft_linear (ρs : List (Root R)) (nv : Nat) (a b ab : NDA (List R)) (α β : R)
    (hs : b.shape = a.shape) (hs' : ab.shape = a.shape)
    (hab : ∀ i c, compA ab c i = α * compA a c i + β * compA b c i)
    (m : List Nat) (c : Nat) (hc : c < nv) :
    compA (fftnArr ρs nv ab) c m = α * compA (fftnArr ρs nv a) c m + β * compA (fftnArr ρs nv b) c m := by
  rw [fftnArr_get _ _ _ _ _ hc, fftnArr_get _ _ _ _ _ hc, fftnArr_get _ _ _ _ _ hc, hs, hs',
    ← dftN_linear]
  congr 1
  funext i
  exact hab i c

/-- the inverse transform is linear too -/
theorem ifft_linear (ρs : List (Root R)) (ns : List Nat) (F G : List Nat → R) (α β : R) (j : List Nat) :
    idftN ρs ns (fun i => α * F i + β * G i) j = α * idftN ρs ns F j + β * idftN ρs ns G j := by
  induction ns generalizing ρs F G j with
  | nil => simp [idftN]
  | cons n ns ih =>
    rw [idftN_cons, idftN_cons, idftN_cons, ← ih]
    congr 1
    funext ms
    rw [← sumN_mul_left, ← sumN_mul_left, ← sumN_mul_left, ← sumN_mul_left, ← sumN_mul_left, ← sumN_add]
    apply sumN_congr
    intro k _
    ring

/-- **Transforms act per component**: component `c` of the transform of a `nv`-component array
is the transform of component `c` alone. -/
theorem fft_componentwise (ρs : List (Root R)) (nv : Nat) (a : NDA (List R)) (c : Nat) (hc : c < nv)
    (m : List Nat) :
    compA (fftnArr ρs nv a) c m = compA (fftnArr ρs 1 ⟨a.shape, fun i => [compA a c i]⟩) 0 m := by
  rw [fftnArr_get _ _ _ _ _ hc, fftnArr_get _ _ _ _ _ (by omega : 0 < 1)]
  rfl

/-- **Inverse ∘ forward = identity** for the full transform, from the orthogonality
hypothesis: on every valid field `f.fftn().ifftn()` succeeds, has the original counts, cell
size, names and units on the mesh centred at the origin, the original component count, unit,
labels and mapping, and the original value in every cell and component. -/
theorem ifftn_fftn (ρs : List (Root R)) (f : CF R) (hf : CFInv f) (hρ : Roots f.mesh.n ρs) :
    ∃ g h, fftn ρs f = .ok g ∧ ifftn ρs g = .ok h ∧
      h.mesh = originMesh f.mesh f.mesh.n ∧ h.nvdim = f.nvdim ∧ h.unit = f.unit ∧
      h.vdims = f.vdims ∧ h.vmap = f.vmap ∧
      ∀ j, inRange f.mesh.n j = true → ∀ c, c < f.nvdim → compA h.data c j = compA f.data c j := by
  refine ⟨_, _, fftn_ok ρs f hf, ifftn_fftn_ok ρs f hf, rfl, rfl, rfl, rfl, rfl, ?_⟩
  intro j hj c hc
  rw [← hf.shape] at hj hρ
  exact ifftn_fftn_arr ρs f.nvdim f.data hρ j hj c hc

/-- **Real round trip**: on every valid field with conj-fixed ("real") data,
`f.rfftn().irfftn(shape=f.mesh.n)` succeeds and restores the same state and every value —
even and odd last counts alike, since the original last count is supplied. -/
theorem irfftn_rfftn (conj : R → R) (hc : IsConj conj) (ρs : List (Root R)) (f : CF R) (hf : CFInv f)
    (hρ : Roots f.mesh.n ρs) (hcr : ConjRoots conj f.mesh.n ρs)
    (hreal : ∀ i c, conj (compA f.data c i) = compA f.data c i) :
    ∃ g h, rfftn ρs f = .ok g ∧ irfftn conj ρs g (some f.mesh.n) = .ok h ∧
      meshFftn f.mesh true = .ok g.mesh ∧
      h.mesh = originMesh f.mesh f.mesh.n ∧ h.nvdim = f.nvdim ∧ h.unit = f.unit ∧
      h.vdims = f.vdims ∧ h.vmap = f.vmap ∧
      ∀ j, inRange f.mesh.n j = true → ∀ c, c < f.nvdim → compA h.data c j = compA f.data c j := by
  refine ⟨_, _, rfftn_ok ρs f hf, irfftn_rfftn_ok conj ρs f hf, meshFftn_ok f.mesh true hf.mesh,
    rfl, rfl, rfl, rfl, rfl, ?_⟩
  intro j hj c hcv
  show compA (irfftnArr conj ρs f.nvdim f.mesh.n (rfftnArr ρs f.nvdim f.data)) c j = _
  rw [← hf.shape] at hj hρ hcr ⊢
  exact irfftn_rfftn_arr conj hc ρs f.nvdim f.data hρ hcr hreal j hj c hcv

/-- without an explicit shape the real round trip still restores the field when the last count
is even or 1 (the default output count `2·(n_k - 1)`, or 1, is then the original one) -/
theorem irfftn_rfftn_default (conj : R → R) (hc : IsConj conj) (ρs : List (Root R)) (f : CF R) (hf : CFInv f)
    (hρ : Roots f.mesh.n ρs) (hcr : ConjRoots conj f.mesh.n ρs)
    (hreal : ∀ i c, conj (compA f.data c i) = compA f.data c i)
    (hlast : f.mesh.nAt (f.mesh.ndim - 1) % 2 = 0 ∨ f.mesh.nAt (f.mesh.ndim - 1) = 1) :
    ∃ g h, rfftn ρs f = .ok g ∧ irfftn conj ρs g none = .ok h ∧
      h.mesh = originMesh f.mesh f.mesh.n ∧ h.vdims = f.vdims ∧ h.vmap = f.vmap ∧
      ∀ j, inRange f.mesh.n j = true → ∀ c, c < f.nvdim → compA h.data c j = compA f.data c j := by
  refine ⟨_, _, rfftn_ok ρs f hf, irfftn_rfftn_ok_default conj ρs f hf hlast, rfl, rfl, rfl, ?_⟩
  intro j hj c hcv
  show compA (irfftnArr conj ρs f.nvdim f.mesh.n (rfftnArr ρs f.nvdim f.data)) c j = _
  rw [← hf.shape] at hj hρ hcr ⊢
  exact irfftn_rfftn_arr conj hc ρs f.nvdim f.data hρ hcr hreal j hj c hcv

/-- **The real transform is the matching half of the full one**: cell `m` of `rfftn` (last
index `j ≤ ⌊n/2⌋`, unshifted there) holds what `fftn` holds in the cell with the same leading
indices and last index `(j + ⌊n/2⌋) mod n` — the cell of the same DFT frequency. -/
theorem rfftn_half (ρs : List (Root R)) (f gr g : CF R) (hr : rfftn ρs f = .ok gr) (hg : fftn ρs f = .ok g)
    (hpos : ∀ n ∈ f.data.shape, 0 < n) (m : List Nat) (hm : inRange (halfShape f.data.shape) m = true)
    (c : Nat) (hc : c < f.nvdim) :
    compA gr.data c m = compA g.data c (lastShift f.data.shape m) := by
  unfold rfftn at hr
  unfold fftn at hg
  split at hr
  · cases hr
  · split at hg
    · cases hg
    · rw [(finish_ok hr).2.1, (finish_ok hg).2.1]
      exact rfftn_half_arr ρs f.nvdim f.data hpos m hm c hc

/-- **Labels and mapping, forward**: labels get the prefix `ft_`; label `ft_v` is mapped to
`k_d` exactly when `v` was mapped to `d` (for an arbitrary mapping); component count and unit
are kept.  The same holds for `rfftn` (same `_fftn`). -/
theorem fft_labels (ρs : List (Root R)) (f g : CF R) (h : fftn ρs f = .ok g) (vs : List String)
    (hv : f.vdims = some vs) (hne : vs ≠ []) :
    g.vdims = some (vs.map ("ft_" ++ ·)) ∧ g.nvdim = f.nvdim ∧ g.unit = f.unit ∧
    ∀ v ∈ vs, dictGet g.vmap ("ft_" ++ v) = (dictGet f.vmap v).map ("k_" ++ ·) := by
  unfold fftn at h
  split at h
  · cases h
  · obtain ⟨h1, h2⟩ := finish_labels_fwd vs hv hne h
    have h3 := finish_ok h
    refine ⟨h1, h3.2.2.1, h3.2.2.2.1, ?_⟩
    intro v hvm
    rw [h2]
    exact renameMap_fwd f.vmap vs v hvm

omit [CommRing R] in
/-- **Labels and mapping, inverse of forward**: stripping undoes prefixing, for arbitrary
labels and an arbitrary mapping (labels that themselves start with `ft_` lose only the added
prefix). -/
theorem fft_labels_roundtrip (f : CF R) (mesh1 mesh2 : Mesh) (d1 d2 : NDA (List R)) (g h : CF R)
    (vs : List String) (hv : f.vdims = some vs) (hne : vs ≠ [])
    (h1 : finish f mesh1 d1 false = .ok g) (h2 : finish g mesh2 d2 true = .ok h) :
    h.vdims = some vs ∧ ∀ v ∈ vs, dictGet h.vmap v = dictGet f.vmap v := by
  obtain ⟨g1, g2⟩ := finish_labels_fwd vs hv hne h1
  obtain ⟨k1, k2⟩ := finish_labels_inv (vs.map ("ft_" ++ ·)) g1 (by simpa using hne) h2
  rw [labels_roundtrip] at k1
  refine ⟨k1, ?_⟩
  intro v hvm
  rw [k2, g2]
  exact renameMap_roundtrip f.vmap vs v hvm

end ring

/-- the matching cells have the same centre: k-cell `j` of the last axis of the real transform
and k-cell `j + ⌊n/2⌋` of the full transform (an existing cell for `j < ⌈n/2⌉`; for even `n`
the remaining cell `j = n/2`, centred at `+1/(2·cell)`, matches the full transform's cell 0
at the aliased frequency `-1/(2·cell)`, one period `1/cell` lower) -/
theorem rfftn_half_centres (m : Mesh) (hm : m.Inv) (j : Nat) :
    (kMesh m true).centreAx (m.ndim - 1) (j : Int)
      = (kMesh m false).centreAx (m.ndim - 1) ((j + m.nAt (m.ndim - 1) / 2 : Nat) : Int) := by
  have hl := last_lt m hm
  rw [kcentre_half m true hm _ hl (flag_last m), kcentre_full m false hm _ hl (by simp)]
  simp only [Nat.cast_add, Int.cast_add, Int.cast_natCast]
  generalize ((m.nAt (m.ndim - 1) / 2 : Nat) : Rat) = H
  ring

/-- **The hypotheses are satisfiable for every shape**: in ℂ, `w = exp(-2πi/n)`,
`wi = exp(2πi/n)`, `ninv = 1/n` form a root in the sense of `IsRoot` for every `n ≥ 1`, and
complex conjugation is a ring endomorphism inverting every such root — so `fftn_is_dft`,
`ifftn_fftn`, `irfftn_rfftn` apply to complex-valued fields on every mesh. -/
theorem complex_roots_exist (ns : List Nat) (h : ∀ n ∈ ns, 0 < n) :
    Roots ns (ns.map cRoot) ∧ IsConj (starRingEnd ℂ) ∧ ConjRoots (starRingEnd ℂ) ns (ns.map cRoot) :=
  ⟨cRoots ns h, conj_isConj, cConjRoots ns⟩

/-! ## (b, continued) inverse transform, Parseval, Hermitian symmetry -/

section ring2
variable {R : Type} [CommRing R]

/-- **Forward ∘ inverse = identity**: `fftshift(fftn(ifftn(ifftshift(A))))` holds `A` again in every
cell and component, for every shape (orthogonality of the roots, summed over real space). -/
theorem fftn_ifftn_values (ρs : List (Root R)) (nv : Nat) (a : NDA (List R)) (hρ : Roots a.shape ρs)
    (m : List Nat) (hm : inRange a.shape m = true) (c : Nat) (hc : c < nv) :
    compA (fftnArr ρs nv (ifftnArr ρs nv a)) c m = compA a c m :=
  fftn_ifftn_arr ρs nv a hρ m hm c hc

/-- **Real forward ∘ real inverse = identity**: `rfftn(irfftn(G, s))` holds the half spectrum `G`
(shape `halfShape s`) again in every cell and component, for even and odd last counts `s` —
the real forward transform reads back exactly the non-negative-frequency half the inverse was
built from. -/
theorem rfftn_irfftn_values (conj : R → R) (ρs : List (Root R)) (nv : Nat) (s : List Nat) (a : NDA (List R))
    (hs : a.shape = halfShape s) (hpos : ∀ n ∈ s, 0 < n) (hρ : Roots s ρs)
    (m : List Nat) (hm : inRange (halfShape s) m = true) (c : Nat) (hc : c < nv) :
    compA (rfftnArr ρs nv (irfftnArr conj ρs nv s a)) c m = compA a c m :=
  rfftn_irfftn_arr conj ρs nv s a hs hpos hρ m hm c hc

/-- **The real transform is the DFT at the k-cell's frequency.**  Every component of every cell
`m` of `Field.rfftn` holds the sum over all real-space cells `r` of `value(r)` times
`Π_{a<last} w_a^(m_a r_a)·wi_a^(⌊n_a/2⌋ r_a) · w_last^(m_last r_last)` — `exp(-2πi k·r)` with `k` the
centre of k-cell `m` of `mesh.fftn(rfft=True)` (last axis unshifted: `kcell_centres_rfft`). -/
theorem rfftn_is_dft (ρs : List (Root R)) (f g : CF R) (h : rfftn ρs f = .ok g)
    (hρ : Roots f.data.shape ρs) (m : List Nat) (hm : inRange (halfShape f.data.shape) m = true)
    (c : Nat) (hc : c < f.nvdim) :
    compA g.data c m = sumBox f.data.shape fun r => compA f.data c r * phaseR ρs f.data.shape m r := by
  unfold rfftn at h
  split at h
  · cases h
  · rw [(finish_ok h).2.1]
    exact rfftnArr_is_dft ρs f.nvdim f.data hρ m hm c hc

/-- **`irfftn` returns real data.**  For every half spectrum that is conjugate-symmetric on its
self-mirror planes (unshifted last index 0 and, for an even output count, `n/2`) — the inputs
the real inverse is specified for — every cell and component of the model's `irfftn` is fixed by
the conjugation, for even and odd output counts. -/
theorem irfftn_returns_real (conj : R → R) (hc : IsConj conj) (hinv : ∀ x, conj (conj x) = x) (ρs : List (Root R))
    (nv : Nat) (s : List Nat) (a : NDA (List R)) (hρ : Roots s ρs) (hcr : ConjRoots conj s ρs)
    (c : Nat) (hcv : c < nv)
    (hcons : ∀ k, inRange s k = true → (k.getLastD 0 = 0 ∨ 2 * k.getLastD 0 = s.getLastD 0) →
      conj (compA a c (ishiftR a.shape k)) = compA a c (ishiftR a.shape (negIdx s k)))
    (j : List Nat) :
    conj (compA (irfftnArr conj ρs nv s a) c j) = compA (irfftnArr conj ρs nv s a) c j :=
  irfftnArr_real conj hc hinv ρs nv s a hρ hcr c hcv hcons j

/-- **What `rfftn` produces is such a half spectrum**: for conj-fixed data the half spectrum is
conjugate-symmetric under index negation on every plane, so `irfftn_returns_real` and the
round trip `irfftn_rfftn` are about the same class of inputs. -/
theorem rfftn_spectrum_consistent (conj : R → R) (hc : IsConj conj) (ρs : List (Root R)) (nv : Nat)
    (a : NDA (List R)) (hρ : Roots a.shape ρs) (hcr : ConjRoots conj a.shape ρs)
    (hreal : ∀ i c, conj (compA a c i) = compA a c i) (c : Nat) (hcv : c < nv)
    (k : List Nat) (hk : inRange a.shape k = true) :
    conj (compA (rfftnArr ρs nv a) c (ishiftR (rfftnArr ρs nv a).shape k))
      = compA (rfftnArr ρs nv a) c (ishiftR (rfftnArr ρs nv a).shape (negIdx a.shape k)) :=
  rfftnArr_consistent conj hc ρs nv a hρ hcr hreal c hcv k hk

/-- **The inverse transform is the inverse DFT at the k-cells' frequencies.**  Every component
of every real-space cell `j` of `Field.ifftn` holds `Π_a(1/n_a)` times the sum over all k-cells
`m` of `value(m) · Π_a wi_a^(m_a·j_a) · w_a^(⌊n_a/2⌋·j_a)`, i.e. `value(m)·exp(+2πi k_m·r_j)` with
`k_m` the centre of k-cell `m` (`kcell_centres_formula`) — the code-shaped axis-by-axis inverse
after `ifftshift` equals the one-sum specification. -/
theorem ifftn_is_idft (ρs : List (Root R)) (f g : CF R) (h : ifftn ρs f = .ok g)
    (hρ : Roots f.data.shape ρs) (j : List Nat) (c : Nat) (hc : c < f.nvdim) :
    compA g.data c j = ninvProd ρs f.data.shape *
      sumBox f.data.shape fun m => compA f.data c m * phase (ρs.map Root.swap) f.data.shape m j := by
  unfold ifftn at h
  split at h
  · cases h
  · rw [(finish_ok h).2.1]
    exact ifftnArr_is_idft ρs f.nvdim f.data hρ j c hc

/-- the inverse roots `(wi, w, 1/n)` satisfy the root hypotheses whenever `(w, wi, 1/n)` do, so
`phase (ρs.map Root.swap)` in `ifftn_is_idft` is the phase of the conjugate frequencies -/
theorem inverse_roots_are_roots (ns : List Nat) (ρs : List (Root R)) (h : Roots ns ρs) :
    Roots ns (ρs.map Root.swap) :=
  Roots.swap ns ρs h

/-- **Plancherel**: for two arrays of the same shape, `Σ_m F_a[m]·conj F_b[m] = N · Σ_r a[r]·conj b[r]`
per component, the sums running over all k-cells / all cells and `N` the number of cells. -/
theorem plancherel_fftn (conj : R → R) (hc : IsConj conj) (ρs : List (Root R)) (nv : Nat) (a b : NDA (List R))
    (hs : b.shape = a.shape) (hρ : Roots a.shape ρs) (hcr : ConjRoots conj a.shape ρs) (c : Nat) (hcv : c < nv) :
    sumBox a.shape (fun m => compA (fftnArr ρs nv a) c m * conj (compA (fftnArr ρs nv b) c m))
      = (natProd a.shape : R) * sumBox a.shape (fun r => compA a c r * conj (compA b c r)) :=
  parseval_fftnArr conj hc ρs nv a b hs hρ hcr c hcv

/-- **Parseval** for `Field.fftn`: the summed squared modulus of every component of the spectrum
is `N` times that of the field. -/
theorem parseval_fftn (conj : R → R) (hc : IsConj conj) (ρs : List (Root R)) (f g : CF R) (h : fftn ρs f = .ok g)
    (hρ : Roots f.data.shape ρs) (hcr : ConjRoots conj f.data.shape ρs) (c : Nat) (hcv : c < f.nvdim) :
    sumBox f.data.shape (fun m => compA g.data c m * conj (compA g.data c m))
      = (natProd f.data.shape : R) * sumBox f.data.shape (fun r => compA f.data c r * conj (compA f.data c r)) := by
  unfold fftn at h
  split at h
  · cases h
  · rw [(finish_ok h).2.1]
    exact parseval_fftnArr conj hc ρs f.nvdim f.data f.data rfl hρ hcr c hcv

/-- **Hermitian symmetry of the spectrum of a real field**: for conj-fixed data, the k-cell of
the opposite frequency (`mirror`: unshift, negate mod the counts, shift back) holds the
conjugate value, in every component. -/
theorem spectrum_hermitian (conj : R → R) (hc : IsConj conj) (ρs : List (Root R)) (f g : CF R)
    (h : fftn ρs f = .ok g) (hρ : Roots f.data.shape ρs) (hcr : ConjRoots conj f.data.shape ρs)
    (hreal : ∀ i c, conj (compA f.data c i) = compA f.data c i)
    (m : List Nat) (hm : inRange f.data.shape m = true) (c : Nat) (hcv : c < f.nvdim) :
    inRange f.data.shape (mirror f.data.shape m) = true ∧
    conj (compA g.data c (mirror f.data.shape m)) = compA g.data c m := by
  unfold fftn at h
  split at h
  · cases h
  · rw [(finish_ok h).2.1]
    exact ⟨mirror_inRange _ _ hm, fftnArr_hermitian conj hc ρs f.nvdim f.data hρ hcr hreal m hm c hcv⟩

/-- **Linearity of the real transform** -/
theorem rfft_linear (ρs : List (Root R)) (nv : Nat) (a b ab : NDA (List R)) (α β : R)
    (hs : b.shape = a.shape) (hs' : ab.shape = a.shape)
    (hab : ∀ i c, compA ab c i = α * compA a c i + β * compA b c i)
    (m : List Nat) (c : Nat) (hc : c < nv) :
    compA (rfftnArr ρs nv ab) c m = α * compA (rfftnArr ρs nv a) c m + β * compA (rfftnArr ρs nv b) c m := by
  rw [rfftnArr_get _ _ _ _ _ hc, rfftnArr_get _ _ _ _ _ hc, rfftnArr_get _ _ _ _ _ hc, hs, hs',
    ← dftN_linear]
  congr 1
  funext i
  exact hab i c

/-- **Linearity of `ifftn`** on arrays: the inverse of `α·A + β·B` is `α·ifftn(A) + β·ifftn(B)` -/
theorem ifftn_linear (ρs : List (Root R)) (nv : Nat) (a b ab : NDA (List R)) (α β : R)
    (hs : b.shape = a.shape) (hs' : ab.shape = a.shape)
    (hab : ∀ i c, compA ab c i = α * compA a c i + β * compA b c i)
    (j : List Nat) (c : Nat) (hc : c < nv) :
    compA (ifftnArr ρs nv ab) c j = α * compA (ifftnArr ρs nv a) c j + β * compA (ifftnArr ρs nv b) c j := by
  rw [ifftnArr_get _ _ _ _ _ hc, ifftnArr_get _ _ _ _ _ hc, ifftnArr_get _ _ _ _ _ hc, hs, hs',
    ← ifft_linear]
  congr 1
  funext i
  exact hab _ c

/-- **A field that is non-zero in a single cell** `r0` (value `v` in component `c`) transforms
to the pure phase `v · exp(-2πi k·r0)` in every k-cell; in particular a delta in the first cell
transforms to the constant `v`. -/
theorem fftn_delta (ρs : List (Root R)) (f g : CF R) (h : fftn ρs f = .ok g) (hρ : Roots f.data.shape ρs)
    (r0 : List Nat) (hr : inRange f.data.shape r0 = true) (c : Nat) (hc : c < f.nvdim)
    (hf : ∀ i, inRange f.data.shape i = true → i ≠ r0 → compA f.data c i = 0)
    (m : List Nat) (hm : inRange f.data.shape m = true) :
    compA g.data c m = compA f.data c r0 * phase ρs f.data.shape m r0 := by
  rw [fftn_is_dft ρs f g h hρ m hm c hc]
  rw [sumBox_single f.data.shape _ r0 hr (fun i hi hne => by rw [hf i hi hne, zero_mul])]

end ring2

/-- **The mirror cell has the opposite frequency.**  Per axis the mirror index of `j` is
`(2⌊n/2⌋ - j) mod n`; its k-cell centre is minus the centre of k-cell `j`, except for the
Nyquist cell `j = 0` of an even axis, which is its own mirror (frequencies `∓1/(2·cell)` are one
sampling period apart). -/
theorem mirror_opposite_frequency (m : Mesh) (k : Mesh) (h : meshFftn m false = .ok k) (hm : m.Inv)
    (j : List Nat) (hj : inRange m.n j = true) (a : Nat) (ha : a < m.ndim) :
    (mirror m.n j).getD a 0 = (2 * (m.nAt a / 2) - j.getD a 0) % m.nAt a ∧
    (¬ (j.getD a 0 = 0 ∧ m.nAt a % 2 = 0) →
      k.centreAx a (((mirror m.n j).getD a 0 : Nat) : Int) = - k.centreAx a ((j.getD a 0 : Nat) : Int)) ∧
    (j.getD a 0 = 0 ∧ m.nAt a % 2 = 0 → (mirror m.n j).getD a 0 = 0) := by
  have hal : a < m.n.length := by rw [hm.2.1]; exact ha
  have hmir : (mirror m.n j).getD a 0 = (2 * (m.nAt a / 2) - j.getD a 0) % m.nAt a :=
    mirror_getD m.n j hj a hal
  have hlt : j.getD a 0 < m.nAt a := inRange_getD m.n j hj a hal
  refine ⟨hmir, ?_, ?_⟩
  · intro hny
    have hlt2 : 2 * (m.nAt a / 2) - j.getD a 0 < m.nAt a := by omega
    rw [hmir, Nat.mod_eq_of_lt hlt2, kcell_centres_formula m k h hm a ha, kcell_centres_formula m k h hm a ha]
    have hle : j.getD a 0 ≤ 2 * (m.nAt a / 2) := by omega
    simp only [Int.cast_natCast]
    rw [Nat.cast_sub hle]
    push_cast
    ring
  · intro hny
    rw [hmir, hny.1]
    have : 2 * (m.nAt a / 2) - 0 = m.nAt a := by omega
    rw [this, Nat.mod_self]

/-! ## (c) the driver's formal root-of-unity arithmetic -/

section eval
variable {R : Type} [CommRing R]

/-- **The formal arithmetic is sound.**  Evaluation of the driver's formal combinations
(`Poly`: sums = concatenation of term lists, products = added exponent vectors and multiplied
Gaussian-rational coefficients) into any commutative ring — rationals through a ring
homomorphism, the imaginary unit to an `I` with `I² = -1`, the formal root of axis `a` to an
ARBITRARY `ζ_a` — preserves `0`, `1`, `+` and `·`, sends constants to `q re + q im·I`, the
monomial `ζ_a^k` to `ζ_a^k` and scalar multiples to scalar multiples.  No hypothesis on the roots
is used by the arithmetic. -/
theorem poly_eval_hom (ev : Ev R) (d : Nat) :
    IsHom (ev.eval d) ∧ (∀ re im, ev.eval d (Poly.const re im) = ev.q re + ev.q im * ev.I) ∧
    (∀ a k, a < d → ev.eval d (Poly.mono a k) = ev.ζ a ^ k) ∧
    (∀ re im p, ev.eval d (Poly.const re im * p) = (ev.q re + ev.q im * ev.I) * ev.eval d p) :=
  ⟨ev.eval_isHom d, fun re im => ev.eval_const d re im, fun a k ha => ev.eval_mono d a k ha,
    fun re im p => by rw [ev.eval_mul, ev.eval_const]; rfl⟩

/-- **`Poly.conj` is conjugation** (exponents `e ↦ (n - e mod n) mod n`, `i ↦ -i`) for every
conjugation of `R` that fixes the rationals, negates `I` and inverts the `ζ_a`, once
`ζ_a^(n_a) = 1`. -/
theorem poly_conj_is_conj (ev : Ev R) (conj : R → R) (ns : List Nat) (hc : ev.ConjOK conj ns.length)
    (hpos : ∀ a, a < ns.length → 0 < ns.getD a 1) (hζ : ∀ a, a < ns.length → ev.ζ a ^ ns.getD a 1 = 1)
    (p : Poly) : ev.eval ns.length (Poly.conj ns p) = conj (ev.eval ns.length p) :=
  ev.eval_conj conj ns hc hpos hζ p

/-- **Exponent reduction and collection of like monomials keep the value.**  The table the
driver prints (`Poly.dense`: exponents reduced mod the counts, coefficients of equal monomials
added, indexed by the C-order flat exponent index) evaluates — `Σ_k c_k · Π_a ζ_a^(unflat(k)_a)`,
which is what the harness computes — to the value of the combination, once `ζ_a^(n_a) = 1`. -/
theorem poly_dense_value (ev : Ev R) (ns : List Nat) (hpos : ∀ a, a < ns.length → 0 < ns.getD a 1)
    (hζ : ∀ a, a < ns.length → ev.ζ a ^ ns.getD a 1 = 1) (p : Poly) :
    ev.evalDense ns (Poly.dense ns p) = ev.eval ns.length p :=
  ev.evalDense_dense ns hpos hζ p

/-- **The driver's formal roots evaluate to roots.**  If every `ζ_a` is a primitive `n_a`-th
root of unity (`ζ^n = 1`, `Σ_j ζ^(jk) = 0` for `0<k<n`), the images of `Poly.roots ns` —
`(ζ_a, ζ_a^(n_a-1), q(1/n_a))` — satisfy the hypotheses `Roots` of the value theorems, and a
conjugation as in `poly_conj_is_conj` inverts them (`ConjRoots`). -/
theorem poly_roots_are_roots (ev : Ev R) (ns : List Nat) (h : PrimRoots ev ns) :
    (Poly.roots ns).map (Root.map (ev.eval ns.length)) = ev.roots ns ∧ Roots ns (ev.roots ns) ∧
    ∀ conj, ev.ConjOK conj ns.length → ConjRoots conj ns (ev.roots ns) :=
  ⟨ev.eval_roots ns, ev.roots_Roots ns h, fun conj hc =>
    ev.roots_ConjRoots conj ns hc (fun a ha => (h a ha).1) (fun a ha => (h a ha).2.pow_n)⟩

end eval

section natural
variable {S R : Type} [Zero S] [One S] [Add S] [Mul S] [Zero R] [One R] [Add R] [Mul R]

/-- **The code-shaped model is natural in its carrier.**  For every map `φ` preserving
`0 1 + *` (no ring law needed on either side), `Field.fftn`, `Field.rfftn` and `Field.ifftn` of the
`φ`-image of a field, with the `φ`-images of the root parameters, are the `φ`-images of the
results (same mesh, labels, mapping, unit, error/success; data mapped cell by cell). -/
theorem transforms_commute_with_hom (φ : S → R) (h : IsHom φ) (ρs : List (Root S)) (f : CF S) :
    fftn (ρs.map (Root.map φ)) (f.map φ) = mapM φ (fftn ρs f) ∧
    rfftn (ρs.map (Root.map φ)) (f.map φ) = mapM φ (rfftn ρs f) ∧
    ifftn (ρs.map (Root.map φ)) (f.map φ) = mapM φ (ifftn ρs f) :=
  ⟨h.fftn ρs f, h.rfftn ρs f, h.ifftn ρs f⟩

/-- the same for `Field.irfftn`, for conjugations `cS`, `cR` that `φ` intertwines -/
theorem irfftn_commutes_with_hom (φ : S → R) (h : IsHom φ) (cS : S → S) (cR : R → R)
    (hc : ∀ x, φ (cS x) = cR (φ x)) (ρs : List (Root S)) (f : CF S) (shape : Option (List Nat)) :
    irfftn cR (ρs.map (Root.map φ)) (f.map φ) shape = mapM φ (irfftn cS ρs f shape) :=
  h.irfftn cS cR hc ρs f shape

end natural

section driver
variable {R : Type} [CommRing R]

/-- **What the driver computes, evaluated, is the model over `R`.**  For the three transforms
the driver runs as `T (Poly.roots shape) f`: evaluating every cell of the symbolic result is the
same as running the model over `R` with the evaluated roots on the evaluated input.  (No
hypothesis on the `ζ_a`.) -/
theorem driver_evaluates_to_model (ev : Ev R) (f : CF Poly) :
    mapM (ev.eval f.data.shape.length) (fftn (Poly.roots f.data.shape) f)
      = fftn (ev.roots f.data.shape) (f.map (ev.eval f.data.shape.length)) ∧
    mapM (ev.eval f.data.shape.length) (rfftn (Poly.roots f.data.shape) f)
      = rfftn (ev.roots f.data.shape) (f.map (ev.eval f.data.shape.length)) ∧
    mapM (ev.eval f.data.shape.length) (ifftn (Poly.roots f.data.shape) f)
      = ifftn (ev.roots f.data.shape) (f.map (ev.eval f.data.shape.length)) := by
  have hh := ev.eval_isHom f.data.shape.length
  refine ⟨?_, ?_, ?_⟩
  · rw [← hh.fftn, ev.eval_roots]
  · rw [← hh.rfftn, ev.eval_roots]
  · rw [← hh.ifftn, ev.eval_roots]

/-- the same for `irfftn`, which the driver runs as `irfftn (Poly.conj s) (Poly.roots s) f shape`
with `s` the output counts: needs `ζ_a^(s_a) = 1` (for `Poly.conj`) -/
theorem driver_irfftn_evaluates_to_model (ev : Ev R) (conj : R → R) (s : List Nat) (hc : ev.ConjOK conj s.length)
    (hpos : ∀ a, a < s.length → 0 < s.getD a 1) (hζ : ∀ a, a < s.length → ev.ζ a ^ s.getD a 1 = 1)
    (f : CF Poly) (shape : Option (List Nat)) :
    mapM (ev.eval s.length) (irfftn (Poly.conj s) (Poly.roots s) f shape)
      = irfftn conj (ev.roots s) (f.map (ev.eval s.length)) shape := by
  rw [← (ev.eval_isHom s.length).irfftn (Poly.conj s) conj (fun p => ev.eval_conj conj s hc hpos hζ p),
    ev.eval_roots]

/-- **The driver's printed spectrum is the DFT at the k-cell's frequency.**  End to end for
`Field.fftn`: take the symbolic result `g` of the driver's run on `f`, the printed dense table of
any component of any cell `m`, and evaluate it the harness's way with primitive roots `ζ_a`: the
value is the textbook sum `Σ_r value(r) · Π_a ζ_a^(m_a r_a) · ζ_a^(-⌊n_a/2⌋ r_a)` over all
real-space cells.  Everything between the driver's arithmetic and the specification is proved;
what remains trusted is the JSON glue and the floating-point evaluation of `exp`. -/
theorem driver_fftn_is_dft (ev : Ev R) (f g : CF Poly) (h : fftn (Poly.roots f.data.shape) f = .ok g)
    (hp : PrimRoots ev f.data.shape) (m : List Nat) (hm : inRange f.data.shape m = true)
    (c : Nat) (hc : c < f.nvdim) :
    ev.evalDense f.data.shape (Poly.dense f.data.shape (compA g.data c m))
      = sumBox f.data.shape fun r =>
          ev.eval f.data.shape.length (compA f.data c r) * phase (ev.roots f.data.shape) f.data.shape m r := by
  have hh := ev.eval_isHom f.data.shape.length
  rw [ev.evalDense_dense f.data.shape (fun a ha => (hp a ha).1) (fun a ha => (hp a ha).2.pow_n)]
  have h1 := (driver_evaluates_to_model ev f).1
  rw [h] at h1
  have h2 := fftn_is_dft (ev.roots f.data.shape) (f.map (ev.eval f.data.shape.length)) _ h1.symm
    (ev.roots_Roots _ hp) m hm c hc
  rw [← compA_mapA hh g.data c m]
  rw [show (g.map (ev.eval f.data.shape.length)).data = mapA (ev.eval f.data.shape.length) g.data from rfl] at h2
  rw [h2]
  apply sumBox_congr
  intro r _
  rw [show (f.map (ev.eval f.data.shape.length)).data = mapA (ev.eval f.data.shape.length) f.data from rfl,
    compA_mapA hh]
  rfl

/-- the same end to end for `Field.rfftn` (last axis unshifted) -/
theorem driver_rfftn_is_dft (ev : Ev R) (f g : CF Poly) (h : rfftn (Poly.roots f.data.shape) f = .ok g)
    (hp : PrimRoots ev f.data.shape) (m : List Nat) (hm : inRange (halfShape f.data.shape) m = true)
    (c : Nat) (hc : c < f.nvdim) :
    ev.evalDense f.data.shape (Poly.dense f.data.shape (compA g.data c m))
      = sumBox f.data.shape fun r =>
          ev.eval f.data.shape.length (compA f.data c r) * phaseR (ev.roots f.data.shape) f.data.shape m r := by
  have hh := ev.eval_isHom f.data.shape.length
  rw [ev.evalDense_dense f.data.shape (fun a ha => (hp a ha).1) (fun a ha => (hp a ha).2.pow_n)]
  have h1 := (driver_evaluates_to_model ev f).2.1
  rw [h] at h1
  have h2 := rfftn_is_dft (ev.roots f.data.shape) (f.map (ev.eval f.data.shape.length)) _ h1.symm
    (ev.roots_Roots _ hp) m hm c hc
  rw [← compA_mapA hh g.data c m]
  rw [show (g.map (ev.eval f.data.shape.length)).data = mapA (ev.eval f.data.shape.length) g.data from rfl] at h2
  rw [h2]
  apply sumBox_congr
  intro r _
  rw [show (f.map (ev.eval f.data.shape.length)).data = mapA (ev.eval f.data.shape.length) f.data from rfl,
    compA_mapA hh]
  rfl

/-- **The driver's printed inverse transform is the inverse DFT.**  The same end to end for
`Field.ifftn`: the printed table of any component of any real-space cell `j` of the symbolic
result evaluates to `Π_a q(1/n_a) · Σ_m value(m) · Π_a ζ_a^(-m_a j_a) · ζ_a^(⌊n_a/2⌋ j_a)` over all
k-cells `m`. -/
theorem driver_ifftn_is_idft (ev : Ev R) (f g : CF Poly) (h : ifftn (Poly.roots f.data.shape) f = .ok g)
    (hp : PrimRoots ev f.data.shape) (j : List Nat) (c : Nat) (hc : c < f.nvdim) :
    ev.evalDense f.data.shape (Poly.dense f.data.shape (compA g.data c j))
      = ninvProd (ev.roots f.data.shape) f.data.shape * sumBox f.data.shape fun m =>
          ev.eval f.data.shape.length (compA f.data c m) *
            phase ((ev.roots f.data.shape).map Root.swap) f.data.shape m j := by
  have hh := ev.eval_isHom f.data.shape.length
  rw [ev.evalDense_dense f.data.shape (fun a ha => (hp a ha).1) (fun a ha => (hp a ha).2.pow_n)]
  have h1 := (driver_evaluates_to_model ev f).2.2
  rw [h] at h1
  have h2 := ifftn_is_idft (ev.roots f.data.shape) (f.map (ev.eval f.data.shape.length)) _ h1.symm
    (ev.roots_Roots _ hp) j c hc
  rw [← compA_mapA hh g.data c j]
  rw [show (g.map (ev.eval f.data.shape.length)).data = mapA (ev.eval f.data.shape.length) g.data from rfl] at h2
  rw [h2]
  congr 1
  apply sumBox_congr
  intro r _
  rw [show (f.map (ev.eval f.data.shape.length)).data = mapA (ev.eval f.data.shape.length) f.data from rfl,
    compA_mapA hh]
  rfl

/-- **The hypotheses of part (c) are satisfiable for every shape, by the harness's own
substitution**: rationals into ℂ, `I ↦ i`, `ζ_a ↦ exp(-2πi/n_a)` are primitive roots, complex
conjugation is a conjugation for them, and the driver's formal roots evaluate to exactly the
complex root structures of `complex_roots_exist`. -/
theorem driver_complex (ns : List Nat) (h : ∀ n ∈ ns, 0 < n) :
    PrimRoots (cEv ns) ns ∧ (cEv ns).ConjOK (starRingEnd ℂ) ns.length ∧ (cEv ns).roots ns = ns.map cRoot :=
  ⟨cEv_prim ns h, cEv_conj ns h, cEv_roots ns h⟩

end driver

/-! ## (d) second extension round

`fftshift`/`ifftshift` as permutations; what `Mesh.ifftn`, `Field.ifftn`, `Field.irfftn` require
of their inputs (equivalences) and return on k-space meshes / fields that did not come from a
forward transform; forward ∘ inverse at field level; `irfftn` as one sum and numpy's convention on
half spectra that are not Hermitian-consistent (`irfftnNP`, the model the driver runs); the shift
theorem; the value theorems over ℂ with the phase written as `exp(∓2πi k·r)`. -/

/-! ### (d.1) the shifts are permutations -/

/-- **`fftshift` of a list is a permutation of its entries, undone by `ifftshift`, for every
length** (even, odd, 0, 1): `fftshift` is the rotation by `⌈n/2⌉`, `ifftshift` the rotation by
`⌊n/2⌋`, and the two compose to the identity in both orders. -/
theorem fftshift_list_permutation (xs : List Rat) :
    (fftshiftL xs).Perm xs ∧ fftshiftL xs = xs.rotate (xs.length - xs.length / 2) ∧
    ifftshiftL xs = xs.rotate (xs.length / 2) ∧
    ifftshiftL (fftshiftL xs) = xs ∧ fftshiftL (ifftshiftL xs) = xs :=
  ⟨fftshiftL_perm xs, fftshiftL_eq_rotate xs, ifftshiftL_eq_rotate xs, ifftshiftL_fftshiftL xs,
    fftshiftL_ifftshiftL xs⟩

/-- **Along every axis the k-cell centres are a permutation of the DFT sample frequencies**
`fftfreq(n, cell)`: every sample frequency is the centre of exactly one k-cell (the list of the
centres is `fftshift(fftfreq(n, cell))`), for even, odd and single-cell axes. -/
theorem kcell_centres_permutation (m : Mesh) (k : Mesh) (h : meshFftn m false = .ok k) (hm : m.Inv)
    (a : Nat) (ha : a < m.ndim) :
    tab (m.nAt a) (fun j => k.centreAx a (j : Int)) = fftshiftL (fftfreq (m.nAt a) (m.cellAt a)) ∧
    (tab (m.nAt a) (fun j => k.centreAx a (j : Int))).Perm (fftfreq (m.nAt a) (m.cellAt a)) := by
  have e : tab (m.nAt a) (fun j => k.centreAx a (j : Int)) = fftshiftL (fftfreq (m.nAt a) (m.cellAt a)) := by
    symm
    apply eq_tab_of_getD _ _ _ 0 (by simp [fftshiftL, fftfreq])
    intro j hj
    exact ((kcell_centres m k h hm a ha).2 j hj).symm
  exact ⟨e, by rw [e]; exact fftshiftL_perm _⟩

/-- **`fftshift` and `ifftshift` over all axes are mutually inverse permutations of the index
box, for every shape**: both send the box into itself, each undoes the other, both are injective
on the box; entry `a` of the image is `(m_a + ⌈n_a/2⌉) mod n_a` resp. `(m_a + ⌊n_a/2⌋) mod n_a`. -/
theorem shift_permutation (ns m : List Nat) (h : inRange ns m = true) :
    inRange ns (fshift ns m) = true ∧ inRange ns (ishift ns m) = true ∧
    fshift ns (ishift ns m) = m ∧ ishift ns (fshift ns m) = m ∧
    (∀ m', inRange ns m' = true → fshift ns m' = fshift ns m → m' = m) ∧
    (∀ m', inRange ns m' = true → ishift ns m' = ishift ns m → m' = m) ∧
    ∀ a, a < ns.length →
      (fshift ns m).getD a 0 = (m.getD a 0 + (ns.getD a 0 - ns.getD a 0 / 2)) % ns.getD a 0 ∧
      (ishift ns m).getD a 0 = (m.getD a 0 + ns.getD a 0 / 2) % ns.getD a 0 := by
  refine ⟨fshift_inRange ns m h, ishift_inRange ns m h, fshift_ishift ns m h, ishift_fshift ns m h, ?_, ?_, ?_⟩
  · intro m' h' e
    rw [← ishift_fshift ns m' h', e, ishift_fshift ns m h]
  · intro m' h' e
    rw [← fshift_ishift ns m' h', e, fshift_ishift ns m h]
  · intro a ha
    exact ⟨fshift_getD ns m (inRange_length _ _ h) a ha, ishift_getD ns m (inRange_length _ _ h) a ha⟩

/-- **The partial shifts of the real transforms** (`axes[:-1]`: every axis but the last) are
mutually inverse permutations of the full box of counts `ns`, keep the last index, and restrict
to mutually inverse permutations of the half-spectrum box `halfShape ns`. -/
theorem shiftR_permutation (ns m : List Nat) (h : inRange ns m = true) :
    inRange ns (fshiftR ns m) = true ∧ inRange ns (ishiftR ns m) = true ∧
    fshiftR ns (ishiftR ns m) = m ∧ ishiftR ns (fshiftR ns m) = m ∧
    (fshiftR ns m).getLastD 0 = m.getLastD 0 ∧ (ishiftR ns m).getLastD 0 = m.getLastD 0 ∧
    ∀ m', inRange (halfShape ns) m' = true → ishiftR (halfShape ns) (fshiftR ns m') = m' :=
  ⟨fshiftR_inRange_full ns m h, ishiftR_inRange_full ns m h, fshiftR_ishiftR_full ns m h,
    ishiftR_fshiftR_full ns m h, fshiftR_last ns m, ishiftR_last ns m, fun m' h' => ishiftR_fshiftR ns m' h'⟩

/-! ### (d.2) `Mesh.ifftn`: what it requires and what it returns, on ANY valid mesh -/

/-- **The `shape` argument of `Mesh.ifftn` is accepted iff** it has one entry per dimension,
its leading entries are the k-mesh's counts and its last entry `s` satisfies
`s // 2 + 1 = n_last` (for both values of `rfft`, as in the code); the counts used are then
`shape` itself. -/
theorem ifftn_shape_accepted_iff (k : Mesh) (rfft : Bool) (s s' : List Nat) :
    ifftShape k rfft (some s) = .ok s' ↔
      s' = s ∧ s.length = k.ndim ∧ (∀ a, a < k.ndim - 1 → s.getD a 0 = k.nAt a) ∧
        s.getD (k.ndim - 1) 0 / 2 + 1 = k.nAt (k.ndim - 1) :=
  ifftShape_some_ok_iff k rfft s s'

/-- **`Mesh.ifftn` on a valid mesh — acceptance as an equivalence, and the result.**  The call
succeeds iff the counts `s` derived from `shape` are accepted, every count is positive (a last
entry 0 passes the shape test when `n_last = 1` and is refused by `fftfreq`) and no two dimension
names coincide once the prefix `k_` is stripped.  The result then has the counts `s`, cell size
`1/(s_a·cell_a)`, is centred at the origin, has the stripped names and units, the tolerance factor
of the k-mesh, no boundary conditions and no subregions — whether or not the mesh came from
`Mesh.fftn`. -/
theorem ifftn_mesh_accepts_iff (k : Mesh) (hk : k.Inv) (rfft : Bool) (shape : Option (List Nat)) (b : Mesh) :
    meshIfftn k rfft shape = .ok b ↔
      ∃ s, ifftShape k rfft shape = .ok s ∧ (∀ a, a < k.ndim → 0 < s.getD a 0) ∧
        hasDup (k.region.dims.map (stripPre "k_")) = false ∧
        b.Inv ∧ b.n = s ∧ b.bc = "" ∧ b.subs = [] ∧ b.region.tol = k.region.tol ∧
        b.region.dims = k.region.dims.map (stripPre "k_") ∧ b.region.units = k.region.units.map stripUnit ∧
        b.region.pmin = tab k.ndim (fun a => -(1 / (2 * k.cellAt a))) ∧
        b.region.pmax = tab k.ndim (fun a => 1 / (2 * k.cellAt a)) ∧
        ∀ a, a < k.ndim → b.cellAt a = 1 / ((s.getD a 0 : Rat) * k.cellAt a) ∧
          b.region.lo a + b.region.hi a = 0 := by
  rw [meshIfftn_ok_iff k hk rfft shape b]
  constructor
  · rintro ⟨s, hs, hp, hd, rfl⟩
    have hl := ifftShape_length k rfft shape s hk.2.1 hs
    refine ⟨s, hs, hp, hd, rMesh_inv k hk s hl hp hd, rfl, rfl, rfl, rfl, rfl, rfl, rfl, rfl, ?_⟩
    intro a ha
    refine ⟨rMesh_cellAt k s a ha, ?_⟩
    simp only [rMesh, Region.lo, Region.hi]
    rw [getD_tab _ _ _ _ ha, getD_tab _ _ _ _ ha]; ring
  · rintro ⟨s, hs, hp, hd, _, hn, hbc, hsub, htol, hdims, hunits, hmin, hmax, _⟩
    refine ⟨s, hs, hp, hd, ?_⟩
    obtain ⟨⟨pmin, pmax, dims, units, tol⟩, n, bc, subs⟩ := b
    simp only at hn hbc hsub htol hdims hunits hmin hmax
    subst hn hbc hsub htol hdims hunits hmin hmax
    rfl

/-- **Without a `shape` every valid mesh is accepted unless two names collide**: the default
counts (`n`, or `2(n_last - 1)` along the last axis of the real transform when `n_last ≠ 1`) are
always accepted and positive. -/
theorem ifftn_mesh_default_accepts_iff (k : Mesh) (hk : k.Inv) (rfft : Bool) :
    (∃ b, meshIfftn k rfft none = .ok b) ↔ hasDup (k.region.dims.map (stripPre "k_")) = false := by
  constructor
  · rintro ⟨b, h⟩
    obtain ⟨s, _, _, hd, _⟩ := (meshIfftn_ok_iff k hk rfft none b).mp h
    exact hd
  · intro hd
    have hs : ifftShape k rfft none = .ok _ := ifftShape_none k rfft
    exact ⟨_, (meshIfftn_ok_iff k hk rfft none _).mpr
      ⟨_, hs, fun a ha => ifftShape_none_pos k hk rfft _ hs a ha, hd, rfl⟩⟩

/-- **The k-mesh does not depend on where the mesh is**: two meshes with the same counts,
extents, names, units and tolerance factor have the same k-mesh (both kinds); in particular the
recentred mesh `Mesh.ifftn` returns transforms to the k-mesh of the original. -/
theorem kmesh_position_independent (m m' : Mesh) (rfft : Bool) (h1 : m'.ndim = m.ndim) (h2 : m'.n = m.n)
    (h3 : ∀ a, a < m.ndim → m'.region.edge a = m.region.edge a)
    (hd : m'.region.dims = m.region.dims) (hu : m'.region.units = m.region.units)
    (ht : m'.region.tol = m.region.tol) :
    kMesh m' rfft = kMesh m rfft ∧ kMesh (originMesh m m.n) rfft = kMesh m rfft :=
  ⟨kMesh_congr m m' rfft h1 h2 h3 hd hu ht, kMesh_originMesh m rfft⟩

/-- **`Mesh.fftn ∘ Mesh.ifftn` on a k-mesh that did not come from `Mesh.fftn`.**  On every valid
k-mesh whose stripped names are distinct both calls succeed; the result has the counts and cell
sizes of the k-mesh and its zero frequency in cell `⌊n/2⌋`; and it IS the k-mesh exactly when the
k-mesh is canonical (`KCanonical`: names `k_…`, units `(…)$^{-1}$`, cell `⌊n/2⌋` centred at 0, no
bc, no subregions) — as every result of `Mesh.fftn` is. -/
theorem fftn_ifftn_mesh (k : Mesh) (hk : k.Inv) (hd : hasDup (k.region.dims.map (stripPre "k_")) = false) :
    ∃ b k', meshIfftn k false none = .ok b ∧ meshFftn b false = .ok k' ∧
      (∀ a, a < k.ndim → k'.nAt a = k.nAt a ∧ k'.cellAt a = k.cellAt a ∧
        k'.centreAx a ((k.nAt a / 2 : Nat) : Int) = 0) ∧
      (KCanonical k → k' = k) ∧ (∀ m : Mesh, m.Inv → KCanonical (kMesh m false)) := by
  have hr := rMesh_inv k hk k.n hk.2.1 hk.2.2 hd
  have h1 : meshIfftn k false none = .ok (rMesh k k.n) :=
    (meshIfftn_ok_iff k hk false none _).mpr ⟨k.n, ifftShape_false_none k, hk.2.2, hd, rfl⟩
  have h2 := meshFftn_ok (rMesh k k.n) false hr
  refine ⟨_, _, h1, h2, ?_, fun hc => kMesh_rMesh_of_canonical k hk hd hc, kMesh_canonical⟩
  intro a ha
  have := kMesh_rMesh_cell k hk hd a ha
  refine ⟨this.1, this.2, ?_⟩
  have hz := kcell_zero_frequency (rMesh k k.n) _ h2 hr a (by rw [rMesh_ndim]; exact ha)
  exact hz

/-! ### (d.3) inverse transforms of k-space fields that did not come from a forward transform -/

section ring3
variable {R : Type} [CommRing R]

/-- **`Field.ifftn` on a valid field — acceptance as an equivalence, and the result.**  For every
valid field (ANY k-space field, not only results of `fftn`): the call succeeds iff no two dimension
names coincide once `k_` is stripped and no two component labels coincide once `ft_` is stripped;
the result then lives on `mesh.ifftn()`, keeps component count and unit, strips `ft_` from every
label and renames the mapping entry by entry (`ft_` off the keys, `k_` off the values). -/
theorem ifftn_accepts_iff (ρs : List (Root R)) (f : CF R) (hf : CFInv f) (g : CF R) :
    ifftn ρs f = .ok g ↔
      hasDup (f.mesh.region.dims.map (stripPre "k_")) = false ∧
      (∀ vs, f.vdims = some vs → hasDup (vs.map (stripPre "ft_")) = false) ∧
      g = { mesh := rMesh f.mesh f.mesh.n, nvdim := f.nvdim, data := ifftnArr ρs f.nvdim f.data,
            vdims := f.vdims.map fun vs => vs.map (stripPre "ft_"),
            vmap := f.vmap.map fun p => (stripPre "ft_" p.1, stripPre "k_" p.2), unit := f.unit } :=
  ifftn_ok_iff ρs f hf g

/-- **`Field.irfftn(shape)` on a valid field — acceptance as an equivalence** (the model the
driver runs, numpy's convention for inconsistent half spectra): the call succeeds iff the counts
`s` derived from `shape` are accepted and positive and names and labels stay distinct once
stripped; the result lives on `mesh.ifftn(rfft=True, shape)` and holds `irfftnArrNP` for the
counts `s`.  Acceptance never depends on the data. -/
theorem irfftn_accepts_iff (conj : R → R) (half : R) (ρs : List (Root R)) (f : CF R) (hf : CFInv f)
    (shape : Option (List Nat)) (g : CF R) :
    irfftnNP conj half ρs f shape = .ok g ↔
      ∃ s, ifftShape f.mesh true shape = .ok s ∧ (∀ a, a < f.mesh.ndim → 0 < s.getD a 0) ∧
        hasDup (f.mesh.region.dims.map (stripPre "k_")) = false ∧
        (∀ vs, f.vdims = some vs → hasDup (vs.map (stripPre "ft_")) = false) ∧
        g = { mesh := rMesh f.mesh s, nvdim := f.nvdim, data := irfftnArrNP conj half ρs f.nvdim s f.data,
              vdims := f.vdims.map fun vs => vs.map (stripPre "ft_"),
              vmap := f.vmap.map fun p => (stripPre "ft_" p.1, stripPre "k_" p.2), unit := f.unit } :=
  irfftnNP_ok_iff conj half ρs f hf shape g

/-- **Forward ∘ inverse = identity at field level**, for every valid k-space field with distinct
stripped names and labels (hypotheses on the INPUT only): `F.ifftn()` and `F.ifftn().fftn()` both
succeed; the result has the counts and cell sizes of `F`'s mesh with the zero frequency in cell
`⌊n/2⌋`, the component count, the unit, labels `ft_ + (label without ft_)` and the original value in
every cell and component; it lives on `F`'s own mesh whenever that mesh is canonical, and has `F`'s
own labels whenever they all start with `ft_`. -/
theorem fftn_ifftn (ρs : List (Root R)) (f : CF R) (hf : CFInv f) (hρ : Roots f.mesh.n ρs)
    (hd : hasDup (f.mesh.region.dims.map (stripPre "k_")) = false)
    (hlab : ∀ vs, f.vdims = some vs → hasDup (vs.map (stripPre "ft_")) = false) :
    ∃ h g, ifftn ρs f = .ok h ∧ fftn ρs h = .ok g ∧
      (∀ a, a < f.mesh.ndim → g.mesh.nAt a = f.mesh.nAt a ∧ g.mesh.cellAt a = f.mesh.cellAt a) ∧
      (KCanonical f.mesh → g.mesh = f.mesh) ∧
      g.nvdim = f.nvdim ∧ g.unit = f.unit ∧
      g.vdims = f.vdims.map (fun vs => vs.map fun v => "ft_" ++ stripPre "ft_" v) ∧
      g.vmap = f.vmap.map (fun p => ("ft_" ++ stripPre "ft_" p.1, "k_" ++ stripPre "k_" p.2)) ∧
      ((∀ vs, f.vdims = some vs → ∀ v ∈ vs, "ft_".toList.isPrefixOf v.toList = true) → g.vdims = f.vdims) ∧
      ∀ m, inRange f.mesh.n m = true → ∀ c, c < f.nvdim → compA g.data c m = compA f.data c m := by
  refine ⟨_, _, (ifftn_ok_iff ρs f hf _).mpr ⟨hd, hlab, rfl⟩, fftn_ifftn_ok ρs f hf hd hlab,
    fun a ha => kMesh_rMesh_cell f.mesh hf.mesh hd a ha,
    fun hc => kMesh_rMesh_of_canonical f.mesh hf.mesh hd hc, rfl, rfl, ?_, ?_, ?_, ?_⟩
  · show fwdLabels (f.vdims.map fun vs => vs.map (stripPre "ft_")) = _
    cases f.vdims with
    | none => rfl
    | some vs => simp [fwdLabels, List.map_map, Function.comp_def]
  · show fwdMap (f.vmap.map fun p => (stripPre "ft_" p.1, stripPre "k_" p.2)) = _
    simp [fwdMap, List.map_map, Function.comp_def]
  · intro hpre
    show fwdLabels (f.vdims.map fun vs => vs.map (stripPre "ft_")) = f.vdims
    cases hv : f.vdims with
    | none => rfl
    | some vs =>
      simp only [fwdLabels, Option.map_some, List.map_map, Option.some.injEq]
      conv => rhs; rw [← List.map_id vs]
      apply List.map_congr_left
      intro v hvm
      exact pre_strip "ft_" v (hpre vs hv v hvm)
  · intro m hm c hc
    rw [← hf.shape] at hm hρ
    exact fftn_ifftn_arr ρs f.nvdim f.data hρ m hm c hc

/-! ### (d.4) `irfftn` as one sum; numpy's convention on arbitrary half spectra -/

/-- **The real inverse transform is the inverse DFT of the Hermitian extension, as ONE sum.**
For the model of `irfftn` on Hermitian-consistent input (`irfftn`), every component of every
real-space cell `j` of the result holds `Π_a(1/s_a)` times the sum over ALL cells `m` of the
output box `s` (the counts `mesh.ifftn(rfft=True, shape)` returns — even or odd last count) of
`Ã[m] · Π_{a<last} wi_a^(m_a j_a) w_a^(⌊s_a/2⌋ j_a) · wi_last^(m_last j_last)`, i.e. `Ã[m]·exp(+2πi k_m·r_j)`,
where `Ã` is the array itself for last index `≤ ⌊s_last/2⌋` and the conjugate of the mirror cell
beyond (`hermExtS`, in the array's own coordinates: leading axes shifted, last axis not). -/
theorem irfftn_is_idft (conj : R → R) (ρs : List (Root R)) (f g : CF R) (hf : CFInv f) (shape : Option (List Nat))
    (h : irfftn conj ρs f shape = .ok g) (hρ : Roots g.mesh.n ρs) (j : List Nat) (c : Nat) (hc : c < f.nvdim) :
    compA g.data c j = ninvProd ρs g.mesh.n * sumBox g.mesh.n fun m =>
      hermExtS conj g.mesh.n (compA f.data c) m * phaseR (ρs.map Root.swap) g.mesh.n m j := by
  obtain ⟨s, hs, _, _, _, rfl⟩ := (irfftn_ok_iff conj ρs f hf shape g).mp h
  have hsh : f.data.shape = halfShape s := by rw [ifftShape_half f.mesh hf.mesh shape s hs]; exact hf.shape
  exact irfftnArr_is_idft conj ρs f.nvdim s f.data hsh hρ j c hc

/-- **What the library computes on ANY half spectrum, as one sum** (`irfftnNP`, numpy's
convention): the same inverse DFT of the Hermitian extension, after the two last-axis planes that
are their own mirror image (last index 0 and, for an even output count, `s_last/2`) were replaced
by their Hermitian part `(A[m] + conj A[mirror m])/2` — pocketfft ignores the imaginary part of
these entries once the leading axes are inverted. -/
theorem irfftn_np_is_idft (conj : R → R) (half : R) (ρs : List (Root R)) (f g : CF R) (hf : CFInv f)
    (shape : Option (List Nat)) (h : irfftnNP conj half ρs f shape = .ok g) (hρ : Roots g.mesh.n ρs)
    (j : List Nat) (c : Nat) (hc : c < f.nvdim) :
    compA g.data c j = ninvProd ρs g.mesh.n * sumBox g.mesh.n fun m =>
      hermExtS conj g.mesh.n (symPlanes conj half g.mesh.n (compA f.data c)) m *
        phaseR (ρs.map Root.swap) g.mesh.n m j := by
  obtain ⟨s, hs, _, _, _, rfl⟩ := (irfftnNP_ok_iff conj half ρs f hf shape g).mp h
  have hsh : f.data.shape = halfShape s := by rw [ifftShape_half f.mesh hf.mesh shape s hs]; exact hf.shape
  exact irfftnArrNP_is_idft conj half ρs f.nvdim s f.data hsh hρ j c hc

/-- **On Hermitian-consistent half spectra the library's `irfftn` is the plain one**: if every
component of the array is conjugate-symmetric on its self-mirror planes (`HermPlanes`: what
`rfftn` of real data produces), `irfftnNP` and `irfftn` succeed together and agree in mesh,
labels, mapping, unit and every value — so every theorem about `irfftn` (`irfftn_rfftn`,
`irfftn_is_idft`, `irfftn_returns_real`, …) is a theorem about what the library computes. -/
theorem irfftn_np_eq_irfftn (conj : R → R) (half : R) (hh : half * 2 = 1) (ρs : List (Root R)) (f : CF R)
    (hf : CFInv f) (shape : Option (List Nat)) (g : CF R) (h : irfftnNP conj half ρs f shape = .ok g)
    (hcons : ∀ c, c < f.nvdim → HermPlanes conj g.mesh.n (compA f.data c)) :
    ∃ g', irfftn conj ρs f shape = .ok g' ∧ g'.mesh = g.mesh ∧ g'.nvdim = g.nvdim ∧ g'.vdims = g.vdims ∧
      g'.vmap = g.vmap ∧ g'.unit = g.unit ∧
      ∀ j c, c < f.nvdim → compA g'.data c j = compA g.data c j := by
  obtain ⟨s, hs, hp, hd, hl, rfl⟩ := (irfftnNP_ok_iff conj half ρs f hf shape g).mp h
  have hsh : f.data.shape = halfShape s := by rw [ifftShape_half f.mesh hf.mesh shape s hs]; exact hf.shape
  refine ⟨_, (irfftn_ok_iff conj ρs f hf shape _).mpr ⟨s, hs, hp, hd, hl, rfl⟩, rfl, rfl, rfl, rfl, rfl, ?_⟩
  intro j c hc
  exact (irfftnArrNP_eq_of_consistent conj half hh ρs f.nvdim s f.data hsh c hc (hcons c hc) j).symm

/-- **The library's `irfftn` returns real data on EVERY half spectrum** (no consistency
hypothesis): every cell and component of `irfftnNP` is fixed by the conjugation, for even and odd
output counts. -/
theorem irfftn_np_returns_real (conj : R → R) (hc : IsConj conj) (hinv : ∀ x, conj (conj x) = x) (half : R)
    (hh : half * 2 = 1) (ρs : List (Root R)) (f g : CF R) (hf : CFInv f) (shape : Option (List Nat))
    (h : irfftnNP conj half ρs f shape = .ok g) (hρ : Roots g.mesh.n ρs) (hcr : ConjRoots conj g.mesh.n ρs)
    (j : List Nat) (c : Nat) (hcv : c < f.nvdim) :
    conj (compA g.data c j) = compA g.data c j := by
  obtain ⟨s, hs, _, _, _, rfl⟩ := (irfftnNP_ok_iff conj half ρs f hf shape g).mp h
  have hsh : f.data.shape = halfShape s := by rw [ifftShape_half f.mesh hf.mesh shape s hs]; exact hf.shape
  exact irfftnArrNP_real conj hc hinv half hh ρs f.nvdim s f.data hsh hρ hcr c hcv j

/-- **Real forward ∘ real inverse at field level**, for every valid half-spectrum field with
distinct stripped names and labels and every accepted `shape`: `G.irfftn(shape)` and
`G.irfftn(shape).rfftn()` both succeed; the result has the counts and cell sizes of `G`'s mesh,
component count and unit, and holds in every cell the half spectrum with its self-mirror planes
replaced by their Hermitian part — `G` itself in every cell exactly where `G` is consistent
(`symPlanes_of_consistent`), in particular on every cell off the two planes. -/
theorem rfftn_irfftn (conj : R → R) (half : R) (ρs : List (Root R)) (f : CF R) (hf : CFInv f)
    (shape : Option (List Nat)) (s : List Nat) (hs : ifftShape f.mesh true shape = .ok s)
    (hp : ∀ a, a < f.mesh.ndim → 0 < s.getD a 0) (hρ : Roots s ρs)
    (hd : hasDup (f.mesh.region.dims.map (stripPre "k_")) = false)
    (hlab : ∀ vs, f.vdims = some vs → hasDup (vs.map (stripPre "ft_")) = false) :
    ∃ h g, irfftnNP conj half ρs f shape = .ok h ∧ rfftn ρs h = .ok g ∧ h.mesh.n = s ∧
      g.mesh.n = f.mesh.n ∧ (∀ a, a < f.mesh.ndim → g.mesh.cellAt a = f.mesh.cellAt a) ∧
      g.nvdim = f.nvdim ∧ g.unit = f.unit ∧
      g.vdims = f.vdims.map (fun vs => vs.map fun v => "ft_" ++ stripPre "ft_" v) ∧
      g.vmap = f.vmap.map (fun p => ("ft_" ++ stripPre "ft_" p.1, "k_" ++ stripPre "k_" p.2)) ∧
      (∀ m, inRange f.mesh.n m = true → ∀ c, c < f.nvdim →
        compA g.data c m = symPlanes conj half s (compA f.data c) m) ∧
      (∀ m, inRange f.mesh.n m = true → ∀ c, c < f.nvdim →
        ¬ (m.getLastD 0 = 0 ∨ 2 * m.getLastD 0 = s.getLastD 0) → compA g.data c m = compA f.data c m) := by
  have hl := ifftShape_length f.mesh true shape s hf.mesh.2.1 hs
  have hhalf := ifftShape_half f.mesh hf.mesh shape s hs
  have hsh : f.data.shape = halfShape s := by rw [hhalf]; exact hf.shape
  have hpos : ∀ n ∈ s, 0 < n := by
    intro n hn
    obtain ⟨i, hi, rfl⟩ := List.getElem_of_mem hn
    have := hp i (by omega)
    simpa [List.getD_eq_getElem?_getD, hi] using this
  have hcell := kMesh_rMesh_cell_half f.mesh hf.mesh hd s hl hp
  have hval : ∀ m, inRange f.mesh.n m = true → ∀ c, c < f.nvdim →
      compA (rfftnArr ρs f.nvdim (irfftnArrNP conj half ρs f.nvdim s f.data)) c m
        = symPlanes conj half s (compA f.data c) m := by
    intro m hm c hc
    rw [← hhalf] at hm
    exact rfftn_irfftnNP_arr conj half ρs f.nvdim s f.data hsh hpos hρ m hm c hc
  refine ⟨_, _, (irfftnNP_ok_iff conj half ρs f hf shape _).mpr ⟨s, hs, hp, hd, hlab, rfl⟩,
    rfftn_irfftnNP_ok conj half ρs f hf s hl hp hd hlab, rfl, by rw [← hhalf]; exact hcell.1, hcell.2, rfl, rfl,
    ?_, ?_, hval, ?_⟩
  · show fwdLabels (f.vdims.map fun vs => vs.map (stripPre "ft_")) = _
    cases f.vdims with
    | none => rfl
    | some vs => simp [fwdLabels, List.map_map, Function.comp_def]
  · show fwdMap (f.vmap.map fun p => (stripPre "ft_" p.1, stripPre "k_" p.2)) = _
    simp [fwdMap, List.map_map, Function.comp_def]
  intro m hm c hc hnp
  rw [hval m hm c hc]
  unfold symPlanes
  rw [if_neg hnp]

end ring3

/-! ### (d.5) shift theorem, linearity at field level -/

section ring4
variable {R : Type} [CommRing R]

/-- **Shift theorem.**  Let `f'` be the field `f` translated cyclically by whole cells,
`t = (t_a)` cells along axis `a` (same mesh, `f'[r] = f[(r - t) mod n]`).  Then in every k-cell `m`
and component, `Field.fftn` of `f'` holds the value for `f` times
`phase(m, t) = Π_a w_a^(m_a t_a) wi_a^(⌊n_a/2⌋ t_a) = exp(-2πi k_m·(t·cell))`, the phase of the
translation vector at that k-cell's frequency (`phase_is_k_dot_r`); same mesh, labels, unit. -/
theorem fftn_shift_theorem (ρs : List (Root R)) (f g g' : CF R) (t : List Nat) (ht : t.length = f.data.shape.length)
    (h : fftn ρs f = .ok g) (h' : fftn ρs { f with data := rollArr t f.data } = .ok g')
    (hρ : Roots f.data.shape ρs) (m : List Nat) (hm : inRange f.data.shape m = true) (c : Nat) (hc : c < f.nvdim) :
    g'.mesh = g.mesh ∧ compA g'.data c m = phase ρs f.data.shape m t * compA g.data c m := by
  unfold fftn at h h'
  simp only at h'
  split at h
  · cases h
  · rename_i k hk
    rw [hk] at h'
    simp only at h'
    rw [(finish_ok h).2.1, (finish_ok h').2.1, (finish_ok h).1, (finish_ok h').1]
    exact ⟨rfl, fftnArr_translate ρs f.nvdim f.data hρ t ht m hm c hc⟩

/-- the shift theorem for the real transform: the last axis contributes `w^(m_last t_last)`
(unshifted index) -/
theorem rfftn_shift_theorem (ρs : List (Root R)) (f g g' : CF R) (t : List Nat) (ht : t.length = f.data.shape.length)
    (h : rfftn ρs f = .ok g) (h' : rfftn ρs { f with data := rollArr t f.data } = .ok g')
    (hρ : Roots f.data.shape ρs) (m : List Nat) (hm : inRange (halfShape f.data.shape) m = true)
    (c : Nat) (hc : c < f.nvdim) :
    g'.mesh = g.mesh ∧ compA g'.data c m = phaseR ρs f.data.shape m t * compA g.data c m := by
  unfold rfftn at h h'
  simp only at h'
  split at h
  · cases h
  · rename_i k hk
    rw [hk] at h'
    simp only at h'
    rw [(finish_ok h).2.1, (finish_ok h').2.1, (finish_ok h).1, (finish_ok h').1]
    exact ⟨rfl, rfftnArr_translate ρs f.nvdim f.data hρ t ht m hm c hc⟩

/-- a translation by zero cells, or by a whole period along every axis, is no translation -/
theorem roll_full_period (ns r : List Nat) (hr : inRange ns r = true) : rollIdx ns ns r = r ∧
    rollIdx ns (ns.map fun _ => 0) r = r := by
  induction ns generalizing r with
  | nil => cases r <;> simp_all [inRange, rollIdx]
  | cons n ns ih =>
    cases r with
    | nil => simp [inRange] at hr
    | cons r0 rs =>
      rw [inRange_cons] at hr
      simp only [rollIdx, List.map_cons, (ih rs hr.2).1, (ih rs hr.2).2, Nat.mod_self, Nat.zero_mod, Nat.sub_zero]
      have : (r0 + n) % n = r0 := by rw [Nat.add_mod_right, Nat.mod_eq_of_lt hr.1]
      rw [this]
      exact ⟨rfl, rfl⟩

/-- **Linearity at field level**: if three fields on one mesh with the same component count and
labels satisfy `f₃ = α·f₁ + β·f₂` cell by cell, then so do their `Field.fftn` (which all succeed
or fail together, on the same k-mesh) — and likewise `Field.rfftn` and `Field.ifftn`. -/
theorem fftn_linear_field (ρs : List (Root R)) (f1 f2 f3 g1 g2 g3 : CF R) (α β : R)
    (hm2 : f2.mesh = f1.mesh) (hm3 : f3.mesh = f1.mesh) (hn2 : f2.nvdim = f1.nvdim) (hn3 : f3.nvdim = f1.nvdim)
    (hs2 : f2.data.shape = f1.data.shape) (hs3 : f3.data.shape = f1.data.shape)
    (hab : ∀ i c, compA f3.data c i = α * compA f1.data c i + β * compA f2.data c i)
    (m : List Nat) (c : Nat) (hc : c < f1.nvdim) :
    (fftn ρs f1 = .ok g1 → fftn ρs f2 = .ok g2 → fftn ρs f3 = .ok g3 →
      g2.mesh = g1.mesh ∧ g3.mesh = g1.mesh ∧ compA g3.data c m = α * compA g1.data c m + β * compA g2.data c m) ∧
    (rfftn ρs f1 = .ok g1 → rfftn ρs f2 = .ok g2 → rfftn ρs f3 = .ok g3 →
      g2.mesh = g1.mesh ∧ g3.mesh = g1.mesh ∧ compA g3.data c m = α * compA g1.data c m + β * compA g2.data c m) ∧
    (ifftn ρs f1 = .ok g1 → ifftn ρs f2 = .ok g2 → ifftn ρs f3 = .ok g3 →
      g2.mesh = g1.mesh ∧ g3.mesh = g1.mesh ∧ compA g3.data c m = α * compA g1.data c m + β * compA g2.data c m) := by
  refine ⟨?_, ?_, ?_⟩
  · intro h1 h2 h3
    unfold fftn at h1 h2 h3
    rw [hm2] at h2; rw [hm3] at h3
    split at h1
    · cases h1
    · rename_i k hk
      rw [hk] at h2 h3
      simp only at h2 h3
      rw [(finish_ok h1).2.1, (finish_ok h2).2.1, (finish_ok h3).2.1, (finish_ok h1).1, (finish_ok h2).1,
        (finish_ok h3).1, hn2, hn3]
      exact ⟨rfl, rfl, fft_linear ρs f1.nvdim f1.data f2.data f3.data α β hs2 hs3 hab m c hc⟩
  · intro h1 h2 h3
    unfold rfftn at h1 h2 h3
    rw [hm2] at h2; rw [hm3] at h3
    split at h1
    · cases h1
    · rename_i k hk
      rw [hk] at h2 h3
      simp only at h2 h3
      rw [(finish_ok h1).2.1, (finish_ok h2).2.1, (finish_ok h3).2.1, (finish_ok h1).1, (finish_ok h2).1,
        (finish_ok h3).1, hn2, hn3]
      exact ⟨rfl, rfl, rfft_linear ρs f1.nvdim f1.data f2.data f3.data α β hs2 hs3 hab m c hc⟩
  · intro h1 h2 h3
    unfold ifftn at h1 h2 h3
    rw [hm2] at h2; rw [hm3] at h3
    split at h1
    · cases h1
    · rename_i k hk
      rw [hk] at h2 h3
      simp only at h2 h3
      rw [(finish_ok h1).2.1, (finish_ok h2).2.1, (finish_ok h3).2.1, (finish_ok h1).1, (finish_ok h2).1,
        (finish_ok h3).1, hn2, hn3]
      exact ⟨rfl, rfl, ifftn_linear ρs f1.nvdim f1.data f2.data f3.data α β hs2 hs3 hab m c hc⟩

end ring4

/-! ### (d.6) the value theorems over ℂ with the phase written as `exp(∓2πi k·r)` -/

/-- **The property statement, verbatim, for complex fields.**  On every valid field with complex
data `Field.fftn` (run with the roots `exp(-2πi/n_a)`) succeeds, and every component of every
k-cell `m` holds `Σ_r value(r) · exp(-2πi k·r)`: the sum over all real-space cells `r` with
`k·r = Σ_a k_a · (r_a · cell_a)`, `k_a` the coordinate of the centre of k-cell `m` of the k-mesh
`mesh.fftn()` and `r_a·cell_a` the position of cell `r` counted from the first cell. -/
theorem fftn_is_dft_exp (f : CF ℂ) (hf : CFInv f) :
    ∃ k g, meshFftn f.mesh false = .ok k ∧ fftn (f.mesh.n.map cRoot) f = .ok g ∧ g.mesh = k ∧
      ∀ m, inRange f.mesh.n m = true → ∀ c, c < f.nvdim →
        compA g.data c m = sumBox f.mesh.n fun r => compA f.data c r *
          Complex.exp (-(2 * Real.pi * Complex.I) *
            ((sumN f.mesh.ndim fun a => k.centreAx a ((m.getD a 0 : Nat) : Int) *
              ((r.getD a 0 : ℚ) * f.mesh.cellAt a) : ℚ) : ℂ)) := by
  have hk := meshFftn_ok f.mesh false hf.mesh
  have hg := fftn_ok (f.mesh.n.map cRoot) f hf
  refine ⟨_, _, hk, hg, rfl, ?_⟩
  intro m hm c hc
  have hpos := mesh_counts_pos f.mesh hf.mesh
  have hρ : Roots f.data.shape (f.mesh.n.map cRoot) := by rw [hf.shape]; exact cRoots f.mesh.n hpos
  rw [fftn_is_dft _ f _ hg hρ m (by rw [hf.shape]; exact hm) c hc, hf.shape]
  apply sumBox_congr
  intro r _
  rw [phase_complex f.mesh.n hpos m r, kr_eq_sumN, hf.mesh.2.1]
  congr 4
  apply sumN_congr
  intro a ha
  rw [phase_is_k_dot_r f.mesh _ hk hf.mesh a ha]
  rfl

/-- **The same for the inverse transform**: on every valid complex k-space field accepted by
`Field.ifftn`, every component of every real-space cell `j` holds
`(1/N) Σ_m value(m) · exp(+2πi κ_m·j)` with `κ_m·j = Σ_a (m_a - ⌊n_a/2⌋)·j_a / n_a` — the k-cell
centres of `mesh.ifftn().fftn()` times the cell positions of `mesh.ifftn()` (`kr_is_k_dot_r`). -/
theorem ifftn_is_idft_exp (f g : CF ℂ) (hf : CFInv f) (h : ifftn (f.mesh.n.map cRoot) f = .ok g)
    (j : List Nat) (c : Nat) (hc : c < f.nvdim) :
    compA g.data c j = ninvProd (f.mesh.n.map cRoot) f.mesh.n * sumBox f.mesh.n fun m =>
      compA f.data c m * Complex.exp ((2 * Real.pi * Complex.I) * ((kr f.mesh.n m j : ℚ) : ℂ)) := by
  have hpos := mesh_counts_pos f.mesh hf.mesh
  have hρ : Roots f.data.shape (f.mesh.n.map cRoot) := by rw [hf.shape]; exact cRoots f.mesh.n hpos
  rw [ifftn_is_idft _ f g h hρ j c hc, hf.shape]
  congr 1
  apply sumBox_congr
  intro m _
  rw [phase_swap_complex f.mesh.n hpos m j]

/-- `kr` is `k·r`: for the k-mesh of ANY valid mesh with the counts `ns`, `kr ns m r` is the dot
product of the centre of k-cell `m` with the position of cell `r` counted from the first cell -/
theorem kr_is_k_dot_r (msh k : Mesh) (hm : msh.Inv) (h : meshFftn msh false = .ok k) (m r : List Nat) :
    kr msh.n m r = sumN msh.ndim fun a => k.centreAx a ((m.getD a 0 : Nat) : Int) * ((r.getD a 0 : ℚ) * msh.cellAt a) := by
  rw [kr_eq_sumN, hm.2.1]
  apply sumN_congr
  intro a ha
  rw [phase_is_k_dot_r msh k h hm a ha]
  rfl

/-- **The real transform over ℂ**: every component of every cell `m` of `Field.rfftn` holds
`Σ_r value(r) · exp(-2πi κ·r)` with `κ·r = Σ_{a<last} (m_a - ⌊n_a/2⌋) r_a / n_a + m_last r_last / n_last`
(last axis unshifted: the centres of `mesh.fftn(rfft=True)`, `kcell_centres_rfft`). -/
theorem rfftn_is_dft_exp (f : CF ℂ) (hf : CFInv f) :
    ∃ g, rfftn (f.mesh.n.map cRoot) f = .ok g ∧ meshFftn f.mesh true = .ok g.mesh ∧
      ∀ m, inRange (halfShape f.mesh.n) m = true → ∀ c, c < f.nvdim →
        compA g.data c m = sumBox f.mesh.n fun r => compA f.data c r *
          Complex.exp (-(2 * Real.pi * Complex.I) * ((krR f.mesh.n m r : ℚ) : ℂ)) := by
  have hg := rfftn_ok (f.mesh.n.map cRoot) f hf
  refine ⟨_, hg, meshFftn_ok f.mesh true hf.mesh, ?_⟩
  intro m hm c hc
  have hpos := mesh_counts_pos f.mesh hf.mesh
  have hρ : Roots f.data.shape (f.mesh.n.map cRoot) := by rw [hf.shape]; exact cRoots f.mesh.n hpos
  rw [rfftn_is_dft _ f _ hg hρ m (by rw [hf.shape]; exact hm) c hc, hf.shape]
  apply sumBox_congr
  intro r _
  rw [phaseR_complex f.mesh.n hpos m r]

/-! ### (d.7) the driver runs the library-convention `irfftn` -/

section natural2
variable {S R : Type} [Zero S] [One S] [Add S] [Mul S] [Zero R] [One R] [Add R] [Mul R]

/-- `Field.irfftn` in the library's convention is natural in its carrier too: for every map `φ`
preserving `0 1 + *` that intertwines the conjugations, with the image of the constant `half` -/
theorem irfftn_np_commutes_with_hom (φ : S → R) (h : IsHom φ) (cS : S → S) (cR : R → R)
    (hc : ∀ x, φ (cS x) = cR (φ x)) (hS : S) (ρs : List (Root S)) (f : CF S) (shape : Option (List Nat)) :
    irfftnNP cR (φ hS) (ρs.map (Root.map φ)) (f.map φ) shape = mapM φ (irfftnNP cS hS ρs f shape) :=
  h.irfftnNP cS cR hc hS ρs f shape

end natural2

section driver2
variable {R : Type} [CommRing R]

/-- **What the driver computes for `irfftn`, evaluated, is the library-convention model over
`R`**: the driver runs `irfftnNP (Poly.conj s) Poly.half (Poly.roots s) f shape` with `s` the output
counts; evaluating every cell is the same as running `irfftnNP` over `R` with the evaluated roots,
the conjugation of `R` and the value of the constant `1/2`, which satisfies `half·2 = 1` — the
hypothesis of `irfftn_np_eq_irfftn` / `irfftn_np_returns_real`. -/
theorem driver_irfftn_np_evaluates_to_model (ev : Ev R) (conj : R → R) (s : List Nat) (hc : ev.ConjOK conj s.length)
    (hpos : ∀ a, a < s.length → 0 < s.getD a 1) (hζ : ∀ a, a < s.length → ev.ζ a ^ s.getD a 1 = 1)
    (f : CF Poly) (shape : Option (List Nat)) :
    mapM (ev.eval s.length) (irfftnNP (Poly.conj s) Poly.half (Poly.roots s) f shape)
      = irfftnNP conj (ev.eval s.length Poly.half) (ev.roots s) (f.map (ev.eval s.length)) shape ∧
    ev.eval s.length Poly.half * 2 = 1 := by
  refine ⟨?_, ?_⟩
  · rw [← (ev.eval_isHom s.length).irfftnNP (Poly.conj s) conj (fun p => ev.eval_conj conj s hc hpos hζ p),
      ev.eval_roots]
  · show ev.eval s.length (Poly.const (1 / 2) 0) * 2 = 1
    rw [ev.eval_const]
    simp only [Ev.coef, map_zero, zero_mul, add_zero]
    rw [← map_ofNat ev.q 2, ← map_mul]
    norm_num

end driver2

/-! ### (d.8) the real round trip in the library's convention -/

section ring5
variable {R : Type} [CommRing R]

/-- **What `rfftn` produces is Hermitian on its self-mirror planes, in the array's own
coordinates** (`HermPlanes`, the hypothesis of `irfftn_np_eq_irfftn`) — on every plane in fact. -/
theorem rfftn_output_hermitian_planes (conj : R → R) (hc : IsConj conj) (ρs : List (Root R)) (nv : Nat)
    (a : NDA (List R)) (hρ : Roots a.shape ρs) (hcr : ConjRoots conj a.shape ρs)
    (hreal : ∀ i c, conj (compA a c i) = compA a c i) (c : Nat) (hcv : c < nv) :
    HermPlanes conj a.shape (compA (rfftnArr ρs nv a) c) := by
  intro m hm _
  have h := rfftnArr_consistent conj hc ρs nv a hρ hcr hreal c hcv (fshiftR a.shape m)
    (fshiftR_inRange_full a.shape m hm)
  have hs : (rfftnArr ρs nv a).shape = halfShape a.shape := rfl
  rw [hs, ishiftR_half a.shape _ (by rw [fshiftR_length]; exact inRange_length _ _ hm),
    ishiftR_fshiftR_full a.shape m hm,
    ishiftR_half a.shape _ (negIdx_length a.shape _ (fshiftR_inRange_full a.shape m hm))] at h
  exact h

/-- **Real round trip for what the library computes**: on every valid field with conj-fixed
("real") data, `f.rfftn().irfftn(shape=f.mesh.n)` in the library's convention (`irfftnNP`)
succeeds and restores mesh counts, extent, names, units (centred at the origin), component count,
unit, labels, mapping and every value — even and odd last counts alike. -/
theorem irfftn_np_rfftn (conj : R → R) (hc : IsConj conj) (half : R) (hh : half * 2 = 1) (ρs : List (Root R))
    (f : CF R) (hf : CFInv f) (hρ : Roots f.mesh.n ρs) (hcr : ConjRoots conj f.mesh.n ρs)
    (hreal : ∀ i c, conj (compA f.data c i) = compA f.data c i) :
    ∃ g h, rfftn ρs f = .ok g ∧ irfftnNP conj half ρs g (some f.mesh.n) = .ok h ∧
      h.mesh = originMesh f.mesh f.mesh.n ∧ h.nvdim = f.nvdim ∧ h.unit = f.unit ∧
      h.vdims = f.vdims ∧ h.vmap = f.vmap ∧
      ∀ j, inRange f.mesh.n j = true → ∀ c, c < f.nvdim → compA h.data c j = compA f.data c j := by
  obtain ⟨g, h0, hg, hh0, _, hm0, hn0, hu0, hv0, hp0, hval⟩ := irfftn_rfftn conj hc ρs f hf hρ hcr hreal
  have hgd : g = { mesh := kMesh f.mesh true, nvdim := f.nvdim, data := rfftnArr ρs f.nvdim f.data,
                   vdims := fwdLabels f.vdims, vmap := fwdMap f.vmap, unit := f.unit } := by
    rw [rfftn_ok ρs f hf] at hg; injection hg with hg; exact hg.symm
  have hshape : (rfftnArr ρs f.nvdim f.data).shape = (kMesh f.mesh true).n := by
    rw [kMesh_n_half f.mesh hf.mesh, ← hf.shape]; rfl
  have hginv : CFInv g := by
    rw [hgd]; exact fwd_inv f hf (kMesh f.mesh true) (kMesh_inv f.mesh true hf.mesh) _ hshape
  obtain ⟨s, hs, hp, hd, hl, hres⟩ := (irfftn_ok_iff conj ρs g hginv (some f.mesh.n) h0).mp hh0
  have hsn : s = f.mesh.n := ((ifftShape_some_ok_iff g.mesh true f.mesh.n s).mp hs).1
  subst hsn
  refine ⟨g, _, hg, (irfftnNP_ok_iff conj half ρs g hginv (some f.mesh.n) _).mpr ⟨_, hs, hp, hd, hl, rfl⟩, ?_, ?_, ?_, ?_, ?_, ?_⟩
  · rw [← hm0, hres]
  · rw [← hn0, hres]
  · rw [← hu0, hres]
  · rw [← hv0, hres]
  · rw [← hp0, hres]
  · intro j hj c hcv
    rw [← hval j hj c hcv, hres]
    have hcv' : c < g.nvdim := by rw [hgd]; exact hcv
    have hsh : g.data.shape = halfShape f.mesh.n := by rw [hgd, ← hf.shape]; rfl
    show compA (irfftnArrNP conj half ρs g.nvdim f.mesh.n g.data) c j = compA (irfftnArr conj ρs g.nvdim f.mesh.n g.data) c j
    apply irfftnArrNP_eq_of_consistent conj half hh ρs g.nvdim f.mesh.n g.data hsh c hcv'
    rw [hgd]
    rw [← hf.shape] at hρ hcr ⊢
    exact rfftn_output_hermitian_planes conj hc ρs f.nvdim f.data hρ hcr hreal c hcv

end ring5

/-! ### (d.9) per component at field level; Hermitian spectra have real inverse transforms -/

section ring6
variable {R : Type} [CommRing R]

/-- **Transforms act per component, at field level**: whenever `Field.fftn` succeeds on a field,
it succeeds on the scalar field made of its component `c` alone (same mesh, no labels), on the
same k-mesh, and that transform is component `c` of the transform of the whole field. -/
theorem fftn_componentwise_field (ρs : List (Root R)) (f g : CF R) (h : fftn ρs f = .ok g) (c : Nat) (hc : c < f.nvdim) :
    ∃ gc, fftn ρs { mesh := f.mesh, nvdim := 1, data := ⟨f.data.shape, fun i => [compA f.data c i]⟩,
                    vdims := none, vmap := [], unit := f.unit } = .ok gc ∧
      gc.mesh = g.mesh ∧ gc.nvdim = 1 ∧ ∀ m, compA gc.data 0 m = compA g.data c m := by
  unfold fftn at h ⊢
  simp only
  split at h
  · cases h
  · rename_i k hk
    have hfo := finish_ok h
    have hshape : (fftnArr ρs 1 ⟨f.data.shape, fun i => [compA f.data c i]⟩).shape = k.n := hfo.2.2.2.2
    refine ⟨_, by unfold finish; exact mkCF_scalar k _ f.unit hshape, hfo.1.symm, rfl, ?_⟩
    intro m
    rw [hfo.2.1]
    exact (fft_componentwise ρs f.nvdim f.data c hc m).symm

/-- **A Hermitian spectrum has a real inverse transform** (the converse of `spectrum_hermitian`):
if in every k-cell the mirror cell holds the conjugate value, every cell and component of
`Field.ifftn` is fixed by the conjugation. -/
theorem ifftn_of_hermitian_is_real (conj : R → R) (hc : IsConj conj) (ρs : List (Root R)) (f g : CF R)
    (h : ifftn ρs f = .ok g) (hρ : Roots f.data.shape ρs) (hcr : ConjRoots conj f.data.shape ρs)
    (c : Nat) (hcv : c < f.nvdim)
    (hherm : ∀ m, inRange f.data.shape m = true → conj (compA f.data c (mirror f.data.shape m)) = compA f.data c m)
    (j : List Nat) : conj (compA g.data c j) = compA g.data c j := by
  unfold ifftn at h
  split at h
  · cases h
  · rw [(finish_ok h).2.1, ifftnArr_get _ _ _ _ _ hcv]
    apply idftN_real conj hc ρs f.data.shape hρ hcr
    intro k hk
    have hnk := negIdx_inRange f.data.shape k hk
    have := hherm (ishift f.data.shape (negIdx f.data.shape k)) (ishift_inRange _ _ hnk)
    unfold mirror at this
    rw [fshift_ishift _ _ hnk, negIdx_negIdx _ _ hk] at this
    exact this

end ring6

/-! ### (d.10) end to end for the driver's `irfftn` -/

section driver3
variable {R : Type} [CommRing R]

/-- **The driver's printed real inverse transform is the one-sum inverse DFT of the symmetrised
Hermitian extension.**  End to end for `Field.irfftn` in the library's convention: take the
symbolic result `g` of the driver's run on a valid symbolic half-spectrum field `f` with output
counts `s`, the printed dense table of any component of any cell `j`, and evaluate it the harness's
way with primitive roots: the value is `Π(1/s_a) Σ_m Ã[m]·exp(+2πi k_m·r_j)` over all cells `m` of
the output box, `Ã` the Hermitian extension (array coordinates) of the evaluated input whose
self-mirror planes were replaced by their Hermitian part. -/
theorem driver_irfftn_is_idft (ev : Ev R) (conj : R → R) (s : List Nat) (hc : ev.ConjOK conj s.length)
    (hp : PrimRoots ev s) (f g : CF Poly) (hf : CFInv f) (shape : Option (List Nat))
    (h : irfftnNP (Poly.conj s) Poly.half (Poly.roots s) f shape = .ok g) (hs : g.mesh.n = s)
    (j : List Nat) (c : Nat) (hcv : c < f.nvdim) :
    ev.evalDense s (Poly.dense s (compA g.data c j))
      = ninvProd (ev.roots s) s * sumBox s fun m =>
          hermExtS conj s (symPlanes conj (ev.eval s.length Poly.half) s
            (fun i => ev.eval s.length (compA f.data c i))) m * phaseR ((ev.roots s).map Root.swap) s m j := by
  have hh := ev.eval_isHom s.length
  have hpos : ∀ a, a < s.length → 0 < s.getD a 1 := fun a ha => (hp a ha).1
  have hζ : ∀ a, a < s.length → ev.ζ a ^ s.getD a 1 = 1 := fun a ha => (hp a ha).2.pow_n
  rw [ev.evalDense_dense s hpos hζ]
  have h1 := (driver_irfftn_np_evaluates_to_model ev conj s hc hpos hζ f shape).1
  rw [h] at h1
  have hf' : CFInv (f.map (ev.eval s.length)) := ⟨hf.mesh, hf.shape, hf.nv, hf.labels⟩
  have h2 := irfftn_np_is_idft conj (ev.eval s.length Poly.half) (ev.roots s) (f.map (ev.eval s.length)) _ hf' shape
    h1.symm (by show Roots g.mesh.n (ev.roots s); rw [hs]; exact ev.roots_Roots s hp) j c hcv
  rw [← compA_mapA hh g.data c j]
  rw [show (g.map (ev.eval s.length)).data = mapA (ev.eval s.length) g.data from rfl,
    show (g.map (ev.eval s.length)).mesh = g.mesh from rfl, hs] at h2
  rw [h2]
  have : compA (f.map (ev.eval s.length)).data c = fun i => ev.eval s.length (compA f.data c i) := by
    funext i
    exact compA_mapA hh f.data c i
  rw [this]

end driver3

/-! ### (d.11) `irfftn` from the stored half spectrum only -/

section ring7
variable {R : Type} [CommRing R]

/-- **The real inverse transform as a sum over the STORED half spectrum** (the c2r form), in the
library's convention, for every accepted `shape` and every parity of the output count `n`: every
component of every real-space cell `j` holds `Π(1/s_a)` times the sum over the cells `m` of the
half-spectrum array of `Â[m]·e^{+2πi k_m·r_j}` plus, for the entries with last index
`0 < l < ⌈n/2⌉` only, `conj(A[m])·e^{-2πi k_m·r_j}` (the entry of the Hermitian extension they stand
for); `Â = A` except on the planes `l = 0` and `l = n/2` (even `n`), which enter through their
Hermitian part.  No entry outside the stored array is referenced. -/
theorem irfftn_half_sum (conj : R → R) (half : R) (ρs : List (Root R)) (f g : CF R) (hf : CFInv f)
    (shape : Option (List Nat)) (h : irfftnNP conj half ρs f shape = .ok g) (hρ : Roots g.mesh.n ρs)
    (j : List Nat) (c : Nat) (hc : c < f.nvdim) :
    halfShape g.mesh.n = f.mesh.n ∧
    compA g.data c j = ninvProd ρs g.mesh.n * sumBox f.mesh.n fun m =>
      symPlanes conj half g.mesh.n (compA f.data c) m * phaseR (ρs.map Root.swap) g.mesh.n m j +
        (if 1 ≤ m.getLastD 0 ∧ m.getLastD 0 < g.mesh.n.getLastD 0 - g.mesh.n.getLastD 0 / 2
         then conj (compA f.data c m) * phaseR ρs g.mesh.n m j else 0) := by
  obtain ⟨s, hs, hp, _, _, rfl⟩ := (irfftnNP_ok_iff conj half ρs f hf shape g).mp h
  have hhalf := ifftShape_half f.mesh hf.mesh shape s hs
  have hsh : f.data.shape = halfShape s := by rw [hhalf]; exact hf.shape
  have hl := ifftShape_length f.mesh true shape s hf.mesh.2.1 hs
  have hpos : 0 < s.getLastD 0 := by
    rw [getLastD_eq_getD, hl]
    exact hp _ (last_lt f.mesh hf.mesh)
  refine ⟨hhalf, ?_⟩
  rw [← hhalf]
  exact irfftnArrNP_half_sum conj half ρs f.nvdim s f.data hsh hρ hpos j c hc

end ring7

/-- **The real inverse transform over ℂ, from the stored half spectrum**: for a valid complex
half-spectrum field accepted by `Field.irfftn(shape)` (library convention, `half = 1/2`, roots
`exp(-2πi/s_a)` of the output counts `s`), every component of every real-space cell `j` holds
`(1/N) Σ_m [ Â[m]·exp(+2πi κ_m·j) + (0 < m_last < ⌈n/2⌉ ? conj(A[m])·exp(-2πi κ_m·j) : 0) ]` over the
cells `m` of the stored array, `κ_m·j = Σ_{a<last}(m_a - ⌊s_a/2⌋) j_a/s_a + m_last j_last/s_last`. -/
theorem irfftn_half_sum_exp (f g : CF ℂ) (hf : CFInv f) (shape : Option (List Nat))
    (h : irfftnNP (starRingEnd ℂ) (1 / 2) (g.mesh.n.map cRoot) f shape = .ok g)
    (j : List Nat) (c : Nat) (hc : c < f.nvdim) :
    compA g.data c j = ninvProd (g.mesh.n.map cRoot) g.mesh.n * sumBox f.mesh.n fun m =>
      symPlanes (starRingEnd ℂ) (1 / 2) g.mesh.n (compA f.data c) m *
          Complex.exp ((2 * Real.pi * Complex.I) * ((krR g.mesh.n m j : ℚ) : ℂ)) +
        (if 1 ≤ m.getLastD 0 ∧ m.getLastD 0 < g.mesh.n.getLastD 0 - g.mesh.n.getLastD 0 / 2
         then (starRingEnd ℂ) (compA f.data c m) *
           Complex.exp (-(2 * Real.pi * Complex.I) * ((krR g.mesh.n m j : ℚ) : ℂ)) else 0) := by
  have hginv : g.mesh.Inv := by
    obtain ⟨s, hs, hp, hd, _, hg⟩ := (irfftnNP_ok_iff _ _ _ f hf shape g).mp h
    rw [hg]
    exact rMesh_inv f.mesh hf.mesh s (ifftShape_length f.mesh true shape s hf.mesh.2.1 hs) hp hd
  have hpos := mesh_counts_pos g.mesh hginv
  have := (irfftn_half_sum (starRingEnd ℂ) (1 / 2) (g.mesh.n.map cRoot) f g hf shape h
    (cRoots g.mesh.n hpos) j c hc).2
  rw [this]
  congr 1
  apply sumBox_congr
  intro m _
  rw [phaseR_swap_complex g.mesh.n hpos m j, phaseR_complex g.mesh.n hpos m j]


/-! ## Non-vacuity -/

/-- the mesh hypotheses of the geometry theorems hold for it, so `Mesh.fftn` succeeds on it for
both kinds and every theorem of part (a) applies -/
example : ∃ k, meshFftn exMesh true = .ok k ∧ k.nAt 2 = 2 ∧ k.nAt 0 = 3 := by
  refine ⟨kMesh exMesh true, (fftn_mesh exMesh true exMesh_inv).1, ?_, ?_⟩
  · exact (kcell_centres_rfft exMesh _ (fftn_mesh exMesh true exMesh_inv).1 exMesh_inv).1
  · exact ((kcell_centres_rfft exMesh _ (fftn_mesh exMesh true exMesh_inv).1 exMesh_inv).2.2 0 (by decide)).1

/-- a valid labelled 3-component field on that mesh: `CFInv` is satisfiable with a non-empty
mapping, so `fftn_total`, `ifftn_fftn`, `irfftn_rfftn` are not vacuous -/
example : CFInv ({ mesh := exMesh, nvdim := 3, data := ⟨[3, 1, 2], fun i => [(i.getD 0 0 : ℂ), 1, 2]⟩,
                   vdims := some ["a", "b", "c"], vmap := [("a", "x"), ("b", "y"), ("c", "z")],
                   unit := some "T" } : CF ℂ) :=
  ⟨exMesh_inv, rfl, by decide, Or.inr ⟨["a", "b", "c"], rfl, by simp, rfl, by decide +kernel, Or.inr rfl⟩⟩

/-- over ℚ, `-1` is a root for `n = 2` (and `1` for `n = 1`): `Roots` is satisfiable without ℂ -/
example : Roots [2, 1] [(⟨-1, -1, 1/2⟩ : Root ℚ), ⟨1, 1, 1⟩] := by
  refine ⟨⟨by norm_num, by norm_num, by norm_num, ?_⟩, ⟨by norm_num, by norm_num, by norm_num, ?_⟩, trivial⟩
  · intro k hk hk2
    have : k = 1 := by omega
    subst this
    simp [sumN]
  · intro k hk hk2; omega

/-- the evaluation hypotheses hold for the example shape with the harness's substitution, so
`driver_fftn_is_dft`, `poly_dense_value`, `poly_conj_is_conj` are not vacuous -/
example : PrimRoots (cEv [3, 1, 2]) [3, 1, 2] ∧ (cEv [3, 1, 2]).ConjOK (starRingEnd ℂ) 3 :=
  ⟨(driver_complex [3, 1, 2] (by decide)).1, (driver_complex [3, 1, 2] (by decide)).2.1⟩

/-- complex conjugation is an involution (hypothesis `hinv` of `irfftn_returns_real`); its
consistency hypothesis is met by every `rfftn` of real data (`rfftn_spectrum_consistent`) -/
example : ∀ x : ℂ, (starRingEnd ℂ) ((starRingEnd ℂ) x) = x := Complex.conj_conj

/-- a symbolic field as the driver builds it (Gaussian-rational constants) is a valid field, and
`fftn` over `Poly` succeeds on it: the hypothesis `fftn (Poly.roots shape) f = .ok g` of
`driver_fftn_is_dft` is satisfiable -/
example : ∃ g, fftn (Poly.roots [3, 1, 2])
    ({ mesh := exMesh, nvdim := 1,
       data := ⟨[3, 1, 2], fun i => [Poly.const (i.getD 0 0 : Rat) 1]⟩,
       vdims := none, vmap := [], unit := none } : CF Poly) = .ok g :=
  ⟨_, fftn_ok _ _ ⟨exMesh_inv, rfl, by decide, Or.inl ⟨rfl, rfl, rfl⟩⟩⟩

/-! ### non-vacuity, second round -/

/-- the k-mesh of the example mesh is valid, canonical and has distinct stripped names: the
hypotheses of `ifftn_mesh_accepts_iff`, `fftn_ifftn_mesh` (incl. `KCanonical`) are satisfiable -/
example : (kMesh exMesh false).Inv ∧ KCanonical (kMesh exMesh false) ∧
    hasDup ((kMesh exMesh false).region.dims.map (stripPre "k_")) = false :=
  ⟨kMesh_inv exMesh false exMesh_inv, kMesh_canonical exMesh exMesh_inv, hasDup_strip_kDim exMesh false exMesh_inv⟩

/-- both sides of the acceptance equivalences are inhabited: a valid mesh with the names
`k_x`, `x` is REFUSED by `Mesh.ifftn` -/
example : exCollide.Inv ∧ ¬ ∃ b, meshIfftn exCollide false none = .ok b := by
  refine ⟨exCollide_inv, ?_⟩
  rw [ifftn_mesh_default_accepts_iff exCollide exCollide_inv false]
  decide +kernel

/-- a k-space field that did not come from `fftn` (off-centre mesh, mixed prefixes) meets every
hypothesis of `fftn_ifftn`, `ifftn_accepts_iff`, `irfftn_accepts_iff`, `rfftn_irfftn` -/
example : CFInv exK ∧ hasDup (exK.mesh.region.dims.map (stripPre "k_")) = false ∧
    (∀ vs, exK.vdims = some vs → hasDup (vs.map (stripPre "ft_")) = false) ∧
    Roots exK.mesh.n ([3, 1, 2].map cRoot) := by
  refine ⟨exK_inv, by decide +kernel, ?_, cRoots [3, 1, 2] (by decide)⟩
  intro vs h
  have : vs = ["ft_a", "b", "ft_ft_c"] := by simp [exK] at h; exact h.symm
  subst this
  decide +kernel

/-- `HermPlanes` is satisfiable by a non-constant half spectrum on a 3-d shape with an odd, a
single-cell and an even axis: the real transform of real data -/
example : HermPlanes (starRingEnd ℂ) [3, 1, 2]
    (compA (rfftnArr ([3, 1, 2].map cRoot) 1 ⟨[3, 1, 2], fun i => [((i.getD 0 0 : Nat) : ℂ)]⟩) 0) :=
  rfftn_output_hermitian_planes (starRingEnd ℂ) conj_isConj _ 1 ⟨[3, 1, 2], fun i => [((i.getD 0 0 : Nat) : ℂ)]⟩
    (cRoots [3, 1, 2] (by decide)) (cConjRoots [3, 1, 2])
    (by intro i c; simp only [compA]; cases c <;> simp) 0 (by decide)

/-- and it is a genuine restriction: on the constant half spectrum `i` of two cells numpy's
convention changes the zero-frequency entry (to 0), so `irfftnNP` and `irfftn` differ there;
`1/2 ∈ ℂ` meets the hypothesis `half * 2 = 1` -/
example : symPlanes (starRingEnd ℂ) (1 / 2) [2] (fun _ => Complex.I) [0] = 0 ∧ (1 / 2 : ℂ) * 2 = 1 := by
  refine ⟨by simp [symPlanes], by norm_num⟩

/-- a translation vector of the right length for the example shape (hypothesis of both shift
theorems); it moves every cell: cell `(0,0,0)` comes from cell `(2,0,1)` -/
example : [1, 0, 1].length = [3, 1, 2].length ∧ rollIdx [3, 1, 2] [1, 0, 1] [0, 0, 0] = [2, 0, 1] := by decide

end DFV.C11
