import DFV.Lemmas.C11Trip
import DFV.Lemmas.C11Complex
import DFV.Lemmas.C11Ex
import DFV.Lemmas.C11More
import DFV.Lemmas.C11Real
import DFV.Lemmas.C11PolyC
/-!
# C11 — field FFTs are the discrete Fourier transform at the k-mesh's frequencies

Property theorems only (helper lemmas and the spec-level definitions `kMesh`, `originMesh`,
`sumBox`, `phase`, `phaseR`, `ninvProd`, `lastShift`, `mirror`, `IsRoot`, `Roots`, `Root.swap`, `IsConj`, `CFInv`,
`IsHom`, `Root.map`, `CF.map`, `mapM`, `Ev`, `PrimRoot(s)`, `Ev.ConjOK`, `cEv` live in `DFV/Lemmas/C11*.lean`).

Part (a) is exact arithmetic over `Rat` about the model of `Mesh.fftn` / `Mesh.ifftn`
(`DFV/Model/C11.lean`), for every number of dimensions, every region, every mix of even, odd and
single-cell axes.  Part (b) is about the model of `Field.fftn / ifftn / rfftn / irfftn` over an
arbitrary commutative ring `R`; `exp(-2πi/n)` enters as a per-axis parameter `ρ : Root R` whose
properties (`IsRoot n ρ`: `w^n = 1`, `w·wi = 1`, `ninv·n = 1`, `Σ_j w^(jk) = 0` for `0<k<n`) are
explicit hypotheses — satisfied by `exp(-2πi/n) ∈ ℂ` for every `n ≥ 1` (`complex_roots_exist`).
Part (c) ties the driver to part (b): the driver runs the generic model over formal combinations
of root-of-unity monomials (`Poly`); evaluation `Ev.eval` of such combinations into any
commutative ring preserves `0 1 + *` for arbitrary `ζ_a`, respects `Poly.conj` and the printed
dense form once `ζ_a^(n_a) = 1`, and the whole code-shaped model commutes with it — so what the
harness computes from the driver's output is the value of the model over `R`, to which the
theorems of part (b) apply.
-/
namespace DFV.C11
open DFV

/-! ## (a) the k-mesh -/

/-- The shifted DFT sample frequencies of `n` samples of spacing `d`: entry `j` of
`fftshift(fftfreq(n, d))` is `(j - ⌊n/2⌋)/(n·d)`, for every `n` (even, odd, 1). -/
theorem fftfreq_shifted (n : Nat) (d : Rat) (j : Nat) (hj : j < n) :
    (fftshiftL (fftfreq n d)).getD j 0 = ((j : Rat) - ((n / 2 : Nat) : Rat)) * (1 / ((n : Rat) * d)) :=
  fftshift_fftfreq n d j hj

/-- `Mesh.fftn` succeeds on every valid mesh (any dimension, any counts, any position), for
both transform kinds, and returns a valid mesh without boundary conditions or subregions. -/
theorem fftn_mesh (m : Mesh) (rfft : Bool) (hm : m.Inv) :
    meshFftn m rfft = .ok (kMesh m rfft) ∧ (kMesh m rfft).Inv ∧ (kMesh m rfft).ndim = m.ndim ∧
      (kMesh m rfft).bc = "" ∧ (kMesh m rfft).subs = [] :=
  ⟨meshFftn_ok m rfft hm, kMesh_inv m rfft hm, kMesh_ndim m rfft, rfl, rfl⟩

/-- Reciprocal names and units: dimension `d` becomes `k_d`, unit `u` becomes `(u)$^{-1}$`; the
tolerance factor is kept. -/
theorem kmesh_names_units (m : Mesh) (rfft : Bool) (k : Mesh) (h : meshFftn m rfft = .ok k) (hm : m.Inv) :
    k.region.dims = m.region.dims.map (fun d => "k_" ++ d) ∧
    k.region.units = m.region.units.map (fun u => "(" ++ u ++ ")$^{-1}$") ∧
    k.region.tol = m.region.tol := by
  rw [meshFftn_ok m rfft hm] at h
  injection h with h
  subst h
  exact ⟨rfl, rfl, rfl⟩

/-- The k-cells have size `1/(n·cell)` on every axis, for both transform kinds. -/
theorem kcell_size (m : Mesh) (rfft : Bool) (k : Mesh) (h : meshFftn m rfft = .ok k) (hm : m.Inv)
    (a : Nat) (ha : a < m.ndim) : k.cellAt a = 1 / ((m.nAt a : Rat) * m.cellAt a) := by
  rw [meshFftn_ok m rfft hm] at h
  injection h with h
  subst h
  exact kMesh_cellAt m rfft hm a ha

/-- **k-cell centres, full transform.**  Along every axis — even, odd or single-cell — the
k-mesh has as many cells as the mesh, and the centre of k-cell `j` is exactly entry `j` of
`fftshift(fftfreq(n, cell))`. -/
theorem kcell_centres (m : Mesh) (k : Mesh) (h : meshFftn m false = .ok k) (hm : m.Inv)
    (a : Nat) (ha : a < m.ndim) :
    k.nAt a = m.nAt a ∧
    ∀ j, j < m.nAt a → k.centreAx a (j : Int) = (fftshiftL (fftfreq (m.nAt a) (m.cellAt a))).getD j 0 := by
  rw [meshFftn_ok m false hm] at h
  injection h with h
  subst h
  refine ⟨by rw [kMesh_nAt m false a ha, kN_full m false a (by simp)], ?_⟩
  intro j hj
  rw [fftshift_fftfreq _ _ j hj, kcentre_full m false hm a ha (by simp)]
  simp only [Int.cast_natCast]

/-- The same as a closed formula, for every integer index: `(j - ⌊n/2⌋)/(n·cell)`; in
particular the zero frequency sits at index `⌊n/2⌋` and a single-cell axis is centred at 0. -/
theorem kcell_centres_formula (m : Mesh) (k : Mesh) (h : meshFftn m false = .ok k) (hm : m.Inv)
    (a : Nat) (ha : a < m.ndim) (j : Int) :
    k.centreAx a j = ((j : Rat) - ((m.nAt a / 2 : Nat) : Rat)) / ((m.nAt a : Rat) * m.cellAt a) := by
  rw [meshFftn_ok m false hm] at h
  injection h with h
  subst h
  rw [kcentre_full m false hm a ha (by simp)]
  ring

/-- single-cell axes are centred at frequency 0 (repaired defect D16) -/
theorem kcell_single_zero (m : Mesh) (k : Mesh) (h : meshFftn m false = .ok k) (hm : m.Inv)
    (a : Nat) (ha : a < m.ndim) (h1 : m.nAt a = 1) : k.nAt a = 1 ∧ k.centreAx a 0 = 0 := by
  refine ⟨by rw [(kcell_centres m k h hm a ha).1, h1], ?_⟩
  rw [kcell_centres_formula m k h hm a ha 0, h1]
  simp

/-- the zero frequency is the centre of k-cell `⌊n/2⌋` on every axis -/
theorem kcell_zero_frequency (m : Mesh) (k : Mesh) (h : meshFftn m false = .ok k) (hm : m.Inv)
    (a : Nat) (ha : a < m.ndim) : k.centreAx a ((m.nAt a / 2 : Nat) : Int) = 0 := by
  rw [kcell_centres_formula m k h hm a ha]
  simp only [Int.cast_natCast, sub_self, zero_div]

/-- **k-cell centres, real transform.**  The last axis has `⌊n/2⌋ + 1` cells whose centres
are the non-negative frequencies `rfftfreq(n, cell)` (one cell centred at 0 when `n = 1`); all
other axes are as for the full transform. -/
theorem kcell_centres_rfft (m : Mesh) (k : Mesh) (h : meshFftn m true = .ok k) (hm : m.Inv) :
    k.nAt (m.ndim - 1) = m.nAt (m.ndim - 1) / 2 + 1 ∧
    (∀ j, j < m.nAt (m.ndim - 1) / 2 + 1 →
      k.centreAx (m.ndim - 1) (j : Int)
        = (rfftfreq (m.nAt (m.ndim - 1)) (m.cellAt (m.ndim - 1))).getD j 0) ∧
    (∀ a, a < m.ndim - 1 → k.nAt a = m.nAt a ∧
      ∀ j, j < m.nAt a → k.centreAx a (j : Int) = (fftshiftL (fftfreq (m.nAt a) (m.cellAt a))).getD j 0) := by
  rw [meshFftn_ok m true hm] at h
  injection h with h
  subst h
  have hl := last_lt m hm
  refine ⟨by rw [kMesh_nAt m true _ hl, kN_half m true _ (flag_last m)], ?_, ?_⟩
  · intro j hj
    rw [kcentre_half m true hm _ hl (flag_last m), rfftfreq, getD_tab _ _ _ _ hj]
    simp only [Int.cast_natCast]
  · intro a ha
    refine ⟨by rw [kMesh_nAt m true a (by omega), kN_full m true a (flag_notlast m a ha)], ?_⟩
    intro j hj
    rw [fftshift_fftfreq _ _ j hj, kcentre_full m true hm a (by omega) (flag_notlast m a ha)]
    simp only [Int.cast_natCast]

/-- The phase of the transform is `k·r`: the centre of k-cell `j` times the position `r·cell`
of real-space cell `r`, counted from the first cell, is `(j - ⌊n/2⌋)·r / n` — so that
`exp(-2πi k·r) = exp(-2πi/n)^((j - ⌊n/2⌋)·r)`, the factor `phase` of `fftn_is_dft`. -/
theorem phase_is_k_dot_r (m : Mesh) (k : Mesh) (h : meshFftn m false = .ok k) (hm : m.Inv)
    (a : Nat) (ha : a < m.ndim) (j r : Nat) :
    k.centreAx a (j : Int) * ((r : Rat) * m.cellAt a)
      = (((j : Rat) - ((m.nAt a / 2 : Nat) : Rat)) * (r : Rat)) / (m.nAt a : Rat) := by
  rw [kcell_centres_formula m k h hm a ha]
  have hn0 : (m.nAt a : Rat) ≠ 0 := ne_of_gt (nat_cast_pos' _ (hm.2.2 a ha))
  have hd0 : m.cellAt a ≠ 0 := ne_of_gt (cell_pos m hm a ha)
  simp only [Int.cast_natCast]
  generalize ((m.nAt a / 2 : Nat) : Rat) = H
  field_simp

/-- **Mesh-level round trip.**  `mesh.fftn().ifftn()` succeeds and is the mesh of the original
counts, cell sizes, dimension names and units, centred at the origin. -/
theorem ifftn_fftn_mesh (m : Mesh) (hm : m.Inv) :
    ∃ k b, meshFftn m false = .ok k ∧ meshIfftn k false none = .ok b ∧
      b.n = m.n ∧ b.region.dims = m.region.dims ∧ b.region.units = m.region.units ∧
      b.region.tol = m.region.tol ∧
      ∀ a, a < m.ndim → b.cellAt a = m.cellAt a ∧ b.region.lo a + b.region.hi a = 0 ∧
        b.region.hi a - b.region.lo a = m.region.edge a :=
  ⟨kMesh m false, originMesh m m.n, meshFftn_ok m false hm, mesh_roundtrip_full m hm, rfl, rfl, rfl, rfl,
    fun a ha => ⟨originMesh_cellAt m a ha, originMesh_centre m m.n a ha, by
      simp only [originMesh, Region.lo, Region.hi]
      rw [getD_tab _ _ _ _ ha, getD_tab _ _ _ _ ha]; ring⟩⟩

/-- The same for the real transform when the original counts are supplied:
`mesh.fftn(rfft=True).ifftn(rfft=True, shape=mesh.n)` recovers even and odd last counts alike. -/
theorem irfftn_rfftn_mesh (m : Mesh) (hm : m.Inv) :
    ∃ k b, meshFftn m true = .ok k ∧ meshIfftn k true (some m.n) = .ok b ∧
      b.n = m.n ∧ b.region.dims = m.region.dims ∧ b.region.units = m.region.units ∧
      ∀ a, a < m.ndim → b.cellAt a = m.cellAt a ∧ b.region.lo a + b.region.hi a = 0 :=
  ⟨kMesh m true, originMesh m m.n, meshFftn_ok m true hm, mesh_roundtrip_half_shape m hm, rfl, rfl, rfl,
    fun a ha => ⟨originMesh_cellAt m a ha, originMesh_centre m m.n a ha⟩⟩

/-- Without the counts the real inverse assumes an even last count: it recovers the mesh when
the last count is even or 1, and returns `n_last - 1` cells along the last axis when it is odd
and larger (which is why `shape` is needed to recover odd sizes); the extent is the original
one in every case. -/
theorem irfftn_mesh_default (m : Mesh) (hm : m.Inv) :
    ∃ k b, meshFftn m true = .ok k ∧ meshIfftn k true none = .ok b ∧
      b.n = (if m.nAt (m.ndim - 1) = 1 then m.n else setAt m.n (m.ndim - 1) (m.nAt (m.ndim - 1) / 2 * 2)) ∧
      (m.nAt (m.ndim - 1) % 2 = 0 → b.n = m.n) ∧
      ∀ a, a < m.ndim → b.region.lo a + b.region.hi a = 0 ∧ b.region.hi a - b.region.lo a = m.region.edge a := by
  refine ⟨kMesh m true, _, meshFftn_ok m true hm, mesh_roundtrip_half_none m hm, rfl, ?_, ?_⟩
  · intro heven
    show (if m.nAt (m.ndim - 1) = 1 then m.n else setAt m.n (m.ndim - 1) (m.nAt (m.ndim - 1) / 2 * 2)) = m.n
    have h1 : ¬ m.nAt (m.ndim - 1) = 1 := by omega
    rw [if_neg h1]
    have e : m.nAt (m.ndim - 1) / 2 * 2 = m.nAt (m.ndim - 1) := by omega
    rw [e]
    exact setAt_getD_self m.n (m.ndim - 1)
  · intro a ha
    refine ⟨originMesh_centre m _ a ha, ?_⟩
    simp only [originMesh, Region.lo, Region.hi]
    rw [getD_tab _ _ _ _ ha, getD_tab _ _ _ _ ha]; ring

/-- Shapes that do not match the k-mesh are rejected: wrong number of entries, a leading
entry different from the k-mesh's count, or a last entry `s` with `s // 2 + 1 ≠ n_last`. -/
theorem ifftn_shape_checked (k : Mesh) (rfft : Bool) (s : List Nat)
    (h : s.length ≠ k.ndim ∨ (∃ a, a < k.ndim - 1 ∧ s.getD a 0 ≠ k.nAt a) ∨
         s.getD (k.ndim - 1) 0 / 2 + 1 ≠ k.nAt (k.ndim - 1)) :
    meshIfftn k rfft (some s) = .error .value :=
  meshIfftn_err_of_shape k rfft s .value (ifftShape_rejects k rfft s h)

/-- **Extent of the k-mesh**: along every axis the full transform's k-mesh spans exactly one
sampling period `1/cell` (its `n` cells of size `1/(n·cell)`); the last axis of the real
transform spans `(⌊n/2⌋+1)/(n·cell)`. -/
theorem kmesh_extent (m : Mesh) (hm : m.Inv) (a : Nat) (ha : a < m.ndim) :
    (∀ k, meshFftn m false = .ok k → k.region.edge a = 1 / m.cellAt a) ∧
    (∀ k, meshFftn m true = .ok k → a = m.ndim - 1 →
      k.region.edge a = ((m.nAt a / 2 + 1 : Nat) : Rat) / ((m.nAt a : Rat) * m.cellAt a)) := by
  have hn0 : (m.nAt a : Rat) ≠ 0 := ne_of_gt (nat_cast_pos' _ (hm.2.2 a ha))
  have hd0 : m.cellAt a ≠ 0 := ne_of_gt (cell_pos m hm a ha)
  refine ⟨?_, ?_⟩
  · intro k h
    have h1 := kcell_size m false k h hm a ha
    have h2 := (kcell_centres m k h hm a ha).1
    unfold Mesh.cellAt at h1
    rw [h2] at h1
    have : k.region.edge a = (k.region.edge a / (m.nAt a : Rat)) * (m.nAt a : Rat) := by field_simp
    rw [this, h1]
    unfold Mesh.cellAt
    field_simp
  · intro k h hl
    subst hl
    have h1 := kcell_size m true k h hm _ ha
    have h2 := (kcell_centres_rfft m k h hm).1
    have hk0 : ((m.nAt (m.ndim - 1) / 2 + 1 : Nat) : Rat) ≠ 0 := by
      have : (0 : Rat) < ((m.nAt (m.ndim - 1) / 2 + 1 : Nat) : Rat) := nat_cast_pos' _ (Nat.succ_pos _)
      exact ne_of_gt this
    unfold Mesh.cellAt at h1
    rw [h2] at h1
    have : k.region.edge (m.ndim - 1)
        = (k.region.edge (m.ndim - 1) / ((m.nAt (m.ndim - 1) / 2 + 1 : Nat) : Rat)) *
            ((m.nAt (m.ndim - 1) / 2 + 1 : Nat) : Rat) := by field_simp
    rw [this, h1]
    unfold Mesh.cellAt
    field_simp

/-! ## (b) the transforms -/

section ring
variable {R : Type} [CommRing R]

/-- `fftshift` and `ifftshift` (index rotations by `⌊n/2⌋` and `⌈n/2⌉`) are mutually inverse
on every index of every shape — in particular for odd counts, where they differ. -/
theorem shift_ishift_inverse (ns m : List Nat) (h : inRange ns m = true) :
    fshift ns (ishift ns m) = m ∧ ishift ns (fshift ns m) = m :=
  ⟨fshift_ishift ns m h, ishift_fshift ns m h⟩

/-- `Field.fftn` succeeds on every valid field; the result lives on `mesh.fftn()`, keeps the
component count and the unit, and holds `fftshift(fftn(array))`. -/
theorem fftn_total (ρs : List (Root R)) (f : CF R) (hf : CFInv f) :
    ∃ g, fftn ρs f = .ok g ∧ meshFftn f.mesh false = .ok g.mesh ∧ g.nvdim = f.nvdim ∧ g.unit = f.unit ∧
      g.data = fftnArr ρs f.nvdim f.data :=
  ⟨_, fftn_ok ρs f hf, meshFftn_ok f.mesh false hf.mesh, rfl, rfl, rfl⟩

/-- **The forward transform is the DFT at the k-cell's frequency.**  Every component of every
cell `m` of `Field.fftn` holds the sum over all real-space cells `r` of
`value(r) · Π_a w_a^(m_a·r_a) · wi_a^(⌊n_a/2⌋·r_a)`, i.e. `value(r)·exp(-2πi k·r)` with `k` the
centre of k-cell `m` and `r` counted from the first cell (`phase_is_k_dot_r`). -/
theorem fftn_is_dft (ρs : List (Root R)) (f g : CF R) (h : fftn ρs f = .ok g)
    (hρ : Roots f.data.shape ρs) (m : List Nat) (hm : inRange f.data.shape m = true)
    (c : Nat) (hc : c < f.nvdim) :
    compA g.data c m = sumBox f.data.shape fun r => compA f.data c r * phase ρs f.data.shape m r := by
  unfold fftn at h
  split at h
  · cases h
  · have hd := (finish_ok h).2.1
    rw [hd, fftnArr_get _ _ _ _ _ hc, dftN_eq_sumBox]
    apply sumBox_congr
    intro r _
    rw [twProd_fshift ρs f.data.shape hρ m r hm]

/-- **The zero-frequency cell holds the plain sum of the field**: cell `(⌊n_a/2⌋)_a` of
`Field.fftn`, the one centred at `k = 0` (`kcell_zero_frequency`). -/
theorem dc_is_sum (ρs : List (Root R)) (f g : CF R) (h : fftn ρs f = .ok g)
    (hpos : ∀ n ∈ f.data.shape, 0 < n) (c : Nat) (hc : c < f.nvdim) :
    compA g.data c (f.data.shape.map (· / 2)) = sumBox f.data.shape (compA f.data c) := by
  unfold fftn at h
  split at h
  · cases h
  · have hd := (finish_ok h).2.1
    rw [hd, fftnArr_get _ _ _ _ _ hc]
    exact dftN_zero ρs _ _ _ (fshift_centre f.data.shape hpos)

/-- the same for the real transform, where the zero frequency sits at index 0 of the last
(unshifted) axis and at `⌊n/2⌋` of the others -/
theorem dc_is_sum_rfft (ρs : List (Root R)) (nv : Nat) (a : NDA (List R)) (hpos : ∀ n ∈ a.shape, 0 < n)
    (c : Nat) (hc : c < nv) :
    compA (rfftnArr ρs nv a) c (zeroIdxR a.shape) = sumBox a.shape (compA a c) := by
  rw [rfftnArr_get _ _ _ _ _ hc]
  exact dftN_zero ρs _ _ _ (fshiftR_zeroIdxR a.shape hpos)

/-- `Field.rfftn` succeeds on every valid field; the result lives on `mesh.fftn(rfft=True)` -/
theorem rfftn_total (ρs : List (Root R)) (f : CF R) (hf : CFInv f) :
    ∃ g, rfftn ρs f = .ok g ∧ meshFftn f.mesh true = .ok g.mesh ∧ g.nvdim = f.nvdim ∧ g.unit = f.unit ∧
      g.data = rfftnArr ρs f.nvdim f.data ∧ g.data.shape = halfShape f.mesh.n :=
  ⟨_, rfftn_ok ρs f hf, meshFftn_ok f.mesh true hf.mesh, rfl, rfl, rfl, by
    show halfShape f.data.shape = halfShape f.mesh.n
    rw [hf.shape]⟩

/-- **Linearity**: the transform of `α·a + β·b` (cell by cell, component by component) is
`α·F(a) + β·F(b)`, for arrays of the same shape. -/
theorem fft_linear (ρs : List (Root R)) (nv : Nat) (a b ab : NDA (List R)) (α β : R)
    (hs : b.shape = a.shape) (hs' : ab.shape = a.shape)
    (hab : ∀ i c, compA ab c i = α * compA a c i + β * compA b c i)
    (m : List Nat) (c : Nat) (hc : c < nv) :
    compA (fftnArr ρs nv ab) c m = α * compA (fftnArr ρs nv a) c m + β * compA (fftnArr ρs nv b) c m := by
  rw [fftnArr_get _ _ _ _ _ hc, fftnArr_get _ _ _ _ _ hc, fftnArr_get _ _ _ _ _ hc, hs, hs',
    ← dftN_linear]
  congr 1
  funext i
  exact hab i c

/-- the inverse transform is linear too -/
theorem ifft_linear (ρs : List (Root R)) (ns : List Nat) (F G : List Nat → R) (α β : R) (j : List Nat) :
    idftN ρs ns (fun i => α * F i + β * G i) j = α * idftN ρs ns F j + β * idftN ρs ns G j := by
  induction ns generalizing ρs F G j with
  | nil => simp [idftN]
  | cons n ns ih =>
    rw [idftN_cons, idftN_cons, idftN_cons, ← ih]
    congr 1
    funext ms
    rw [← sumN_mul_left, ← sumN_mul_left, ← sumN_mul_left, ← sumN_mul_left, ← sumN_mul_left, ← sumN_add]
    apply sumN_congr
    intro k _
    ring

/-- **Transforms act per component**: component `c` of the transform of a `nv`-component array
is the transform of component `c` alone. -/
theorem fft_componentwise (ρs : List (Root R)) (nv : Nat) (a : NDA (List R)) (c : Nat) (hc : c < nv)
    (m : List Nat) :
    compA (fftnArr ρs nv a) c m = compA (fftnArr ρs 1 ⟨a.shape, fun i => [compA a c i]⟩) 0 m := by
  rw [fftnArr_get _ _ _ _ _ hc, fftnArr_get _ _ _ _ _ (by omega : 0 < 1)]
  rfl

/-- **Inverse ∘ forward = identity** for the full transform, from the orthogonality
hypothesis: on every valid field `f.fftn().ifftn()` succeeds, has the original counts, cell
size, names and units on the mesh centred at the origin, the original component count, unit,
labels and mapping, and the original value in every cell and component. -/
theorem ifftn_fftn (ρs : List (Root R)) (f : CF R) (hf : CFInv f) (hρ : Roots f.mesh.n ρs) :
    ∃ g h, fftn ρs f = .ok g ∧ ifftn ρs g = .ok h ∧
      h.mesh = originMesh f.mesh f.mesh.n ∧ h.nvdim = f.nvdim ∧ h.unit = f.unit ∧
      h.vdims = f.vdims ∧ h.vmap = f.vmap ∧
      ∀ j, inRange f.mesh.n j = true → ∀ c, c < f.nvdim → compA h.data c j = compA f.data c j := by
  refine ⟨_, _, fftn_ok ρs f hf, ifftn_fftn_ok ρs f hf, rfl, rfl, rfl, rfl, rfl, ?_⟩
  intro j hj c hc
  rw [← hf.shape] at hj hρ
  exact ifftn_fftn_arr ρs f.nvdim f.data hρ j hj c hc

/-- **Real round trip**: on every valid field with conj-fixed ("real") data,
`f.rfftn().irfftn(shape=f.mesh.n)` succeeds and restores the same state and every value —
even and odd last counts alike, since the original last count is supplied. -/
theorem irfftn_rfftn (conj : R → R) (hc : IsConj conj) (ρs : List (Root R)) (f : CF R) (hf : CFInv f)
    (hρ : Roots f.mesh.n ρs) (hcr : ConjRoots conj f.mesh.n ρs)
    (hreal : ∀ i c, conj (compA f.data c i) = compA f.data c i) :
    ∃ g h, rfftn ρs f = .ok g ∧ irfftn conj ρs g (some f.mesh.n) = .ok h ∧
      meshFftn f.mesh true = .ok g.mesh ∧
      h.mesh = originMesh f.mesh f.mesh.n ∧ h.nvdim = f.nvdim ∧ h.unit = f.unit ∧
      h.vdims = f.vdims ∧ h.vmap = f.vmap ∧
      ∀ j, inRange f.mesh.n j = true → ∀ c, c < f.nvdim → compA h.data c j = compA f.data c j := by
  refine ⟨_, _, rfftn_ok ρs f hf, irfftn_rfftn_ok conj ρs f hf, meshFftn_ok f.mesh true hf.mesh,
    rfl, rfl, rfl, rfl, rfl, ?_⟩
  intro j hj c hcv
  show compA (irfftnArr conj ρs f.nvdim f.mesh.n (rfftnArr ρs f.nvdim f.data)) c j = _
  rw [← hf.shape] at hj hρ hcr ⊢
  exact irfftn_rfftn_arr conj hc ρs f.nvdim f.data hρ hcr hreal j hj c hcv

/-- without an explicit shape the real round trip still restores the field when the last count
is even or 1 (the default output count `2·(n_k - 1)`, or 1, is then the original one) -/
theorem irfftn_rfftn_default (conj : R → R) (hc : IsConj conj) (ρs : List (Root R)) (f : CF R) (hf : CFInv f)
    (hρ : Roots f.mesh.n ρs) (hcr : ConjRoots conj f.mesh.n ρs)
    (hreal : ∀ i c, conj (compA f.data c i) = compA f.data c i)
    (hlast : f.mesh.nAt (f.mesh.ndim - 1) % 2 = 0 ∨ f.mesh.nAt (f.mesh.ndim - 1) = 1) :
    ∃ g h, rfftn ρs f = .ok g ∧ irfftn conj ρs g none = .ok h ∧
      h.mesh = originMesh f.mesh f.mesh.n ∧ h.vdims = f.vdims ∧ h.vmap = f.vmap ∧
      ∀ j, inRange f.mesh.n j = true → ∀ c, c < f.nvdim → compA h.data c j = compA f.data c j := by
  refine ⟨_, _, rfftn_ok ρs f hf, irfftn_rfftn_ok_default conj ρs f hf hlast, rfl, rfl, rfl, ?_⟩
  intro j hj c hcv
  show compA (irfftnArr conj ρs f.nvdim f.mesh.n (rfftnArr ρs f.nvdim f.data)) c j = _
  rw [← hf.shape] at hj hρ hcr ⊢
  exact irfftn_rfftn_arr conj hc ρs f.nvdim f.data hρ hcr hreal j hj c hcv

/-- **The real transform is the matching half of the full one**: cell `m` of `rfftn` (last
index `j ≤ ⌊n/2⌋`, unshifted there) holds what `fftn` holds in the cell with the same leading
indices and last index `(j + ⌊n/2⌋) mod n` — the cell of the same DFT frequency. -/
theorem rfftn_half (ρs : List (Root R)) (f gr g : CF R) (hr : rfftn ρs f = .ok gr) (hg : fftn ρs f = .ok g)
    (hpos : ∀ n ∈ f.data.shape, 0 < n) (m : List Nat) (hm : inRange (halfShape f.data.shape) m = true)
    (c : Nat) (hc : c < f.nvdim) :
    compA gr.data c m = compA g.data c (lastShift f.data.shape m) := by
  unfold rfftn at hr
  unfold fftn at hg
  split at hr
  · cases hr
  · split at hg
    · cases hg
    · rw [(finish_ok hr).2.1, (finish_ok hg).2.1]
      exact rfftn_half_arr ρs f.nvdim f.data hpos m hm c hc

/-- **Labels and mapping, forward**: labels get the prefix `ft_`; label `ft_v` is mapped to
`k_d` exactly when `v` was mapped to `d` (for an arbitrary mapping); component count and unit
are kept.  The same holds for `rfftn` (same `_fftn`). -/
theorem fft_labels (ρs : List (Root R)) (f g : CF R) (h : fftn ρs f = .ok g) (vs : List String)
    (hv : f.vdims = some vs) (hne : vs ≠ []) :
    g.vdims = some (vs.map ("ft_" ++ ·)) ∧ g.nvdim = f.nvdim ∧ g.unit = f.unit ∧
    ∀ v ∈ vs, dictGet g.vmap ("ft_" ++ v) = (dictGet f.vmap v).map ("k_" ++ ·) := by
  unfold fftn at h
  split at h
  · cases h
  · obtain ⟨h1, h2⟩ := finish_labels_fwd vs hv hne h
    have h3 := finish_ok h
    refine ⟨h1, h3.2.2.1, h3.2.2.2.1, ?_⟩
    intro v hvm
    rw [h2]
    exact renameMap_fwd f.vmap vs v hvm

omit [CommRing R] in
/-- **Labels and mapping, inverse of forward**: stripping undoes prefixing, for arbitrary
labels and an arbitrary mapping (labels that themselves start with `ft_` lose only the added
prefix). -/
theorem fft_labels_roundtrip (f : CF R) (mesh1 mesh2 : Mesh) (d1 d2 : NDA (List R)) (g h : CF R)
    (vs : List String) (hv : f.vdims = some vs) (hne : vs ≠ [])
    (h1 : finish f mesh1 d1 false = .ok g) (h2 : finish g mesh2 d2 true = .ok h) :
    h.vdims = some vs ∧ ∀ v ∈ vs, dictGet h.vmap v = dictGet f.vmap v := by
  obtain ⟨g1, g2⟩ := finish_labels_fwd vs hv hne h1
  obtain ⟨k1, k2⟩ := finish_labels_inv (vs.map ("ft_" ++ ·)) g1 (by simpa using hne) h2
  rw [labels_roundtrip] at k1
  refine ⟨k1, ?_⟩
  intro v hvm
  rw [k2, g2]
  exact renameMap_roundtrip f.vmap vs v hvm

end ring

/-- the matching cells have the same centre: k-cell `j` of the last axis of the real transform
and k-cell `j + ⌊n/2⌋` of the full transform (an existing cell for `j < ⌈n/2⌉`; for even `n`
the remaining cell `j = n/2`, centred at `+1/(2·cell)`, matches the full transform's cell 0
at the aliased frequency `-1/(2·cell)`, one period `1/cell` lower) -/
theorem rfftn_half_centres (m : Mesh) (hm : m.Inv) (j : Nat) :
    (kMesh m true).centreAx (m.ndim - 1) (j : Int)
      = (kMesh m false).centreAx (m.ndim - 1) ((j + m.nAt (m.ndim - 1) / 2 : Nat) : Int) := by
  have hl := last_lt m hm
  rw [kcentre_half m true hm _ hl (flag_last m), kcentre_full m false hm _ hl (by simp)]
  simp only [Nat.cast_add, Int.cast_add, Int.cast_natCast]
  generalize ((m.nAt (m.ndim - 1) / 2 : Nat) : Rat) = H
  ring

/-- **The hypotheses are satisfiable for every shape**: in ℂ, `w = exp(-2πi/n)`,
`wi = exp(2πi/n)`, `ninv = 1/n` form a root in the sense of `IsRoot` for every `n ≥ 1`, and
complex conjugation is a ring endomorphism inverting every such root — so `fftn_is_dft`,
`ifftn_fftn`, `irfftn_rfftn` apply to complex-valued fields on every mesh. -/
theorem complex_roots_exist (ns : List Nat) (h : ∀ n ∈ ns, 0 < n) :
    Roots ns (ns.map cRoot) ∧ IsConj (starRingEnd ℂ) ∧ ConjRoots (starRingEnd ℂ) ns (ns.map cRoot) :=
  ⟨cRoots ns h, conj_isConj, cConjRoots ns⟩

/-! ## (b, continued) inverse transform, Parseval, Hermitian symmetry -/

section ring2
variable {R : Type} [CommRing R]

/-- **Forward ∘ inverse = identity**: `fftshift(fftn(ifftn(ifftshift(A))))` holds `A` again in every
cell and component, for every shape (orthogonality of the roots, summed over real space). -/
theorem fftn_ifftn_values (ρs : List (Root R)) (nv : Nat) (a : NDA (List R)) (hρ : Roots a.shape ρs)
    (m : List Nat) (hm : inRange a.shape m = true) (c : Nat) (hc : c < nv) :
    compA (fftnArr ρs nv (ifftnArr ρs nv a)) c m = compA a c m :=
  fftn_ifftn_arr ρs nv a hρ m hm c hc

/-- **Real forward ∘ real inverse = identity**: `rfftn(irfftn(G, s))` holds the half spectrum `G`
(shape `halfShape s`) again in every cell and component, for even and odd last counts `s` —
the real forward transform reads back exactly the non-negative-frequency half the inverse was
built from. -/
theorem rfftn_irfftn_values (conj : R → R) (ρs : List (Root R)) (nv : Nat) (s : List Nat) (a : NDA (List R))
    (hs : a.shape = halfShape s) (hpos : ∀ n ∈ s, 0 < n) (hρ : Roots s ρs)
    (m : List Nat) (hm : inRange (halfShape s) m = true) (c : Nat) (hc : c < nv) :
    compA (rfftnArr ρs nv (irfftnArr conj ρs nv s a)) c m = compA a c m :=
  rfftn_irfftn_arr conj ρs nv s a hs hpos hρ m hm c hc

/-- **The real transform is the DFT at the k-cell's frequency.**  Every component of every cell
`m` of `Field.rfftn` holds the sum over all real-space cells `r` of `value(r)` times
`Π_{a<last} w_a^(m_a r_a)·wi_a^(⌊n_a/2⌋ r_a) · w_last^(m_last r_last)` — `exp(-2πi k·r)` with `k` the
centre of k-cell `m` of `mesh.fftn(rfft=True)` (last axis unshifted: `kcell_centres_rfft`). -/
theorem rfftn_is_dft (ρs : List (Root R)) (f g : CF R) (h : rfftn ρs f = .ok g)
    (hρ : Roots f.data.shape ρs) (m : List Nat) (hm : inRange (halfShape f.data.shape) m = true)
    (c : Nat) (hc : c < f.nvdim) :
    compA g.data c m = sumBox f.data.shape fun r => compA f.data c r * phaseR ρs f.data.shape m r := by
  unfold rfftn at h
  split at h
  · cases h
  · rw [(finish_ok h).2.1]
    exact rfftnArr_is_dft ρs f.nvdim f.data hρ m hm c hc

/-- **`irfftn` returns real data.**  For every half spectrum that is conjugate-symmetric on its
self-mirror planes (unshifted last index 0 and, for an even output count, `n/2`) — the inputs
the real inverse is specified for — every cell and component of the model's `irfftn` is fixed by
the conjugation, for even and odd output counts. -/
theorem irfftn_returns_real (conj : R → R) (hc : IsConj conj) (hinv : ∀ x, conj (conj x) = x) (ρs : List (Root R))
    (nv : Nat) (s : List Nat) (a : NDA (List R)) (hρ : Roots s ρs) (hcr : ConjRoots conj s ρs)
    (c : Nat) (hcv : c < nv)
    (hcons : ∀ k, inRange s k = true → (k.getLastD 0 = 0 ∨ 2 * k.getLastD 0 = s.getLastD 0) →
      conj (compA a c (ishiftR a.shape k)) = compA a c (ishiftR a.shape (negIdx s k)))
    (j : List Nat) :
    conj (compA (irfftnArr conj ρs nv s a) c j) = compA (irfftnArr conj ρs nv s a) c j :=
  irfftnArr_real conj hc hinv ρs nv s a hρ hcr c hcv hcons j

/-- **What `rfftn` produces is such a half spectrum**: for conj-fixed data the half spectrum is
conjugate-symmetric under index negation on every plane, so `irfftn_returns_real` and the
round trip `irfftn_rfftn` are about the same class of inputs. -/
theorem rfftn_spectrum_consistent (conj : R → R) (hc : IsConj conj) (ρs : List (Root R)) (nv : Nat)
    (a : NDA (List R)) (hρ : Roots a.shape ρs) (hcr : ConjRoots conj a.shape ρs)
    (hreal : ∀ i c, conj (compA a c i) = compA a c i) (c : Nat) (hcv : c < nv)
    (k : List Nat) (hk : inRange a.shape k = true) :
    conj (compA (rfftnArr ρs nv a) c (ishiftR (rfftnArr ρs nv a).shape k))
      = compA (rfftnArr ρs nv a) c (ishiftR (rfftnArr ρs nv a).shape (negIdx a.shape k)) :=
  rfftnArr_consistent conj hc ρs nv a hρ hcr hreal c hcv k hk

/-- **The inverse transform is the inverse DFT at the k-cells' frequencies.**  Every component
of every real-space cell `j` of `Field.ifftn` holds `Π_a(1/n_a)` times the sum over all k-cells
`m` of `value(m) · Π_a wi_a^(m_a·j_a) · w_a^(⌊n_a/2⌋·j_a)`, i.e. `value(m)·exp(+2πi k_m·r_j)` with
`k_m` the centre of k-cell `m` (`kcell_centres_formula`) — the code-shaped axis-by-axis inverse
after `ifftshift` equals the one-sum specification. -/
theorem ifftn_is_idft (ρs : List (Root R)) (f g : CF R) (h : ifftn ρs f = .ok g)
    (hρ : Roots f.data.shape ρs) (j : List Nat) (c : Nat) (hc : c < f.nvdim) :
    compA g.data c j = ninvProd ρs f.data.shape *
      sumBox f.data.shape fun m => compA f.data c m * phase (ρs.map Root.swap) f.data.shape m j := by
  unfold ifftn at h
  split at h
  · cases h
  · rw [(finish_ok h).2.1]
    exact ifftnArr_is_idft ρs f.nvdim f.data hρ j c hc

/-- the inverse roots `(wi, w, 1/n)` satisfy the root hypotheses whenever `(w, wi, 1/n)` do, so
`phase (ρs.map Root.swap)` in `ifftn_is_idft` is the phase of the conjugate frequencies -/
theorem inverse_roots_are_roots (ns : List Nat) (ρs : List (Root R)) (h : Roots ns ρs) :
    Roots ns (ρs.map Root.swap) :=
  Roots.swap ns ρs h

/-- **Plancherel**: for two arrays of the same shape, `Σ_m F_a[m]·conj F_b[m] = N · Σ_r a[r]·conj b[r]`
per component, the sums running over all k-cells / all cells and `N` the number of cells. -/
theorem plancherel_fftn (conj : R → R) (hc : IsConj conj) (ρs : List (Root R)) (nv : Nat) (a b : NDA (List R))
    (hs : b.shape = a.shape) (hρ : Roots a.shape ρs) (hcr : ConjRoots conj a.shape ρs) (c : Nat) (hcv : c < nv) :
    sumBox a.shape (fun m => compA (fftnArr ρs nv a) c m * conj (compA (fftnArr ρs nv b) c m))
      = (natProd a.shape : R) * sumBox a.shape (fun r => compA a c r * conj (compA b c r)) :=
  parseval_fftnArr conj hc ρs nv a b hs hρ hcr c hcv

/-- **Parseval** for `Field.fftn`: the summed squared modulus of every component of the spectrum
is `N` times that of the field. -/
theorem parseval_fftn (conj : R → R) (hc : IsConj conj) (ρs : List (Root R)) (f g : CF R) (h : fftn ρs f = .ok g)
    (hρ : Roots f.data.shape ρs) (hcr : ConjRoots conj f.data.shape ρs) (c : Nat) (hcv : c < f.nvdim) :
    sumBox f.data.shape (fun m => compA g.data c m * conj (compA g.data c m))
      = (natProd f.data.shape : R) * sumBox f.data.shape (fun r => compA f.data c r * conj (compA f.data c r)) := by
  unfold fftn at h
  split at h
  · cases h
  · rw [(finish_ok h).2.1]
    exact parseval_fftnArr conj hc ρs f.nvdim f.data f.data rfl hρ hcr c hcv

/-- **Hermitian symmetry of the spectrum of a real field**: for conj-fixed data, the k-cell of
the opposite frequency (`mirror`: unshift, negate mod the counts, shift back) holds the
conjugate value, in every component. -/
theorem spectrum_hermitian (conj : R → R) (hc : IsConj conj) (ρs : List (Root R)) (f g : CF R)
    (h : fftn ρs f = .ok g) (hρ : Roots f.data.shape ρs) (hcr : ConjRoots conj f.data.shape ρs)
    (hreal : ∀ i c, conj (compA f.data c i) = compA f.data c i)
    (m : List Nat) (hm : inRange f.data.shape m = true) (c : Nat) (hcv : c < f.nvdim) :
    inRange f.data.shape (mirror f.data.shape m) = true ∧
    conj (compA g.data c (mirror f.data.shape m)) = compA g.data c m := by
  unfold fftn at h
  split at h
  · cases h
  · rw [(finish_ok h).2.1]
    exact ⟨mirror_inRange _ _ hm, fftnArr_hermitian conj hc ρs f.nvdim f.data hρ hcr hreal m hm c hcv⟩

/-- **Linearity of the real transform** -/
theorem rfft_linear (ρs : List (Root R)) (nv : Nat) (a b ab : NDA (List R)) (α β : R)
    (hs : b.shape = a.shape) (hs' : ab.shape = a.shape)
    (hab : ∀ i c, compA ab c i = α * compA a c i + β * compA b c i)
    (m : List Nat) (c : Nat) (hc : c < nv) :
    compA (rfftnArr ρs nv ab) c m = α * compA (rfftnArr ρs nv a) c m + β * compA (rfftnArr ρs nv b) c m := by
  rw [rfftnArr_get _ _ _ _ _ hc, rfftnArr_get _ _ _ _ _ hc, rfftnArr_get _ _ _ _ _ hc, hs, hs',
    ← dftN_linear]
  congr 1
  funext i
  exact hab i c

/-- **Linearity of `ifftn`** on arrays: the inverse of `α·A + β·B` is `α·ifftn(A) + β·ifftn(B)` -/
theorem ifftn_linear (ρs : List (Root R)) (nv : Nat) (a b ab : NDA (List R)) (α β : R)
    (hs : b.shape = a.shape) (hs' : ab.shape = a.shape)
    (hab : ∀ i c, compA ab c i = α * compA a c i + β * compA b c i)
    (j : List Nat) (c : Nat) (hc : c < nv) :
    compA (ifftnArr ρs nv ab) c j = α * compA (ifftnArr ρs nv a) c j + β * compA (ifftnArr ρs nv b) c j := by
  rw [ifftnArr_get _ _ _ _ _ hc, ifftnArr_get _ _ _ _ _ hc, ifftnArr_get _ _ _ _ _ hc, hs, hs',
    ← ifft_linear]
  congr 1
  funext i
  exact hab _ c

/-- **A field that is non-zero in a single cell** `r0` (value `v` in component `c`) transforms
to the pure phase `v · exp(-2πi k·r0)` in every k-cell; in particular a delta in the first cell
transforms to the constant `v`. -/
theorem fftn_delta (ρs : List (Root R)) (f g : CF R) (h : fftn ρs f = .ok g) (hρ : Roots f.data.shape ρs)
    (r0 : List Nat) (hr : inRange f.data.shape r0 = true) (c : Nat) (hc : c < f.nvdim)
    (hf : ∀ i, inRange f.data.shape i = true → i ≠ r0 → compA f.data c i = 0)
    (m : List Nat) (hm : inRange f.data.shape m = true) :
    compA g.data c m = compA f.data c r0 * phase ρs f.data.shape m r0 := by
  rw [fftn_is_dft ρs f g h hρ m hm c hc]
  rw [sumBox_single f.data.shape _ r0 hr (fun i hi hne => by rw [hf i hi hne, zero_mul])]

end ring2

/-- **The mirror cell has the opposite frequency.**  Per axis the mirror index of `j` is
`(2⌊n/2⌋ - j) mod n`; its k-cell centre is minus the centre of k-cell `j`, except for the
Nyquist cell `j = 0` of an even axis, which is its own mirror (frequencies `∓1/(2·cell)` are one
sampling period apart). -/
theorem mirror_opposite_frequency (m : Mesh) (k : Mesh) (h : meshFftn m false = .ok k) (hm : m.Inv)
    (j : List Nat) (hj : inRange m.n j = true) (a : Nat) (ha : a < m.ndim) :
    (mirror m.n j).getD a 0 = (2 * (m.nAt a / 2) - j.getD a 0) % m.nAt a ∧
    (¬ (j.getD a 0 = 0 ∧ m.nAt a % 2 = 0) →
      k.centreAx a (((mirror m.n j).getD a 0 : Nat) : Int) = - k.centreAx a ((j.getD a 0 : Nat) : Int)) ∧
    (j.getD a 0 = 0 ∧ m.nAt a % 2 = 0 → (mirror m.n j).getD a 0 = 0) := by
  have hal : a < m.n.length := by rw [hm.2.1]; exact ha
  have hmir : (mirror m.n j).getD a 0 = (2 * (m.nAt a / 2) - j.getD a 0) % m.nAt a :=
    mirror_getD m.n j hj a hal
  have hlt : j.getD a 0 < m.nAt a := inRange_getD m.n j hj a hal
  refine ⟨hmir, ?_, ?_⟩
  · intro hny
    have hlt2 : 2 * (m.nAt a / 2) - j.getD a 0 < m.nAt a := by omega
    rw [hmir, Nat.mod_eq_of_lt hlt2, kcell_centres_formula m k h hm a ha, kcell_centres_formula m k h hm a ha]
    have hle : j.getD a 0 ≤ 2 * (m.nAt a / 2) := by omega
    simp only [Int.cast_natCast]
    rw [Nat.cast_sub hle]
    push_cast
    ring
  · intro hny
    rw [hmir, hny.1]
    have : 2 * (m.nAt a / 2) - 0 = m.nAt a := by omega
    rw [this, Nat.mod_self]

/-! ## (c) the driver's formal root-of-unity arithmetic -/

section eval
variable {R : Type} [CommRing R]

/-- **The formal arithmetic is sound.**  Evaluation of the driver's formal combinations
(`Poly`: sums = concatenation of term lists, products = added exponent vectors and multiplied
Gaussian-rational coefficients) into any commutative ring — rationals through a ring
homomorphism, the imaginary unit to an `I` with `I² = -1`, the formal root of axis `a` to an
ARBITRARY `ζ_a` — preserves `0`, `1`, `+` and `·`, sends constants to `q re + q im·I`, the
monomial `ζ_a^k` to `ζ_a^k` and scalar multiples to scalar multiples.  No hypothesis on the roots
is used by the arithmetic. -/
theorem poly_eval_hom (ev : Ev R) (d : Nat) :
    IsHom (ev.eval d) ∧ (∀ re im, ev.eval d (Poly.const re im) = ev.q re + ev.q im * ev.I) ∧
    (∀ a k, a < d → ev.eval d (Poly.mono a k) = ev.ζ a ^ k) ∧
    (∀ re im p, ev.eval d (Poly.const re im * p) = (ev.q re + ev.q im * ev.I) * ev.eval d p) :=
  ⟨ev.eval_isHom d, fun re im => ev.eval_const d re im, fun a k ha => ev.eval_mono d a k ha,
    fun re im p => by rw [ev.eval_mul, ev.eval_const]; rfl⟩

/-- **`Poly.conj` is conjugation** (exponents `e ↦ (n - e mod n) mod n`, `i ↦ -i`) for every
conjugation of `R` that fixes the rationals, negates `I` and inverts the `ζ_a`, once
`ζ_a^(n_a) = 1`. -/
theorem poly_conj_is_conj (ev : Ev R) (conj : R → R) (ns : List Nat) (hc : ev.ConjOK conj ns.length)
    (hpos : ∀ a, a < ns.length → 0 < ns.getD a 1) (hζ : ∀ a, a < ns.length → ev.ζ a ^ ns.getD a 1 = 1)
    (p : Poly) : ev.eval ns.length (Poly.conj ns p) = conj (ev.eval ns.length p) :=
  ev.eval_conj conj ns hc hpos hζ p

/-- **Exponent reduction and collection of like monomials keep the value.**  The table the
driver prints (`Poly.dense`: exponents reduced mod the counts, coefficients of equal monomials
added, indexed by the C-order flat exponent index) evaluates — `Σ_k c_k · Π_a ζ_a^(unflat(k)_a)`,
which is what the harness computes — to the value of the combination, once `ζ_a^(n_a) = 1`. -/
theorem poly_dense_value (ev : Ev R) (ns : List Nat) (hpos : ∀ a, a < ns.length → 0 < ns.getD a 1)
    (hζ : ∀ a, a < ns.length → ev.ζ a ^ ns.getD a 1 = 1) (p : Poly) :
    ev.evalDense ns (Poly.dense ns p) = ev.eval ns.length p :=
  ev.evalDense_dense ns hpos hζ p

/-- **The driver's formal roots evaluate to roots.**  If every `ζ_a` is a primitive `n_a`-th
root of unity (`ζ^n = 1`, `Σ_j ζ^(jk) = 0` for `0<k<n`), the images of `Poly.roots ns` —
`(ζ_a, ζ_a^(n_a-1), q(1/n_a))` — satisfy the hypotheses `Roots` of the value theorems, and a
conjugation as in `poly_conj_is_conj` inverts them (`ConjRoots`). -/
theorem poly_roots_are_roots (ev : Ev R) (ns : List Nat) (h : PrimRoots ev ns) :
    (Poly.roots ns).map (Root.map (ev.eval ns.length)) = ev.roots ns ∧ Roots ns (ev.roots ns) ∧
    ∀ conj, ev.ConjOK conj ns.length → ConjRoots conj ns (ev.roots ns) :=
  ⟨ev.eval_roots ns, ev.roots_Roots ns h, fun conj hc =>
    ev.roots_ConjRoots conj ns hc (fun a ha => (h a ha).1) (fun a ha => (h a ha).2.pow_n)⟩

end eval

section natural
variable {S R : Type} [Zero S] [One S] [Add S] [Mul S] [Zero R] [One R] [Add R] [Mul R]

/-- **The code-shaped model is natural in its carrier.**  For every map `φ` preserving
`0 1 + *` (no ring law needed on either side), `Field.fftn`, `Field.rfftn` and `Field.ifftn` of the
`φ`-image of a field, with the `φ`-images of the root parameters, are the `φ`-images of the
results (same mesh, labels, mapping, unit, error/success; data mapped cell by cell). -/
theorem transforms_commute_with_hom (φ : S → R) (h : IsHom φ) (ρs : List (Root S)) (f : CF S) :
    fftn (ρs.map (Root.map φ)) (f.map φ) = mapM φ (fftn ρs f) ∧
    rfftn (ρs.map (Root.map φ)) (f.map φ) = mapM φ (rfftn ρs f) ∧
    ifftn (ρs.map (Root.map φ)) (f.map φ) = mapM φ (ifftn ρs f) :=
  ⟨h.fftn ρs f, h.rfftn ρs f, h.ifftn ρs f⟩

/-- the same for `Field.irfftn`, for conjugations `cS`, `cR` that `φ` intertwines -/
theorem irfftn_commutes_with_hom (φ : S → R) (h : IsHom φ) (cS : S → S) (cR : R → R)
    (hc : ∀ x, φ (cS x) = cR (φ x)) (ρs : List (Root S)) (f : CF S) (shape : Option (List Nat)) :
    irfftn cR (ρs.map (Root.map φ)) (f.map φ) shape = mapM φ (irfftn cS ρs f shape) :=
  h.irfftn cS cR hc ρs f shape

end natural

section driver
variable {R : Type} [CommRing R]

/-- **What the driver computes, evaluated, is the model over `R`.**  For the three transforms
the driver runs as `T (Poly.roots shape) f`: evaluating every cell of the symbolic result is the
same as running the model over `R` with the evaluated roots on the evaluated input.  (No
hypothesis on the `ζ_a`.) -/
theorem driver_evaluates_to_model (ev : Ev R) (f : CF Poly) :
    mapM (ev.eval f.data.shape.length) (fftn (Poly.roots f.data.shape) f)
      = fftn (ev.roots f.data.shape) (f.map (ev.eval f.data.shape.length)) ∧
    mapM (ev.eval f.data.shape.length) (rfftn (Poly.roots f.data.shape) f)
      = rfftn (ev.roots f.data.shape) (f.map (ev.eval f.data.shape.length)) ∧
    mapM (ev.eval f.data.shape.length) (ifftn (Poly.roots f.data.shape) f)
      = ifftn (ev.roots f.data.shape) (f.map (ev.eval f.data.shape.length)) := by
  have hh := ev.eval_isHom f.data.shape.length
  refine ⟨?_, ?_, ?_⟩
  · rw [← hh.fftn, ev.eval_roots]
  · rw [← hh.rfftn, ev.eval_roots]
  · rw [← hh.ifftn, ev.eval_roots]

/-- the same for `irfftn`, which the driver runs as `irfftn (Poly.conj s) (Poly.roots s) f shape`
with `s` the output counts: needs `ζ_a^(s_a) = 1` (for `Poly.conj`) -/
theorem driver_irfftn_evaluates_to_model (ev : Ev R) (conj : R → R) (s : List Nat) (hc : ev.ConjOK conj s.length)
    (hpos : ∀ a, a < s.length → 0 < s.getD a 1) (hζ : ∀ a, a < s.length → ev.ζ a ^ s.getD a 1 = 1)
    (f : CF Poly) (shape : Option (List Nat)) :
    mapM (ev.eval s.length) (irfftn (Poly.conj s) (Poly.roots s) f shape)
      = irfftn conj (ev.roots s) (f.map (ev.eval s.length)) shape := by
  rw [← (ev.eval_isHom s.length).irfftn (Poly.conj s) conj (fun p => ev.eval_conj conj s hc hpos hζ p),
    ev.eval_roots]

/-- **The driver's printed spectrum is the DFT at the k-cell's frequency.**  End to end for
`Field.fftn`: take the symbolic result `g` of the driver's run on `f`, the printed dense table of
any component of any cell `m`, and evaluate it the harness's way with primitive roots `ζ_a`: the
value is the textbook sum `Σ_r value(r) · Π_a ζ_a^(m_a r_a) · ζ_a^(-⌊n_a/2⌋ r_a)` over all
real-space cells.  Everything between the driver's arithmetic and the specification is proved;
what remains trusted is the JSON glue and the floating-point evaluation of `exp`. -/
theorem driver_fftn_is_dft (ev : Ev R) (f g : CF Poly) (h : fftn (Poly.roots f.data.shape) f = .ok g)
    (hp : PrimRoots ev f.data.shape) (m : List Nat) (hm : inRange f.data.shape m = true)
    (c : Nat) (hc : c < f.nvdim) :
    ev.evalDense f.data.shape (Poly.dense f.data.shape (compA g.data c m))
      = sumBox f.data.shape fun r =>
          ev.eval f.data.shape.length (compA f.data c r) * phase (ev.roots f.data.shape) f.data.shape m r := by
  have hh := ev.eval_isHom f.data.shape.length
  rw [ev.evalDense_dense f.data.shape (fun a ha => (hp a ha).1) (fun a ha => (hp a ha).2.pow_n)]
  have h1 := (driver_evaluates_to_model ev f).1
  rw [h] at h1
  have h2 := fftn_is_dft (ev.roots f.data.shape) (f.map (ev.eval f.data.shape.length)) _ h1.symm
    (ev.roots_Roots _ hp) m hm c hc
  rw [← compA_mapA hh g.data c m]
  rw [show (g.map (ev.eval f.data.shape.length)).data = mapA (ev.eval f.data.shape.length) g.data from rfl] at h2
  rw [h2]
  apply sumBox_congr
  intro r _
  rw [show (f.map (ev.eval f.data.shape.length)).data = mapA (ev.eval f.data.shape.length) f.data from rfl,
    compA_mapA hh]
  rfl

/-- the same end to end for `Field.rfftn` (last axis unshifted) -/
theorem driver_rfftn_is_dft (ev : Ev R) (f g : CF Poly) (h : rfftn (Poly.roots f.data.shape) f = .ok g)
    (hp : PrimRoots ev f.data.shape) (m : List Nat) (hm : inRange (halfShape f.data.shape) m = true)
    (c : Nat) (hc : c < f.nvdim) :
    ev.evalDense f.data.shape (Poly.dense f.data.shape (compA g.data c m))
      = sumBox f.data.shape fun r =>
          ev.eval f.data.shape.length (compA f.data c r) * phaseR (ev.roots f.data.shape) f.data.shape m r := by
  have hh := ev.eval_isHom f.data.shape.length
  rw [ev.evalDense_dense f.data.shape (fun a ha => (hp a ha).1) (fun a ha => (hp a ha).2.pow_n)]
  have h1 := (driver_evaluates_to_model ev f).2.1
  rw [h] at h1
  have h2 := rfftn_is_dft (ev.roots f.data.shape) (f.map (ev.eval f.data.shape.length)) _ h1.symm
    (ev.roots_Roots _ hp) m hm c hc
  rw [← compA_mapA hh g.data c m]
  rw [show (g.map (ev.eval f.data.shape.length)).data = mapA (ev.eval f.data.shape.length) g.data from rfl] at h2
  rw [h2]
  apply sumBox_congr
  intro r _
  rw [show (f.map (ev.eval f.data.shape.length)).data = mapA (ev.eval f.data.shape.length) f.data from rfl,
    compA_mapA hh]
  rfl

/-- **The driver's printed inverse transform is the inverse DFT.**  The same end to end for
`Field.ifftn`: the printed table of any component of any real-space cell `j` of the symbolic
result evaluates to `Π_a q(1/n_a) · Σ_m value(m) · Π_a ζ_a^(-m_a j_a) · ζ_a^(⌊n_a/2⌋ j_a)` over all
k-cells `m`. -/
theorem driver_ifftn_is_idft (ev : Ev R) (f g : CF Poly) (h : ifftn (Poly.roots f.data.shape) f = .ok g)
    (hp : PrimRoots ev f.data.shape) (j : List Nat) (c : Nat) (hc : c < f.nvdim) :
    ev.evalDense f.data.shape (Poly.dense f.data.shape (compA g.data c j))
      = ninvProd (ev.roots f.data.shape) f.data.shape * sumBox f.data.shape fun m =>
          ev.eval f.data.shape.length (compA f.data c m) *
            phase ((ev.roots f.data.shape).map Root.swap) f.data.shape m j := by
  have hh := ev.eval_isHom f.data.shape.length
  rw [ev.evalDense_dense f.data.shape (fun a ha => (hp a ha).1) (fun a ha => (hp a ha).2.pow_n)]
  have h1 := (driver_evaluates_to_model ev f).2.2
  rw [h] at h1
  have h2 := ifftn_is_idft (ev.roots f.data.shape) (f.map (ev.eval f.data.shape.length)) _ h1.symm
    (ev.roots_Roots _ hp) j c hc
  rw [← compA_mapA hh g.data c j]
  rw [show (g.map (ev.eval f.data.shape.length)).data = mapA (ev.eval f.data.shape.length) g.data from rfl] at h2
  rw [h2]
  congr 1
  apply sumBox_congr
  intro r _
  rw [show (f.map (ev.eval f.data.shape.length)).data = mapA (ev.eval f.data.shape.length) f.data from rfl,
    compA_mapA hh]
  rfl

/-- **The hypotheses of part (c) are satisfiable for every shape, by the harness's own
substitution**: rationals into ℂ, `I ↦ i`, `ζ_a ↦ exp(-2πi/n_a)` are primitive roots, complex
conjugation is a conjugation for them, and the driver's formal roots evaluate to exactly the
complex root structures of `complex_roots_exist`. -/
theorem driver_complex (ns : List Nat) (h : ∀ n ∈ ns, 0 < n) :
    PrimRoots (cEv ns) ns ∧ (cEv ns).ConjOK (starRingEnd ℂ) ns.length ∧ (cEv ns).roots ns = ns.map cRoot :=
  ⟨cEv_prim ns h, cEv_conj ns h, cEv_roots ns h⟩

end driver

/-! ## Non-vacuity -/

/-- the mesh hypotheses of the geometry theorems hold for it, so `Mesh.fftn` succeeds on it for
both kinds and every theorem of part (a) applies -/
example : ∃ k, meshFftn exMesh true = .ok k ∧ k.nAt 2 = 2 ∧ k.nAt 0 = 3 := by
  refine ⟨kMesh exMesh true, (fftn_mesh exMesh true exMesh_inv).1, ?_, ?_⟩
  · exact (kcell_centres_rfft exMesh _ (fftn_mesh exMesh true exMesh_inv).1 exMesh_inv).1
  · exact ((kcell_centres_rfft exMesh _ (fftn_mesh exMesh true exMesh_inv).1 exMesh_inv).2.2 0 (by decide)).1

/-- a valid labelled 3-component field on that mesh: `CFInv` is satisfiable with a non-empty
mapping, so `fftn_total`, `ifftn_fftn`, `irfftn_rfftn` are not vacuous -/
example : CFInv ({ mesh := exMesh, nvdim := 3, data := ⟨[3, 1, 2], fun i => [(i.getD 0 0 : ℂ), 1, 2]⟩,
                   vdims := some ["a", "b", "c"], vmap := [("a", "x"), ("b", "y"), ("c", "z")],
                   unit := some "T" } : CF ℂ) :=
  ⟨exMesh_inv, rfl, by decide, Or.inr ⟨["a", "b", "c"], rfl, by simp, rfl, by decide +kernel, Or.inr rfl⟩⟩

/-- over ℚ, `-1` is a root for `n = 2` (and `1` for `n = 1`): `Roots` is satisfiable without ℂ -/
example : Roots [2, 1] [(⟨-1, -1, 1/2⟩ : Root ℚ), ⟨1, 1, 1⟩] := by
  refine ⟨⟨by norm_num, by norm_num, by norm_num, ?_⟩, ⟨by norm_num, by norm_num, by norm_num, ?_⟩, trivial⟩
  · intro k hk hk2
    have : k = 1 := by omega
    subst this
    simp [sumN]
  · intro k hk hk2; omega

/-- the evaluation hypotheses hold for the example shape with the harness's substitution, so
`driver_fftn_is_dft`, `poly_dense_value`, `poly_conj_is_conj` are not vacuous -/
example : PrimRoots (cEv [3, 1, 2]) [3, 1, 2] ∧ (cEv [3, 1, 2]).ConjOK (starRingEnd ℂ) 3 :=
  ⟨(driver_complex [3, 1, 2] (by decide)).1, (driver_complex [3, 1, 2] (by decide)).2.1⟩

/-- complex conjugation is an involution (hypothesis `hinv` of `irfftn_returns_real`); its
consistency hypothesis is met by every `rfftn` of real data (`rfftn_spectrum_consistent`) -/
example : ∀ x : ℂ, (starRingEnd ℂ) ((starRingEnd ℂ) x) = x := Complex.conj_conj

/-- a symbolic field as the driver builds it (Gaussian-rational constants) is a valid field, and
`fftn` over `Poly` succeeds on it: the hypothesis `fftn (Poly.roots shape) f = .ok g` of
`driver_fftn_is_dft` is satisfiable -/
example : ∃ g, fftn (Poly.roots [3, 1, 2])
    ({ mesh := exMesh, nvdim := 1,
       data := ⟨[3, 1, 2], fun i => [Poly.const (i.getD 0 0 : Rat) 1]⟩,
       vdims := none, vmap := [], unit := none } : CF Poly) = .ok g :=
  ⟨_, fftn_ok _ _ ⟨exMesh_inv, rfl, by decide, Or.inl ⟨rfl, rfl, rfl⟩⟩⟩

end DFV.C11
