import DFV.Lemmas.RatFloor
/-!
# C01 — mesh cells tile the region; index ↔ coordinate maps are mutually inverse

Property theorems only (helper lemmas live in `DFV/Lemmas`).  All statements are about
the executable model `DFV.Mesh` / `DFV.Region` of `DFV/Model/Basic.lean`, for every
number of dimensions, every region, every cell count, every index and every point.
-/
namespace DFV.C01
open DFV DFV.Mesh

/-- `n · cell = edge` on every axis: the cells cover the edge exactly. -/
theorem cells_cover_edges (m : Mesh) (a : Nat) (hn : 0 < m.nAt a) :
    (m.nAt a : Rat) * m.cellAt a = m.region.edge a := by
  unfold cellAt
  have : (m.nAt a : Rat) ≠ 0 := by exact_mod_cast (Nat.pos_iff_ne_zero.mp hn)
  field_simp

theorem cell_pos (m : Mesh) (a : Nat) (hn : 0 < m.nAt a) (hr : m.region.lo a < m.region.hi a) :
    0 < m.cellAt a := by
  unfold cellAt Region.edge
  have : (0 : Rat) < (m.nAt a : Rat) := by exact_mod_cast hn
  exact div_pos (by linarith) this

/-- The centre of cell `i` is `pmin + (i + ½)·cell` on every axis. -/
theorem centre_formula (m : Mesh) (idx : List Int) (p : List Rat) (h : m.index2point idx = .ok p)
    (a : Nat) (ha : a < m.ndim) :
    p.getD a 0 = m.region.lo a + ((idx.getD a 0 : Rat) + 1/2) * m.cellAt a := by
  unfold index2point at h
  split at h
  · cases h
  · split at h
    · cases h
    · injection h with h
      subst h
      rw [getD_tab _ _ _ _ ha]
      rfl

/-- index → centre → index is the identity on every axis (exact arithmetic). -/
theorem roundtrip_axis (m : Mesh) (a : Nat) (i : Nat) (hi : i < m.nAt a)
    (hr : m.region.lo a < m.region.hi a) :
    m.indexAx a (m.centreAx a (i : Int)) = i := by
  have hc := cell_pos m a (by omega) hr
  unfold indexAx centreAx
  have h : (m.region.lo a + (((i : Int) : Rat) + 1/2) * m.cellAt a - m.region.lo a) / m.cellAt a
      = ((i : Int) : Rat) + 1/2 := by
    field_simp
    ring
  rw [h]
  have hf : (((i : Int) : Rat) + 1/2).floor = (i : Int) := by
    apply rat_floor_eq <;> linarith
  rw [hf]
  unfold clipInt
  have h1 : ¬ ((i : Int) < 0) := by omega
  have h2 : ¬ ((m.nAt a : Int) - 1 < (i : Int)) := by omega
  simp [h1, h2]

/-- A point of the closed edge `[lo, hi]` is mapped to an in-range index whose cell
contains it: lower face inclusive; upper face exclusive except for the last cell. -/
theorem index_contains_axis (m : Mesh) (a : Nat) (x : Rat) (hn : 0 < m.nAt a)
    (hr : m.region.lo a < m.region.hi a) (hlo : m.region.lo a ≤ x) (hhi : x ≤ m.region.hi a) :
    m.indexAx a x < m.nAt a ∧
    m.region.lo a + (m.indexAx a x : Rat) * m.cellAt a ≤ x ∧
    (x < m.region.lo a + ((m.indexAx a x : Rat) + 1) * m.cellAt a ∨
      (m.indexAx a x = m.nAt a - 1 ∧ x = m.region.hi a)) := by
  have hc := cell_pos m a hn hr
  have hcov := cells_cover_edges m a hn
  unfold Region.edge at hcov
  set c := m.cellAt a with hcdef
  set q := (x - m.region.lo a) / c with hq
  have hq0 : 0 ≤ q := div_nonneg (by linarith) hc.le
  have hfl := rat_floor_le q
  have hfu := rat_lt_floor_add_one q
  have hf0 := rat_floor_nonneg q hq0
  have hxq : x = m.region.lo a + q * c := by rw [hq]; field_simp; ring
  have hqn : q ≤ (m.nAt a : Rat) := by
    rw [hq, div_le_iff₀ hc]; linarith
  have hfn : q.floor ≤ (m.nAt a : Int) := by
    have : (q.floor : Rat) ≤ (m.nAt a : Rat) := le_trans hfl hqn
    exact_mod_cast this
  unfold indexAx
  rw [← hcdef, ← hq]
  unfold clipInt
  have h1 : ¬ (q.floor < 0) := by omega
  simp only [h1, if_false]
  by_cases hlast : ((m.nAt a : Int) - 1 < q.floor)
  · -- floor = n: only possible for x = hi; clipped to n-1
    simp only [hlast, if_true]
    have hfeq : q.floor = (m.nAt a : Int) := by omega
    have hqe : q = (m.nAt a : Rat) := by
      have : ((m.nAt a : Int) : Rat) ≤ q := by rw [← hfeq]; exact hfl
      have h' : (m.nAt a : Rat) ≤ q := by exact_mod_cast this
      linarith
    have hxhi : x = m.region.hi a := by rw [hxq, hqe]; linarith
    have hcast : (((m.nAt a : Int) - 1).toNat : Rat) = (m.nAt a : Rat) - 1 := by
      have : ((m.nAt a : Int) - 1).toNat = m.nAt a - 1 := by omega
      rw [this]; push_cast [Nat.cast_sub (by omega : 1 ≤ m.nAt a)]; ring
    refine ⟨by omega, ?_, Or.inr ⟨by omega, hxhi⟩⟩
    rw [hcast, hxq, hqe]
    nlinarith
  · simp only [hlast, if_false]
    have hcast : ((q.floor.toNat : Nat) : Rat) = (q.floor : Rat) := by
      have : ((q.floor.toNat : Nat) : Int) = q.floor := Int.toNat_of_nonneg hf0
      exact_mod_cast this
    refine ⟨by omega, ?_, Or.inl ?_⟩
    · rw [hcast, hxq]; nlinarith
    · rw [hcast, hxq]; nlinarith

/-- Cells are disjoint: a coordinate lies in at most one half-open cell. -/
theorem cell_unique (lo c x : Rat) (hc : 0 < c) (j k : Nat)
    (hj : lo + (j : Rat) * c ≤ x ∧ x < lo + ((j : Rat) + 1) * c)
    (hk : lo + (k : Rat) * c ≤ x ∧ x < lo + ((k : Rat) + 1) * c) : j = k := by
  obtain ⟨hj1, hj2⟩ := hj
  obtain ⟨hk1, hk2⟩ := hk
  have h1 : (j : Rat) < (k : Rat) + 1 := by
    by_contra hcon
    rw [not_lt] at hcon
    have : ((k : Rat) + 1) * c ≤ (j : Rat) * c := mul_le_mul_of_nonneg_right hcon hc.le
    linarith
  have h2 : (k : Rat) < (j : Rat) + 1 := by
    by_contra hcon
    rw [not_lt] at hcon
    have : ((j : Rat) + 1) * c ≤ (k : Rat) * c := mul_le_mul_of_nonneg_right hcon hc.le
    linarith
  have h1' : j < k + 1 := by exact_mod_cast h1
  have h2' : k < j + 1 := by exact_mod_cast h2
  omega

end DFV.C01
