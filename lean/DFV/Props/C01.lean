import DFV.Lemmas.C01
import DFV.Lemmas.Rounding
import DFV.Lemmas.C01Tol
import DFV.Lemmas.C01Cell
import DFV.Lemmas.C01Ctor
import DFV.Lemmas.C01Iter
import DFV.Lemmas.C01Fl64
import DFV.Lemmas.C01FlTol
import DFV.Lemmas.C01FlLin
import DFV.Lemmas.C01FlProd
import DFV.Model.C01
/-!
# C01 — mesh cells tile the region; index ↔ coordinate maps are mutually inverse

Property theorems only (helper lemmas live in `DFV/Lemmas`).  All statements are about
the executable model `DFV.Mesh` / `DFV.Region` of `DFV/Model/Basic.lean`, for every
number of dimensions, every region, every cell count, every index and every point.
-/
namespace DFV.C01
open DFV DFV.Mesh

/-- `n · cell = edge` on every axis: the cells cover the edge exactly. -/
theorem cells_cover_edges (m : Mesh) (a : Nat) (hn : 0 < m.nAt a) :
    (m.nAt a : Rat) * m.cellAt a = m.region.edge a := by
  unfold cellAt
  have : (m.nAt a : Rat) ≠ 0 := by exact_mod_cast (Nat.pos_iff_ne_zero.mp hn)
  field_simp

/-- cells have positive size on every axis of a non-degenerate edge -/
theorem cell_pos (m : Mesh) (a : Nat) (hn : 0 < m.nAt a) (hr : m.region.lo a < m.region.hi a) :
    0 < m.cellAt a := by
  unfold cellAt Region.edge
  have : (0 : Rat) < (m.nAt a : Rat) := by exact_mod_cast hn
  exact div_pos (by linarith) this

/-- The centre of cell `i` is `pmin + (i + ½)·cell` on every axis. -/
theorem centre_formula (m : Mesh) (idx : List Int) (p : List Rat) (h : m.index2point idx = .ok p)
    (a : Nat) (ha : a < m.ndim) :
    p.getD a 0 = m.region.lo a + ((idx.getD a 0 : Rat) + 1/2) * m.cellAt a := by
  unfold index2point at h
  split at h
  · cases h
  · split at h
    · cases h
    · injection h with h
      subst h
      rw [getD_tab _ _ _ _ ha]
      rfl

/-- index → centre → index is the identity on every axis (exact arithmetic). -/
theorem roundtrip_axis (m : Mesh) (a : Nat) (i : Nat) (hi : i < m.nAt a)
    (hr : m.region.lo a < m.region.hi a) :
    m.indexAx a (m.centreAx a (i : Int)) = i := by
  have hc := cell_pos m a (by omega) hr
  unfold indexAx centreAx
  have h : (m.region.lo a + (((i : Int) : Rat) + 1/2) * m.cellAt a - m.region.lo a) / m.cellAt a
      = ((i : Int) : Rat) + 1/2 := by
    field_simp
    ring
  rw [h]
  have hf : (((i : Int) : Rat) + 1/2).floor = (i : Int) := by
    apply rat_floor_eq <;> linarith
  rw [hf]
  unfold clipInt
  have h1 : ¬ ((i : Int) < 0) := by omega
  have h2 : ¬ ((m.nAt a : Int) - 1 < (i : Int)) := by omega
  simp [h1, h2]

/-- A point of the closed edge `[lo, hi]` is mapped to an in-range index whose cell
contains it: lower face inclusive; upper face exclusive except for the last cell. -/
theorem index_contains_axis (m : Mesh) (a : Nat) (x : Rat) (hn : 0 < m.nAt a)
    (hr : m.region.lo a < m.region.hi a) (hlo : m.region.lo a ≤ x) (hhi : x ≤ m.region.hi a) :
    m.indexAx a x < m.nAt a ∧
    m.region.lo a + (m.indexAx a x : Rat) * m.cellAt a ≤ x ∧
    (x < m.region.lo a + ((m.indexAx a x : Rat) + 1) * m.cellAt a ∨
      (m.indexAx a x = m.nAt a - 1 ∧ x = m.region.hi a)) := by
  have hc := cell_pos m a hn hr
  have hcov := cells_cover_edges m a hn
  unfold Region.edge at hcov
  set c := m.cellAt a with hcdef
  set q := (x - m.region.lo a) / c with hq
  have hq0 : 0 ≤ q := div_nonneg (by linarith) hc.le
  have hfl := rat_floor_le q
  have hfu := rat_lt_floor_add_one q
  have hf0 := rat_floor_nonneg q hq0
  have hxq : x = m.region.lo a + q * c := by rw [hq]; field_simp; ring
  have hqn : q ≤ (m.nAt a : Rat) := by
    rw [hq, div_le_iff₀ hc]; linarith
  have hfn : q.floor ≤ (m.nAt a : Int) := by
    have : (q.floor : Rat) ≤ (m.nAt a : Rat) := le_trans hfl hqn
    exact_mod_cast this
  unfold indexAx
  rw [← hcdef, ← hq]
  unfold clipInt
  have h1 : ¬ (q.floor < 0) := by omega
  simp only [h1, if_false]
  by_cases hlast : ((m.nAt a : Int) - 1 < q.floor)
  · -- floor = n: only possible for x = hi; clipped to n-1
    simp only [hlast, if_true]
    have hfeq : q.floor = (m.nAt a : Int) := by omega
    have hqe : q = (m.nAt a : Rat) := by
      have : ((m.nAt a : Int) : Rat) ≤ q := by rw [← hfeq]; exact hfl
      have h' : (m.nAt a : Rat) ≤ q := by exact_mod_cast this
      linarith
    have hxhi : x = m.region.hi a := by rw [hxq, hqe]; linarith
    have hcast : (((m.nAt a : Int) - 1).toNat : Rat) = (m.nAt a : Rat) - 1 := by
      have : ((m.nAt a : Int) - 1).toNat = m.nAt a - 1 := by omega
      rw [this]; push_cast [Nat.cast_sub (by omega : 1 ≤ m.nAt a)]; ring
    refine ⟨by omega, ?_, Or.inr ⟨by omega, hxhi⟩⟩
    rw [hcast, hxq, hqe]
    nlinarith
  · simp only [hlast, if_false]
    have hcast : ((q.floor.toNat : Nat) : Rat) = (q.floor : Rat) := by
      have : ((q.floor.toNat : Nat) : Int) = q.floor := Int.toNat_of_nonneg hf0
      exact_mod_cast this
    refine ⟨by omega, ?_, Or.inl ?_⟩
    · rw [hcast, hxq]; nlinarith
    · rw [hcast, hxq]; nlinarith

/-- Cells are disjoint: a coordinate lies in at most one half-open cell. -/
theorem cell_unique (lo c x : Rat) (hc : 0 < c) (j k : Nat)
    (hj : lo + (j : Rat) * c ≤ x ∧ x < lo + ((j : Rat) + 1) * c)
    (hk : lo + (k : Rat) * c ≤ x ∧ x < lo + ((k : Rat) + 1) * c) : j = k := by
  obtain ⟨hj1, hj2⟩ := hj
  obtain ⟨hk1, hk2⟩ := hk
  have h1 : (j : Rat) < (k : Rat) + 1 := by
    by_contra hcon
    rw [not_lt] at hcon
    have : ((k : Rat) + 1) * c ≤ (j : Rat) * c := mul_le_mul_of_nonneg_right hcon hc.le
    linarith
  have h2 : (k : Rat) < (j : Rat) + 1 := by
    by_contra hcon
    rw [not_lt] at hcon
    have : ((j : Rat) + 1) * c ≤ (k : Rat) * c := mul_le_mul_of_nonneg_right hcon hc.le
    linarith
  have h1' : j < k + 1 := by exact_mod_cast h1
  have h2' : k < j + 1 := by exact_mod_cast h2
  omega

/-- the centre of an in-range cell lies in the closed region -/
theorem centre_in_region_axis (m : Mesh) (a : Nat) (i : Nat) (hi : i < m.nAt a)
    (hr : m.region.lo a < m.region.hi a) :
    m.region.lo a ≤ m.centreAx a (i : Int) ∧ m.centreAx a (i : Int) ≤ m.region.hi a := by
  have hc := cell_pos m a (by omega) hr
  have hcov := cells_cover_edges m a (by omega)
  unfold Region.edge at hcov
  unfold centreAx
  have hiq : ((i : Int) : Rat) + 1 ≤ (m.nAt a : Rat) := by
    have : (i : Int) + 1 ≤ (m.nAt a : Int) := by omega
    exact_mod_cast this
  have h0 : (0 : Rat) ≤ ((i : Int) : Rat) := by exact_mod_cast (Int.natCast_nonneg i)
  constructor
  · nlinarith
  · nlinarith

/-- index → centre → index is the identity (list level, every dimension) -/
theorem roundtrip (m : Mesh) (hm : m.Inv) (i : List Nat) (hi : inRange m.n i = true) :
    m.point2index (m.centre i) = .ok i := by
  obtain ⟨hr, hn, hpos⟩ := hm
  have hlen : i.length = m.ndim := by
    have := inRange_length m.n i hi
    rw [this, hn]; rfl
  have hin : ∀ a, a < m.ndim → i.getD a 0 < m.nAt a := by
    intro a ha
    exact inRange_getD m.n i hi a (by rw [hn]; exact ha)
  have hlohi : ∀ a, a < m.ndim → m.region.lo a < m.region.hi a := fun a ha => hr.2.2.2.2.2 a ha
  unfold point2index
  have h1 : (m.centre i).length = m.ndim := by simp [centre]
  rw [if_neg (not_not.mpr h1)]
  have hcont : m.region.containsPt (m.centre i) = true := by
    unfold Region.containsPt
    have : decide ((m.centre i).length = m.region.ndim) = true := by
      have h1' : (m.centre i).length = m.region.ndim := h1
      simpa using h1'
    rw [this, Bool.true_and, allLt_iff]
    intro a ha
    have ha : a < m.ndim := ha
    have hg : (m.centre i).getD a 0 = m.centreAx a ((i.getD a 0 : Nat) : Int) := by
      unfold centre; rw [getD_tab _ _ _ _ ha]
    rw [hg]
    obtain ⟨c1, c2⟩ := centre_in_region_axis m a (i.getD a 0) (hin a ha) (hlohi a ha)
    exact containsAx_of_exact _ _ _ c1 c2
  rw [hcont]
  simp only [Bool.not_true, Bool.false_eq_true, if_false]
  congr 1
  symm
  apply eq_tab_of_getD i m.ndim _ 0 hlen
  intro a ha
  have hg : (m.centre i).getD a 0 = m.centreAx a ((i.getD a 0 : Nat) : Int) := by
    unfold centre; rw [getD_tab _ _ _ _ ha]
  rw [hg, roundtrip_axis m a (i.getD a 0) (hin a ha) (hlohi a ha)]

/-- the per-axis list of cell centres (`Mesh.cells`, built with linspace) is `pmin + (j+½)·cell` -/
theorem cells_eq_centres (m : Mesh) (a : Nat) (ha : a < m.ndim) (hn : 0 < m.nAt a) (j : Nat) (hj : j < m.nAt a) :
    ((m.cells).getD a []).getD j 0 = m.region.lo a + ((j : Rat) + 1/2) * m.cellAt a := by
  have hcov := cells_cover_edges m a hn
  unfold Region.edge at hcov
  unfold cells
  rw [getD_tab _ _ _ _ ha]
  unfold linspace
  by_cases h1 : m.nAt a = 1
  · have hj0 : j = 0 := by omega
    subst hj0
    rw [if_pos h1]
    simp
    ring
  · rw [if_neg h1, getD_tab _ _ _ _ hj]
    have hnq : (m.nAt a : Rat) - 1 ≠ 0 := by
      have : (2 : Rat) ≤ (m.nAt a : Rat) := by exact_mod_cast (by omega : 2 ≤ m.nAt a)
      intro h; linarith
    have hdiff : (m.region.hi a - m.cellAt a / 2 - (m.region.lo a + m.cellAt a / 2)) = ((m.nAt a : Rat) - 1) * m.cellAt a := by
      linarith
    rw [hdiff]
    field_simp
    ring

/-- the per-axis list of vertices (`Mesh.vertices`) is `pmin + j·cell`, `j = 0 … n` -/
theorem vertices_eq_faces (m : Mesh) (a : Nat) (ha : a < m.ndim) (hn : 0 < m.nAt a) (j : Nat) (hj : j ≤ m.nAt a) :
    ((m.vertices).getD a []).getD j 0 = m.region.lo a + (j : Rat) * m.cellAt a := by
  have hcov := cells_cover_edges m a hn
  unfold Region.edge at hcov
  unfold vertices
  rw [getD_tab _ _ _ _ ha]
  unfold linspace
  have h1 : ¬ (m.nAt a + 1 = 1) := by omega
  rw [if_neg h1, getD_tab _ _ _ _ (by omega)]
  have hnq : (m.nAt a : Rat) ≠ 0 := by exact_mod_cast (by omega : m.nAt a ≠ 0)
  push_cast
  have : (m.nAt a : Rat) + 1 - 1 = (m.nAt a : Rat) := by ring
  rw [this]
  have hd : m.region.hi a - m.region.lo a = (m.nAt a : Rat) * m.cellAt a := by linarith
  rw [hd]
  field_simp

/-- the constructor does not depend on the order in which the two corners are given -/
theorem corner_order (p1 p2 : List Rat) (d u : Option (List String)) (tol : Rat) :
    Region.mk? p1 p2 d u tol = Region.mk? p2 p1 d u tol := by
  unfold Region.mk?
  by_cases hl : p1.length = p2.length
  · have hl' : p2.length = p1.length := hl.symm
    rw [if_neg (not_not.mpr hl), if_neg (not_not.mpr hl')]
    rw [← hl]
    by_cases h0 : p1.length = 0
    · rw [if_pos h0, if_pos h0]
    · rw [if_neg h0, if_neg h0]
      have hsym : allLt p1.length (fun a => decide (p1.getD a 0 ≠ p2.getD a 0))
          = allLt p1.length (fun a => decide (p2.getD a 0 ≠ p1.getD a 0)) := by
        congr 1; funext a; simp [ne_comm]
      have hmin : (tab p1.length fun a => min (p1.getD a 0) (p2.getD a 0))
          = tab p1.length fun a => min (p2.getD a 0) (p1.getD a 0) :=
        tab_congr _ _ _ fun a _ => min_comm _ _
      have hmax : (tab p1.length fun a => max (p1.getD a 0) (p2.getD a 0))
          = tab p1.length fun a => max (p2.getD a 0) (p1.getD a 0) :=
        tab_congr _ _ _ fun a _ => max_comm _ _
      rw [hsym, hmin, hmax]
  · have hl' : ¬ p2.length = p1.length := fun h => hl h.symm
    rw [if_pos hl, if_pos hl']

/-- out-of-range or wrong-length indices are rejected -/
theorem index_rejected (m : Mesh) (idx : List Int)
    (h : idx.length ≠ m.ndim ∨ ∃ a, a < m.ndim ∧ (idx.getD a 0 < 0 ∨ (m.nAt a : Int) ≤ idx.getD a 0)) :
    m.index2point idx = .error .index := by
  unfold index2point
  by_cases hl : idx.length = m.ndim
  · rw [if_neg (not_not.mpr hl)]
    rcases h with h | ⟨a, ha, hb⟩
    · exact absurd hl h
    · have : allLt m.ndim (fun a => decide (0 ≤ idx.getD a 0) && decide (idx.getD a 0 < (m.nAt a : Int))) = false := by
        apply allLt_false_of _ _ a ha
        rcases hb with hb | hb
        · have : decide (0 ≤ idx.getD a 0) = false := by simpa using hb
          rw [this]; rfl
        · have : decide (idx.getD a 0 < (m.nAt a : Int)) = false := by simpa using hb
          rw [this, Bool.and_false]
      rw [this]; rfl
  · rw [if_pos hl]

/-- a point with a coordinate outside the tolerance band of `Region.__contains__` is rejected -/
theorem point_rejected (m : Mesh) (p : List Rat)
    (h : p.length ≠ m.ndim ∨ ∃ a, a < m.ndim ∧ m.region.containsAx a (p.getD a 0) = false) :
    m.point2index p = .error .value := by
  unfold point2index
  by_cases hl : p.length = m.ndim
  · rw [if_neg (not_not.mpr hl)]
    rcases h with h | ⟨a, ha, hb⟩
    · exact absurd hl h
    · have : m.region.containsPt p = false := by
        unfold Region.containsPt
        have : allLt m.region.ndim (fun a => m.region.containsAx a (p.getD a 0)) = false :=
          allLt_false_of _ _ a ha hb
        rw [this]; simp
      rw [this]; rfl
  · rw [if_pos hl]

/-- … and below the lower face, beyond the band `atol + rtol·|x|`, the axis test indeed fails -/
theorem containsAx_below (r : Region) (a : Nat) (x : Rat) (hx : x < r.lo a)
    (hband : r.atol + r.tol * absR x < r.lo a - x) : r.containsAx a x = false := by
  unfold Region.containsAx Region.isclose
  have h1 : ¬ (r.lo a ≤ x) := not_le.mpr hx
  have h2 : ¬ (absR (r.lo a - x) ≤ r.atol + r.tol * absR x) := by
    rw [absR_eq_abs, abs_of_pos (by linarith)]
    exact not_le.mpr hband
  simp [h1, h2]

/-- a point inside the tolerance band below the lower face is accepted by the axis test and
clipped into the first cell -/
theorem band_clipped_to_first (m : Mesh) (a : Nat) (x : Rat) (hn : 0 < m.nAt a)
    (hr : m.region.lo a < m.region.hi a) (hx : x < m.region.lo a) : m.indexAx a x = 0 := by
  have hc := cell_pos m a hn hr
  unfold indexAx
  have hq : (x - m.region.lo a) / m.cellAt a < 0 := div_neg_of_neg_of_pos (by linarith) hc
  have hf : ((x - m.region.lo a) / m.cellAt a).floor < 0 := by
    apply rat_floor_lt; simpa using hq
  unfold clipInt
  simp [hf]


/-- A mesh requested by cell size exists whenever every edge is exactly a whole number
(≥ 1) of cells; its counts are those whole numbers, so `n · cell = edges` exactly. -/
theorem by_cell_exact (r : Region) (cell : List Rat) (k : Nat → Nat)
    (hlen : cell.length = r.ndim) (hpos : ∀ c ∈ cell, 0 < c)
    (hk : ∀ a, a < r.ndim → 0 < k a ∧ r.edge a = (k a : Rat) * cell.getD a 0)
    (bc : String) (hbc : bcOk r.dims bc.toLower = true) :
    Mesh.mkCell? r cell bc = .ok { region := r, n := tab r.ndim k, bc := bc.toLower, subs := [] } := by
  have hc : ∀ a, a < r.ndim → 0 < cell.getD a 0 := by
    intro a ha
    have : cell.getD a 0 = cell[a]'(by rw [hlen]; exact ha) := by
      simp [List.getD_eq_getElem?_getD, List.getElem?_eq_getElem (by rw [hlen]; exact ha : a < cell.length)]
    rw [this]; exact hpos _ (List.getElem_mem _)
  unfold Mesh.mkCell?
  rw [if_neg (not_not.mpr hlen)]
  have h1 : cell.any (fun c => decide (c ≤ 0)) = false := by
    rw [List.any_eq_false]; intro c hcm; have := hpos c hcm; simp; exact this
  rw [h1]
  simp only [Bool.false_eq_true, if_false]
  have h2 : r.containsPt (tab r.ndim fun a => r.lo a + cell.getD a 0) = true := by
    unfold Region.containsPt
    simp only [tab_length, decide_true, Bool.true_and]
    rw [allLt_iff]; intro a ha
    rw [getD_tab _ _ _ _ ha]
    obtain ⟨hk0, hke⟩ := hk a ha
    have hca := hc a ha
    have e1 : r.lo a ≤ r.lo a + cell.getD a 0 := by linarith
    have e2 : r.lo a + cell.getD a 0 ≤ r.hi a := by
      unfold Region.edge at hke
      have : (1 : Rat) ≤ (k a : Rat) := by exact_mod_cast hk0
      nlinarith
    exact containsAx_of_exact _ _ _ e1 e2
  rw [h2]
  simp only [Bool.not_true, Bool.false_eq_true, if_false]
  have h3 : allLt r.ndim (fun a => !notDivisible (r.edge a) (cell.getD a 0) (listMin cell / 1000)) = true := by
    rw [allLt_iff]; intro a ha
    obtain ⟨_, hke⟩ := hk a ha
    unfold notDivisible
    have : remainder (r.edge a) (cell.getD a 0) = 0 := by
      rw [hke]
      have := DFV.C14.remainder_of_multiple (k a : Int) (cell.getD a 0) (hc a ha)
      simpa using this
    rw [this]
    have hn : ¬ (listMin cell / 1000 < 0) := by
      have := listMin_nonneg cell hpos
      intro h; have : listMin cell < 0 := by linarith
      linarith
    simp [hn]
  rw [h3]
  simp only [Bool.not_true, Bool.false_eq_true, if_false]
  have h3b : allLt r.ndim (fun a => decide (1 ≤ (roundHalfEven (r.edge a / cell.getD a 0)).toNat)) = true := by
    rw [allLt_iff]; intro a ha
    obtain ⟨hk0, hke⟩ := hk a ha
    have hca := hc a ha
    have : r.edge a / cell.getD a 0 = ((k a : Int) : Rat) := by
      rw [hke]; field_simp; simp
    rw [this, roundHalfEven_int]
    simp only [Int.toNat_natCast, decide_eq_true_eq]
    omega
  rw [h3b]
  simp only [Bool.not_true, Bool.false_eq_true, if_false]
  rw [hbc]
  simp only [Bool.not_true, Bool.false_eq_true, if_false]
  have h5 : (tab r.ndim fun a => (roundHalfEven (r.edge a / cell.getD a 0)).toNat) = tab r.ndim k := by
    apply tab_congr; intro a ha
    obtain ⟨_, hke⟩ := hk a ha
    have hca := hc a ha
    have : r.edge a / cell.getD a 0 = ((k a : Int) : Rat) := by
      rw [hke]; field_simp; simp
    rw [this, roundHalfEven_int]; simp
  rw [h5]

/-- … and it is refused when some edge is clearly not a whole number of cells (remainder
strictly inside the 0.1 % band on both sides) -/
theorem by_cell_rejects (r : Region) (cell : List Rat) (a : Nat) (ha : a < r.ndim)
    (h : listMin cell / 1000 < remainder (r.edge a) (cell.getD a 0) ∧
         remainder (r.edge a) (cell.getD a 0) < cell.getD a 0 - listMin cell / 1000)
    (bc : String) : ∃ e, Mesh.mkCell? r cell bc = .error e := by
  unfold Mesh.mkCell?
  split
  · exact ⟨_, rfl⟩
  · split
    · exact ⟨_, rfl⟩
    · split
      · exact ⟨_, rfl⟩
      · have : allLt r.ndim (fun a => !notDivisible (r.edge a) (cell.getD a 0) (listMin cell / 1000)) = false := by
          apply allLt_false_of _ _ a ha
          unfold notDivisible
          have e1 : decide (listMin cell / 1000 < remainder (r.edge a) (cell.getD a 0)) = true := by
            simpa using h.1
          have e2 : decide (remainder (r.edge a) (cell.getD a 0) < cell.getD a 0 - listMin cell / 1000) = true := by
            simpa using h.2
          rw [e1, e2]; rfl
        rw [this]
        exact ⟨_, rfl⟩


/-- `Mesh.indices` enumerates every cell exactly once, first dimension fastest: it is the
list `unflatF n 0, unflatF n 1, …, unflatF n (Π n − 1)` (so cell `k` of the iteration has
first-index-fastest flat index `k`, and its length is the cell count). -/
theorem indices_refines (ns : List Nat) : indicesCode ns = indicesF ns := indicesCode_eq_indicesF ns

/-- … so `Mesh.indices` has `Π n = len(mesh)` entries -/
theorem indices_length (ns : List Nat) : (indicesCode ns).length = natProd ns := by
  rw [indices_refines]; simp [indicesF]

/-- entry `k` of the iteration is the multi-index whose first-index-fastest flat index is `k` -/
theorem indices_entry (ns : List Nat) (k : Nat) (hk : k < natProd ns) :
    flatF ns ((indicesCode ns).getD k []) = k := by
  rw [indices_refines]
  unfold indicesF
  rw [List.getD_eq_getElem?_getD, List.getElem?_map, List.getElem?_range hk]
  simp only [Option.map_some, Option.getD_some]
  exact flatF_unflatF ns k hk

/-- **A mesh requested by cell size exists only when every edge is a whole number of cells**
(up to the 0.1 % tolerance of the constructor): if the constructor succeeds, the cell count of
every axis is a whole number `n_a ≥ 1` with `|edge_a − n_a·cell_a| ≤ min(cell)/1000`.  Together
with `by_cell_exact` (exact whole numbers are accepted) and `by_cell_rejects` (remainders clearly
inside the band are refused) this is the "exists exactly when" clause.  The positivity half was
false of the code before repo fix 5c501c0e (finding D101). -/
theorem by_cell_ok_near (r : Region) (hr : r.Inv) (cell : List Rat) (bc : String) (m : Mesh)
    (h : Mesh.mkCell? r cell bc = .ok m) (a : Nat) (ha : a < r.ndim) :
    m.region = r ∧ 1 ≤ m.nAt a ∧ |r.edge a - (m.nAt a : Rat) * cell.getD a 0| ≤ listMin cell / 1000 := by
  unfold Mesh.mkCell? at h
  split at h
  · cases h
  next hlen =>
  split at h
  · cases h
  next hany =>
  split at h
  · cases h
  next hcont =>
  split at h
  · cases h
  next hdiv =>
  split at h
  · cases h
  next hcnt =>
  split at h
  · cases h
  next hbc =>
  injection h with h
  subst h
  have hlen : cell.length = r.ndim := not_not.mp hlen
  have hposall : ∀ c ∈ cell, 0 < c := by
    intro c hc
    have h1 : cell.any (fun c => decide (c ≤ 0)) = false := by simpa using hany
    have := List.any_eq_false.mp h1 c hc
    simpa using this
  have hmem : cell.getD a 0 ∈ cell := by
    have hlt : a < cell.length := by rw [hlen]; exact ha
    rw [List.getD_eq_getElem?_getD, List.getElem?_eq_getElem hlt]
    exact List.getElem_mem _
  have hc : 0 < cell.getD a 0 := hposall _ hmem
  have ht0 : 0 ≤ listMin cell / 1000 := by
    have := listMin_nonneg cell hposall; linarith
  have htc : listMin cell / 1000 < cell.getD a 0 / 2 := by
    have := listMin_le_mem cell _ hmem; linarith
  have hd : notDivisible (r.edge a) (cell.getD a 0) (listMin cell / 1000) = false := by
    have h1 : allLt r.ndim (fun a => !notDivisible (r.edge a) (cell.getD a 0) (listMin cell / 1000)) = true := by
      simpa using hdiv
    have := (allLt_iff _ _).mp h1 a ha
    simpa using this
  have hnear := round_near _ _ _ hc ht0 htc hd
  have he : 0 < r.edge a := by
    unfold Region.edge; have := hr.2.2.2.2.2 a ha; linarith
  have hq : 0 ≤ r.edge a / cell.getD a 0 := (div_pos he hc).le
  have hrn := roundHalfEven_nonneg _ hq
  have hnat : Mesh.nAt (Mesh.mk r (tab r.ndim (fun a => (roundHalfEven (r.edge a / cell.getD a 0)).toNat)) bc.toLower []) a
      = (roundHalfEven (r.edge a / cell.getD a 0)).toNat := by
    unfold Mesh.nAt; simp only; rw [getD_tab _ _ _ _ ha]
  have hcast : (((roundHalfEven (r.edge a / cell.getD a 0)).toNat : Nat) : Rat)
      = ((roundHalfEven (r.edge a / cell.getD a 0) : Int) : Rat) := by
    have : (((roundHalfEven (r.edge a / cell.getD a 0)).toNat : Nat) : Int) = roundHalfEven (r.edge a / cell.getD a 0) :=
      Int.toNat_of_nonneg hrn
    exact_mod_cast this
  have hone : 1 ≤ (roundHalfEven (r.edge a / cell.getD a 0)).toNat := by
    have h1 : allLt r.ndim (fun a => decide (1 ≤ (roundHalfEven (r.edge a / cell.getD a 0)).toNat)) = true := by
      simpa using hcnt
    have := (allLt_iff _ _).mp h1 a ha
    simpa using this
  refine ⟨rfl, ?_, ?_⟩
  · rw [hnat]; exact hone
  · rw [hnat, hcast]; exact hnear

/-- the far-offset witness of D101 is refused by the model as by the repaired code -/
example : (Mesh.mkCell? (Region.mk [1000000000000000] [1000000000000001] ["x"] ["m"] (1/1000000000000)) [1000]).toOption
    = none := by decide +kernel


/-! ## round 3: list-level tiling, iteration, coordinate field, volume -/

/-- the half-open cell `i` of the lattice, last cell closed (spec of "the cell contains the point") -/
def inCell (m : Mesh) (i : List Nat) (p : List Rat) : Prop :=
  ∀ a, a < m.ndim →
    m.region.lo a + (i.getD a 0 : Rat) * m.cellAt a ≤ p.getD a 0 ∧
    (p.getD a 0 < m.region.lo a + ((i.getD a 0 : Rat) + 1) * m.cellAt a ∨
      (i.getD a 0 = m.nAt a - 1 ∧ p.getD a 0 = m.region.hi a))

/-- **Any point of the region maps to an in-range index whose cell contains the point**
(every dimension; lower faces inclusive, the last cell also upper-inclusive). -/
theorem point_index_contains (m : Mesh) (hm : m.Inv) (p : List Rat) (hp : m.region.containsExact p) :
    ∃ i, m.point2index p = .ok i ∧ inRange m.n i = true ∧ inCell m i p := by
  obtain ⟨hr, hn, hpos⟩ := hm
  have hlohi : ∀ a, a < m.ndim → m.region.lo a < m.region.hi a := fun a ha => hr.2.2.2.2.2 a ha
  refine ⟨tab m.ndim fun a => m.indexAx a (p.getD a 0), ?_, ?_, ?_⟩
  · unfold point2index
    have h1 : p.length = m.ndim := hp.1
    rw [if_neg (not_not.mpr h1), containsPt_of_exact _ _ hp]
    simp
  · apply inRange_of_getD
    · rw [tab_length, hn]; rfl
    · intro a ha
      have ha' : a < m.ndim := by rw [hn] at ha; exact ha
      rw [getD_tab _ _ _ _ ha']
      exact (index_contains_axis m a _ (hpos a ha') (hlohi a ha') (hp.2 a ha').1 (hp.2 a ha').2).1
  · intro a ha
    rw [getD_tab _ _ _ _ ha]
    exact (index_contains_axis m a _ (hpos a ha) (hlohi a ha) (hp.2 a ha).1 (hp.2 a ha).2).2

/-- **The cells cover the region exactly once**: every point of the half-open box
`[pmin, pmax)` lies in exactly one half-open cell `[pmin + i·cell, pmin + (i+1)·cell)`. -/
theorem cover_exactly_once (m : Mesh) (hm : m.Inv) (p : List Rat) (hl : p.length = m.ndim)
    (hp : ∀ a, a < m.ndim → m.region.lo a ≤ p.getD a 0 ∧ p.getD a 0 < m.region.hi a) :
    ∃ i, (inRange m.n i = true ∧ ∀ a, a < m.ndim →
            m.region.lo a + (i.getD a 0 : Rat) * m.cellAt a ≤ p.getD a 0 ∧
            p.getD a 0 < m.region.lo a + ((i.getD a 0 : Rat) + 1) * m.cellAt a) ∧
      ∀ j, (inRange m.n j = true ∧ ∀ a, a < m.ndim →
            m.region.lo a + (j.getD a 0 : Rat) * m.cellAt a ≤ p.getD a 0 ∧
            p.getD a 0 < m.region.lo a + ((j.getD a 0 : Rat) + 1) * m.cellAt a) → j = i := by
  have hm' := hm
  obtain ⟨hr, hn, hpos⟩ := hm
  have hlohi : ∀ a, a < m.ndim → m.region.lo a < m.region.hi a := fun a ha => hr.2.2.2.2.2 a ha
  obtain ⟨i, _, hir, hic⟩ := point_index_contains m hm' p ⟨hl, fun a ha => ⟨(hp a ha).1, (hp a ha).2.le⟩⟩
  have hcell : ∀ a, a < m.ndim →
      m.region.lo a + (i.getD a 0 : Rat) * m.cellAt a ≤ p.getD a 0 ∧
      p.getD a 0 < m.region.lo a + ((i.getD a 0 : Rat) + 1) * m.cellAt a := by
    intro a ha
    refine ⟨(hic a ha).1, ?_⟩
    rcases (hic a ha).2 with h | ⟨_, h⟩
    · exact h
    · exact absurd h (ne_of_lt (hp a ha).2)
  refine ⟨i, ⟨hir, hcell⟩, ?_⟩
  intro j ⟨hjr, hjc⟩
  apply list_eq_of_getD j i 0
  · rw [inRange_length _ _ hjr, inRange_length _ _ hir]
  · intro a ha
    have ha' : a < m.ndim := by rw [inRange_length _ _ hjr, hn] at ha; exact ha
    exact cell_unique (m.region.lo a) (m.cellAt a) (p.getD a 0) (cell_pos m a (hpos a ha') (hlohi a ha')) _ _
      (hjc a ha') (hcell a ha')

/-- distinct cells have distinct centres -/
theorem centre_injective (m : Mesh) (hm : m.Inv) (i j : List Nat) (hi : inRange m.n i = true)
    (hj : inRange m.n j = true) (h : m.centre i = m.centre j) : i = j := by
  have h1 := roundtrip m hm i hi
  have h2 := roundtrip m hm j hj
  rw [h] at h1
  rw [h1] at h2
  injection h2

/-- `index2point` of an in-range index is the centre used by the spec layer -/
theorem index2point_centre (m : Mesh) (hm : m.Inv) (i : List Nat) (hi : inRange m.n i = true) :
    m.index2point (i.map Int.ofNat) = .ok (m.centre i) := by
  obtain ⟨hr, hn, hpos⟩ := hm
  have hlen : i.length = m.ndim := by rw [inRange_length m.n i hi, hn]; rfl
  have hg : ∀ a, a < m.ndim → (i.map Int.ofNat).getD a 0 = ((i.getD a 0 : Nat) : Int) := by
    intro a ha
    have : a < i.length := by rw [hlen]; exact ha
    simp [List.getD_eq_getElem?_getD, List.getElem?_map, List.getElem?_eq_getElem this]
  unfold index2point
  rw [if_neg (by simp [hlen])]
  have : allLt m.ndim (fun a => decide (0 ≤ (i.map Int.ofNat).getD a 0) && decide ((i.map Int.ofNat).getD a 0 < (m.nAt a : Int))) = true := by
    rw [allLt_iff]; intro a ha
    rw [hg a ha]
    have := inRange_getD m.n i hi a (by rw [hn]; exact ha)
    have h2 : ((i.getD a 0 : Nat) : Int) < (m.nAt a : Int) := by exact_mod_cast this
    have h1 : (0 : Int) ≤ ((i.getD a 0 : Nat) : Int) := Int.natCast_nonneg _
    rw [decide_eq_true h1, decide_eq_true h2]; rfl
  rw [this]
  simp only [Bool.not_true, Bool.false_eq_true, if_false]
  congr 1
  unfold centre
  apply tab_congr; intro a ha
  rw [hg a ha]

/-- `Mesh.__iter__` yields the cell centres in first-dimension-fastest order: the `k`-th point
is the centre of the cell whose flat index is `k`, and there are `len(mesh) = Π n` of them. -/
theorem iter_refines (m : Mesh) : m.iter = (List.range m.len).map fun k => m.centre (unflatF m.n k) := by
  unfold iter len
  rw [indices_refines]
  simp [indicesF, List.map_map, Function.comp_def]

/-- `Mesh.__iter__` yields `len(mesh)` points -/
theorem iter_length (m : Mesh) : m.iter.length = m.len := by
  rw [iter_refines]; simp

/-- per-axis lists have `n` centres and `n + 1` vertices -/
theorem cells_vertices_length (m : Mesh) (a : Nat) (ha : a < m.ndim) :
    (m.cells.getD a []).length = m.nAt a ∧ (m.vertices.getD a []).length = m.nAt a + 1 := by
  unfold cells vertices
  rw [getD_tab _ _ _ _ ha, getD_tab _ _ _ _ ha]
  unfold linspace
  constructor
  · split
    · next h => simp [h]
    · simp
  · split
    · next h => simp [h]
    · simp

/-- every centre is the midpoint of its two neighbouring vertices, and consecutive vertices are
one cell apart: centres, vertices and `cell` describe one lattice -/
theorem centre_between_vertices (m : Mesh) (a : Nat) (ha : a < m.ndim) (hn : 0 < m.nAt a) (j : Nat) (hj : j < m.nAt a) :
    (m.cells.getD a []).getD j 0 = ((m.vertices.getD a []).getD j 0 + (m.vertices.getD a []).getD (j + 1) 0) / 2 ∧
    (m.vertices.getD a []).getD (j + 1) 0 - (m.vertices.getD a []).getD j 0 = m.cellAt a := by
  rw [cells_eq_centres m a ha hn j hj, vertices_eq_faces m a ha hn j (by omega),
    vertices_eq_faces m a ha hn (j + 1) (by omega)]
  push_cast
  constructor <;> ring

/-- **The coordinate field describes the same lattice**: its value in cell `idx` is the centre
of cell `idx` (`pmin + (idx + ½)·cell`), for every in-range index. -/
theorem coord_field_centre (m : Mesh) (hm : m.Inv) (idx : List Nat) (hi : inRange m.n idx = true) :
    m.coordField idx = m.centre idx := by
  obtain ⟨hr, hn, hpos⟩ := hm
  unfold coordField centre
  apply tab_congr; intro a ha
  have hlt : idx.getD a 0 < m.nAt a := inRange_getD m.n idx hi a (by rw [hn]; exact ha)
  rw [cells_eq_centres m a ha (hpos a ha) _ hlt]
  unfold centreAx
  push_cast
  ring

/-- **The cells fill the region's volume exactly**: `len(mesh) · dV = volume(region)`. -/
theorem volume_tiles (m : Mesh) (hm : m.Inv) : (m.len : Rat) * m.dV = m.region.volume := by
  obtain ⟨hr, hn, hpos⟩ := hm
  have hnt : m.n = tab m.ndim m.nAt := eq_tab_of_getD m.n m.ndim m.nAt 0 hn (fun _ _ => rfl)
  unfold len dV Region.volume cell Region.edges
  rw [natProd_cast]
  conv_lhs => rw [hnt]
  unfold tab
  rw [List.map_map, ratProd_map_mul]
  congr 1
  apply List.map_congr_left
  intro a ha
  exact cells_cover_edges m a (hpos a (List.mem_range.mp ha))

/-! non-vacuity: a concrete anisotropic 2-d mesh ([-1, 2] × [0, 1/2], n = (3, 2), cells 1 × 1/4)
meets `Inv`; the point (7/4, 1/2) lies on the closed upper face and is found in the last cell -/
def exMesh : Mesh :=
  { region := { pmin := [-1, 0], pmax := [2, 1/2], dims := ["x", "y"], units := ["m", "m"], tol := 1/1000000000000 },
    n := [3, 2], bc := "", subs := [] }

example : exMesh.Inv := mesh_inv_of_invB _ (by decide +kernel)
example : exMesh.point2index [7/4, 1/2] = .ok [2, 1] := by decide +kernel
example : exMesh.region.containsExact [7/4, 1/2] := by
  refine ⟨rfl, ?_⟩
  intro a ha
  have : a = 0 ∨ a = 1 := by
    have : a < 2 := ha
    omega
  rcases this with rfl | rfl <;> decide +kernel
example : exMesh.coordField [2, 1] = [3/2, 3/8] ∧ exMesh.centre [2, 1] = [3/2, 3/8] := by decide +kernel
example : (exMesh.len : Rat) * exMesh.dV = 3/2 ∧ exMesh.region.volume = 3/2 := by decide +kernel

/-! ## rounded arithmetic (section 4 of DESIGN.md) -/

/-- Round trip under rounding: if `10·u·(|pmin|/c + i + ½) < 1` then the computed quotient of the
computed centre of cell `i` still floors to `i`.  (For binary64, `u = 2^-53`, this covers cells up
to ~10^14 cells away from the origin; beyond that the real code indeed loses the round trip.) -/
theorem roundtrip_fl (R : Rounding) (pmin c : Rat) (hc : 0 < c) (i : Nat)
    (hsmall : 10 * R.u * (|pmin| / c + ((i : Rat) + 1/2)) < 1) :
    (quotFl R pmin c (centreFl R pmin c i)).floor = (i : Int) := by
  have hi0 : (0:Rat) ≤ (i : Rat) := Nat.cast_nonneg i
  have key := fl_core R.u ((i : Rat) + 1/2) (|pmin| / c) c (R.fl (((i : Rat) + 1/2) * c))
    (centreFl R pmin c i) (R.fl (centreFl R pmin c i - pmin)) (quotFl R pmin c (centreFl R pmin c i)) pmin
    hc R.u_nonneg R.u_small (by linarith) (div_nonneg (abs_nonneg _) hc.le) (by field_simp)
    (R.err _) (R.err _) (R.err _) (R.err _) hsmall
  rw [abs_lt] at key
  apply rat_floor_eq
  · push_cast; linarith
  · push_cast; linarith

/-- the hypotheses are satisfiable: exact arithmetic is a rounding with `u = 0` … -/
def Rounding.exact : Rounding := ⟨id, 0, le_refl _, by norm_num, by intro x; simp⟩

/-- … and then the theorem gives the exact round trip for every cell of every mesh -/
example (pmin c : Rat) (hc : 0 < c) (i : Nat) :
    (quotFl Rounding.exact pmin c (centreFl Rounding.exact pmin c i)).floor = (i : Int) :=
  roundtrip_fl Rounding.exact pmin c hc i (by simp [Rounding.exact])

/-- **Where rounding decides the floor.**  The index computed in rounded arithmetic,
`⌊fl(fl(x − pmin)/c)⌋`, equals the exact index `k` of the cell that contains `x` whenever `x` is
at least `3u·|q|` cells (`q = (x − pmin)/c`) away from both faces of that cell; closer to a face
the computed index may be the neighbour's - this is the band the boundary comparator of the
correspondence check grants. -/
theorem point2index_fl (R : Rounding) (pmin c x : Rat) (hc : 0 < c) (k : Int)
    (hlo : (k : Rat) + 3 * R.u * |(x - pmin) / c| ≤ (x - pmin) / c)
    (hhi : (x - pmin) / c + 3 * R.u * |(x - pmin) / c| < (k : Rat) + 1) :
    (quotFl R pmin c x).floor = k := by
  have h := quot_err R (x - pmin) c hc
  unfold quotFl
  rw [abs_le] at h
  apply rat_floor_eq <;> linarith

/-- … and in any case the computed index is off by at most one cell when `3u·|q| < 1` -/
theorem point2index_fl_near (R : Rounding) (pmin c x : Rat) (hc : 0 < c)
    (hs : 3 * R.u * |(x - pmin) / c| < 1) :
    ((x - pmin) / c).floor - 1 ≤ (quotFl R pmin c x).floor ∧
    (quotFl R pmin c x).floor ≤ ((x - pmin) / c).floor + 1 := by
  have h := quot_err R (x - pmin) c hc
  unfold quotFl
  rw [abs_le] at h
  set q := (x - pmin) / c
  set q' := R.fl (R.fl (x - pmin) / c)
  have a1 := rat_floor_le q
  have a2 := rat_lt_floor_add_one q
  have b1 := rat_floor_le q'
  have b2 := rat_lt_floor_add_one q'
  constructor
  · have : ((q.floor - 1 : Int) : Rat) < (q'.floor : Rat) + 1 := by push_cast; linarith
    have : q.floor - 1 < q'.floor + 1 := by exact_mod_cast this
    omega
  · have : (q'.floor : Rat) < ((q.floor + 1 : Int) : Rat) + 1 := by push_cast; linarith
    have : q'.floor < q.floor + 1 + 1 := by exact_mod_cast this
    omega

example (pmin c x : Rat) (hc : 0 < c) (k : Int) (h1 : (k : Rat) ≤ (x - pmin) / c) (h2 : (x - pmin) / c < (k : Rat) + 1) :
    (quotFl Rounding.exact pmin c x).floor = k :=
  point2index_fl Rounding.exact pmin c x hc k (by simpa [Rounding.exact] using h1) (by simpa [Rounding.exact] using h2)


/-! ## round 2 of the extension: refusals as equivalences, the tolerance clause, both directions
of the by-cell clause, constructors from their inputs, iteration order, rounded arithmetic for
the exact operation sequence -/

/-! ### indices and points: accepted ⇔ well-formed -/

/-- **`index2point` succeeds exactly for indices of the right length with every component in
`[0, n)`**, and then returns the centres. -/
theorem index2point_ok_iff (m : Mesh) (idx : List Int) (p : List Rat) :
    m.index2point idx = .ok p ↔
      idx.length = m.ndim ∧ (∀ a, a < m.ndim → 0 ≤ idx.getD a 0 ∧ idx.getD a 0 < (m.nAt a : Int)) ∧
      p = tab m.ndim fun a => m.centreAx a (idx.getD a 0) := index2point_ok_iff' m idx p

/-- **Indices outside the mesh are rejected, and only those**: `index2point` raises exactly when
the length is wrong or some component is negative or `≥ n` (converse of `index_rejected`). -/
theorem index2point_rejected_iff (m : Mesh) (idx : List Int) :
    m.index2point idx = .error .index ↔
      (idx.length ≠ m.ndim ∨ ∃ a, a < m.ndim ∧ (idx.getD a 0 < 0 ∨ (m.nAt a : Int) ≤ idx.getD a 0)) := by
  constructor
  · intro h
    by_contra hcon
    rw [not_or, not_not, not_exists] at hcon
    obtain ⟨hl, hall⟩ := hcon
    have : m.index2point idx = .ok (tab m.ndim fun a => m.centreAx a (idx.getD a 0)) := by
      rw [index2point_ok_iff]
      refine ⟨hl, fun a ha => ?_, rfl⟩
      have := hall a
      rw [not_and, not_or, not_lt, not_le] at this
      exact this ha
    rw [this] at h; cases h
  · exact index_rejected m idx

/-- **`point in region` is the inequality with the region's comparison tolerance**:
`pmin − (atol + rtol·|x|) ≤ x ≤ pmax + (atol + rtol·|x|)` on every axis, `rtol = tolerance_factor`,
`atol = min(edges)·tolerance_factor` (the expression `Region.__contains__` hands to `np.isclose`). -/
theorem contains_iff_tolerance (r : Region) (hr : r.Inv) (ht : 0 ≤ r.tol) (p : List Rat) :
    r.containsPt p = true ↔
      p.length = r.ndim ∧ ∀ a, a < r.ndim →
        r.lo a - (r.atol + r.tol * |p.getD a 0|) ≤ p.getD a 0 ∧
        p.getD a 0 ≤ r.hi a + (r.atol + r.tol * |p.getD a 0|) := by
  rw [containsPt_iff r hr ht]
  unfold TolInside band
  constructor
  · rintro ⟨h1, h2⟩
    refine ⟨h1, fun a ha => ?_⟩
    have := h2 a ha
    constructor <;> linarith
  · rintro ⟨h1, h2⟩
    refine ⟨h1, fun a ha => ?_⟩
    have := h2 a ha
    constructor <;> linarith

/-- **`point2index` succeeds exactly for points inside the region up to the tolerance**, and
then returns `clip(floor((p − pmin)/cell))` per axis. -/
theorem point2index_ok_iff (m : Mesh) (hm : m.Inv) (ht : 0 ≤ m.region.tol) (p : List Rat) (i : List Nat) :
    m.point2index p = .ok i ↔
      TolInside m.region p ∧ i = tab m.ndim fun a => m.indexAx a (p.getD a 0) :=
  point2index_ok_iff' m hm ht p i

/-- **Points outside the region by more than the tolerance are rejected, and only those**:
`point2index` raises exactly when the length is wrong or some coordinate lies more than
`atol + rtol·|x|` below `pmin` or above `pmax`. -/
theorem point2index_rejected_iff (m : Mesh) (hm : m.Inv) (ht : 0 ≤ m.region.tol) (p : List Rat) :
    m.point2index p = .error .value ↔
      (p.length ≠ m.ndim ∨ ∃ a, a < m.ndim ∧
        (band m.region (p.getD a 0) < m.region.lo a - p.getD a 0 ∨
         band m.region (p.getD a 0) < p.getD a 0 - m.region.hi a)) := by
  have hiff := point2index_ok_iff m hm ht p (tab m.ndim fun a => m.indexAx a (p.getD a 0))
  constructor
  · intro h
    by_contra hcon
    rw [not_or, not_not, not_exists] at hcon
    obtain ⟨hl, hall⟩ := hcon
    have : TolInside m.region p := by
      refine ⟨hl, fun a ha => ?_⟩
      have := hall a
      rw [not_and, not_or, not_lt, not_lt] at this
      exact this ha
    rw [hiff.mpr ⟨this, rfl⟩] at h; cases h
  · intro h
    rcases point2index_cases m p with h1 | ⟨i, h1⟩
    · exact h1
    · exfalso
      obtain ⟨⟨hl, hall⟩, _⟩ := (point2index_ok_iff m hm ht p i).mp h1
      rcases h with h | ⟨a, ha, h⟩
      · exact h hl
      · have := hall a ha
        rcases h with h | h <;> linarith

/-- `clip` after `floor` is `floor` after moving the point onto the closed edge `[pmin, pmax]`
(what the clipping in `point2index` is for): for every coordinate, inside or outside. -/
theorem index_clip_is_clamp (m : Mesh) (hm : m.Inv) (a : Nat) (ha : a < m.ndim) (x : Rat) :
    m.indexAx a x = m.indexAx a (clampAx m.region a x) :=
  indexAx_clamp m a x (hm.2.2 a ha) (hm.1.2.2.2.2.2 a ha)

/-- **The tolerance clause**: every point inside the region *up to the region's comparison
tolerance* is accepted and mapped to an in-range index; the cell of that index contains the
point moved onto the region (the point itself when it is exactly inside), and the moved point
is within the tolerance `atol + rtol·|x|` of the original on every axis. -/
theorem point2index_tol (m : Mesh) (hm : m.Inv) (ht : 0 ≤ m.region.tol) (p : List Rat)
    (hp : TolInside m.region p) :
    ∃ i, m.point2index p = .ok i ∧ inRange m.n i = true ∧ inCell m i (clampPt m.region p) ∧
      (∀ a, a < m.ndim → |(clampPt m.region p).getD a 0 - p.getD a 0| ≤ band m.region (p.getD a 0)) ∧
      (m.region.containsExact p → clampPt m.region p = p) := by
  have hlohi : ∀ a, a < m.ndim → m.region.lo a < m.region.hi a := fun a ha => hm.1.2.2.2.2.2 a ha
  obtain ⟨i, h1, h2, h3⟩ := point_index_contains m hm (clampPt m.region p) (clampPt_exact m.region hm.1 p)
  have hg : ∀ a, a < m.ndim → (clampPt m.region p).getD a 0 = clampAx m.region a (p.getD a 0) := by
    intro a ha; unfold clampPt; exact getD_tab _ _ _ _ ha
  have hi : i = tab m.ndim fun a => m.indexAx a (p.getD a 0) := by
    have := ((point2index_ok_iff m hm ht _ i).mp h1).2
    rw [this]
    apply tab_congr; intro a ha
    rw [hg a ha, ← index_clip_is_clamp m hm a ha]
  refine ⟨i, (point2index_ok_iff m hm ht p i).mpr ⟨hp, hi⟩, h2, h3, fun a ha => ?_, fun he => ?_⟩
  · rw [hg a ha]
    exact clampAx_near m.region a _ (hlohi a ha) (hp.2 a ha) (band_nonneg m.region hm.1 ht _)
  · apply list_eq_of_getD _ _ 0
    · rw [he.1]; simp [clampPt]
    · intro a ha
      have ha' : a < m.ndim := by
        have : a < m.region.ndim := by simpa [clampPt] using ha
        exact this
      rw [hg a ha']
      unfold clampAx
      rw [min_eq_right (he.2 a ha').2, max_eq_right (he.2 a ha').1]


/-! non-vacuity (tolerance clause, on the anisotropic 2-d mesh `exMesh`, cells 1 × 1/4, band
`atol + rtol·|x| = 5·10⁻¹³ + 10⁻¹²·|x|`): a point `10⁻¹³` below `pmin` is inside up to the tolerance and
goes to the first cell; a point `10⁻¹¹` below is refused; `exMesh` satisfies the hypotheses -/
example : exMesh.point2index [-1 - 1/10000000000000, 3/8] = .ok [0, 1] ∧
    exMesh.point2index [-1 - 1/100000000000, 3/8] = .error .value ∧
    exMesh.point2index [2 + 1/10000000000000, 1/2 + 1/10000000000000] = .ok [2, 1] := by decide +kernel
example : (0 : Rat) ≤ exMesh.region.tol := by decide +kernel
example : TolInside exMesh.region [-1 - 1/10000000000000, 3/8] := by
  refine ⟨rfl, ?_⟩
  intro a ha
  have : a = 0 ∨ a = 1 := by
    have : a < 2 := ha
    omega
  rcases this with rfl | rfl <;> (unfold band; constructor <;> decide +kernel)
example : clampPt exMesh.region [-1 - 1/10000000000000, 3/8] = [-1, 3/8] := by decide +kernel
example : exMesh.index2point [2, 1] = .ok [3/2, 3/8] ∧ exMesh.index2point [3, 1] = .error .index ∧
    exMesh.index2point [2, -1] = .error .index ∧ exMesh.index2point [2] = .error .index := by decide +kernel

/-! ### mesh by cell size: exists exactly when … -/

/-- **A mesh requested by cell size exists exactly when the edges are a whole number of cells.**
`Mesh(region, cell)` succeeds with mesh `m` if and only if: `cell` has one positive entry per
axis; no cell exceeds its edge by more than the region's comparison tolerance
(`cell − edge ≤ atol + rtol·|pmin + cell|`); every edge is within `min(cell)/1000` of a whole
number `k ≥ 1` of cells; `bc` is valid — and `m` is the mesh on that region whose count on
every axis is that (unique) whole number.  Both directions; no hypothesis on an intermediate result. -/
theorem by_cell_ok_iff (r : Region) (hr : r.Inv) (ht : 0 ≤ r.tol) (cell : List Rat) (bc : String) (m : Mesh) :
    Mesh.mkCell? r cell bc = .ok m ↔
      (cell.length = r.ndim ∧ (∀ c ∈ cell, 0 < c) ∧
       (∀ a, a < r.ndim → cell.getD a 0 - r.edge a ≤ band r (r.lo a + cell.getD a 0)) ∧
       bcOk r.dims bc.toLower = true) ∧
      m.region = r ∧ m.bc = bc.toLower ∧ m.subs = [] ∧ m.n.length = r.ndim ∧
      ∀ a, a < r.ndim → 1 ≤ m.nAt a ∧ |r.edge a - (m.nAt a : Rat) * cell.getD a 0| ≤ listMin cell / 1000 := by
  constructor
  · intro h
    have hnear := by_cell_ok_near r hr cell bc m h
    unfold Mesh.mkCell? at h
    split at h
    · cases h
    next hlen =>
    split at h
    · cases h
    next hany =>
    split at h
    · cases h
    next hcont =>
    split at h
    · cases h
    next hdiv =>
    split at h
    · cases h
    next hcnt =>
    split at h
    · cases h
    next hbc =>
    injection h with h
    have hlen : cell.length = r.ndim := not_not.mp hlen
    have hposall : ∀ c ∈ cell, 0 < c := by
      intro c hc
      have h1 : cell.any (fun c => decide (c ≤ 0)) = false := by simpa using hany
      have := List.any_eq_false.mp h1 c hc
      simpa using this
    have hcont' : r.containsPt (tab r.ndim fun a => r.lo a + cell.getD a 0) = true := by simpa using hcont
    have htol := (containsPt_iff r hr ht _).mp hcont'
    refine ⟨⟨hlen, hposall, fun a ha => ?_, by simpa using hbc⟩, ?_, ?_, ?_, ?_, fun a ha => (hnear a ha).2⟩
    · have := (htol.2 a ha).2
      rw [getD_tab _ _ _ _ ha] at this
      unfold Region.edge; linarith
    · rw [← h]
    · rw [← h]
    · rw [← h]
    · rw [← h]; simp
  · rintro ⟨⟨hlen, hpos, hfit, hbc⟩, h1, h2, h3, h4, h5⟩
    rw [mkCell_accepts r hr ht cell m.nAt bc hlen hpos hfit h5 hbc]
    congr 1
    have hn : m.n = tab r.ndim m.nAt := eq_tab_of_getD m.n r.ndim m.nAt 0 h4 (fun _ _ => rfl)
    cases m
    simp only at h1 h2 h3 hn
    subst h1 h2 h3
    rw [← hn]

/-- … in particular **a cell larger than its edge is refused** (by more than the comparison
tolerance; `edge = n·cell` with `n ≥ 1` is impossible then, and the constructor says so before
looking at divisibility). -/
theorem by_cell_rejects_large (r : Region) (hr : r.Inv) (ht : 0 ≤ r.tol) (cell : List Rat) (bc : String)
    (a : Nat) (ha : a < r.ndim) (hbig : band r (r.lo a + cell.getD a 0) < cell.getD a 0 - r.edge a) :
    ∃ e, Mesh.mkCell? r cell bc = .error e := by
  cases h : Mesh.mkCell? r cell bc with
  | error e => exact ⟨e, rfl⟩
  | ok m =>
    exfalso
    have := ((by_cell_ok_iff r hr ht cell bc m).mp h).1.2.2.1 a ha
    linarith

/-- … and the count is the only whole number that close: two meshes accepted for the same cell
size are the same mesh, whatever `k` a caller had in mind. -/
theorem by_cell_count_unique (r : Region) (hr : r.Inv) (cell : List Rat) (bc : String) (m : Mesh)
    (h : Mesh.mkCell? r cell bc = .ok m) (a : Nat) (ha : a < r.ndim) (k : Int)
    (hk : |r.edge a - (k : Rat) * cell.getD a 0| ≤ listMin cell / 1000) : (m.nAt a : Int) = k := by
  have hnear := (by_cell_ok_near r hr cell bc m h a ha).2.2
  have hlen : cell.length = r.ndim := by
    unfold Mesh.mkCell? at h
    split at h
    · cases h
    · rename_i hl; exact not_not.mp hl
  have hposall : ∀ c ∈ cell, 0 < c := by
    unfold Mesh.mkCell? at h
    rw [if_neg (not_not.mpr hlen)] at h
    split at h
    · cases h
    · rename_i hany
      intro c hc
      have h1 : cell.any (fun c => decide (c ≤ 0)) = false := by simpa using hany
      have := List.any_eq_false.mp h1 c hc
      simpa using this
  have hmem := getD_mem_of_lt cell a 0 (by rw [hlen]; exact ha)
  have hc := hposall _ hmem
  have := listMin_le_mem cell _ hmem
  exact multiple_unique (r.edge a) (cell.getD a 0) (listMin cell / 1000) hc (by linarith) _ _
    (by exact_mod_cast hnear) hk

/-! non-vacuity (by-cell clause, region of `exMesh`: edges 3 × 1/2): the commensurate cell `(1, 1/4)` gives
`exMesh`; a cell off by 5·10⁻⁵ (0.15 ‰ of the smallest cell over three cells: inside the 1 ‰ band) still
gives `n = (3, 2)`; off by 2·10⁻⁴ it is refused; the cell `(3 + 10⁻⁴, 1/2)` divides the edges within the band
(`k = 1`) but exceeds the edge by more than the comparison tolerance: refused (`by_cell_rejects_large`) -/
example : Mesh.mkCell? exMesh.region [1, 1/4] = .ok exMesh := by decide +kernel
example : (Mesh.mkCell? exMesh.region [1 + 1/20000, 1/4]).toOption.map (·.n) = some [3, 2] ∧
    (Mesh.mkCell? exMesh.region [1 + 1/5000, 1/4]).toOption = none ∧
    (Mesh.mkCell? exMesh.region [3 + 1/10000, 1/2]).toOption = none ∧
    (Mesh.mkCell? exMesh.region [3, 1/2]).toOption.map (·.n) = some [1, 1] := by decide +kernel
example : |exMesh.region.edge 0 - (1 : Nat) * (3 + 1/10000 : Rat)| ≤ listMin [3 + 1/10000, 1/2] / 1000 ∧
    band exMesh.region (exMesh.region.lo 0 + (3 + 1/10000)) < (3 + 1/10000) - exMesh.region.edge 0 := by
  unfold band; constructor <;> decide +kernel

/-! ### constructors: accepted ⇔ well-formed inputs; what they establish -/

/-- **`Region(p1, p2, dims, units)` exists exactly when** the two corner lists have the same
non-zero length and differ in every coordinate (no zero edge), and explicit `dims` / `units`
have that length (`dims` without repetition). -/
theorem region_mk_ok_iff (p1 p2 : List Rat) (dims units : Option (List String)) (tol : Rat) :
    (∃ r, Region.mk? p1 p2 dims units tol = .ok r) ↔
      p1.length = p2.length ∧ p1.length ≠ 0 ∧ DimsArgOk p1.length dims ∧ UnitsArgOk p1.length units ∧
      ∀ a, a < p1.length → p1.getD a 0 ≠ p2.getD a 0 := region_mk_ok_iff' p1 p2 dims units tol

/-- **Either corner order**: the region built from `p1`, `p2` has `pmin = min(p1, p2)`,
`pmax = max(p1, p2)` componentwise, strictly ordered, one name and one unit per axis, no
repeated name - i.e. it satisfies the invariant `Region.Inv` every other theorem assumes. -/
theorem region_mk_normalises (p1 p2 : List Rat) (dims units : Option (List String)) (tol : Rat) (r : Region)
    (h : Region.mk? p1 p2 dims units tol = .ok r) :
    r.Inv ∧ r.ndim = p1.length ∧ r.tol = tol ∧
    ∀ a, a < r.ndim → r.lo a = min (p1.getD a 0) (p2.getD a 0) ∧ r.hi a = max (p1.getD a 0) (p2.getD a 0) ∧
      r.lo a < r.hi a ∧ r.edge a = |p1.getD a 0 - p2.getD a 0| := by
  obtain ⟨_, _, hne, hinv, hnd, htol, hlh, _⟩ := region_mk_spec p1 p2 dims units tol r h
  refine ⟨hinv, hnd, htol, fun a ha => ?_⟩
  rw [hnd] at ha
  obtain ⟨e1, e2⟩ := hlh a ha
  refine ⟨e1, e2, hinv.2.2.2.2.2 a (by unfold Region.ndim at hnd; rw [hnd]; exact ha), ?_⟩
  unfold Region.edge
  rw [e1, e2]
  rcases le_total (p1.getD a 0) (p2.getD a 0) with hle | hle
  · rw [min_eq_left hle, max_eq_right hle, abs_of_nonpos (by linarith)]; ring
  · rw [min_eq_right hle, max_eq_left hle, abs_of_nonneg (by linarith)]

/-- **`Mesh(region, n)` exists exactly when** `n` has one entry `≥ 1` per axis and `bc` is valid;
the mesh then stores exactly `region` and `n`. -/
theorem mesh_mk_ok_iff (r : Region) (n : List Nat) (bc : String) (m : Mesh) :
    Mesh.mkN? r n bc = .ok m ↔
      n.length = r.ndim ∧ (∀ a, a < r.ndim → 1 ≤ n.getD a 0) ∧ bcOk r.dims bc.toLower = true ∧
      m = { region := r, n := n, bc := bc.toLower, subs := [] } := mkN_ok_iff' r n bc m

/-- **From the inputs to the invariant**: whatever corners (in either order) and counts the two
constructors accept, the resulting mesh satisfies `Mesh.Inv` - so every theorem of this file
that assumes `m.Inv` holds for every mesh a user can build, with hypotheses on the inputs only. -/
theorem mesh_inv_from_inputs (p1 p2 : List Rat) (dims units : Option (List String)) (tol : Rat)
    (n : List Nat) (bc : String) (r : Region) (m : Mesh)
    (hr : Region.mk? p1 p2 dims units tol = .ok r) (hm : Mesh.mkN? r n bc = .ok m) :
    m.Inv ∧ m.region = r ∧ m.n = n :=
  mkN_inv r (region_mk_normalises p1 p2 dims units tol r hr).1 n bc m hm

/-- … and likewise for a mesh requested by cell size -/
theorem mesh_inv_from_cell (r : Region) (hr : r.Inv) (cell : List Rat) (bc : String) (m : Mesh)
    (h : Mesh.mkCell? r cell bc = .ok m) : m.Inv := by
  have hnear := by_cell_ok_near r hr cell bc m h
  have hreg : m.region = r := by
    unfold Mesh.mkCell? at h
    split at h; · cases h
    split at h; · cases h
    split at h; · cases h
    split at h; · cases h
    split at h; · cases h
    split at h; · cases h
    injection h with h; rw [← h]
  have hlen : m.n.length = r.ndim := by
    unfold Mesh.mkCell? at h
    split at h; · cases h
    split at h; · cases h
    split at h; · cases h
    split at h; · cases h
    split at h; · cases h
    split at h; · cases h
    injection h with h; rw [← h]; simp
  refine ⟨by rw [hreg]; exact hr, by rw [hreg]; exact hlen, fun a ha => ?_⟩
  have ha' : a < r.ndim := by unfold Mesh.ndim at ha; rw [hreg] at ha; exact ha
  exact (hnear a ha').2.1

/-- **End to end, from the inputs**: for all corner lists of equal non-zero length that differ in
every coordinate (either order) and all counts `≥ 1`, the constructors succeed, and on the mesh
they return: every in-range index goes to its centre and back to itself; every point of the
closed box is mapped to an in-range index whose cell contains it; the cells fill the volume. -/
theorem tiling_from_inputs (p1 p2 : List Rat) (n : List Nat)
    (hl : p1.length = p2.length) (h0 : p1.length ≠ 0) (hne : ∀ a, a < p1.length → p1.getD a 0 ≠ p2.getD a 0)
    (hn : n.length = p1.length) (hpos : ∀ a, a < p1.length → 1 ≤ n.getD a 0) :
    ∃ r m, Region.mk? p1 p2 none none = .ok r ∧ Mesh.mkN? r n = .ok m ∧ m.n = n ∧
      (∀ a, a < p1.length → r.lo a = min (p1.getD a 0) (p2.getD a 0) ∧ r.hi a = max (p1.getD a 0) (p2.getD a 0)) ∧
      (∀ i, inRange n i = true → m.point2index (m.centre i) = .ok i) ∧
      (∀ p, r.containsExact p → ∃ i, m.point2index p = .ok i ∧ inRange n i = true ∧ inCell m i p) ∧
      (m.len : Rat) * m.dV = r.volume := by
  obtain ⟨r, hr⟩ := (region_mk_ok_iff p1 p2 none none (1/1000000000000)).mpr
    ⟨hl, h0, (fun d e => by cases e), (fun u e => by cases e), hne⟩
  obtain ⟨hinv, hnd, _, hlh⟩ := region_mk_normalises p1 p2 none none _ r hr
  have hm : Mesh.mkN? r n = .ok { region := r, n := n, bc := "".toLower, subs := [] } := by
    rw [mesh_mk_ok_iff]
    have hbc : bcOk r.dims "".toLower = true := by
      have : "".toLower = "" := by
        unfold String.toLower
        exact String.map_eq_empty.mpr rfl
      rw [this]; simp [bcOk]
    refine ⟨by rw [hnd]; exact hn, fun a ha => hpos a (by rw [← hnd]; exact ha), hbc, rfl⟩
  obtain ⟨minv, mreg, mn⟩ := mkN_inv r hinv n "" _ hm
  refine ⟨r, _, hr, hm, rfl, fun a ha => ⟨(hlh a (by rw [hnd]; exact ha)).1, (hlh a (by rw [hnd]; exact ha)).2.1⟩,
    fun i hi => roundtrip _ minv i hi, fun p hp => point_index_contains _ minv p hp, volume_tiles _ minv⟩

/-! ### volume -/

/-- the volume of the region spanned by `p1`, `p2` is `Π |p1 − p2|`: the same for either corner order -/
theorem volume_closed_form (p1 p2 : List Rat) (dims units : Option (List String)) (tol : Rat) (r : Region)
    (h : Region.mk? p1 p2 dims units tol = .ok r) :
    r.volume = ratProd (tab p1.length fun a => |p1.getD a 0 - p2.getD a 0|) ∧ 0 < r.volume := by
  obtain ⟨hinv, hnd, _, hlh⟩ := region_mk_normalises p1 p2 dims units tol r h
  unfold Region.volume Region.edges
  constructor
  · rw [hnd]
    congr 1
    apply tab_congr; intro a ha
    exact (hlh a (by rw [hnd]; exact ha)).2.2.2
  · apply ratProd_pos
    intro x hx
    obtain ⟨a, ha, e⟩ := mem_tab _ _ _ hx
    rw [e]
    have := hinv.2.2.2.2.2 a ha
    unfold Region.edge; linarith

/-- **Integer corner points** (repo fix 0ec4b24a: `math.prod` of Python integers): the volume of
a region whose corners are whole numbers is the *integer* product of its integer edge lengths,
exactly - no rounding and no wrap-around at any size. -/
theorem volume_int (r : Region) (zlo zhi : Nat → Int)
    (h : ∀ a, a < r.ndim → r.lo a = (zlo a : Rat) ∧ r.hi a = (zhi a : Rat)) :
    r.volume = ((intProd (tab r.ndim fun a => zhi a - zlo a) : Int) : Rat) := by
  rw [← ratProd_cast_int]
  unfold Region.volume Region.edges tab
  rw [List.map_map]
  congr 1
  apply List.map_congr_left
  intro a ha
  obtain ⟨e1, e2⟩ := h a (List.mem_range.mp ha)
  simp only [Function.comp, Region.edge, e1, e2]
  push_cast; ring

/-- cells have positive volume, and `len(mesh)` of them make up the region -/
theorem dV_pos (m : Mesh) (hm : m.Inv) : 0 < m.dV ∧ m.dV = m.region.volume / (m.len : Rat) := by
  have hlen : 0 < m.len := by
    unfold len
    apply natProd_pos
    intro k hk
    obtain ⟨a, ha, e⟩ := List.getElem_of_mem hk
    have := hm.2.2 a (by unfold Mesh.ndim; rw [← hm.2.1]; exact ha)
    unfold nAt at this
    rw [List.getD_eq_getElem?_getD, List.getElem?_eq_getElem ha, Option.getD_some, e] at this
    exact this
  have hL : (0 : Rat) < (m.len : Rat) := by exact_mod_cast hlen
  have hv := volume_tiles m hm
  constructor
  · unfold dV
    apply ratProd_pos
    intro x hx
    obtain ⟨a, ha, e⟩ := mem_tab _ _ _ hx
    rw [e]
    exact cell_pos m a (hm.2.2 a ha) (hm.1.2.2.2.2.2 a ha)
  · rw [← hv]; field_simp


/-! non-vacuity (constructors from their inputs): corners given in mixed order produce the region of
`exMesh`; the hypotheses of `tiling_from_inputs` hold for them -/
example : Region.mk? [2, 0] [-1, 1/2] none none = .ok exMesh.region ∧
    Region.mk? [-1, 1/2] [2, 0] none none = .ok exMesh.region ∧
    Mesh.mkN? exMesh.region [3, 2] = .ok exMesh := by decide +kernel
example : ∀ a, a < [(2 : Rat), 0].length → [(2 : Rat), 0].getD a 0 ≠ [(-1 : Rat), 1/2].getD a 0 := by
  intro a ha
  have : a = 0 ∨ a = 1 := by
    have : a < 2 := ha
    omega
  rcases this with rfl | rfl <;> decide +kernel
/-- an integer-cornered region whose volume exceeds 2^63: exactly the integer product -/
example : (Region.mk [-3000000000, 0, 5] [4000000000, 6000000000, 1000000005] ["x", "y", "z"] ["m", "m", "m"] (1/1000000000000)).volume
    = ((7000000000 * 6000000000 * 1000000000 : Int) : Rat) := by decide +kernel

/-! ### iteration order for every number of dimensions -/

/-- **`Mesh.indices` lists exactly the in-range indices**: a multi-index occurs in it if and
only if it has one component in `[0, n)` per axis (any number of dimensions) … -/
theorem indices_complete (ns i : List Nat) : i ∈ indicesCode ns ↔ inRange ns i = true := by
  rw [indices_refines]; exact mem_indicesF_iff ns i

/-- … **each exactly once** … -/
theorem indices_nodup (ns : List Nat) : (indicesCode ns).Nodup := by
  rw [indices_refines]; exact indicesF_nodup ns

/-- … and **in odometer order, first dimension fastest**: the entry after `i` is `i` with its
first component advanced by one, or - when that wheel is at `n₀ − 1` - reset to 0 with the
carry passed to the next dimension (`succF`), for every number of dimensions. -/
theorem indices_odometer (ns : List Nat) (k : Nat) (hk : k + 1 < natProd ns) :
    (indicesCode ns).getD (k + 1) [] = succF ns ((indicesCode ns).getD k []) := by
  have hpos : ∀ n ∈ ns, 0 < n := (natProd_pos_iff ns).mp (by omega)
  rw [indices_refines]
  unfold indicesF
  rw [List.getD_eq_getElem?_getD, List.getD_eq_getElem?_getD, List.getElem?_map, List.getElem?_map,
    List.getElem?_range hk, List.getElem?_range (by omega : k < natProd ns)]
  simp only [Option.map_some, Option.getD_some]
  exact unflatF_succ ns hpos k

/-- the first entry of the iteration is the origin cell -/
theorem indices_first (ns : List Nat) (h : 0 < natProd ns) :
    (indicesCode ns).getD 0 [] = List.replicate ns.length 0 := by
  rw [indices_refines]
  unfold indicesF
  rw [List.getD_eq_getElem?_getD, List.getElem?_map, List.getElem?_range h]
  simp only [Option.map_some, Option.getD_some]
  clear h
  induction ns with
  | nil => rfl
  | cons n ns ih => simp [unflatF, List.replicate_succ, ih]

/-- `Mesh.__iter__` is `map(self.index2point, self.indices)`: its `k`-th point is what
`index2point` returns for the `k`-th index (which it accepts) -/
theorem iter_is_index2point (m : Mesh) (hm : m.Inv) (k : Nat) (hk : k < m.len) :
    m.index2point (((indicesCode m.n).getD k []).map Int.ofNat) = .ok (m.iter.getD k []) := by
  have hlen : k < (indicesCode m.n).length := by rw [indices_length]; exact hk
  have hmem : (indicesCode m.n).getD k [] ∈ indicesCode m.n := getD_mem_of_lt _ _ _ hlen
  rw [index2point_centre m hm _ ((indices_complete _ _).mp hmem)]
  congr 1
  unfold iter
  rw [List.getD_eq_getElem?_getD, List.getD_eq_getElem?_getD, List.getElem?_map]
  rw [List.getElem?_eq_getElem hlen]
  rfl

/-! ### coordinate field, code-shaped -/

/-- **`coordinate_field` as the code builds it** - component `i` is the list of centres of
axis `i`, reshaped to `(1, …, n_i, …, 1)` and broadcast over the other axes - holds in every
cell `idx` the centre `pmin + (idx + ½)·cell` of that cell (any number of dimensions). -/
theorem coord_field_refines (m : Mesh) (hm : m.Inv) (idx : List Nat) (hi : inRange m.n idx = true) :
    m.coordFieldCode idx = m.coordField idx ∧ m.coordFieldCode idx = m.centre idx := by
  have h1 : m.coordFieldCode idx = m.coordField idx := by
    unfold coordFieldCode coordField
    apply tab_congr; intro a ha
    rw [coord_position m idx a ha (inRange_getD m.n idx hi a (by rw [hm.2.1]; exact ha))]
  exact ⟨h1, by rw [h1]; exact coord_field_centre m hm idx hi⟩

/-! non-vacuity (iteration order, coordinate field): a 2-d and a 4-d shape -/
example : indicesCode [3, 2] = [[0, 0], [1, 0], [2, 0], [0, 1], [1, 1], [2, 1]] ∧
    succF [3, 2] [2, 0] = [0, 1] ∧ succF [3, 2] [1, 1] = [2, 1] := by decide
example : (indicesCode [2, 1, 3, 2]).length = 12 ∧ (indicesCode [2, 1, 3, 2]).getD 7 [] = [1, 0, 0, 1] ∧
    succF [2, 1, 3, 2] [1, 0, 2, 0] = [0, 0, 0, 1] := by decide

def exMesh4 : Mesh :=
  { region := { pmin := [0, -1, 1/2, 10], pmax := [2, 0, 2, 11], dims := ["x0", "x1", "x2", "x3"],
                units := ["m", "m", "m", "m"], tol := 1/1000000000000 },
    n := [2, 1, 3, 2], bc := "", subs := [] }

example : exMesh4.Inv := mesh_inv_of_invB _ (by decide +kernel)
example : exMesh4.coordShape 2 = [1, 1, 3, 1] ∧ coordBcast (exMesh4.coordShape 2) [1, 0, 2, 1] = [0, 0, 2, 0] ∧
    exMesh4.coordFieldCode [1, 0, 2, 1] = [3/2, -1/2, 7/4, 43/4] ∧
    exMesh4.centre [1, 0, 2, 1] = [3/2, -1/2, 7/4, 43/4] ∧
    exMesh4.point2index [3/2, -1/2, 7/4, 43/4] = .ok [1, 0, 2, 1] := by decide +kernel
example : exMesh.coordFieldCode [2, 1] = [3/2, 3/8] := by decide +kernel

/-! ### rounded arithmetic for the exact operation sequence of the code

`Mesh.cell = fl(fl(pmax − pmin)/n)` is itself a rounded quantity; `point2index` floors
`fl(fl(x − pmin)/cell)` and clips; `index2point` returns `fl(pmin + fl((i + ½)·cell))`;
`Region.__contains__` compares exactly and falls back on `np.isclose`.  `Mesh.point2indexFl`,
`Mesh.index2pointFl` (Model/C01.lean) follow this sequence with an arbitrary rounding function;
the theorems take a `Rounding` (standard model, relative error `u`), `Rounding.binary64`
(`u = 2^-53`, the function the driver executes) is one. -/

/-- **Error of the quotient that `point2index` floors**, all four roundings included:
`|fl(fl(x − pmin)/fl(fl(pmax − pmin)/n)) − (x − pmin)/cell| ≤ 5u·|(x − pmin)/cell|`, for every
coordinate `x` (explicit constant `c = 5`, valid for every `u ≤ 1/16`). -/
theorem quotient_fl_err (R : Rounding) (m : Mesh) (hm : m.Inv) (a : Nat) (ha : a < m.ndim) (x : Rat) :
    |m.quotAxFl R.fl a x - (x - m.region.lo a) / m.cellAt a| ≤ 5 * R.u * |(x - m.region.lo a) / m.cellAt a| :=
  (quotAxFl_err R m a (hm.2.2 a ha) (hm.1.2.2.2.2.2 a ha) x).2

/-- **Away from the faces the rounded computation finds the cell that contains the point**
(list level, every dimension): for every point of the closed region whose distance from every
*interior* cell face `pmin + j·cell` (`0 < j < n`) exceeds `5u·(x − pmin)` on every axis - relative
distance more than `5u` - `point2index` with every operation rounded returns exactly what exact
arithmetic returns (the index of the cell that contains the point, `point_index_contains`).
The faces of the region itself need no margin.  Requires only `5u·n < 1`. -/
theorem point2index_fl_exact (R : Rounding) (m : Mesh) (hm : m.Inv) (p : List Rat)
    (hp : m.region.containsExact p)
    (hs : ∀ a, a < m.ndim → 5 * R.u * (m.nAt a : Rat) < 1)
    (haway : ∀ a, a < m.ndim → ∀ j : Nat, 0 < j → j < m.nAt a →
      5 * R.u * (p.getD a 0 - m.region.lo a) < |p.getD a 0 - (m.region.lo a + (j : Rat) * m.cellAt a)|) :
    m.point2indexFl R.fl p = m.point2index p := by
  unfold point2indexFl point2index
  have h1 : p.length = m.ndim := hp.1
  rw [if_neg (not_not.mpr h1), if_neg (not_not.mpr h1), containsPtFl_of_exact R.fl _ _ hp,
    containsPt_of_exact _ _ hp]
  simp only [Bool.not_true, Bool.false_eq_true, if_false]
  congr 1
  apply tab_congr; intro a ha
  have hn := hm.2.2 a ha
  have hr := hm.1.2.2.2.2.2 a ha
  apply indexAxFl_eq R m a hn hr _ (hp.2 a ha).1 (hp.2 a ha).2 (hs a ha)
  intro j hj0 hjn
  rw [away_coord m a (cell_pos m a hn hr)]
  exact haway a ha j hj0 hjn

/-- **Within the band, one of the two adjacent cells** (list level): for *every* point of the
closed region the rounded `point2index` succeeds with an in-range index, and on each axis that
index is the exact one, or the point lies within `5u·(x − pmin)` of an interior face `j` and the
rounded and the exact index are the two cells `j − 1`, `j` sharing that face.  Requires `10u·n < 1`. -/
theorem point2index_fl_band (R : Rounding) (m : Mesh) (hm : m.Inv) (p : List Rat)
    (hp : m.region.containsExact p)
    (hs : ∀ a, a < m.ndim → 10 * R.u * (m.nAt a : Rat) < 1) :
    ∃ i k, m.point2indexFl R.fl p = .ok i ∧ m.point2index p = .ok k ∧ inRange m.n i = true ∧
      inRange m.n k = true ∧ inCell m k p ∧
      ∀ a, a < m.ndim → i.getD a 0 = k.getD a 0 ∨
        ∃ j : Nat, 0 < j ∧ j < m.nAt a ∧
          |p.getD a 0 - (m.region.lo a + (j : Rat) * m.cellAt a)| ≤ 5 * R.u * (p.getD a 0 - m.region.lo a) ∧
          (i.getD a 0 = j - 1 ∨ i.getD a 0 = j) ∧ (k.getD a 0 = j - 1 ∨ k.getD a 0 = j) := by
  obtain ⟨k, hk1, hk2, hk3⟩ := point_index_contains m hm p hp
  have hl1 : p.length = m.ndim := hp.1
  have hkeq : k = tab m.ndim fun a => m.indexAx a (p.getD a 0) := by
    unfold point2index at hk1
    rw [if_neg (not_not.mpr hl1), containsPt_of_exact _ _ hp] at hk1
    simp only [Bool.not_true, Bool.false_eq_true, if_false] at hk1
    injection hk1 with hk1; exact hk1.symm
  refine ⟨tab m.ndim fun a => m.indexAxFl R.fl a (p.getD a 0), k, ?_, hk1, ?_, hk2, hk3, ?_⟩
  · unfold point2indexFl
    rw [if_neg (not_not.mpr hl1), containsPtFl_of_exact R.fl _ _ hp]
    simp
  · apply inRange_of_getD
    · rw [tab_length, hm.2.1]; rfl
    · intro a ha
      have ha' : a < m.ndim := by rw [hm.2.1] at ha; exact ha
      rw [getD_tab _ _ _ _ ha']
      exact indexAxFl_lt m a R.fl (hm.2.2 a ha') _
  · intro a ha
    have hn := hm.2.2 a ha
    have hr := hm.1.2.2.2.2.2 a ha
    have hc := cell_pos m a hn hr
    rw [getD_tab _ _ _ _ ha, hkeq, getD_tab _ _ _ _ ha]
    rcases indexAxFl_band R m a hn hr _ (hp.2 a ha).1 (hp.2 a ha).2 (hs a ha) with h | ⟨j, h1, h2, h3, h4, h5⟩
    · exact Or.inl h
    · refine Or.inr ⟨j, h1, h2, ?_, h4, h5⟩
      have e : (p.getD a 0 - m.region.lo a) / m.cellAt a - (j : Rat)
          = (p.getD a 0 - (m.region.lo a + (j : Rat) * m.cellAt a)) / m.cellAt a := by
        field_simp; ring
      rw [e, abs_div, abs_of_pos hc, ← mul_div_assoc, div_le_div_iff_of_pos_right hc] at h3
      exact h3

/-- **index → centre → index with every operation rounded, for the operation sequence of the code**
(`cell = fl(fl(pmax − pmin)/n)`, `centre = fl(pmin + fl((i + ½)·cell))`, quotient
`fl(fl(centre − pmin)/cell)`, floor, clip): the identity on every cell when
`12u·(|pmin|/cell + n) < 1`. -/
theorem roundtrip_fl_axis (R : Rounding) (m : Mesh) (a : Nat) (hn : 0 < m.nAt a) (hr : m.region.lo a < m.region.hi a) (i : Nat) (hi : i < m.nAt a)
    (hs : 12 * R.u * (|m.region.lo a| / m.cellAt a + (m.nAt a : Rat)) < 1) :
    m.indexAxFl R.fl a (m.centreAxFl R.fl a (i : Int)) = i := by
  have hN : (0 : Rat) < (m.nAt a : Rat) := by exact_mod_cast hn
  have hc : 0 < m.cellAt a := by
    unfold cellAt Region.edge; exact div_pos (by linarith) hN
  have hu := R.u_nonneg
  have hu16 := R.u_small
  have hcc := cellAtFl_err R m a hn hr
  set c := m.cellAt a with hcdef
  set c' := m.cellAtFl R.fl a with hc'def
  have huu : R.u * R.u ≤ 1 / 16 * R.u := by nlinarith
  rw [abs_le] at hcc
  have hc1 : 223 / 256 * c ≤ c' := by nlinarith
  have hc' : 0 < c' := by linarith
  have hi' : (i : Rat) + 1 ≤ (m.nAt a : Rat) := by exact_mod_cast (by omega : i + 1 ≤ m.nAt a)
  -- hypothesis of `roundtrip_fl` in terms of c'
  have hL0 : 0 ≤ |m.region.lo a| / c := div_nonneg (abs_nonneg _) hc.le
  have hL : |m.region.lo a| / c' ≤ 6 / 5 * (|m.region.lo a| / c) := by
    rw [div_le_iff₀ hc']
    have e : |m.region.lo a| / c * c = |m.region.lo a| := by field_simp
    have := mul_le_mul_of_nonneg_left hc1 hL0
    nlinarith
  have hsmall : 10 * R.u * (|m.region.lo a| / c' + ((i : Rat) + 1 / 2)) < 1 := by
    have h1 : 10 * R.u * (|m.region.lo a| / c' + ((i : Rat) + 1 / 2))
        ≤ 10 * R.u * (6 / 5 * (|m.region.lo a| / c) + (m.nAt a : Rat)) :=
      mul_le_mul_of_nonneg_left (by linarith) (by positivity)
    have h2 : 0 ≤ R.u * (m.nAt a : Rat) := by positivity
    nlinarith
  have key := roundtrip_fl R (m.region.lo a) c' hc' i hsmall
  unfold indexAxFl quotAxFl centreAxFl
  rw [← hc'def]
  unfold quotFl centreFl at key
  have e : (((i : Int) : Rat)) = (i : Rat) := by push_cast; rfl
  rw [e, key]
  unfold clipInt
  have h1 : ¬ ((i : Int) < 0) := by omega
  have h2 : ¬ ((m.nAt a : Int) - 1 < (i : Int)) := by omega
  simp [h1, h2]


/-- **Round trip with every operation rounded, list level, through the containment test**:
`point2index(index2point(i)) = i` for every in-range index of every mesh (any dimension, either
boundary cell included) with `12u·(|pmin|/cell + n) < 1` on every axis, where both maps, the cell
size and the containment test are computed in rounded arithmetic exactly as the code does.  No
hypothesis on an intermediate result: the computed centre is shown to lie strictly inside the
region, so the test accepts it by exact comparison. -/
theorem roundtrip_fl_code (R : Rounding) (m : Mesh) (hm : m.Inv) (i : List Nat) (hi : inRange m.n i = true)
    (hs : ∀ a, a < m.ndim → 12 * R.u * (|m.region.lo a| / m.cellAt a + (m.nAt a : Rat)) < 1) :
    ∃ p, m.index2pointFl R.fl (i.map Int.ofNat) = .ok p ∧ m.region.containsExact p ∧
      m.point2indexFl R.fl p = .ok i := by
  obtain ⟨hr, hn, hpos⟩ := hm
  have hlen : i.length = m.ndim := by rw [inRange_length m.n i hi, hn]; rfl
  have hin : ∀ a, a < m.ndim → i.getD a 0 < m.nAt a := fun a ha =>
    inRange_getD m.n i hi a (by rw [hn]; exact ha)
  have hlohi : ∀ a, a < m.ndim → m.region.lo a < m.region.hi a := fun a ha => hr.2.2.2.2.2 a ha
  have hg : ∀ a, a < m.ndim → (i.map Int.ofNat).getD a 0 = ((i.getD a 0 : Nat) : Int) := by
    intro a ha
    have : a < i.length := by rw [hlen]; exact ha
    simp [List.getD_eq_getElem?_getD, List.getElem?_map, List.getElem?_eq_getElem this]
  have hp : m.index2pointFl R.fl (i.map Int.ofNat)
      = .ok (tab m.ndim fun a => m.centreAxFl R.fl a ((i.getD a 0 : Nat) : Int)) := by
    unfold index2pointFl
    rw [if_neg (by simp [hlen])]
    have : allLt m.ndim (fun a => decide (0 ≤ (i.map Int.ofNat).getD a 0) && decide ((i.map Int.ofNat).getD a 0 < (m.nAt a : Int))) = true := by
      rw [allLt_iff]; intro a ha
      rw [hg a ha]
      have h2 : ((i.getD a 0 : Nat) : Int) < (m.nAt a : Int) := by exact_mod_cast hin a ha
      have h1 : (0 : Int) ≤ ((i.getD a 0 : Nat) : Int) := Int.natCast_nonneg _
      rw [decide_eq_true h1, decide_eq_true h2]; rfl
    rw [this]
    simp only [Bool.not_true, Bool.false_eq_true, if_false]
    congr 1
    apply tab_congr; intro a ha
    rw [hg a ha]
  have hex : m.region.containsExact (tab m.ndim fun a => m.centreAxFl R.fl a ((i.getD a 0 : Nat) : Int)) := by
    refine ⟨by simp [Mesh.ndim], fun a ha => ?_⟩
    have ha' : a < m.ndim := ha
    rw [getD_tab _ _ _ _ ha']
    obtain ⟨h1, h2⟩ := centreAxFl_inside R m a (hpos a ha') (hlohi a ha') _ (hin a ha') (hs a ha')
    exact ⟨h1.le, h2.le⟩
  refine ⟨_, hp, hex, ?_⟩
  unfold point2indexFl
  rw [if_neg (by simp), containsPtFl_of_exact R.fl _ _ hex]
  simp only [Bool.not_true, Bool.false_eq_true, if_false]
  congr 1
  symm
  apply eq_tab_of_getD i m.ndim _ 0 hlen
  intro a ha
  rw [getD_tab _ _ _ _ ha]
  exact (roundtrip_fl_axis R m a (hpos a ha) (hlohi a ha) _ (hin a ha) (hs a ha)).symm

/-- **binary64**: the three statements above hold for the round-to-nearest-even binary64
arithmetic the driver executes (`C15.fl64`, `u = 2^-53`; exponent range not modelled): for every
mesh with at most `9·10^13` cells per axis the computed index of every point of the region is the
exact one or - within relative distance `5·2^-53` of an interior face - its neighbour across that face. -/
theorem point2index_binary64 (m : Mesh) (hm : m.Inv) (p : List Rat) (hp : m.region.containsExact p)
    (hn : ∀ a, a < m.ndim → m.nAt a ≤ 90000000000000) :
    ∃ i k, m.point2indexFl C15.fl64 p = .ok i ∧ m.point2index p = .ok k ∧ inRange m.n i = true ∧
      inRange m.n k = true ∧ inCell m k p ∧
      ∀ a, a < m.ndim → i.getD a 0 = k.getD a 0 ∨
        ∃ j : Nat, 0 < j ∧ j < m.nAt a ∧
          |p.getD a 0 - (m.region.lo a + (j : Rat) * m.cellAt a)|
            ≤ 5 / 9007199254740992 * (p.getD a 0 - m.region.lo a) ∧
          (i.getD a 0 = j - 1 ∨ i.getD a 0 = j) ∧ (k.getD a 0 = j - 1 ∨ k.getD a 0 = j) := by
  have := point2index_fl_band Rounding.binary64 m hm p hp (by
    intro a ha
    have h1 : (m.nAt a : Rat) ≤ 90000000000000 := by exact_mod_cast hn a ha
    rw [binary64_u]
    linarith)
  rw [binary64_fl, binary64_u] at this
  have e : 5 * (1 / 9007199254740992 : Rat) = 5 / 9007199254740992 := by norm_num
  rw [e] at this
  exact this

/-- … and the binary64 round trip: exact for every cell of every mesh with
`|pmin|/cell + n ≤ 7·10^14` on every axis -/
theorem roundtrip_binary64 (m : Mesh) (hm : m.Inv) (i : List Nat) (hi : inRange m.n i = true)
    (hs : ∀ a, a < m.ndim → |m.region.lo a| / m.cellAt a + (m.nAt a : Rat) ≤ 700000000000000) :
    ∃ p, m.index2pointFl C15.fl64 (i.map Int.ofNat) = .ok p ∧ m.region.containsExact p ∧
      m.point2indexFl C15.fl64 p = .ok i := by
  have := roundtrip_fl_code Rounding.binary64 m hm i hi (by
    intro a ha
    have := hs a ha
    rw [binary64_u]
    linarith)
  rw [binary64_fl] at this
  exact this

/-! non-vacuity (rounded arithmetic).  `[0, 1]` in three cells: the binary64 number just below 1/3
(`fl(1/3)`, relative distance `2^-54` from the face) lies in cell 0, but the computed cell size is that same
number, the computed quotient is exactly 1 and the code returns cell 1 - the adjacent cell across the face,
as `point2index_fl_band` allows (and `point2index_fl_exact` excludes further away).  On `exMesh` (dyadic)
rounded and exact results coincide. -/
def exThird : Mesh :=
  { region := { pmin := [0], pmax := [1], dims := ["x"], units := ["m"], tol := 1/1000000000000 },
    n := [3], bc := "", subs := [] }

example : exThird.Inv := mesh_inv_of_invB _ (by decide +kernel)
example : exThird.point2index [6004799503160661/18014398509481984] = .ok [0] ∧
    exThird.point2indexFl C15.fl64 [6004799503160661/18014398509481984] = .ok [1] ∧
    exThird.point2indexFl C15.fl64 [1/4] = .ok [0] ∧ exThird.point2indexFl C15.fl64 [1] = .ok [2] := by decide +kernel
example : |(6004799503160661/18014398509481984 : Rat) - (exThird.region.lo 0 + (1 : Nat) * exThird.cellAt 0)|
    ≤ 5 / 9007199254740992 * (6004799503160661/18014398509481984 - exThird.region.lo 0) := by decide +kernel
example : exMesh.point2indexFl C15.fl64 [7/4, 1/2] = .ok [2, 1] ∧
    exMesh.index2pointFl C15.fl64 [2, 1] = .ok [3/2, 3/8] ∧
    exThird.index2pointFl C15.fl64 [1] = .ok [1/2] ∧
    exThird.point2indexFl C15.fl64 [1/2] = .ok [1] := by decide +kernel
example : ∀ a, a < exThird.ndim → |exThird.region.lo a| / exThird.cellAt a + (exThird.nAt a : Rat) ≤ 700000000000000 := by
  intro a ha
  have : a = 0 := by
    have : a < 1 := ha
    omega
  subst this; decide +kernel


/-! ### the tolerance clause in rounded arithmetic -/

/-- **`point in region` in rounded arithmetic against the exact tolerance**: with every operation
of `Region.__contains__` rounded (edges, `atol = min(edges)·tolerance_factor`, `rtol·|x|`, their sum,
the difference handed to `np.isclose`), a point inside `(1 − 4u)` times the exact band
`atol + rtol·|x|` on every axis is accepted, and every accepted point is inside `(1 + 5u)` times it. -/
theorem contains_fl_sandwich (R : Rounding) (r : Region) (hr : r.Inv) (ht : 0 ≤ r.tol) (p : List Rat) :
    (TolInsideS r (1 - 4 * R.u) p → r.containsPtFl R.fl p = true) ∧
    (r.containsPtFl R.fl p = true → TolInsideS r (1 + 5 * R.u) p) := by
  unfold Region.containsPtFl TolInsideS
  simp only [Bool.and_eq_true, decide_eq_true_eq, allLt_iff]
  constructor
  · rintro ⟨h1, h2⟩
    exact ⟨h1, fun a ha => (containsAxFl_sandwich R r hr ht a _).1 (h2 a ha)⟩
  · rintro ⟨h1, h2⟩
    exact ⟨h1, fun a ha => (containsAxFl_sandwich R r hr ht a _).2 (h2 a ha)⟩

/-- **Points outside by more than `(1 + 5u)` times the tolerance are refused** by the rounded `point2index` -/
theorem point2index_fl_rejects (R : Rounding) (m : Mesh) (hm : m.Inv) (ht : 0 ≤ m.region.tol) (p : List Rat)
    (h : ¬ TolInsideS m.region (1 + 5 * R.u) p) : m.point2indexFl R.fl p = .error .value := by
  unfold point2indexFl
  split
  · rfl
  · have : m.region.containsPtFl R.fl p = false := by
      by_contra hc
      exact h ((contains_fl_sandwich R m.region hm.1 ht p).2 (by simpa using hc))
    rw [this]; rfl

/-- **The tolerance clause with every operation rounded** (list level): a point inside the region
up to `(1 − 4u)` times the comparison tolerance is accepted by the rounded `point2index` (and by
the exact one) with an in-range index; on every axis that index is the exact one - in particular
0 below `pmin` and `n − 1` above `pmax` - or, for a coordinate within `5u·(x − pmin)` of an interior
face `j`, one of the two cells `j − 1`, `j` sharing the face.  Requires `10u·n < 1`. -/
theorem point2index_fl_tol (R : Rounding) (m : Mesh) (hm : m.Inv) (ht : 0 ≤ m.region.tol) (p : List Rat)
    (hp : TolInsideS m.region (1 - 4 * R.u) p)
    (hs : ∀ a, a < m.ndim → 10 * R.u * (m.nAt a : Rat) < 1) :
    ∃ i k, m.point2indexFl R.fl p = .ok i ∧ m.point2index p = .ok k ∧ inRange m.n i = true ∧
      inRange m.n k = true ∧
      ∀ a, a < m.ndim → i.getD a 0 = k.getD a 0 ∨
        (m.region.lo a ≤ p.getD a 0 ∧ p.getD a 0 ≤ m.region.hi a ∧
         ∃ j : Nat, 0 < j ∧ j < m.nAt a ∧
          |p.getD a 0 - (m.region.lo a + (j : Rat) * m.cellAt a)| ≤ 5 * R.u * (p.getD a 0 - m.region.lo a) ∧
          (i.getD a 0 = j - 1 ∨ i.getD a 0 = j) ∧ (k.getD a 0 = j - 1 ∨ k.getD a 0 = j)) := by
  have hu := R.u_nonneg
  have hl : p.length = m.ndim := hp.1
  have hin : TolInside m.region p := by
    refine ⟨hp.1, fun a ha => ?_⟩
    have hb := band_nonneg m.region hm.1 ht (p.getD a 0)
    have := hp.2 a ha
    have : (1 - 4 * R.u) * band m.region (p.getD a 0) ≤ band m.region (p.getD a 0) := by nlinarith
    constructor <;> linarith
  obtain ⟨k, hk1, hk2, _, _, _⟩ := point2index_tol m hm ht p hin
  have hkeq := ((point2index_ok_iff m hm ht p k).mp hk1).2
  refine ⟨tab m.ndim fun a => m.indexAxFl R.fl a (p.getD a 0), k, ?_, hk1, ?_, hk2, ?_⟩
  · unfold point2indexFl
    rw [if_neg (not_not.mpr hl), (contains_fl_sandwich R m.region hm.1 ht p).1 hp]
    simp
  · apply inRange_of_getD
    · rw [tab_length, hm.2.1]; rfl
    · intro a ha
      have ha' : a < m.ndim := by rw [hm.2.1] at ha; exact ha
      rw [getD_tab _ _ _ _ ha']
      exact indexAxFl_lt m a R.fl (hm.2.2 a ha') _
  · intro a ha
    have hn := hm.2.2 a ha
    have hr := hm.1.2.2.2.2.2 a ha
    have hc := cell_pos m a hn hr
    have hN : (0 : Rat) < (m.nAt a : Rat) := by exact_mod_cast hn
    rw [getD_tab _ _ _ _ ha, hkeq, getD_tab _ _ _ _ ha]
    by_cases h1 : p.getD a 0 < m.region.lo a
    · left
      rw [indexAxFl_below R m a hn hr _ h1, band_clipped_to_first m a _ hn hr h1]
    · by_cases h2 : m.region.hi a < p.getD a 0
      · left
        rw [indexAxFl_above R m a hn hr _ h2 (by have := hs a ha; nlinarith)]
        -- exact index above the edge
        rw [indexAx_clamp m a _ hn hr]
        have e : clampAx m.region a (p.getD a 0) = m.region.hi a := by
          unfold clampAx; rw [min_eq_left h2.le, max_eq_right hr.le]
        rw [e]
        obtain ⟨_, _, _, f1, f2, f3⟩ := indexAx_facts m a hn hr (m.region.hi a) hr.le (le_refl _)
        have hq : (m.region.hi a - m.region.lo a) / m.cellAt a = (m.nAt a : Rat) := by
          have hcov := cells_cover_edges m a hn
          unfold Region.edge at hcov
          rw [← hcov]; field_simp
        rw [hq] at f2 f3
        rcases f3 with f3 | f3
        · have : (m.nAt a : Rat) < ((m.indexAx a (m.region.hi a) + 1 : Nat) : Rat) := by push_cast; exact f3
          have : m.nAt a < m.indexAx a (m.region.hi a) + 1 := by exact_mod_cast this
          omega
        · exact f3.symm
      · have hlo := not_lt.mp h1
        have hhi := not_lt.mp h2
        rcases indexAxFl_band R m a hn hr _ hlo hhi (hs a ha) with h | ⟨j, j1, j2, j3, j4, j5⟩
        · exact Or.inl h
        · refine Or.inr ⟨hlo, hhi, j, j1, j2, ?_, j4, j5⟩
          have e : (p.getD a 0 - m.region.lo a) / m.cellAt a - (j : Rat)
              = (p.getD a 0 - (m.region.lo a + (j : Rat) * m.cellAt a)) / m.cellAt a := by
            field_simp; ring
          rw [e, abs_div, abs_of_pos hc, ← mul_div_assoc, div_le_div_iff_of_pos_right hc] at j3
          exact j3

/-! ### one lattice: cell size of a mesh by cell, monotonicity, vertices as cell faces -/

/-- a mesh requested by cell size has that cell size: exactly when the edges are exact multiples,
and in general within `(min(cell)/1000)/n` on every axis -/
theorem by_cell_size (r : Region) (hr : r.Inv) (cell : List Rat) (bc : String) (m : Mesh)
    (h : Mesh.mkCell? r cell bc = .ok m) (a : Nat) (ha : a < r.ndim) :
    |m.cellAt a - cell.getD a 0| ≤ listMin cell / 1000 / (m.nAt a : Rat) ∧
    (r.edge a = (m.nAt a : Rat) * cell.getD a 0 → m.cellAt a = cell.getD a 0) := by
  obtain ⟨hreg, hn1, hnear⟩ := by_cell_ok_near r hr cell bc m h a ha
  have hN : (0 : Rat) < (m.nAt a : Rat) := by exact_mod_cast hn1
  have hcell : m.cellAt a = r.edge a / (m.nAt a : Rat) := by unfold cellAt; rw [hreg]
  constructor
  · have e : m.cellAt a - cell.getD a 0 = (r.edge a - (m.nAt a : Rat) * cell.getD a 0) / (m.nAt a : Rat) := by
      rw [hcell]; field_simp
    rw [e, abs_div, abs_of_pos hN, div_le_div_iff_of_pos_right hN]
    exact hnear
  · intro he
    rw [hcell, he]; field_simp

/-- `point2index` is monotone along every axis: a larger coordinate never gets a smaller index -/
theorem index_monotone (m : Mesh) (a : Nat) (hn : 0 < m.nAt a) (hr : m.region.lo a < m.region.hi a)
    (x y : Rat) (hxy : x ≤ y) : m.indexAx a x ≤ m.indexAx a y := by
  have hc := cell_pos m a hn hr
  have hq : (x - m.region.lo a) / m.cellAt a ≤ (y - m.region.lo a) / m.cellAt a := by
    rw [div_le_div_iff_of_pos_right hc]; linarith
  have hf : ((x - m.region.lo a) / m.cellAt a).floor ≤ ((y - m.region.lo a) / m.cellAt a).floor := by
    apply rat_le_floor
    exact le_trans (rat_floor_le _) hq
  unfold indexAx clipInt
  split <;> split <;> (try split) <;> (try split) <;> omega

/-- **vertices are the cell faces that `point2index` uses**: for a coordinate of the half-open edge
`[pmin, pmax)`, the index is `j` exactly when the coordinate lies between the `j`-th and the
`(j+1)`-th entry of `Mesh.vertices` (lower inclusive, upper exclusive). -/
theorem index_iff_vertices (m : Mesh) (a : Nat) (ha : a < m.ndim) (hn : 0 < m.nAt a)
    (hr : m.region.lo a < m.region.hi a) (x : Rat) (hlo : m.region.lo a ≤ x) (hhi : x < m.region.hi a)
    (j : Nat) (hj : j < m.nAt a) :
    m.indexAx a x = j ↔
      (m.vertices.getD a []).getD j 0 ≤ x ∧ x < (m.vertices.getD a []).getD (j + 1) 0 := by
  rw [vertices_eq_faces m a ha hn j (by omega), vertices_eq_faces m a ha hn (j + 1) (by omega)]
  obtain ⟨h1, h2, h3⟩ := index_contains_axis m a x hn hr hlo hhi.le
  have h3' : x < m.region.lo a + ((m.indexAx a x : Rat) + 1) * m.cellAt a := by
    rcases h3 with h | ⟨_, h⟩
    · exact h
    · exact absurd h (ne_of_lt hhi)
  constructor
  · intro e
    rw [← e]; push_cast
    exact ⟨h2, h3'⟩
  · rintro ⟨l, u⟩
    push_cast at u
    exact cell_unique (m.region.lo a) (m.cellAt a) x (cell_pos m a hn hr) _ _ ⟨h2, h3'⟩ ⟨l, u⟩

/-! non-vacuity (tolerance in rounded arithmetic, binary64 on `exMesh`): 10⁻¹³ below `pmin` is inside
`(1 − 4u)` times the band and accepted, first cell; 10⁻¹¹ below is outside `(1 + 5u)` times the band and refused -/
example : exMesh.point2indexFl C15.fl64 [-1 - 1/10000000000000, 3/8] = .ok [0, 1] ∧
    exMesh.point2indexFl C15.fl64 [-1 - 1/100000000000, 3/8] = .error .value ∧
    exMesh.point2indexFl C15.fl64 [2 + 1/10000000000000, 1/2] = .ok [2, 1] := by decide +kernel
example : TolInsideS exMesh.region (1 - 4 * Rounding.binary64.u) [-1 - 1/10000000000000, 3/8] := by
  refine ⟨rfl, ?_⟩
  intro a ha
  have : a = 0 ∨ a = 1 := by
    have : a < 2 := ha
    omega
  rcases this with rfl | rfl <;> (unfold band; rw [binary64_u]; constructor <;> decide +kernel)
example : ¬ TolInsideS exMesh.region (1 + 5 * Rounding.binary64.u) [-1 - 1/100000000000, 3/8] := by
  rintro ⟨_, h⟩
  have := (h 0 (by decide)).1
  unfold band at this
  rw [binary64_u] at this
  revert this
  decide +kernel
example : exMesh.vertices = [[-1, 0, 1, 2], [0, 1/4, 1/2]] ∧ exMesh.indexAx 0 (3/4) = 1 ∧
    exMesh.indexAx 0 1 = 2 ∧ exMesh.cells = [[-1/2, 1/2, 3/2], [1/8, 3/8]] := by decide +kernel

/-! ### the per-axis lists in rounded arithmetic -/

/-- **`Mesh.vertices` as computed** (`np.linspace(pmin, pmax, n + 1)`: `fl(fl(j·fl(fl(pmax − pmin)/n)) + pmin)`,
last entry `pmax`): entry `j` is within `10u·M` of the face `pmin + j·cell`, `M ≥ |pmin|, |pmax|`;
first and last entry are `pmin` and `pmax` up to that bound, the last one exactly. -/
theorem vertices_fl_err (R : Rounding) (m : Mesh) (a : Nat) (ha : a < m.ndim) (hn : 0 < m.nAt a)
    (M : Rat) (hlo : |m.region.lo a| ≤ M) (hhi : |m.region.hi a| ≤ M) (j : Nat) (hj : j ≤ m.nAt a) :
    |((m.verticesFl R.fl).getD a []).getD j 0 - (m.region.lo a + (j : Rat) * m.cellAt a)| ≤ 10 * R.u * M ∧
    ((m.verticesFl R.fl).getD a []).getD (m.nAt a) 0 = m.region.hi a := by
  have hM : 0 ≤ M := le_trans (abs_nonneg _) hlo
  have hu := R.u_nonneg
  have hcov := cells_cover_edges m a hn
  unfold Region.edge at hcov
  unfold verticesFl
  rw [getD_tab _ _ _ _ ha]
  unfold linspaceFl
  have h1 : ¬ (m.nAt a + 1 = 1) := by omega
  rw [if_neg h1, getD_tab _ _ _ _ (by omega), getD_tab _ _ _ _ (by omega)]
  refine ⟨?_, by simp⟩
  by_cases hl : j + 1 = m.nAt a + 1
  · rw [if_pos hl]
    have : j = m.nAt a := by omega
    rw [this]
    have : m.region.hi a - (m.region.lo a + (m.nAt a : Rat) * m.cellAt a) = 0 := by linarith
    rw [this, abs_zero]; positivity
  · rw [if_neg hl]
    have e : ((m.nAt a + 1 : Nat) : Rat) - 1 = (m.nAt a : Rat) := by push_cast; ring
    rw [e]
    have := linspace_entry_err R (m.region.lo a) (m.region.hi a) M (m.nAt a) j hn hj hlo hhi
    unfold cellAt Region.edge
    exact this

/-- **`Mesh.cells` as computed** (`np.linspace(fl(pmin + fl(cell/2)), fl(pmax − fl(cell/2)), n)` with the
rounded cell size): entry `j` is within `20u·M` of the centre `pmin + (j + ½)·cell`, `M ≥ |pmin|, |pmax|`,
for every `n ≥ 1` (this is what the `2^-40` comparator of the correspondence check rests on). -/
theorem cells_fl_err (R : Rounding) (m : Mesh) (a : Nat) (ha : a < m.ndim) (hn : 0 < m.nAt a)
    (hr : m.region.lo a < m.region.hi a)
    (M : Rat) (hlo : |m.region.lo a| ≤ M) (hhi : |m.region.hi a| ≤ M) (j : Nat) (hj : j < m.nAt a) :
    |((m.cellsFl R.fl).getD a []).getD j 0 - (m.region.lo a + ((j : Rat) + 1/2) * m.cellAt a)| ≤ 20 * R.u * M := by
  have hM : 0 ≤ M := le_trans (abs_nonneg _) hlo
  have hu := R.u_nonneg
  have hu16 := R.u_small
  have huM : 0 ≤ R.u * M := mul_nonneg hu hM
  have hc := cell_pos m a hn hr
  have hcov := cells_cover_edges m a hn
  unfold Region.edge at hcov
  have hN : (1 : Rat) ≤ (m.nAt a : Rat) := by exact_mod_cast hn
  have hcc := cellAtFl_err R m a hn hr
  -- cell / 2 ≤ M
  have hcM : m.cellAt a / 2 ≤ M := by
    have h1 : m.cellAt a ≤ (m.nAt a : Rat) * m.cellAt a := by nlinarith
    have h2 := le_abs_self (m.region.hi a)
    have h3 := neg_abs_le (m.region.lo a)
    linarith
  set c := m.cellAt a with hcdef
  set c' := m.cellAtFl R.fl a with hc'def
  set s' := R.fl (m.region.lo a + R.fl (c' / 2)) with hs'
  set e' := R.fl (m.region.hi a - R.fl (c' / 2)) with he'
  have es : |s' - (m.region.lo a + c / 2)| ≤ 6 * R.u * M := by
    have := half_cell_err R (m.region.lo a) c c' M 1 (Or.inl rfl) hc hlo hcM hcc
    simpa using this
  have ee : |e' - (m.region.hi a - c / 2)| ≤ 6 * R.u * M := by
    have := half_cell_err R (m.region.hi a) c c' M (-1) (Or.inr rfl) hc hhi hcM hcc
    have e1 : m.region.hi a + -1 * R.fl (c' / 2) = m.region.hi a - R.fl (c' / 2) := by ring
    have e2 : m.region.hi a + -1 * (c / 2) = m.region.hi a - c / 2 := by ring
    rw [e1, e2] at this
    exact this
  -- exact end points lie between the corners
  have hstart : |m.region.lo a + c / 2| ≤ M := by
    rw [abs_le]
    have h2 := le_abs_self (m.region.hi a)
    have h3 := neg_abs_le (m.region.lo a)
    have : c / 2 ≤ (m.nAt a : Rat) * c := by nlinarith
    constructor <;> linarith
  have hstop : |m.region.hi a - c / 2| ≤ M := by
    rw [abs_le]
    have h2 := le_abs_self (m.region.hi a)
    have h3 := neg_abs_le (m.region.lo a)
    have : c / 2 ≤ (m.nAt a : Rat) * c := by nlinarith
    constructor <;> linarith
  unfold cellsFl
  rw [getD_tab _ _ _ _ ha]
  rw [← hc'def, ← hs', ← he']
  unfold linspaceFl
  by_cases h1 : m.nAt a = 1
  · rw [if_pos h1]
    have hj0 : j = 0 := by omega
    subst hj0
    simp only [List.getD_cons_zero]
    have e : m.region.lo a + ((0 : Nat) : Rat) * c + 1 / 2 * c = m.region.lo a + c / 2 := by push_cast; ring
    have e2 : m.region.lo a + (((0 : Nat) : Rat) + 1 / 2) * c = m.region.lo a + c / 2 := by push_cast; ring
    rw [e2]
    linarith
  · rw [if_neg h1, getD_tab _ _ _ _ hj]
    by_cases hl : j + 1 = m.nAt a
    · rw [if_pos hl]
      have e : m.region.lo a + ((j : Rat) + 1 / 2) * c = m.region.hi a - c / 2 := by
        have : (j : Rat) + 1 = (m.nAt a : Rat) := by exact_mod_cast hl
        have : (j : Rat) = (m.nAt a : Rat) - 1 := by linarith
        rw [this]; linarith
      rw [e]; linarith
    · rw [if_neg hl]
      -- N = n - 1 ≥ 1, j ≤ N
      have hN1 : 0 < m.nAt a - 1 := by omega
      have eN : (m.nAt a : Rat) - 1 = ((m.nAt a - 1 : Nat) : Rat) := by
        push_cast [Nat.cast_sub (by omega : 1 ≤ m.nAt a)]; ring
      rw [eN]
      have hs'M : |s'| ≤ 11 / 8 * M := by
        have t := abs_add_le (s' - (m.region.lo a + c / 2)) (m.region.lo a + c / 2)
        have e : s' - (m.region.lo a + c / 2) + (m.region.lo a + c / 2) = s' := by ring
        rw [e] at t
        nlinarith
      have he'M : |e'| ≤ 11 / 8 * M := by
        have t := abs_add_le (e' - (m.region.hi a - c / 2)) (m.region.hi a - c / 2)
        have e : e' - (m.region.hi a - c / 2) + (m.region.hi a - c / 2) = e' := by ring
        rw [e] at t
        nlinarith
      have k1 := linspace_entry_err R s' e' (11 / 8 * M) (m.nAt a - 1) j hN1 (by omega) hs'M he'M
      -- interpolation between the perturbed end points
      have hNq : (0 : Rat) < ((m.nAt a - 1 : Nat) : Rat) := by exact_mod_cast hN1
      have hjq : (0 : Rat) ≤ (j : Rat) := Nat.cast_nonneg j
      have hjN : (j : Rat) ≤ ((m.nAt a - 1 : Nat) : Rat) := by exact_mod_cast (by omega : j ≤ m.nAt a - 1)
      have k2 := interp_perturb (m.region.lo a + c / 2) (m.region.hi a - c / 2) s' e'
        ((j : Rat) / ((m.nAt a - 1 : Nat) : Rat)) (6 * R.u * M) (div_nonneg hjq hNq.le)
        (by rw [div_le_one hNq]; exact hjN) es ee
      have e3 : m.region.lo a + c / 2 + (j : Rat) / ((m.nAt a - 1 : Nat) : Rat) * (m.region.hi a - c / 2 - (m.region.lo a + c / 2))
          = m.region.lo a + ((j : Rat) + 1 / 2) * c := by
        have : m.region.hi a - c / 2 - (m.region.lo a + c / 2) = ((m.nAt a - 1 : Nat) : Rat) * c := by
          rw [← eN]; linarith
        rw [this]; field_simp; ring
      have e4 : s' + (j : Rat) * ((e' - s') / ((m.nAt a - 1 : Nat) : Rat))
          = s' + (j : Rat) / ((m.nAt a - 1 : Nat) : Rat) * (e' - s') := by field_simp
      rw [e3] at k2
      rw [e4] at k1
      set y := R.fl (R.fl ((j : Rat) * R.fl (R.fl (e' - s') / ((m.nAt a - 1 : Nat) : Rat))) + s') with hy
      have e5 : y - (m.region.lo a + ((j : Rat) + 1 / 2) * c)
          = (y - (s' + (j : Rat) / ((m.nAt a - 1 : Nat) : Rat) * (e' - s')))
            + ((s' + (j : Rat) / ((m.nAt a - 1 : Nat) : Rat) * (e' - s')) - (m.region.lo a + ((j : Rat) + 1 / 2) * c)) := by ring
      rw [e5]
      have t := abs_add_le (y - (s' + (j : Rat) / ((m.nAt a - 1 : Nat) : Rat) * (e' - s')))
        ((s' + (j : Rat) / ((m.nAt a - 1 : Nat) : Rat) * (e' - s')) - (m.region.lo a + ((j : Rat) + 1 / 2) * c))
      linarith

/-! non-vacuity (per-axis lists in binary64): `[0, 1]` in three cells - the computed centres and vertices are not
the exact ones (1/6, 5/6, 1/3, 2/3 are no binary64 numbers) but lie within the proved bounds (`M = 1`) -/
example : exThird.cells = [[1/6, 1/2, 5/6]] ∧
    exThird.cellsFl C15.fl64 = [[6004799503160661/36028797018963968, 1/2, 7505999378950827/9007199254740992]] ∧
    exThird.verticesFl C15.fl64 = [[0, 6004799503160661/18014398509481984, 6004799503160661/9007199254740992, 1]] := by
  decide +kernel
example : |(7505999378950827/9007199254740992 : Rat) - 5/6| ≤ 20 * Rounding.binary64.u * 1 ∧
    |(6004799503160661/18014398509481984 : Rat) - 1/3| ≤ 10 * Rounding.binary64.u * 1 ∧
    (7505999378950827/9007199254740992 : Rat) ≠ 5/6 := by
  rw [binary64_u]; decide +kernel
/-- mixed-order corners, periodic boundary condition given in upper case: accepted by both constructors, stored
lower-case (the `bcOk` hypothesis of `by_cell_ok_iff` / `mesh_mk_ok_iff` on a non-trivial input) -/
example : (Mesh.mkCell? exMesh.region [1, 1/4] "YX").toOption.map (fun m => (m.n, m.bc)) = some ([3, 2], "yx") ∧
    (Mesh.mkN? exMesh.region [3, 2] "X").toOption.map (·.bc) = some "x" ∧
    (Mesh.mkN? exMesh.region [3, 2] "xz").toOption = none := by decide +kernel

/-- **The computed list of centres describes the same lattice as the computed `point2index`**: with
every operation rounded (cell size, `np.linspace` of `Mesh.cells`, quotient, floor, clip), entry `j`
of the list of centres of axis `a` lies in the closed edge and is mapped back to `j`, for every
`j < n`, provided `50u·(M/cell + n) < 1` with `M ≥ |pmin|, |pmax|`. -/
theorem cells_fl_roundtrip (R : Rounding) (m : Mesh) (a : Nat) (ha : a < m.ndim) (hn : 0 < m.nAt a)
    (hr : m.region.lo a < m.region.hi a)
    (M : Rat) (hlo : |m.region.lo a| ≤ M) (hhi : |m.region.hi a| ≤ M)
    (hs : 50 * R.u * (M / m.cellAt a + (m.nAt a : Rat)) < 1) (j : Nat) (hj : j < m.nAt a) :
    m.region.lo a ≤ ((m.cellsFl R.fl).getD a []).getD j 0 ∧
    ((m.cellsFl R.fl).getD a []).getD j 0 ≤ m.region.hi a ∧
    m.indexAxFl R.fl a (((m.cellsFl R.fl).getD a []).getD j 0) = j := by
  have hu := R.u_nonneg
  have hM : 0 ≤ M := le_trans (abs_nonneg _) hlo
  have hc := cell_pos m a hn hr
  have hcov := cells_cover_edges m a hn
  unfold Region.edge at hcov
  have herr := cells_fl_err R m a ha hn hr M hlo hhi j hj
  set x := ((m.cellsFl R.fl).getD a []).getD j 0 with hx
  set c := m.cellAt a with hcdef
  have hN : (1 : Rat) ≤ (m.nAt a : Rat) := by exact_mod_cast hn
  have hjq : (0 : Rat) ≤ (j : Rat) := Nat.cast_nonneg j
  have hjn : (j : Rat) + 1 ≤ (m.nAt a : Rat) := by exact_mod_cast (by omega : j + 1 ≤ m.nAt a)
  -- E = 20 u M < (2/5 - 20 u n) c
  have hE : 20 * R.u * M + 20 * R.u * ((m.nAt a : Rat) * c) < 2 / 5 * c := by
    have e : (M / c + (m.nAt a : Rat)) * c = M + (m.nAt a : Rat) * c := by field_simp
    have := mul_lt_mul_of_pos_right hs hc
    have e2 : 50 * R.u * (M / c + (m.nAt a : Rat)) * c = 50 * (R.u * M) + 50 * (R.u * ((m.nAt a : Rat) * c)) := by
      rw [mul_assoc (50 * R.u), e]; ring
    linarith
  have hunc : 0 ≤ R.u * ((m.nAt a : Rat) * c) := by positivity
  rw [abs_le] at herr
  have hxlo : m.region.lo a ≤ x := by nlinarith
  have hxhi : x ≤ m.region.hi a := by nlinarith
  refine ⟨hxlo, hxhi, ?_⟩
  -- the quotient in cell units
  set q := (x - m.region.lo a) / c with hq
  have hq1 : (j : Rat) + 1 / 10 + 20 * R.u * (m.nAt a : Rat) < q := by
    rw [hq, lt_div_iff₀ hc]; nlinarith
  have hq2 : q < (j : Rat) + 9 / 10 - 20 * R.u * (m.nAt a : Rat) := by
    rw [hq, div_lt_iff₀ hc]; nlinarith
  have hun : 0 ≤ R.u * (m.nAt a : Rat) := by positivity
  have hqn : q ≤ (m.nAt a : Rat) := by linarith
  have hq0 : 0 ≤ q := by linarith
  -- exact index is j
  have hex : m.indexAx a x = j := by
    unfold indexAx
    rw [← hcdef, ← hq]
    have hf : q.floor = (j : Int) := by
      apply rat_floor_eq
      · push_cast; linarith
      · push_cast; linarith
    rw [hf]
    unfold clipInt
    have h1 : ¬ ((j : Int) < 0) := by omega
    have h2 : ¬ ((m.nAt a : Int) - 1 < (j : Int)) := by omega
    simp [h1, h2]
  have h5n : 5 * R.u * (m.nAt a : Rat) < 1 := by
    have : 0 ≤ R.u * M := mul_nonneg hu hM
    have : 0 < c := hc
    nlinarith
  rw [← hex]
  apply indexAxFl_eq R m a hn hr x hxlo hxhi h5n
  intro i hi0 hin
  rw [← hcdef, ← hq]
  have h5q : 5 * R.u * q ≤ 5 * R.u * (m.nAt a : Rat) := mul_le_mul_of_nonneg_left hqn (by positivity)
  by_cases hij : i ≤ j
  · have : (i : Rat) ≤ (j : Rat) := by exact_mod_cast hij
    rw [abs_of_pos (by linarith)]
    linarith
  · have : (j : Rat) + 1 ≤ (i : Rat) := by exact_mod_cast (by omega : j + 1 ≤ i)
    rw [abs_of_neg (by linarith)]
    linarith

/-- … e.g. in binary64 on `[0, 1]` in three cells: the computed centres go back to 0, 1, 2, and the hypothesis holds -/
example : (((exThird.cellsFl C15.fl64).getD 0 []).map fun x => exThird.indexAxFl C15.fl64 0 x) = [0, 1, 2] ∧
    50 * Rounding.binary64.u * (1 / exThird.cellAt 0 + (exThird.nAt 0 : Rat)) < 1 := by
  rw [binary64_u]; decide +kernel

/-! ### cell volume and region volume in rounded arithmetic, any number of dimensions -/

/-- **`Mesh.dV` as computed** (`np.prod` of the `d` rounded cell sizes, `d − 1` rounded
multiplications) lies within the factors `(1 ∓ g)·((1 ∓ g)(1 ∓ u))^(d−1)`, `g = 2u + u²`, of the
exact cell volume - a relative error of about `(3d − 1)·u`, for every number of dimensions `d`. -/
theorem dV_fl_err (R : Rounding) (m : Mesh) (hm : m.Inv) :
    (1 - (2 * R.u + R.u * R.u)) * ((1 - (2 * R.u + R.u * R.u)) * (1 - R.u)) ^ (m.ndim - 1) * m.dV ≤ m.dVFl R.fl ∧
    m.dVFl R.fl ≤ (1 + (2 * R.u + R.u * R.u)) * ((1 + (2 * R.u + R.u * R.u)) * (1 + R.u)) ^ (m.ndim - 1) * m.dV := by
  have hu := R.u_nonneg
  have hu16 := R.u_small
  have hg1 : 2 * R.u + R.u * R.u ≤ 1 := by nlinarith
  have hnear : Near (2 * R.u + R.u * R.u) (tab m.ndim (m.cellAtFl R.fl)) (tab m.ndim m.cellAt) := by
    apply near_tab
    intro a ha
    have hn := hm.2.2 a ha
    have hr := hm.1.2.2.2.2.2 a ha
    have := cellAtFl_err R m a hn hr
    rw [abs_le] at this
    exact ⟨cell_pos m a hn hr, by linarith, by linarith⟩
  have hne : tab m.ndim m.cellAt ≠ [] := by
    intro e
    have := congrArg List.length e
    simp at this
    have := hm.1.1
    unfold Mesh.ndim Region.ndim at *
    omega
  have := prodFl_bounds R _ (by positivity) hg1 _ _ hnear hne
  simp only [tab_length] at this
  exact this

/-- **`Region.volume` of a float-cornered region as computed** (`np.prod` of the `d` rounded edge
lengths): within the factors `(1 ∓ u)^(2d−1)` of the exact volume, for every number of dimensions. -/
theorem volume_fl_err (R : Rounding) (r : Region) (hr : r.Inv) :
    (1 - R.u) * ((1 - R.u) * (1 - R.u)) ^ (r.ndim - 1) * r.volume ≤ r.volumeFl R.fl ∧
    r.volumeFl R.fl ≤ (1 + R.u) * ((1 + R.u) * (1 + R.u)) ^ (r.ndim - 1) * r.volume := by
  have hu := R.u_nonneg
  have hu1 : R.u ≤ 1 := le_trans R.u_small (by norm_num)
  have hnear : Near R.u (tab r.ndim fun a => R.fl (r.hi a - r.lo a)) (tab r.ndim r.edge) := by
    apply near_tab
    intro a ha
    have h := hr.2.2.2.2.2 a ha
    have hpos : 0 < r.hi a - r.lo a := by linarith
    obtain ⟨b1, b2⟩ := fl_bounds_nonneg R _ hpos.le
    exact ⟨hpos, b1, b2⟩
  have hne : tab r.ndim r.edge ≠ [] := by
    intro e
    have := congrArg List.length e
    simp at this
    have := hr.1
    unfold Region.ndim at *
    omega
  have := prodFl_bounds R _ hu hu1 _ _ hnear hne
  simp only [tab_length] at this
  exact this

/-- **The cells fill the volume, in rounded arithmetic**: `len(mesh)·dV_fl` and `volume_fl` are both
within explicit factors of the exact volume `len·dV = volume` (`volume_tiles`), for every `d`. -/
theorem volume_tiles_fl (R : Rounding) (m : Mesh) (hm : m.Inv) :
    (1 - (2 * R.u + R.u * R.u)) * ((1 - (2 * R.u + R.u * R.u)) * (1 - R.u)) ^ (m.ndim - 1) * m.region.volume
        ≤ (m.len : Rat) * m.dVFl R.fl ∧
    (m.len : Rat) * m.dVFl R.fl
        ≤ (1 + (2 * R.u + R.u * R.u)) * ((1 + (2 * R.u + R.u * R.u)) * (1 + R.u)) ^ (m.ndim - 1) * m.region.volume := by
  obtain ⟨h1, h2⟩ := dV_fl_err R m hm
  have hv := volume_tiles m hm
  have hL : (0 : Rat) ≤ (m.len : Rat) := Nat.cast_nonneg _
  rw [← hv]
  constructor
  · have := mul_le_mul_of_nonneg_left h1 hL
    linarith [this]
  · have := mul_le_mul_of_nonneg_left h2 hL
    linarith [this]

/-- binary64, up to four dimensions: computed cell volume within `12·2^-53` relative of the exact one -/
theorem dV_binary64 (m : Mesh) (hm : m.Inv) (hd : m.ndim ≤ 4) :
    |m.dVFl C15.fl64 - m.dV| ≤ 12 / 9007199254740992 * m.dV := by
  obtain ⟨h1, h2⟩ := dV_fl_err Rounding.binary64 m hm
  rw [binary64_fl, binary64_u] at h1 h2
  have hpos := (dV_pos m hm).1
  have hd1 : 1 ≤ m.ndim := hm.1.1
  have : m.ndim - 1 = 0 ∨ m.ndim - 1 = 1 ∨ m.ndim - 1 = 2 ∨ m.ndim - 1 = 3 := by omega
  rw [abs_le]
  rcases this with e | e | e | e <;> rw [e] at h1 h2 <;> norm_num at h1 h2 <;> constructor <;> nlinarith

/-- non-vacuity: on `[0, 1]` in three cells the computed cell volume is `fl(1/3) ≠ 1/3`; on the 4-d mesh
`exMesh4` (dyadic) computed and exact cell volume and region volume coincide -/
example : exThird.dVFl C15.fl64 = 6004799503160661/18014398509481984 ∧ exThird.dV = 1/3 ∧
    exMesh4.dVFl C15.fl64 = exMesh4.dV ∧ exMesh4.region.volumeFl C15.fl64 = exMesh4.region.volume ∧
    (exMesh4.len : Rat) * exMesh4.dV = 3 := by decide +kernel

end DFV.C01
