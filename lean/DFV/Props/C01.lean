import DFV.Lemmas.C01
import DFV.Lemmas.Rounding
import DFV.Model.C01
/-!
# C01 — mesh cells tile the region; index ↔ coordinate maps are mutually inverse

Property theorems only (helper lemmas live in `DFV/Lemmas`).  All statements are about
the executable model `DFV.Mesh` / `DFV.Region` of `DFV/Model/Basic.lean`, for every
number of dimensions, every region, every cell count, every index and every point.
-/
namespace DFV.C01
open DFV DFV.Mesh

/-- `n · cell = edge` on every axis: the cells cover the edge exactly. -/
theorem cells_cover_edges (m : Mesh) (a : Nat) (hn : 0 < m.nAt a) :
    (m.nAt a : Rat) * m.cellAt a = m.region.edge a := by
  unfold cellAt
  have : (m.nAt a : Rat) ≠ 0 := by exact_mod_cast (Nat.pos_iff_ne_zero.mp hn)
  field_simp

theorem cell_pos (m : Mesh) (a : Nat) (hn : 0 < m.nAt a) (hr : m.region.lo a < m.region.hi a) :
    0 < m.cellAt a := by
  unfold cellAt Region.edge
  have : (0 : Rat) < (m.nAt a : Rat) := by exact_mod_cast hn
  exact div_pos (by linarith) this

/-- The centre of cell `i` is `pmin + (i + ½)·cell` on every axis. -/
theorem centre_formula (m : Mesh) (idx : List Int) (p : List Rat) (h : m.index2point idx = .ok p)
    (a : Nat) (ha : a < m.ndim) :
    p.getD a 0 = m.region.lo a + ((idx.getD a 0 : Rat) + 1/2) * m.cellAt a := by
  unfold index2point at h
  split at h
  · cases h
  · split at h
    · cases h
    · injection h with h
      subst h
      rw [getD_tab _ _ _ _ ha]
      rfl

/-- index → centre → index is the identity on every axis (exact arithmetic). -/
theorem roundtrip_axis (m : Mesh) (a : Nat) (i : Nat) (hi : i < m.nAt a)
    (hr : m.region.lo a < m.region.hi a) :
    m.indexAx a (m.centreAx a (i : Int)) = i := by
  have hc := cell_pos m a (by omega) hr
  unfold indexAx centreAx
  have h : (m.region.lo a + (((i : Int) : Rat) + 1/2) * m.cellAt a - m.region.lo a) / m.cellAt a
      = ((i : Int) : Rat) + 1/2 := by
    field_simp
    ring
  rw [h]
  have hf : (((i : Int) : Rat) + 1/2).floor = (i : Int) := by
    apply rat_floor_eq <;> linarith
  rw [hf]
  unfold clipInt
  have h1 : ¬ ((i : Int) < 0) := by omega
  have h2 : ¬ ((m.nAt a : Int) - 1 < (i : Int)) := by omega
  simp [h1, h2]

/-- A point of the closed edge `[lo, hi]` is mapped to an in-range index whose cell
contains it: lower face inclusive; upper face exclusive except for the last cell. -/
theorem index_contains_axis (m : Mesh) (a : Nat) (x : Rat) (hn : 0 < m.nAt a)
    (hr : m.region.lo a < m.region.hi a) (hlo : m.region.lo a ≤ x) (hhi : x ≤ m.region.hi a) :
    m.indexAx a x < m.nAt a ∧
    m.region.lo a + (m.indexAx a x : Rat) * m.cellAt a ≤ x ∧
    (x < m.region.lo a + ((m.indexAx a x : Rat) + 1) * m.cellAt a ∨
      (m.indexAx a x = m.nAt a - 1 ∧ x = m.region.hi a)) := by
  have hc := cell_pos m a hn hr
  have hcov := cells_cover_edges m a hn
  unfold Region.edge at hcov
  set c := m.cellAt a with hcdef
  set q := (x - m.region.lo a) / c with hq
  have hq0 : 0 ≤ q := div_nonneg (by linarith) hc.le
  have hfl := rat_floor_le q
  have hfu := rat_lt_floor_add_one q
  have hf0 := rat_floor_nonneg q hq0
  have hxq : x = m.region.lo a + q * c := by rw [hq]; field_simp; ring
  have hqn : q ≤ (m.nAt a : Rat) := by
    rw [hq, div_le_iff₀ hc]; linarith
  have hfn : q.floor ≤ (m.nAt a : Int) := by
    have : (q.floor : Rat) ≤ (m.nAt a : Rat) := le_trans hfl hqn
    exact_mod_cast this
  unfold indexAx
  rw [← hcdef, ← hq]
  unfold clipInt
  have h1 : ¬ (q.floor < 0) := by omega
  simp only [h1, if_false]
  by_cases hlast : ((m.nAt a : Int) - 1 < q.floor)
  · -- floor = n: only possible for x = hi; clipped to n-1
    simp only [hlast, if_true]
    have hfeq : q.floor = (m.nAt a : Int) := by omega
    have hqe : q = (m.nAt a : Rat) := by
      have : ((m.nAt a : Int) : Rat) ≤ q := by rw [← hfeq]; exact hfl
      have h' : (m.nAt a : Rat) ≤ q := by exact_mod_cast this
      linarith
    have hxhi : x = m.region.hi a := by rw [hxq, hqe]; linarith
    have hcast : (((m.nAt a : Int) - 1).toNat : Rat) = (m.nAt a : Rat) - 1 := by
      have : ((m.nAt a : Int) - 1).toNat = m.nAt a - 1 := by omega
      rw [this]; push_cast [Nat.cast_sub (by omega : 1 ≤ m.nAt a)]; ring
    refine ⟨by omega, ?_, Or.inr ⟨by omega, hxhi⟩⟩
    rw [hcast, hxq, hqe]
    nlinarith
  · simp only [hlast, if_false]
    have hcast : ((q.floor.toNat : Nat) : Rat) = (q.floor : Rat) := by
      have : ((q.floor.toNat : Nat) : Int) = q.floor := Int.toNat_of_nonneg hf0
      exact_mod_cast this
    refine ⟨by omega, ?_, Or.inl ?_⟩
    · rw [hcast, hxq]; nlinarith
    · rw [hcast, hxq]; nlinarith

/-- Cells are disjoint: a coordinate lies in at most one half-open cell. -/
theorem cell_unique (lo c x : Rat) (hc : 0 < c) (j k : Nat)
    (hj : lo + (j : Rat) * c ≤ x ∧ x < lo + ((j : Rat) + 1) * c)
    (hk : lo + (k : Rat) * c ≤ x ∧ x < lo + ((k : Rat) + 1) * c) : j = k := by
  obtain ⟨hj1, hj2⟩ := hj
  obtain ⟨hk1, hk2⟩ := hk
  have h1 : (j : Rat) < (k : Rat) + 1 := by
    by_contra hcon
    rw [not_lt] at hcon
    have : ((k : Rat) + 1) * c ≤ (j : Rat) * c := mul_le_mul_of_nonneg_right hcon hc.le
    linarith
  have h2 : (k : Rat) < (j : Rat) + 1 := by
    by_contra hcon
    rw [not_lt] at hcon
    have : ((j : Rat) + 1) * c ≤ (k : Rat) * c := mul_le_mul_of_nonneg_right hcon hc.le
    linarith
  have h1' : j < k + 1 := by exact_mod_cast h1
  have h2' : k < j + 1 := by exact_mod_cast h2
  omega

/-- the centre of an in-range cell lies in the closed region -/
theorem centre_in_region_axis (m : Mesh) (a : Nat) (i : Nat) (hi : i < m.nAt a)
    (hr : m.region.lo a < m.region.hi a) :
    m.region.lo a ≤ m.centreAx a (i : Int) ∧ m.centreAx a (i : Int) ≤ m.region.hi a := by
  have hc := cell_pos m a (by omega) hr
  have hcov := cells_cover_edges m a (by omega)
  unfold Region.edge at hcov
  unfold centreAx
  have hiq : ((i : Int) : Rat) + 1 ≤ (m.nAt a : Rat) := by
    have : (i : Int) + 1 ≤ (m.nAt a : Int) := by omega
    exact_mod_cast this
  have h0 : (0 : Rat) ≤ ((i : Int) : Rat) := by exact_mod_cast (Int.natCast_nonneg i)
  constructor
  · nlinarith
  · nlinarith

/-- index → centre → index is the identity (list level, every dimension) -/
theorem roundtrip (m : Mesh) (hm : m.Inv) (i : List Nat) (hi : inRange m.n i = true) :
    m.point2index (m.centre i) = .ok i := by
  obtain ⟨hr, hn, hpos⟩ := hm
  have hlen : i.length = m.ndim := by
    have := inRange_length m.n i hi
    rw [this, hn]; rfl
  have hin : ∀ a, a < m.ndim → i.getD a 0 < m.nAt a := by
    intro a ha
    exact inRange_getD m.n i hi a (by rw [hn]; exact ha)
  have hlohi : ∀ a, a < m.ndim → m.region.lo a < m.region.hi a := fun a ha => hr.2.2.2.2.2 a ha
  unfold point2index
  have h1 : (m.centre i).length = m.ndim := by simp [centre]
  rw [if_neg (not_not.mpr h1)]
  have hcont : m.region.containsPt (m.centre i) = true := by
    unfold Region.containsPt
    have : decide ((m.centre i).length = m.region.ndim) = true := by
      have h1' : (m.centre i).length = m.region.ndim := h1
      simpa using h1'
    rw [this, Bool.true_and, allLt_iff]
    intro a ha
    have ha : a < m.ndim := ha
    have hg : (m.centre i).getD a 0 = m.centreAx a ((i.getD a 0 : Nat) : Int) := by
      unfold centre; rw [getD_tab _ _ _ _ ha]
    rw [hg]
    obtain ⟨c1, c2⟩ := centre_in_region_axis m a (i.getD a 0) (hin a ha) (hlohi a ha)
    exact containsAx_of_exact _ _ _ c1 c2
  rw [hcont]
  simp only [Bool.not_true, Bool.false_eq_true, if_false]
  congr 1
  symm
  apply eq_tab_of_getD i m.ndim _ 0 hlen
  intro a ha
  have hg : (m.centre i).getD a 0 = m.centreAx a ((i.getD a 0 : Nat) : Int) := by
    unfold centre; rw [getD_tab _ _ _ _ ha]
  rw [hg, roundtrip_axis m a (i.getD a 0) (hin a ha) (hlohi a ha)]

/-- the per-axis list of cell centres (`Mesh.cells`, built with linspace) is `pmin + (j+½)·cell` -/
theorem cells_eq_centres (m : Mesh) (a : Nat) (ha : a < m.ndim) (hn : 0 < m.nAt a) (j : Nat) (hj : j < m.nAt a) :
    ((m.cells).getD a []).getD j 0 = m.region.lo a + ((j : Rat) + 1/2) * m.cellAt a := by
  have hcov := cells_cover_edges m a hn
  unfold Region.edge at hcov
  unfold cells
  rw [getD_tab _ _ _ _ ha]
  unfold linspace
  by_cases h1 : m.nAt a = 1
  · have hj0 : j = 0 := by omega
    subst hj0
    rw [if_pos h1]
    simp
    ring
  · rw [if_neg h1, getD_tab _ _ _ _ hj]
    have hnq : (m.nAt a : Rat) - 1 ≠ 0 := by
      have : (2 : Rat) ≤ (m.nAt a : Rat) := by exact_mod_cast (by omega : 2 ≤ m.nAt a)
      intro h; linarith
    have hdiff : (m.region.hi a - m.cellAt a / 2 - (m.region.lo a + m.cellAt a / 2)) = ((m.nAt a : Rat) - 1) * m.cellAt a := by
      linarith
    rw [hdiff]
    field_simp
    ring

/-- the per-axis list of vertices (`Mesh.vertices`) is `pmin + j·cell`, `j = 0 … n` -/
theorem vertices_eq_faces (m : Mesh) (a : Nat) (ha : a < m.ndim) (hn : 0 < m.nAt a) (j : Nat) (hj : j ≤ m.nAt a) :
    ((m.vertices).getD a []).getD j 0 = m.region.lo a + (j : Rat) * m.cellAt a := by
  have hcov := cells_cover_edges m a hn
  unfold Region.edge at hcov
  unfold vertices
  rw [getD_tab _ _ _ _ ha]
  unfold linspace
  have h1 : ¬ (m.nAt a + 1 = 1) := by omega
  rw [if_neg h1, getD_tab _ _ _ _ (by omega)]
  have hnq : (m.nAt a : Rat) ≠ 0 := by exact_mod_cast (by omega : m.nAt a ≠ 0)
  push_cast
  have : (m.nAt a : Rat) + 1 - 1 = (m.nAt a : Rat) := by ring
  rw [this]
  have hd : m.region.hi a - m.region.lo a = (m.nAt a : Rat) * m.cellAt a := by linarith
  rw [hd]
  field_simp

/-- the constructor does not depend on the order in which the two corners are given -/
theorem corner_order (p1 p2 : List Rat) (d u : Option (List String)) (tol : Rat) :
    Region.mk? p1 p2 d u tol = Region.mk? p2 p1 d u tol := by
  unfold Region.mk?
  by_cases hl : p1.length = p2.length
  · have hl' : p2.length = p1.length := hl.symm
    rw [if_neg (not_not.mpr hl), if_neg (not_not.mpr hl')]
    rw [← hl]
    by_cases h0 : p1.length = 0
    · rw [if_pos h0, if_pos h0]
    · rw [if_neg h0, if_neg h0]
      have hsym : allLt p1.length (fun a => decide (p1.getD a 0 ≠ p2.getD a 0))
          = allLt p1.length (fun a => decide (p2.getD a 0 ≠ p1.getD a 0)) := by
        congr 1; funext a; simp [ne_comm]
      have hmin : (tab p1.length fun a => min (p1.getD a 0) (p2.getD a 0))
          = tab p1.length fun a => min (p2.getD a 0) (p1.getD a 0) :=
        tab_congr _ _ _ fun a _ => min_comm _ _
      have hmax : (tab p1.length fun a => max (p1.getD a 0) (p2.getD a 0))
          = tab p1.length fun a => max (p2.getD a 0) (p1.getD a 0) :=
        tab_congr _ _ _ fun a _ => max_comm _ _
      rw [hsym, hmin, hmax]
  · have hl' : ¬ p2.length = p1.length := fun h => hl h.symm
    rw [if_pos hl, if_pos hl']

/-- out-of-range or wrong-length indices are rejected -/
theorem index_rejected (m : Mesh) (idx : List Int)
    (h : idx.length ≠ m.ndim ∨ ∃ a, a < m.ndim ∧ (idx.getD a 0 < 0 ∨ (m.nAt a : Int) ≤ idx.getD a 0)) :
    m.index2point idx = .error .index := by
  unfold index2point
  by_cases hl : idx.length = m.ndim
  · rw [if_neg (not_not.mpr hl)]
    rcases h with h | ⟨a, ha, hb⟩
    · exact absurd hl h
    · have : allLt m.ndim (fun a => decide (0 ≤ idx.getD a 0) && decide (idx.getD a 0 < (m.nAt a : Int))) = false := by
        apply allLt_false_of _ _ a ha
        rcases hb with hb | hb
        · have : decide (0 ≤ idx.getD a 0) = false := by simpa using hb
          rw [this]; rfl
        · have : decide (idx.getD a 0 < (m.nAt a : Int)) = false := by simpa using hb
          rw [this, Bool.and_false]
      rw [this]; rfl
  · rw [if_pos hl]

/-- a point with a coordinate outside the tolerance band of `Region.__contains__` is rejected -/
theorem point_rejected (m : Mesh) (p : List Rat)
    (h : p.length ≠ m.ndim ∨ ∃ a, a < m.ndim ∧ m.region.containsAx a (p.getD a 0) = false) :
    m.point2index p = .error .value := by
  unfold point2index
  by_cases hl : p.length = m.ndim
  · rw [if_neg (not_not.mpr hl)]
    rcases h with h | ⟨a, ha, hb⟩
    · exact absurd hl h
    · have : m.region.containsPt p = false := by
        unfold Region.containsPt
        have : allLt m.region.ndim (fun a => m.region.containsAx a (p.getD a 0)) = false :=
          allLt_false_of _ _ a ha hb
        rw [this]; simp
      rw [this]; rfl
  · rw [if_pos hl]

/-- … and below the lower face, beyond the band `atol + rtol·|x|`, the axis test indeed fails -/
theorem containsAx_below (r : Region) (a : Nat) (x : Rat) (hx : x < r.lo a)
    (hband : r.atol + r.tol * absR x < r.lo a - x) : r.containsAx a x = false := by
  unfold Region.containsAx Region.isclose
  have h1 : ¬ (r.lo a ≤ x) := not_le.mpr hx
  have h2 : ¬ (absR (r.lo a - x) ≤ r.atol + r.tol * absR x) := by
    rw [absR_eq_abs, abs_of_pos (by linarith)]
    exact not_le.mpr hband
  simp [h1, h2]

/-- a point inside the tolerance band below the lower face is accepted by the axis test and
clipped into the first cell -/
theorem band_clipped_to_first (m : Mesh) (a : Nat) (x : Rat) (hn : 0 < m.nAt a)
    (hr : m.region.lo a < m.region.hi a) (hx : x < m.region.lo a) : m.indexAx a x = 0 := by
  have hc := cell_pos m a hn hr
  unfold indexAx
  have hq : (x - m.region.lo a) / m.cellAt a < 0 := div_neg_of_neg_of_pos (by linarith) hc
  have hf : ((x - m.region.lo a) / m.cellAt a).floor < 0 := by
    apply rat_floor_lt; simpa using hq
  unfold clipInt
  simp [hf]


/-- A mesh requested by cell size exists whenever every edge is exactly a whole number
(≥ 1) of cells; its counts are those whole numbers, so `n · cell = edges` exactly. -/
theorem by_cell_exact (r : Region) (cell : List Rat) (k : Nat → Nat)
    (hlen : cell.length = r.ndim) (hpos : ∀ c ∈ cell, 0 < c)
    (hk : ∀ a, a < r.ndim → 0 < k a ∧ r.edge a = (k a : Rat) * cell.getD a 0)
    (bc : String) (hbc : bcOk r.dims bc.toLower = true) :
    Mesh.mkCell? r cell bc = .ok { region := r, n := tab r.ndim k, bc := bc.toLower, subs := [] } := by
  have hc : ∀ a, a < r.ndim → 0 < cell.getD a 0 := by
    intro a ha
    have : cell.getD a 0 = cell[a]'(by rw [hlen]; exact ha) := by
      simp [List.getD_eq_getElem?_getD, List.getElem?_eq_getElem (by rw [hlen]; exact ha : a < cell.length)]
    rw [this]; exact hpos _ (List.getElem_mem _)
  unfold Mesh.mkCell?
  rw [if_neg (not_not.mpr hlen)]
  have h1 : cell.any (fun c => decide (c ≤ 0)) = false := by
    rw [List.any_eq_false]; intro c hcm; have := hpos c hcm; simp; exact this
  rw [h1]
  simp only [Bool.false_eq_true, if_false]
  have h2 : r.containsPt (tab r.ndim fun a => r.lo a + cell.getD a 0) = true := by
    unfold Region.containsPt
    simp only [tab_length, decide_true, Bool.true_and]
    rw [allLt_iff]; intro a ha
    rw [getD_tab _ _ _ _ ha]
    obtain ⟨hk0, hke⟩ := hk a ha
    have hca := hc a ha
    have e1 : r.lo a ≤ r.lo a + cell.getD a 0 := by linarith
    have e2 : r.lo a + cell.getD a 0 ≤ r.hi a := by
      unfold Region.edge at hke
      have : (1 : Rat) ≤ (k a : Rat) := by exact_mod_cast hk0
      nlinarith
    exact containsAx_of_exact _ _ _ e1 e2
  rw [h2]
  simp only [Bool.not_true, Bool.false_eq_true, if_false]
  have h3 : allLt r.ndim (fun a => !notDivisible (r.edge a) (cell.getD a 0) (listMin cell / 1000)) = true := by
    rw [allLt_iff]; intro a ha
    obtain ⟨_, hke⟩ := hk a ha
    unfold notDivisible
    have : remainder (r.edge a) (cell.getD a 0) = 0 := by
      rw [hke]
      have := DFV.C14.remainder_of_multiple (k a : Int) (cell.getD a 0) (hc a ha)
      simpa using this
    rw [this]
    have hn : ¬ (listMin cell / 1000 < 0) := by
      have := listMin_nonneg cell hpos
      intro h; have : listMin cell < 0 := by linarith
      linarith
    simp [hn]
  rw [h3]
  simp only [Bool.not_true, Bool.false_eq_true, if_false]
  have h3b : allLt r.ndim (fun a => decide (1 ≤ (roundHalfEven (r.edge a / cell.getD a 0)).toNat)) = true := by
    rw [allLt_iff]; intro a ha
    obtain ⟨hk0, hke⟩ := hk a ha
    have hca := hc a ha
    have : r.edge a / cell.getD a 0 = ((k a : Int) : Rat) := by
      rw [hke]; field_simp; simp
    rw [this, roundHalfEven_int]
    simp only [Int.toNat_natCast, decide_eq_true_eq]
    omega
  rw [h3b]
  simp only [Bool.not_true, Bool.false_eq_true, if_false]
  rw [hbc]
  simp only [Bool.not_true, Bool.false_eq_true, if_false]
  have h5 : (tab r.ndim fun a => (roundHalfEven (r.edge a / cell.getD a 0)).toNat) = tab r.ndim k := by
    apply tab_congr; intro a ha
    obtain ⟨_, hke⟩ := hk a ha
    have hca := hc a ha
    have : r.edge a / cell.getD a 0 = ((k a : Int) : Rat) := by
      rw [hke]; field_simp; simp
    rw [this, roundHalfEven_int]; simp
  rw [h5]

/-- … and it is refused when some edge is clearly not a whole number of cells (remainder
strictly inside the 0.1 % band on both sides) -/
theorem by_cell_rejects (r : Region) (cell : List Rat) (a : Nat) (ha : a < r.ndim)
    (h : listMin cell / 1000 < remainder (r.edge a) (cell.getD a 0) ∧
         remainder (r.edge a) (cell.getD a 0) < cell.getD a 0 - listMin cell / 1000)
    (bc : String) : ∃ e, Mesh.mkCell? r cell bc = .error e := by
  unfold Mesh.mkCell?
  split
  · exact ⟨_, rfl⟩
  · split
    · exact ⟨_, rfl⟩
    · split
      · exact ⟨_, rfl⟩
      · have : allLt r.ndim (fun a => !notDivisible (r.edge a) (cell.getD a 0) (listMin cell / 1000)) = false := by
          apply allLt_false_of _ _ a ha
          unfold notDivisible
          have e1 : decide (listMin cell / 1000 < remainder (r.edge a) (cell.getD a 0)) = true := by
            simpa using h.1
          have e2 : decide (remainder (r.edge a) (cell.getD a 0) < cell.getD a 0 - listMin cell / 1000) = true := by
            simpa using h.2
          rw [e1, e2]; rfl
        rw [this]
        exact ⟨_, rfl⟩


/-- `Mesh.indices` enumerates every cell exactly once, first dimension fastest: it is the
list `unflatF n 0, unflatF n 1, …, unflatF n (Π n − 1)` (so cell `k` of the iteration has
first-index-fastest flat index `k`, and its length is the cell count). -/
theorem indices_refines (ns : List Nat) : indicesCode ns = indicesF ns := indicesCode_eq_indicesF ns

theorem indices_length (ns : List Nat) : (indicesCode ns).length = natProd ns := by
  rw [indices_refines]; simp [indicesF]

/-- entry `k` of the iteration is the multi-index whose first-index-fastest flat index is `k` -/
theorem indices_entry (ns : List Nat) (k : Nat) (hk : k < natProd ns) :
    flatF ns ((indicesCode ns).getD k []) = k := by
  rw [indices_refines]
  unfold indicesF
  rw [List.getD_eq_getElem?_getD, List.getElem?_map, List.getElem?_range hk]
  simp only [Option.map_some, Option.getD_some]
  exact flatF_unflatF ns k hk

/-- **A mesh requested by cell size exists only when every edge is a whole number of cells**
(up to the 0.1 % tolerance of the constructor): if the constructor succeeds, the cell count of
every axis is a whole number `n_a ≥ 1` with `|edge_a − n_a·cell_a| ≤ min(cell)/1000`.  Together
with `by_cell_exact` (exact whole numbers are accepted) and `by_cell_rejects` (remainders clearly
inside the band are refused) this is the "exists exactly when" clause.  The positivity half was
false of the code before repo fix 5c501c0e (finding D101). -/
theorem by_cell_ok_near (r : Region) (hr : r.Inv) (cell : List Rat) (bc : String) (m : Mesh)
    (h : Mesh.mkCell? r cell bc = .ok m) (a : Nat) (ha : a < r.ndim) :
    m.region = r ∧ 1 ≤ m.nAt a ∧ |r.edge a - (m.nAt a : Rat) * cell.getD a 0| ≤ listMin cell / 1000 := by
  unfold Mesh.mkCell? at h
  split at h
  · cases h
  next hlen =>
  split at h
  · cases h
  next hany =>
  split at h
  · cases h
  next hcont =>
  split at h
  · cases h
  next hdiv =>
  split at h
  · cases h
  next hcnt =>
  split at h
  · cases h
  next hbc =>
  injection h with h
  subst h
  have hlen : cell.length = r.ndim := not_not.mp hlen
  have hposall : ∀ c ∈ cell, 0 < c := by
    intro c hc
    have h1 : cell.any (fun c => decide (c ≤ 0)) = false := by simpa using hany
    have := List.any_eq_false.mp h1 c hc
    simpa using this
  have hmem : cell.getD a 0 ∈ cell := by
    have hlt : a < cell.length := by rw [hlen]; exact ha
    rw [List.getD_eq_getElem?_getD, List.getElem?_eq_getElem hlt]
    exact List.getElem_mem _
  have hc : 0 < cell.getD a 0 := hposall _ hmem
  have ht0 : 0 ≤ listMin cell / 1000 := by
    have := listMin_nonneg cell hposall; linarith
  have htc : listMin cell / 1000 < cell.getD a 0 / 2 := by
    have := listMin_le_mem cell _ hmem; linarith
  have hd : notDivisible (r.edge a) (cell.getD a 0) (listMin cell / 1000) = false := by
    have h1 : allLt r.ndim (fun a => !notDivisible (r.edge a) (cell.getD a 0) (listMin cell / 1000)) = true := by
      simpa using hdiv
    have := (allLt_iff _ _).mp h1 a ha
    simpa using this
  have hnear := round_near _ _ _ hc ht0 htc hd
  have he : 0 < r.edge a := by
    unfold Region.edge; have := hr.2.2.2.2.2 a ha; linarith
  have hq : 0 ≤ r.edge a / cell.getD a 0 := (div_pos he hc).le
  have hrn := roundHalfEven_nonneg _ hq
  have hnat : Mesh.nAt (Mesh.mk r (tab r.ndim (fun a => (roundHalfEven (r.edge a / cell.getD a 0)).toNat)) bc.toLower []) a
      = (roundHalfEven (r.edge a / cell.getD a 0)).toNat := by
    unfold Mesh.nAt; simp only; rw [getD_tab _ _ _ _ ha]
  have hcast : (((roundHalfEven (r.edge a / cell.getD a 0)).toNat : Nat) : Rat)
      = ((roundHalfEven (r.edge a / cell.getD a 0) : Int) : Rat) := by
    have : (((roundHalfEven (r.edge a / cell.getD a 0)).toNat : Nat) : Int) = roundHalfEven (r.edge a / cell.getD a 0) :=
      Int.toNat_of_nonneg hrn
    exact_mod_cast this
  have hone : 1 ≤ (roundHalfEven (r.edge a / cell.getD a 0)).toNat := by
    have h1 : allLt r.ndim (fun a => decide (1 ≤ (roundHalfEven (r.edge a / cell.getD a 0)).toNat)) = true := by
      simpa using hcnt
    have := (allLt_iff _ _).mp h1 a ha
    simpa using this
  refine ⟨rfl, ?_, ?_⟩
  · rw [hnat]; exact hone
  · rw [hnat, hcast]; exact hnear

/-- the far-offset witness of D101 is refused by the model as by the repaired code -/
example : (Mesh.mkCell? (Region.mk [1000000000000000] [1000000000000001] ["x"] ["m"] (1/1000000000000)) [1000]).toOption
    = none := by decide +kernel


/-! ## round 3: list-level tiling, iteration, coordinate field, volume -/

/-- the half-open cell `i` of the lattice, last cell closed (spec of "the cell contains the point") -/
def inCell (m : Mesh) (i : List Nat) (p : List Rat) : Prop :=
  ∀ a, a < m.ndim →
    m.region.lo a + (i.getD a 0 : Rat) * m.cellAt a ≤ p.getD a 0 ∧
    (p.getD a 0 < m.region.lo a + ((i.getD a 0 : Rat) + 1) * m.cellAt a ∨
      (i.getD a 0 = m.nAt a - 1 ∧ p.getD a 0 = m.region.hi a))

/-- **Any point of the region maps to an in-range index whose cell contains the point**
(every dimension; lower faces inclusive, the last cell also upper-inclusive). -/
theorem point_index_contains (m : Mesh) (hm : m.Inv) (p : List Rat) (hp : m.region.containsExact p) :
    ∃ i, m.point2index p = .ok i ∧ inRange m.n i = true ∧ inCell m i p := by
  obtain ⟨hr, hn, hpos⟩ := hm
  have hlohi : ∀ a, a < m.ndim → m.region.lo a < m.region.hi a := fun a ha => hr.2.2.2.2.2 a ha
  refine ⟨tab m.ndim fun a => m.indexAx a (p.getD a 0), ?_, ?_, ?_⟩
  · unfold point2index
    have h1 : p.length = m.ndim := hp.1
    rw [if_neg (not_not.mpr h1), containsPt_of_exact _ _ hp]
    simp
  · apply inRange_of_getD
    · rw [tab_length, hn]; rfl
    · intro a ha
      have ha' : a < m.ndim := by rw [hn] at ha; exact ha
      rw [getD_tab _ _ _ _ ha']
      exact (index_contains_axis m a _ (hpos a ha') (hlohi a ha') (hp.2 a ha').1 (hp.2 a ha').2).1
  · intro a ha
    rw [getD_tab _ _ _ _ ha]
    exact (index_contains_axis m a _ (hpos a ha) (hlohi a ha) (hp.2 a ha).1 (hp.2 a ha).2).2

/-- **The cells cover the region exactly once**: every point of the half-open box
`[pmin, pmax)` lies in exactly one half-open cell `[pmin + i·cell, pmin + (i+1)·cell)`. -/
theorem cover_exactly_once (m : Mesh) (hm : m.Inv) (p : List Rat) (hl : p.length = m.ndim)
    (hp : ∀ a, a < m.ndim → m.region.lo a ≤ p.getD a 0 ∧ p.getD a 0 < m.region.hi a) :
    ∃ i, (inRange m.n i = true ∧ ∀ a, a < m.ndim →
            m.region.lo a + (i.getD a 0 : Rat) * m.cellAt a ≤ p.getD a 0 ∧
            p.getD a 0 < m.region.lo a + ((i.getD a 0 : Rat) + 1) * m.cellAt a) ∧
      ∀ j, (inRange m.n j = true ∧ ∀ a, a < m.ndim →
            m.region.lo a + (j.getD a 0 : Rat) * m.cellAt a ≤ p.getD a 0 ∧
            p.getD a 0 < m.region.lo a + ((j.getD a 0 : Rat) + 1) * m.cellAt a) → j = i := by
  have hm' := hm
  obtain ⟨hr, hn, hpos⟩ := hm
  have hlohi : ∀ a, a < m.ndim → m.region.lo a < m.region.hi a := fun a ha => hr.2.2.2.2.2 a ha
  obtain ⟨i, _, hir, hic⟩ := point_index_contains m hm' p ⟨hl, fun a ha => ⟨(hp a ha).1, (hp a ha).2.le⟩⟩
  have hcell : ∀ a, a < m.ndim →
      m.region.lo a + (i.getD a 0 : Rat) * m.cellAt a ≤ p.getD a 0 ∧
      p.getD a 0 < m.region.lo a + ((i.getD a 0 : Rat) + 1) * m.cellAt a := by
    intro a ha
    refine ⟨(hic a ha).1, ?_⟩
    rcases (hic a ha).2 with h | ⟨_, h⟩
    · exact h
    · exact absurd h (ne_of_lt (hp a ha).2)
  refine ⟨i, ⟨hir, hcell⟩, ?_⟩
  intro j ⟨hjr, hjc⟩
  apply list_eq_of_getD j i 0
  · rw [inRange_length _ _ hjr, inRange_length _ _ hir]
  · intro a ha
    have ha' : a < m.ndim := by rw [inRange_length _ _ hjr, hn] at ha; exact ha
    exact cell_unique (m.region.lo a) (m.cellAt a) (p.getD a 0) (cell_pos m a (hpos a ha') (hlohi a ha')) _ _
      (hjc a ha') (hcell a ha')

/-- distinct cells have distinct centres -/
theorem centre_injective (m : Mesh) (hm : m.Inv) (i j : List Nat) (hi : inRange m.n i = true)
    (hj : inRange m.n j = true) (h : m.centre i = m.centre j) : i = j := by
  have h1 := roundtrip m hm i hi
  have h2 := roundtrip m hm j hj
  rw [h] at h1
  rw [h1] at h2
  injection h2

/-- `index2point` of an in-range index is the centre used by the spec layer -/
theorem index2point_centre (m : Mesh) (hm : m.Inv) (i : List Nat) (hi : inRange m.n i = true) :
    m.index2point (i.map Int.ofNat) = .ok (m.centre i) := by
  obtain ⟨hr, hn, hpos⟩ := hm
  have hlen : i.length = m.ndim := by rw [inRange_length m.n i hi, hn]; rfl
  have hg : ∀ a, a < m.ndim → (i.map Int.ofNat).getD a 0 = ((i.getD a 0 : Nat) : Int) := by
    intro a ha
    have : a < i.length := by rw [hlen]; exact ha
    simp [List.getD_eq_getElem?_getD, List.getElem?_map, List.getElem?_eq_getElem this]
  unfold index2point
  rw [if_neg (by simp [hlen])]
  have : allLt m.ndim (fun a => decide (0 ≤ (i.map Int.ofNat).getD a 0) && decide ((i.map Int.ofNat).getD a 0 < (m.nAt a : Int))) = true := by
    rw [allLt_iff]; intro a ha
    rw [hg a ha]
    have := inRange_getD m.n i hi a (by rw [hn]; exact ha)
    have h2 : ((i.getD a 0 : Nat) : Int) < (m.nAt a : Int) := by exact_mod_cast this
    have h1 : (0 : Int) ≤ ((i.getD a 0 : Nat) : Int) := Int.natCast_nonneg _
    rw [decide_eq_true h1, decide_eq_true h2]; rfl
  rw [this]
  simp only [Bool.not_true, Bool.false_eq_true, if_false]
  congr 1
  unfold centre
  apply tab_congr; intro a ha
  rw [hg a ha]

/-- `Mesh.__iter__` yields the cell centres in first-dimension-fastest order: the `k`-th point
is the centre of the cell whose flat index is `k`, and there are `len(mesh) = Π n` of them. -/
theorem iter_refines (m : Mesh) : m.iter = (List.range m.len).map fun k => m.centre (unflatF m.n k) := by
  unfold iter len
  rw [indices_refines]
  simp [indicesF, List.map_map, Function.comp_def]

theorem iter_length (m : Mesh) : m.iter.length = m.len := by
  rw [iter_refines]; simp

/-- per-axis lists have `n` centres and `n + 1` vertices -/
theorem cells_vertices_length (m : Mesh) (a : Nat) (ha : a < m.ndim) :
    (m.cells.getD a []).length = m.nAt a ∧ (m.vertices.getD a []).length = m.nAt a + 1 := by
  unfold cells vertices
  rw [getD_tab _ _ _ _ ha, getD_tab _ _ _ _ ha]
  unfold linspace
  constructor
  · split
    · next h => simp [h]
    · simp
  · split
    · next h => simp [h]
    · simp

/-- every centre is the midpoint of its two neighbouring vertices, and consecutive vertices are
one cell apart: centres, vertices and `cell` describe one lattice -/
theorem centre_between_vertices (m : Mesh) (a : Nat) (ha : a < m.ndim) (hn : 0 < m.nAt a) (j : Nat) (hj : j < m.nAt a) :
    (m.cells.getD a []).getD j 0 = ((m.vertices.getD a []).getD j 0 + (m.vertices.getD a []).getD (j + 1) 0) / 2 ∧
    (m.vertices.getD a []).getD (j + 1) 0 - (m.vertices.getD a []).getD j 0 = m.cellAt a := by
  rw [cells_eq_centres m a ha hn j hj, vertices_eq_faces m a ha hn j (by omega),
    vertices_eq_faces m a ha hn (j + 1) (by omega)]
  push_cast
  constructor <;> ring

/-- **The coordinate field describes the same lattice**: its value in cell `idx` is the centre
of cell `idx` (`pmin + (idx + ½)·cell`), for every in-range index. -/
theorem coord_field_centre (m : Mesh) (hm : m.Inv) (idx : List Nat) (hi : inRange m.n idx = true) :
    m.coordField idx = m.centre idx := by
  obtain ⟨hr, hn, hpos⟩ := hm
  unfold coordField centre
  apply tab_congr; intro a ha
  have hlt : idx.getD a 0 < m.nAt a := inRange_getD m.n idx hi a (by rw [hn]; exact ha)
  rw [cells_eq_centres m a ha (hpos a ha) _ hlt]
  unfold centreAx
  push_cast
  ring

/-- **The cells fill the region's volume exactly**: `len(mesh) · dV = volume(region)`. -/
theorem volume_tiles (m : Mesh) (hm : m.Inv) : (m.len : Rat) * m.dV = m.region.volume := by
  obtain ⟨hr, hn, hpos⟩ := hm
  have hnt : m.n = tab m.ndim m.nAt := eq_tab_of_getD m.n m.ndim m.nAt 0 hn (fun _ _ => rfl)
  unfold len dV Region.volume cell Region.edges
  rw [natProd_cast]
  conv_lhs => rw [hnt]
  unfold tab
  rw [List.map_map, ratProd_map_mul]
  congr 1
  apply List.map_congr_left
  intro a ha
  exact cells_cover_edges m a (hpos a (List.mem_range.mp ha))

/-! non-vacuity: a concrete anisotropic 2-d mesh ([-1, 2] × [0, 1/2], n = (3, 2), cells 1 × 1/4)
meets `Inv`; the point (7/4, 1/2) lies on the closed upper face and is found in the last cell -/
def exMesh : Mesh :=
  { region := { pmin := [-1, 0], pmax := [2, 1/2], dims := ["x", "y"], units := ["m", "m"], tol := 1/1000000000000 },
    n := [3, 2], bc := "", subs := [] }

example : exMesh.Inv := mesh_inv_of_invB _ (by decide +kernel)
example : exMesh.point2index [7/4, 1/2] = .ok [2, 1] := by decide +kernel
example : exMesh.region.containsExact [7/4, 1/2] := by
  refine ⟨rfl, ?_⟩
  intro a ha
  have : a = 0 ∨ a = 1 := by
    have : a < 2 := ha
    omega
  rcases this with rfl | rfl <;> decide +kernel
example : exMesh.coordField [2, 1] = [3/2, 3/8] ∧ exMesh.centre [2, 1] = [3/2, 3/8] := by decide +kernel
example : (exMesh.len : Rat) * exMesh.dV = 3/2 ∧ exMesh.region.volume = 3/2 := by decide +kernel

/-! ## rounded arithmetic (section 4 of DESIGN.md) -/

/-- Round trip under rounding: if `10·u·(|pmin|/c + i + ½) < 1` then the computed quotient of the
computed centre of cell `i` still floors to `i`.  (For binary64, `u = 2^-53`, this covers cells up
to ~10^14 cells away from the origin; beyond that the real code indeed loses the round trip.) -/
theorem roundtrip_fl (R : Rounding) (pmin c : Rat) (hc : 0 < c) (i : Nat)
    (hsmall : 10 * R.u * (|pmin| / c + ((i : Rat) + 1/2)) < 1) :
    (quotFl R pmin c (centreFl R pmin c i)).floor = (i : Int) := by
  have hi0 : (0:Rat) ≤ (i : Rat) := Nat.cast_nonneg i
  have key := fl_core R.u ((i : Rat) + 1/2) (|pmin| / c) c (R.fl (((i : Rat) + 1/2) * c))
    (centreFl R pmin c i) (R.fl (centreFl R pmin c i - pmin)) (quotFl R pmin c (centreFl R pmin c i)) pmin
    hc R.u_nonneg R.u_small (by linarith) (div_nonneg (abs_nonneg _) hc.le) (by field_simp)
    (R.err _) (R.err _) (R.err _) (R.err _) hsmall
  rw [abs_lt] at key
  apply rat_floor_eq
  · push_cast; linarith
  · push_cast; linarith

/-- the hypotheses are satisfiable: exact arithmetic is a rounding with `u = 0` … -/
def Rounding.exact : Rounding := ⟨id, 0, le_refl _, by norm_num, by intro x; simp⟩

/-- … and then the theorem gives the exact round trip for every cell of every mesh -/
example (pmin c : Rat) (hc : 0 < c) (i : Nat) :
    (quotFl Rounding.exact pmin c (centreFl Rounding.exact pmin c i)).floor = (i : Int) :=
  roundtrip_fl Rounding.exact pmin c hc i (by simp [Rounding.exact])

/-- **Where rounding decides the floor.**  The index computed in rounded arithmetic,
`⌊fl(fl(x − pmin)/c)⌋`, equals the exact index `k` of the cell that contains `x` whenever `x` is
at least `3u·|q|` cells (`q = (x − pmin)/c`) away from both faces of that cell; closer to a face
the computed index may be the neighbour's - this is the band the boundary comparator of the
correspondence check grants. -/
theorem point2index_fl (R : Rounding) (pmin c x : Rat) (hc : 0 < c) (k : Int)
    (hlo : (k : Rat) + 3 * R.u * |(x - pmin) / c| ≤ (x - pmin) / c)
    (hhi : (x - pmin) / c + 3 * R.u * |(x - pmin) / c| < (k : Rat) + 1) :
    (quotFl R pmin c x).floor = k := by
  have h := quot_err R (x - pmin) c hc
  unfold quotFl
  rw [abs_le] at h
  apply rat_floor_eq <;> linarith

/-- … and in any case the computed index is off by at most one cell when `3u·|q| < 1` -/
theorem point2index_fl_near (R : Rounding) (pmin c x : Rat) (hc : 0 < c)
    (hs : 3 * R.u * |(x - pmin) / c| < 1) :
    ((x - pmin) / c).floor - 1 ≤ (quotFl R pmin c x).floor ∧
    (quotFl R pmin c x).floor ≤ ((x - pmin) / c).floor + 1 := by
  have h := quot_err R (x - pmin) c hc
  unfold quotFl
  rw [abs_le] at h
  set q := (x - pmin) / c
  set q' := R.fl (R.fl (x - pmin) / c)
  have a1 := rat_floor_le q
  have a2 := rat_lt_floor_add_one q
  have b1 := rat_floor_le q'
  have b2 := rat_lt_floor_add_one q'
  constructor
  · have : ((q.floor - 1 : Int) : Rat) < (q'.floor : Rat) + 1 := by push_cast; linarith
    have : q.floor - 1 < q'.floor + 1 := by exact_mod_cast this
    omega
  · have : (q'.floor : Rat) < ((q.floor + 1 : Int) : Rat) + 1 := by push_cast; linarith
    have : q'.floor < q.floor + 1 + 1 := by exact_mod_cast this
    omega

example (pmin c x : Rat) (hc : 0 < c) (k : Int) (h1 : (k : Rat) ≤ (x - pmin) / c) (h2 : (x - pmin) / c < (k : Rat) + 1) :
    (quotFl Rounding.exact pmin c x).floor = k :=
  point2index_fl Rounding.exact pmin c x hc k (by simpa [Rounding.exact] using h1) (by simpa [Rounding.exact] using h2)


end DFV.C01
