import DFV.Lemmas.C16Examples
import DFV.Lemmas.C16Text
/-!
# C16 — VTK output puts each value in the grid cell a VTK reader finds at that position

Property theorems about the model of `Field.to_vtk`, `_to_vtk`, `_from_vtk`,
`_from_vtk_legacy` and the subregion side-car (`DFV/Model/C16.lean`).  Helper lemmas live in
`DFV/Lemmas/C16*.lean`.  Everything is for all shapes, all regions, all values, all masks,
all labels that meet the stated hypotheses, all probe points.

`WF f nx ny nz` is "a 3-d field as the constructor leaves it" (mesh invariant, array and mask
of the mesh's shape, labels present, distinct and different from the fixed array names
`norm` / `field` / `valid` when the field has more than one component).
-/
namespace DFV.C16
open DFV DFV.Mesh

/-! ## flattening order -/

/-- **Key index fact, every rank and shape.**  Reversing all axes and flattening in C order
(last index fastest) is the first-index-fastest (Fortran) flattening:
`flatC (reversed shape) (reversed index) = i₀ + n₀·(i₁ + n₁·(i₂ + …))`. -/
theorem flatten_reversed_axes (ns is : List Nat) (hl : is.length = ns.length) :
    flatC ns.reverse is.reverse = flatF ns is :=
  flatC_reverse ns is hl

/-- The same with a trailing component axis of length `m` that keeps its place (the
`(2,1,0,3)` transpose followed by `reshape(-1, nvdim)`): tuple `flatF ns is`, component `c`. -/
theorem flatten_reversed_axes_comp (ns is : List Nat) (m c : Nat) (hl : is.length = ns.length) :
    flatC (ns.reverse ++ [m]) (is.reverse ++ [c]) = flatF ns is * m + c :=
  flatC_reverse_comp ns is m c hl

/-- Inverse direction, every rank and shape: position `k` of the C-order flattening of the
axis-reversed array holds the entry whose first-index-fastest multi-index is `unflatF ns k`. -/
theorem unflatten_reversed_axes (ns : List Nat) (k : Nat) (hk : k < natProd ns) :
    unflatC ns.reverse k = (unflatF ns k).reverse :=
  unflatC_reverse ns k hk

/-- `a.transpose((2,1,0)).reshape(-1)` (code-shaped: NumPy transpose + C-order flattening)
lists a 3-d array in VTK's structured-cell order: entry `t` is `a[unflatF n t]`. -/
theorem vtk_flat_order {α} (a : NDA α) (nx ny nz : Nat) (hs : a.shape = [nx, ny, nz]) :
    flat3 a = tab (natProd [nx, ny, nz]) fun t => a.get (unflatF [nx, ny, nz] t) :=
  flat3_eq a nx ny nz hs

/-- `a.transpose((2,1,0,3)).reshape(-1, nv)`: tuple `t` is cell `unflatF n t`, component `c`
of it at flat position `t·nv + c`. -/
theorem vtk_flat_order_comp {α} (a : NDA α) (nx ny nz nv : Nat) (hs : a.shape = [nx, ny, nz, nv]) :
    flat4 a = tab (natProd [nx, ny, nz] * nv) fun q => a.get (unflatF [nx, ny, nz] (q / nv) ++ [q % nv]) :=
  flat4_eq a nx ny nz nv hs

/-- VTK's structured cell id `i + nx·(j + ny·k)` of a grid with `n + 1` points per axis is the
first-index-fastest flat index of `(i, j, k)`. -/
theorem cell_id_is_flatF (nx ny nz i j k : Nat) :
    cellId [nx + 1, ny + 1, nz + 1] i j k = flatF [nx, ny, nz] [i, j, k] :=
  cellId_eq_flatF nx ny nz i j k

/-! ## the grid -/

/-- Only 3-d fields are converted. -/
theorem vtk_3d_only (f : Fld) (h : f.mesh.region.ndim ≠ 3) : toVtk f = .error .runtime := by
  unfold toVtk; rw [if_pos h]

/-- A field with more than one component needs labels. -/
theorem vtk_needs_labels (f : Fld) (h3 : f.mesh.region.ndim = 3) (hnv : 1 < f.nvdim) (hv : f.vdims = none) :
    toVtk f = .error .value := by
  unfold toVtk; rw [if_neg (not_not.mpr h3), if_pos ⟨hnv, hv⟩]

/-- A well-formed 3-d field is converted; the grid has `n + 1` points per axis and the arrays
`norm`, one scalar per label (none for a scalar field), `field`, `valid`, in this order. -/
theorem vtk_grid (f : Fld) (nx ny nz : Nat) (h : WF f nx ny nz) :
    ∃ g, toVtk f = .ok g ∧ g.dims = [nx + 1, ny + 1, nz + 1] ∧
      g.cell.map (fun a => a.name) = "norm" :: ((if 1 < f.nvdim then f.vdims.getD [] else []) ++ ["field", "valid"]) := by
  refine ⟨_, toVtk_ok f nx ny nz h, rfl, ?_⟩
  simp only [List.map_cons, List.map_append, List.map_nil]
  congr 1
  congr 1
  unfold comps
  split
  · rw [List.map_map]
    have : ((fun a : VArr => a.name) ∘ compVArr f (f.vdims.getD [])) = id := by funext l; rfl
    rw [this]; simp
  · rfl

/-- The coordinate arrays of the grid are the mesh vertices: `n + 1` values per axis,
`pmin + j·cell`, `j = 0 … n`. -/
theorem grid_coordinates (f : Fld) (nx ny nz : Nat) (h : WF f nx ny nz) (g : Grid) (hg : toVtk f = .ok g)
    (a : Nat) (ha : a < 3) :
    (g.ax a).length = f.mesh.nAt a + 1 ∧
    ∀ j, j ≤ f.mesh.nAt a → (g.ax a).getD j 0 = f.mesh.region.lo a + (j : Rat) * f.mesh.cellAt a := by
  obtain ⟨hnd, _, _, hax, _⟩ := mesh_axes f nx ny nz h
  rw [toVtk_ok f nx ny nz h] at hg
  injection hg with hg
  subst hg
  simp only [Grid.ax]
  rw [getD_tab _ _ _ _ ha]
  exact ⟨vertices_length f.mesh a (by omega),
    fun j hj => C01.vertices_eq_faces f.mesh a (by omega) (hax a ha).1 j hj⟩

/-! ## cell lookup -/

/-- Soundness of the lookup contract on any grid: the located cell's box contains the point
(lower faces inclusive; the upper face only for the last cell of an axis). -/
theorem locate_sound (g : Grid) (p : List Rat) (id : Nat) (h : locate g p = some id) :
    ∃ i j k, id = cellId g.dims i j k ∧
      (g.ax 0).getD i 0 ≤ p.getD 0 0 ∧ p.getD 0 0 ≤ (g.ax 0).getD (i + 1) 0 ∧
      (g.ax 1).getD j 0 ≤ p.getD 1 0 ∧ p.getD 1 0 ≤ (g.ax 1).getD (j + 1) 0 ∧
      (g.ax 2).getD k 0 ≤ p.getD 2 0 ∧ p.getD 2 0 ≤ (g.ax 2).getD (k + 1) 0 := by
  unfold locate at h
  split at h
  · rename_i i j k hi hj hk
    injection h with h
    obtain ⟨_, a1, a2, _⟩ := findInterval_sound _ _ _ hi
    obtain ⟨_, b1, b2, _⟩ := findInterval_sound _ _ _ hj
    obtain ⟨_, c1, c2, _⟩ := findInterval_sound _ _ _ hk
    exact ⟨i, j, k, h.symm, a1, a2, b1, b2, c1, c2⟩
  · cases h

/-- **`vtk_lookup`, geometry.**  For every point of the (closed) region the grid lookup finds
the cell whose structured id is the first-index-fastest flat index of the mesh cell that
`point2index` assigns to the point (floor of `(p − pmin)/cell`, the top face clipped). -/
theorem lookup_is_point2index (f : Fld) (nx ny nz : Nat) (h : WF f nx ny nz) (g : Grid) (hg : toVtk f = .ok g)
    (p : List Rat) (hp : f.mesh.region.containsExact p) :
    inRange [nx, ny, nz] (tab 3 fun a => f.mesh.indexAx a (p.getD a 0)) = true ∧
    locate g p = some (flatF [nx, ny, nz] (tab 3 fun a => f.mesh.indexAx a (p.getD a 0))) := by
  obtain ⟨hnd, _, _, hax, hn0, hn1, hn2⟩ := mesh_axes f nx ny nz h
  obtain ⟨_, hp⟩ := hp
  have hnd' : f.mesh.region.ndim = 3 := hnd
  have key : ∀ a, a < 3 →
      findInterval (f.mesh.vertices.getD a []) (p.getD a 0) = some (f.mesh.indexAx a (p.getD a 0)) ∧
      f.mesh.indexAx a (p.getD a 0) < f.mesh.nAt a := by
    intro a ha
    obtain ⟨l, u⟩ := hp a (by omega)
    exact ⟨findInterval_vertices f.mesh a (by omega) (hax a ha).1 (hax a ha).2 _ l u,
      (C01.index_contains_axis f.mesh a _ (hax a ha).1 (hax a ha).2 l u).1⟩
  rw [toVtk_ok f nx ny nz h] at hg
  injection hg with hg
  subst hg
  have e : (tab 3 fun a => f.mesh.indexAx a (p.getD a 0)) =
      [f.mesh.indexAx 0 (p.getD 0 0), f.mesh.indexAx 1 (p.getD 1 0), f.mesh.indexAx 2 (p.getD 2 0)] := by
    simp [tab, List.range, List.range.loop]
  rw [e]
  constructor
  · have := (key 0 (by omega)).2; have := (key 1 (by omega)).2; have := (key 2 (by omega)).2
    exact inRange3 _ _ _ _ _ _ (by omega) (by omega) (by omega)
  · unfold locate
    simp only [Grid.ax]
    rw [getD_tab _ _ _ _ (by omega : 0 < 3), getD_tab _ _ _ _ (by omega : 1 < 3),
      getD_tab _ _ _ _ (by omega : 2 < 3), (key 0 (by omega)).1, (key 1 (by omega)).1, (key 2 (by omega)).1]
    simp only
    rw [cellId_eq_flatF]

/-- **`vtk_lookup`, values.**  In the cell with the structured id of mesh cell `idx` (any
in-range `idx`: in particular the one the lookup returns, and either neighbour when a consumer
breaks a tie on a shared face differently) the grid carries: in `field` the cell's vector, in
`norm` its squared length (the model stores the square), in `valid` 1 or 0 as the cell is
valid or not. -/
theorem cell_carries_value (f : Fld) (nx ny nz : Nat) (h : WF f nx ny nz) (g : Grid) (hg : toVtk f = .ok g)
    (idx : List Nat) (hi : inRange [nx, ny, nz] idx = true) :
    (∃ a, g.arr "field" = some a ∧ a.ncomp = f.nvdim ∧
        a.tuple (flatF [nx, ny, nz] idx) = tab f.nvdim fun c => (f.data.get idx).getD c 0) ∧
    (∃ a, g.arr "norm" = some a ∧ a.tuple (flatF [nx, ny, nz] idx) = [sumSq (f.data.get idx) f.nvdim]) ∧
    (∃ a, g.arr "valid" = some a ∧ a.int = true ∧
        a.tuple (flatF [nx, ny, nz] idx) = [if f.valid.get idx then 1 else 0]) :=
  ⟨⟨_, arr_field f nx ny nz h g hg, rfl, field_tuple f nx ny nz h.dshape idx hi⟩,
   ⟨_, arr_norm f nx ny nz h g hg, norm_tuple f nx ny nz h.dshape idx hi⟩,
   ⟨_, arr_valid f nx ny nz h g hg, rfl, valid_tuple f nx ny nz h.vshape idx hi⟩⟩

/-- The per-component scalars: the array named after label number `c` carries component `c`
of the cell. -/
theorem cell_carries_component (f : Fld) (nx ny nz : Nat) (h : WF f nx ny nz) (g : Grid) (hg : toVtk f = .ok g)
    (hnv : 1 < f.nvdim) (vs : List String) (hvs : f.vdims = some vs) (c : Nat) (hc : c < vs.length)
    (idx : List Nat) (hi : inRange [nx, ny, nz] idx = true) :
    ∃ a, g.arr (vs.getD c "") = some a ∧ a.ncomp = 1 ∧
      a.tuple (flatF [nx, ny, nz] idx) = [(f.data.get idx).getD c 0] := by
  obtain ⟨vs', hvs', _, hd, _⟩ := h.labels hnv
  rw [hvs] at hvs'; cases hvs'
  have hl : vs.getD c "" ∈ vs := by
    rw [List.getD_eq_getElem?_getD, List.getElem?_eq_getElem hc]; simp
  refine ⟨_, arr_comp f nx ny nz h g hg hnv vs hvs _ hl, rfl, ?_⟩
  rw [comp_tuple f nx ny nz h.dshape vs _ idx hi, indexOf_getD vs hd c hc]
  rfl

/-- **`vtk_lookup`.**  At every point `p` of the region a rectilinear-grid lookup in the
grid built from the field finds a cell, and that cell carries the vector, the squared norm and
the validity flag of the mesh cell containing `p`. -/
theorem vtk_lookup (f : Fld) (nx ny nz : Nat) (h : WF f nx ny nz) (g : Grid) (hg : toVtk f = .ok g)
    (p : List Rat) (hp : f.mesh.region.containsExact p) :
    ∃ id idx, locate g p = some id ∧ idx = (tab 3 fun a => f.mesh.indexAx a (p.getD a 0)) ∧
      (∃ a, g.arr "field" = some a ∧ a.tuple id = tab f.nvdim fun c => (f.data.get idx).getD c 0) ∧
      (∃ a, g.arr "norm" = some a ∧ a.tuple id = [sumSq (f.data.get idx) f.nvdim]) ∧
      (∃ a, g.arr "valid" = some a ∧ a.tuple id = [if f.valid.get idx then 1 else 0]) := by
  obtain ⟨hr, hl⟩ := lookup_is_point2index f nx ny nz h g hg p hp
  obtain ⟨⟨a, ha, _, ha'⟩, ⟨b, hb, hb'⟩, ⟨c, hc, _, hc'⟩⟩ := cell_carries_value f nx ny nz h g hg _ hr
  exact ⟨_, _, hl, rfl, ⟨a, ha, ha'⟩, ⟨b, hb, hb'⟩, ⟨c, hc, hc'⟩⟩

/-- The mesh's own `point2index` agrees with the per-axis index used above whenever it accepts
the point, so the lookup statement is about `f(p)`. -/
theorem point2index_axes (m : Mesh) (p : List Rat) (idx : List Nat) (h : m.point2index p = .ok idx) :
    idx = tab m.ndim fun a => m.indexAx a (p.getD a 0) := by
  unfold point2index at h
  split at h
  · cases h
  · split at h
    · cases h
    · injection h with h; exact h.symm

/-! ## reading back -/

/-- **`vtk_roundtrip` (grid level).**  `_from_vtk` applied to the grid of a well-formed field
returns a field with the same corners, cell counts, values, validity (Boolean) and labels; the
subregions are whatever the side-car loader yields on the rebuilt mesh (next theorem).  A
scalar field comes back unlabelled. -/
theorem vtk_roundtrip (f : Fld) (nx ny nz : Nat) (h : WF f nx ny nz) (g : Grid) (hg : toVtk f = .ok g)
    (sidecar : Option (List (String × Region))) (m1 : Mesh)
    (hsub : loadSubs { region := plainRegion f.mesh.region.pmin f.mesh.region.pmax, n := [nx, ny, nz],
                       bc := "", subs := [] } sidecar = .ok m1) :
    ∃ f', fromCells g sidecar = .ok f' ∧ f'.mesh = m1 ∧ f'.nvdim = f.nvdim ∧
      f'.vdims = (if f.nvdim = 1 then none else f.vdims) ∧ f'.unit = none ∧
      f'.data.shape = [nx, ny, nz] ∧ f'.valid.shape = [nx, ny, nz] ∧
      ∀ idx, inRange [nx, ny, nz] idx = true →
        f'.data.get idx = (tab f.nvdim fun c => (f.data.get idx).getD c 0) ∧
        f'.valid.get idx = f.valid.get idx :=
  fromCells_toVtk f nx ny nz h g hg sidecar m1 hsub

/-- Without a side-car the rebuilt mesh has the field's corners and counts and no subregions. -/
theorem roundtrip_mesh_plain (r : Region) (n : List Nat) :
    loadSubs { region := r, n := n, bc := "", subs := [] } none = .ok { region := r, n := n, bc := "", subs := [] } :=
  rfl

/-- With a side-car of well-formed regions that the subregion setter accepts on the rebuilt
mesh, the loader returns the mesh with the same names, in the same order, with the same
corners (dims, units and tolerance are the rebuilt mesh's: VTK files do not carry them). -/
theorem roundtrip_subregions (m : Mesh) (l : List (String × Region)) (hinv : ∀ p ∈ l, p.2.Inv)
    (hok : ∀ p ∈ l, T.subOk m p.2 = true) :
    ∃ m1, loadSubs m (some l) = .ok m1 ∧ m1.region = m.region ∧ m1.n = m.n ∧
      m1.subs.map (fun p => (p.1, p.2.pmin, p.2.pmax)) = l.map (fun p => (p.1, p.2.pmin, p.2.pmax)) := by
  refine ⟨_, loadSubs_ok m l hinv hok, rfl, rfl, ?_⟩
  simp [List.map_map, Function.comp_def, rebuilt]

/-- A candidate the setter rejects makes the whole read fail (nothing is silently dropped). -/
theorem sidecar_rejected (m : Mesh) (l : List (String × Region)) (hinv : ∀ p ∈ l, p.2.Inv)
    (p : String × Region) (hp : p ∈ l) (hbad : T.subOk m p.2 = false) :
    loadSubs m (some l) = .error .value := by
  unfold loadSubs
  simp only
  rw [mapE_ok _ id l (by
    intro q hq
    rw [regionKw_inv q.2 (hinv q hq)]
    rfl)]
  simp only [List.map_id]
  unfold T.setSubs
  have : (l.all fun p => T.subOk m p.2) = false := by
    rw [List.all_eq_false]
    exact ⟨p, hp, by simp [hbad]⟩
  rw [this]
  rfl

/-! ## files -/

/-- Writer selection: exactly `xml`, `bin`, `bin8`, `txt` are accepted (`bin8` = `bin`). -/
theorem representation_accepted (s : String) :
    (∃ r, repOf s = .ok r) ↔ (s = "xml" ∨ s = "bin" ∨ s = "bin8" ∨ s = "txt") := by
  rcases repOf_cases s with ⟨h, e⟩ | ⟨h, e⟩ | ⟨h, e⟩ | ⟨h1, h2, h3, h4, e⟩
  · exact ⟨fun _ => Or.inl h, fun _ => ⟨_, e⟩⟩
  · exact ⟨fun _ => by rcases h with h | h <;> simp [h], fun _ => ⟨_, e⟩⟩
  · exact ⟨fun _ => by simp [h], fun _ => ⟨_, e⟩⟩
  · constructor
    · rintro ⟨r, hr⟩; rw [e] at hr; cases hr
    · rintro (h | h | h | h) <;> contradiction

/-- An unknown representation, a field that is not 3-d or an unlabelled vector field is
rejected before anything is written; the side-car is written exactly when asked for and the
mesh has subregions. -/
theorem file_written (f : Fld) (rep : String) (save : Bool) (rnd : Rat → Rat) (v : VFile)
    (h : toFile f rep save rnd = .ok v) :
    (∃ r, repOf rep = .ok r ∧ v.rep = r) ∧ (∃ g, toVtk f = .ok g) ∧
    (v.sidecar = if save && !f.mesh.subs.isEmpty then some f.mesh.subs else none) := by
  unfold toFile at h
  split at h
  · cases h
  · rename_i r hr
    split at h
    · cases h
    · rename_i g hg
      injection h with h
      subst h
      exact ⟨⟨r, hr, rfl⟩, ⟨g, hg⟩, rfl⟩

/-- **`vtk_roundtrip` (binary and XML files).**  Writing a well-formed field in `bin`, `bin8`
or `xml` form and reading the file back gives the same corners, counts, values, validity and
labels, exactly; with `save_subregions` and subregions the setter accepts, the same
subregions (names, order, corners). -/
theorem file_roundtrip_exact (f : Fld) (nx ny nz : Nat) (h : WF f nx ny nz) (rep : String)
    (hrep : rep = "xml" ∨ rep = "bin" ∨ rep = "bin8") (save : Bool) (rnd : Rat → Rat) (m1 : Mesh)
    (hsub : loadSubs { region := plainRegion f.mesh.region.pmin f.mesh.region.pmax, n := [nx, ny, nz],
                       bc := "", subs := [] }
              (if save && !f.mesh.subs.isEmpty then some f.mesh.subs else none) = .ok m1) :
    ∃ v f', toFile f rep save rnd = .ok v ∧ fromFile v = .ok f' ∧ f'.mesh = m1 ∧ f'.nvdim = f.nvdim ∧
      f'.vdims = (if f.nvdim = 1 then none else f.vdims) ∧
      ∀ idx, inRange [nx, ny, nz] idx = true →
        f'.data.get idx = (tab f.nvdim fun c => (f.data.get idx).getD c 0) ∧
        f'.valid.get idx = f.valid.get idx := by
  have hg := toVtk_ok f nx ny nz h
  obtain ⟨f', h1, h2, h3, h4, _, _, _, h8⟩ := fromCells_toVtk f nx ny nz h _ hg _ m1 hsub
  have hr : ∃ r, repOf rep = .ok r ∧ r ≠ .txt := by
    rcases hrep with rfl | rfl | rfl
    · exact ⟨.xml, by decide, by decide⟩
    · exact ⟨.bin, by decide, by decide⟩
    · exact ⟨.bin, by decide, by decide⟩
  obtain ⟨r, hr1, hr2⟩ := hr
  refine ⟨_, f', by unfold toFile; rw [hr1, hg], ?_, h2, h3, h4, h8⟩
  simp only [fromFile, readVtk, if_neg hr2]
  have : (normVArr f :: (comps f ++ [fieldVArr f, validVArr f])).isEmpty = false := rfl
  simp only [this]
  exact h1

/-- **Text files.**  The text writer rounds every floating number (`rnd`, ten significant
digits in VTK); integers — the validity flags — are written exactly.  If the rounding fixes the
coordinates and the values of the field (they have at most ten significant digits), the text
file reads back exactly like the binary one. -/
theorem file_roundtrip_text_exact (f : Fld) (nx ny nz : Nat) (h : WF f nx ny nz) (save : Bool)
    (rnd : Rat → Rat) (m1 : Mesh)
    (hfix : ∀ g, toVtk f = .ok g →
      (∀ X ∈ g.coords, ∀ x ∈ X, rnd x = x) ∧ (∀ a ∈ g.cell, a.int = false → ∀ x ∈ a.vals, rnd x = x))
    (hsub : loadSubs { region := plainRegion f.mesh.region.pmin f.mesh.region.pmax, n := [nx, ny, nz],
                       bc := "", subs := [] }
              (if save && !f.mesh.subs.isEmpty then some f.mesh.subs else none) = .ok m1) :
    ∃ v f', toFile f "txt" save rnd = .ok v ∧ v.rep = .txt ∧ fromFile v = .ok f' ∧ f'.mesh = m1 ∧
      f'.nvdim = f.nvdim ∧ f'.vdims = (if f.nvdim = 1 then none else f.vdims) ∧
      ∀ idx, inRange [nx, ny, nz] idx = true →
        f'.data.get idx = (tab f.nvdim fun c => (f.data.get idx).getD c 0) ∧
        f'.valid.get idx = f.valid.get idx := by
  have hg := toVtk_ok f nx ny nz h
  obtain ⟨hc, ha⟩ := hfix _ hg
  obtain ⟨f', h1, h2, h3, h4, _, _, _, h8⟩ := fromCells_toVtk f nx ny nz h _ hg _ m1 hsub
  have hr : repOf "txt" = .ok .txt := by decide
  refine ⟨_, f', by unfold toFile; rw [hr, hg], rfl, ?_, h2, h3, h4, h8⟩
  simp only [fromFile, readVtk, if_true]
  rw [mapGrid_fixed rnd _ hc ha]
  have : (normVArr f :: (comps f ++ [fieldVArr f, validVArr f])).isEmpty = false := rfl
  simp only [this]
  exact h1

/-- **Text files, any rounding.**  Whatever the writer's rounding `rnd` does (as long as it does
not collapse an edge of the region), the text file reads back as: corners `rnd pmin`,
`rnd pmax`, the same cell counts and labels, in every cell the value-wise rounding of the
field's vector — so each value keeps the digits the writer keeps — and the **unrounded**
validity flags. -/
theorem file_roundtrip_text (f : Fld) (nx ny nz : Nat) (h : WF f nx ny nz) (save : Bool) (rnd : Rat → Rat)
    (hlt : ∀ a, a < 3 → rnd (f.mesh.region.lo a) < rnd (f.mesh.region.hi a)) (m1 : Mesh)
    (hsub : loadSubs { region := plainRegion (tab 3 fun a => rnd (f.mesh.region.lo a)) (tab 3 fun a => rnd (f.mesh.region.hi a)),
                       n := [nx, ny, nz], bc := "", subs := [] }
              (if save && !f.mesh.subs.isEmpty then some f.mesh.subs else none) = .ok m1) :
    ∃ v f', toFile f "txt" save rnd = .ok v ∧ fromFile v = .ok f' ∧ f'.mesh = m1 ∧ f'.nvdim = f.nvdim ∧
      f'.vdims = (if f.nvdim = 1 then none else f.vdims) ∧
      ∀ idx, inRange [nx, ny, nz] idx = true →
        f'.data.get idx = (tab f.nvdim fun c => rnd ((f.data.get idx).getD c 0)) ∧
        f'.valid.get idx = f.valid.get idx := by
  have hg := toVtk_ok f nx ny nz h
  obtain ⟨f', h1, h2, h3, h4, h5⟩ := fromCells_rounded f nx ny nz h _ hg rnd hlt _ m1 hsub
  have hr : repOf "txt" = .ok .txt := by decide
  refine ⟨_, f', by unfold toFile; rw [hr, hg], ?_, h2, h3, h4, h5⟩
  simp only [fromFile, readVtk, if_true]
  have : (mapGrid rnd { dims := [nx + 1, ny + 1, nz + 1], coords := tab 3 fun a => f.mesh.vertices.getD a [],
                        cell := normVArr f :: (comps f ++ [fieldVArr f, validVArr f]) }).cell.isEmpty = false := by
    rw [mapGrid_cell]; rfl
  simp only [this]
  exact h1

/-- the rounding hypothesis is met by the example field with a rounding to multiples of 1/8 -/
example : ∀ a, a < 3 → (fun q : Rat => ((q * 8 + 1/2).floor : Rat) / 8) (exField.mesh.region.lo a) <
    (fun q : Rat => ((q * 8 + 1/2).floor : Rat) / 8) (exField.mesh.region.hi a) := by
  intro a ha
  have : a = 0 ∨ a = 1 ∨ a = 2 := by omega
  rcases this with rfl | rfl | rfl <;> decide +kernel

/-- In a text file the validity flags are never rounded: the `valid` array of the written grid
is the one `to_vtk` built, whatever the rounding does to floating numbers. -/
theorem text_keeps_flags (rnd : Rat → Rat) (g : Grid) (a : VArr) (ha : a ∈ g.cell) (hi : a.int = true) :
    a ∈ (mapGrid rnd g).cell := by
  unfold mapGrid
  simp only [List.mem_map]
  exact ⟨a, ha, by simp [hi]⟩

/-- Every floating entry of the text grid is the rounding of the corresponding entry of the
binary grid (coordinates and arrays, position by position). -/
theorem text_rounds_valuewise (rnd : Rat → Rat) (g : Grid) (ax : Nat) (j : Nat)
    (hax : ax < g.coords.length) (hj : j < (g.coords.getD ax []).length) :
    ((mapGrid rnd g).coords.getD ax []).getD j 0 = rnd ((g.coords.getD ax []).getD j 0) := by
  unfold mapGrid
  simp only [List.getD_eq_getElem?_getD, List.getElem?_map]
  rw [List.getElem?_eq_getElem hax]
  simp only [Option.map_some, Option.getD_some, List.getElem?_map]
  have hj' : j < g.coords[ax].length := by
    simpa [List.getD_eq_getElem?_getD, List.getElem?_eq_getElem hax] using hj
  rw [List.getElem?_eq_getElem hj']
  simp

/-! ## legacy point-data files -/

/-- **`legacy_points`.**  A file of the old layout — header, three coordinate blocks with
`N a` points `o a + j·c a` on axis `a`, anything without coordinate headers or a `VECTORS`
line in between, the data marker, one line per point — is read as a field with `N a` cells
per axis, each **centred on a point** (`o a + j·ce`; `ce` is the spacing, or the 1 nm default
on an axis with a single point), no subregions, everything valid, and **one value per cell**:
cell `(i, j, k)` holds data line `i + N₀·(j + N₁·k)`. -/
theorem legacy_points (pre mid post : List LLine) (N : Nat → Nat) (o c : Nat → Rat) (vec : Bool)
    (rows : List (List Rat))
    (hpre : Quiet pre) (hmid : Quiet mid) (hpost : ∀ x ∈ post, ∀ k, x ≠ .coords k)
    (hsc : vec = false → (∀ x ∈ pre ++ mid, x ≠ .scalars) ∧ ∀ x ∈ post, x ≠ .vectors)
    (hN : ∀ a, a < 3 → 1 ≤ N a) (hc : ∀ a, a < 3 → 0 < c a)
    (hrows : rows.length = natProd [N 0, N 1, N 2]) (hrow : ∀ r ∈ rows, r.length = if vec then 3 else 1) :
    ∃ f', legacyRead (legacyFile pre mid post N (fun a => tab (N a) fun j => o a + (j : Rat) * c a) vec rows) none = .ok f' ∧
      f'.mesh.n = [N 0, N 1, N 2] ∧ f'.mesh.subs = [] ∧ f'.nvdim = (if vec then 3 else 1) ∧
      (∀ a, a < 3 → ∀ j : Nat, f'.mesh.centreAx a (j : Int) = o a + (j : Rat) * legCe N c a) ∧
      (∀ idx, inRange [N 0, N 1, N 2] idx = true →
        f'.data.get idx = rows.getD (flatF [N 0, N 1, N 2] idx) [] ∧ f'.valid.get idx = true) := by
  obtain ⟨f', h1, h2, h3, h4, h5, h6, h7⟩ :=
    legacyRead_file pre mid post N o c vec rows hpre hmid hpost hsc hN hc hrows hrow
  refine ⟨f', h1, h2, h3, h6, ?_, h7⟩
  intro a ha j
  apply legacy_centre f'.mesh a (N a) (o a) (legCe N c a) (hN a ha)
  · have : a = 0 ∨ a = 1 ∨ a = 2 := by omega
    rcases this with rfl | rfl | rfl <;> simp [Mesh.nAt, h2]
  · unfold Region.lo; rw [h4, getD_tab _ _ _ _ ha]
  · unfold Region.hi; rw [h5, getD_tab _ _ _ _ ha]

/-- the hypotheses of `legacy_points` are met by a concrete vector file with per-component
blocks (3 × 1 × 2 points) -/
example : Quiet [LLine.alpha, .alpha, .alpha, .alpha, .alpha] ∧
    Quiet [LLine.alpha, .scalars, .alpha, .nums [1], .nums [2]] := by
  constructor <;> intro x hx <;> simp at hx <;> rcases hx with rfl | rfl | rfl | rfl | rfl <;> simp

example : ((legacyRead (legacyFile [.alpha, .alpha] [.alpha] [] (fun a => [3, 1, 2].getD a 0)
      (fun a => tab ([3, 1, 2].getD a 0) fun j => ([0, 5, -1].getD a 0 : Rat) + (j : Rat) * [1/2, 1, 2].getD a 0) true
      [[1, 0, 0], [2, 0, 0], [3, 0, 0], [4, 0, 0], [5, 0, 0], [6, 0, 0]]) none).toOption.map
        fun f => (f.mesh.n, f.mesh.region.pmin, f.data.get [2, 0, 1], f.vdims)) =
    some ([3, 1, 2], [-1/4, 5 - nm1 / 2, -2], [6, 0, 0], some ["x", "y", "z"]) := by decide +kernel

/-! ## Non-vacuity and the label findings -/

/-- the grid of the example: x-fastest order of the four cells `(0,0,0), (1,0,0), (0,0,1), (1,0,1)` -/
example : (toVtk exField).toOption.map (fun g => (g.dims, g.coords, g.cell.map fun a => (a.name, a.vals))) =
    some ([3, 2, 3], [[-1, 0, 1], [0, 3], [1/2, 1, 3/2]],
      [("norm", [25, 169, 1, 197/4]), ("a", [3, 5, 0, 7]), ("b", [4, 12, -1, 1/2]),
       ("field", [3, 4, 5, 12, 0, -1, 7, 1/2]), ("valid", [1, 1, 0, 1])]) := by decide +kernel

/-- a point of the example region, and the top corner (last cells own their upper faces) -/
example : exField.mesh.region.containsExact [1/2, 3, 5/4] := by
  refine ⟨rfl, ?_⟩
  intro a ha
  have : a = 0 ∨ a = 1 ∨ a = 2 := by
    have : a < 3 := ha
    omega
  rcases this with rfl | rfl | rfl <;> decide +kernel

example : (toVtk exField).toOption.bind (fun g => locate g [1/2, 3, 5/4]) = some 3 := by decide +kernel
example : (toVtk exField).toOption.bind (fun g => locate g [0, 0, 1]) = some 3 := by decide +kernel
example : (toVtk exField).toOption.bind (fun g => locate g [-1/2, 1, 3/4]) = some 0 := by decide +kernel
example : (toVtk exField).toOption.bind (fun g => locate g [3/2, 1, 3/4]) = none := by decide +kernel

/-- the side-car of the example is accepted on the rebuilt mesh (hypotheses of
`roundtrip_subregions` / `file_roundtrip_exact`) -/
example : T.subOk { region := plainRegion exField.mesh.region.pmin exField.mesh.region.pmax, n := [2, 1, 2],
                    bc := "", subs := [] } (exField.mesh.subs.getD 0 default).2 = true := by decide +kernel

/-- the whole file round trip of the example (XML writer; text writer with an identity rounding) -/
example : ((toFile exField "xml" true id).bind fromFile).toOption.map
      (fun f => (f.mesh.region.pmin, f.mesh.region.pmax, f.mesh.n, f.data.toList)) =
    some ([-1, 0, 1/2], [1, 3, 3/2], [2, 1, 2], [[3, 4], [0, -1], [5, 12], [7, 1/2]]) := by decide +kernel
example : ((toFile exField "txt" true id).bind fromFile).toOption.map
      (fun f => (f.valid.toList, f.vdims)) =
    some ([true, false, true, true], some ["a", "b"]) := by decide +kernel
example : ((toFile exField "bin8" true id).bind fromFile).toOption.map
      (fun f => (f.mesh.subs.map fun p => (p.1, p.2.pmin, p.2.pmax))) =
    some ([("s", [0, 0, 1/2], [1, 3, 1])]) := by decide +kernel

/-- **Finding (labels).**  A scalar field's label is not written, so it is lost: the field
`nvdim = 1, vdims = ["s"]` comes back with `vdims = none`. -/
theorem scalar_label_lost :
    ((toFile { exField with nvdim := 1, vdims := some ["s"] } "bin" false id).bind fromFile).toOption.map
      (fun f => (f.nvdim, f.vdims)) = some (1, none) := by decide +kernel

/-- **Finding (labels).**  A component called `field` is overwritten by the vector array of the
same name (`AddArray` replaces by name); the reader then finds one label for two components
and falls back to the defaults: `["field", "b"]` comes back as `["x", "y"]`. -/
theorem field_label_lost :
    ((toFile { exField with vdims := some ["field", "b"] } "bin" false id).bind fromFile).toOption.map
      (fun f => (f.nvdim, f.vdims)) = some (2, some ["x", "y"]) := by decide +kernel

end DFV.C16
