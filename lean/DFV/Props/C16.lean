import DFV.Lemmas.C16Examples
import DFV.Lemmas.C16Cells
import DFV.Lemmas.C16Fix
import DFV.Lemmas.C16Layout
import DFV.Lemmas.C16More
/-!
# C16 — VTK output puts each value in the grid cell a VTK reader finds at that position

Property theorems about the model of `Field.to_vtk`, `_to_vtk`, `_from_vtk`,
`_from_vtk_legacy` and the subregion side-car (`DFV/Model/C16.lean`).  Helper lemmas live in
`DFV/Lemmas/C16*.lean`.  Everything is for all shapes, all regions, all values, all masks,
all labels that meet the stated hypotheses, all probe points.

`WF f nx ny nz` is "a 3-d field as the constructor leaves it" (mesh invariant, array and mask
of the mesh's shape, labels present, distinct and different from the fixed array names
`norm` / `field` / `valid` when the field has more than one component).  `WFc f nx ny nz`
(round 6) drops the last condition: labels present and distinct, nothing else — the theorems
stated with it hold for ANY label set and make the label findings exact conditions.
-/
namespace DFV.C16
open DFV DFV.Mesh

/-! ## flattening order -/

/-- **Key index fact, every rank and shape.**  Reversing all axes and flattening in C order
(last index fastest) is the first-index-fastest (Fortran) flattening:
`flatC (reversed shape) (reversed index) = i₀ + n₀·(i₁ + n₁·(i₂ + …))`. -/
theorem flatten_reversed_axes (ns is : List Nat) (hl : is.length = ns.length) :
    flatC ns.reverse is.reverse = flatF ns is :=
  flatC_reverse ns is hl

/-- The same with a trailing component axis of length `m` that keeps its place (the
`(2,1,0,3)` transpose followed by `reshape(-1, nvdim)`): tuple `flatF ns is`, component `c`. -/
theorem flatten_reversed_axes_comp (ns is : List Nat) (m c : Nat) (hl : is.length = ns.length) :
    flatC (ns.reverse ++ [m]) (is.reverse ++ [c]) = flatF ns is * m + c :=
  flatC_reverse_comp ns is m c hl

/-- Inverse direction, every rank and shape: position `k` of the C-order flattening of the
axis-reversed array holds the entry whose first-index-fastest multi-index is `unflatF ns k`. -/
theorem unflatten_reversed_axes (ns : List Nat) (k : Nat) (hk : k < natProd ns) :
    unflatC ns.reverse k = (unflatF ns k).reverse :=
  unflatC_reverse ns k hk

/-- `a.transpose((2,1,0)).reshape(-1)` (code-shaped: NumPy transpose + C-order flattening)
lists a 3-d array in VTK's structured-cell order: entry `t` is `a[unflatF n t]`. -/
theorem vtk_flat_order {α} (a : NDA α) (nx ny nz : Nat) (hs : a.shape = [nx, ny, nz]) :
    flat3 a = tab (natProd [nx, ny, nz]) fun t => a.get (unflatF [nx, ny, nz] t) :=
  flat3_eq a nx ny nz hs

/-- `a.transpose((2,1,0,3)).reshape(-1, nv)`: tuple `t` is cell `unflatF n t`, component `c`
of it at flat position `t·nv + c`. -/
theorem vtk_flat_order_comp {α} (a : NDA α) (nx ny nz nv : Nat) (hs : a.shape = [nx, ny, nz, nv]) :
    flat4 a = tab (natProd [nx, ny, nz] * nv) fun q => a.get (unflatF [nx, ny, nz] (q / nv) ++ [q % nv]) :=
  flat4_eq a nx ny nz nv hs

/-- VTK's structured cell id `i + nx·(j + ny·k)` of a grid with `n + 1` points per axis is the
first-index-fastest flat index of `(i, j, k)`. -/
theorem cell_id_is_flatF (nx ny nz i j k : Nat) :
    cellId [nx + 1, ny + 1, nz + 1] i j k = flatF [nx, ny, nz] [i, j, k] :=
  cellId_eq_flatF nx ny nz i j k

/-! ## the grid -/

/-- Only 3-d fields are converted. -/
theorem vtk_3d_only (f : Fld) (h : f.mesh.region.ndim ≠ 3) : toVtk f = .error .runtime := by
  unfold toVtk; rw [if_pos h]

/-- A field with more than one component needs labels. -/
theorem vtk_needs_labels (f : Fld) (h3 : f.mesh.region.ndim = 3) (hnv : 1 < f.nvdim) (hv : f.vdims = none) :
    toVtk f = .error .value := by
  unfold toVtk; rw [if_neg (not_not.mpr h3), if_pos ⟨hnv, hv⟩]

/-- A well-formed 3-d field is converted; the grid has `n + 1` points per axis and the arrays
`norm`, one scalar per label (none for a scalar field), `field`, `valid`, in this order. -/
theorem vtk_grid (f : Fld) (nx ny nz : Nat) (h : WF f nx ny nz) :
    ∃ g, toVtk f = .ok g ∧ g.dims = [nx + 1, ny + 1, nz + 1] ∧
      g.cell.map (fun a => a.name) = "norm" :: ((if 1 < f.nvdim then f.vdims.getD [] else []) ++ ["field", "valid"]) := by
  refine ⟨_, toVtk_ok f nx ny nz h, rfl, ?_⟩
  simp only [List.map_cons, List.map_append, List.map_nil]
  congr 1
  congr 1
  unfold comps
  split
  · rw [List.map_map]
    have : ((fun a : VArr => a.name) ∘ compVArr f (f.vdims.getD [])) = id := by funext l; rfl
    rw [this]; simp
  · rfl

/-- The coordinate arrays of the grid are the mesh vertices: `n + 1` values per axis,
`pmin + j·cell`, `j = 0 … n`. -/
theorem grid_coordinates (f : Fld) (nx ny nz : Nat) (h : WF f nx ny nz) (g : Grid) (hg : toVtk f = .ok g)
    (a : Nat) (ha : a < 3) :
    (g.ax a).length = f.mesh.nAt a + 1 ∧
    ∀ j, j ≤ f.mesh.nAt a → (g.ax a).getD j 0 = f.mesh.region.lo a + (j : Rat) * f.mesh.cellAt a := by
  obtain ⟨hnd, _, _, hax, _⟩ := mesh_axes f nx ny nz h
  rw [toVtk_ok f nx ny nz h] at hg
  injection hg with hg
  subst hg
  simp only [Grid.ax]
  rw [getD_tab _ _ _ _ ha]
  exact ⟨vertices_length f.mesh a (by omega),
    fun j hj => C01.vertices_eq_faces f.mesh a (by omega) (hax a ha).1 j hj⟩

/-! ## cell lookup -/

/-- Soundness of the lookup contract on any grid: the located cell's box contains the point
(lower faces inclusive; the upper face only for the last cell of an axis). -/
theorem locate_sound (g : Grid) (p : List Rat) (id : Nat) (h : locate g p = some id) :
    ∃ i j k, id = cellId g.dims i j k ∧
      (g.ax 0).getD i 0 ≤ p.getD 0 0 ∧ p.getD 0 0 ≤ (g.ax 0).getD (i + 1) 0 ∧
      (g.ax 1).getD j 0 ≤ p.getD 1 0 ∧ p.getD 1 0 ≤ (g.ax 1).getD (j + 1) 0 ∧
      (g.ax 2).getD k 0 ≤ p.getD 2 0 ∧ p.getD 2 0 ≤ (g.ax 2).getD (k + 1) 0 := by
  unfold locate at h
  split at h
  · rename_i i j k hi hj hk
    injection h with h
    obtain ⟨_, a1, a2, _⟩ := findInterval_sound _ _ _ hi
    obtain ⟨_, b1, b2, _⟩ := findInterval_sound _ _ _ hj
    obtain ⟨_, c1, c2, _⟩ := findInterval_sound _ _ _ hk
    exact ⟨i, j, k, h.symm, a1, a2, b1, b2, c1, c2⟩
  · cases h

/-- **`vtk_lookup`, geometry.**  For every point of the (closed) region the grid lookup finds
the cell whose structured id is the first-index-fastest flat index of the mesh cell that
`point2index` assigns to the point (floor of `(p − pmin)/cell`, the top face clipped). -/
theorem lookup_is_point2index (f : Fld) (nx ny nz : Nat) (h : WF f nx ny nz) (g : Grid) (hg : toVtk f = .ok g)
    (p : List Rat) (hp : f.mesh.region.containsExact p) :
    inRange [nx, ny, nz] (tab 3 fun a => f.mesh.indexAx a (p.getD a 0)) = true ∧
    locate g p = some (flatF [nx, ny, nz] (tab 3 fun a => f.mesh.indexAx a (p.getD a 0))) := by
  obtain ⟨hnd, _, _, hax, hn0, hn1, hn2⟩ := mesh_axes f nx ny nz h
  obtain ⟨_, hp⟩ := hp
  have hnd' : f.mesh.region.ndim = 3 := hnd
  have key : ∀ a, a < 3 →
      findInterval (f.mesh.vertices.getD a []) (p.getD a 0) = some (f.mesh.indexAx a (p.getD a 0)) ∧
      f.mesh.indexAx a (p.getD a 0) < f.mesh.nAt a := by
    intro a ha
    obtain ⟨l, u⟩ := hp a (by omega)
    exact ⟨findInterval_vertices f.mesh a (by omega) (hax a ha).1 (hax a ha).2 _ l u,
      (C01.index_contains_axis f.mesh a _ (hax a ha).1 (hax a ha).2 l u).1⟩
  rw [toVtk_ok f nx ny nz h] at hg
  injection hg with hg
  subst hg
  have e : (tab 3 fun a => f.mesh.indexAx a (p.getD a 0)) =
      [f.mesh.indexAx 0 (p.getD 0 0), f.mesh.indexAx 1 (p.getD 1 0), f.mesh.indexAx 2 (p.getD 2 0)] := by
    simp [tab, List.range, List.range.loop]
  rw [e]
  constructor
  · have := (key 0 (by omega)).2; have := (key 1 (by omega)).2; have := (key 2 (by omega)).2
    exact inRange3 _ _ _ _ _ _ (by omega) (by omega) (by omega)
  · unfold locate
    simp only [Grid.ax]
    rw [getD_tab _ _ _ _ (by omega : 0 < 3), getD_tab _ _ _ _ (by omega : 1 < 3),
      getD_tab _ _ _ _ (by omega : 2 < 3), (key 0 (by omega)).1, (key 1 (by omega)).1, (key 2 (by omega)).1]
    simp only
    rw [cellId_eq_flatF]

/-- **`vtk_lookup`, values.**  In the cell with the structured id of mesh cell `idx` (any
in-range `idx`: in particular the one the lookup returns, and either neighbour when a consumer
breaks a tie on a shared face differently) the grid carries: in `field` the cell's vector, in
`norm` its squared length (the model stores the square), in `valid` 1 or 0 as the cell is
valid or not. -/
theorem cell_carries_value (f : Fld) (nx ny nz : Nat) (h : WF f nx ny nz) (g : Grid) (hg : toVtk f = .ok g)
    (idx : List Nat) (hi : inRange [nx, ny, nz] idx = true) :
    (∃ a, g.arr "field" = some a ∧ a.ncomp = f.nvdim ∧
        a.tuple (flatF [nx, ny, nz] idx) = tab f.nvdim fun c => (f.data.get idx).getD c 0) ∧
    (∃ a, g.arr "norm" = some a ∧ a.tuple (flatF [nx, ny, nz] idx) = [sumSq (f.data.get idx) f.nvdim]) ∧
    (∃ a, g.arr "valid" = some a ∧ a.int = true ∧
        a.tuple (flatF [nx, ny, nz] idx) = [if f.valid.get idx then 1 else 0]) :=
  ⟨⟨_, arr_field f nx ny nz h g hg, rfl, field_tuple f nx ny nz h.dshape idx hi⟩,
   ⟨_, arr_norm f nx ny nz h g hg, norm_tuple f nx ny nz h.dshape idx hi⟩,
   ⟨_, arr_valid f nx ny nz h g hg, rfl, valid_tuple f nx ny nz h.vshape idx hi⟩⟩

/-- The per-component scalars: the array named after label number `c` carries component `c`
of the cell. -/
theorem cell_carries_component (f : Fld) (nx ny nz : Nat) (h : WF f nx ny nz) (g : Grid) (hg : toVtk f = .ok g)
    (hnv : 1 < f.nvdim) (vs : List String) (hvs : f.vdims = some vs) (c : Nat) (hc : c < vs.length)
    (idx : List Nat) (hi : inRange [nx, ny, nz] idx = true) :
    ∃ a, g.arr (vs.getD c "") = some a ∧ a.ncomp = 1 ∧
      a.tuple (flatF [nx, ny, nz] idx) = [(f.data.get idx).getD c 0] := by
  obtain ⟨vs', hvs', _, hd, _⟩ := h.labels hnv
  rw [hvs] at hvs'; cases hvs'
  have hl : vs.getD c "" ∈ vs := by
    rw [List.getD_eq_getElem?_getD, List.getElem?_eq_getElem hc]; simp
  refine ⟨_, arr_comp f nx ny nz h g hg hnv vs hvs _ hl, rfl, ?_⟩
  rw [comp_tuple f nx ny nz h.dshape vs _ idx hi, indexOf_getD vs hd c hc]
  rfl

/-- **`vtk_lookup`.**  At every point `p` of the region a rectilinear-grid lookup in the
grid built from the field finds a cell, and that cell carries the vector, the squared norm and
the validity flag of the mesh cell containing `p`. -/
theorem vtk_lookup (f : Fld) (nx ny nz : Nat) (h : WF f nx ny nz) (g : Grid) (hg : toVtk f = .ok g)
    (p : List Rat) (hp : f.mesh.region.containsExact p) :
    ∃ id idx, locate g p = some id ∧ idx = (tab 3 fun a => f.mesh.indexAx a (p.getD a 0)) ∧
      (∃ a, g.arr "field" = some a ∧ a.tuple id = tab f.nvdim fun c => (f.data.get idx).getD c 0) ∧
      (∃ a, g.arr "norm" = some a ∧ a.tuple id = [sumSq (f.data.get idx) f.nvdim]) ∧
      (∃ a, g.arr "valid" = some a ∧ a.tuple id = [if f.valid.get idx then 1 else 0]) := by
  obtain ⟨hr, hl⟩ := lookup_is_point2index f nx ny nz h g hg p hp
  obtain ⟨⟨a, ha, _, ha'⟩, ⟨b, hb, hb'⟩, ⟨c, hc, _, hc'⟩⟩ := cell_carries_value f nx ny nz h g hg _ hr
  exact ⟨_, _, hl, rfl, ⟨a, ha, ha'⟩, ⟨b, hb, hb'⟩, ⟨c, hc, hc'⟩⟩

/-- The mesh's own `point2index` agrees with the per-axis index used above whenever it accepts
the point, so the lookup statement is about `f(p)`. -/
theorem point2index_axes (m : Mesh) (p : List Rat) (idx : List Nat) (h : m.point2index p = .ok idx) :
    idx = tab m.ndim fun a => m.indexAx a (p.getD a 0) := by
  unfold point2index at h
  split at h
  · cases h
  · split at h
    · cases h
    · injection h with h; exact h.symm

/-! ## reading back -/

/-- **`vtk_roundtrip` (grid level).**  `_from_vtk` applied to the grid of a well-formed field
returns a field with the same corners, cell counts, values, validity (Boolean) and labels; the
subregions are whatever the side-car loader yields on the rebuilt mesh (next theorem).  A
scalar field comes back unlabelled. -/
theorem vtk_roundtrip (f : Fld) (nx ny nz : Nat) (h : WF f nx ny nz) (g : Grid) (hg : toVtk f = .ok g)
    (sidecar : Option (List (String × Region))) (m1 : Mesh)
    (hsub : loadSubs { region := plainRegion f.mesh.region.pmin f.mesh.region.pmax, n := [nx, ny, nz],
                       bc := "", subs := [] } sidecar = .ok m1) :
    ∃ f', fromCells g sidecar = .ok f' ∧ f'.mesh = m1 ∧ f'.nvdim = f.nvdim ∧
      f'.vdims = (if f.nvdim = 1 then none else f.vdims) ∧ f'.unit = none ∧
      f'.data.shape = [nx, ny, nz] ∧ f'.valid.shape = [nx, ny, nz] ∧
      ∀ idx, inRange [nx, ny, nz] idx = true →
        f'.data.get idx = (tab f.nvdim fun c => (f.data.get idx).getD c 0) ∧
        f'.valid.get idx = f.valid.get idx :=
  fromCells_toVtk f nx ny nz h g hg sidecar m1 hsub

/-- Without a side-car the rebuilt mesh has the field's corners and counts and no subregions. -/
theorem roundtrip_mesh_plain (r : Region) (n : List Nat) :
    loadSubs { region := r, n := n, bc := "", subs := [] } none = .ok { region := r, n := n, bc := "", subs := [] } :=
  rfl

/-- With a side-car of well-formed regions that the subregion setter accepts on the rebuilt
mesh, the loader returns the mesh with the same names, in the same order, with the same
corners (dims, units and tolerance are the rebuilt mesh's: VTK files do not carry them). -/
theorem roundtrip_subregions (m : Mesh) (l : List (String × Region)) (hinv : ∀ p ∈ l, p.2.Inv)
    (hok : ∀ p ∈ l, T.candOk m p.2 = true) :
    ∃ m1, loadSubs m (some l) = .ok m1 ∧ m1.region = m.region ∧ m1.n = m.n ∧
      m1.subs.map (fun p => (p.1, p.2.pmin, p.2.pmax)) = l.map (fun p => (p.1, p.2.pmin, p.2.pmax)) := by
  refine ⟨_, loadSubs_ok m l hinv hok, rfl, rfl, ?_⟩
  simp [List.map_map, Function.comp_def, rebuilt]

/-- A candidate the setter rejects makes the whole read fail (nothing is silently dropped). -/
theorem sidecar_rejected (m : Mesh) (l : List (String × Region)) (hinv : ∀ p ∈ l, p.2.Inv)
    (p : String × Region) (hp : p ∈ l) (hbad : T.candOk m p.2 = false) :
    loadSubs m (some l) = .error .value := by
  unfold loadSubs
  simp only
  rw [mapE_ok _ id l (by
    intro q hq
    rw [regionKw_inv q.2 (hinv q hq)]
    rfl)]
  simp only [List.map_id]
  unfold T.setSubs
  have : (l.all fun p => T.candOk m p.2) = false := by
    rw [List.all_eq_false]
    exact ⟨p, hp, by simp [hbad]⟩
  rw [this]
  rfl

/-! ## files -/

/-- Writer selection: exactly `xml`, `bin`, `bin8`, `txt` are accepted (`bin8` = `bin`). -/
theorem representation_accepted (s : String) :
    (∃ r, repOf s = .ok r) ↔ (s = "xml" ∨ s = "bin" ∨ s = "bin8" ∨ s = "txt") := by
  rcases repOf_cases s with ⟨h, e⟩ | ⟨h, e⟩ | ⟨h, e⟩ | ⟨h1, h2, h3, h4, e⟩
  · exact ⟨fun _ => Or.inl h, fun _ => ⟨_, e⟩⟩
  · exact ⟨fun _ => by rcases h with h | h <;> simp [h], fun _ => ⟨_, e⟩⟩
  · exact ⟨fun _ => by simp [h], fun _ => ⟨_, e⟩⟩
  · constructor
    · rintro ⟨r, hr⟩; rw [e] at hr; cases hr
    · rintro (h | h | h | h) <;> contradiction

/-- An unknown representation, a field that is not 3-d or an unlabelled vector field is
rejected before anything is written; the side-car is written exactly when asked for and the
mesh has subregions. -/
theorem file_written (f : Fld) (rep : String) (save : Bool) (rnd : Rat → Rat) (v : VFile)
    (h : toFile f rep save rnd = .ok v) :
    (∃ r, repOf rep = .ok r ∧ v.rep = r) ∧ (∃ g, toVtk f = .ok g) ∧
    (v.sidecar = if save && !f.mesh.subs.isEmpty then some f.mesh.subs else none) := by
  unfold toFile at h
  split at h
  · cases h
  · rename_i r hr
    split at h
    · cases h
    · rename_i g hg
      injection h with h
      subst h
      exact ⟨⟨r, hr, rfl⟩, ⟨g, hg⟩, rfl⟩

/-- **`vtk_roundtrip` (binary and XML files).**  Writing a well-formed field in `bin`, `bin8`
or `xml` form and reading the file back gives the same corners, counts, values, validity and
labels, exactly; with `save_subregions` and subregions the setter accepts, the same
subregions (names, order, corners). -/
theorem file_roundtrip_exact (f : Fld) (nx ny nz : Nat) (h : WF f nx ny nz) (rep : String)
    (hrep : rep = "xml" ∨ rep = "bin" ∨ rep = "bin8") (save : Bool) (rnd : Rat → Rat) (m1 : Mesh)
    (hsub : loadSubs { region := plainRegion f.mesh.region.pmin f.mesh.region.pmax, n := [nx, ny, nz],
                       bc := "", subs := [] }
              (if save && !f.mesh.subs.isEmpty then some f.mesh.subs else none) = .ok m1) :
    ∃ v f', toFile f rep save rnd = .ok v ∧ fromFile v = .ok f' ∧ f'.mesh = m1 ∧ f'.nvdim = f.nvdim ∧
      f'.vdims = (if f.nvdim = 1 then none else f.vdims) ∧
      ∀ idx, inRange [nx, ny, nz] idx = true →
        f'.data.get idx = (tab f.nvdim fun c => (f.data.get idx).getD c 0) ∧
        f'.valid.get idx = f.valid.get idx := by
  have hg := toVtk_ok f nx ny nz h
  obtain ⟨f', h1, h2, h3, h4, _, _, _, h8⟩ := fromCells_toVtk f nx ny nz h _ hg _ m1 hsub
  have hr : ∃ r, repOf rep = .ok r ∧ r ≠ .txt := by
    rcases hrep with rfl | rfl | rfl
    · exact ⟨.xml, by decide, by decide⟩
    · exact ⟨.bin, by decide, by decide⟩
    · exact ⟨.bin, by decide, by decide⟩
  obtain ⟨r, hr1, hr2⟩ := hr
  refine ⟨_, f', by unfold toFile; rw [hr1, hg], ?_, h2, h3, h4, h8⟩
  simp only [fromFile]
  rw [readVtk_writtenGrid, if_neg hr2]
  simp only [readVtk]
  have : (normVArr f :: (comps f ++ [fieldVArr f, validVArr f])).isEmpty = false := rfl
  simp only [this]
  exact h1

/-- **Text files.**  The text writer rounds every floating number (`rnd`, ten significant
digits in VTK); integers — the validity flags — are written exactly.  If the rounding fixes the
coordinates and the values of the field (they have at most ten significant digits), the text
file reads back exactly like the binary one. -/
theorem file_roundtrip_text_exact (f : Fld) (nx ny nz : Nat) (h : WF f nx ny nz) (save : Bool)
    (rnd : Rat → Rat) (m1 : Mesh)
    (hfix : ∀ g, toVtk f = .ok g →
      (∀ X ∈ g.coords, ∀ x ∈ X, rnd x = x) ∧ (∀ a ∈ g.cell, a.int = false → ∀ x ∈ a.vals, rnd x = x))
    (hsub : loadSubs { region := plainRegion f.mesh.region.pmin f.mesh.region.pmax, n := [nx, ny, nz],
                       bc := "", subs := [] }
              (if save && !f.mesh.subs.isEmpty then some f.mesh.subs else none) = .ok m1) :
    ∃ v f', toFile f "txt" save rnd = .ok v ∧ v.rep = .txt ∧ fromFile v = .ok f' ∧ f'.mesh = m1 ∧
      f'.nvdim = f.nvdim ∧ f'.vdims = (if f.nvdim = 1 then none else f.vdims) ∧
      ∀ idx, inRange [nx, ny, nz] idx = true →
        f'.data.get idx = (tab f.nvdim fun c => (f.data.get idx).getD c 0) ∧
        f'.valid.get idx = f.valid.get idx := by
  have hg := toVtk_ok f nx ny nz h
  obtain ⟨hc, ha⟩ := hfix _ hg
  obtain ⟨f', h1, h2, h3, h4, _, _, _, h8⟩ := fromCells_toVtk f nx ny nz h _ hg _ m1 hsub
  have hr : repOf "txt" = .ok .txt := by decide
  refine ⟨_, f', by unfold toFile; rw [hr, hg], rfl, ?_, h2, h3, h4, h8⟩
  simp only [fromFile]
  rw [readVtk_writtenGrid, if_pos rfl]
  simp only [readVtk]
  rw [mapGrid_fixed rnd _ hc ha]
  have : (normVArr f :: (comps f ++ [fieldVArr f, validVArr f])).isEmpty = false := rfl
  simp only [this]
  exact h1

/-- **Text files, any rounding.**  Whatever the writer's rounding `rnd` does (as long as it does
not collapse an edge of the region), the text file reads back as: corners `rnd pmin`,
`rnd pmax`, the same cell counts and labels, in every cell the value-wise rounding of the
field's vector — so each value keeps the digits the writer keeps — and the **unrounded**
validity flags. -/
theorem file_roundtrip_text (f : Fld) (nx ny nz : Nat) (h : WF f nx ny nz) (save : Bool) (rnd : Rat → Rat)
    (hlt : ∀ a, a < 3 → rnd (f.mesh.region.lo a) < rnd (f.mesh.region.hi a)) (m1 : Mesh)
    (hsub : loadSubs { region := plainRegion (tab 3 fun a => rnd (f.mesh.region.lo a)) (tab 3 fun a => rnd (f.mesh.region.hi a)),
                       n := [nx, ny, nz], bc := "", subs := [] }
              (if save && !f.mesh.subs.isEmpty then some f.mesh.subs else none) = .ok m1) :
    ∃ v f', toFile f "txt" save rnd = .ok v ∧ fromFile v = .ok f' ∧ f'.mesh = m1 ∧ f'.nvdim = f.nvdim ∧
      f'.vdims = (if f.nvdim = 1 then none else f.vdims) ∧
      ∀ idx, inRange [nx, ny, nz] idx = true →
        f'.data.get idx = (tab f.nvdim fun c => rnd ((f.data.get idx).getD c 0)) ∧
        f'.valid.get idx = f.valid.get idx := by
  have hg := toVtk_ok f nx ny nz h
  obtain ⟨f', h1, h2, h3, h4, h5⟩ := fromCells_rounded f nx ny nz h _ hg rnd hlt _ m1 hsub
  have hr : repOf "txt" = .ok .txt := by decide
  refine ⟨_, f', by unfold toFile; rw [hr, hg], ?_, h2, h3, h4, h5⟩
  simp only [fromFile]
  rw [readVtk_writtenGrid, if_pos rfl]
  simp only [readVtk]
  have : (mapGrid rnd { dims := [nx + 1, ny + 1, nz + 1], coords := tab 3 fun a => f.mesh.vertices.getD a [],
                        cell := normVArr f :: (comps f ++ [fieldVArr f, validVArr f]) }).cell.isEmpty = false := by
    rw [mapGrid_cell]; rfl
  simp only [this]
  exact h1

/-- the rounding hypothesis is met by the example field with a rounding to multiples of 1/8 -/
example : ∀ a, a < 3 → (fun q : Rat => ((q * 8 + 1/2).floor : Rat) / 8) (exField.mesh.region.lo a) <
    (fun q : Rat => ((q * 8 + 1/2).floor : Rat) / 8) (exField.mesh.region.hi a) := by
  intro a ha
  have : a = 0 ∨ a = 1 ∨ a = 2 := by omega
  rcases this with rfl | rfl | rfl <;> decide +kernel

/-- In a text file the validity flags are never rounded: the `valid` array of the written grid
is the one `to_vtk` built, whatever the rounding does to floating numbers. -/
theorem text_keeps_flags (rnd : Rat → Rat) (g : Grid) (a : VArr) (ha : a ∈ g.cell) (hi : a.int = true) :
    a ∈ (mapGrid rnd g).cell := by
  unfold mapGrid
  simp only [List.mem_map]
  exact ⟨a, ha, by simp [hi]⟩

/-- Every floating entry of the text grid is the rounding of the corresponding entry of the
binary grid (coordinates and arrays, position by position). -/
theorem text_rounds_valuewise (rnd : Rat → Rat) (g : Grid) (ax : Nat) (j : Nat)
    (hax : ax < g.coords.length) (hj : j < (g.coords.getD ax []).length) :
    ((mapGrid rnd g).coords.getD ax []).getD j 0 = rnd ((g.coords.getD ax []).getD j 0) := by
  unfold mapGrid
  simp only [List.getD_eq_getElem?_getD, List.getElem?_map]
  rw [List.getElem?_eq_getElem hax]
  simp only [Option.map_some, Option.getD_some, List.getElem?_map]
  have hj' : j < g.coords[ax].length := by
    simpa [List.getD_eq_getElem?_getD, List.getElem?_eq_getElem hax] using hj
  rw [List.getElem?_eq_getElem hj']
  simp

/-! ## round 4: the lookup at full strength -/

/-- **No cell outside the region.**  At a point with a coordinate below `pmin` or above `pmax`
the lookup in the grid of a well-formed field finds nothing. -/
theorem lookup_outside (f : Fld) (nx ny nz : Nat) (h : WF f nx ny nz) (g : Grid) (hg : toVtk f = .ok g)
    (p : List Rat) (a : Nat) (ha : a < 3)
    (hout : p.getD a 0 < f.mesh.region.lo a ∨ f.mesh.region.hi a < p.getD a 0) : locate g p = none := by
  obtain ⟨hnd, _, _, hax, _, _, _⟩ := mesh_axes f nx ny nz h
  rw [toVtk_ok f nx ny nz h] at hg
  injection hg with hg
  subst hg
  have hnone := findInterval_vertices_none f.mesh a (by omega) (hax a ha).1 (hax a ha).2 _ hout
  unfold locate
  simp only [Grid.ax]
  rw [getD_tab _ _ _ _ (by omega : 0 < 3), getD_tab _ _ _ _ (by omega : 1 < 3), getD_tab _ _ _ _ (by omega : 2 < 3)]
  have : a = 0 ∨ a = 1 ∨ a = 2 := by omega
  rcases this with rfl | rfl | rfl
  · rw [hnone]
  · rw [hnone]; split <;> simp_all
  · rw [hnone]; split <;> simp_all

/-- **The lookup succeeds exactly on the closed region** (with the two theorems above: a cell is
found at `p` iff `pmin ≤ p ≤ pmax` on the three axes). -/
theorem lookup_iff_inside (f : Fld) (nx ny nz : Nat) (h : WF f nx ny nz) (g : Grid) (hg : toVtk f = .ok g)
    (p : List Rat) (hl : p.length = 3) :
    (∃ id, locate g p = some id) ↔ f.mesh.region.containsExact p := by
  obtain ⟨hnd, _, _, _, _, _, _⟩ := mesh_axes f nx ny nz h
  have hnd' : f.mesh.region.ndim = 3 := hnd
  constructor
  · rintro ⟨id, hid⟩
    refine ⟨by rw [hl, hnd'], ?_⟩
    intro a ha
    rw [hnd'] at ha
    by_contra hc
    have hout : p.getD a 0 < f.mesh.region.lo a ∨ f.mesh.region.hi a < p.getD a 0 := by
      by_contra hn
      apply hc
      constructor
      · by_contra h1; exact hn (Or.inl (lt_of_not_ge h1))
      · by_contra h1; exact hn (Or.inr (lt_of_not_ge h1))
    rw [lookup_outside f nx ny nz h g hg p a ha hout] at hid
    cases hid
  · intro hp
    exact ⟨_, (lookup_is_point2index f nx ny nz h g hg p hp).2⟩

/-- **The box of the located cell, in mesh terms.**  Whatever the lookup returns at `p` is the
structured id of an in-range mesh cell `(i, j, k)` whose closed box
`[pmin + i·cell, pmin + (i+1)·cell]` contains `p` on every axis. -/
theorem located_cell_box (f : Fld) (nx ny nz : Nat) (h : WF f nx ny nz) (g : Grid) (hg : toVtk f = .ok g)
    (p : List Rat) (id : Nat) (hid : locate g p = some id) :
    ∃ idx, inRange [nx, ny, nz] idx = true ∧ id = flatF [nx, ny, nz] idx ∧
      ∀ a, a < 3 → f.mesh.region.lo a + (idx.getD a 0 : Rat) * f.mesh.cellAt a ≤ p.getD a 0 ∧
        p.getD a 0 ≤ f.mesh.region.lo a + ((idx.getD a 0 : Rat) + 1) * f.mesh.cellAt a := by
  obtain ⟨hnd, _, _, hax, hn0, hn1, hn2⟩ := mesh_axes f nx ny nz h
  rw [toVtk_ok f nx ny nz h] at hg
  injection hg with hg
  subst hg
  unfold locate at hid
  simp only [Grid.ax] at hid
  rw [getD_tab _ _ _ _ (by omega : 0 < 3), getD_tab _ _ _ _ (by omega : 1 < 3), getD_tab _ _ _ _ (by omega : 2 < 3)] at hid
  split at hid
  · rename_i i j k hi hj hk
    injection hid with hid
    obtain ⟨a1, a2, a3⟩ := findInterval_vertices_box f.mesh 0 (by omega) (hax 0 (by omega)).1 _ _ hi
    obtain ⟨b1, b2, b3⟩ := findInterval_vertices_box f.mesh 1 (by omega) (hax 1 (by omega)).1 _ _ hj
    obtain ⟨c1, c2, c3⟩ := findInterval_vertices_box f.mesh 2 (by omega) (hax 2 (by omega)).1 _ _ hk
    refine ⟨[i, j, k], inRange3 _ _ _ _ _ _ (by omega) (by omega) (by omega), ?_, ?_⟩
    · rw [← hid, cellId_eq_flatF]
    · intro a ha
      have : a = 0 ∨ a = 1 ∨ a = 2 := by omega
      rcases this with rfl | rfl | rfl
      · exact ⟨a2, a3⟩
      · exact ⟨b2, b3⟩
      · exact ⟨c2, c3⟩
  · cases hid

/-- **`vtk_lookup`, object level, every clause.**  For every point `p` of the closed region:
`mesh.point2index` accepts `p` and returns an in-range cell `idx` that contains `p`; the grid
lookup finds the cell with the structured id of `idx`; and at that id the grid carries the
cell's vector (`field`), its squared norm (`norm`), its validity flag (`valid`, integer-typed)
and, for a field with more than one component, in the scalar array named after label `c` the
component `c` of the cell. -/
theorem vtk_lookup_full (f : Fld) (nx ny nz : Nat) (h : WF f nx ny nz) (g : Grid) (hg : toVtk f = .ok g)
    (p : List Rat) (hp : f.mesh.region.containsExact p) :
    ∃ idx, f.mesh.point2index p = .ok idx ∧ inRange [nx, ny, nz] idx = true ∧ C01.inCell f.mesh idx p ∧
      locate g p = some (flatF [nx, ny, nz] idx) ∧
      (∃ a, g.arr "field" = some a ∧ a.ncomp = f.nvdim ∧
        a.tuple (flatF [nx, ny, nz] idx) = tab f.nvdim fun c => (f.data.get idx).getD c 0) ∧
      (∃ a, g.arr "norm" = some a ∧ a.ncomp = 1 ∧
        a.tuple (flatF [nx, ny, nz] idx) = [sumSq (f.data.get idx) f.nvdim]) ∧
      (∃ a, g.arr "valid" = some a ∧ a.int = true ∧
        a.tuple (flatF [nx, ny, nz] idx) = [if f.valid.get idx then 1 else 0]) ∧
      (1 < f.nvdim → ∀ vs, f.vdims = some vs → ∀ c, c < vs.length →
        ∃ a, g.arr (vs.getD c "") = some a ∧ a.ncomp = 1 ∧
          a.tuple (flatF [nx, ny, nz] idx) = [(f.data.get idx).getD c 0]) := by
  obtain ⟨idx, hpi, hir, hic⟩ := C01.point_index_contains f.mesh h.mesh p hp
  have hidx := point2index_axes f.mesh p idx hpi
  obtain ⟨hnd, _⟩ := mesh_axes f nx ny nz h
  rw [hnd] at hidx
  rw [h.n] at hir
  obtain ⟨_, hl⟩ := lookup_is_point2index f nx ny nz h g hg p hp
  rw [← hidx] at hl
  obtain ⟨⟨a, ha, ha1, ha2⟩, ⟨b, hb, hb2⟩, ⟨c, hc, hc1, hc2⟩⟩ := cell_carries_value f nx ny nz h g hg idx hir
  refine ⟨idx, hpi, hir, hic, hl, ⟨a, ha, ha1, ha2⟩, ⟨b, hb, ?_, hb2⟩, ⟨c, hc, hc1, hc2⟩, ?_⟩
  · rw [arr_norm f nx ny nz h g hg] at hb
    injection hb with hb
    rw [← hb]; rfl
  · intro hnv vs hvs c hc
    exact cell_carries_component f nx ny nz h g hg hnv vs hvs c hc idx hir

/-! ## the norm array -/

/-- The `norm` entry of a cell is non-negative and vanishes exactly when every component of
the cell does (the model stores the square; the square root is the harness's). -/
theorem norm_entry (v : List Rat) (nv : Nat) : 0 ≤ sumSq v nv ∧ (sumSq v nv = 0 ↔ ∀ c, c < nv → v.getD c 0 = 0) :=
  ⟨sumSq_nonneg v nv, sumSq_eq_zero v nv⟩

/-- **The norm of a scalar field is the absolute value.**  For a one-component field the
`norm` array holds, at the id of cell `idx`, the number whose non-negative root is `|f(idx)|`:
any `r ≥ 0` with `r² =` that entry equals the absolute value of the cell's value — not the raw
(possibly negative) value. -/
theorem norm_of_scalar_is_abs (f : Fld) (nx ny nz : Nat) (h : WF f nx ny nz) (g : Grid) (hg : toVtk f = .ok g)
    (h1 : f.nvdim = 1) (idx : List Nat) (hi : inRange [nx, ny, nz] idx = true) (r : Rat) (hr : 0 ≤ r)
    (a : VArr) (ha : g.arr "norm" = some a) (hrr : [r * r] = a.tuple (flatF [nx, ny, nz] idx)) :
    r = |(f.data.get idx).getD 0 0| := by
  rw [arr_norm f nx ny nz h g hg] at ha
  injection ha with ha
  rw [← ha, norm_tuple f nx ny nz h.dshape idx hi, h1] at hrr
  injection hrr with hrr
  exact root_sumSq_one _ r hr hrr

/-- Two non-negative numbers with the same square are equal: the `norm` array is determined by
the squares the model computes. -/
theorem norm_determined (r s q : Rat) (hr : 0 ≤ r) (hs : 0 ≤ s) (h1 : r * r = q) (h2 : s * s = q) : r = s :=
  root_unique r s q hr hs h1 h2

/-! ## the consumer's direction: cell ids -/

/-- Every array of the grid of a well-formed field has exactly one tuple per grid cell:
`nx·ny·nz · ncomp` values. -/
theorem grid_arrays_sized (f : Fld) (nx ny nz : Nat) (h : WF f nx ny nz) (g : Grid) (hg : toVtk f = .ok g)
    (a : VArr) (ha : a ∈ g.cell) : a.vals.length = natProd [nx, ny, nz] * a.ncomp := by
  rw [toVtk_ok f nx ny nz h] at hg
  injection hg with hg
  subst hg
  exact cellData_sizes f nx ny nz h a ha

/-- **Every grid cell is exactly one mesh cell.**  For every cell id `t < nx·ny·nz`, the
multi-index `unflatF n t = (t mod nx, t/nx mod ny, t/(nx·ny))` is the only in-range mesh cell
with structured id `t`, and tuple `t` of `field` / `norm` / `valid` is that cell's vector /
squared norm / validity flag. -/
theorem cell_id_is_mesh_cell (f : Fld) (nx ny nz : Nat) (h : WF f nx ny nz) (g : Grid) (hg : toVtk f = .ok g)
    (t : Nat) (ht : t < natProd [nx, ny, nz]) :
    inRange [nx, ny, nz] (unflatF [nx, ny, nz] t) = true ∧ flatF [nx, ny, nz] (unflatF [nx, ny, nz] t) = t ∧
    (∀ idx, inRange [nx, ny, nz] idx = true → flatF [nx, ny, nz] idx = t → idx = unflatF [nx, ny, nz] t) ∧
    (∃ a, g.arr "field" = some a ∧ a.tuple t = tab f.nvdim fun c => (f.data.get (unflatF [nx, ny, nz] t)).getD c 0) ∧
    (∃ a, g.arr "norm" = some a ∧ a.tuple t = [sumSq (f.data.get (unflatF [nx, ny, nz] t)) f.nvdim]) ∧
    (∃ a, g.arr "valid" = some a ∧ a.tuple t = [if f.valid.get (unflatF [nx, ny, nz] t) then 1 else 0]) := by
  obtain ⟨hx, hy, hz⟩ := wf_pos f nx ny nz h
  have hir := unflatF3_inRange nx ny nz t hx hy hz
  have hfl := flatF_unflatF [nx, ny, nz] t ht
  obtain ⟨⟨a, ha, _, ha2⟩, ⟨b, hb, hb2⟩, ⟨c, hc, _, hc2⟩⟩ := cell_carries_value f nx ny nz h g hg _ hir
  rw [hfl] at ha2 hb2 hc2
  refine ⟨hir, hfl, ?_, ⟨a, ha, ha2⟩, ⟨b, hb, hb2⟩, ⟨c, hc, hc2⟩⟩
  intro idx hi he
  exact flatF_inj _ _ _ hi hir (by rw [he, hfl])

/-! ## subregions through the side-car, without assuming that the loader succeeds -/

/-- **The side-car `to_file` writes is accepted by `from_file`.**  For a mesh whose subregions
fit it exactly (`C14.SubInv`: the invariant the subregion setter establishes and every
transformation keeps) the loader succeeds on the mesh rebuilt from bounds and dimensions, and
stores the same names in the same order with the same corners (re-stamped with the rebuilt
mesh's default names, units and tolerance); without `save_subregions`, or without subregions,
the rebuilt mesh has none. -/
theorem sidecar_accepted (f : Fld) (nx ny nz : Nat) (h : WF f nx ny nz) (hsub : C14.SubInv f.mesh) (save : Bool) :
    ∃ m1, loadSubs { region := plainRegion f.mesh.region.pmin f.mesh.region.pmax, n := [nx, ny, nz], bc := "", subs := [] }
        (if save && !f.mesh.subs.isEmpty then some f.mesh.subs else none) = .ok m1 ∧
      m1.region = plainRegion f.mesh.region.pmin f.mesh.region.pmax ∧ m1.n = [nx, ny, nz] ∧ m1.bc = "" ∧
      m1.subs.map (fun p => (p.1, p.2.pmin, p.2.pmax)) =
        (if save then f.mesh.subs else []).map (fun p => (p.1, p.2.pmin, p.2.pmax)) := by
  refine ⟨_, loadSubs_written f nx ny nz h hsub save, rfl, rfl, rfl, ?_⟩
  cases save
  · rfl
  · simp [List.map_map, Function.comp_def, rebuilt]

/-- the subregion hypothesis is met by the example field -/
example : C14.SubInv exField.mesh := exField_subinv

/-- **`vtk_roundtrip` (binary and XML files), no loader hypothesis.**  For every well-formed
3-d field whose subregions fit its mesh, every representation `xml` / `bin` / `bin8`, with or
without `save_subregions`: the write succeeds, the read succeeds, and the field read back has
the same corners, cell counts, number of components, labels, values and validity, and (when
saved) the same subregions — names, order, corners. -/
theorem file_roundtrip_exact_subs (f : Fld) (nx ny nz : Nat) (h : WF f nx ny nz) (hsub : C14.SubInv f.mesh)
    (rep : String) (hrep : rep = "xml" ∨ rep = "bin" ∨ rep = "bin8") (save : Bool) (rnd : Rat → Rat) :
    ∃ v f', toFile f rep save rnd = .ok v ∧ fromFile v = .ok f' ∧
      f'.mesh.region.pmin = f.mesh.region.pmin ∧ f'.mesh.region.pmax = f.mesh.region.pmax ∧
      f'.mesh.n = f.mesh.n ∧ f'.nvdim = f.nvdim ∧ f'.vdims = (if f.nvdim = 1 then none else f.vdims) ∧
      f'.mesh.subs.map (fun p => (p.1, p.2.pmin, p.2.pmax)) =
        (if save then f.mesh.subs else []).map (fun p => (p.1, p.2.pmin, p.2.pmax)) ∧
      ∀ idx, inRange [nx, ny, nz] idx = true →
        f'.data.get idx = (tab f.nvdim fun c => (f.data.get idx).getD c 0) ∧
        f'.valid.get idx = f.valid.get idx := by
  obtain ⟨m1, hm1, hr, hn, _, hs⟩ := sidecar_accepted f nx ny nz h hsub save
  obtain ⟨v, f', h1, h2, h3, h4, h5, h6⟩ := file_roundtrip_exact f nx ny nz h rep hrep save rnd m1 hm1
  refine ⟨v, f', h1, h2, ?_, ?_, ?_, h4, h5, ?_, h6⟩
  · rw [h3, hr]; rfl
  · rw [h3, hr]; rfl
  · rw [h3, hn, h.n]
  · rw [h3]; exact hs

/-- **The round trip is the identity on what a VTK file can carry.**  If moreover the region
has the default names, units and tolerance, the mesh has no boundary condition, the
subregions are saved and every cell vector has `nvdim` entries, then the mesh read back **is**
the mesh written (region, counts, subregions with all their attributes) and every cell holds
the same vector and flag. -/
theorem file_roundtrip_identity (f : Fld) (nx ny nz : Nat) (h : WF f nx ny nz) (hsub : C14.SubInv f.mesh)
    (hreg : f.mesh.region = plainRegion f.mesh.region.pmin f.mesh.region.pmax) (hbc : f.mesh.bc = "")
    (hlen : ∀ idx, inRange [nx, ny, nz] idx = true → (f.data.get idx).length = f.nvdim)
    (rep : String) (hrep : rep = "xml" ∨ rep = "bin" ∨ rep = "bin8") (rnd : Rat → Rat) :
    ∃ v f', toFile f rep true rnd = .ok v ∧ fromFile v = .ok f' ∧ f'.mesh = f.mesh ∧ f'.nvdim = f.nvdim ∧
      f'.vdims = (if f.nvdim = 1 then none else f.vdims) ∧
      ∀ idx, inRange [nx, ny, nz] idx = true → f'.data.get idx = f.data.get idx ∧ f'.valid.get idx = f.valid.get idx := by
  have hm1 := loadSubs_written f nx ny nz h hsub true
  obtain ⟨v, f', h1, h2, h3, h4, h5, h6⟩ := file_roundtrip_exact f nx ny nz h rep hrep true rnd _ hm1
  refine ⟨v, f', h1, h2, ?_, h4, h5, ?_⟩
  · rw [h3]
    simp only [if_true]
    rw [rebuilt_id f [nx, ny, nz] hreg hsub]
    exact (mesh_eq_of f.mesh _ _ hreg h.n hbc).symm
  · intro idx hi
    obtain ⟨a, b⟩ := h6 idx hi
    refine ⟨?_, b⟩
    rw [a]
    exact (eq_tab_of_getD _ _ _ 0 (hlen idx hi) (fun _ _ => rfl)).symm

/-- the extra hypotheses of `file_roundtrip_identity` are met by the example field -/
example : exField.mesh.region = plainRegion exField.mesh.region.pmin exField.mesh.region.pmax ∧ exField.mesh.bc = "" ∧
    ∀ idx, inRange [2, 1, 2] idx = true → (exField.data.get idx).length = exField.nvdim := by
  refine ⟨rfl, rfl, ?_⟩
  intro idx hi
  obtain ⟨i, j, k, rfl, h1, h2, h3⟩ := inRange3_cases 2 1 2 idx hi
  have : (i = 0 ∨ i = 1) ∧ j = 0 ∧ (k = 0 ∨ k = 1) := by omega
  obtain ⟨rfl | rfl, rfl, rfl | rfl⟩ := this <;> decide +kernel

/-- **Text files keep the digits the writer keeps.**  If the text writer's rounding has
relative error at most `ε` (VTK: ten significant digits), every value read back from a text
file is within `ε·|value|` of the value written, and both corners are within `ε·|corner|`;
the validity flags are exact. -/
theorem text_keeps_digits (f : Fld) (nx ny nz : Nat) (h : WF f nx ny nz) (save : Bool) (rnd : Rat → Rat) (ε : Rat)
    (hε : ∀ x, |rnd x - x| ≤ ε * |x|)
    (hlt : ∀ a, a < 3 → rnd (f.mesh.region.lo a) < rnd (f.mesh.region.hi a)) (m1 : Mesh)
    (hsub : loadSubs { region := plainRegion (tab 3 fun a => rnd (f.mesh.region.lo a)) (tab 3 fun a => rnd (f.mesh.region.hi a)),
                       n := [nx, ny, nz], bc := "", subs := [] }
              (if save && !f.mesh.subs.isEmpty then some f.mesh.subs else none) = .ok m1) :
    ∃ v f', toFile f "txt" save rnd = .ok v ∧ fromFile v = .ok f' ∧ f'.mesh.n = [nx, ny, nz] ∧
      (∀ a, a < 3 → |f'.mesh.region.lo a - f.mesh.region.lo a| ≤ ε * |f.mesh.region.lo a| ∧
                    |f'.mesh.region.hi a - f.mesh.region.hi a| ≤ ε * |f.mesh.region.hi a|) ∧
      ∀ idx, inRange [nx, ny, nz] idx = true →
        (∀ c, c < f.nvdim → |(f'.data.get idx).getD c 0 - (f.data.get idx).getD c 0| ≤ ε * |(f.data.get idx).getD c 0|) ∧
        f'.valid.get idx = f.valid.get idx := by
  obtain ⟨v, f', h1, h2, h3, _, _, h6⟩ := file_roundtrip_text f nx ny nz h save rnd hlt m1 hsub
  obtain ⟨hr, hn, _⟩ := loadSubs_geom _ _ _ hsub
  refine ⟨v, f', h1, h2, by rw [h3, hn], ?_, ?_⟩
  · intro a ha
    rw [h3]
    unfold Region.lo Region.hi
    rw [hr]
    simp only [plainRegion]
    rw [getD_tab _ _ _ _ ha, getD_tab _ _ _ _ ha]
    exact ⟨hε _, hε _⟩
  · intro idx hi
    obtain ⟨a, b⟩ := h6 idx hi
    refine ⟨?_, b⟩
    intro c hc
    rw [a, getD_tab _ _ _ _ hc]
    exact hε _

/-- the error bound of `text_keeps_digits` is met by an exact writer with `ε = 0` -/
example : ∀ x : Rat, |id x - x| ≤ 0 * |x| := by intro x; simp

/-! ## round 4: acceptance, uniqueness off the faces, file → field → file -/

/-- **Acceptance, exactly.**  `to_file` succeeds if and only if the representation is one of
`xml`, `bin`, `bin8`, `txt`, the region is three-dimensional and a field with more than one
component has labels — nothing else about the field (values, mask, subregions, labels that
collide) can make the write fail. -/
theorem write_accepted_iff (f : Fld) (rep : String) (save : Bool) (rnd : Rat → Rat) :
    (∃ v, toFile f rep save rnd = .ok v) ↔
      ((rep = "xml" ∨ rep = "bin" ∨ rep = "bin8" ∨ rep = "txt") ∧ f.mesh.region.ndim = 3 ∧
        ¬ (1 < f.nvdim ∧ f.vdims = none)) :=
  toFile_ok_iff f rep save rnd

/-- The active attributes: a viewer's default arrows come from `field` exactly for three
components, its default colouring from `field` exactly for one. -/
theorem active_attributes (f : Fld) :
    ((activeAttr f).2 = some "field" ↔ f.nvdim = 3) ∧ ((activeAttr f).1 = some "field" ↔ f.nvdim = 1) := by
  unfold activeAttr
  constructor
  · by_cases h3 : f.nvdim = 3
    · simp [h3]
    · by_cases h1 : f.nvdim = 1 <;> simp [h3, h1]
  · by_cases h3 : f.nvdim = 3
    · simp [h3]
    · by_cases h1 : f.nvdim = 1 <;> simp [h3, h1]

/-- **Off the faces the cell is unique**, so it does not matter how a consumer breaks ties: if
`p` lies strictly inside the box of mesh cell `idx` on every axis, every in-range cell whose
closed box contains `p` is `idx` (with `located_cell_box`: any lookup contract that returns a
cell containing `p` returns the id of `idx`). -/
theorem lookup_unique_off_faces (f : Fld) (nx ny nz : Nat) (h : WF f nx ny nz) (p : List Rat) (idx idx' : List Nat)
    (hi : inRange [nx, ny, nz] idx = true) (hi' : inRange [nx, ny, nz] idx' = true)
    (hstrict : ∀ a, a < 3 → f.mesh.region.lo a + (idx.getD a 0 : Rat) * f.mesh.cellAt a < p.getD a 0 ∧
      p.getD a 0 < f.mesh.region.lo a + ((idx.getD a 0 : Rat) + 1) * f.mesh.cellAt a)
    (hclosed : ∀ a, a < 3 → f.mesh.region.lo a + (idx'.getD a 0 : Rat) * f.mesh.cellAt a ≤ p.getD a 0 ∧
      p.getD a 0 ≤ f.mesh.region.lo a + ((idx'.getD a 0 : Rat) + 1) * f.mesh.cellAt a) :
    idx' = idx := by
  obtain ⟨_, _, _, hax, _, _, _⟩ := mesh_axes f nx ny nz h
  obtain ⟨i, j, k, rfl, _, _, _⟩ := inRange3_cases nx ny nz idx hi
  obtain ⟨i', j', k', rfl, _, _, _⟩ := inRange3_cases nx ny nz idx' hi'
  have key : ∀ a, a < 3 → [i', j', k'].getD a 0 = [i, j, k].getD a 0 := fun a ha =>
    interval_unique _ _ _ (C01.cell_pos f.mesh a (hax a ha).1 (hax a ha).2) _ _
      (hstrict a ha).1 (hstrict a ha).2 (hclosed a ha).1 (hclosed a ha).2
  have e0 := key 0 (by omega)
  have e1 := key 1 (by omega)
  have e2 := key 2 (by omega)
  simp only [List.getD_cons_zero, List.getD_cons_succ] at e0 e1 e2
  rw [e0, e1, e2]

/-- **What is read back is a well-formed field again** (closure): `_from_vtk` applied to the
grid of a well-formed field — with any side-car it accepts — returns a field that satisfies `WF`
with the same counts, so every theorem of this file applies to it in turn. -/
theorem read_back_well_formed (f : Fld) (nx ny nz : Nat) (h : WF f nx ny nz) (g : Grid) (hg : toVtk f = .ok g)
    (sc : Option (List (String × Region))) (f' : Fld) (hf' : fromCells g sc = .ok f') : WF f' nx ny nz :=
  (roundtrip_wf f nx ny nz h g hg sc f' hf').1

/-- **File → field → file is the identity.**  Converting the field that was read back from the
grid of a well-formed field gives exactly that grid again: same dimensions, same coordinate
arrays, the same arrays in the same order with the same values — so re-saving a file that was
loaded writes the same data. -/
theorem reread_rewrite_identity (f : Fld) (nx ny nz : Nat) (h : WF f nx ny nz) (g : Grid) (hg : toVtk f = .ok g)
    (sc : Option (List (String × Region))) (f' : Fld) (hf' : fromCells g sc = .ok f') : toVtk f' = .ok g := by
  obtain ⟨hwf, hp1, hp2, hnv, hvd, hd⟩ := roundtrip_wf f nx ny nz h g hg sc f' hf'
  rw [← hg]
  apply toVtk_congr f f' nx ny nz h hwf hp1 hp2 hnv
  · intro h1
    rw [hvd, if_neg (by omega)]
  · intro idx hi c hc
    rw [(hd idx hi).1, getD_tab _ _ _ _ hc]
  · intro idx hi
    exact (hd idx hi).2

/-- the same for the example, through a binary file and back, twice -/
example : (((toFile exField "bin" true id).bind fromFile).bind fun f' => toVtk f') = toVtk exField := by
  decide +kernel

/-! ## round 4: histories — the same file name written and read again -/

/-- **The read result is a function of the file content only**: `from_file(name)` depends on
the directory through `<name>` and `<name>.subregions.json` alone (no reader state survives a
call: the model is a function of these two files). -/
theorem read_depends_on_files_only (d d' : Dir) (name : String) (h1 : look d'.vtk name = look d.vtk name)
    (h2 : look d'.json name = look d.json name) : d'.read name = d.read name :=
  read_congr d d' name h1 h2

/-- A rejected `to_file` (unknown representation, not 3-d, unlabelled vector field) leaves the
directory exactly as it was: neither the file nor the side-car is created or changed. -/
theorem rejected_write_writes_nothing (rnd : Rat → Rat) (d : Dir) (name : String) (f : Fld) (rep : String)
    (save : Bool) (e : Err) (h : toFile f rep save rnd = .error e) :
    (d.step rnd (.write name f rep save)).1 = d ∧ (d.step rnd (.write name f rep save)).2 = .error e := by
  simp [Dir.step, Dir.write, h]

/-- Calls on other file names (reads, writes, rejected writes — any session) change neither of
the two files of `name`. -/
theorem other_names_untouched (rnd : Rat → Rat) (d : Dir) (ops : List DOp) (name : String)
    (h : ∀ o ∈ ops, o.name ≠ name) : (Dir.after rnd d ops).read name = d.read name := by
  obtain ⟨h1, h2⟩ := after_other rnd d ops name h
  exact read_congr _ _ _ h1 h2

/-- **Reading after any history** (induction over sessions).  Take any directory, any session
`before`, then a successful `to_file(name)`, then any session `after` on other file names, then
`from_file(name)`: the result is the reader applied to the grid written **last** under that
name, with the side-car that call wrote — or, when that call wrote none, whatever side-car of
that name the earlier history left behind. -/
theorem read_after_history (rnd : Rat → Rat) (d : Dir) (before after : List DOp) (name : String) (f : Fld)
    (rep : String) (save : Bool) (v : VFile) (hv : toFile f rep save rnd = .ok v)
    (hafter : ∀ o ∈ after, o.name ≠ name) :
    (Dir.run rnd d (before ++ .write name f rep save :: (after ++ [.read name]))).getLast? =
      some ((readVtk v.grid [] (match v.sidecar with
                                | some s => some s
                                | none => look (Dir.after rnd d before).json name)).map some) := by
  have e : before ++ .write name f rep save :: (after ++ [.read name]) =
      (before ++ .write name f rep save :: after) ++ [.read name] := by simp
  rw [e, run_append_read, List.getLast?_append]
  simp only [List.getLast?_singleton, Option.some_or]
  congr 2
  rw [after_append]
  simp only [Dir.after]
  cases hw : (Dir.after rnd d before).write name f rep save rnd with
  | error e =>
    simp only [Dir.write, hv] at hw
    cases hw
  | ok d' =>
    have hs : ((Dir.after rnd d before).step rnd (.write name f rep save)).1 = d' := by
      simp only [Dir.step, hw]
    rw [hs, other_names_untouched rnd d' after name hafter]
    obtain ⟨v', hv', hr⟩ := write_read_same _ _ _ _ _ _ _ hw
    rw [hv] at hv'
    injection hv' with hv'
    subst hv'
    exact hr

/-- **Round trip after any history.**  Whatever was written and read in the directory before
(other fields under the same name, in any representation), and whatever happens to other file
names afterwards: reading the name returns the field written to it **last** — same corners,
counts, components, labels, values, validity, subregions — provided this last call wrote its
side-car or no side-car of that name was left behind by the earlier history. -/
theorem history_roundtrip (f : Fld) (nx ny nz : Nat) (h : WF f nx ny nz) (hsub : C14.SubInv f.mesh)
    (rep : String) (hrep : rep = "xml" ∨ rep = "bin" ∨ rep = "bin8") (save : Bool) (rnd : Rat → Rat)
    (d : Dir) (before after : List DOp) (name : String) (hafter : ∀ o ∈ after, o.name ≠ name)
    (hfresh : (save = true ∧ f.mesh.subs.isEmpty = false) ∨ look (Dir.after rnd d before).json name = none) :
    ∃ f', (Dir.run rnd d (before ++ .write name f rep save :: (after ++ [.read name]))).getLast? = some (.ok (some f')) ∧
      f'.mesh.region.pmin = f.mesh.region.pmin ∧ f'.mesh.region.pmax = f.mesh.region.pmax ∧
      f'.mesh.n = f.mesh.n ∧ f'.nvdim = f.nvdim ∧ f'.vdims = (if f.nvdim = 1 then none else f.vdims) ∧
      f'.mesh.subs.map (fun p => (p.1, p.2.pmin, p.2.pmax)) =
        (if save then f.mesh.subs else []).map (fun p => (p.1, p.2.pmin, p.2.pmax)) ∧
      ∀ idx, inRange [nx, ny, nz] idx = true →
        f'.data.get idx = (tab f.nvdim fun c => (f.data.get idx).getD c 0) ∧
        f'.valid.get idx = f.valid.get idx := by
  obtain ⟨v, f', h1, h2, h3⟩ := file_roundtrip_exact_subs f nx ny nz h hsub rep hrep save rnd
  refine ⟨f', ?_, h3⟩
  rw [read_after_history rnd d before after name f rep save v h1 hafter]
  have hsc := (file_written f rep save rnd v h1).2.2
  have : (match v.sidecar with
          | some s => some s
          | none => look (Dir.after rnd d before).json name) = v.sidecar := by
    rcases hfresh with ⟨hs, he⟩ | hn
    · rw [hsc, hs, he]; rfl
    · rw [hn]; cases v.sidecar <;> rfl
  rw [this]
  have : readVtk v.grid [] v.sidecar = .ok f' := h2
  rw [this]
  rfl

/-- **Finding (stale side-car, D64).**  A `to_file` that writes no side-car (no subregions, or
`save_subregions=False`) leaves an existing `<name>.subregions.json` in place, and the next
`from_file(name)` applies **that** side-car to the new field: it returns subregions the field
written last does not have, or fails when they do not fit the new mesh. -/
theorem stale_sidecar (rnd : Rat → Rat) (d : Dir) (name : String) (f : Fld) (rep : String) (save : Bool) (v : VFile)
    (sc : List (String × Region)) (hv : toFile f rep save rnd = .ok v) (hnone : v.sidecar = none)
    (hold : look d.json name = some sc) :
    ∃ d', d.write name f rep save rnd = .ok d' ∧ d'.read name = readVtk v.grid [] (some sc) := by
  cases hw : d.write name f rep save rnd with
  | error e =>
    simp only [Dir.write, hv] at hw
    cases hw
  | ok d' =>
    obtain ⟨v', hv', hr⟩ := write_read_same _ _ _ _ _ _ _ hw
    rw [hv] at hv'
    injection hv' with hv'
    subst hv'
    rw [hnone, hold] at hr
    exact ⟨d', rfl, hr⟩

/-- the witness of D64 in the model: the example field (one subregion `s`) is written, then
the same field **without** subregions under the same name; the read returns `s`; a third field
on a mesh that `s` does not fit cannot be read back at all -/
theorem stale_sidecar_witness :
    ((Dir.run id ⟨[], []⟩ [.write "a.vtk" exField "bin" true,
        .write "a.vtk" { exField with mesh := { exField.mesh with subs := [] } } "bin" true,
        .read "a.vtk"]).map fun r => r.toOption.map fun o => o.map fun f => f.mesh.subs.map fun p => p.1) =
      [some none, some none, some (some ["s"])] ∧
    ((Dir.run id ⟨[], []⟩ [.write "a.vtk" exField "bin" true,
        .write "a.vtk" { exField with mesh := { region := { exField.mesh.region with pmin := [9, 0, 1/2], pmax := [11, 3, 3/2] },
                                                n := [2, 1, 2], bc := "", subs := [] } } "xml" true,
        .read "a.vtk"]).map fun r => r.toOption.map fun o => o.map fun f => f.mesh.subs.map fun p => p.1) =
      [some none, some none, none] := by
  constructor <;> decide +kernel

/-- the hypotheses of `history_roundtrip` are met: the example field with its subregion, after
an earlier write of another field under the same name and a later write to another name -/
example : ((Dir.run id ⟨[], []⟩ ([.write "a.vtk" { exField with mesh := { exField.mesh with subs := [] } } "xml" false] ++
      .write "a.vtk" exField "bin8" true :: ([.write "b.vtk" exField "bin" false] ++ [.read "a.vtk"]))).getLast?.map
        fun r => r.toOption.map fun o => o.map fun f => (f.data.toList, f.mesh.subs.map fun p => p.1)) =
    some (some (some ([[3, 4], [0, -1], [5, 12], [7, 1/2]], ["s"]))) := by decide +kernel

/-! ## legacy point-data files -/

/-- **`legacy_points`.**  A file of the old layout — header, three coordinate blocks with
`N a` points `o a + j·c a` on axis `a`, anything without coordinate headers or a `VECTORS`
line in between, the data marker, one line per point — is read as a field with `N a` cells
per axis, each **centred on a point** (`o a + j·ce`; `ce` is the spacing, or the 1 nm default
on an axis with a single point), no subregions, everything valid, and **one value per cell**:
cell `(i, j, k)` holds data line `i + N₀·(j + N₁·k)`. -/
theorem legacy_points (pre mid post : List LLine) (N : Nat → Nat) (o c : Nat → Rat) (vec : Bool)
    (rows : List (List Rat))
    (hpre : Quiet pre) (hmid : Quiet mid) (hpost : ∀ x ∈ post, ∀ k, x ≠ .coords k)
    (hsc : vec = false → (∀ x ∈ pre ++ mid, x ≠ .scalars) ∧ ∀ x ∈ post, x ≠ .vectors)
    (hN : ∀ a, a < 3 → 1 ≤ N a) (hc : ∀ a, a < 3 → 0 < c a)
    (hrows : rows.length = natProd [N 0, N 1, N 2]) (hrow : ∀ r ∈ rows, r.length = if vec then 3 else 1) :
    ∃ f', legacyRead (legacyFile pre mid post N (fun a => tab (N a) fun j => o a + (j : Rat) * c a) vec rows) none = .ok f' ∧
      f'.mesh.n = [N 0, N 1, N 2] ∧ f'.mesh.subs = [] ∧ f'.nvdim = (if vec then 3 else 1) ∧
      (∀ a, a < 3 → ∀ j : Nat, f'.mesh.centreAx a (j : Int) = o a + (j : Rat) * legCe N c a) ∧
      (∀ idx, inRange [N 0, N 1, N 2] idx = true →
        f'.data.get idx = rows.getD (flatF [N 0, N 1, N 2] idx) [] ∧ f'.valid.get idx = true) := by
  obtain ⟨f', h1, h2, h3, h4, h5, h6, h7⟩ :=
    legacyRead_file pre mid post N o c vec rows hpre hmid hpost hsc hN hc hrows hrow
  refine ⟨f', h1, h2, h3, h6, ?_, h7⟩
  intro a ha j
  apply legacy_centre f'.mesh a (N a) (o a) (legCe N c a) (hN a ha)
  · have : a = 0 ∨ a = 1 ∨ a = 2 := by omega
    rcases this with rfl | rfl | rfl <;> simp [Mesh.nAt, h2]
  · unfold Region.lo; rw [h4, getD_tab _ _ _ _ ha]
  · unfold Region.hi; rw [h5, getD_tab _ _ _ _ ha]

/-- the hypotheses of `legacy_points` are met by a concrete vector file with per-component
blocks (3 × 1 × 2 points) -/
example : Quiet [LLine.alpha, .alpha, .alpha, .alpha, .alpha] ∧
    Quiet [LLine.alpha, .scalars, .alpha, .nums [1], .nums [2]] := by
  constructor <;> intro x hx <;> simp at hx <;> rcases hx with rfl | rfl | rfl | rfl | rfl <;> simp

example : ((legacyRead (legacyFile [.alpha, .alpha] [.alpha] [] (fun a => [3, 1, 2].getD a 0)
      (fun a => tab ([3, 1, 2].getD a 0) fun j => ([0, 5, -1].getD a 0 : Rat) + (j : Rat) * [1/2, 1, 2].getD a 0) true
      [[1, 0, 0], [2, 0, 0], [3, 0, 0], [4, 0, 0], [5, 0, 0], [6, 0, 0]]) none).toOption.map
        fun f => (f.mesh.n, f.mesh.region.pmin, f.data.get [2, 0, 1], f.vdims)) =
    some ([3, 1, 2], [-1/4, 5 - nm1 / 2, -2], [6, 0, 0], some ["x", "y", "z"]) := by decide +kernel

/-! ## round 4: legacy files with split coordinate lines and a side-car; refusals -/

/-- **`legacy_points`, split coordinate blocks, side-car.**  The legacy reader only looks at the
**first** line after each `*_COORDINATES` header.  So a point-data file whose coordinate blocks
run over several lines (as VTK's own text writer produces: nine numbers per line) is read like
the one-line form as long as that first line holds the first coordinate and — on an axis with
more than one point — the second: `N a` cells per axis centred on the points, one value per
cell in x-fastest order, all valid, default labels `x y z` for vector files; with any side-car
the loader accepts on that mesh, the subregions it yields. -/
theorem legacy_points_split (pre mid post : List LLine) (N : Nat → Nat) (o c : Nat → Rat) (first : Nat → List Rat)
    (cont : Nat → List LLine) (vec : Bool) (rows : List (List Rat))
    (sidecar : Option (List (String × Region))) (m1 : Mesh)
    (hpre : Quiet pre) (hmid : Quiet mid) (hcont : ∀ a, a < 3 → Quiet (cont a))
    (hpost : ∀ x ∈ post, ∀ k, x ≠ .coords k)
    (hsc : vec = false → (∀ x ∈ pre ++ (cont 0 ++ (cont 1 ++ (cont 2 ++ mid))), x ≠ .scalars) ∧ ∀ x ∈ post, x ≠ .vectors)
    (hN : ∀ a, a < 3 → 1 ≤ N a) (hc : ∀ a, a < 3 → 0 < c a)
    (hfirst : ∀ a, a < 3 → 1 ≤ (first a).length ∧ (first a).getD 0 0 = o a ∧
      (1 < N a → 1 < (first a).length ∧ (first a).getD 1 0 = o a + c a) ∧ (N a = 1 → (first a).length = 1))
    (hrows : rows.length = natProd [N 0, N 1, N 2]) (hrow : ∀ r ∈ rows, r.length = if vec then 3 else 1)
    (hsub : loadSubs { region := plainRegion (tab 3 (fun a => o a - legCe N c a * (1/2)))
                                  (tab 3 (fun a => o a - legCe N c a * (1/2) + (N a : Rat) * legCe N c a)),
                       n := [N 0, N 1, N 2], bc := "", subs := [] } sidecar = .ok m1) :
    ∃ f', legacyRead (legacyFileSplit pre mid post N first cont vec rows) sidecar = .ok f' ∧
      f'.mesh.n = [N 0, N 1, N 2] ∧ f'.mesh.subs = m1.subs ∧ f'.nvdim = (if vec then 3 else 1) ∧
      f'.vdims = (if vec then some ["x", "y", "z"] else none) ∧
      (∀ a, a < 3 → ∀ j : Nat, f'.mesh.centreAx a (j : Int) = o a + (j : Rat) * legCe N c a) ∧
      (∀ idx, inRange [N 0, N 1, N 2] idx = true →
        f'.data.get idx = rows.getD (flatF [N 0, N 1, N 2] idx) [] ∧ f'.valid.get idx = true) := by
  obtain ⟨f', h1, h2, h3, h4, h5⟩ :=
    legacyRead_split pre mid post N o c first cont vec rows sidecar m1 hpre hmid hcont hpost hsc hN hc hfirst hrows hrow hsub
  obtain ⟨hr, hn, _⟩ := loadSubs_geom _ _ _ hsub
  simp only at hr hn
  refine ⟨f', h1, by rw [h2, hn], by rw [h2], h3, h4, ?_, h5⟩
  intro a ha j
  apply legacy_centre f'.mesh a (N a) (o a) (legCe N c a) (hN a ha)
  · have : a = 0 ∨ a = 1 ∨ a = 2 := by omega
    rcases this with rfl | rfl | rfl <;> simp [Mesh.nAt, h2, hn]
  · unfold Region.lo; rw [h2, hr]; simp only [plainRegion]; rw [getD_tab _ _ _ _ ha]
  · unfold Region.hi; rw [h2, hr]; simp only [plainRegion]; rw [getD_tab _ _ _ _ ha]

/-- the hypotheses of `legacy_points_split` are met by a scalar file with 3 × 2 × 1 points whose
x block runs over two lines, with a side-car holding the whole region -/
example : ((legacyRead (legacyFileSplit [.alpha, .alpha] [.alpha] [] (fun a => [3, 2, 1].getD a 0)
      (fun a => [[0, 1/2], [5, 6], [-1]].getD a []) (fun a => [[LLine.nums [1]], [], []].getD a []) false
      [[1], [2], [3], [4], [5], [6]])
      (some [("w", { pmin := [-1/4, 9/2, -1 - nm1 / 2], pmax := [5/4, 13/2, -1 + nm1 / 2], dims := ["x", "y", "z"],
                     units := ["m", "m", "m"], tol := 1/1000000000000 })])).toOption.map
        fun f => (f.mesh.n, f.mesh.region.pmin, f.data.get [2, 1, 0], f.mesh.subs.map fun p => p.1)) =
    some ([3, 2, 1], [-1/4, 9/2, -1 - nm1 / 2], [6], ["w"]) := by decide +kernel

/-- **Refusal: no data marker.**  A point-data file without a line starting with `VECTORS` or
`SCALARS` is not read (whatever else it holds, with or without side-car). -/
theorem legacy_needs_marker (lines : List LLine) (sc : Option (List (String × Region)))
    (h : ∀ x ∈ lines, x ≠ .vectors ∧ x ≠ .scalars) : ∃ e, legacyRead lines sc = .error e := by
  have hv : lines.contains .vectors = false := by
    cases hc : lines.contains .vectors with
    | false => rfl
    | true => exact absurd rfl (h _ (List.contains_iff_mem.mp hc)).1
  have hm : afterMarker false lines = none :=
    afterMarker_none false lines (by intro x hx; simp [(h x hx).2])
  unfold legacyRead
  rw [hv]
  split
  · exact ⟨_, rfl⟩
  · split
    · exact ⟨_, rfl⟩
    · split
      · exact ⟨_, rfl⟩
      · split
        · exact ⟨_, rfl⟩
        · split
          · exact ⟨_, rfl⟩
          · simp only [hm]
            exact ⟨_, rfl⟩

/-- **Refusal: no `field` array.**  A cell-data file without an array called `field` is not
read, whatever other arrays it has. -/
theorem read_needs_field_array (g : Grid) (sc : Option (List (String × Region)))
    (h : ∀ a ∈ g.cell, a.name ≠ "field") : fromCells g sc = .error .runtime := by
  unfold fromCells
  rw [scan_fieldIdx_none g.cell 0 _ rfl h]

/-- **The reader, on any grid with cell data** (index-level spec of `_from_vtk`, also for files
`to_file` did not write: reordered, extra or missing side arrays).  Whenever the read succeeds,
everything comes from the grid alone: the values from the **last** array called `field`
(wherever it stands), cell `(i, j, k)` taking tuple `i + nx·(j + ny·k)`; the cell counts from
the dimensions (all positive); the corners from the bounds; the validity from the array called
`valid` as "entry ≠ 0" (`True` everywhere when there is none) — a Boolean whatever integers the
file holds; the labels from the names of all arrays other than `field` / `valid` / `norm`, in
file order, when their number is the number of components (default labels otherwise). -/
theorem reader_spec (g : Grid) (sc : Option (List (String × Region))) (f' : Fld) (nx ny nz : Nat)
    (hn : g.n = [nx, ny, nz]) (h : fromCells g sc = .ok f') :
    ∃ fi, fi < g.cell.length ∧ (g.cell.getD fi default).name = "field" ∧
      (∀ q, fi < q → q < g.cell.length → (g.cell.getD q default).name ≠ "field") ∧
      f'.mesh.n = [nx, ny, nz] ∧ 0 < nx ∧ 0 < ny ∧ 0 < nz ∧
      f'.mesh.region.pmin = (tab 3 fun a => min (g.p1.getD a 0) (g.p2.getD a 0)) ∧
      f'.mesh.region.pmax = (tab 3 fun a => max (g.p1.getD a 0) (g.p2.getD a 0)) ∧
      f'.nvdim = (g.cell.getD fi default).ncomp ∧ 1 ≤ f'.nvdim ∧
      (∀ i j k c, c < f'.nvdim → (f'.data.get [i, j, k]).getD c 0 =
        (g.cell.getD fi default).vals.getD (flatF [nx, ny, nz] [i, j, k] * f'.nvdim + c) 0) ∧
      (∀ i j k, f'.valid.get [i, j, k] =
        readFlag g (scan g.cell 0 ⟨none, none, []⟩).validIdx (flatF [nx, ny, nz] [i, j, k])) ∧
      vdimsSet f'.nvdim
        (if ((g.cell.filter isLabel).map fun a => a.name).length ≠ f'.nvdim then none
         else some ((g.cell.filter isLabel).map fun a => a.name)) = .ok f'.vdims := by
  obtain ⟨fi, h1, h2, h3, h4, h5, h6, h7, h8, h9, _, h11, h12, h13⟩ := fromCells_spec g sc f' nx ny nz hn h
  have hsc := scan_fieldIdx g.cell 0 ⟨none, none, []⟩ fi h1
  rcases hsc with ⟨hbad, _⟩ | ⟨_, k1, k2, k3⟩
  · cases hbad
  · simp only [Nat.sub_zero] at k1 k2 k3
    refine ⟨fi, k1, k2, k3, h2, h3, h4, h5, h6, h7, h8, h9, h11, h12, ?_⟩
    rw [scan_vdims] at h13
    simp only [List.nil_append] at h13
    rw [h8]
    exact h13

/-- the reader spec is not vacuous: a grid with the arrays in another order, an extra array
and flags other than 0/1 is read; values come from `field`, labels from the other names -/
example : ((fromCells (Grid.mk [3, 2, 2] [[0, 1, 2], [0, 1], [5, 7]]
      [⟨"field", 2, false, [1, 2, 3, 4]⟩, ⟨"valid", 1, true, [7, 0]⟩, ⟨"q", 1, false, [0, 0]⟩,
       ⟨"norm", 1, false, [0, 0]⟩, ⟨"p", 1, false, [0, 0]⟩]) none).toOption.map
      fun f => (f.data.get [1, 0, 0], f.valid.toList, f.vdims, f.mesh.region.pmax)) =
    some ([3, 4], [true, false], some ["q", "p"], [2, 1, 7]) := by decide +kernel

/-- A grid without cell data goes to the legacy reader, every other grid to `_from_vtk`'s own
path; the tokenised text is not looked at in the second case. -/
theorem read_dispatch (g : Grid) (lines lines' : List LLine) (sc : Option (List (String × Region))) :
    (g.cell = [] → readVtk g lines sc = legacyRead lines sc) ∧
    (g.cell ≠ [] → readVtk g lines sc = readVtk g lines' sc) := by
  constructor
  · intro h; simp [readVtk, h]
  · intro h
    have : g.cell.isEmpty = false := by
      cases hc : g.cell with
      | nil => exact absurd hc h
      | cons a l => rfl
    simp [readVtk, this]

/-! ## Non-vacuity and the label findings -/

/-- the grid of the example: x-fastest order of the four cells `(0,0,0), (1,0,0), (0,0,1), (1,0,1)` -/
example : (toVtk exField).toOption.map (fun g => (g.dims, g.coords, g.cell.map fun a => (a.name, a.vals))) =
    some ([3, 2, 3], [[-1, 0, 1], [0, 3], [1/2, 1, 3/2]],
      [("norm", [25, 169, 1, 197/4]), ("a", [3, 5, 0, 7]), ("b", [4, 12, -1, 1/2]),
       ("field", [3, 4, 5, 12, 0, -1, 7, 1/2]), ("valid", [1, 1, 0, 1])]) := by decide +kernel

/-- a point of the example region, and the top corner (last cells own their upper faces) -/
example : exField.mesh.region.containsExact [1/2, 3, 5/4] := by
  refine ⟨rfl, ?_⟩
  intro a ha
  have : a = 0 ∨ a = 1 ∨ a = 2 := by
    have : a < 3 := ha
    omega
  rcases this with rfl | rfl | rfl <;> decide +kernel

example : (toVtk exField).toOption.bind (fun g => locate g [1/2, 3, 5/4]) = some 3 := by decide +kernel
example : (toVtk exField).toOption.bind (fun g => locate g [0, 0, 1]) = some 3 := by decide +kernel
example : (toVtk exField).toOption.bind (fun g => locate g [-1/2, 1, 3/4]) = some 0 := by decide +kernel
example : (toVtk exField).toOption.bind (fun g => locate g [3/2, 1, 3/4]) = none := by decide +kernel

/-- the side-car of the example is accepted on the rebuilt mesh (hypotheses of
`roundtrip_subregions` / `file_roundtrip_exact`) -/
example : T.candOk (Mesh.mk (plainRegion exField.mesh.region.pmin exField.mesh.region.pmax) [2, 1, 2] "" [])
    (exField.mesh.subs.getD 0 default).2 = true := by decide +kernel

/-- the whole file round trip of the example (XML writer; text writer with an identity rounding) -/
example : ((toFile exField "xml" true id).bind fromFile).toOption.map
      (fun f => (f.mesh.region.pmin, f.mesh.region.pmax, f.mesh.n, f.data.toList)) =
    some ([-1, 0, 1/2], [1, 3, 3/2], [2, 1, 2], [[3, 4], [0, -1], [5, 12], [7, 1/2]]) := by decide +kernel
example : ((toFile exField "txt" true id).bind fromFile).toOption.map
      (fun f => (f.valid.toList, f.vdims)) =
    some ([true, false, true, true], some ["a", "b"]) := by decide +kernel
example : ((toFile exField "bin8" true id).bind fromFile).toOption.map
      (fun f => (f.mesh.subs.map fun p => (p.1, p.2.pmin, p.2.pmax))) =
    some ([("s", [0, 0, 1/2], [1, 3, 1])]) := by decide +kernel

/-- **Finding (labels).**  A scalar field's label is not written, so it is lost: the field
`nvdim = 1, vdims = ["s"]` comes back with `vdims = none`. -/
theorem scalar_label_lost :
    ((toFile { exField with nvdim := 1, vdims := some ["s"] } "bin" false id).bind fromFile).toOption.map
      (fun f => (f.nvdim, f.vdims)) = some (1, none) := by decide +kernel

/-- **Finding (labels).**  A component called `field` is overwritten by the vector array of the
same name (`AddArray` replaces by name); the reader then finds one label for two components
and falls back to the defaults: `["field", "b"]` comes back as `["x", "y"]`. -/
theorem field_label_lost :
    ((toFile { exField with vdims := some ["field", "b"] } "bin" false id).bind fromFile).toOption.map
      (fun f => (f.nvdim, f.vdims)) = some (2, some ["x", "y"]) := by decide +kernel

/-- **Finding (text form + side-car, D63).**  When the text writer's rounding moves the grid
coordinates, the exact side-car corners no longer fit the mesh rebuilt from the rounded bounds
and the whole read fails: the field `exThird` (x edge 2/3, subregion of one cell) under a
rounding to multiples of 1/8 is read back from the binary file with its subregion, is read back
from the text file **without** side-car (rounded corner 5/8, values kept), and cannot be read
back from the text file with side-car. -/
theorem text_sidecar_rejected_witness :
    (((toFile exThird "bin" true rnd8).bind fromFile).toOption.map fun f => f.mesh.subs.map fun p => p.1) = some ["s"] ∧
    (((toFile exThird "txt" false rnd8).bind fromFile).toOption.map fun f => (f.mesh.region.pmax, f.data.get [1, 0, 1])) =
      some ([5/8, 3, 1], [7, 1/2]) ∧
    (((toFile exThird "txt" true rnd8).bind fromFile).toOption.map fun f => f.mesh.subs.map fun p => p.1) = none := by
  refine ⟨?_, ?_, ?_⟩ <;> decide +kernel

/-! ## round 6: acceptance as equivalences, the legacy writer's layout, any labels (D61 / D62
exactly), the text form and stale side-cars exactly (D63 / D64), malformed legacy files -/

/-- **`to_vtk` is accepted exactly for** three-dimensional fields that are labelled when they have
more than one component; a field that is not 3-d is refused with `RuntimeError` (before the
labels are looked at), an unlabelled 3-d vector field with the labels error — whatever the
number of components, the values, the mask, the subregions. -/
theorem to_vtk_accepted_iff (f : Fld) :
    ((∃ g, toVtk f = .ok g) ↔ (f.mesh.region.ndim = 3 ∧ ¬ (1 < f.nvdim ∧ f.vdims = none))) ∧
    (f.mesh.region.ndim ≠ 3 → toVtk f = .error .runtime) ∧
    (f.mesh.region.ndim = 3 → 1 < f.nvdim → f.vdims = none → toVtk f = .error .value) := by
  unfold toVtk
  by_cases h3 : f.mesh.region.ndim = 3
  · by_cases hl : 1 < f.nvdim ∧ f.vdims = none
    · rw [if_neg (not_not.mpr h3), if_pos hl]
      refine ⟨⟨fun ⟨_, h⟩ => (by cases h), fun h => absurd hl h.2⟩, fun h => absurd h3 h, fun _ _ _ => rfl⟩
    · rw [if_neg (not_not.mpr h3), if_neg hl]
      exact ⟨⟨fun _ => ⟨h3, hl⟩, fun _ => ⟨_, rfl⟩⟩, fun h => absurd h3 h, fun _ a b => absurd ⟨a, b⟩ hl⟩
  · rw [if_pos h3]
    exact ⟨⟨fun ⟨_, h⟩ => (by cases h), fun h => absurd h.1 h3⟩, fun _ => rfl, fun h => absurd h h3⟩

/-- **The reader depends on the file only through three things**: the LAST array called `field`,
the LAST array called `valid`, and the names of the other arrays except `norm` in file order
(besides dimensions and coordinates).  Two grids that agree on these read the same — whatever
the order of the arrays, whatever else they hold. -/
theorem reader_depends_on_parts (g g' : Grid) (sc : Option (List (String × Region)))
    (hd : g'.dims = g.dims) (hc : g'.coords = g.coords)
    (hf : lastNamed "field" g'.cell = lastNamed "field" g.cell)
    (hv : lastNamed "valid" g'.cell = lastNamed "valid" g.cell)
    (hl : labelNames g'.cell = labelNames g.cell) : fromCells g' sc = fromCells g sc := by
  rw [fromCells_eq, fromCells_eq, hf, hv, hl]
  have e1 : g'.n = g.n := by unfold Grid.n; rw [hd]
  have e2 : g'.p1 = g.p1 := by unfold Grid.p1 Grid.ax; rw [hc]
  have e3 : g'.p2 = g.p2 := by unfold Grid.p2 Grid.ax; rw [hc]
  rw [e1, e2, e3]

/-- **The cell-data reader accepts exactly the well-formed files** (refused ⇔ malformed), for any
grid and any side-car: there is an array called `field` with at least one component and one tuple
per cell; the array called `valid`, if any, has one entry per cell; there are three dimensions,
each at least 2 points; on no axis the first and the last coordinate coincide; the names of the
label arrays, when they are as many as components, are distinct; and the side-car (if any) loads
on the mesh built from bounds and dimensions. -/
theorem reader_accepts_iff (g : Grid) (sc : Option (List (String × Region))) :
    (∃ f', fromCells g sc = .ok f') ↔
      ∃ a, lastNamed "field" g.cell = some a ∧ 1 ≤ a.ncomp ∧ a.vals.length = natProd g.n * a.ncomp ∧
        (∀ v, lastNamed "valid" g.cell = some v → v.vals.length = natProd g.n) ∧
        g.dims.length = 3 ∧ (∀ k ∈ g.dims, 2 ≤ k) ∧
        (∀ ax, ax < 3 → (g.ax ax).getD 0 0 ≠ (g.ax ax).getD ((g.ax ax).length - 1) 0) ∧
        ((labelNames g.cell).length = a.ncomp → hasDup (labelNames g.cell) = false) ∧
        ∃ m, loadSubs (boundsMesh g.p1 g.p2 g.n) sc = .ok m := by
  rw [fromCells_eq, fromParts_ok_iff]
  obtain ⟨hm1, hm2⟩ := meshOf_ok_iff3 g.p1 g.p2 g.n (by simp [Grid.p1]) (by simp [Grid.p2])
  have hgeo : ((∀ a, a < 3 → g.p1.getD a 0 ≠ g.p2.getD a 0) ∧ g.n.length = 3 ∧ ∀ k ∈ g.n, k ≠ 0) ↔
      (g.dims.length = 3 ∧ (∀ k ∈ g.dims, 2 ≤ k) ∧
        ∀ ax, ax < 3 → (g.ax ax).getD 0 0 ≠ (g.ax ax).getD ((g.ax ax).length - 1) 0) := by
    have e1 : ∀ a, a < 3 → g.p1.getD a 0 = (g.ax a).getD 0 0 := fun a ha => by
      unfold Grid.p1; rw [getD_tab _ _ _ _ ha]
    have e2 : ∀ a, a < 3 → g.p2.getD a 0 = (g.ax a).getD ((g.ax a).length - 1) 0 := fun a ha => by
      unfold Grid.p2; rw [getD_tab _ _ _ _ ha]
    have e3 : g.n.length = g.dims.length := by simp [Grid.n]
    have e4 : (∀ k ∈ g.n, k ≠ 0) ↔ ∀ k ∈ g.dims, 2 ≤ k := by
      unfold Grid.n
      constructor
      · intro h k hk
        have := h (k - 1) (List.mem_map.mpr ⟨k, hk, rfl⟩)
        omega
      · intro h k hk
        obtain ⟨q, hq, rfl⟩ := List.mem_map.mp hk
        have := h q hq
        omega
    rw [e3, e4]
    constructor
    · rintro ⟨a, b, c⟩
      exact ⟨b, c, fun ax hax => by rw [← e1 ax hax, ← e2 ax hax]; exact a ax hax⟩
    · rintro ⟨b, c, a⟩
      exact ⟨fun ax hax => by rw [e1 ax hax, e2 ax hax]; exact a ax hax, b, c⟩
  constructor
  · rintro ⟨a, ha, h1, h2, ⟨m0, m, hm0, hm⟩, h3, h4⟩
    have hcond := hgeo.mp (hm1.mp ⟨m0, hm0⟩)
    have := hm2 m0 hm0
    subst this
    exact ⟨a, ha, h3, h1, h2, hcond.1, hcond.2.1, hcond.2.2, h4, m, hm⟩
  · rintro ⟨a, ha, h3, h1, h2, c1, c2, c3, h4, m, hm⟩
    obtain ⟨m0, hm0⟩ := hm1.mpr (hgeo.mpr ⟨c1, c2, c3⟩)
    have := hm2 m0 hm0
    subst this
    exact ⟨a, ha, h1, h2, ⟨_, m, hm0, hm⟩, h3, h4⟩

/-- the acceptance conditions are met by a grid with reordered arrays, an extra array and two
arrays called `field` (the last one counts) -/
example : ((fromCells (Grid.mk [3, 2, 2] [[0, 1, 2], [0, 1], [5, 7]]
      [⟨"field", 1, false, [9, 9]⟩, ⟨"q", 1, false, [0, 0]⟩, ⟨"field", 2, false, [1, 2, 3, 4]⟩,
       ⟨"norm", 1, false, [0, 0]⟩, ⟨"p", 1, false, [0, 0]⟩]) none).toOption.map fun f => (f.data.get [1, 0, 0], f.vdims)) =
    some ([3, 4], some ["q", "p"]) := by decide +kernel

/-- **The side-car loads exactly when every entry passes the subregion setter's test** on the
mesh it is loaded on (entries that are regions: ordered corners, matching lengths): one failing
entry refuses the whole read, nothing is dropped silently. -/
theorem sidecar_loads_iff (m : Mesh) (l : List (String × Region)) (hinv : ∀ p ∈ l, p.2.Inv) :
    (∃ m1, loadSubs m (some l) = .ok m1) ↔ ∀ p ∈ l, T.candOk m p.2 = true :=
  loadSubs_ok_iff m l hinv

/-! ### what the code hands to the writers, and what the writers make of it -/

/-- **Every array, value by value** (array level, every shape, every number of components).  In
the grid of a well-formed field the flat buffer of `field` holds at position `q` component
`q mod nvdim` of mesh cell `unflatF n (q div nvdim)` (cells x-fastest, components of a cell
adjacent); `norm` holds at `t` the squared length of cell `unflatF n t`; `valid` (integer-typed)
1 or 0; and the scalar array named after label number `c` holds at `t` component `c` of that cell. -/
theorem cell_arrays_explicit (f : Fld) (nx ny nz : Nat) (h : WF f nx ny nz) (g : Grid) (hg : toVtk f = .ok g) :
    (∃ a, g.arr "field" = some a ∧ a.ncomp = f.nvdim ∧ a.int = false ∧
      a.vals = tab (natProd [nx, ny, nz] * f.nvdim) fun q =>
        (f.data.get (unflatF [nx, ny, nz] (q / f.nvdim))).getD (q % f.nvdim) 0) ∧
    (∃ a, g.arr "norm" = some a ∧ a.ncomp = 1 ∧ a.int = false ∧
      a.vals = tab (natProd [nx, ny, nz]) fun t => sumSq (f.data.get (unflatF [nx, ny, nz] t)) f.nvdim) ∧
    (∃ a, g.arr "valid" = some a ∧ a.ncomp = 1 ∧ a.int = true ∧
      a.vals = tab (natProd [nx, ny, nz]) fun t => if f.valid.get (unflatF [nx, ny, nz] t) then 1 else 0) ∧
    (1 < f.nvdim → ∀ vs, f.vdims = some vs → ∀ c, c < vs.length →
      ∃ a, g.arr (vs.getD c "") = some a ∧ a.ncomp = 1 ∧ a.int = false ∧
        a.vals = tab (natProd [nx, ny, nz]) fun t => (f.data.get (unflatF [nx, ny, nz] t)).getD c 0) := by
  refine ⟨⟨_, arr_field f nx ny nz h g hg, rfl, rfl, fieldVArr_vals f nx ny nz h.dshape⟩,
    ⟨_, arr_norm f nx ny nz h g hg, rfl, rfl, normVArr_vals f nx ny nz h.dshape⟩,
    ⟨_, arr_valid f nx ny nz h g hg, rfl, rfl, validVArr_vals f nx ny nz h.vshape⟩, ?_⟩
  intro hnv vs hvs c hc
  obtain ⟨vs', hvs', _, hd, _⟩ := h.labels hnv
  rw [hvs] at hvs'; cases hvs'
  have hl : vs.getD c "" ∈ vs := by
    rw [List.getD_eq_getElem?_getD, List.getElem?_eq_getElem hc]; simp
  refine ⟨_, arr_comp f nx ny nz h g hg hnv vs hvs _ hl, rfl, rfl, ?_⟩
  rw [compVArr_vals f nx ny nz h.dshape vs, indexOf_getD vs hd c hc]
  rfl

/-- **The legacy (`bin` / `bin8` / `txt`) file of a well-formed field, section by section.**
With three components the file has `VECTORS field` followed by a `FIELD` block holding `norm`,
one scalar per label, `valid`; with one component `SCALARS field` (+ lookup table) followed by a
`FIELD` block with `norm`, `valid`; otherwise a single `FIELD` block with `norm`, the label
scalars, `field`, `valid`.  A VTK reader returns the arrays in this file order: `field` first
exactly when the field has one or three components. -/
theorem legacy_file_layout (f : Fld) (nx ny nz : Nat) (h : WF f nx ny nz) (g : Grid) (hg : toVtk f = .ok g) :
    legacySections (activeAttr f) g.cell =
      (if f.nvdim = 3 then [.vectors "field", .field ("norm" :: ((f.vdims.getD []) ++ ["valid"]))]
       else if f.nvdim = 1 then [.scalars "field", .field ["norm", "valid"]]
       else [.field ("norm" :: ((f.vdims.getD []) ++ ["field", "valid"]))]) ∧
    (writtenGrid .bin (activeAttr f) id g).cell.map (fun a => a.name) =
      (if f.nvdim = 3 then "field" :: "norm" :: ((f.vdims.getD []) ++ ["valid"])
       else if f.nvdim = 1 then ["field", "norm", "valid"]
       else "norm" :: ((f.vdims.getD []) ++ ["field", "valid"])) ∧
    (writtenGrid .xml (activeAttr f) id g).cell = g.cell := by
  rw [toVtk_ok f nx ny nz h] at hg
  injection hg with hg
  subst hg
  refine ⟨legacySections_wf f nx ny nz h, ?_, rfl⟩
  simp only [writtenGrid]
  rw [legacyOrder_wf f nx ny nz h]
  have hn := comps_names_list f
  by_cases h3 : f.nvdim = 3
  · have hnv : 1 < f.nvdim := by omega
    rw [if_pos hnv] at hn
    rw [if_pos (Or.inl h3), if_pos h3]
    simp only [List.map_cons, List.map_append, List.map_nil, hn]
    rfl
  · by_cases h1 : f.nvdim = 1
    · have hnv : ¬ 1 < f.nvdim := by omega
      rw [if_neg hnv] at hn
      rw [if_pos (Or.inr h1), if_neg h3, if_pos h1]
      simp only [List.map_cons, List.map_append, List.map_nil, hn]
      rfl
    · have hnv : 1 < f.nvdim := by have := h.nv; omega
      rw [if_pos hnv] at hn
      rw [if_neg (by omega), if_neg h3, if_neg h1]
      simp only [List.map_cons, List.map_append, List.map_nil, hn]
      rfl

/-- the layout of the example (two components: one `FIELD` block, order kept) and of its
three-component and one-component variants -/
example : (toVtk exField).toOption.map (fun g => (legacySections (activeAttr exField) g.cell,
      (writtenGrid .bin (activeAttr exField) id g).cell.map fun a => a.name)) =
    some ([.field ["norm", "a", "b", "field", "valid"]], ["norm", "a", "b", "field", "valid"]) := by decide +kernel
example : (toVtk { exField with nvdim := 1 }).toOption.map (fun g => (legacySections (activeAttr { exField with nvdim := 1 }) g.cell,
      (writtenGrid .txt (activeAttr { exField with nvdim := 1 }) id g).cell.map fun a => a.name)) =
    some ([.scalars "field", .field ["norm", "valid"]], ["field", "norm", "valid"]) := by decide +kernel

/-- **The legacy writer's reordering never matters to the reader**: for any grid (not only those
`to_vtk` builds), any rounding, any side-car, reading the grid a VTK reader returns for the
written file gives what reading the grid itself (value-wise rounded, in the text form) gives. -/
theorem reader_ignores_file_order (f : Fld) (r : Rep) (rnd : Rat → Rat) (g : Grid) (lines : List LLine)
    (sc : Option (List (String × Region))) :
    readVtk (writtenGrid r (activeAttr f) rnd g) lines sc = readVtk (if r = .txt then mapGrid rnd g else g) lines sc :=
  readVtk_writtenGrid f r rnd g lines sc

/-! ### cell positions -/

/-- **VTK cell `t` is mesh cell `unflatF n t`, box and content** (all cell counts, anisotropic
cells, any offset).  For every cell id `t < nx·ny·nz` with `(i₀, i₁, i₂) = unflatF n t`: on every
axis `a` the two grid coordinates that bound VTK cell `t` — entries `i_a` and `i_a + 1` of the
coordinate array — are the faces `pmin + i_a·cell` and `pmin + (i_a+1)·cell` of that mesh cell,
their midpoint is the mesh's cell centre, and tuple `t` of `field` / `valid` is the cell's vector /
flag. -/
theorem vtk_cell_is_mesh_cell (f : Fld) (nx ny nz : Nat) (h : WF f nx ny nz) (g : Grid) (hg : toVtk f = .ok g)
    (t : Nat) (ht : t < natProd [nx, ny, nz]) :
    (∀ a, a < 3 →
      (unflatF [nx, ny, nz] t).getD a 0 < f.mesh.nAt a ∧
      (g.ax a).getD ((unflatF [nx, ny, nz] t).getD a 0) 0 =
        f.mesh.region.lo a + ((unflatF [nx, ny, nz] t).getD a 0 : Rat) * f.mesh.cellAt a ∧
      (g.ax a).getD ((unflatF [nx, ny, nz] t).getD a 0 + 1) 0 =
        f.mesh.region.lo a + (((unflatF [nx, ny, nz] t).getD a 0 : Rat) + 1) * f.mesh.cellAt a ∧
      ((g.ax a).getD ((unflatF [nx, ny, nz] t).getD a 0) 0 + (g.ax a).getD ((unflatF [nx, ny, nz] t).getD a 0 + 1) 0) / 2 =
        f.mesh.centreAx a ((unflatF [nx, ny, nz] t).getD a 0 : Int)) ∧
    (∃ a, g.arr "field" = some a ∧ a.tuple t = tab f.nvdim fun c => (f.data.get (unflatF [nx, ny, nz] t)).getD c 0) ∧
    (∃ a, g.arr "valid" = some a ∧ a.tuple t = [if f.valid.get (unflatF [nx, ny, nz] t) then 1 else 0]) := by
  obtain ⟨hx, hy, hz⟩ := wf_pos f nx ny nz h
  obtain ⟨hir, _, _, hf, _, hv⟩ := cell_id_is_mesh_cell f nx ny nz h g hg t ht
  obtain ⟨_, _, _, _, hn0, hn1, hn2⟩ := mesh_axes f nx ny nz h
  refine ⟨?_, hf, hv⟩
  intro a ha
  obtain ⟨i, j, k, e, hi, hj, hk⟩ := inRange3_cases nx ny nz _ hir
  have hlt : (unflatF [nx, ny, nz] t).getD a 0 < f.mesh.nAt a := by
    rw [e]
    have : a = 0 ∨ a = 1 ∨ a = 2 := by omega
    rcases this with rfl | rfl | rfl
    · rw [hn0]; simpa using hi
    · rw [hn1]; simpa using hj
    · rw [hn2]; simpa using hk
  obtain ⟨_, hco⟩ := grid_coordinates f nx ny nz h g hg a ha
  have c1 := hco _ (le_of_lt hlt)
  have c2 := hco ((unflatF [nx, ny, nz] t).getD a 0 + 1) (by omega)
  refine ⟨hlt, c1, by rw [c2]; push_cast; ring, ?_⟩
  rw [c1, c2]
  unfold Mesh.centreAx
  push_cast
  ring

/-- the example: VTK cell 3 is mesh cell (1, 0, 1) -/
example : unflatF [2, 1, 2] 3 = [1, 0, 1] := by decide

/-! ### any labels: D61 and D62 as exact conditions -/

/-- **`to_vtk` for any distinct labels.**  Nothing about the labels beyond what every field
satisfies (as many as components, distinct) is needed for the conversion to succeed and for the
`field` and `valid` arrays to be right: `GetArray("field")` is always the vector array (also when
a component is called `field` — its scalar array is then replaced, finding D61) and
`GetArray("valid")` the flags, so the lookup theorems for values and validity hold for every label set. -/
theorem grid_any_labels (f : Fld) (nx ny nz : Nat) (h : WFc f nx ny nz) :
    ∃ g, toVtk f = .ok g ∧ g.dims = [nx + 1, ny + 1, nz + 1] ∧
      g.arr "field" = some (fieldVArr f) ∧ g.arr "valid" = some (validVArr f) ∧
      ∀ idx, inRange [nx, ny, nz] idx = true →
        (fieldVArr f).tuple (flatF [nx, ny, nz] idx) = (tab f.nvdim fun c => (f.data.get idx).getD c 0) ∧
        (validVArr f).tuple (flatF [nx, ny, nz] idx) = [if f.valid.get idx then 1 else 0] := by
  refine ⟨_, toVtk_okc f nx ny nz h, rfl, ?_, ?_, ?_⟩
  · simp only [Grid.arr]
    rw [find_eq_lastNamed _ _ (cellData_nodup f)]
    exact cellData_field f
  · simp only [Grid.arr]
    rw [find_eq_lastNamed _ _ (cellData_nodup f)]
    exact cellData_valid f
  · intro idx hi
    exact ⟨field_tuple f nx ny nz h.dshape idx hi, valid_tuple f nx ny nz h.vshape idx hi⟩

/-- **Round trip for any distinct labels** (binary and XML files, no loader hypothesis).  For every
3-d field as the constructor leaves it — whatever its labels — whose subregions fit its mesh:
the write and the read succeed; corners, counts, number of components, values, validity and
(saved) subregions come back exactly; and the labels come back as
* `None` for a one-component field (its label, if any, is not written: finding D62),
* the labels themselves when none of them is `field`, `valid` or `norm`,
* the DEFAULT labels (`x y z` / `v0 v1 …`) otherwise (finding D61). -/
theorem roundtrip_any_labels (f : Fld) (nx ny nz : Nat) (h : WFc f nx ny nz) (hsub : C14.SubInv f.mesh)
    (rep : String) (hrep : rep = "xml" ∨ rep = "bin" ∨ rep = "bin8") (save : Bool) (rnd : Rat → Rat) :
    ∃ v f', toFile f rep save rnd = .ok v ∧ fromFile v = .ok f' ∧
      f'.mesh.region.pmin = f.mesh.region.pmin ∧ f'.mesh.region.pmax = f.mesh.region.pmax ∧
      f'.mesh.n = f.mesh.n ∧ f'.nvdim = f.nvdim ∧
      f'.vdims = (if f.nvdim = 1 then none
                  else if ∀ l ∈ f.vdims.getD [], isLabelName l = true then f.vdims else Fld.defaultVdims f.nvdim) ∧
      f'.mesh.subs.map (fun p => (p.1, p.2.pmin, p.2.pmax)) =
        (if save then f.mesh.subs else []).map (fun p => (p.1, p.2.pmin, p.2.pmax)) ∧
      ∀ idx, inRange [nx, ny, nz] idx = true →
        f'.data.get idx = (tab f.nvdim fun c => (f.data.get idx).getD c 0) ∧
        f'.valid.get idx = f.valid.get idx := by
  have hw := scalarised_wf f nx ny nz h
  have hm1 := loadSubs_written (scalarised f) nx ny nz hw hsub save
  have hmesh : (scalarised f).mesh = f.mesh := rfl
  rw [hmesh] at hm1
  obtain ⟨f', h1, h2, h3, h4, _, h6⟩ := fromCells_toVtkc f nx ny nz h _ _ hm1
  have hr : ∃ r, repOf rep = .ok r ∧ r ≠ .txt := by
    rcases hrep with rfl | rfl | rfl
    · exact ⟨.xml, by decide, by decide⟩
    · exact ⟨.bin, by decide, by decide⟩
    · exact ⟨.bin, by decide, by decide⟩
  obtain ⟨r, hr1, hr2⟩ := hr
  refine ⟨_, f', by unfold toFile; rw [hr1, toVtk_okc f nx ny nz h], ?_, ?_, ?_, ?_, h3, h4, ?_, h6⟩
  · simp only [fromFile]
    rw [readVtk_writtenGrid, if_neg hr2]
    simp only [readVtk, cellData_nonempty]
    exact h1
  · rw [h2]; rfl
  · rw [h2]; rfl
  · rw [h2, h.n]; rfl
  · rw [h2]
    cases save
    · rfl
    · simp [List.map_map, Function.comp_def, rebuilt]

/-- **D61 and D62 as one exact condition.**  Under the hypotheses of `roundtrip_any_labels`, the
labels read back are the labels written **if and only if** a one-component field is unlabelled
and a field with several components has no component called `field`, `valid` or `norm` (the
`vdims` setter already refuses `valid` and `norm`, which are attributes of `Field`; so for real
fields: iff no component is called `field`).  In every other case the labels are lost — and only
the labels: values, validity, geometry and subregions still come back exactly. -/
theorem labels_preserved_iff (f : Fld) (nx ny nz : Nat) (h : WFc f nx ny nz) (f' : Fld)
    (hread : f'.vdims = (if f.nvdim = 1 then none
                  else if ∀ l ∈ f.vdims.getD [], isLabelName l = true then f.vdims else Fld.defaultVdims f.nvdim)) :
    f'.vdims = f.vdims ↔
      ((f.nvdim = 1 → f.vdims = none) ∧ (1 < f.nvdim → ∀ l ∈ f.vdims.getD [], l ≠ "field" ∧ l ≠ "valid" ∧ l ≠ "norm")) := by
  rw [hread]
  by_cases h1 : f.nvdim = 1
  · rw [if_pos h1]
    constructor
    · intro e; exact ⟨fun _ => e.symm, fun hh => by omega⟩
    · intro hh; exact (hh.1 h1).symm
  · have hnv : 1 < f.nvdim := by have := h.nv; omega
    obtain ⟨vs, hvs, hlen, _⟩ := h.labels hnv
    rw [if_neg h1, hvs]
    simp only [Option.getD_some]
    have hiff : ∀ l : String, isLabelName l = true ↔ (l ≠ "field" ∧ l ≠ "valid" ∧ l ≠ "norm") := by
      intro l
      simp [isLabelName, and_assoc]
    by_cases hall : ∀ l ∈ vs, isLabelName l = true
    · rw [if_pos hall]
      exact ⟨fun _ => ⟨fun hh => absurd hh h1, fun _ l hl => (hiff l).mp (hall l hl)⟩, fun _ => rfl⟩
    · rw [if_neg hall]
      constructor
      · intro e
        exfalso
        apply hall
        exact default_labels_plain f.nvdim vs e
      · rintro ⟨_, hh⟩
        exfalso
        apply hall
        intro l hl
        exact (hiff l).mpr (hh hnv l hl)

/-- the weak well-formedness is met by the example relabelled `["field", "b"]` (the D61 class),
and the round trip then returns the default labels -/
example : WFc { exField with vdims := some ["field", "b"] } 2 1 2 :=
  ⟨exField_wf.mesh, rfl, rfl, rfl, by decide, fun _ => ⟨["field", "b"], rfl, rfl, by decide⟩⟩

/-! ### the text form and the side-car, exactly (D63) -/

/-- **D63 as an equivalence.**  For every 3-d field (any labels), any rounding `rnd` of the text
writer, with or without `save_subregions`: the text file `to_file` writes is read back by
`from_file` **if and only if** no edge of the region collapses under the rounding and — when a
side-car was written — every subregion passes the subregion setter's test on the mesh with the
ROUNDED corners.  (The side-car holds the exact corners; so with saved subregions and geometry
that ten digits do not hold the read fails, and only then.) -/
theorem text_file_accepted_iff (f : Fld) (nx ny nz : Nat) (h : WFc f nx ny nz) (hinv : ∀ p ∈ f.mesh.subs, p.2.Inv)
    (save : Bool) (rnd : Rat → Rat) :
    (∃ f', (toFile f "txt" save rnd).bind fromFile = .ok f') ↔
      ((∀ a, a < 3 → rnd (f.mesh.region.lo a) ≠ rnd (f.mesh.region.hi a)) ∧
       (save = true → ∀ p ∈ f.mesh.subs,
         T.candOk (boundsMesh (tab 3 fun a => rnd (f.mesh.region.lo a)) (tab 3 fun a => rnd (f.mesh.region.hi a)) [nx, ny, nz])
           p.2 = true)) := by
  have hr : repOf "txt" = .ok .txt := by decide
  have hw : toFile f "txt" save rnd = .ok ⟨.txt, writtenGrid .txt (activeAttr f) rnd
      { dims := [nx + 1, ny + 1, nz + 1], coords := tab 3 fun a => f.mesh.vertices.getD a [], cell := cellData f },
      if save && !f.mesh.subs.isEmpty then some f.mesh.subs else none⟩ := by
    unfold toFile; rw [hr, toVtk_okc f nx ny nz h]
  rw [hw]
  simp only [Except.bind, fromFile]
  rw [readVtk_writtenGrid, if_pos rfl]
  have hne : (mapGrid rnd { dims := [nx + 1, ny + 1, nz + 1], coords := tab 3 fun a => f.mesh.vertices.getD a [],
                            cell := cellData f }).cell.isEmpty = false := by
    rw [mapGrid_cell, List.isEmpty_map]; exact cellData_nonempty f
  simp only [readVtk, hne, Bool.false_eq_true, if_false]
  rw [text_read_ok_iff f nx ny nz h rnd _ (by
    intro l hl p hp
    split at hl
    · injection hl with hl; subst hl; exact hinv p hp
    · cases hl)]
  constructor
  · rintro ⟨a, b⟩
    refine ⟨a, ?_⟩
    intro hs p hp
    have hne' : f.mesh.subs.isEmpty = false := by
      cases hsub : f.mesh.subs with
      | nil => rw [hsub] at hp; cases hp
      | cons _ _ => rfl
    exact b f.mesh.subs (by simp [hs, hne']) p hp
  · rintro ⟨a, b⟩
    refine ⟨a, ?_⟩
    intro l hl p hp
    split at hl
    · rename_i hc
      injection hl with hl
      subst hl
      have : save = true := by
        cases save
        · simp at hc
        · rfl
      exact b this p hp
    · cases hl

/-- D63's witness and its two neighbours through the equivalence: `exThird` under the rounding to
multiples of 1/8 is read back without side-car and is not read back with it -/
example : (((toFile exThird "txt" false rnd8).bind fromFile).toOption.isSome,
    ((toFile exThird "txt" true rnd8).bind fromFile).toOption.isSome) = (true, false) := by decide +kernel

/-- **Text form, corners that the writer keeps: no loader hypothesis.**  If the text writer's
rounding fixes the six corner coordinates of the region (they have at most ten significant
digits), then for every well-formed field whose subregions fit its mesh the text file is read
back with the same corners, counts, labels and subregions (names, order, corners), every value
rounded value-wise, every flag exact — whatever the rounding does to the inner grid coordinates. -/
theorem text_roundtrip_fixed_corners (f : Fld) (nx ny nz : Nat) (h : WF f nx ny nz) (hsub : C14.SubInv f.mesh)
    (save : Bool) (rnd : Rat → Rat)
    (hfix : ∀ a, a < 3 → rnd (f.mesh.region.lo a) = f.mesh.region.lo a ∧ rnd (f.mesh.region.hi a) = f.mesh.region.hi a) :
    ∃ v f', toFile f "txt" save rnd = .ok v ∧ fromFile v = .ok f' ∧
      f'.mesh.region.pmin = f.mesh.region.pmin ∧ f'.mesh.region.pmax = f.mesh.region.pmax ∧ f'.mesh.n = [nx, ny, nz] ∧
      f'.nvdim = f.nvdim ∧ f'.vdims = (if f.nvdim = 1 then none else f.vdims) ∧
      f'.mesh.subs.map (fun p => (p.1, p.2.pmin, p.2.pmax)) =
        (if save then f.mesh.subs else []).map (fun p => (p.1, p.2.pmin, p.2.pmax)) ∧
      ∀ idx, inRange [nx, ny, nz] idx = true →
        f'.data.get idx = (tab f.nvdim fun c => rnd ((f.data.get idx).getD c 0)) ∧
        f'.valid.get idx = f.valid.get idx := by
  obtain ⟨_, hl1, hl2, hax, _, _, _⟩ := mesh_axes f nx ny nz h
  have e1 : (tab 3 fun a => rnd (f.mesh.region.lo a)) = f.mesh.region.pmin := by
    symm; apply eq_tab_of_getD _ 3 _ 0 hl1
    intro a ha; exact (hfix a ha).1.symm
  have e2 : (tab 3 fun a => rnd (f.mesh.region.hi a)) = f.mesh.region.pmax := by
    symm; apply eq_tab_of_getD _ 3 _ 0 hl2
    intro a ha; exact (hfix a ha).2.symm
  have hm1 := loadSubs_written f nx ny nz h hsub save
  obtain ⟨v, f', a1, a2, a3, a4, a5, a6⟩ := file_roundtrip_text f nx ny nz h save rnd
    (fun a ha => by rw [(hfix a ha).1, (hfix a ha).2]; exact (hax a ha).2) _ (by rw [e1, e2]; exact hm1)
  refine ⟨v, f', a1, a2, by rw [a3]; rfl, by rw [a3]; rfl, by rw [a3]; rfl, a4, a5, ?_, a6⟩
  rw [a3]
  cases save
  · rfl
  · simp [List.map_map, Function.comp_def, rebuilt]

/-- the hypothesis is met by the example field and the rounding to multiples of 1/8 (its corners
are multiples of 1/2) -/
example : ∀ a, a < 3 → rnd8 (exField.mesh.region.lo a) = exField.mesh.region.lo a ∧
    rnd8 (exField.mesh.region.hi a) = exField.mesh.region.hi a := by
  intro a ha
  have : a = 0 ∨ a = 1 ∨ a = 2 := by omega
  rcases this with rfl | rfl | rfl <;> decide +kernel

/-! ### stale side-cars, exactly (D64) -/

/-- **Invariant over histories**: side-car files are never empty and never removed.  Starting
from a directory whose side-cars each hold at least one subregion (in particular the empty
directory), after ANY session every side-car still does; and a side-car of a given name is
absent after the session exactly when it was absent before and no call of the session was a
successful `to_file` under that name with `save_subregions` on a mesh that has subregions. -/
theorem sidecars_over_histories (rnd : Rat → Rat) (d : Dir) (ops : List DOp) (name : String) :
    (CarsNonempty d → CarsNonempty (Dir.after rnd d ops)) ∧
    (look (Dir.after rnd d ops).json name = none ↔ (look d.json name = none ∧ ∀ o ∈ ops, ¬ o.writesCar rnd name)) :=
  ⟨cars_after rnd d ops, after_json_none_iff rnd d ops name⟩

/-- **D64 as an equivalence.**  Take the empty directory, any session `before`, then a `to_file`
of a well-formed field (subregions fitting, `xml` / `bin` / `bin8`) under `name`, then
`from_file(name)`.  The read returns the subregions this call was asked to save (names, order,
corners; none without `save_subregions`) **if and only if** this call wrote its side-car (saved,
and the mesh has subregions) or no earlier call of the session wrote a side-car under that name.
In the remaining case — an old side-car, no new one — the read fails or returns subregions of an
earlier field. -/
theorem stale_sidecar_iff (f : Fld) (nx ny nz : Nat) (h : WF f nx ny nz) (hsub : C14.SubInv f.mesh)
    (rep : String) (hrep : rep = "xml" ∨ rep = "bin" ∨ rep = "bin8") (save : Bool) (rnd : Rat → Rat)
    (before : List DOp) (name : String) :
    (∃ f', (Dir.run rnd ⟨[], []⟩ (before ++ [.write name f rep save, .read name])).getLast? = some (.ok (some f')) ∧
        f'.mesh.subs.map (fun p => (p.1, p.2.pmin, p.2.pmax)) =
          (if save then f.mesh.subs else []).map (fun p => (p.1, p.2.pmin, p.2.pmax))) ↔
      ((save = true ∧ f.mesh.subs.isEmpty = false) ∨ ∀ o ∈ before, ¬ o.writesCar rnd name) := by
  have hcars : CarsNonempty (Dir.after rnd ⟨[], []⟩ before) := cars_after rnd _ before (by intro p hp; cases hp)
  have hnone := after_json_none_iff rnd ⟨[], []⟩ before name
  obtain ⟨v, _, hv, _⟩ := file_roundtrip_exact_subs f nx ny nz h hsub rep hrep save rnd
  have hlast := read_after_history rnd ⟨[], []⟩ before [] name f rep save v hv (by intro o ho; cases ho)
  simp only [List.nil_append] at hlast
  rw [hlast]
  constructor
  · rintro ⟨f', hf', hs⟩
    by_contra hcon
    rw [not_or] at hcon
    obtain ⟨c1, c2⟩ := hcon
    have hsc : v.sidecar = none := by
      rw [(file_written f rep save rnd v hv).2.2]
      rw [if_neg]
      intro hc
      apply c1
      simpa using hc
    have hold : look (Dir.after rnd ⟨[], []⟩ before).json name ≠ none := by
      intro hn
      exact c2 (hnone.mp hn).2
    cases hlk : look (Dir.after rnd ⟨[], []⟩ before).json name with
    | none => exact hold hlk
    | some sc =>
      obtain ⟨p, hp, hp2⟩ := look_mem _ _ _ hlk
      have hscne : sc ≠ [] := by rw [← hp2]; exact hcars p hp
      rw [hsc, hlk] at hf'
      simp only at hf'
      injection hf' with hf'
      have hgrid : v.grid.cell.isEmpty = false := by
        have hg := toVtk_ok f nx ny nz h
        unfold toFile at hv
        split at hv
        · cases hv
        · rw [hg] at hv
          simp only at hv
          injection hv with hv
          rw [← hv]
          simp only
          rw [writtenGrid_isEmpty]
          rfl
      have hread : fromCells v.grid (some sc) = .ok f' := by
        simp only [readVtk, hgrid] at hf'
        cases hfc : fromCells v.grid (some sc) with
        | error e => rw [hfc] at hf'; cases hf'
        | ok f'' =>
          rw [hfc] at hf'
          simp only [Except.map] at hf'
          injection hf' with hf'
          injection hf' with hf'
          rw [hf']
      have hlen := fromCells_subs_length _ _ _ hread
      have hexp : (if save then f.mesh.subs else []).map (fun p => (p.1, p.2.pmin, p.2.pmax)) = [] := by
        cases save with
        | false => rfl
        | true =>
          have : f.mesh.subs.isEmpty = true := by
            cases hb : f.mesh.subs.isEmpty with
            | true => rfl
            | false => exact absurd ⟨rfl, hb⟩ c1
          simp [List.isEmpty_iff.mp this]
      rw [hexp] at hs
      have : f'.mesh.subs.length = 0 := by
        have := congrArg List.length hs
        simpa using this
      rw [hlen] at this
      exact hscne (List.length_eq_zero_iff.mp this)
  · intro hcond
    obtain ⟨f', hf', _, _, _, _, _, hs, _⟩ := history_roundtrip f nx ny nz h hsub rep hrep save rnd ⟨[], []⟩ before [] name
      (by intro o ho; cases ho)
      (by
        rcases hcond with hc | hc
        · exact Or.inl hc
        · exact Or.inr (hnone.mpr ⟨rfl, hc⟩))
    simp only [List.nil_append] at hf'
    rw [hlast] at hf'
    exact ⟨f', hf', hs⟩

/-- both sides of the equivalence occur: after a write that saved subregion `s`, the example field
without subregions is read back with `s` (stale), while the example field itself is read back right -/
example : DOp.writesCar id "a.vtk" (.write "a.vtk" exField "bin" true) :=
  ⟨rfl, rfl, rfl, (write_accepted_iff exField "bin" true id).mpr ⟨by simp, by decide, by decide⟩⟩

/-! ### legacy point-data files: malformed and truncated sections -/

/-- **The coordinate blocks are refused exactly when a header has no numbers after it**: the scan
over the `X_/Y_/Z_COORDINATES` lines of ANY file succeeds iff every such line is followed by a
numeric line (the header on the last line, or followed by a blank / alphabetic line, raises). -/
theorem legacy_coord_blocks_iff (lines : List LLine) :
    (∃ es, coordEntries lines = .ok es) ↔
      ∀ i c, lines[i]? = some (.coords c) → ∃ xs, lines[i + 1]? = some (.nums xs) :=
  coordEntries_ok_iff lines

/-- a file with a broken coordinate block is refused as a whole, whatever else it holds -/
theorem legacy_refused_on_bad_coord_block (lines : List LLine) (sc : Option (List (String × Region))) (i c : Nat)
    (hi : lines[i]? = some (.coords c)) (hbad : ∀ xs, lines[i + 1]? ≠ some (.nums xs)) :
    ∃ e, legacyRead lines sc = .error e := by
  have : ¬ ∃ es, coordEntries lines = .ok es := by
    intro hes
    obtain ⟨xs, hxs⟩ := (coordEntries_ok_iff lines).mp hes i c hi
    exact hbad xs hxs
  unfold legacyRead
  cases hce : coordEntries lines with
  | error e => exact ⟨e, rfl⟩
  | ok es => exact absurd ⟨es, hce⟩ this

/-- **`legacy_points` with ANY data section: refused iff malformed.**  Take a file of the old
layout (header, coordinate blocks possibly over several lines, anything quiet in between, the data
marker) followed by arbitrary lines `body`, with any side-car that loads.  The reader looks at
the first `N₀·N₁·N₂` lines of `body` only (fewer if the file ends earlier) and accepts the file
**if and only if** none of them is empty / non-numeric-non-alphabetic and every numeric one holds
as many numbers as the field has components, or one.  Too few lines, lines starting with a letter
and anything after the last cell's line never make the read fail. -/
theorem legacy_data_accepted_iff (pre mid body : List LLine) (N : Nat → Nat) (o c : Nat → Rat) (first : Nat → List Rat)
    (cont : Nat → List LLine) (vec : Bool) (sidecar : Option (List (String × Region))) (m1 : Mesh)
    (hpre : Quiet pre) (hmid : Quiet mid) (hcont : ∀ a, a < 3 → Quiet (cont a))
    (hbody : ∀ x ∈ body, ∀ k, x ≠ .coords k)
    (hsc : vec = false → (∀ x ∈ pre ++ (cont 0 ++ (cont 1 ++ (cont 2 ++ mid))), x ≠ .scalars) ∧ ∀ x ∈ body, x ≠ .vectors)
    (hN : ∀ a, a < 3 → 1 ≤ N a) (hc : ∀ a, a < 3 → 0 < c a)
    (hfirst : ∀ a, a < 3 → 1 ≤ (first a).length ∧ (first a).getD 0 0 = o a ∧
      (1 < N a → 1 < (first a).length ∧ (first a).getD 1 0 = o a + c a) ∧ (N a = 1 → (first a).length = 1))
    (hsub : loadSubs { region := plainRegion (tab 3 (fun a => o a - legCe N c a * (1/2)))
                                  (tab 3 (fun a => o a - legCe N c a * (1/2) + (N a : Rat) * legCe N c a)),
                       n := [N 0, N 1, N 2], bc := "", subs := [] } sidecar = .ok m1) :
    (∃ f', legacyRead (legacyFileBody pre mid N first cont vec body) sidecar = .ok f') ↔
      DataOk (if vec then 3 else 1) (natProd [N 0, N 1, N 2]) body := by
  rw [legacyRead_body pre mid body N o c first cont vec sidecar m1 hpre hmid hcont hbody hsc hN hc hfirst hsub]
  have hlen : (indicesF [N 0, N 1, N 2]).length = natProd [N 0, N 1, N 2] := by simp [indicesF]
  rw [← hlen, ← fill_ok_iff (if vec then 3 else 1) (indicesF [N 0, N 1, N 2]) body
    (NDA.const [N 0, N 1, N 2] (List.replicate (if vec then 3 else 1) 0))]
  cases fill (if vec then 3 else 1) (indicesF [N 0, N 1, N 2]) body
      (NDA.const [N 0, N 1, N 2] (List.replicate (if vec then 3 else 1) 0)) with
  | error e =>
    constructor
    · rintro ⟨_, hh⟩; cases hh
    · rintro ⟨_, hh⟩; cases hh
  | ok d => exact ⟨fun _ => ⟨d, rfl⟩, fun _ => ⟨_, rfl⟩⟩

/-- **What an accepted legacy file leaves in every cell**, truncated and padded sections included.
Whenever the read of such a file succeeds: `N` cells per axis, the side-car's subregions, all
valid, and cell `(i, j, k)` — line number `t = i + N₀·(j + N₁·k)` of the data section — holds the
numbers of that line; a single number is broadcast to all components; a line starting with a
letter is SKIPPED BUT COUNTED (the cell keeps its zeros and the following lines are NOT shifted);
cells beyond the end of a truncated section keep their zeros. -/
theorem legacy_data_values (pre mid body : List LLine) (N : Nat → Nat) (o c : Nat → Rat) (first : Nat → List Rat)
    (cont : Nat → List LLine) (vec : Bool) (sidecar : Option (List (String × Region))) (m1 : Mesh)
    (hpre : Quiet pre) (hmid : Quiet mid) (hcont : ∀ a, a < 3 → Quiet (cont a))
    (hbody : ∀ x ∈ body, ∀ k, x ≠ .coords k)
    (hsc : vec = false → (∀ x ∈ pre ++ (cont 0 ++ (cont 1 ++ (cont 2 ++ mid))), x ≠ .scalars) ∧ ∀ x ∈ body, x ≠ .vectors)
    (hN : ∀ a, a < 3 → 1 ≤ N a) (hc : ∀ a, a < 3 → 0 < c a)
    (hfirst : ∀ a, a < 3 → 1 ≤ (first a).length ∧ (first a).getD 0 0 = o a ∧
      (1 < N a → 1 < (first a).length ∧ (first a).getD 1 0 = o a + c a) ∧ (N a = 1 → (first a).length = 1))
    (hsub : loadSubs { region := plainRegion (tab 3 (fun a => o a - legCe N c a * (1/2)))
                                  (tab 3 (fun a => o a - legCe N c a * (1/2) + (N a : Rat) * legCe N c a)),
                       n := [N 0, N 1, N 2], bc := "", subs := [] } sidecar = .ok m1)
    (f' : Fld) (hf' : legacyRead (legacyFileBody pre mid N first cont vec body) sidecar = .ok f') :
    f'.mesh = m1 ∧ f'.mesh.n = [N 0, N 1, N 2] ∧ f'.nvdim = (if vec then 3 else 1) ∧
    f'.vdims = (if vec then some ["x", "y", "z"] else none) ∧
    ∀ idx, inRange [N 0, N 1, N 2] idx = true →
      f'.data.get idx = cellAfter (if vec then 3 else 1) body (flatF [N 0, N 1, N 2] idx)
        (List.replicate (if vec then 3 else 1) 0) ∧
      f'.valid.get idx = true := by
  rw [legacyRead_body pre mid body N o c first cont vec sidecar m1 hpre hmid hcont hbody hsc hN hc hfirst hsub] at hf'
  obtain ⟨_, hn, _⟩ := loadSubs_geom _ _ _ hsub
  cases hfill : fill (if vec then 3 else 1) (indicesF [N 0, N 1, N 2]) body
      (NDA.const [N 0, N 1, N 2] (List.replicate (if vec then 3 else 1) 0)) with
  | error e => rw [hfill] at hf'; cases hf'
  | ok d =>
    rw [hfill] at hf'
    simp only at hf'
    injection hf' with hf'
    subst hf'
    obtain ⟨_, s2, _⟩ := fill_spec _ _ _ _ _ (indicesF_nodup _) hfill
    refine ⟨rfl, hn, rfl, rfl, ?_⟩
    intro idx hi
    refine ⟨?_, rfl⟩
    have := s2 (flatF [N 0, N 1, N 2] idx) (by
      have := flatF_lt _ _ hi
      simpa [indicesF] using this)
    rw [indicesF_getD _ _ hi] at this
    rw [show (legacyBlank m1 vec N d).data = d from rfl, this]
    rfl

/-- a truncated vector file (3 × 1 × 2 points, four data lines, one of them a stray keyword line):
accepted; the keyword line is counted, the last two cells keep their zeros -/
example : ((legacyRead (legacyFileBody [.alpha, .alpha] [.alpha] (fun a => [3, 1, 2].getD a 0)
      (fun a => [[0, 1/2, 1], [5], [-1, 1]].getD a []) (fun _ => []) true
      [.nums [1, 0, 0], .alpha, .nums [7], .nums [4, 5, 6]]) none).toOption.map
        fun f => (f.mesh.n, [f.data.get [0, 0, 0], f.data.get [1, 0, 0], f.data.get [2, 0, 0], f.data.get [0, 0, 1],
                  f.data.get [1, 0, 1]])) =
    some ([3, 1, 2], [[1, 0, 0], [0, 0, 0], [7, 7, 7], [4, 5, 6], [0, 0, 0]]) := by decide +kernel

/-- the same file with a blank line, or a two-number line, among the first six lines is refused -/
example : (legacyRead (legacyFileBody [.alpha, .alpha] [.alpha] (fun a => [3, 1, 2].getD a 0)
      (fun a => [[0, 1/2, 1], [5], [-1, 1]].getD a []) (fun _ => []) true
      [.nums [1, 0, 0], .junk, .nums [7], .nums [4, 5, 6]]) none).toOption = none ∧
    (legacyRead (legacyFileBody [.alpha, .alpha] [.alpha] (fun a => [3, 1, 2].getD a 0)
      (fun a => [[0, 1/2, 1], [5], [-1, 1]].getD a []) (fun _ => []) true
      [.nums [1, 0, 0], .nums [1, 2], .nums [7], .nums [4, 5, 6]]) none).toOption = none := by
  constructor <;> decide +kernel

/-! ### round 6, continued: lookups for any labels, side-cars with arbitrary entries, text form
without side-car from an error bound -/

/-- **The per-label scalar arrays for any distinct labels (D61 at grid level, exactly).**  For a
field with several components and ANY distinct labels, `GetArray(l)` of the grid is the scalar
array of the component labelled `l` **if and only if** `l` is neither `field` nor `valid` (for
those names it is the vector array / the flags: the component's scalar array has been replaced);
and whenever it is, it carries at the id of every cell that component of the cell. -/
theorem component_arrays_any_labels (f : Fld) (nx ny nz : Nat) (h : WFc f nx ny nz) (hnv : 1 < f.nvdim)
    (vs : List String) (hvs : f.vdims = some vs) (c : Nat) (hc : c < vs.length) :
    ∃ g, toVtk f = .ok g ∧
      (g.arr (vs.getD c "") = some (compVArr f vs (vs.getD c "")) ↔ (vs.getD c "" ≠ "field" ∧ vs.getD c "" ≠ "valid")) ∧
      ∀ idx, inRange [nx, ny, nz] idx = true →
        (compVArr f vs (vs.getD c "")).tuple (flatF [nx, ny, nz] idx) = [(f.data.get idx).getD c 0] := by
  obtain ⟨vs', hvs', _, hd⟩ := h.labels hnv
  rw [hvs] at hvs'; cases hvs'
  have hl : vs.getD c "" ∈ vs := by
    rw [List.getD_eq_getElem?_getD, List.getElem?_eq_getElem hc]; simp
  obtain ⟨g, hg, _, hgf, hgv, _⟩ := grid_any_labels f nx ny nz h
  refine ⟨g, hg, ?_, ?_⟩
  · constructor
    · intro he
      constructor
      · intro e
        rw [e, hgf] at he
        injection he with he
        have : (fieldVArr f).ncomp = (compVArr f vs "field").ncomp := by rw [he]
        have h1 : (fieldVArr f).ncomp = f.nvdim := rfl
        have h2 : (compVArr f vs "field").ncomp = 1 := rfl
        omega
      · intro e
        rw [e, hgv] at he
        injection he with he
        have : (validVArr f).int = (compVArr f vs "valid").int := by rw [he]
        cases this
    · rintro ⟨h1, h2⟩
      rw [toVtk_okc f nx ny nz h] at hg
      injection hg with hg
      subst hg
      exact cellData_label f nx ny nz h hnv vs hvs _ hl h1 h2
  · intro idx hi
    rw [comp_tuple f nx ny nz h.dshape vs _ idx hi, indexOf_getD vs hd c hc]
    rfl

/-- **`vtk_lookup` for any distinct labels.**  Nothing about the labels is needed for the
position ↔ value association: for every 3-d field as the constructor leaves it and every point
`p` of the closed region, `point2index` accepts `p`, the grid lookup finds the cell with the
structured id of that mesh cell, and there `field` holds the cell's vector and `valid` its flag. -/
theorem vtk_lookup_any_labels (f : Fld) (nx ny nz : Nat) (h : WFc f nx ny nz) (p : List Rat)
    (hp : f.mesh.region.containsExact p) :
    ∃ g idx, toVtk f = .ok g ∧ f.mesh.point2index p = .ok idx ∧ inRange [nx, ny, nz] idx = true ∧
      C01.inCell f.mesh idx p ∧ locate g p = some (flatF [nx, ny, nz] idx) ∧
      (∃ a, g.arr "field" = some a ∧ a.ncomp = f.nvdim ∧
        a.tuple (flatF [nx, ny, nz] idx) = tab f.nvdim fun c => (f.data.get idx).getD c 0) ∧
      (∃ a, g.arr "valid" = some a ∧ a.int = true ∧
        a.tuple (flatF [nx, ny, nz] idx) = [if f.valid.get idx then 1 else 0]) := by
  have hw := scalarised_wf f nx ny nz h
  obtain ⟨idx, h1, h2, h3, h4, _⟩ := vtk_lookup_full (scalarised f) nx ny nz hw _ (toVtk_ok (scalarised f) nx ny nz hw) p hp
  obtain ⟨g, hg, _, hgf, hgv, hval⟩ := grid_any_labels f nx ny nz h
  have hg' := hg
  rw [toVtk_okc f nx ny nz h] at hg'
  injection hg' with hg'
  have hloc : locate g p = some (flatF [nx, ny, nz] idx) := by
    rw [← hg']
    exact h4
  exact ⟨g, idx, hg, h1, h2, h3, hloc, ⟨_, hgf, rfl, (hval idx h2).1⟩, ⟨_, hgv, rfl, (hval idx h2).2⟩⟩

/-- the hypotheses are met by the D61 example (labels `["field", "b"]`) at a point of its region:
the cell found at `(1/2, 3, 5/4)` is cell 3 and `field` holds `(7, 1/2)` there -/
example : ((toVtk { exField with vdims := some ["field", "b"] }).toOption.bind fun g =>
      (locate g [1/2, 3, 5/4]).bind fun id => (g.arr "field").map fun a => (id, a.tuple id, g.cell.map fun a => a.name)) =
    some (3, [7, 1/2], ["norm", "field", "b", "valid"]) := by decide +kernel

/-- **The side-car loads exactly when every entry is a well-formed region that passes the
setter's test** — for ANY entries (no assumption): an entry with unordered or missing corners,
mismatching lengths or duplicate axis names refuses the whole read, as does one that does not fit
the mesh. -/
theorem sidecar_loads_iff_any (m : Mesh) (l : List (String × Region)) :
    (∃ m1, loadSubs m (some l) = .ok m1) ↔ ∀ p ∈ l, p.2.Inv ∧ T.candOk m p.2 = true :=
  loadSubs_ok_iff_general m l

/-- **Text form without side-car: acceptance from the inputs.**  If the text writer's rounding has
relative error at most `ε` and on every axis the edge is longer than `ε·(|pmin| + |pmax|)` (ten
significant digits: regions whose edges are not ten orders of magnitude smaller than their
offset), then for every well-formed field the text file written with `save_subregions=False` is
read back: same counts, no subregions, corners and every value within `ε` relative, flags exact.
No hypothesis on the result of any intermediate step. -/
theorem text_roundtrip_no_sidecar (f : Fld) (nx ny nz : Nat) (h : WF f nx ny nz) (rnd : Rat → Rat) (ε : Rat)
    (hε : ∀ x, |rnd x - x| ≤ ε * |x|)
    (hedge : ∀ a, a < 3 → ε * (|f.mesh.region.lo a| + |f.mesh.region.hi a|) < f.mesh.region.hi a - f.mesh.region.lo a) :
    ∃ v f', toFile f "txt" false rnd = .ok v ∧ fromFile v = .ok f' ∧ f'.mesh.n = [nx, ny, nz] ∧ f'.mesh.subs = [] ∧
      (∀ a, a < 3 → |f'.mesh.region.lo a - f.mesh.region.lo a| ≤ ε * |f.mesh.region.lo a| ∧
                    |f'.mesh.region.hi a - f.mesh.region.hi a| ≤ ε * |f.mesh.region.hi a|) ∧
      ∀ idx, inRange [nx, ny, nz] idx = true →
        (∀ c, c < f.nvdim → |(f'.data.get idx).getD c 0 - (f.data.get idx).getD c 0| ≤ ε * |(f.data.get idx).getD c 0|) ∧
        f'.valid.get idx = f.valid.get idx := by
  have hlt : ∀ a, a < 3 → rnd (f.mesh.region.lo a) < rnd (f.mesh.region.hi a) :=
    fun a ha => rnd_keeps_order rnd ε _ _ hε (hedge a ha)
  obtain ⟨v, f', a1, a2, a3, a4, a5⟩ := text_keeps_digits f nx ny nz h false rnd ε hε hlt _ rfl
  refine ⟨v, f', a1, a2, a3, ?_, a4, a5⟩
  obtain ⟨v', f'', c1, c2, c3, _⟩ := file_roundtrip_text f nx ny nz h false rnd hlt _ rfl
  rw [a1] at c1
  injection c1 with c1
  subst c1
  rw [a2] at c2
  injection c2 with c2
  subst c2
  rw [c3]

/-- the bound is met by the example field with an exact writer (`ε = 0`) -/
example : ∀ a, a < 3 → (0 : Rat) * (|exField.mesh.region.lo a| + |exField.mesh.region.hi a|) <
    exField.mesh.region.hi a - exField.mesh.region.lo a := by
  intro a ha
  have : a = 0 ∨ a = 1 ∨ a = 2 := by omega
  rcases this with rfl | rfl | rfl <;> decide +kernel

end DFV.C16
