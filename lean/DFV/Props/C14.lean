import DFV.Lemmas.C14H5
/-!
# C14 — subregions stay inside, aligned with and measured in cells of their mesh
-/
namespace DFV.C14
open DFV DFV.T

/-- attaching subregions that are not all acceptable is rejected (and, the model being
functional, the previous subregions are kept) -/
theorem set_rejects (m : Mesh) (subs : List (String × Region)) (p : String × Region) (hp : p ∈ subs)
    (hbad : subOk m p.2 = false) : setSubs m subs = .error .value := by
  unfold setSubs
  have : subs.all (fun p => subOk m p.2) = false := by
    rw [List.all_eq_false]; exact ⟨p, hp, by simp [hbad]⟩
  simp [this]

/-- accepted subregions carry the mesh's dimension names, units and tolerance, keep
their corners, names and order -/
theorem set_accepts (m m' : Mesh) (subs : List (String × Region)) (h : setSubs m subs = .ok m') :
    (∀ p ∈ subs, subOk m p.2 = true) ∧
    m'.subs.map (·.1) = subs.map (·.1) ∧
    (∀ q ∈ m'.subs, q.2.dims = m.region.dims ∧ q.2.units = m.region.units ∧ q.2.tol = m.region.tol) ∧
    m'.subs.map (fun q => (q.2.pmin, q.2.pmax)) = subs.map (fun q => (q.2.pmin, q.2.pmax)) ∧
    m'.region = m.region ∧ m'.n = m.n := by
  unfold setSubs at h
  split at h
  · rename_i hall
    injection h with h
    subst h
    refine ⟨fun p hp => List.all_eq_true.mp hall p hp, by simp [Function.comp_def], ?_, by simp [Function.comp_def], rfl, rfl⟩
    intro q hq
    simp only [List.mem_map] at hq
    obtain ⟨p, _, rfl⟩ := hq
    exact ⟨rfl, rfl, rfl⟩
  · cases h

/-! ## `is_aligned`: the remainder test -/

/-- Exact arithmetic, tolerance 0: an offset passes the remainder test iff it is a whole
number of cells. -/
theorem aligned_exact_iff (d c : Rat) (hc : 0 < c) :
    misalignedAx d c 0 = false ↔ ∃ z : Int, absR d = (z : Rat) * c := by
  unfold misalignedAx
  have h0 := remainder_nonneg (absR d) c hc
  have h1 := remainder_lt (absR d) c hc
  constructor
  · intro h
    have hz : Mesh.remainder (absR d) c = 0 := by
      by_contra hne
      have hpos : 0 < Mesh.remainder (absR d) c := lt_of_le_of_ne h0 (Ne.symm hne)
      simp [hpos, h1] at h
    refine ⟨(absR d / c).floor, ?_⟩
    have := remainder_eq (absR d) c
    rw [hz] at this; linarith
  · rintro ⟨z, hz⟩
    rw [hz, remainder_of_multiple z c hc]
    simp

/-- With tolerance `t ≥ 0`: an offset that is exactly a whole number of cells always passes. -/
theorem aligned_of_whole (d c t : Rat) (hc : 0 < c) (ht : 0 ≤ t) (z : Int) (hz : absR d = (z : Rat) * c) :
    misalignedAx d c t = false := by
  unfold misalignedAx
  rw [hz, remainder_of_multiple z c hc]
  have : ¬ (t < 0) := not_lt.mpr ht
  simp [this]

/-- With tolerance `t`: an offset that passes is within `t` of a whole number of cells. -/
theorem aligned_tol_sound (d c t : Rat) (hc : 0 < c) (h : misalignedAx d c t = false) :
    ∃ z : Int, absR (absR d - (z : Rat) * c) ≤ t := by
  unfold misalignedAx at h
  have h0 := remainder_nonneg (absR d) c hc
  have h1 := remainder_lt (absR d) c hc
  have heq := remainder_eq (absR d) c
  by_cases ha : t < Mesh.remainder (absR d) c
  · have hb : ¬ (Mesh.remainder (absR d) c < c - t) := by
      intro hb; simp [ha, hb] at h
    refine ⟨(absR d / c).floor + 1, ?_⟩
    rw [absR_eq_abs, abs_le]
    push_cast
    constructor <;> linarith
  · refine ⟨(absR d / c).floor, ?_⟩
    rw [absR_eq_abs, abs_le]
    constructor <;> linarith


/-! ## subregions stay on the lattice under the affine maps -/


/-- Scalar heart of "subregions stay on the lattice under scaling": an interval `[l,h]`
sitting `z` cells into `[L,H]` (cell `c = (H-L)/n`) and `w` cells long is mapped by
`x ↦ R + s(x-R)`, `s ≠ 0`, to an interval sitting a whole number of (new) cells into the
image of `[L,H]` and again `w` cells long — for either sign of `s`, any `R`. -/
theorem scale_keeps_lattice_axis (L H l h R s : Rat) (n z w : Int) (hn : 0 < n) (hLH : L < H) (hs : s ≠ 0)
    (hz : l - L = (z : Rat) * ((H - L) / n)) (hw : h - l = (w : Rat) * ((H - L) / n)) (hw0 : 0 < w) :
    ∃ z' : Int,
      min (R + s * (l - R)) (R + s * (h - R)) - min (R + s * (L - R)) (R + s * (H - R))
        = (z' : Rat) * ((max (R + s * (L - R)) (R + s * (H - R)) - min (R + s * (L - R)) (R + s * (H - R))) / n) ∧
      max (R + s * (l - R)) (R + s * (h - R)) - min (R + s * (l - R)) (R + s * (h - R))
        = (w : Rat) * ((max (R + s * (L - R)) (R + s * (H - R)) - min (R + s * (L - R)) (R + s * (H - R))) / n) := by
  have hnq : (0 : Rat) < (n : Rat) := by exact_mod_cast hn
  have hc : 0 < (H - L) / (n : Rat) := div_pos (by linarith) hnq
  have hwq : (0 : Rat) < (w : Rat) := by exact_mod_cast hw0
  have hlh : l < h := by nlinarith
  rcases lt_or_gt_of_ne hs with hneg | hpos
  · -- negative factor: the corners swap roles
    have e1 : R + s * (H - R) < R + s * (L - R) := by nlinarith
    have e2 : R + s * (h - R) < R + s * (l - R) := by nlinarith
    rw [min_eq_right e1.le, max_eq_left e1.le, min_eq_right e2.le, max_eq_left e2.le]
    refine ⟨n - z - w, ?_, ?_⟩
    · push_cast
      have : h - H = -(((n : Rat) - z - w) * ((H - L) / n)) := by
        have hn' : (n : Rat) * ((H - L) / n) = H - L := by field_simp
        nlinarith
      field_simp
      field_simp at this hz hw
      nlinarith
    · field_simp
      field_simp at hw
      nlinarith
  · have e1 : R + s * (L - R) < R + s * (H - R) := by nlinarith
    have e2 : R + s * (l - R) < R + s * (h - R) := by nlinarith
    rw [min_eq_left e1.le, max_eq_right e1.le, min_eq_left e2.le, max_eq_right e2.le]
    refine ⟨z, ?_, ?_⟩
    · field_simp
      field_simp at hz
      nlinarith
    · field_simp
      field_simp at hw
      nlinarith


/-- … and under translation (both intervals move by the same vector) -/
theorem translate_keeps_lattice_axis (L H l h v c : Rat) (z w : Int)
    (hz : l - L = (z : Rat) * c) (hw : h - l = (w : Rat) * c) :
    (l + v) - (L + v) = (z : Rat) * c ∧ (h + v) - (l + v) = (w : Rat) * c ∧ ((H + v) - (L + v)) = H - L := by
  refine ⟨by linarith, by linarith, by ring⟩

/-- Mesh level: if cell sizes agree exactly and both corner offsets are whole numbers of
cells, the meshes are reported aligned for every tolerance `t ≥ 0`. -/
theorem isAligned_of_exact (m o : Mesh) (t : Rat) (ht : 0 ≤ t)
    (h : ∀ a, a < m.ndim → m.cellAt a = o.cellAt a ∧ 0 < m.cellAt a ∧
      (∃ z : Int, absR (m.region.lo a - o.region.lo a) = (z : Rat) * m.cellAt a) ∧
      (∃ z : Int, absR (m.region.hi a - o.region.hi a) = (z : Rat) * m.cellAt a)) :
    isAligned m o t = true := by
  unfold isAligned
  have h1 : allLt m.ndim (fun a => allcloseAx (m.cellAt a) (o.cellAt a) t) = true := by
    rw [allLt_iff]; intro a ha
    obtain ⟨he, _, _, _⟩ := h a ha
    unfold allcloseAx
    rw [he]
    have := absR_nonneg (o.cellAt a)
    have h0 : absR (o.cellAt a - o.cellAt a) = 0 := by simp [absR]
    rw [h0]
    simp only [decide_eq_true_eq]
    have : 0 ≤ absR (o.cellAt a) / 100000 := div_nonneg this (by norm_num)
    linarith
  have h2 : allLt m.ndim (fun a => !misalignedAx (m.region.lo a - o.region.lo a) (m.cellAt a) t) = true := by
    rw [allLt_iff]; intro a ha
    obtain ⟨_, hc, ⟨z, hz⟩, _⟩ := h a ha
    rw [aligned_of_whole _ _ _ hc ht z hz]; rfl
  have h3 : allLt m.ndim (fun a => !misalignedAx (m.region.hi a - o.region.hi a) (m.cellAt a) t) = true := by
    rw [allLt_iff]; intro a ha
    obtain ⟨_, hc, _, ⟨z, hz⟩⟩ := h a ha
    rw [aligned_of_whole _ _ _ hc ht z hz]; rfl
  rw [h1, h2, h3]; rfl

/-- Mesh level, converse: meshes reported aligned with tolerance `t` have, on every axis,
cell sizes within `t + 1e-5·|cell|` of each other and both corner offsets within `t` of a
whole number of cells (so with `t = 0`: whole cells exactly, by `aligned_exact_iff`). -/
theorem isAligned_sound (m o : Mesh) (t : Rat) (h : isAligned m o t = true) (a : Nat) (ha : a < m.ndim)
    (hc : 0 < m.cellAt a) :
    absR (m.cellAt a - o.cellAt a) ≤ t + absR (o.cellAt a) / 100000 ∧
    (∃ z : Int, absR (absR (m.region.lo a - o.region.lo a) - (z : Rat) * m.cellAt a) ≤ t) ∧
    (∃ z : Int, absR (absR (m.region.hi a - o.region.hi a) - (z : Rat) * m.cellAt a) ≤ t) := by
  unfold isAligned at h
  simp only [Bool.and_eq_true] at h
  obtain ⟨⟨h1, h2⟩, h3⟩ := h
  have g1 := (allLt_iff _ _).mp h1 a ha
  have g2 := (allLt_iff _ _).mp h2 a ha
  have g3 := (allLt_iff _ _).mp h3 a ha
  refine ⟨by simpa [allcloseAx] using g1, ?_, ?_⟩
  · exact aligned_tol_sound _ _ _ hc (by simpa using g2)
  · exact aligned_tol_sound _ _ _ hc (by simpa using g3)


/-- Reflection `x ↦ A − x` (what a quarter turn does to one of the two rotated axes) keeps an
interval a whole number of cells into, and a whole number of cells long within, the image. -/
theorem reflect_keeps_lattice_axis (L H l h A : Rat) (n z w : Int) (hn : 0 < n) (hLH : L < H)
    (hz : l - L = (z : Rat) * ((H - L) / n)) (hw : h - l = (w : Rat) * ((H - L) / n)) (hw0 : 0 < w) :
    ∃ z' : Int,
      min (A - l) (A - h) - min (A - L) (A - H) = (z' : Rat) * ((max (A - L) (A - H) - min (A - L) (A - H)) / n) ∧
      max (A - l) (A - h) - min (A - l) (A - h) = (w : Rat) * ((max (A - L) (A - H) - min (A - L) (A - H)) / n) := by
  obtain ⟨z', h1, h2⟩ := scale_keeps_lattice_axis L H l h (A / 2) (-1) n z w hn hLH (by norm_num) hz hw hw0
  refine ⟨z', ?_, ?_⟩
  · have e : ∀ x : Rat, A / 2 + -1 * (x - A / 2) = A - x := fun x => by ring
    simpa only [e] using h1
  · have e : ∀ x : Rat, A / 2 + -1 * (x - A / 2) = A - x := fun x => by ring
    simpa only [e] using h2

/-- the translation part `x ↦ A + x` of a quarter turn likewise -/
theorem shift_keeps_lattice_axis (L H l h A : Rat) (n z w : Int) (hLH : L < H)
    (hz : l - L = (z : Rat) * ((H - L) / n)) (hw : h - l = (w : Rat) * ((H - L) / n)) (hw0 : 0 < w) (hn : 0 < n) :
    min (A + l) (A + h) - min (A + L) (A + H) = (z : Rat) * ((max (A + L) (A + H) - min (A + L) (A + H)) / n) ∧
    max (A + l) (A + h) - min (A + l) (A + h) = (w : Rat) * ((max (A + L) (A + H) - min (A + L) (A + H)) / n) := by
  have hnq : (0 : Rat) < (n : Rat) := by exact_mod_cast hn
  have hwq : (0 : Rat) < (w : Rat) := by exact_mod_cast hw0
  have hc : 0 < (H - L) / (n : Rat) := div_pos (by linarith) hnq
  have hlh : l < h := by nlinarith
  rw [min_eq_left (by linarith : A + l ≤ A + h), max_eq_right (by linarith : A + l ≤ A + h),
    min_eq_left (by linarith : A + L ≤ A + H), max_eq_right (by linarith : A + L ≤ A + H)]
  constructor
  · have : A + H - (A + L) = H - L := by ring
    rw [this]; linarith
  · have : A + H - (A + L) = H - L := by ring
    rw [this]; linarith

/-- Plane selection keeps exactly the subregions whose closed extent along the removed axis
contains the centre of the selected cell (names, in order). -/
theorem sel_plane_keeps (m m' : Mesh) (ax : Nat) (x : Option Rat) (h : selPlane m ax x = .ok m') :
    ∃ c i, selConvert m ax (x.getD (m.region.center.getD ax 0)) = .ok (c, i) ∧
      m'.subs.map (·.1) = (m.subs.filter fun p => !(decide (p.2.hi ax < c) || decide (c < p.2.lo ax))).map (·.1) := by
  unfold selPlane at h
  split at h
  · cases h
  · split at h
    · cases h
    · rename_i c i hconv
      split at h
      · cases h
      · split at h
        · cases h
        · rename_i r' _ m0 _
          obtain ⟨_, hnames, _, _, _, _⟩ := set_accepts m0 m' _ h
          refine ⟨c, i, hconv, ?_⟩
          rw [hnames, List.map_map]
          rfl

/-- Range selection keeps exactly the subregions overlapping the kept slab by more than half a
cell (subregions consist of whole cells, so: by at least one cell). -/
theorem sel_range_keeps (m m' : Mesh) (ax : Nat) (a b : Rat) (h : selRange m ax a b = .ok m') :
    ∃ c0 i0 c1 i1, selConvert m ax (min a b) = .ok (c0, i0) ∧ selConvert m ax (max a b) = .ok (c1, i1) ∧
      m'.subs.map (·.1) = (m.subs.filter fun p =>
        !(decide (c1 + m.cellAt ax / 2 - m.cellAt ax / 2 ≤ p.2.lo ax) ||
          decide (p.2.hi ax - m.cellAt ax / 2 ≤ c0 - m.cellAt ax / 2))).map (·.1) := by
  unfold selRange at h
  split at h
  · cases h
  · split at h
    · cases h
    · cases h
    · rename_i c0 i0 c1 i1 h0 h1
      split at h
      · cases h
      · split at h
        · cases h
        · rename_i r' _ m0 _
          obtain ⟨_, hnames, _, _, _, _⟩ := set_accepts m0 m' _ h
          refine ⟨c0, i0, c1, i1, h0, h1, ?_⟩
          rw [hnames, List.map_map]
          rfl

/-- the mesh extracted for a named subregion has exactly that subregion as its region -/
theorem getName_region (m g : Mesh) (name : String) (h : getName m name = .ok g) :
    ∃ p, m.subs.find? (fun p => p.1 == name) = some p ∧ g.region = p.2 := by
  unfold getName at h
  split at h
  · cases h
  · rename_i p hp
    refine ⟨p, hp, ?_⟩
    unfold Mesh.mkCell? at h
    split at h
    · cases h
    · split at h
      · cases h
      · split at h
        · cases h
        · split at h
          · cases h
          · split at h
            · cases h
            · split at h
              · cases h
              · injection h with h; subst h; rfl


/-! ## the subregion invariant `SubInv` (exact-arithmetic reading) -/

/-- What `SubInv` says, read as inequalities: an exactly fitting subregion lies inside the region
(`pmin ≤ s.pmin < s.pmax ≤ pmax` on every axis) and is itself a proper region carrying the mesh's
dimension names and units. -/
theorem subInv_inside (m : Mesh) (hm : m.Inv) (hs : SubInv m) (p : String × Region) (hp : p ∈ m.subs) :
    p.2.Inv ∧ p.2.dims = m.region.dims ∧ p.2.units = m.region.units ∧
    ∀ a, a < m.ndim → m.region.lo a ≤ p.2.lo a ∧ p.2.lo a < p.2.hi a ∧ p.2.hi a ≤ m.region.hi a :=
  ⟨subOkE_regionInv m hm p.2 (hs p hp), (hs p hp).1, (hs p hp).2.1, fits_bounds m hm p.2 (hs p hp).2.2.2⟩

/-- **Completeness of the setter.**  Every candidate set of boxes that fit the mesh exactly (inside,
whole cells, on the lattice — whatever names, units or tolerance the candidates carry) is accepted
by `setSubs` (all three tolerant tests pass), the result holds exactly the re-created candidates
and satisfies `SubInv`.  Together with `set_rejects`/`set_accepts` this pins the setter from both
sides in exact arithmetic. -/
theorem set_accepts_exact (m : Mesh) (hm : m.Inv) (subs : List (String × Region)) (h : ∀ p ∈ subs, FitsE m p.2) :
    setSubs m subs = .ok { m with subs := subs.map (restamp m.region) } ∧
    SubInv { m with subs := subs.map (restamp m.region) } :=
  setSubs_of_fits m hm subs h

/-- **"This stays true after translating, scaling, rotating" — one step.**  For a mesh satisfying
the mesh invariant and `SubInv`, EVERY accepted `stepM` (translate; scale by any non-zero factor(s)
of either sign about any reference point; quarter turn by any integer `k` in any plane about any
reference point; in-place or copying form) leaves receiver and returned mesh with `SubInv`: every
subregion again carries the (new) mesh's names and units and sits a whole number of (new) cells
into the (new) region, a whole number of cells long, inside — and names and order are kept.
The copying form re-validates the images with the tolerant tests of the setter; those tests only
gate (they can reject, never alter), so the statement needs no tolerance reading: whatever is
returned fits exactly. -/
theorem stepM_subInv (m : Mesh) (hm : m.Inv) (hs : SubInv m) (op : Op) (recv ret : Mesh)
    (h : stepM m op = .ok (recv, ret)) :
    SubInv recv ∧ SubInv ret ∧ ret.subs.map (·.1) = m.subs.map (·.1) :=
  stepM_subInv' m hm hs op recv ret h

/-- **… and after ANY finite history of transformation calls** (rejected steps skipped, every mix
of in-place and copying steps): the mesh invariant and `SubInv` hold, and the subregion names are
the original ones in the original order — by induction over the history. -/
theorem runM_subInv (m : Mesh) (hm : m.Inv) (hs : SubInv m) (ops : List Op) :
    (runM m ops).Inv ∧ SubInv (runM m ops) ∧ (runM m ops).subs.map (·.1) = m.subs.map (·.1) := by
  induction ops generalizing m with
  | nil => exact ⟨hm, hs, rfl⟩
  | cons op ops ih =>
    simp only [runM]
    cases h : stepM m op with
    | error e => exact ih m hm hs
    | ok p =>
      obtain ⟨recv, ret⟩ := p
      obtain ⟨_, h2, h3⟩ := stepM_subInv' m hm hs op recv ret h
      obtain ⟨a, b, c⟩ := ih ret (stepM_keeps m hm op recv ret h).2.1 h2
      exact ⟨a, b, c.trans h3⟩

/-- **The mesh extracted for a named subregion** of a mesh satisfying `SubInv`: the extraction
succeeds, the result has exactly that subregion as its region, exactly the parent's cell size on
every axis, as many cells as the subregion is long (`n·cell = extent`), and no subregions. -/
theorem getName_spec (m : Mesh) (hm : m.Inv) (hs : SubInv m) (name : String) (p : String × Region)
    (hp : m.subs.find? (fun p => p.1 == name) = some p) :
    ∃ g, getName m name = .ok g ∧ g.region = p.2 ∧ g.subs = [] ∧
      ∀ a, a < m.ndim → g.cellAt a = m.cellAt a ∧ 0 < g.nAt a ∧ (g.nAt a : Rat) * m.cellAt a = p.2.edge a := by
  have hmem : p ∈ m.subs := List.mem_of_find?_eq_some hp
  obtain ⟨g, hg, h1, h2, h3⟩ := mkCell_of_fits m hm p.2 (hs p hmem).2.2.2
  refine ⟨g, ?_, h1, h2, h3⟩
  unfold getName; rw [hp]; exact hg

/-- an unknown name is refused -/
theorem getName_unknown (m : Mesh) (name : String) (h : m.subs.find? (fun p => p.1 == name) = none) :
    getName m name = .error .key := by
  unfold getName; rw [h]


/-- non-vacuity of `stepM_subInv` / `runM_subInv` / `getName_spec`: the 3-d mesh `exM` (anisotropic
counts and cells, two touching subregions, periodic in x) satisfies the mesh invariant and `SubInv`;
the history `exOps` (in-place scale by (−2, ½, 3) about a far reference point, copying quarter turn
with k = −3, in-place translation) is accepted step by step and ends with the counts permuted. -/
example : exM.Inv ∧ SubInv exM := ⟨exM_inv, exM_subInv⟩
example : (runM exM exOps).n = [6, 4, 1] ∧ (runM exM exOps).bc = "y" ∧ (runM exM exOps).subs.length = 2 := by decide +kernel
example : SubInv (runM exM exOps) := (runM_subInv exM exM_inv exM_subInv exOps).2.1
example : exM.subs.find? (fun p => p.1 == "b") = some ("b", ⟨[6, 0, 0], [8, 6, 2], ["x", "y", "z"], ["m", "s", "K"], 1/1000000000000⟩) := by
  decide +kernel
/-- non-vacuity of `set_accepts_exact`: a candidate with other names/units that fits `exM` exactly -/
example : FitsE exM ⟨[0, 2, 0], [4, 5, 2], ["p", "q", "r"], ["a", "b", "c"], 0⟩ := fitsE_of_fitsB _ _ (by decide +kernel)

/-! ## selections: which subregions are kept, how, and `SubInv` of the result -/

/-- **Range selection, full statement.**  For a mesh satisfying the mesh invariant and `SubInv`, a
successful `selRange m ax a b` keeps the cells `i0 … i1` containing the two bounds (`i0 ≤ i1 < n`):
the region is cut to the slab `[pmin + i0·cell, pmin + (i1+1)·cell]` along `ax`, the count there is
`i1 − i0 + 1`, and the subregions of the result are EXACTLY those whose open extent along `ax`
meets the open slab (`s.pmin < slab.hi ∧ slab.lo < s.pmax` — both directions: every such subregion
is kept, no other is; this includes bounds that fall exactly on a subregion face), each clipped
to the slab (`clipSub`, the intersection by `clip_is_intersection`) and re-created with the result's
metadata, in the original order.  The result satisfies the mesh invariant and `SubInv`. -/
theorem sel_range_spec (m m' : Mesh) (hm : m.Inv) (hs : SubInv m) (ax : Nat) (a b : Rat)
    (h : selRange m ax a b = .ok m') :
    m'.Inv ∧ SubInv m' ∧ ax < m.ndim ∧
    ∃ i0 i1, i0 ≤ i1 ∧ i1 < m.nAt ax ∧ i0 = m.indexAx ax (min a b) ∧ i1 = m.indexAx ax (max a b) ∧
      m'.region = { m.region with pmin := setAt m.region.pmin ax (loSlab m ax i0),
                                  pmax := setAt m.region.pmax ax (hiSlab m ax i1) } ∧
      m'.n = setAt m.n ax (i1 - i0 + 1) ∧
      m'.subs = (m.subs.filter fun p => decide (p.2.lo ax < hiSlab m ax i1) && decide (loSlab m ax i0 < p.2.hi ax)).map
        fun p => restamp m'.region (p.1, clipSub m ax i0 i1 p.2) := by
  obtain ⟨hax, i0, i1, h01, h1n, e0, e1, hreg, hn, hsub⟩ := selRange_inv m m' hm ax a b h
  obtain ⟨hi, hsi⟩ := selRange_keeps m m' hm hs ax i0 i1 hax h01 h1n hreg hn hsub
  refine ⟨hi, hsi, hax, i0, i1, h01, h1n, e0, e1, hreg, hn, ?_⟩
  rw [hsub, range_filter_eq m hm hs ax i0 i1 hax]

/-- "clipped to it": the clipped subregion is, as a closed box, exactly the intersection of the
subregion with the kept slab -/
theorem clip_is_intersection (m : Mesh) (ax i0 i1 : Nat) (s : Region) (hax : ax < s.ndim)
    (hl : s.pmax.length = s.pmin.length) (p : List Rat) :
    (clipSub m ax i0 i1 s).containsExact p ↔
      s.containsExact p ∧ loSlab m ax i0 ≤ p.getD ax 0 ∧ p.getD ax 0 ≤ hiSlab m ax i1 :=
  clipSub_inter m ax i0 i1 s hax hl p

/-- **Plane selection, full statement.**  For a mesh satisfying the mesh invariant and `SubInv`, a
successful `selPlane m ax x` removes axis `ax` (corners, names, units, count) and its subregions
are EXACTLY those whose closed extent along `ax` contains the centre of the selected cell, with
that axis removed (`dropSub`) and re-created with the result's metadata, in the original order.
The result satisfies the mesh invariant and `SubInv`. -/
theorem sel_plane_spec (m m' : Mesh) (hm : m.Inv) (hs : SubInv m) (ax : Nat) (x : Option Rat)
    (h : selPlane m ax x = .ok m') :
    m'.Inv ∧ SubInv m' ∧ ax < m.ndim ∧ 1 < m.ndim ∧
      m'.region = { pmin := removeAt m.region.pmin ax, pmax := removeAt m.region.pmax ax,
                    dims := removeAt m.region.dims ax, units := removeAt m.region.units ax, tol := m.region.tol } ∧
      m'.n = removeAt m.n ax ∧
      m'.subs = (m.subs.filter fun p =>
          !(decide (p.2.hi ax < m.centreAx ax (m.indexAx ax (x.getD (m.region.center.getD ax 0)) : Nat)) ||
            decide (m.centreAx ax (m.indexAx ax (x.getD (m.region.center.getD ax 0)) : Nat) < p.2.lo ax))).map
        fun p => restamp m'.region (p.1, dropSub ax p.2) := by
  obtain ⟨hax, h1, hdup, hreg, hn, hsub⟩ := selPlane_inv m m' hm ax x h
  obtain ⟨hi, hsi⟩ := selPlane_keeps m m' hm hs ax _ hax h1 hdup hreg hn hsub
  exact ⟨hi, hsi, hax, h1, hreg, hn, hsub⟩

/-- non-vacuity of `sel_range_spec` / `sel_plane_spec`: on `exM` the range x ∈ [3, 5] keeps the cells
[2,4], [4,6]; the slab ends exactly on the face x = 6 shared by the two subregions: "a" is kept, "b" —
which only touches the slab — is dropped; the plane y = 2.2 keeps both. -/
example : (match selRange exM 0 3 5 with | .ok g => g.subs.map (fun q => (q.1, q.2.pmin, q.2.pmax)) | .error _ => [])
    = [("a", [2, 1, 0], [6, 3, 2])] := by decide +kernel
example : (match selPlane exM 1 (some (11/5)) with | .ok g => g.subs.map (fun q => (q.1, q.2.pmin, q.2.pmax)) | .error _ => [])
    = [("a", [2, 0], [6, 2]), ("b", [6, 0], [8, 2])] := by decide +kernel

/-! ## persistence: the JSON side-car -/

/-- decode ∘ encode on one region: `Region(**region.to_dict())` (through the `pmin < pmax` keyword
path and the ordinary constructor) gives back every proper region unchanged -/
theorem region_json_roundtrip (r : Region) (hr : r.Inv) : regionOfJV (regionToJV r) = .ok r :=
  regionOfJV_toJV r hr

/-- **load(save(m)).subs = m.subs.**  The side-car written by `save_subregions` for a mesh
satisfying the mesh invariant and `SubInv`, loaded with `load_subregions` into any mesh `m0` of the
same geometry (same region and counts — e.g. the mesh a field file describes, which carries no
subregions yet, whatever subregions `m0` held before), is decoded entry by entry, accepted by the
setter, and re-attaches exactly the saved subregions: names, order, corners, dimension names,
units, tolerance. -/
theorem load_save_roundtrip (m m0 : Mesh) (hm : m.Inv) (hs : SubInv m) (hr : m0.region = m.region) (hn : m0.n = m.n) :
    loadSubs m0 (saveSubs m) = .ok { m0 with subs := m.subs } :=
  load_save' m m0 hm hs hr hn

/-- **Loading re-attaches through the setter.**  A successful `load_subregions` decoded the file
into a dictionary of regions and that dictionary passed the `subregions` setter of the receiving
mesh: every attached subregion passed the inside / whole-cell / lattice tests of THIS mesh and
carries its names, units and tolerance; region and counts of the mesh are untouched. -/
theorem load_through_setter (m m' : Mesh) (j : JV) (h : loadSubs m j = .ok m') :
    ∃ subs, subsOfJV j = .ok subs ∧ setSubs m subs = .ok m' ∧ (∀ p ∈ subs, subOk m p.2 = true) ∧
      m'.subs = subs.map (restamp m.region) ∧ m'.region = m.region ∧ m'.n = m.n := by
  obtain ⟨subs, h1, h2⟩ := load_inv' m m' j h
  obtain ⟨e, hall⟩ := setSubs_ok_eq m m' subs h2
  exact ⟨subs, h1, h2, hall, by rw [e], by rw [e], by rw [e]⟩

/-- … so a side-car that does not fit the mesh (some decoded box fails one of the three tests) is
rejected — and, the model being functional, the mesh keeps its previous subregions. -/
theorem load_rejects_misfit (m : Mesh) (j : JV) (subs : List (String × Region)) (p : String × Region)
    (hd : subsOfJV j = .ok subs) (hp : p ∈ subs) (hbad : subOk m p.2 = false) :
    loadSubs m j = .error .value := by
  unfold loadSubs; rw [hd]; exact set_rejects m subs p hp hbad

/-- non-vacuity of the persistence theorems: `exM` meets the hypotheses of `load_save_roundtrip`
(with `m0` = the same geometry without subregions); the same side-car offered to a mesh shifted by
a third of a cell is rejected. -/
example : loadSubs { exM with subs := [] } (saveSubs exM) = .ok exM :=
  load_save_roundtrip exM { exM with subs := [] } exM_inv exM_subInv rfl rfl
example : (match loadSubs { exM with region := { exM.region with pmin := [2/3, 0, 0], pmax := [26/3, 6, 2] }, subs := [] } (saveSubs exM) with
    | .ok _ => true | .error _ => false) = false := by decide +kernel

/-- **… and the re-attached subregions satisfy `SubInv` on the receiving mesh**: the mesh
`load_subregions` produces from the side-car of a mesh satisfying `SubInv` (VTK / OVF: the field
file carries the geometry, the side-car the subregions) satisfies the mesh invariant and `SubInv`. -/
theorem sidecar_roundtrip_subInv (m m0 : Mesh) (hm : m.Inv) (hs : SubInv m) (hr : m0.region = m.region) (hn : m0.n = m.n) :
    ∃ g, loadSubs m0 (saveSubs m) = .ok g ∧ g.Inv ∧ SubInv g ∧ g.subs = m.subs ∧ g.region = m0.region ∧ g.n = m0.n :=
  ⟨_, load_save' m m0 hm hs hr hn, meshInv_congr m _ hr hn hm, sidecar_subInv m m0 hs hr hn, rfl, rfl, rfl⟩

/-! ## persistence: HDF5 (C10's model of `io/hdf5.py`, imported read-only) -/

/-- **The mesh the HDF5 reader returns has the same values.**  `TMesh.loaded` — the mesh
`DFV.C10.mesh_roundtrip` proves `meshLoad (meshSave m)` returns for every well-formed `m` — differs
from `m` only in the dtype of the subregion corner arrays (they arrive in the dtype of the corner
table, which is integer only if every stored corner array is: never a float-to-integer cast);
region, counts, `bc`, subregion names, order and every corner VALUE are those of `m`. -/
theorem hdf5_loaded_same_values (m : C10.TMesh) : meshOfT m.loaded = meshOfT m := meshOfT_loaded m

/-- **Subregions read back from an HDF5 file satisfy `SubInv` on the loaded mesh**, with the same
names in the same order and the same corners, region and counts. -/
theorem hdf5_loaded_subInv (m : C10.TMesh) (hs : SubInv (meshOfT m)) :
    SubInv (meshOfT m.loaded) ∧ (meshOfT m.loaded).subs = (meshOfT m).subs ∧
    (meshOfT m.loaded).region = (meshOfT m).region ∧ (meshOfT m.loaded).n = (meshOfT m).n :=
  h5_loaded_subInv' m hs

/-- **Whatever an HDF5 file contains, loaded subregions went through the setter** of the mesh the
reader builds: every candidate row passed the inside / whole-cell / lattice tests of that mesh, and
every stored subregion is the candidate re-created with the mesh's dimension names, units and
tolerance (corners ordered, names kept) — so a table that does not fit the stored geometry makes
the load fail instead of attaching misfitting subregions. -/
theorem hdf5_load_through_setter (h : C10.H5Mesh) (g : C10.TMesh) (hg : C10.meshLoad h = .ok g) :
    ∃ cands : List (String × C10.TReg), C10.setSubs g.region g.n cands = .ok g.subs ∧
      (∀ c ∈ cands, C10.subAccept g.region.toRegion g.n c.2.toRegion = true) ∧
      List.Forall₂ (fun c p => p.1 = c.1 ∧ p.2.dims = g.region.dims ∧ p.2.units = g.region.units ∧
          p.2.tol = g.region.tol ∧ p.2.pmin = C10.NumArr.minimum c.2.pmin c.2.pmax ∧
          p.2.pmax = C10.NumArr.maximum c.2.pmin c.2.pmax) cands g.subs :=
  h5_load_through_setter' h g hg

/-- **C10's model of the subregion setter's tests and C14's are the same function**: inside the
region, `Mesh(region=candidate, cell=mesh.cell)` exists, `is_aligned` with the absolute 1e-12 /
relative 1e-5 tolerances — written independently for the two properties from the same code. -/
theorem setter_models_agree (r : Region) (n : List Nat) (s : Region) :
    C10.subAccept r n s = T.subOk { region := r, n := n, bc := "", subs := [] } s :=
  subAccept_eq_subOk r n s

/-- … so every candidate an HDF5 load attaches passed exactly the tests `subOk` of the loaded mesh
that `set_accepts` / `set_rejects` / `set_accepts_exact` are about. -/
theorem hdf5_load_passed_subOk (h : C10.H5Mesh) (g : C10.TMesh) (hg : C10.meshLoad h = .ok g) :
    ∃ cands : List (String × C10.TReg), C10.setSubs g.region g.n cands = .ok g.subs ∧
      ∀ c ∈ cands, T.subOk (meshOfT g) c.2.toRegion = true :=
  h5_load_subOk h g hg

/-- non-vacuity of the HDF5 theorems: `exT` is `exM` with integer region corners, one subregion with
integer and one with float corner arrays; its values are `exM`, so `SubInv` holds; the corner table
is float, so loading changes the dtype of subregion "a" (`loaded ≠ self`) but no value. -/
example : exT.n = [4, 6, 1] := rfl
example : meshOfT exT = exM := by decide +kernel
example : SubInv (meshOfT exT) := by
  have : meshOfT exT = exM := by decide +kernel
  rw [this]; exact exM_subInv
example : exT.loaded ≠ exT := by decide +kernel
example : ∃ g, loadSubs { exM with subs := [] } (saveSubs exM) = .ok g ∧ SubInv g :=
  let ⟨g, h1, _, h3, _⟩ := sidecar_roundtrip_subInv exM { exM with subs := [] } exM_inv exM_subInv rfl rfl
  ⟨g, h1, h3⟩

/-- non-vacuity: two concrete meshes offset by two cells are aligned; offset by half a cell they are not -/
example : isAligned ⟨⟨[0, 0], [4, 2], ["x", "y"], ["m", "m"], 0⟩, [4, 2], "", []⟩
                    ⟨⟨[2, 1], [5, 2], ["x", "y"], ["m", "m"], 0⟩, [3, 1], "", []⟩ = true := by decide +kernel
example : isAligned ⟨⟨[0, 0], [4, 2], ["x", "y"], ["m", "m"], 0⟩, [4, 2], "", []⟩
                    ⟨⟨[1/2, 1], [7/2, 2], ["x", "y"], ["m", "m"], 0⟩, [3, 1], "", []⟩ = false := by decide +kernel

end DFV.C14
