import DFV.Lemmas.C13StoreSim
/-!
# C14 — subregions stay inside, aligned with and measured in cells of their mesh
-/
namespace DFV.C14
open DFV DFV.T

/-- attaching subregions that are not all acceptable (`candOk`: the three tests on the candidate
re-created with the mesh region's names, units and tolerance factor — repo fix 5591fed0) is rejected
(and, the model being functional, the previous subregions are kept) -/
theorem set_rejects (m : Mesh) (subs : List (String × Region)) (p : String × Region) (hp : p ∈ subs)
    (hbad : candOk m p.2 = false) : setSubs m subs = .error .value := by
  unfold setSubs
  have : subs.all (fun p => candOk m p.2) = false := by
    rw [List.all_eq_false]; exact ⟨p, hp, by simp [hbad]⟩
  simp [this]

/-- accepted subregions carry the mesh's dimension names, units and tolerance, keep
their corners, names and order — and every STORED subregion passes the three tests (inside, whole
cells, aligned) as it is stored, with the mesh's tolerance factor (what repo fix 5591fed0 guarantees:
the candidate's own tolerance has no say) -/
theorem set_accepts (m m' : Mesh) (subs : List (String × Region)) (h : setSubs m subs = .ok m') :
    (∀ p ∈ subs, candOk m p.2 = true) ∧
    m'.subs.map (·.1) = subs.map (·.1) ∧
    (∀ q ∈ m'.subs, q.2.dims = m.region.dims ∧ q.2.units = m.region.units ∧ q.2.tol = m.region.tol) ∧
    m'.subs.map (fun q => (q.2.pmin, q.2.pmax)) = subs.map (fun q => (q.2.pmin, q.2.pmax)) ∧
    m'.region = m.region ∧ m'.n = m.n ∧ (∀ q ∈ m'.subs, subOk m q.2 = true) := by
  unfold setSubs at h
  split at h
  · rename_i hall
    injection h with h
    subst h
    refine ⟨fun p hp => List.all_eq_true.mp hall p hp, by simp [Function.comp_def], ?_, by simp [Function.comp_def], rfl, rfl, ?_⟩
    · intro q hq
      simp only [List.mem_map] at hq
      obtain ⟨p, _, rfl⟩ := hq
      exact ⟨rfl, rfl, rfl⟩
    · intro q hq
      simp only [List.mem_map] at hq
      obtain ⟨p, hp, rfl⟩ := hq
      exact candOk_stored_ok m p.2 (List.all_eq_true.mp hall p hp)
  · cases h

/-! ## `is_aligned`: the remainder test -/

/-- Exact arithmetic, tolerance 0: an offset passes the remainder test iff it is a whole
number of cells. -/
theorem aligned_exact_iff (d c : Rat) (hc : 0 < c) :
    misalignedAx d c 0 = false ↔ ∃ z : Int, absR d = (z : Rat) * c := by
  unfold misalignedAx
  have h0 := remainder_nonneg (absR d) c hc
  have h1 := remainder_lt (absR d) c hc
  constructor
  · intro h
    have hz : Mesh.remainder (absR d) c = 0 := by
      by_contra hne
      have hpos : 0 < Mesh.remainder (absR d) c := lt_of_le_of_ne h0 (Ne.symm hne)
      simp [hpos, h1] at h
    refine ⟨(absR d / c).floor, ?_⟩
    have := remainder_eq (absR d) c
    rw [hz] at this; linarith
  · rintro ⟨z, hz⟩
    rw [hz, remainder_of_multiple z c hc]
    simp

/-- With tolerance `t ≥ 0`: an offset that is exactly a whole number of cells always passes. -/
theorem aligned_of_whole (d c t : Rat) (hc : 0 < c) (ht : 0 ≤ t) (z : Int) (hz : absR d = (z : Rat) * c) :
    misalignedAx d c t = false := by
  unfold misalignedAx
  rw [hz, remainder_of_multiple z c hc]
  have : ¬ (t < 0) := not_lt.mpr ht
  simp [this]

/-- With tolerance `t`: an offset that passes is within `t` of a whole number of cells. -/
theorem aligned_tol_sound (d c t : Rat) (hc : 0 < c) (h : misalignedAx d c t = false) :
    ∃ z : Int, absR (absR d - (z : Rat) * c) ≤ t := by
  unfold misalignedAx at h
  have h0 := remainder_nonneg (absR d) c hc
  have h1 := remainder_lt (absR d) c hc
  have heq := remainder_eq (absR d) c
  by_cases ha : t < Mesh.remainder (absR d) c
  · have hb : ¬ (Mesh.remainder (absR d) c < c - t) := by
      intro hb; simp [ha, hb] at h
    refine ⟨(absR d / c).floor + 1, ?_⟩
    rw [absR_eq_abs, abs_le]
    push_cast
    constructor <;> linarith
  · refine ⟨(absR d / c).floor, ?_⟩
    rw [absR_eq_abs, abs_le]
    constructor <;> linarith


/-! ## subregions stay on the lattice under the affine maps -/


/-- Scalar heart of "subregions stay on the lattice under scaling": an interval `[l,h]`
sitting `z` cells into `[L,H]` (cell `c = (H-L)/n`) and `w` cells long is mapped by
`x ↦ R + s(x-R)`, `s ≠ 0`, to an interval sitting a whole number of (new) cells into the
image of `[L,H]` and again `w` cells long — for either sign of `s`, any `R`. -/
theorem scale_keeps_lattice_axis (L H l h R s : Rat) (n z w : Int) (hn : 0 < n) (hLH : L < H) (hs : s ≠ 0)
    (hz : l - L = (z : Rat) * ((H - L) / n)) (hw : h - l = (w : Rat) * ((H - L) / n)) (hw0 : 0 < w) :
    ∃ z' : Int,
      min (R + s * (l - R)) (R + s * (h - R)) - min (R + s * (L - R)) (R + s * (H - R))
        = (z' : Rat) * ((max (R + s * (L - R)) (R + s * (H - R)) - min (R + s * (L - R)) (R + s * (H - R))) / n) ∧
      max (R + s * (l - R)) (R + s * (h - R)) - min (R + s * (l - R)) (R + s * (h - R))
        = (w : Rat) * ((max (R + s * (L - R)) (R + s * (H - R)) - min (R + s * (L - R)) (R + s * (H - R))) / n) := by
  have hnq : (0 : Rat) < (n : Rat) := by exact_mod_cast hn
  have hc : 0 < (H - L) / (n : Rat) := div_pos (by linarith) hnq
  have hwq : (0 : Rat) < (w : Rat) := by exact_mod_cast hw0
  have hlh : l < h := by nlinarith
  rcases lt_or_gt_of_ne hs with hneg | hpos
  · -- negative factor: the corners swap roles
    have e1 : R + s * (H - R) < R + s * (L - R) := by nlinarith
    have e2 : R + s * (h - R) < R + s * (l - R) := by nlinarith
    rw [min_eq_right e1.le, max_eq_left e1.le, min_eq_right e2.le, max_eq_left e2.le]
    refine ⟨n - z - w, ?_, ?_⟩
    · push_cast
      have : h - H = -(((n : Rat) - z - w) * ((H - L) / n)) := by
        have hn' : (n : Rat) * ((H - L) / n) = H - L := by field_simp
        nlinarith
      field_simp
      field_simp at this hz hw
      nlinarith
    · field_simp
      field_simp at hw
      nlinarith
  · have e1 : R + s * (L - R) < R + s * (H - R) := by nlinarith
    have e2 : R + s * (l - R) < R + s * (h - R) := by nlinarith
    rw [min_eq_left e1.le, max_eq_right e1.le, min_eq_left e2.le, max_eq_right e2.le]
    refine ⟨z, ?_, ?_⟩
    · field_simp
      field_simp at hz
      nlinarith
    · field_simp
      field_simp at hw
      nlinarith


/-- … and under translation (both intervals move by the same vector) -/
theorem translate_keeps_lattice_axis (L H l h v c : Rat) (z w : Int)
    (hz : l - L = (z : Rat) * c) (hw : h - l = (w : Rat) * c) :
    (l + v) - (L + v) = (z : Rat) * c ∧ (h + v) - (l + v) = (w : Rat) * c ∧ ((H + v) - (L + v)) = H - L := by
  refine ⟨by linarith, by linarith, by ring⟩

/-- Mesh level: if cell sizes agree exactly and both corner offsets are whole numbers of
cells, the meshes are reported aligned for every tolerance `t ≥ 0`. -/
theorem isAligned_of_exact (m o : Mesh) (t : Rat) (ht : 0 ≤ t)
    (h : ∀ a, a < m.ndim → m.cellAt a = o.cellAt a ∧ 0 < m.cellAt a ∧
      (∃ z : Int, absR (m.region.lo a - o.region.lo a) = (z : Rat) * m.cellAt a) ∧
      (∃ z : Int, absR (m.region.hi a - o.region.hi a) = (z : Rat) * m.cellAt a)) :
    isAligned m o t = true := by
  unfold isAligned
  have h1 : allLt m.ndim (fun a => allcloseAx (m.cellAt a) (o.cellAt a) t) = true := by
    rw [allLt_iff]; intro a ha
    obtain ⟨he, _, _, _⟩ := h a ha
    unfold allcloseAx
    rw [he]
    have := absR_nonneg (o.cellAt a)
    have h0 : absR (o.cellAt a - o.cellAt a) = 0 := by simp [absR]
    rw [h0]
    simp only [decide_eq_true_eq]
    have : 0 ≤ absR (o.cellAt a) / 100000 := div_nonneg this (by norm_num)
    linarith
  have h2 : allLt m.ndim (fun a => !misalignedAx (m.region.lo a - o.region.lo a) (m.cellAt a) t) = true := by
    rw [allLt_iff]; intro a ha
    obtain ⟨_, hc, ⟨z, hz⟩, _⟩ := h a ha
    rw [aligned_of_whole _ _ _ hc ht z hz]; rfl
  have h3 : allLt m.ndim (fun a => !misalignedAx (m.region.hi a - o.region.hi a) (m.cellAt a) t) = true := by
    rw [allLt_iff]; intro a ha
    obtain ⟨_, hc, _, ⟨z, hz⟩⟩ := h a ha
    rw [aligned_of_whole _ _ _ hc ht z hz]; rfl
  rw [h1, h2, h3]; rfl

/-- Mesh level, converse: meshes reported aligned with tolerance `t` have, on every axis,
cell sizes within `t + 1e-5·|cell|` of each other and both corner offsets within `t` of a
whole number of cells (so with `t = 0`: whole cells exactly, by `aligned_exact_iff`). -/
theorem isAligned_sound (m o : Mesh) (t : Rat) (h : isAligned m o t = true) (a : Nat) (ha : a < m.ndim)
    (hc : 0 < m.cellAt a) :
    absR (m.cellAt a - o.cellAt a) ≤ t + absR (o.cellAt a) / 100000 ∧
    (∃ z : Int, absR (absR (m.region.lo a - o.region.lo a) - (z : Rat) * m.cellAt a) ≤ t) ∧
    (∃ z : Int, absR (absR (m.region.hi a - o.region.hi a) - (z : Rat) * m.cellAt a) ≤ t) := by
  unfold isAligned at h
  simp only [Bool.and_eq_true] at h
  obtain ⟨⟨h1, h2⟩, h3⟩ := h
  have g1 := (allLt_iff _ _).mp h1 a ha
  have g2 := (allLt_iff _ _).mp h2 a ha
  have g3 := (allLt_iff _ _).mp h3 a ha
  refine ⟨by simpa [allcloseAx] using g1, ?_, ?_⟩
  · exact aligned_tol_sound _ _ _ hc (by simpa using g2)
  · exact aligned_tol_sound _ _ _ hc (by simpa using g3)


/-- Reflection `x ↦ A − x` (what a quarter turn does to one of the two rotated axes) keeps an
interval a whole number of cells into, and a whole number of cells long within, the image. -/
theorem reflect_keeps_lattice_axis (L H l h A : Rat) (n z w : Int) (hn : 0 < n) (hLH : L < H)
    (hz : l - L = (z : Rat) * ((H - L) / n)) (hw : h - l = (w : Rat) * ((H - L) / n)) (hw0 : 0 < w) :
    ∃ z' : Int,
      min (A - l) (A - h) - min (A - L) (A - H) = (z' : Rat) * ((max (A - L) (A - H) - min (A - L) (A - H)) / n) ∧
      max (A - l) (A - h) - min (A - l) (A - h) = (w : Rat) * ((max (A - L) (A - H) - min (A - L) (A - H)) / n) := by
  obtain ⟨z', h1, h2⟩ := scale_keeps_lattice_axis L H l h (A / 2) (-1) n z w hn hLH (by norm_num) hz hw hw0
  refine ⟨z', ?_, ?_⟩
  · have e : ∀ x : Rat, A / 2 + -1 * (x - A / 2) = A - x := fun x => by ring
    simpa only [e] using h1
  · have e : ∀ x : Rat, A / 2 + -1 * (x - A / 2) = A - x := fun x => by ring
    simpa only [e] using h2

/-- the translation part `x ↦ A + x` of a quarter turn likewise -/
theorem shift_keeps_lattice_axis (L H l h A : Rat) (n z w : Int) (hLH : L < H)
    (hz : l - L = (z : Rat) * ((H - L) / n)) (hw : h - l = (w : Rat) * ((H - L) / n)) (hw0 : 0 < w) (hn : 0 < n) :
    min (A + l) (A + h) - min (A + L) (A + H) = (z : Rat) * ((max (A + L) (A + H) - min (A + L) (A + H)) / n) ∧
    max (A + l) (A + h) - min (A + l) (A + h) = (w : Rat) * ((max (A + L) (A + H) - min (A + L) (A + H)) / n) := by
  have hnq : (0 : Rat) < (n : Rat) := by exact_mod_cast hn
  have hwq : (0 : Rat) < (w : Rat) := by exact_mod_cast hw0
  have hc : 0 < (H - L) / (n : Rat) := div_pos (by linarith) hnq
  have hlh : l < h := by nlinarith
  rw [min_eq_left (by linarith : A + l ≤ A + h), max_eq_right (by linarith : A + l ≤ A + h),
    min_eq_left (by linarith : A + L ≤ A + H), max_eq_right (by linarith : A + L ≤ A + H)]
  constructor
  · have : A + H - (A + L) = H - L := by ring
    rw [this]; linarith
  · have : A + H - (A + L) = H - L := by ring
    rw [this]; linarith

/-- Plane selection keeps exactly the subregions whose closed extent along the removed axis
contains the centre of the selected cell (names, in order). -/
theorem sel_plane_keeps (m m' : Mesh) (ax : Nat) (x : Option Rat) (h : selPlane m ax x = .ok m') :
    ∃ c i, selConvert m ax (x.getD (m.region.center.getD ax 0)) = .ok (c, i) ∧
      m'.subs.map (·.1) = (m.subs.filter fun p => !(decide (p.2.hi ax < c) || decide (c < p.2.lo ax))).map (·.1) := by
  unfold selPlane at h
  split at h
  · cases h
  · split at h
    · cases h
    · rename_i c i hconv
      split at h
      · cases h
      · split at h
        · cases h
        · rename_i r' _ m0 _
          obtain ⟨_, hnames, _, _, _, _⟩ := set_accepts m0 m' _ h
          refine ⟨c, i, hconv, ?_⟩
          rw [hnames, List.map_map]
          rfl

/-- Range selection keeps exactly the subregions overlapping the kept slab by more than half a
cell (subregions consist of whole cells, so: by at least one cell). -/
theorem sel_range_keeps (m m' : Mesh) (ax : Nat) (a b : Rat) (h : selRange m ax a b = .ok m') :
    ∃ c0 i0 c1 i1, selConvert m ax (min a b) = .ok (c0, i0) ∧ selConvert m ax (max a b) = .ok (c1, i1) ∧
      m'.subs.map (·.1) = (m.subs.filter fun p =>
        !(decide (c1 + m.cellAt ax / 2 - m.cellAt ax / 2 ≤ p.2.lo ax) ||
          decide (p.2.hi ax - m.cellAt ax / 2 ≤ c0 - m.cellAt ax / 2))).map (·.1) := by
  unfold selRange at h
  split at h
  · cases h
  · split at h
    · cases h
    · cases h
    · rename_i c0 i0 c1 i1 h0 h1
      split at h
      · cases h
      · split at h
        · cases h
        · rename_i r' _ m0 _
          obtain ⟨_, hnames, _, _, _, _⟩ := set_accepts m0 m' _ h
          refine ⟨c0, i0, c1, i1, h0, h1, ?_⟩
          rw [hnames, List.map_map]
          rfl

/-- the mesh extracted for a named subregion has exactly that subregion as its region -/
theorem getName_region (m g : Mesh) (name : String) (h : getName m name = .ok g) :
    ∃ p, m.subs.find? (fun p => p.1 == name) = some p ∧ g.region = p.2 := by
  unfold getName at h
  split at h
  · cases h
  · rename_i p hp
    refine ⟨p, hp, ?_⟩
    unfold Mesh.mkCell? at h
    split at h
    · cases h
    · split at h
      · cases h
      · split at h
        · cases h
        · split at h
          · cases h
          · split at h
            · cases h
            · split at h
              · cases h
              · injection h with h; subst h; rfl


/-! ## the subregion invariant `SubInv` (exact-arithmetic reading) -/

/-- What `SubInv` says, read as inequalities: an exactly fitting subregion lies inside the region
(`pmin ≤ s.pmin < s.pmax ≤ pmax` on every axis) and is itself a proper region carrying the mesh's
dimension names and units. -/
theorem subInv_inside (m : Mesh) (hm : m.Inv) (hs : SubInv m) (p : String × Region) (hp : p ∈ m.subs) :
    p.2.Inv ∧ p.2.dims = m.region.dims ∧ p.2.units = m.region.units ∧
    ∀ a, a < m.ndim → m.region.lo a ≤ p.2.lo a ∧ p.2.lo a < p.2.hi a ∧ p.2.hi a ≤ m.region.hi a :=
  ⟨subOkE_regionInv m hm p.2 (hs p hp), (hs p hp).1, (hs p hp).2.1, fits_bounds m hm p.2 (hs p hp).2.2.2⟩

/-- **Completeness of the setter.**  Every candidate set of boxes that fit the mesh exactly (inside,
whole cells, on the lattice — whatever names, units or tolerance the candidates carry) is accepted
by `setSubs` (all three tolerant tests pass), the result holds exactly the re-created candidates
and satisfies `SubInv`.  Together with `set_rejects`/`set_accepts` this pins the setter from both
sides in exact arithmetic. -/
theorem set_accepts_exact (m : Mesh) (hm : m.Inv) (subs : List (String × Region)) (h : ∀ p ∈ subs, FitsE m p.2) :
    setSubs m subs = .ok { m with subs := subs.map (restamp m.region) } ∧
    SubInv { m with subs := subs.map (restamp m.region) } :=
  setSubs_of_fits m hm subs h

/-- **"This stays true after translating, scaling, rotating" — one step.**  For a mesh satisfying
the mesh invariant and `SubInv`, EVERY accepted `stepM` (translate; scale by any non-zero factor(s)
of either sign about any reference point; quarter turn by any integer `k` in any plane about any
reference point; in-place or copying form) leaves receiver and returned mesh with `SubInv`: every
subregion again carries the (new) mesh's names and units and sits a whole number of (new) cells
into the (new) region, a whole number of cells long, inside — and names and order are kept.
The copying form re-validates the images with the tolerant tests of the setter; those tests only
gate (they can reject, never alter), so the statement needs no tolerance reading: whatever is
returned fits exactly. -/
theorem stepM_subInv (m : Mesh) (hm : m.Inv) (hs : SubInv m) (op : Op) (recv ret : Mesh)
    (h : stepM m op = .ok (recv, ret)) :
    SubInv recv ∧ SubInv ret ∧ ret.subs.map (·.1) = m.subs.map (·.1) :=
  stepM_subInv' m hm hs op recv ret h

/-- **… and after ANY finite history of transformation calls** (rejected steps skipped, every mix
of in-place and copying steps): the mesh invariant and `SubInv` hold, and the subregion names are
the original ones in the original order — by induction over the history. -/
theorem runM_subInv (m : Mesh) (hm : m.Inv) (hs : SubInv m) (ops : List Op) :
    (runM m ops).Inv ∧ SubInv (runM m ops) ∧ (runM m ops).subs.map (·.1) = m.subs.map (·.1) := by
  induction ops generalizing m with
  | nil => exact ⟨hm, hs, rfl⟩
  | cons op ops ih =>
    simp only [runM]
    cases h : stepM m op with
    | error e => exact ih m hm hs
    | ok p =>
      obtain ⟨recv, ret⟩ := p
      obtain ⟨_, h2, h3⟩ := stepM_subInv' m hm hs op recv ret h
      obtain ⟨a, b, c⟩ := ih ret (stepM_keeps m hm op recv ret h).2.1 h2
      exact ⟨a, b, c.trans h3⟩

/-- **The mesh extracted for a named subregion** of a mesh satisfying `SubInv`: the extraction
succeeds, the result has exactly that subregion as its region, exactly the parent's cell size on
every axis, as many cells as the subregion is long (`n·cell = extent`), and no subregions. -/
theorem getName_spec (m : Mesh) (hm : m.Inv) (hs : SubInv m) (name : String) (p : String × Region)
    (hp : m.subs.find? (fun p => p.1 == name) = some p) :
    ∃ g, getName m name = .ok g ∧ g.region = p.2 ∧ g.subs = [] ∧
      ∀ a, a < m.ndim → g.cellAt a = m.cellAt a ∧ 0 < g.nAt a ∧ (g.nAt a : Rat) * m.cellAt a = p.2.edge a := by
  have hmem : p ∈ m.subs := List.mem_of_find?_eq_some hp
  obtain ⟨g, hg, h1, h2, h3⟩ := mkCell_of_fits m hm p.2 (hs p hmem).2.2.2
  refine ⟨g, ?_, h1, h2, h3⟩
  unfold getName; rw [hp]; exact hg

/-- an unknown name is refused -/
theorem getName_unknown (m : Mesh) (name : String) (h : m.subs.find? (fun p => p.1 == name) = none) :
    getName m name = .error .key := by
  unfold getName; rw [h]


/-- non-vacuity of `stepM_subInv` / `runM_subInv` / `getName_spec`: the 3-d mesh `exM` (anisotropic
counts and cells, two touching subregions, periodic in x) satisfies the mesh invariant and `SubInv`;
the history `exOps` (in-place scale by (−2, ½, 3) about a far reference point, copying quarter turn
with k = −3, in-place translation) is accepted step by step and ends with the counts permuted. -/
example : exM.Inv ∧ SubInv exM := ⟨exM_inv, exM_subInv⟩
example : (runM exM exOps).n = [6, 4, 1] ∧ (runM exM exOps).bc = "y" ∧ (runM exM exOps).subs.length = 2 := by decide +kernel
example : SubInv (runM exM exOps) := (runM_subInv exM exM_inv exM_subInv exOps).2.1
example : exM.subs.find? (fun p => p.1 == "b") = some ("b", ⟨[6, 0, 0], [8, 6, 2], ["x", "y", "z"], ["m", "s", "K"], 1/1000000000000⟩) := by
  decide +kernel
/-- non-vacuity of `set_accepts_exact`: a candidate with other names/units that fits `exM` exactly -/
example : FitsE exM ⟨[0, 2, 0], [4, 5, 2], ["p", "q", "r"], ["a", "b", "c"], 0⟩ := fitsE_of_fitsB _ _ (by decide +kernel)

/-! ## selections: which subregions are kept, how, and `SubInv` of the result -/

/-- **Range selection, full statement.**  For a mesh satisfying the mesh invariant and `SubInv`, a
successful `selRange m ax a b` keeps the cells `i0 … i1` containing the two bounds (`i0 ≤ i1 < n`):
the region is cut to the slab `[pmin + i0·cell, pmin + (i1+1)·cell]` along `ax`, the count there is
`i1 − i0 + 1`, and the subregions of the result are EXACTLY those whose open extent along `ax`
meets the open slab (`s.pmin < slab.hi ∧ slab.lo < s.pmax` — both directions: every such subregion
is kept, no other is; this includes bounds that fall exactly on a subregion face), each clipped
to the slab (`clipSub`, the intersection by `clip_is_intersection`) and re-created with the result's
metadata, in the original order.  The result satisfies the mesh invariant and `SubInv`. -/
theorem sel_range_spec (m m' : Mesh) (hm : m.Inv) (hs : SubInv m) (ax : Nat) (a b : Rat)
    (h : selRange m ax a b = .ok m') :
    m'.Inv ∧ SubInv m' ∧ ax < m.ndim ∧
    ∃ i0 i1, i0 ≤ i1 ∧ i1 < m.nAt ax ∧ i0 = m.indexAx ax (min a b) ∧ i1 = m.indexAx ax (max a b) ∧
      m'.region = { m.region with pmin := setAt m.region.pmin ax (loSlab m ax i0),
                                  pmax := setAt m.region.pmax ax (hiSlab m ax i1) } ∧
      m'.n = setAt m.n ax (i1 - i0 + 1) ∧
      m'.subs = (m.subs.filter fun p => decide (p.2.lo ax < hiSlab m ax i1) && decide (loSlab m ax i0 < p.2.hi ax)).map
        fun p => restamp m'.region (p.1, clipSub m ax i0 i1 p.2) := by
  obtain ⟨hax, i0, i1, h01, h1n, e0, e1, hreg, hn, hsub⟩ := selRange_inv m m' hm ax a b h
  obtain ⟨hi, hsi⟩ := selRange_keeps m m' hm hs ax i0 i1 hax h01 h1n hreg hn hsub
  refine ⟨hi, hsi, hax, i0, i1, h01, h1n, e0, e1, hreg, hn, ?_⟩
  rw [hsub, range_filter_eq m hm hs ax i0 i1 hax]

/-- "clipped to it": the clipped subregion is, as a closed box, exactly the intersection of the
subregion with the kept slab -/
theorem clip_is_intersection (m : Mesh) (ax i0 i1 : Nat) (s : Region) (hax : ax < s.ndim)
    (hl : s.pmax.length = s.pmin.length) (p : List Rat) :
    (clipSub m ax i0 i1 s).containsExact p ↔
      s.containsExact p ∧ loSlab m ax i0 ≤ p.getD ax 0 ∧ p.getD ax 0 ≤ hiSlab m ax i1 :=
  clipSub_inter m ax i0 i1 s hax hl p

/-- **Plane selection, full statement.**  For a mesh satisfying the mesh invariant and `SubInv`, a
successful `selPlane m ax x` removes axis `ax` (corners, names, units, count) and its subregions
are EXACTLY those whose closed extent along `ax` contains the centre of the selected cell, with
that axis removed (`dropSub`) and re-created with the result's metadata, in the original order.
The result satisfies the mesh invariant and `SubInv`. -/
theorem sel_plane_spec (m m' : Mesh) (hm : m.Inv) (hs : SubInv m) (ax : Nat) (x : Option Rat)
    (h : selPlane m ax x = .ok m') :
    m'.Inv ∧ SubInv m' ∧ ax < m.ndim ∧ 1 < m.ndim ∧
      m'.region = { pmin := removeAt m.region.pmin ax, pmax := removeAt m.region.pmax ax,
                    dims := removeAt m.region.dims ax, units := removeAt m.region.units ax, tol := m.region.tol } ∧
      m'.n = removeAt m.n ax ∧
      m'.subs = (m.subs.filter fun p =>
          !(decide (p.2.hi ax < m.centreAx ax (m.indexAx ax (x.getD (m.region.center.getD ax 0)) : Nat)) ||
            decide (m.centreAx ax (m.indexAx ax (x.getD (m.region.center.getD ax 0)) : Nat) < p.2.lo ax))).map
        fun p => restamp m'.region (p.1, dropSub ax p.2) := by
  obtain ⟨hax, h1, hdup, hreg, hn, hsub⟩ := selPlane_inv m m' hm ax x h
  obtain ⟨hi, hsi⟩ := selPlane_keeps m m' hm hs ax _ hax h1 hdup hreg hn hsub
  exact ⟨hi, hsi, hax, h1, hreg, hn, hsub⟩

/-- non-vacuity of `sel_range_spec` / `sel_plane_spec`: on `exM` the range x ∈ [3, 5] keeps the cells
[2,4], [4,6]; the slab ends exactly on the face x = 6 shared by the two subregions: "a" is kept, "b" —
which only touches the slab — is dropped; the plane y = 2.2 keeps both. -/
example : (match selRange exM 0 3 5 with | .ok g => g.subs.map (fun q => (q.1, q.2.pmin, q.2.pmax)) | .error _ => [])
    = [("a", [2, 1, 0], [6, 3, 2])] := by decide +kernel
example : (match selPlane exM 1 (some (11/5)) with | .ok g => g.subs.map (fun q => (q.1, q.2.pmin, q.2.pmax)) | .error _ => [])
    = [("a", [2, 0], [6, 2]), ("b", [6, 0], [8, 2])] := by decide +kernel

/-! ## persistence: the JSON side-car -/

/-- decode ∘ encode on one region: `Region(**region.to_dict())` (through the `pmin < pmax` keyword
path and the ordinary constructor) gives back every proper region unchanged -/
theorem region_json_roundtrip (r : Region) (hr : r.Inv) : regionOfJV (regionToJV r) = .ok r :=
  regionOfJV_toJV r hr

/-- **load(save(m)).subs = m.subs.**  The side-car written by `save_subregions` for a mesh
satisfying the mesh invariant and `SubInv`, loaded with `load_subregions` into any mesh `m0` of the
same geometry (same region and counts — e.g. the mesh a field file describes, which carries no
subregions yet, whatever subregions `m0` held before), is decoded entry by entry, accepted by the
setter, and re-attaches exactly the saved subregions: names, order, corners, dimension names,
units, tolerance. -/
theorem load_save_roundtrip (m m0 : Mesh) (hm : m.Inv) (hs : SubInv m) (hr : m0.region = m.region) (hn : m0.n = m.n) :
    loadSubs m0 (saveSubs m) = .ok { m0 with subs := m.subs } :=
  load_save' m m0 hm hs hr hn

/-- **Loading re-attaches through the setter.**  A successful `load_subregions` decoded the file
into a dictionary of regions and that dictionary passed the `subregions` setter of the receiving
mesh: every attached subregion passed the inside / whole-cell / lattice tests of THIS mesh and
carries its names, units and tolerance; region and counts of the mesh are untouched. -/
theorem load_through_setter (m m' : Mesh) (j : JV) (h : loadSubs m j = .ok m') :
    ∃ subs, subsOfJV j = .ok subs ∧ setSubs m subs = .ok m' ∧ (∀ p ∈ subs, candOk m p.2 = true) ∧
      m'.subs = subs.map (restamp m.region) ∧ m'.region = m.region ∧ m'.n = m.n := by
  obtain ⟨subs, h1, h2⟩ := load_inv' m m' j h
  obtain ⟨e, hall⟩ := setSubs_ok_eq m m' subs h2
  exact ⟨subs, h1, h2, hall, by rw [e], by rw [e], by rw [e]⟩

/-- … so a side-car that does not fit the mesh (some decoded box fails one of the three tests) is
rejected — and, the model being functional, the mesh keeps its previous subregions. -/
theorem load_rejects_misfit (m : Mesh) (j : JV) (subs : List (String × Region)) (p : String × Region)
    (hd : subsOfJV j = .ok subs) (hp : p ∈ subs) (hbad : candOk m p.2 = false) :
    loadSubs m j = .error .value := by
  unfold loadSubs; rw [hd]; exact set_rejects m subs p hp hbad

/-- non-vacuity of the persistence theorems: `exM` meets the hypotheses of `load_save_roundtrip`
(with `m0` = the same geometry without subregions); the same side-car offered to a mesh shifted by
a third of a cell is rejected. -/
example : loadSubs { exM with subs := [] } (saveSubs exM) = .ok exM :=
  load_save_roundtrip exM { exM with subs := [] } exM_inv exM_subInv rfl rfl
example : (match loadSubs { exM with region := { exM.region with pmin := [2/3, 0, 0], pmax := [26/3, 6, 2] }, subs := [] } (saveSubs exM) with
    | .ok _ => true | .error _ => false) = false := by decide +kernel

/-- **… and the re-attached subregions satisfy `SubInv` on the receiving mesh**: the mesh
`load_subregions` produces from the side-car of a mesh satisfying `SubInv` (VTK / OVF: the field
file carries the geometry, the side-car the subregions) satisfies the mesh invariant and `SubInv`. -/
theorem sidecar_roundtrip_subInv (m m0 : Mesh) (hm : m.Inv) (hs : SubInv m) (hr : m0.region = m.region) (hn : m0.n = m.n) :
    ∃ g, loadSubs m0 (saveSubs m) = .ok g ∧ g.Inv ∧ SubInv g ∧ g.subs = m.subs ∧ g.region = m0.region ∧ g.n = m0.n :=
  ⟨_, load_save' m m0 hm hs hr hn, meshInv_congr m _ hr hn hm, sidecar_subInv m m0 hs hr hn, rfl, rfl, rfl⟩

/-! ## persistence: HDF5 (C10's model of `io/hdf5.py`, imported read-only) -/

/-- **The mesh the HDF5 reader returns has the same values.**  `TMesh.loaded` — the mesh
`DFV.C10.mesh_roundtrip` proves `meshLoad (meshSave m)` returns for every well-formed `m` — differs
from `m` only in the dtype of the subregion corner arrays (they arrive in the dtype of the corner
table, which is integer only if every stored corner array is: never a float-to-integer cast);
region, counts, `bc`, subregion names, order and every corner VALUE are those of `m`. -/
theorem hdf5_loaded_same_values (m : C10.TMesh) : meshOfT m.loaded = meshOfT m := meshOfT_loaded m

/-- **Subregions read back from an HDF5 file satisfy `SubInv` on the loaded mesh**, with the same
names in the same order and the same corners, region and counts. -/
theorem hdf5_loaded_subInv (m : C10.TMesh) (hs : SubInv (meshOfT m)) :
    SubInv (meshOfT m.loaded) ∧ (meshOfT m.loaded).subs = (meshOfT m).subs ∧
    (meshOfT m.loaded).region = (meshOfT m).region ∧ (meshOfT m.loaded).n = (meshOfT m).n :=
  h5_loaded_subInv' m hs

/-- **Whatever an HDF5 file contains, loaded subregions went through the setter** of the mesh the
reader builds: every candidate row passed the setter's check (the inside / whole-cell / lattice tests on
the candidate re-created with the mesh's metadata: repo fix 5591fed0), every stored subregion is the
candidate re-created with the mesh's dimension names, units and tolerance (corners ordered, names kept),
and every STORED subregion passes the three tests of that mesh as it is stored — so a table that does not
fit the stored geometry makes the load fail instead of attaching misfitting subregions. -/
theorem hdf5_load_through_setter (h : C10.H5Mesh) (g : C10.TMesh) (hg : C10.meshLoad h = .ok g) :
    ∃ cands : List (String × C10.TReg), C10.setSubs g.region g.n cands = .ok g.subs ∧
      (∀ c ∈ cands, C10.candOk g.region g.n c.2 = true) ∧
      List.Forall₂ (fun c p => p.1 = c.1 ∧ p.2.dims = g.region.dims ∧ p.2.units = g.region.units ∧
          p.2.tol = g.region.tol ∧ p.2.pmin = C10.NumArr.minimum c.2.pmin c.2.pmax ∧
          p.2.pmax = C10.NumArr.maximum c.2.pmin c.2.pmax) cands g.subs ∧
      (∀ p ∈ g.subs, C10.subAccept g.region.toRegion g.n p.2.toRegion = true) :=
  h5_load_through_setter' h g hg

/-- **C10's model of the subregion setter's tests and C14's are the same function**: inside the
region, `Mesh(region=candidate, cell=mesh.cell)` exists, `is_aligned` with the absolute 1e-12 /
relative 1e-5 tolerances — written independently for the two properties from the same code. -/
theorem setter_models_agree (r : Region) (n : List Nat) (s : Region) :
    C10.subAccept r n s = T.subOk { region := r, n := n, bc := "", subs := [] } s :=
  subAccept_eq_subOk r n s

/-- … so every subregion an HDF5 load attaches passes — as it is stored — exactly the three tests `subOk`
of the loaded mesh that `set_accepts` / `set_rejects` / `set_accepts_exact` are about. -/
theorem hdf5_load_passed_subOk (h : C10.H5Mesh) (g : C10.TMesh) (hg : C10.meshLoad h = .ok g) :
    ∃ cands : List (String × C10.TReg), C10.setSubs g.region g.n cands = .ok g.subs ∧
      ∀ p ∈ g.subs, T.subOk (meshOfT g) p.2.toRegion = true :=
  h5_load_subOk h g hg

/-- non-vacuity of the HDF5 theorems: `exT` is `exM` with integer region corners, one subregion with
integer and one with float corner arrays; its values are `exM`, so `SubInv` holds; the corner table
is float, so loading changes the dtype of subregion "a" (`loaded ≠ self`) but no value. -/
example : exT.n = [4, 6, 1] := rfl
example : meshOfT exT = exM := by decide +kernel
example : SubInv (meshOfT exT) := by
  have : meshOfT exT = exM := by decide +kernel
  rw [this]; exact exM_subInv
example : exT.loaded ≠ exT := by decide +kernel
example : ∃ g, loadSubs { exM with subs := [] } (saveSubs exM) = .ok g ∧ SubInv g :=
  let ⟨g, h1, _, h3, _⟩ := sidecar_roundtrip_subInv exM { exM with subs := [] } exM_inv exM_subInv rfl rfl
  ⟨g, h1, h3⟩

/-- non-vacuity: two concrete meshes offset by two cells are aligned; offset by half a cell they are not -/
example : isAligned ⟨⟨[0, 0], [4, 2], ["x", "y"], ["m", "m"], 0⟩, [4, 2], "", []⟩
                    ⟨⟨[2, 1], [5, 2], ["x", "y"], ["m", "m"], 0⟩, [3, 1], "", []⟩ = true := by decide +kernel
example : isAligned ⟨⟨[0, 0], [4, 2], ["x", "y"], ["m", "m"], 0⟩, [4, 2], "", []⟩
                    ⟨⟨[1/2, 1], [7/2, 2], ["x", "y"], ["m", "m"], 0⟩, [3, 1], "", []⟩ = false := by decide +kernel

/-! ## round 3: the tolerant tests as the code evaluates them, in exact rational arithmetic -/

/-- **`is_aligned`, one corner offset, as an iff**: the remainder test accepts the offset `d` iff `d` is
within the tolerance `t` of a whole number of cells — both directions (round 2 had soundness only),
every `t`, every cell size. -/
theorem aligned_tol_iff (d c t : Rat) (hc : 0 < c) :
    misalignedAx d c t = false ↔ ∃ z : Int, |d - (z : Rat) * c| ≤ t :=
  misalignedAx_false_iff d c t hc

/-- **the whole-cell test of `Mesh(region = candidate, cell = mesh.cell)`, one axis, as an iff**: an edge `e`
passes iff it is within `t` of a whole number of cells, where the code takes `t = min(cell)/1000` -/
theorem divisible_tol_iff (e c t : Rat) (hc : 0 < c) :
    Mesh.notDivisible e c t = false ↔ ∃ z : Int, |e - (z : Rat) * c| ≤ t :=
  notDivisible_false_iff e c t hc

/-- **`subregion in region` with its absolute + relative tolerance**: both corners of the candidate must
satisfy `pmin − (atol + rtol·|x|) ≤ x ≤ pmax + (atol + rtol·|x|)` per axis, `rtol` = the REGION's
`tolerance_factor`, `atol = min(edges)·tolerance_factor` — the region version of
`DFV.C01.contains_iff_tolerance`.  The candidate's own tolerance factor does not occur. -/
theorem inside_iff_tolerance (r : Region) (hr : r.Inv) (ht : 0 ≤ r.tol) (s : Region) :
    r.containsReg s = true ↔
      s.pmin.length = r.ndim ∧ s.pmax.length = r.ndim ∧ ∀ a, a < r.ndim →
        (r.lo a - band r (s.lo a) ≤ s.lo a ∧ s.lo a ≤ r.hi a + band r (s.lo a)) ∧
        (r.lo a - band r (s.hi a) ≤ s.hi a ∧ s.hi a ≤ r.hi a + band r (s.hi a)) :=
  containsReg_iff_tolerance r hr ht s

/-- **D18 as an iff, first half — an aligned box is rejected**: a corner offset that is a whole number
of cells up to an error `ε` with `|ε| ≤ c/2` (the rounding error of a far-away or rotated coordinate)
fails the alignment test iff `|ε| > t`; `t` is the ABSOLUTE `1e-12` of the code, so the verdict does
not look at the size of `ε` relative to the cell or to the coordinates. -/
theorem d18_aligned_rejected_iff (z : Int) (c ε t : Rat) (hc : 0 < c) (hε : |ε| ≤ c / 2) :
    misalignedAx ((z : Rat) * c + ε) c t = true ↔ t < |ε| :=
  aligned_perturbed_rejected_iff z c ε t hc hε

/-- **D18 as an iff, second half — a misaligned box is accepted**: a corner offset by HALF a cell from
the lattice passes the alignment test iff `c ≤ 2t` (cells of at most `2e-12` with the default). -/
theorem d18_half_cell_accepted_iff (z : Int) (c t : Rat) (hc : 0 < c) :
    misalignedAx (((z : Rat) + 1 / 2) * c) c t = false ↔ c ≤ 2 * t :=
  half_cell_accepted_iff z c t hc

/-- **`is_aligned` is not scale invariant — the exact law**: with both meshes scaled by `s > 0` and the
same absolute tolerance `t`, the answer is the answer at the original scale with tolerance `t / s`
(cell-size comparison and both corner tests).  The whole-cell test, whose tolerance is a fraction of
the cell, IS invariant. -/
theorem is_aligned_scale_law (s : Rat) (hs : 0 < s) (m o : Mesh) (t e c t' : Rat) :
    isAligned (scaleMesh s m) (scaleMesh s o) t = isAligned m o (t / s) ∧
    Mesh.notDivisible (s * e) (s * c) (s * t') = Mesh.notDivisible e c t' :=
  ⟨isAligned_scale s hs m o t, notDivisible_scale s e c t' hs⟩

/-- **An exact fit is accepted at every length scale**: if a box fits a mesh exactly (`FitsE`), then for
every `σ > 0` the box scaled by `σ` passes all three tolerant tests of the mesh scaled by `σ` — as given and as
the setter tests it (re-created with the mesh's metadata) — the absolute tolerance of `is_aligned` can only hurt boxes whose stored corners are NOT exactly
on the lattice (`d18_aligned_rejected_iff`). -/
theorem exact_fit_accepted_at_every_scale (m : Mesh) (hm : m.Inv) (s : Region) (h : FitsE m s) (σ : Rat) (hσ : 0 < σ) :
    subOk (scaleMesh σ m) (scaleReg σ s) = true ∧ candOk (scaleMesh σ m) (scaleReg σ s) = true :=
  ⟨subOk_of_fits _ (scaleMesh_inv σ hσ m hm) _ (fitsE_scale σ m s h),
   candOk_of_fits _ (scaleMesh_inv σ hσ m hm) _ (fitsE_scale σ m s h)⟩

/-- **The setter's outcome does not depend on the candidates' dimension names, units or tolerance
factors** — true of the code since repo fix 5591fed0 (finding D132): every candidate of the mesh's
dimension is first re-created with the mesh region's names, units and tolerance factor and the three
tests are made on that copy, which is also what is stored (`set_accepts`).  Replacing the metadata of
every candidate by anything gives the same result: the same error or the same mesh. -/
theorem setter_ignores_candidate_metadata (m : Mesh) (subs : List (String × Region)) (d u : String × Region → List String)
    (t : String × Region → Rat) :
    setSubs m (subs.map fun p => (p.1, { p.2 with dims := d p, units := u p, tol := t p })) = setSubs m subs := by
  unfold setSubs
  have h1 : (subs.map fun p => (p.1, ({ p.2 with dims := d p, units := u p, tol := t p } : Region))).all (fun p => candOk m p.2)
      = subs.all (fun p => candOk m p.2) := by
    rw [List.all_map]
    apply List.all_congr rfl
    intro p
    exact candOk_indep m p.2 (d p) (u p) (t p)
  rw [h1, List.map_map]
  rfl

/-- … for one candidate: its own tolerance factor has no say (before the fix it had: next theorem) -/
theorem setter_ignores_candidate_tol (m : Mesh) (s : Region) (t' : Rat) : candOk m { s with tol := t' } = candOk m s :=
  candOk_indep m s s.dims s.units t'

/-- **Why the re-creation matters (witness of finding D132).**  Mesh `[0, 0.002]`, two cells; candidate
`[0, 0.001 − 1e-13]` — shorter than one cell by `1e-10` cells.  The three tests made on the candidate AS
GIVEN (what the setter did before repo fix 5591fed0) refuse it when it carries the default tolerance
factor `1e-12` but pass it when it carries `1e-3`: the test `Region(pmin, pmin + cell) in candidate` of
`Mesh(region = candidate, cell = mesh.cell)` runs with the tolerance of the region it is given.  The
setter's check `candOk` re-creates the candidate with the mesh's `1e-12` first and refuses both. -/
theorem candidate_tolerance_decides_witness :
    subOk ⟨⟨[0], [2/1000], ["x"], ["m"], 1/1000000000000⟩, [2], "", []⟩
      ⟨[0], [1/1000 - 1/10000000000000], ["x"], ["m"], 1/1000000000000⟩ = false ∧
    subOk ⟨⟨[0], [2/1000], ["x"], ["m"], 1/1000000000000⟩, [2], "", []⟩
      ⟨[0], [1/1000 - 1/10000000000000], ["x"], ["m"], 1/1000⟩ = true ∧
    candOk ⟨⟨[0], [2/1000], ["x"], ["m"], 1/1000000000000⟩, [2], "", []⟩
      ⟨[0], [1/1000 - 1/10000000000000], ["x"], ["m"], 1/1000000000000⟩ = false ∧
    candOk ⟨⟨[0], [2/1000], ["x"], ["m"], 1/1000000000000⟩, [2], "", []⟩
      ⟨[0], [1/1000 - 1/10000000000000], ["x"], ["m"], 1/1000⟩ = false := by
  decide +kernel

/-- **The copying form of translate / scale / rotate90 is the constructor applied to the in-place
result** — for ANY mesh satisfying the mesh invariant whose subregions are proper regions (they need
not fit exactly: tolerance-accepted boxes, boxes moved by inexact arithmetic): with `T` the result of
the in-place form, the copying form evaluates `Mesh(region=T.region, n=T.n, bc=T.bc,
subregions=T.subregions)`, returning that mesh with the receiver untouched or failing with it; and a
step rejected in place is rejected by the copying form. -/
theorem copy_form_is_constructor_of_inplace (m : Mesh) (hm : m.Inv) (hp : ∀ p ∈ m.subs, p.2.Inv) (op : Op) :
    (∀ T1 T2, stepM m (op.withInplace true) = .ok (T1, T2) →
      T1 = T2 ∧ stepM m (op.withInplace false) =
        match mkMesh? T2.region T2.n T2.bc T2.subs with
        | .error e => .error e
        | .ok m' => .ok (m, m')) ∧
    ((∃ e, stepM m (op.withInplace true) = .error e) → ∃ e, stepM m (op.withInplace false) = .error e) :=
  stepM_copy_is_ctor m hm hp op

/-- **In-place == copying holds exactly when the in-place result passes the setter's tests** (finding
D18 delimited, as D57 was): same hypotheses, `T` the in-place result.  The copying form is accepted
IFF `T.bc` passes the `bc` check and every subregion of `T` passes the setter's check against `T` (the inside
test, the 0.1 % whole-cell test and the absolute-`1e-12` alignment test, made on the subregion with `T`'s
metadata); when it is, it returns `T` with `bc` lower-cased
and the subregions re-created with `T`'s names, units and tolerance.  For exactly fitting subregions
(`SubInv`) the condition always holds (`DFV.C13.inplace_eq_copy_mesh_complete`); it fails only for
subregions whose corners are off the lattice by more than the tolerances (`d18_aligned_rejected_iff`). -/
theorem copy_accepted_iff_inplace_passes (m : Mesh) (hm : m.Inv) (hp : ∀ p ∈ m.subs, p.2.Inv) (op : Op) (T1 T : Mesh)
    (hT : stepM m (op.withInplace true) = .ok (T1, T)) :
    ((∃ y m', stepM m (op.withInplace false) = .ok (y, m')) ↔
      (Mesh.bcOk T.region.dims T.bc.toLower = true ∧ ∀ p ∈ T.subs, candOk T p.2 = true)) ∧
    (∀ y m', stepM m (op.withInplace false) = .ok (y, m') →
      y = m ∧ m' = { T with bc := T.bc.toLower, subs := T.subs.map (restamp T.region) }) :=
  stepM_copy_accepted_iff m hm hp op T1 T hT

/-- non-vacuity of the round-3 theorems: a mesh whose subregion is OFF the lattice by 1/3 of a cell is a
legitimate subject of `copy_form_is_constructor_of_inplace` (mesh invariant, proper subregion, no exact
fit): its in-place translation is accepted, the copying one is refused by the constructor; the D18 iffs
have instances on both sides at `t = 1e-12`. -/
example : (⟨⟨[0, 0], [4, 2], ["x", "y"], ["m", "m"], 1/1000000000000⟩, [4, 2], "",
    [("a", ⟨[1/3, 0], [4/3, 1], ["x", "y"], ["m", "m"], 1/1000000000000⟩)]⟩ : Mesh).invB = true := by decide +kernel
example : (match stepM ⟨⟨[0, 0], [4, 2], ["x", "y"], ["m", "m"], 1/1000000000000⟩, [4, 2], "",
      [("a", ⟨[1/3, 0], [4/3, 1], ["x", "y"], ["m", "m"], 1/1000000000000⟩)]⟩ (.translate [1, 1] true) with
    | .ok _ => true | .error _ => false) = true ∧
  (match stepM ⟨⟨[0, 0], [4, 2], ["x", "y"], ["m", "m"], 1/1000000000000⟩, [4, 2], "",
      [("a", ⟨[1/3, 0], [4/3, 1], ["x", "y"], ["m", "m"], 1/1000000000000⟩)]⟩ (.translate [1, 1] false) with
    | .ok _ => true | .error _ => false) = false := by decide +kernel
example : misalignedAx (3 * 1000 + 1/100000000000) 1000 (1/1000000000000) = true ∧
    misalignedAx ((3 + 1/2) * (1/1000000000000)) (1/1000000000000) (1/1000000000000) = false := by decide +kernel
example : FitsE exM ⟨[0, 2, 0], [4, 5, 2], ["p", "q", "r"], ["a", "b", "c"], 0⟩ ∧ (0 : Rat) < 1000000 :=
  ⟨fitsE_of_fitsB _ _ (by decide +kernel), by norm_num⟩

/-! ## round 3: the store model (`DFV/Model/C13Store.lean`) — region and subregions are the mesh's own copies -/
open DFV.S in
/-- **The setter and the constructor store COPIES; no subregion object is shared** — after ANY session
(any statements, any aliasing: the same candidate objects for several meshes, one object under two
names, a mesh's own region or another mesh's subregions as candidates): the ids of all subregion
objects of all meshes are pairwise different, every subregion object of a mesh was created after the
mesh's region object (so it is none of the caller's candidates, nor the region), and carries the
dimension names of the mesh region. -/
theorem subregions_are_own_copies (sts : List Stmt) :
    (subIds (run Store.empty sts)).Nodup ∧
    ∀ mo ∈ (run Store.empty sts).meshes, ∀ p ∈ mo.subs,
      mo.region < p.2 ∧ p.2 < (run Store.empty sts).regs.length ∧
      ((run Store.empty sts).reg p.2).dims = ((run Store.empty sts).reg mo.region).dims := by
  have hg := run_good Store.empty empty_good sts
  refine ⟨hg.2.1, fun mo hmo p hp => ?_⟩
  obtain ⟨_, v2, _, _, _, v6⟩ := hg.2.2 mo hmo
  exact ⟨(v2 p hp).1, (v2 p hp).2, v6 p hp⟩

open DFV.S in
/-- **"This stays true after translating, scaling, rotating" — in the store**: a mesh object whose value
satisfies `SubInv` and `BcWf`, in a good store with exclusive region objects (every store reached by a session:
`DFV.C13.store_invariant_after_any_session`), moved by ANY history of
in-place steps, still holds the same Region objects, and its value satisfies the mesh invariant and
`SubInv` with the subregion names in the original order; the other meshes keep their values (hence
their `SubInv`). -/
theorem subInv_after_inplace_history_in_store (s : Store) (hg : Good s) (he : RegExcl s) (mid : Nat) (mo : MeshObj)
    (hmo : s.meshes[mid]? = some mo) (hs : SubInv (absMesh s mo)) (hb : BcWf (absMesh s mo)) (ops : List Op)
    (hin : ∀ op ∈ ops, op.inplace = true) :
    ∃ mo', (run s (ops.map (Stmt.meshOp mid))).meshes[mid]? = some mo' ∧ footprint mo' = footprint mo ∧
      (absMesh (run s (ops.map (Stmt.meshOp mid))) mo').Inv ∧ SubInv (absMesh (run s (ops.map (Stmt.meshOp mid))) mo') ∧
      (absMesh (run s (ops.map (Stmt.meshOp mid))) mo').subs.map (·.1) = (absMesh s mo).subs.map (·.1) ∧
      ∀ j moj, j ≠ mid → s.meshes[j]? = some moj →
        absMesh (run s (ops.map (Stmt.meshOp mid))) moj = absMesh s moj := by
  obtain ⟨mo', f1, f2, f3, f4, _, _⟩ := inplace_history s hg he mid mo hmo hs hb ops hin
  have hm := (good_mesh s hg mo (List.mem_of_getElem? hmo)).2.1
  obtain ⟨r1, r2, r3⟩ := runM_subInv (absMesh s mo) hm hs ops
  exact ⟨mo', f1, f3, by rw [f2]; exact r1, by rw [f2]; exact r2, by rw [f2]; exact r3, fun j moj hj hmj => (f4 j moj hj hmj).2⟩

end DFV.C14
