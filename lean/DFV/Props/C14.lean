import DFV.Lemmas.C14
/-!
# C14 — subregions stay inside, aligned with and measured in cells of their mesh
-/
namespace DFV.C14
open DFV DFV.T

/-- attaching subregions that are not all acceptable is rejected (and, the model being
functional, the previous subregions are kept) -/
theorem set_rejects (m : Mesh) (subs : List (String × Region)) (p : String × Region) (hp : p ∈ subs)
    (hbad : subOk m p.2 = false) : setSubs m subs = .error .value := by
  unfold setSubs
  have : subs.all (fun p => subOk m p.2) = false := by
    rw [List.all_eq_false]; exact ⟨p, hp, by simp [hbad]⟩
  simp [this]

/-- accepted subregions carry the mesh's dimension names, units and tolerance, keep
their corners, names and order -/
theorem set_accepts (m m' : Mesh) (subs : List (String × Region)) (h : setSubs m subs = .ok m') :
    (∀ p ∈ subs, subOk m p.2 = true) ∧
    m'.subs.map (·.1) = subs.map (·.1) ∧
    (∀ q ∈ m'.subs, q.2.dims = m.region.dims ∧ q.2.units = m.region.units ∧ q.2.tol = m.region.tol) ∧
    m'.subs.map (fun q => (q.2.pmin, q.2.pmax)) = subs.map (fun q => (q.2.pmin, q.2.pmax)) ∧
    m'.region = m.region ∧ m'.n = m.n := by
  unfold setSubs at h
  split at h
  · rename_i hall
    injection h with h
    subst h
    refine ⟨fun p hp => List.all_eq_true.mp hall p hp, by simp [Function.comp_def], ?_, by simp [Function.comp_def], rfl, rfl⟩
    intro q hq
    simp only [List.mem_map] at hq
    obtain ⟨p, _, rfl⟩ := hq
    exact ⟨rfl, rfl, rfl⟩
  · cases h

/-! ## `is_aligned`: the remainder test -/

/-- Exact arithmetic, tolerance 0: an offset passes the remainder test iff it is a whole
number of cells. -/
theorem aligned_exact_iff (d c : Rat) (hc : 0 < c) :
    misalignedAx d c 0 = false ↔ ∃ z : Int, absR d = (z : Rat) * c := by
  unfold misalignedAx
  have h0 := remainder_nonneg (absR d) c hc
  have h1 := remainder_lt (absR d) c hc
  constructor
  · intro h
    have hz : Mesh.remainder (absR d) c = 0 := by
      by_contra hne
      have hpos : 0 < Mesh.remainder (absR d) c := lt_of_le_of_ne h0 (Ne.symm hne)
      simp [hpos, h1] at h
    refine ⟨(absR d / c).floor, ?_⟩
    have := remainder_eq (absR d) c
    rw [hz] at this; linarith
  · rintro ⟨z, hz⟩
    rw [hz, remainder_of_multiple z c hc]
    simp

/-- With tolerance `t ≥ 0`: an offset that is exactly a whole number of cells always passes. -/
theorem aligned_of_whole (d c t : Rat) (hc : 0 < c) (ht : 0 ≤ t) (z : Int) (hz : absR d = (z : Rat) * c) :
    misalignedAx d c t = false := by
  unfold misalignedAx
  rw [hz, remainder_of_multiple z c hc]
  have : ¬ (t < 0) := not_lt.mpr ht
  simp [this]

/-- With tolerance `t`: an offset that passes is within `t` of a whole number of cells. -/
theorem aligned_tol_sound (d c t : Rat) (hc : 0 < c) (h : misalignedAx d c t = false) :
    ∃ z : Int, absR (absR d - (z : Rat) * c) ≤ t := by
  unfold misalignedAx at h
  have h0 := remainder_nonneg (absR d) c hc
  have h1 := remainder_lt (absR d) c hc
  have heq := remainder_eq (absR d) c
  by_cases ha : t < Mesh.remainder (absR d) c
  · have hb : ¬ (Mesh.remainder (absR d) c < c - t) := by
      intro hb; simp [ha, hb] at h
    refine ⟨(absR d / c).floor + 1, ?_⟩
    rw [absR_eq_abs, abs_le]
    push_cast
    constructor <;> linarith
  · refine ⟨(absR d / c).floor, ?_⟩
    rw [absR_eq_abs, abs_le]
    constructor <;> linarith


/-! ## subregions stay on the lattice under the affine maps -/


/-- Scalar heart of "subregions stay on the lattice under scaling": an interval `[l,h]`
sitting `z` cells into `[L,H]` (cell `c = (H-L)/n`) and `w` cells long is mapped by
`x ↦ R + s(x-R)`, `s ≠ 0`, to an interval sitting a whole number of (new) cells into the
image of `[L,H]` and again `w` cells long — for either sign of `s`, any `R`. -/
theorem scale_keeps_lattice_axis (L H l h R s : Rat) (n z w : Int) (hn : 0 < n) (hLH : L < H) (hs : s ≠ 0)
    (hz : l - L = (z : Rat) * ((H - L) / n)) (hw : h - l = (w : Rat) * ((H - L) / n)) (hw0 : 0 < w) :
    ∃ z' : Int,
      min (R + s * (l - R)) (R + s * (h - R)) - min (R + s * (L - R)) (R + s * (H - R))
        = (z' : Rat) * ((max (R + s * (L - R)) (R + s * (H - R)) - min (R + s * (L - R)) (R + s * (H - R))) / n) ∧
      max (R + s * (l - R)) (R + s * (h - R)) - min (R + s * (l - R)) (R + s * (h - R))
        = (w : Rat) * ((max (R + s * (L - R)) (R + s * (H - R)) - min (R + s * (L - R)) (R + s * (H - R))) / n) := by
  have hnq : (0 : Rat) < (n : Rat) := by exact_mod_cast hn
  have hc : 0 < (H - L) / (n : Rat) := div_pos (by linarith) hnq
  have hwq : (0 : Rat) < (w : Rat) := by exact_mod_cast hw0
  have hlh : l < h := by nlinarith
  rcases lt_or_gt_of_ne hs with hneg | hpos
  · -- negative factor: the corners swap roles
    have e1 : R + s * (H - R) < R + s * (L - R) := by nlinarith
    have e2 : R + s * (h - R) < R + s * (l - R) := by nlinarith
    rw [min_eq_right e1.le, max_eq_left e1.le, min_eq_right e2.le, max_eq_left e2.le]
    refine ⟨n - z - w, ?_, ?_⟩
    · push_cast
      have : h - H = -(((n : Rat) - z - w) * ((H - L) / n)) := by
        have hn' : (n : Rat) * ((H - L) / n) = H - L := by field_simp
        nlinarith
      field_simp
      field_simp at this hz hw
      nlinarith
    · field_simp
      field_simp at hw
      nlinarith
  · have e1 : R + s * (L - R) < R + s * (H - R) := by nlinarith
    have e2 : R + s * (l - R) < R + s * (h - R) := by nlinarith
    rw [min_eq_left e1.le, max_eq_right e1.le, min_eq_left e2.le, max_eq_right e2.le]
    refine ⟨z, ?_, ?_⟩
    · field_simp
      field_simp at hz
      nlinarith
    · field_simp
      field_simp at hw
      nlinarith


/-- … and under translation (both intervals move by the same vector) -/
theorem translate_keeps_lattice_axis (L H l h v c : Rat) (z w : Int)
    (hz : l - L = (z : Rat) * c) (hw : h - l = (w : Rat) * c) :
    (l + v) - (L + v) = (z : Rat) * c ∧ (h + v) - (l + v) = (w : Rat) * c ∧ ((H + v) - (L + v)) = H - L := by
  refine ⟨by linarith, by linarith, by ring⟩

/-- Mesh level: if cell sizes agree exactly and both corner offsets are whole numbers of
cells, the meshes are reported aligned for every tolerance `t ≥ 0`. -/
theorem isAligned_of_exact (m o : Mesh) (t : Rat) (ht : 0 ≤ t)
    (h : ∀ a, a < m.ndim → m.cellAt a = o.cellAt a ∧ 0 < m.cellAt a ∧
      (∃ z : Int, absR (m.region.lo a - o.region.lo a) = (z : Rat) * m.cellAt a) ∧
      (∃ z : Int, absR (m.region.hi a - o.region.hi a) = (z : Rat) * m.cellAt a)) :
    isAligned m o t = true := by
  unfold isAligned
  have h1 : allLt m.ndim (fun a => allcloseAx (m.cellAt a) (o.cellAt a) t) = true := by
    rw [allLt_iff]; intro a ha
    obtain ⟨he, _, _, _⟩ := h a ha
    unfold allcloseAx
    rw [he]
    have := absR_nonneg (o.cellAt a)
    have h0 : absR (o.cellAt a - o.cellAt a) = 0 := by simp [absR]
    rw [h0]
    simp only [decide_eq_true_eq]
    have : 0 ≤ absR (o.cellAt a) / 100000 := div_nonneg this (by norm_num)
    linarith
  have h2 : allLt m.ndim (fun a => !misalignedAx (m.region.lo a - o.region.lo a) (m.cellAt a) t) = true := by
    rw [allLt_iff]; intro a ha
    obtain ⟨_, hc, ⟨z, hz⟩, _⟩ := h a ha
    rw [aligned_of_whole _ _ _ hc ht z hz]; rfl
  have h3 : allLt m.ndim (fun a => !misalignedAx (m.region.hi a - o.region.hi a) (m.cellAt a) t) = true := by
    rw [allLt_iff]; intro a ha
    obtain ⟨_, hc, _, ⟨z, hz⟩⟩ := h a ha
    rw [aligned_of_whole _ _ _ hc ht z hz]; rfl
  rw [h1, h2, h3]; rfl

/-- Mesh level, converse: meshes reported aligned with tolerance `t` have, on every axis,
cell sizes within `t + 1e-5·|cell|` of each other and both corner offsets within `t` of a
whole number of cells (so with `t = 0`: whole cells exactly, by `aligned_exact_iff`). -/
theorem isAligned_sound (m o : Mesh) (t : Rat) (h : isAligned m o t = true) (a : Nat) (ha : a < m.ndim)
    (hc : 0 < m.cellAt a) :
    absR (m.cellAt a - o.cellAt a) ≤ t + absR (o.cellAt a) / 100000 ∧
    (∃ z : Int, absR (absR (m.region.lo a - o.region.lo a) - (z : Rat) * m.cellAt a) ≤ t) ∧
    (∃ z : Int, absR (absR (m.region.hi a - o.region.hi a) - (z : Rat) * m.cellAt a) ≤ t) := by
  unfold isAligned at h
  simp only [Bool.and_eq_true] at h
  obtain ⟨⟨h1, h2⟩, h3⟩ := h
  have g1 := (allLt_iff _ _).mp h1 a ha
  have g2 := (allLt_iff _ _).mp h2 a ha
  have g3 := (allLt_iff _ _).mp h3 a ha
  refine ⟨by simpa [allcloseAx] using g1, ?_, ?_⟩
  · exact aligned_tol_sound _ _ _ hc (by simpa using g2)
  · exact aligned_tol_sound _ _ _ hc (by simpa using g3)


/-- Reflection `x ↦ A − x` (what a quarter turn does to one of the two rotated axes) keeps an
interval a whole number of cells into, and a whole number of cells long within, the image. -/
theorem reflect_keeps_lattice_axis (L H l h A : Rat) (n z w : Int) (hn : 0 < n) (hLH : L < H)
    (hz : l - L = (z : Rat) * ((H - L) / n)) (hw : h - l = (w : Rat) * ((H - L) / n)) (hw0 : 0 < w) :
    ∃ z' : Int,
      min (A - l) (A - h) - min (A - L) (A - H) = (z' : Rat) * ((max (A - L) (A - H) - min (A - L) (A - H)) / n) ∧
      max (A - l) (A - h) - min (A - l) (A - h) = (w : Rat) * ((max (A - L) (A - H) - min (A - L) (A - H)) / n) := by
  obtain ⟨z', h1, h2⟩ := scale_keeps_lattice_axis L H l h (A / 2) (-1) n z w hn hLH (by norm_num) hz hw hw0
  refine ⟨z', ?_, ?_⟩
  · have e : ∀ x : Rat, A / 2 + -1 * (x - A / 2) = A - x := fun x => by ring
    simpa only [e] using h1
  · have e : ∀ x : Rat, A / 2 + -1 * (x - A / 2) = A - x := fun x => by ring
    simpa only [e] using h2

/-- the translation part `x ↦ A + x` of a quarter turn likewise -/
theorem shift_keeps_lattice_axis (L H l h A : Rat) (n z w : Int) (hLH : L < H)
    (hz : l - L = (z : Rat) * ((H - L) / n)) (hw : h - l = (w : Rat) * ((H - L) / n)) (hw0 : 0 < w) (hn : 0 < n) :
    min (A + l) (A + h) - min (A + L) (A + H) = (z : Rat) * ((max (A + L) (A + H) - min (A + L) (A + H)) / n) ∧
    max (A + l) (A + h) - min (A + l) (A + h) = (w : Rat) * ((max (A + L) (A + H) - min (A + L) (A + H)) / n) := by
  have hnq : (0 : Rat) < (n : Rat) := by exact_mod_cast hn
  have hwq : (0 : Rat) < (w : Rat) := by exact_mod_cast hw0
  have hc : 0 < (H - L) / (n : Rat) := div_pos (by linarith) hnq
  have hlh : l < h := by nlinarith
  rw [min_eq_left (by linarith : A + l ≤ A + h), max_eq_right (by linarith : A + l ≤ A + h),
    min_eq_left (by linarith : A + L ≤ A + H), max_eq_right (by linarith : A + L ≤ A + H)]
  constructor
  · have : A + H - (A + L) = H - L := by ring
    rw [this]; linarith
  · have : A + H - (A + L) = H - L := by ring
    rw [this]; linarith

/-- Plane selection keeps exactly the subregions whose closed extent along the removed axis
contains the centre of the selected cell (names, in order). -/
theorem sel_plane_keeps (m m' : Mesh) (ax : Nat) (x : Option Rat) (h : selPlane m ax x = .ok m') :
    ∃ c i, selConvert m ax (x.getD (m.region.center.getD ax 0)) = .ok (c, i) ∧
      m'.subs.map (·.1) = (m.subs.filter fun p => !(decide (p.2.hi ax < c) || decide (c < p.2.lo ax))).map (·.1) := by
  unfold selPlane at h
  split at h
  · cases h
  · split at h
    · cases h
    · rename_i c i hconv
      split at h
      · cases h
      · split at h
        · cases h
        · rename_i r' _ m0 _
          obtain ⟨_, hnames, _, _, _, _⟩ := set_accepts m0 m' _ h
          refine ⟨c, i, hconv, ?_⟩
          rw [hnames, List.map_map]
          rfl

/-- Range selection keeps exactly the subregions overlapping the kept slab by more than half a
cell (subregions consist of whole cells, so: by at least one cell). -/
theorem sel_range_keeps (m m' : Mesh) (ax : Nat) (a b : Rat) (h : selRange m ax a b = .ok m') :
    ∃ c0 i0 c1 i1, selConvert m ax (min a b) = .ok (c0, i0) ∧ selConvert m ax (max a b) = .ok (c1, i1) ∧
      m'.subs.map (·.1) = (m.subs.filter fun p =>
        !(decide (c1 + m.cellAt ax / 2 - m.cellAt ax / 2 ≤ p.2.lo ax) ||
          decide (p.2.hi ax - m.cellAt ax / 2 ≤ c0 - m.cellAt ax / 2))).map (·.1) := by
  unfold selRange at h
  split at h
  · cases h
  · split at h
    · cases h
    · cases h
    · rename_i c0 i0 c1 i1 h0 h1
      split at h
      · cases h
      · split at h
        · cases h
        · rename_i r' _ m0 _
          obtain ⟨_, hnames, _, _, _, _⟩ := set_accepts m0 m' _ h
          refine ⟨c0, i0, c1, i1, h0, h1, ?_⟩
          rw [hnames, List.map_map]
          rfl

/-- the mesh extracted for a named subregion has exactly that subregion as its region -/
theorem getName_region (m g : Mesh) (name : String) (h : getName m name = .ok g) :
    ∃ p, m.subs.find? (fun p => p.1 == name) = some p ∧ g.region = p.2 := by
  unfold getName at h
  split at h
  · cases h
  · rename_i p hp
    refine ⟨p, hp, ?_⟩
    unfold Mesh.mkCell? at h
    split at h
    · cases h
    · split at h
      · cases h
      · split at h
        · cases h
        · split at h
          · cases h
          · split at h
            · cases h
            · injection h with h; subst h; rfl


/-- non-vacuity: two concrete meshes offset by two cells are aligned; offset by half a cell they are not -/
example : isAligned ⟨⟨[0, 0], [4, 2], ["x", "y"], ["m", "m"], 0⟩, [4, 2], "", []⟩
                    ⟨⟨[2, 1], [5, 2], ["x", "y"], ["m", "m"], 0⟩, [3, 1], "", []⟩ = true := by decide +kernel
example : isAligned ⟨⟨[0, 0], [4, 2], ["x", "y"], ["m", "m"], 0⟩, [4, 2], "", []⟩
                    ⟨⟨[1/2, 1], [7/2, 2], ["x", "y"], ["m", "m"], 0⟩, [3, 1], "", []⟩ = false := by decide +kernel

end DFV.C14
