import DFV.Lemmas.Rot
/-!
# C12 — quarter-turn rotations move values, vectors, validity and geometry together

Group laws of the exact quarter turns used by `Region/Mesh/Field.rotate90`, the corner
map, rotation of the mapped vector components, and refusal of unmapped vector fields —
for all integers `k` (negative included), all axis pairs, all dimensions.
(In-place == copy for rotations is `DFV.C13.inplace_eq_copy`.)
-/
namespace DFV.C12
open DFV DFV.T

/-- only `k mod 4` matters -/
theorem quarter_mod4 (k : Int) : cosq (k % 4) = cosq k ∧ sinq (k % 4) = sinq k := by
  unfold cosq sinq
  have : k % 4 % 4 = k % 4 := Int.emod_emod_of_dvd k (by norm_num)
  rw [this]; exact ⟨rfl, rfl⟩

/-- angle addition for quarter turns -/
theorem quarter_add (k l : Int) :
    cosq (k + l) = cosq k * cosq l - sinq k * sinq l ∧ sinq (k + l) = sinq k * cosq l + cosq k * sinq l := by
  unfold cosq sinq
  have hk : k % 4 = 0 ∨ k % 4 = 1 ∨ k % 4 = 2 ∨ k % 4 = 3 := by omega
  have hl : l % 4 = 0 ∨ l % 4 = 1 ∨ l % 4 = 2 ∨ l % 4 = 3 := by omega
  rcases hk with hk | hk | hk | hk <;> rcases hl with hl | hl | hl | hl <;>
    (have hkl : (k + l) % 4 = (k % 4 + l % 4) % 4 := Int.add_emod k l 4
     rw [hk, hl] at hkl
     norm_num at hkl
     simp [hk, hl, hkl])

theorem quarter_zero : cosq 0 = 1 ∧ sinq 0 = 0 := by decide

/-- four quarter turns are the identity matrix -/
theorem quarter_four (k : Int) : cosq (k + 4) = cosq k ∧ sinq (k + 4) = sinq k := by
  unfold cosq sinq
  have : (k + 4) % 4 = k % 4 := by omega
  rw [this]; exact ⟨rfl, rfl⟩

/-- the reverse turn is the transpose -/
theorem quarter_neg (k : Int) : cosq (-k) = cosq k ∧ sinq (-k) = - sinq k := by
  unfold cosq sinq
  have hk : k % 4 = 0 ∨ k % 4 = 1 ∨ k % 4 = 2 ∨ k % 4 = 3 := by omega
  rcases hk with hk | hk | hk | hk
  · have : (-k) % 4 = 0 := by omega
    simp [hk, this]
  · have : (-k) % 4 = 3 := by omega
    simp [hk, this]
  · have : (-k) % 4 = 2 := by omega
    simp [hk, this]
  · have : (-k) % 4 = 1 := by omega
    simp [hk, this]

/-- a point rotated about `ref` in the plane of axes `i1`, `i2` -/
def rotPoint (p ref : List Rat) (i1 i2 : Nat) (k : Int) : List Rat := tab p.length (rotCoord p ref i1 i2 k)

/-- rotating by `k` and then by `l` about the same reference is rotating by `k + l`
(hence: k then −k, and four quarter turns, are the identity) -/
theorem rotPoint_compose (p ref : List Rat) (i1 i2 : Nat) (k l : Int) (h12 : i1 ≠ i2)
    (h1 : i1 < p.length) (h2 : i2 < p.length) :
    rotPoint (rotPoint p ref i1 i2 k) ref i1 i2 l = rotPoint p ref i1 i2 (k + l) := by
  unfold rotPoint
  rw [tab_length]
  apply tab_congr
  intro a ha
  obtain ⟨hc, hs⟩ := quarter_add k l
  have g1 : (tab p.length (rotCoord p ref i1 i2 k)).getD i1 0 = rotCoord p ref i1 i2 k i1 := getD_tab _ _ _ _ h1
  have g2 : (tab p.length (rotCoord p ref i1 i2 k)).getD i2 0 = rotCoord p ref i1 i2 k i2 := getD_tab _ _ _ _ h2
  have ga : (tab p.length (rotCoord p ref i1 i2 k)).getD a 0 = rotCoord p ref i1 i2 k a := getD_tab _ _ _ _ ha
  have r1 : rotCoord p ref i1 i2 k i1
      = ref.getD i1 0 + (cosq k * (p.getD i1 0 - ref.getD i1 0) - sinq k * (p.getD i2 0 - ref.getD i2 0)) := by
    simp [rotCoord]
  have r2 : rotCoord p ref i1 i2 k i2
      = ref.getD i2 0 + (sinq k * (p.getD i1 0 - ref.getD i1 0) + cosq k * (p.getD i2 0 - ref.getD i2 0)) := by
    simp [rotCoord, h12.symm]
  show rotCoord (tab p.length (rotCoord p ref i1 i2 k)) ref i1 i2 l a = rotCoord p ref i1 i2 (k + l) a
  by_cases e1 : a = i1
  · rw [e1]
    simp only [rotCoord, if_true]
    rw [g1, g2, r1, r2, hc, hs]
    ring
  · by_cases e2 : a = i2
    · rw [e2]
      simp only [rotCoord, h12.symm, if_false, if_true]
      rw [g1, g2, r1, r2, hc, hs]
      ring
    · simp only [rotCoord, e1, e2, if_false, ga]

theorem rotPoint_zero (p ref : List Rat) (i1 i2 : Nat) (a : Nat) (ha : a < p.length) :
    (rotPoint p ref i1 i2 0).getD a 0 = p.getD a 0 := by
  unfold rotPoint
  rw [getD_tab _ _ _ _ ha]
  unfold rotCoord
  rw [quarter_zero.1, quarter_zero.2]
  split
  · rename_i h; subst h; ring
  · split
    · rename_i h; subst h; ring
    · rfl

/-- the same composition law for the two rotated vector components -/
theorem rotVec_compose (v : List Rat) (c1 c2 : Nat) (k l : Int) (h12 : c1 ≠ c2)
    (h1 : c1 < v.length) (h2 : c2 < v.length) :
    rotVec (rotVec v c1 c2 k) c1 c2 l = rotVec v c1 c2 (k + l) := by
  unfold rotVec
  rw [tab_length]
  apply tab_congr
  intro c hc
  obtain ⟨hcs, hsn⟩ := quarter_add k l
  rw [getD_tab _ _ _ _ h1, getD_tab _ _ _ _ h2, getD_tab _ _ _ _ hc]
  by_cases e1 : c = c1
  · rw [e1]
    simp only [if_true, h12, if_false, h12.symm, hcs, hsn]
    ring
  · by_cases e2 : c = c2
    · rw [e2]
      simp only [if_false, if_true, h12, h12.symm, hcs, hsn]
      ring
    · simp only [e1, e2, if_false]

/-- unmapped components and all other components of a cell value are unchanged -/
theorem rotVec_other (v : List Rat) (c1 c2 : Nat) (k : Int) (c : Nat) (hc : c < v.length) (h1 : c ≠ c1) (h2 : c ≠ c2) :
    (rotVec v c1 c2 k).getD c 0 = v.getD c 0 := by
  unfold rotVec
  rw [getD_tab _ _ _ _ hc]
  simp [h1, h2]

/-- `np.rot90` only depends on `k mod 4` -/
theorem rot90_mod4 {α} (a : NDA α) (p q : Nat) (k : Int) : rot90 a p q (k % 4) = rot90 a p q k := by
  unfold rot90
  have : k % 4 % 4 = k % 4 := Int.emod_emod_of_dvd k (by norm_num)
  rw [this]

/-- cell counts and the units of the two axes swap exactly for odd `k` -/
theorem rotN_odd (n : List Nat) (i1 i2 : Nat) (k : Int) : rotN n i1 i2 k = if k % 2 = 1 then swapAt n i1 i2 else n := by
  unfold rotN isOdd; simp

/-- A vector field without the component-to-axis mapping for one of the two axes is
refused (either form), whatever else holds. -/
theorem unmapped_refused (f : Fld) (a1 a2 : String) (k : Int) (ref : Option (List Rat)) (b : Bool)
    (hv : f.nvdim > 1) (hm : (f.rDim a1).bind f.vdimIndex = none ∨ (f.rDim a2).bind f.vdimIndex = none) :
    ∃ e, rotate90F f a1 a2 k ref b = .error e := by
  unfold rotate90F
  cases h0 : stepM f.mesh (.rotate90 a1 a2 k ref false) with
  | error e => exact ⟨e, rfl⟩
  | ok p =>
    cases h1 : f.mesh.region.dim2index a1 with
    | error e => exact ⟨e, rfl⟩
    | ok i1 =>
      cases h2 : f.mesh.region.dim2index a2 with
      | error e => exact ⟨e, rfl⟩
      | ok i2 =>
        simp only [hv, if_true]
        rcases hm with hm | hm
        · rw [hm]; exact ⟨.runtime, rfl⟩
        · rw [hm]
          cases (f.rDim a1).bind f.vdimIndex <;> exact ⟨.runtime, rfl⟩

/-- `np.rot90` moves values (data and validity alike): entry `j` of the result is entry
`srcIdx shape p q k j` of the source, for every integer `k`. -/
theorem rot90_moves {α} (a : NDA α) (p q : Nat) (k : Int) (j : List Nat) :
    (rot90 a p q k).get j = a.get (srcIdx a.shape p q k j) := rot90_get a p q k j

/-- **g(R + Q(p − R)) lives where Q f(p) is put.**  For every cell `j` of the rotated mesh and every
axis `a`, the centre of `j` is the exact quarter-turn image `R + Q(p − R)` of the centre `p` of
the source cell `srcIdx j` whose value `np.rot90` stores at `j` (`rot90_moves`) — all integer `k`,
all ordered axis pairs, any reference point, anisotropic counts and cell sizes, any dimension. -/
theorem rot90_geometry (m m' : Mesh) (hm : m.Inv) (i1 i2 : Nat) (h12 : i1 ≠ i2) (h1 : i1 < m.ndim) (h2 : i2 < m.ndim)
    (k : Int) (R : List Rat) (units : List String)
    (hr' : m'.region = target m.region (rotCoord m.region.pmin R i1 i2 k) (rotCoord m.region.pmax R i1 i2 k) units)
    (hn' : m'.n = rotN m.n i1 i2 k)
    (j : List Nat) (hj : inRange m'.n j = true) (a : Nat) (ha : a < m.ndim) :
    m'.centreAx a ((j.getD a 0 : Nat) : Int) = rotCoord (m.centre (srcIdx m.n i1 i2 k j)) R i1 i2 k a :=
  rot90_geometry' m m' hm i1 i2 h12 h1 h2 k R units hr' hn' j hj a ha

/-- the rotated field's value at cell `j`: the two mapped components of the source cell's value
are turned by the same exact matrix, everything else is carried over -/
theorem rotate90F_value (f g recv : Fld) (a1 a2 : String) (k : Int) (ref : Option (List Rat)) (b : Bool)
    (h : rotate90F f a1 a2 k ref b = .ok (recv, g)) (j : List Nat) :
    ∃ i1 i2, f.mesh.region.dim2index a1 = .ok i1 ∧ f.mesh.region.dim2index a2 = .ok i2 ∧
      g.valid.get j = f.valid.get (srcIdx f.valid.shape i1 i2 k j) ∧
      (f.nvdim ≤ 1 → g.data.get j = f.data.get (srcIdx f.data.shape i1 i2 k j)) ∧
      (f.nvdim > 1 → ∃ c1 c2, (f.rDim a1).bind f.vdimIndex = some c1 ∧ (f.rDim a2).bind f.vdimIndex = some c2 ∧
          g.data.get j = rotVec (f.data.get (srcIdx f.data.shape i1 i2 k j)) c1 c2 k) := by
  unfold rotate90F at h
  split at h
  · cases h
  · cases h
  · cases h
  · rename_i m' i1 i2 _ hi1 hi2
    refine ⟨i1, i2, hi1, hi2, ?_⟩
    split at h
    · rename_i hv
      split at h
      · rename_i c1 c2 hc1 hc2
        injection h with h; injection h with _ hg
        subst hg
        refine ⟨rot90_get _ _ _ _ _, fun hle => absurd hv (by omega), fun _ => ⟨c1, c2, hc1, hc2, ?_⟩⟩
        simp only [NDA.map]
        rw [rot90_get]
      · cases h
    · rename_i hv
      injection h with h; injection h with _ hg
      subst hg
      exact ⟨rot90_get _ _ _ _ _, fun _ => rot90_get _ _ _ _ _, fun hgt => absurd hgt hv⟩

end DFV.C12
