import DFV.Lemmas.C12Obj
/-!
# C12 — quarter-turn rotations move values, vectors, validity and geometry together

Group laws of the exact quarter turns used by `Region/Mesh/Field.rotate90`, the corner
map, rotation of the mapped vector components, and refusal of unmapped vector fields —
for all integers `k` (negative included), all axis pairs, all dimensions.
(In-place == copy for rotations is `DFV.C13.inplace_eq_copy`.)
-/
namespace DFV.C12
open DFV DFV.T

/-- only `k mod 4` matters -/
theorem quarter_mod4 (k : Int) : cosq (k % 4) = cosq k ∧ sinq (k % 4) = sinq k := by
  unfold cosq sinq
  have : k % 4 % 4 = k % 4 := Int.emod_emod_of_dvd k (by norm_num)
  rw [this]; exact ⟨rfl, rfl⟩

/-- angle addition for quarter turns -/
theorem quarter_add (k l : Int) :
    cosq (k + l) = cosq k * cosq l - sinq k * sinq l ∧ sinq (k + l) = sinq k * cosq l + cosq k * sinq l := by
  unfold cosq sinq
  have hk : k % 4 = 0 ∨ k % 4 = 1 ∨ k % 4 = 2 ∨ k % 4 = 3 := by omega
  have hl : l % 4 = 0 ∨ l % 4 = 1 ∨ l % 4 = 2 ∨ l % 4 = 3 := by omega
  rcases hk with hk | hk | hk | hk <;> rcases hl with hl | hl | hl | hl <;>
    (have hkl : (k + l) % 4 = (k % 4 + l % 4) % 4 := Int.add_emod k l 4
     rw [hk, hl] at hkl
     norm_num at hkl
     simp [hk, hl, hkl])

theorem quarter_zero : cosq 0 = 1 ∧ sinq 0 = 0 := by decide

/-- four quarter turns are the identity matrix -/
theorem quarter_four (k : Int) : cosq (k + 4) = cosq k ∧ sinq (k + 4) = sinq k := by
  unfold cosq sinq
  have : (k + 4) % 4 = k % 4 := by omega
  rw [this]; exact ⟨rfl, rfl⟩

/-- the reverse turn is the transpose -/
theorem quarter_neg (k : Int) : cosq (-k) = cosq k ∧ sinq (-k) = - sinq k := by
  unfold cosq sinq
  have hk : k % 4 = 0 ∨ k % 4 = 1 ∨ k % 4 = 2 ∨ k % 4 = 3 := by omega
  rcases hk with hk | hk | hk | hk
  · have : (-k) % 4 = 0 := by omega
    simp [hk, this]
  · have : (-k) % 4 = 3 := by omega
    simp [hk, this]
  · have : (-k) % 4 = 2 := by omega
    simp [hk, this]
  · have : (-k) % 4 = 1 := by omega
    simp [hk, this]

/-- a point rotated about `ref` in the plane of axes `i1`, `i2` -/
def rotPoint (p ref : List Rat) (i1 i2 : Nat) (k : Int) : List Rat := tab p.length (rotCoord p ref i1 i2 k)

/-- rotating by `k` and then by `l` about the same reference is rotating by `k + l`
(hence: k then −k, and four quarter turns, are the identity) -/
theorem rotPoint_compose (p ref : List Rat) (i1 i2 : Nat) (k l : Int) (h12 : i1 ≠ i2)
    (h1 : i1 < p.length) (h2 : i2 < p.length) :
    rotPoint (rotPoint p ref i1 i2 k) ref i1 i2 l = rotPoint p ref i1 i2 (k + l) := by
  unfold rotPoint
  rw [tab_length]
  apply tab_congr
  intro a ha
  obtain ⟨hc, hs⟩ := quarter_add k l
  have g1 : (tab p.length (rotCoord p ref i1 i2 k)).getD i1 0 = rotCoord p ref i1 i2 k i1 := getD_tab _ _ _ _ h1
  have g2 : (tab p.length (rotCoord p ref i1 i2 k)).getD i2 0 = rotCoord p ref i1 i2 k i2 := getD_tab _ _ _ _ h2
  have ga : (tab p.length (rotCoord p ref i1 i2 k)).getD a 0 = rotCoord p ref i1 i2 k a := getD_tab _ _ _ _ ha
  have r1 : rotCoord p ref i1 i2 k i1
      = ref.getD i1 0 + (cosq k * (p.getD i1 0 - ref.getD i1 0) - sinq k * (p.getD i2 0 - ref.getD i2 0)) := by
    simp [rotCoord]
  have r2 : rotCoord p ref i1 i2 k i2
      = ref.getD i2 0 + (sinq k * (p.getD i1 0 - ref.getD i1 0) + cosq k * (p.getD i2 0 - ref.getD i2 0)) := by
    simp [rotCoord, h12.symm]
  show rotCoord (tab p.length (rotCoord p ref i1 i2 k)) ref i1 i2 l a = rotCoord p ref i1 i2 (k + l) a
  by_cases e1 : a = i1
  · rw [e1]
    simp only [rotCoord, if_true]
    rw [g1, g2, r1, r2, hc, hs]
    ring
  · by_cases e2 : a = i2
    · rw [e2]
      simp only [rotCoord, h12.symm, if_false, if_true]
      rw [g1, g2, r1, r2, hc, hs]
      ring
    · simp only [rotCoord, e1, e2, if_false, ga]

theorem rotPoint_zero (p ref : List Rat) (i1 i2 : Nat) (a : Nat) (ha : a < p.length) :
    (rotPoint p ref i1 i2 0).getD a 0 = p.getD a 0 := by
  unfold rotPoint
  rw [getD_tab _ _ _ _ ha]
  unfold rotCoord
  rw [quarter_zero.1, quarter_zero.2]
  split
  · rename_i h; subst h; ring
  · split
    · rename_i h; subst h; ring
    · rfl

/-- the same composition law for the two rotated vector components -/
theorem rotVec_compose (v : List Rat) (c1 c2 : Nat) (k l : Int) (h12 : c1 ≠ c2)
    (h1 : c1 < v.length) (h2 : c2 < v.length) :
    rotVec (rotVec v c1 c2 k) c1 c2 l = rotVec v c1 c2 (k + l) := by
  unfold rotVec
  rw [tab_length]
  apply tab_congr
  intro c hc
  obtain ⟨hcs, hsn⟩ := quarter_add k l
  rw [getD_tab _ _ _ _ h1, getD_tab _ _ _ _ h2, getD_tab _ _ _ _ hc]
  by_cases e1 : c = c1
  · rw [e1]
    simp only [if_true, h12, if_false, h12.symm, hcs, hsn]
    ring
  · by_cases e2 : c = c2
    · rw [e2]
      simp only [if_false, if_true, h12, h12.symm, hcs, hsn]
      ring
    · simp only [e1, e2, if_false]

/-- unmapped components and all other components of a cell value are unchanged -/
theorem rotVec_other (v : List Rat) (c1 c2 : Nat) (k : Int) (c : Nat) (hc : c < v.length) (h1 : c ≠ c1) (h2 : c ≠ c2) :
    (rotVec v c1 c2 k).getD c 0 = v.getD c 0 := by
  unfold rotVec
  rw [getD_tab _ _ _ _ hc]
  simp [h1, h2]

/-- `np.rot90` only depends on `k mod 4` -/
theorem rot90_mod4 {α} (a : NDA α) (p q : Nat) (k : Int) : rot90 a p q (k % 4) = rot90 a p q k := by
  unfold rot90
  have : k % 4 % 4 = k % 4 := Int.emod_emod_of_dvd k (by norm_num)
  rw [this]

/-- cell counts and the units of the two axes swap exactly for odd `k` -/
theorem rotN_odd (n : List Nat) (i1 i2 : Nat) (k : Int) : rotN n i1 i2 k = if k % 2 = 1 then swapAt n i1 i2 else n := by
  unfold rotN isOdd; simp

/-- A vector field without the component-to-axis mapping for one of the two axes is
refused (either form), whatever else holds. -/
theorem unmapped_refused (f : Fld) (a1 a2 : String) (k : Int) (ref : Option (List Rat)) (b : Bool)
    (hv : f.nvdim > 1) (hm : (f.rDim a1).bind f.vdimIndex = none ∨ (f.rDim a2).bind f.vdimIndex = none) :
    ∃ e, rotate90F f a1 a2 k ref b = .error e := by
  unfold rotate90F
  cases h0 : stepM f.mesh (.rotate90 a1 a2 k ref false) with
  | error e => exact ⟨e, rfl⟩
  | ok p =>
    cases h1 : f.mesh.region.dim2index a1 with
    | error e => exact ⟨e, rfl⟩
    | ok i1 =>
      cases h2 : f.mesh.region.dim2index a2 with
      | error e => exact ⟨e, rfl⟩
      | ok i2 =>
        simp only [hv, if_true]
        rcases hm with hm | hm
        · rw [hm]; exact ⟨.runtime, rfl⟩
        · rw [hm]
          cases (f.rDim a1).bind f.vdimIndex <;> exact ⟨.runtime, rfl⟩

/-- `np.rot90` moves values (data and validity alike): entry `j` of the result is entry
`srcIdx shape p q k j` of the source, for every integer `k`. -/
theorem rot90_moves {α} (a : NDA α) (p q : Nat) (k : Int) (j : List Nat) :
    (rot90 a p q k).get j = a.get (srcIdx a.shape p q k j) := rot90_get a p q k j

/-- **g(R + Q(p − R)) lives where Q f(p) is put.**  For every cell `j` of the rotated mesh and every
axis `a`, the centre of `j` is the exact quarter-turn image `R + Q(p − R)` of the centre `p` of
the source cell `srcIdx j` whose value `np.rot90` stores at `j` (`rot90_moves`) — all integer `k`,
all ordered axis pairs, any reference point, anisotropic counts and cell sizes, any dimension. -/
theorem rot90_geometry (m m' : Mesh) (hm : m.Inv) (i1 i2 : Nat) (h12 : i1 ≠ i2) (h1 : i1 < m.ndim) (h2 : i2 < m.ndim)
    (k : Int) (R : List Rat) (units : List String)
    (hr' : m'.region = target m.region (rotCoord m.region.pmin R i1 i2 k) (rotCoord m.region.pmax R i1 i2 k) units)
    (hn' : m'.n = rotN m.n i1 i2 k)
    (j : List Nat) (hj : inRange m'.n j = true) (a : Nat) (ha : a < m.ndim) :
    m'.centreAx a ((j.getD a 0 : Nat) : Int) = rotCoord (m.centre (srcIdx m.n i1 i2 k j)) R i1 i2 k a :=
  rot90_geometry' m m' hm i1 i2 h12 h1 h2 k R units hr' hn' j hj a ha

/-- the rotated field's value at cell `j`: the two mapped components of the source cell's value
are turned by the same exact matrix, everything else is carried over -/
theorem rotate90F_value (f g recv : Fld) (a1 a2 : String) (k : Int) (ref : Option (List Rat)) (b : Bool)
    (h : rotate90F f a1 a2 k ref b = .ok (recv, g)) (j : List Nat) :
    ∃ i1 i2, f.mesh.region.dim2index a1 = .ok i1 ∧ f.mesh.region.dim2index a2 = .ok i2 ∧
      g.valid.get j = f.valid.get (srcIdx f.valid.shape i1 i2 k j) ∧
      (f.nvdim ≤ 1 → g.data.get j = f.data.get (srcIdx f.data.shape i1 i2 k j)) ∧
      (f.nvdim > 1 → ∃ c1 c2, (f.rDim a1).bind f.vdimIndex = some c1 ∧ (f.rDim a2).bind f.vdimIndex = some c2 ∧
          g.data.get j = rotVec (f.data.get (srcIdx f.data.shape i1 i2 k j)) c1 c2 k) := by
  unfold rotate90F at h
  split at h
  · cases h
  · cases h
  · cases h
  · rename_i m' i1 i2 _ hi1 hi2
    refine ⟨i1, i2, hi1, hi2, ?_⟩
    split at h
    · rename_i hv
      split at h
      · rename_i c1 c2 hc1 hc2
        injection h with h; injection h with _ hg
        subst hg
        refine ⟨rot90_get _ _ _ _ _, fun hle => absurd hv (by omega), fun _ => ⟨c1, c2, hc1, hc2, ?_⟩⟩
        simp only [NDA.map]
        rw [rot90_get]
      · cases h
    · rename_i hv
      injection h with h; injection h with _ hg
      subst hg
      exact ⟨rot90_get _ _ _ _ _, fun _ => rot90_get _ _ _ _ _, fun hgt => absurd hgt hv⟩

/-! ## object level: regions, meshes and fields -/
open DFV.C14

/-- **Rotation by `k` and by `k mod 4` is the same call** — on regions, meshes and fields, for
every integer `k` (negative included), any axes, reference point and form: not only equal results
but equal acceptance. -/
theorem rotate_mod4 (r : Region) (m : Mesh) (f : Fld) (a1 a2 : String) (k : Int) (ref : Option (List Rat)) (b : Bool) :
    rotate90R r a1 a2 (k % 4) ref b = rotate90R r a1 a2 k ref b ∧
    stepM m (.rotate90 a1 a2 (k % 4) ref b) = stepM m (.rotate90 a1 a2 k ref b) ∧
    rotate90F f a1 a2 (k % 4) ref b = rotate90F f a1 a2 k ref b :=
  ⟨rotate90R_mod4 r a1 a2 k ref b, stepM_rot_mod4 m a1 a2 k ref b, rotate90F_mod4 f a1 a2 k ref b⟩

/-- **Region: a turn by a multiple of four quarter turns is the identity** (corners, names, units,
tolerance; either form, any reference point). -/
theorem region_turn_zero (r : Region) (hr : r.Inv) (a1 a2 : String) (k : Int) (hk : k % 4 = 0) (ref : Option (List Rat))
    (b : Bool) (x ret : Region) (h : rotate90R r a1 a2 k ref b = .ok (x, ret)) : ret = r ∧ x = r :=
  rotate90R_zero r hr a1 a2 k hk ref b x ret h

/-- **Region: composition.**  A turn by `k` followed by a turn by `l` in the same plane about the
same reference point is the turn by `k + l`: the second turn is always accepted and both ways end
in the same region (corners re-ordered, units swapped for odd totals) — any mix of forms. -/
theorem region_compose (r : Region) (hr : r.Inv) (a1 a2 : String) (k l : Int) (R : List Rat) (b b' b'' : Bool)
    (x1 r1 : Region) (h : rotate90R r a1 a2 k (some R) b = .ok (x1, r1)) :
    ∃ r2, rotate90R r1 a1 a2 l (some R) b' = .ok (if b' then r2 else r1, r2) ∧
          rotate90R r a1 a2 (k + l) (some R) b'' = .ok (if b'' then r2 else r, r2) :=
  rotate90R_compose r hr a1 a2 k l R b b' b'' x1 r1 h

/-- **Region: a turn followed by its reverse is the identity.** -/
theorem region_inverse (r : Region) (hr : r.Inv) (a1 a2 : String) (k : Int) (R : List Rat) (b b' : Bool)
    (x1 r1 : Region) (h : rotate90R r a1 a2 k (some R) b = .ok (x1, r1)) :
    ∃ x2, rotate90R r1 a1 a2 (-k) (some R) b' = .ok (x2, r) := by
  obtain ⟨r2, h2, h12⟩ := rotate90R_compose r hr a1 a2 k (-k) R b b' false x1 r1 h
  have hz : (k + -k) % 4 = 0 := by simp
  obtain ⟨e, _⟩ := rotate90R_zero r hr a1 a2 (k + -k) hz (some R) false _ r2 h12
  rw [e] at h2
  exact ⟨_, h2⟩

/-- **Region: four quarter turns about the same reference point give back the region.** -/
theorem region_four_turns (r : Region) (hr : r.Inv) (a1 a2 : String) (R : List Rat) (b : Bool) (x1 r1 : Region)
    (h : rotate90R r a1 a2 1 (some R) b = .ok (x1, r1)) :
    ∃ r2 r3, rotate90R r1 a1 a2 1 (some R) b = .ok (if b then r2 else r1, r2) ∧
             rotate90R r2 a1 a2 1 (some R) b = .ok (if b then r3 else r2, r3) ∧
             rotate90R r3 a1 a2 1 (some R) b = .ok (if b then r else r3, r) := by
  obtain ⟨r2, s2, t2⟩ := rotate90R_compose r hr a1 a2 1 1 R b b b x1 r1 h
  obtain ⟨r3, s3, t3⟩ := rotate90R_compose r hr a1 a2 (1 + 1) 1 R b b b _ r2 t2
  obtain ⟨r4, s4, t4⟩ := rotate90R_compose r hr a1 a2 (1 + 1 + 1) 1 R b b false _ r3 t3
  obtain ⟨e, _⟩ := rotate90R_zero r hr a1 a2 (1 + 1 + 1 + 1) (by decide) (some R) false _ r4 t4
  rw [e] at s4
  exact ⟨r2, r3, s2, s3, s4⟩

/-- **Mesh: a turn by a multiple of four quarter turns is the identity** — in place the mesh (region,
counts, bc, subregions) is unchanged; the copying form returns it with `bc` lower-cased by the
constructor. -/
theorem mesh_turn_zero (m : Mesh) (hm : m.Inv) (hs : SubInv m) (a1 a2 : String) (k : Int) (hk : k % 4 = 0)
    (ref : Option (List Rat)) (b : Bool) (recv ret : Mesh) (h : stepM m (.rotate90 a1 a2 k ref b) = .ok (recv, ret)) :
    ret = (if b then m else { m with bc := m.bc.toLower }) ∧ recv = m :=
  stepM_rot_zero m hm hs a1 a2 k hk ref b recv ret h

/-- **Mesh (in-place form): composition.**  A turn by `k` followed by a turn by `l` about the same
reference point is the turn by `k + l` on region, counts and every subregion; the second turn is
always accepted.  (`bc`: the letters are swapped twice resp. once — equal for the non-periodic
conditions, see `mesh_inverse`.) -/
theorem mesh_compose (m : Mesh) (hm : m.Inv) (hs : SubInv m) (a1 a2 : String) (k l : Int) (R : List Rat)
    (m1 m1' : Mesh) (h : stepM m (.rotate90 a1 a2 k (some R) true) = .ok (m1, m1')) :
    ∃ m2 m12, stepM m1' (.rotate90 a1 a2 l (some R) true) = .ok (m2, m2) ∧
      stepM m (.rotate90 a1 a2 (k + l) (some R) true) = .ok (m12, m12) ∧
      m2.region = m12.region ∧ m2.n = m12.n ∧ m2.subs = m12.subs ∧
      m2.bc = rotBc (rotBc m.bc a1 a2 k) a1 a2 l ∧ m12.bc = rotBc m.bc a1 a2 (k + l) :=
  stepM_rot_compose m hm hs a1 a2 k l R m1 m1' h

/-- **Mesh: a turn followed by its reverse gives back region, counts and every subregion** (and
the whole mesh for the non-periodic boundary conditions). -/
theorem mesh_inverse (m : Mesh) (hm : m.Inv) (hs : SubInv m) (a1 a2 : String) (k : Int) (R : List Rat)
    (m1 m1' : Mesh) (h : stepM m (.rotate90 a1 a2 k (some R) true) = .ok (m1, m1')) :
    ∃ m2, stepM m1' (.rotate90 a1 a2 (-k) (some R) true) = .ok (m2, m2) ∧
      m2.region = m.region ∧ m2.n = m.n ∧ m2.subs = m.subs ∧ (PlainBc m.bc → m2 = m) := by
  obtain ⟨m2, m12, h2, h12, e1, e2, e3, e4, _⟩ := stepM_rot_compose m hm hs a1 a2 k (-k) R m1 m1' h
  obtain ⟨e, _⟩ := stepM_rot_zero m hm hs a1 a2 (k + -k) (by simp) (some R) true _ m12 h12
  simp only [if_true] at e
  rw [e] at e1 e2 e3
  refine ⟨m2, h2, e1, e2, e3, ?_⟩
  intro hp
  rw [plainBc_rot _ _ _ _ hp, plainBc_rot _ _ _ _ hp] at e4
  cases m2; cases m; simp only at e1 e2 e3 e4; subst e1; subst e2; subst e3; subst e4; rfl

/-- **Subregions move with the cells**: an accepted mesh rotation turns the region and every
subregion by the same corner map `rotCoord · R i1 i2 k` about the same reference point `R` (the
given one, else the centre of the mesh region), swaps the counts for odd `k`, keeps names and
order. -/
theorem subregions_turn_with_mesh (m : Mesh) (hd : ∀ p ∈ m.subs, p.2.dims = m.region.dims) (a1 a2 : String) (k : Int)
    (ref : Option (List Rat)) (b : Bool) (recv ret : Mesh) (h : stepM m (.rotate90 a1 a2 k ref b) = .ok (recv, ret)) :
    ∃ i1 i2, m.region.dim2index a1 = .ok i1 ∧ m.region.dim2index a2 = .ok i2 ∧
      ret.region = target m.region (rotCoord m.region.pmin (ref.getD m.region.center) i1 i2 k)
        (rotCoord m.region.pmax (ref.getD m.region.center) i1 i2 k) (rotUnits m.region.units i1 i2 k) ∧
      ret.n = rotN m.n i1 i2 k ∧
      List.Forall₂ (fun p q => q.1 = p.1 ∧
          q.2.pmin = (target p.2 (rotCoord p.2.pmin (ref.getD m.region.center) i1 i2 k)
            (rotCoord p.2.pmax (ref.getD m.region.center) i1 i2 k) (rotUnits p.2.units i1 i2 k)).pmin ∧
          q.2.pmax = (target p.2 (rotCoord p.2.pmin (ref.getD m.region.center) i1 i2 k)
            (rotCoord p.2.pmax (ref.getD m.region.center) i1 i2 k) (rotUnits p.2.units i1 i2 k)).pmax)
        m.subs ret.subs :=
  stepM_rot_subs m hd a1 a2 k ref b recv ret h

/-- **Region, mesh and field rotate consistently; names stay.**  The mesh of the rotated field is
what `Mesh.rotate90` (copying) returns for the field's mesh, its region is what `Region.rotate90`
returns for the mesh's region; dimension names, component names, the component-to-axis mapping,
the unit and the number of components are unchanged; validity is turned by the same `np.rot90` as
the values. -/
theorem rotate_consistent (f : Fld) (hf : FldInv f) (a1 a2 : String) (k : Int) (ref : Option (List Rat)) (b : Bool)
    (x g : Fld) (h : rotate90F f a1 a2 k ref b = .ok (x, g)) :
    (∃ y, stepM f.mesh (.rotate90 a1 a2 k ref false) = .ok (y, g.mesh)) ∧
    (∃ z, rotate90R f.mesh.region a1 a2 k ref false = .ok (z, g.mesh.region)) ∧
    g.mesh.region.dims = f.mesh.region.dims ∧ g.vdims = f.vdims ∧ g.vmap = f.vmap ∧ g.unit = f.unit ∧
    g.nvdim = f.nvdim ∧
    ∃ i1 i2, f.mesh.region.dim2index a1 = .ok i1 ∧ f.mesh.region.dim2index a2 = .ok i2 ∧
      g.mesh.n = rotN f.mesh.n i1 i2 k ∧ g.valid = rot90 f.valid i1 i2 k ∧ g.data.shape = (rot90 f.data i1 i2 k).shape ∧
      ∀ j, g.valid.get j = f.valid.get (srcIdx f.mesh.n i1 i2 k j) := by
  obtain ⟨y, m', i1, i2, hm', d1, d2, e1, e2, e3, e4, e5, e6, e7, _⟩ := rotate90F_inv f a1 a2 k ref b x g h
  obtain ⟨_, _, hn, z, hz⟩ := stepM_keeps f.mesh hf.1 _ _ _ hm'
  obtain ⟨_, _, _, _, _, _, _, hdims⟩ := stepM_rot_axes f.mesh hf.1 a1 a2 k ref false y m' hm'
  refine ⟨⟨y, e1 ▸ hm'⟩, ⟨z, by rw [e1]; exact hz⟩, by rw [e1]; exact hdims, e3, e4, e5, e2, i1, i2, d1, d2, ?_, e6, ?_, ?_⟩
  · rw [e1, hn]; simp only [opN, d1, d2]
  · rcases e7 with ⟨_, e⟩ | ⟨_, _, _, _, _, e⟩ <;> rw [e] <;> rfl
  · intro j; rw [e6, rot90_get, hf.2.2]

/-- **`np.rot90` composes**: turning an array by `k` and then by `l` in the same plane gives the
array turned by `k + l` — same shape, same entry at every index of that shape (hence `k` then
`−k`, and four quarter turns, give back every entry). -/
theorem rot90_compose {α} (a : NDA α) (p q : Nat) (k l : Int) (hpq : p ≠ q) (hp : p < a.shape.length) (hq : q < a.shape.length) :
    (rot90 (rot90 a p q k) p q l).shape = (rot90 a p q (k + l)).shape ∧
    ∀ j, inRange (rot90 a p q (k + l)).shape j = true →
      (rot90 (rot90 a p q k) p q l).get j = (rot90 a p q (k + l)).get j :=
  rot90_compose' a p q k l hpq hp hq

/-- **Field: a turn by a multiple of four quarter turns is the identity** on values, validity,
labels and mesh (the mesh comes back through the constructor: `bc` lower-cased). -/
theorem field_turn_zero (f : Fld) (hf : FldInv f) (hs : SubInv f.mesh) (a1 a2 : String) (k : Int) (hk : k % 4 = 0)
    (ref : Option (List Rat)) (b : Bool) (x g : Fld) (h : rotate90F f a1 a2 k ref b = .ok (x, g)) :
    g = { f with mesh := { f.mesh with bc := f.mesh.bc.toLower } } :=
  rotate90F_zero f hf hs a1 a2 k hk ref b x g h

/-- **Field arrays: composition.**  If a field is turned by `k`, the result by `l`, and the
original by `k + l` (any reference points, any forms), the two final fields have validity and
value arrays of the same shape with the same entries at every index: validity and scalar values
literally, vector values with the two mapped components turned by `Q^l Q^k` resp. `Q^(k+l)` of
the same source value (equal by `rotVec_compose`); labels, mapping and unit agree. -/
theorem field_compose_arrays (f : Fld) (hf : FldInv f) (a1 a2 : String) (k l : Int)
    (ref ref' ref'' : Option (List Rat)) (b b' b'' : Bool) (x1 g1 x2 g2 x12 g12 : Fld)
    (h1 : rotate90F f a1 a2 k ref b = .ok (x1, g1)) (h2 : rotate90F g1 a1 a2 l ref' b' = .ok (x2, g2))
    (h12 : rotate90F f a1 a2 (k + l) ref'' b'' = .ok (x12, g12)) :
    g2.valid.shape = g12.valid.shape ∧ g2.data.shape = g12.data.shape ∧
    (∀ j, inRange g12.valid.shape j = true → g2.valid.get j = g12.valid.get j) ∧
    (f.nvdim ≤ 1 → ∀ j, inRange g12.data.shape j = true → g2.data.get j = g12.data.get j) ∧
    (f.nvdim > 1 → ∃ i1 i2 c1 c2, ∀ j, inRange g12.data.shape j = true →
        g2.data.get j = rotVec (rotVec ((rot90 f.data i1 i2 (k + l)).get j) c1 c2 k) c1 c2 l ∧
        g12.data.get j = rotVec ((rot90 f.data i1 i2 (k + l)).get j) c1 c2 (k + l)) ∧
    g2.nvdim = g12.nvdim ∧ g2.vdims = g12.vdims ∧ g2.vmap = g12.vmap ∧ g2.unit = g12.unit :=
  rotate90F_compose_arrays f hf a1 a2 k l ref ref' ref'' b b' b'' x1 g1 x2 g2 x12 g12 h1 h2 h12

/-- **Mesh (copying form): composition.**  If the turn by `k`, the turn of its result by `l` and the
turn by `k + l` about the same reference point are all accepted by the constructor, the two final
meshes have the same region, counts and subregions — and are equal for non-periodic `bc`. -/
theorem mesh_compose_copy (m : Mesh) (hm : m.Inv) (hs : SubInv m) (a1 a2 : String) (k l : Int) (R : List Rat)
    (y1 m1 y2 m2 y12 m12 : Mesh)
    (h1 : stepM m (.rotate90 a1 a2 k (some R) false) = .ok (y1, m1))
    (h2 : stepM m1 (.rotate90 a1 a2 l (some R) false) = .ok (y2, m2))
    (h12 : stepM m (.rotate90 a1 a2 (k + l) (some R) false) = .ok (y12, m12)) :
    m2.region = m12.region ∧ m2.n = m12.n ∧ m2.subs = m12.subs ∧ (PlainBc m.bc → m2 = m12) :=
  stepM_rot_compose_copy m hm hs a1 a2 k l R y1 m1 y2 m2 y12 m12 h1 h2 h12

/-- **Field: a turn followed by its reverse gives back the field** (hence also four quarter turns,
by `rotate_mod4` and `field_compose_arrays`): mesh region, counts and subregions (the whole mesh
for non-periodic `bc`), labels, mapping, unit; validity and values at every cell — scalar values
literally, vector values as `Q^(−k) Q^k v`, which is `v` whenever the two mapped components are
distinct positions inside the value. -/
theorem field_inverse (f : Fld) (hf : FldInv f) (hs : SubInv f.mesh) (a1 a2 : String) (k : Int) (R : List Rat)
    (b b' : Bool) (x1 g1 x2 g2 : Fld)
    (h1 : rotate90F f a1 a2 k (some R) b = .ok (x1, g1)) (h2 : rotate90F g1 a1 a2 (-k) (some R) b' = .ok (x2, g2)) :
    g2.mesh.region = f.mesh.region ∧ g2.mesh.n = f.mesh.n ∧ g2.mesh.subs = f.mesh.subs ∧
    (PlainBc f.mesh.bc → g2.mesh = f.mesh) ∧
    g2.nvdim = f.nvdim ∧ g2.vdims = f.vdims ∧ g2.vmap = f.vmap ∧ g2.unit = f.unit ∧
    g2.valid.shape = f.valid.shape ∧ g2.data.shape = f.data.shape ∧
    ∀ j, inRange f.mesh.n j = true →
      g2.valid.get j = f.valid.get j ∧
      (f.nvdim ≤ 1 → g2.data.get j = f.data.get j) ∧
      (f.nvdim > 1 → ∃ c1 c2, (f.rDim a1).bind f.vdimIndex = some c1 ∧ (f.rDim a2).bind f.vdimIndex = some c2 ∧
        g2.data.get j = rotVec (rotVec (f.data.get j) c1 c2 k) c1 c2 (-k) ∧
        (c1 ≠ c2 → c1 < (f.data.get j).length → c2 < (f.data.get j).length → g2.data.get j = f.data.get j)) :=
  rotate90F_inverse f hf hs a1 a2 k R b b' x1 g1 x2 g2 h1 h2

/-- non-vacuity of the object-level theorems: on the region of `exP`, the mesh `exP` (two
subregions) and the vector field `exF`, a quarter turn x→y about the point (1, 2, 3) is accepted
in both forms, and so are the follow-up turns the theorems speak about. -/
example : exP.Inv ∧ SubInv exP ∧ FldInv exF ∧ PlainBc exP.bc := ⟨exP_inv, exP_subInv, exF_inv, Or.inl rfl⟩
example : (match rotate90R exP.region "x" "y" 1 (some [1, 2, 3]) true with | .ok (_, r) => r.pmin | .error _ => []) = [-3, 1, 0] := by
  decide +kernel
example : (match stepM exP (.rotate90 "x" "y" 1 (some [1, 2, 3]) true) with | .ok (_, m) => m.n | .error _ => []) = [6, 4, 1] := by
  decide +kernel
example : (match rotate90F exF "x" "y" (-3) (some [1, 2, 3]) false with
    | .ok (_, g) => (g.mesh.n, g.data.get [0, 0, 0]) | .error _ => ([], [])) = ([6, 4, 1], [-2, 1, 3]) := by
  decide +kernel
example : (match rotate90F exF "x" "y" (-3) (some [1, 2, 3]) false with
    | .ok (_, g) => (match rotate90F g "x" "y" 3 (some [1, 2, 3]) true with
        | .ok (_, g2) => (g2.mesh.n, g2.data.get [3, 5, 0]) | .error _ => ([], []))
    | .error _ => ([], [])) = ([4, 6, 1], [1, 2, 3]) := by
  decide +kernel


end DFV.C12
