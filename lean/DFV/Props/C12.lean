import DFV.Lemmas.C12Ctor
/-!
# C12 — quarter-turn rotations move values, vectors, validity and geometry together

Group laws of the exact quarter turns used by `Region/Mesh/Field.rotate90`, the corner
map, rotation of the mapped vector components, and refusal of unmapped vector fields —
for all integers `k` (negative included), all axis pairs, all dimensions; lifted to the model's
regions, meshes (subregions and the `bc` string included) and fields: `k` vs `k mod 4`, composition
of turns with acceptance of the follow-up calls, inverse and four turns, and how the periodic
directions turn with the axes (or, for multi-character axis names, do not: finding D57).
(In-place == copy for rotations is `DFV.C13.inplace_eq_copy` / `inplace_eq_copy_mesh_complete`.)
-/
namespace DFV.C12
open DFV DFV.T

/-- only `k mod 4` matters -/
theorem quarter_mod4 (k : Int) : cosq (k % 4) = cosq k ∧ sinq (k % 4) = sinq k := by
  unfold cosq sinq
  have : k % 4 % 4 = k % 4 := Int.emod_emod_of_dvd k (by norm_num)
  rw [this]; exact ⟨rfl, rfl⟩

/-- angle addition for quarter turns -/
theorem quarter_add (k l : Int) :
    cosq (k + l) = cosq k * cosq l - sinq k * sinq l ∧ sinq (k + l) = sinq k * cosq l + cosq k * sinq l := by
  unfold cosq sinq
  have hk : k % 4 = 0 ∨ k % 4 = 1 ∨ k % 4 = 2 ∨ k % 4 = 3 := by omega
  have hl : l % 4 = 0 ∨ l % 4 = 1 ∨ l % 4 = 2 ∨ l % 4 = 3 := by omega
  rcases hk with hk | hk | hk | hk <;> rcases hl with hl | hl | hl | hl <;>
    (have hkl : (k + l) % 4 = (k % 4 + l % 4) % 4 := Int.add_emod k l 4
     rw [hk, hl] at hkl
     norm_num at hkl
     simp [hk, hl, hkl])

theorem quarter_zero : cosq 0 = 1 ∧ sinq 0 = 0 := by decide

/-- four quarter turns are the identity matrix -/
theorem quarter_four (k : Int) : cosq (k + 4) = cosq k ∧ sinq (k + 4) = sinq k := by
  unfold cosq sinq
  have : (k + 4) % 4 = k % 4 := by omega
  rw [this]; exact ⟨rfl, rfl⟩

/-- the reverse turn is the transpose -/
theorem quarter_neg (k : Int) : cosq (-k) = cosq k ∧ sinq (-k) = - sinq k := by
  unfold cosq sinq
  have hk : k % 4 = 0 ∨ k % 4 = 1 ∨ k % 4 = 2 ∨ k % 4 = 3 := by omega
  rcases hk with hk | hk | hk | hk
  · have : (-k) % 4 = 0 := by omega
    simp [hk, this]
  · have : (-k) % 4 = 3 := by omega
    simp [hk, this]
  · have : (-k) % 4 = 2 := by omega
    simp [hk, this]
  · have : (-k) % 4 = 1 := by omega
    simp [hk, this]

/-- a point rotated about `ref` in the plane of axes `i1`, `i2` -/
def rotPoint (p ref : List Rat) (i1 i2 : Nat) (k : Int) : List Rat := tab p.length (rotCoord p ref i1 i2 k)

/-- rotating by `k` and then by `l` about the same reference is rotating by `k + l`
(hence: k then −k, and four quarter turns, are the identity) -/
theorem rotPoint_compose (p ref : List Rat) (i1 i2 : Nat) (k l : Int) (h12 : i1 ≠ i2)
    (h1 : i1 < p.length) (h2 : i2 < p.length) :
    rotPoint (rotPoint p ref i1 i2 k) ref i1 i2 l = rotPoint p ref i1 i2 (k + l) := by
  unfold rotPoint
  rw [tab_length]
  apply tab_congr
  intro a ha
  obtain ⟨hc, hs⟩ := quarter_add k l
  have g1 : (tab p.length (rotCoord p ref i1 i2 k)).getD i1 0 = rotCoord p ref i1 i2 k i1 := getD_tab _ _ _ _ h1
  have g2 : (tab p.length (rotCoord p ref i1 i2 k)).getD i2 0 = rotCoord p ref i1 i2 k i2 := getD_tab _ _ _ _ h2
  have ga : (tab p.length (rotCoord p ref i1 i2 k)).getD a 0 = rotCoord p ref i1 i2 k a := getD_tab _ _ _ _ ha
  have r1 : rotCoord p ref i1 i2 k i1
      = ref.getD i1 0 + (cosq k * (p.getD i1 0 - ref.getD i1 0) - sinq k * (p.getD i2 0 - ref.getD i2 0)) := by
    simp [rotCoord]
  have r2 : rotCoord p ref i1 i2 k i2
      = ref.getD i2 0 + (sinq k * (p.getD i1 0 - ref.getD i1 0) + cosq k * (p.getD i2 0 - ref.getD i2 0)) := by
    simp [rotCoord, h12.symm]
  show rotCoord (tab p.length (rotCoord p ref i1 i2 k)) ref i1 i2 l a = rotCoord p ref i1 i2 (k + l) a
  by_cases e1 : a = i1
  · rw [e1]
    simp only [rotCoord, if_true]
    rw [g1, g2, r1, r2, hc, hs]
    ring
  · by_cases e2 : a = i2
    · rw [e2]
      simp only [rotCoord, h12.symm, if_false, if_true]
      rw [g1, g2, r1, r2, hc, hs]
      ring
    · simp only [rotCoord, e1, e2, if_false, ga]

theorem rotPoint_zero (p ref : List Rat) (i1 i2 : Nat) (a : Nat) (ha : a < p.length) :
    (rotPoint p ref i1 i2 0).getD a 0 = p.getD a 0 := by
  unfold rotPoint
  rw [getD_tab _ _ _ _ ha]
  unfold rotCoord
  rw [quarter_zero.1, quarter_zero.2]
  split
  · rename_i h; subst h; ring
  · split
    · rename_i h; subst h; ring
    · rfl

/-- the same composition law for the two rotated vector components -/
theorem rotVec_compose (v : List Rat) (c1 c2 : Nat) (k l : Int) (h12 : c1 ≠ c2)
    (h1 : c1 < v.length) (h2 : c2 < v.length) :
    rotVec (rotVec v c1 c2 k) c1 c2 l = rotVec v c1 c2 (k + l) := by
  unfold rotVec
  rw [tab_length]
  apply tab_congr
  intro c hc
  obtain ⟨hcs, hsn⟩ := quarter_add k l
  rw [getD_tab _ _ _ _ h1, getD_tab _ _ _ _ h2, getD_tab _ _ _ _ hc]
  by_cases e1 : c = c1
  · rw [e1]
    simp only [if_true, h12, if_false, h12.symm, hcs, hsn]
    ring
  · by_cases e2 : c = c2
    · rw [e2]
      simp only [if_false, if_true, h12, h12.symm, hcs, hsn]
      ring
    · simp only [e1, e2, if_false]

/-- unmapped components and all other components of a cell value are unchanged -/
theorem rotVec_other (v : List Rat) (c1 c2 : Nat) (k : Int) (c : Nat) (hc : c < v.length) (h1 : c ≠ c1) (h2 : c ≠ c2) :
    (rotVec v c1 c2 k).getD c 0 = v.getD c 0 := by
  unfold rotVec
  rw [getD_tab _ _ _ _ hc]
  simp [h1, h2]

/-- `np.rot90` only depends on `k mod 4` -/
theorem rot90_mod4 {α} (a : NDA α) (p q : Nat) (k : Int) : rot90 a p q (k % 4) = rot90 a p q k := by
  unfold rot90
  have : k % 4 % 4 = k % 4 := Int.emod_emod_of_dvd k (by norm_num)
  rw [this]

/-- cell counts and the units of the two axes swap exactly for odd `k` -/
theorem rotN_odd (n : List Nat) (i1 i2 : Nat) (k : Int) : rotN n i1 i2 k = if k % 2 = 1 then swapAt n i1 i2 else n := by
  unfold rotN isOdd; simp

/-- A vector field without the component-to-axis mapping for one of the two axes is
refused (either form), whatever else holds. -/
theorem unmapped_refused (f : Fld) (a1 a2 : String) (k : Int) (ref : Option (List Rat)) (b : Bool)
    (hv : f.nvdim > 1) (hm : (f.rDim a1).bind f.vdimIndex = none ∨ (f.rDim a2).bind f.vdimIndex = none) :
    ∃ e, rotate90F f a1 a2 k ref b = .error e := by
  unfold rotate90F
  cases h0 : stepM f.mesh (.rotate90 a1 a2 k ref false) with
  | error e => exact ⟨e, rfl⟩
  | ok p =>
    cases h1 : f.mesh.region.dim2index a1 with
    | error e => exact ⟨e, rfl⟩
    | ok i1 =>
      cases h2 : f.mesh.region.dim2index a2 with
      | error e => exact ⟨e, rfl⟩
      | ok i2 =>
        simp only [hv, if_true]
        rcases hm with hm | hm
        · rw [hm]; exact ⟨.runtime, rfl⟩
        · rw [hm]
          cases (f.rDim a1).bind f.vdimIndex <;> exact ⟨.runtime, rfl⟩

/-- `np.rot90` moves values (data and validity alike): entry `j` of the result is entry
`srcIdx shape p q k j` of the source, for every integer `k`. -/
theorem rot90_moves {α} (a : NDA α) (p q : Nat) (k : Int) (j : List Nat) :
    (rot90 a p q k).get j = a.get (srcIdx a.shape p q k j) := rot90_get a p q k j

/-- **g(R + Q(p − R)) lives where Q f(p) is put.**  For every cell `j` of the rotated mesh and every
axis `a`, the centre of `j` is the exact quarter-turn image `R + Q(p − R)` of the centre `p` of
the source cell `srcIdx j` whose value `np.rot90` stores at `j` (`rot90_moves`) — all integer `k`,
all ordered axis pairs, any reference point, anisotropic counts and cell sizes, any dimension. -/
theorem rot90_geometry (m m' : Mesh) (hm : m.Inv) (i1 i2 : Nat) (h12 : i1 ≠ i2) (h1 : i1 < m.ndim) (h2 : i2 < m.ndim)
    (k : Int) (R : List Rat) (units : List String)
    (hr' : m'.region = target m.region (rotCoord m.region.pmin R i1 i2 k) (rotCoord m.region.pmax R i1 i2 k) units)
    (hn' : m'.n = rotN m.n i1 i2 k)
    (j : List Nat) (hj : inRange m'.n j = true) (a : Nat) (ha : a < m.ndim) :
    m'.centreAx a ((j.getD a 0 : Nat) : Int) = rotCoord (m.centre (srcIdx m.n i1 i2 k j)) R i1 i2 k a :=
  rot90_geometry' m m' hm i1 i2 h12 h1 h2 k R units hr' hn' j hj a ha

/-- the rotated field's value at cell `j`: the two mapped components of the source cell's value
are turned by the same exact matrix, everything else is carried over -/
theorem rotate90F_value (f g recv : Fld) (a1 a2 : String) (k : Int) (ref : Option (List Rat)) (b : Bool)
    (h : rotate90F f a1 a2 k ref b = .ok (recv, g)) (j : List Nat) :
    ∃ i1 i2, f.mesh.region.dim2index a1 = .ok i1 ∧ f.mesh.region.dim2index a2 = .ok i2 ∧
      g.valid.get j = f.valid.get (srcIdx f.valid.shape i1 i2 k j) ∧
      (f.nvdim ≤ 1 → g.data.get j = f.data.get (srcIdx f.data.shape i1 i2 k j)) ∧
      (f.nvdim > 1 → ∃ c1 c2, (f.rDim a1).bind f.vdimIndex = some c1 ∧ (f.rDim a2).bind f.vdimIndex = some c2 ∧
          g.data.get j = rotVec (f.data.get (srcIdx f.data.shape i1 i2 k j)) c1 c2 k) := by
  unfold rotate90F at h
  split at h
  · cases h
  · cases h
  · cases h
  · rename_i m' i1 i2 _ hi1 hi2
    refine ⟨i1, i2, hi1, hi2, ?_⟩
    split at h
    · rename_i hv
      split at h
      · rename_i c1 c2 hc1 hc2
        injection h with h; injection h with _ hg
        subst hg
        refine ⟨rot90_get _ _ _ _ _, fun hle => absurd hv (by omega), fun _ => ⟨c1, c2, hc1, hc2, ?_⟩⟩
        simp only [NDA.map]
        rw [rot90_get]
      · cases h
    · rename_i hv
      injection h with h; injection h with _ hg
      subst hg
      exact ⟨rot90_get _ _ _ _ _, fun _ => rot90_get _ _ _ _ _, fun hgt => absurd hgt hv⟩

/-! ## object level: regions, meshes and fields -/
open DFV.C14

/-- **Rotation by `k` and by `k mod 4` is the same call** — on regions, meshes and fields, for
every integer `k` (negative included), any axes, reference point and form: not only equal results
but equal acceptance. -/
theorem rotate_mod4 (r : Region) (m : Mesh) (f : Fld) (a1 a2 : String) (k : Int) (ref : Option (List Rat)) (b : Bool) :
    rotate90R r a1 a2 (k % 4) ref b = rotate90R r a1 a2 k ref b ∧
    stepM m (.rotate90 a1 a2 (k % 4) ref b) = stepM m (.rotate90 a1 a2 k ref b) ∧
    rotate90F f a1 a2 (k % 4) ref b = rotate90F f a1 a2 k ref b :=
  ⟨rotate90R_mod4 r a1 a2 k ref b, stepM_rot_mod4 m a1 a2 k ref b, rotate90F_mod4 f a1 a2 k ref b⟩

/-- **Region: a turn by a multiple of four quarter turns is the identity** (corners, names, units,
tolerance; either form, any reference point). -/
theorem region_turn_zero (r : Region) (hr : r.Inv) (a1 a2 : String) (k : Int) (hk : k % 4 = 0) (ref : Option (List Rat))
    (b : Bool) (x ret : Region) (h : rotate90R r a1 a2 k ref b = .ok (x, ret)) : ret = r ∧ x = r :=
  rotate90R_zero r hr a1 a2 k hk ref b x ret h

/-- **Region: composition.**  A turn by `k` followed by a turn by `l` in the same plane about the
same reference point is the turn by `k + l`: the second turn is always accepted and both ways end
in the same region (corners re-ordered, units swapped for odd totals) — any mix of forms. -/
theorem region_compose (r : Region) (hr : r.Inv) (a1 a2 : String) (k l : Int) (R : List Rat) (b b' b'' : Bool)
    (x1 r1 : Region) (h : rotate90R r a1 a2 k (some R) b = .ok (x1, r1)) :
    ∃ r2, rotate90R r1 a1 a2 l (some R) b' = .ok (if b' then r2 else r1, r2) ∧
          rotate90R r a1 a2 (k + l) (some R) b'' = .ok (if b'' then r2 else r, r2) :=
  rotate90R_compose r hr a1 a2 k l R b b' b'' x1 r1 h

/-- **Region: a turn followed by its reverse is the identity.** -/
theorem region_inverse (r : Region) (hr : r.Inv) (a1 a2 : String) (k : Int) (R : List Rat) (b b' : Bool)
    (x1 r1 : Region) (h : rotate90R r a1 a2 k (some R) b = .ok (x1, r1)) :
    ∃ x2, rotate90R r1 a1 a2 (-k) (some R) b' = .ok (x2, r) := by
  obtain ⟨r2, h2, h12⟩ := rotate90R_compose r hr a1 a2 k (-k) R b b' false x1 r1 h
  have hz : (k + -k) % 4 = 0 := by simp
  obtain ⟨e, _⟩ := rotate90R_zero r hr a1 a2 (k + -k) hz (some R) false _ r2 h12
  rw [e] at h2
  exact ⟨_, h2⟩

/-- **Region: four quarter turns about the same reference point give back the region.** -/
theorem region_four_turns (r : Region) (hr : r.Inv) (a1 a2 : String) (R : List Rat) (b : Bool) (x1 r1 : Region)
    (h : rotate90R r a1 a2 1 (some R) b = .ok (x1, r1)) :
    ∃ r2 r3, rotate90R r1 a1 a2 1 (some R) b = .ok (if b then r2 else r1, r2) ∧
             rotate90R r2 a1 a2 1 (some R) b = .ok (if b then r3 else r2, r3) ∧
             rotate90R r3 a1 a2 1 (some R) b = .ok (if b then r else r3, r) := by
  obtain ⟨r2, s2, t2⟩ := rotate90R_compose r hr a1 a2 1 1 R b b b x1 r1 h
  obtain ⟨r3, s3, t3⟩ := rotate90R_compose r hr a1 a2 (1 + 1) 1 R b b b _ r2 t2
  obtain ⟨r4, s4, t4⟩ := rotate90R_compose r hr a1 a2 (1 + 1 + 1) 1 R b b false _ r3 t3
  obtain ⟨e, _⟩ := rotate90R_zero r hr a1 a2 (1 + 1 + 1 + 1) (by decide) (some R) false _ r4 t4
  rw [e] at s4
  exact ⟨r2, r3, s2, s3, s4⟩

/-- **Mesh: a turn by a multiple of four quarter turns is the identity** — in place the mesh (region,
counts, bc, subregions) is unchanged; the copying form returns it with `bc` lower-cased by the
constructor. -/
theorem mesh_turn_zero (m : Mesh) (hm : m.Inv) (hs : SubInv m) (a1 a2 : String) (k : Int) (hk : k % 4 = 0)
    (ref : Option (List Rat)) (b : Bool) (recv ret : Mesh) (h : stepM m (.rotate90 a1 a2 k ref b) = .ok (recv, ret)) :
    ret = (if b then m else { m with bc := m.bc.toLower }) ∧ recv = m :=
  stepM_rot_zero m hm hs a1 a2 k hk ref b recv ret h

/-- **Mesh (in-place form): composition.**  A turn by `k` followed by a turn by `l` about the same
reference point is the turn by `k + l` on region, counts and every subregion; the second turn is
always accepted; `bc` has its letters swapped twice resp. once — and whenever `bc` passes the `bc`
setter's check (periodic conditions included: `rotBc_compose`) the two meshes are EQUAL. -/
theorem mesh_compose (m : Mesh) (hm : m.Inv) (hs : SubInv m) (a1 a2 : String) (k l : Int) (R : List Rat)
    (m1 m1' : Mesh) (h : stepM m (.rotate90 a1 a2 k (some R) true) = .ok (m1, m1')) :
    ∃ m2 m12, stepM m1' (.rotate90 a1 a2 l (some R) true) = .ok (m2, m2) ∧
      stepM m (.rotate90 a1 a2 (k + l) (some R) true) = .ok (m12, m12) ∧
      m2.region = m12.region ∧ m2.n = m12.n ∧ m2.subs = m12.subs ∧
      m2.bc = rotBc (rotBc m.bc a1 a2 k) a1 a2 l ∧ m12.bc = rotBc m.bc a1 a2 (k + l) ∧
      (Mesh.bcOk m.region.dims m.bc = true → m2 = m12) := by
  obtain ⟨m2, m12, h2, h12, e1, e2, e3, e4, e5⟩ := stepM_rot_compose m hm hs a1 a2 k l R m1 m1' h
  refine ⟨m2, m12, h2, h12, e1, e2, e3, e4, e5, ?_⟩
  intro hok
  apply mesh_ext _ _ e1 e2 _ e3
  rw [e4, e5]; exact rotBc_compose _ _ _ _ _ (distinct_of_bcOk _ _ hok)

/-- **Mesh: a turn followed by its reverse gives back region, counts and every subregion** — and
the WHOLE mesh whenever `bc` passes the `bc` setter's check, periodic conditions included (the
letter swap is an involution on strings with distinct letters). -/
theorem mesh_inverse (m : Mesh) (hm : m.Inv) (hs : SubInv m) (a1 a2 : String) (k : Int) (R : List Rat)
    (m1 m1' : Mesh) (h : stepM m (.rotate90 a1 a2 k (some R) true) = .ok (m1, m1')) :
    ∃ m2, stepM m1' (.rotate90 a1 a2 (-k) (some R) true) = .ok (m2, m2) ∧
      m2.region = m.region ∧ m2.n = m.n ∧ m2.subs = m.subs ∧ (Mesh.bcOk m.region.dims m.bc = true → m2 = m) := by
  obtain ⟨m2, m12, h2, h12, e1, e2, e3, e4, _⟩ := stepM_rot_compose m hm hs a1 a2 k (-k) R m1 m1' h
  obtain ⟨e, _⟩ := stepM_rot_zero m hm hs a1 a2 (k + -k) (by simp) (some R) true _ m12 h12
  simp only [if_true] at e
  rw [e] at e1 e2 e3
  refine ⟨m2, h2, e1, e2, e3, ?_⟩
  intro hok
  apply mesh_ext _ _ e1 e2 _ e3
  rw [e4, rotBc_compose _ _ _ _ _ (distinct_of_bcOk _ _ hok)]
  exact rotBc_even _ _ _ _ (by unfold isOdd; simp)

/-- **Mesh: four quarter turns about the same reference point give back the whole mesh** — region,
counts, `bc` (periodic conditions included), every subregion — each turn being accepted. -/
theorem mesh_four_turns (m : Mesh) (hm : m.Inv) (hs : SubInv m) (hok : Mesh.bcOk m.region.dims m.bc = true)
    (a1 a2 : String) (R : List Rat) (m1 m1' : Mesh) (h : stepM m (.rotate90 a1 a2 1 (some R) true) = .ok (m1, m1')) :
    ∃ m2 m3, stepM m1' (.rotate90 a1 a2 1 (some R) true) = .ok (m2, m2) ∧
      stepM m2 (.rotate90 a1 a2 1 (some R) true) = .ok (m3, m3) ∧
      stepM m3 (.rotate90 a1 a2 1 (some R) true) = .ok (m, m) :=
  stepM_rot_four m hm hs hok a1 a2 R m1 m1' h

/-- **Subregions move with the cells**: an accepted mesh rotation turns the region and every
subregion by the same corner map `rotCoord · R i1 i2 k` about the same reference point `R` (the
given one, else the centre of the mesh region), swaps the counts for odd `k`, keeps names and
order. -/
theorem subregions_turn_with_mesh (m : Mesh) (hd : ∀ p ∈ m.subs, p.2.dims = m.region.dims) (a1 a2 : String) (k : Int)
    (ref : Option (List Rat)) (b : Bool) (recv ret : Mesh) (h : stepM m (.rotate90 a1 a2 k ref b) = .ok (recv, ret)) :
    ∃ i1 i2, m.region.dim2index a1 = .ok i1 ∧ m.region.dim2index a2 = .ok i2 ∧
      ret.region = target m.region (rotCoord m.region.pmin (ref.getD m.region.center) i1 i2 k)
        (rotCoord m.region.pmax (ref.getD m.region.center) i1 i2 k) (rotUnits m.region.units i1 i2 k) ∧
      ret.n = rotN m.n i1 i2 k ∧
      List.Forall₂ (fun p q => q.1 = p.1 ∧
          q.2.pmin = (target p.2 (rotCoord p.2.pmin (ref.getD m.region.center) i1 i2 k)
            (rotCoord p.2.pmax (ref.getD m.region.center) i1 i2 k) (rotUnits p.2.units i1 i2 k)).pmin ∧
          q.2.pmax = (target p.2 (rotCoord p.2.pmin (ref.getD m.region.center) i1 i2 k)
            (rotCoord p.2.pmax (ref.getD m.region.center) i1 i2 k) (rotUnits p.2.units i1 i2 k)).pmax)
        m.subs ret.subs :=
  stepM_rot_subs m hd a1 a2 k ref b recv ret h

/-- **Region, mesh and field rotate consistently; names stay.**  The mesh of the rotated field is
what `Mesh.rotate90` (copying) returns for the field's mesh, its region is what `Region.rotate90`
returns for the mesh's region; dimension names, component names, the component-to-axis mapping,
the unit and the number of components are unchanged; validity is turned by the same `np.rot90` as
the values. -/
theorem rotate_consistent (f : Fld) (hf : FldInv f) (a1 a2 : String) (k : Int) (ref : Option (List Rat)) (b : Bool)
    (x g : Fld) (h : rotate90F f a1 a2 k ref b = .ok (x, g)) :
    (∃ y, stepM f.mesh (.rotate90 a1 a2 k ref false) = .ok (y, g.mesh)) ∧
    (∃ z, rotate90R f.mesh.region a1 a2 k ref false = .ok (z, g.mesh.region)) ∧
    g.mesh.region.dims = f.mesh.region.dims ∧ g.vdims = f.vdims ∧ g.vmap = f.vmap ∧ g.unit = f.unit ∧
    g.nvdim = f.nvdim ∧
    ∃ i1 i2, f.mesh.region.dim2index a1 = .ok i1 ∧ f.mesh.region.dim2index a2 = .ok i2 ∧
      g.mesh.n = rotN f.mesh.n i1 i2 k ∧ g.valid = rot90 f.valid i1 i2 k ∧ g.data.shape = (rot90 f.data i1 i2 k).shape ∧
      ∀ j, g.valid.get j = f.valid.get (srcIdx f.mesh.n i1 i2 k j) := by
  obtain ⟨y, m', i1, i2, hm', d1, d2, e1, e2, e3, e4, e5, e6, e7, _⟩ := rotate90F_inv f a1 a2 k ref b x g h
  obtain ⟨_, _, hn, z, hz⟩ := stepM_keeps f.mesh hf.1 _ _ _ hm'
  obtain ⟨_, _, _, _, _, _, _, hdims⟩ := stepM_rot_axes f.mesh hf.1 a1 a2 k ref false y m' hm'
  refine ⟨⟨y, e1 ▸ hm'⟩, ⟨z, by rw [e1]; exact hz⟩, by rw [e1]; exact hdims, e3, e4, e5, e2, i1, i2, d1, d2, ?_, e6, ?_, ?_⟩
  · rw [e1, hn]; simp only [opN, d1, d2]
  · rcases e7 with ⟨_, e⟩ | ⟨_, _, _, _, _, e⟩ <;> rw [e] <;> rfl
  · intro j; rw [e6, rot90_get, hf.2.2]

/-- **`np.rot90` composes**: turning an array by `k` and then by `l` in the same plane gives the
array turned by `k + l` — same shape, same entry at every index of that shape (hence `k` then
`−k`, and four quarter turns, give back every entry). -/
theorem rot90_compose {α} (a : NDA α) (p q : Nat) (k l : Int) (hpq : p ≠ q) (hp : p < a.shape.length) (hq : q < a.shape.length) :
    (rot90 (rot90 a p q k) p q l).shape = (rot90 a p q (k + l)).shape ∧
    ∀ j, inRange (rot90 a p q (k + l)).shape j = true →
      (rot90 (rot90 a p q k) p q l).get j = (rot90 a p q (k + l)).get j :=
  rot90_compose' a p q k l hpq hp hq

/-- **Field: a turn by a multiple of four quarter turns is the identity** on values, validity,
labels and mesh (the mesh comes back through the constructor: `bc` lower-cased). -/
theorem field_turn_zero (f : Fld) (hf : FldInv f) (hs : SubInv f.mesh) (a1 a2 : String) (k : Int) (hk : k % 4 = 0)
    (ref : Option (List Rat)) (b : Bool) (x g : Fld) (h : rotate90F f a1 a2 k ref b = .ok (x, g)) :
    g = { f with mesh := { f.mesh with bc := f.mesh.bc.toLower } } :=
  rotate90F_zero f hf hs a1 a2 k hk ref b x g h

/-- **Field arrays: composition.**  If a field is turned by `k`, the result by `l`, and the
original by `k + l` (any reference points, any forms), the two final fields have validity and
value arrays of the same shape with the same entries at every index: validity and scalar values
literally, vector values with the two mapped components turned by `Q^l Q^k` resp. `Q^(k+l)` of
the same source value (equal by `rotVec_compose`); labels, mapping and unit agree. -/
theorem field_compose_arrays (f : Fld) (hf : FldInv f) (a1 a2 : String) (k l : Int)
    (ref ref' ref'' : Option (List Rat)) (b b' b'' : Bool) (x1 g1 x2 g2 x12 g12 : Fld)
    (h1 : rotate90F f a1 a2 k ref b = .ok (x1, g1)) (h2 : rotate90F g1 a1 a2 l ref' b' = .ok (x2, g2))
    (h12 : rotate90F f a1 a2 (k + l) ref'' b'' = .ok (x12, g12)) :
    g2.valid.shape = g12.valid.shape ∧ g2.data.shape = g12.data.shape ∧
    (∀ j, inRange g12.valid.shape j = true → g2.valid.get j = g12.valid.get j) ∧
    (f.nvdim ≤ 1 → ∀ j, inRange g12.data.shape j = true → g2.data.get j = g12.data.get j) ∧
    (f.nvdim > 1 → ∃ i1 i2 c1 c2, f.mesh.region.dim2index a1 = .ok i1 ∧ f.mesh.region.dim2index a2 = .ok i2 ∧
        (f.rDim a1).bind f.vdimIndex = some c1 ∧ (f.rDim a2).bind f.vdimIndex = some c2 ∧
        ∀ j, inRange g12.data.shape j = true →
        g2.data.get j = rotVec (rotVec ((rot90 f.data i1 i2 (k + l)).get j) c1 c2 k) c1 c2 l ∧
        g12.data.get j = rotVec ((rot90 f.data i1 i2 (k + l)).get j) c1 c2 (k + l)) ∧
    g2.nvdim = g12.nvdim ∧ g2.vdims = g12.vdims ∧ g2.vmap = g12.vmap ∧ g2.unit = g12.unit :=
  rotate90F_compose_arrays f hf a1 a2 k l ref ref' ref'' b b' b'' x1 g1 x2 g2 x12 g12 h1 h2 h12

/-- **Mesh (copying form): composition.**  If the turn by `k`, the turn of its result by `l` and the
turn by `k + l` about the same reference point are all accepted by the constructor, the two final
meshes have the same region, counts and subregions — and are equal for every well-formed `bc`
(`BcWf`: periodic conditions included). -/
theorem mesh_compose_copy (m : Mesh) (hm : m.Inv) (hs : SubInv m) (a1 a2 : String) (k l : Int) (R : List Rat)
    (y1 m1 y2 m2 y12 m12 : Mesh)
    (h1 : stepM m (.rotate90 a1 a2 k (some R) false) = .ok (y1, m1))
    (h2 : stepM m1 (.rotate90 a1 a2 l (some R) false) = .ok (y2, m2))
    (h12 : stepM m (.rotate90 a1 a2 (k + l) (some R) false) = .ok (y12, m12)) :
    m2.region = m12.region ∧ m2.n = m12.n ∧ m2.subs = m12.subs ∧ (BcWf m → m2 = m12) := by
  obtain ⟨q1, q2, q3, _⟩ := stepM_rot_compose_copy m hm hs a1 a2 k l R y1 m1 y2 m2 y12 m12 h1 h2 h12
  refine ⟨q1, q2, q3, ?_⟩
  intro hb
  obtain ⟨_, _, _, m2', c2, c12, _⟩ := stepM_rot_compose_copy_accepts m hm hs hb a1 a2 k l R y1 m1 h1
  rw [c2] at h2; rw [c12] at h12
  injection h2 with h2; injection h2 with _ h2
  injection h12 with h12; injection h12 with _ h12
  rw [← h2, ← h12]

/-- **Mesh (copying form): composition WITHOUT assuming acceptance.**  For a mesh satisfying the mesh
invariant, `SubInv` and `BcWf`: once the turn by `k` is accepted, the turn of its result by `l` and
the turn of the original by `k + l` about the same reference point are accepted too — each through
the constructor, the `bc` setter and the subregion setter (the rotated subregions fit exactly:
`DFV.C14.stepM_subInv`, `set_accepts_exact`) — and return the same mesh, which again satisfies the
three invariants. -/
theorem mesh_compose_copy_accepts (m : Mesh) (hm : m.Inv) (hs : SubInv m) (hb : BcWf m) (a1 a2 : String) (k l : Int)
    (R : List Rat) (y1 m1 : Mesh) (h1 : stepM m (.rotate90 a1 a2 k (some R) false) = .ok (y1, m1)) :
    m1.Inv ∧ SubInv m1 ∧ BcWf m1 ∧
    ∃ m2, stepM m1 (.rotate90 a1 a2 l (some R) false) = .ok (m1, m2) ∧
      stepM m (.rotate90 a1 a2 (k + l) (some R) false) = .ok (m, m2) ∧ m2.Inv ∧ SubInv m2 ∧ BcWf m2 :=
  stepM_rot_compose_copy_accepts m hm hs hb a1 a2 k l R y1 m1 h1

/-- **Field: a turn followed by its reverse gives back the field** (hence also four quarter turns,
by `rotate_mod4` and `field_compose_arrays`): mesh region, counts and subregions (the whole mesh
for every well-formed `bc`, periodic included), labels, mapping, unit; validity and values at every
cell — scalar values literally, vector values as `Q^(−k) Q^k v`, which is `v` whenever the two
mapped components are distinct positions inside the value (always, under the value invariant:
`field_inverse_values`). -/
theorem field_inverse (f : Fld) (hf : FldInv f) (hs : SubInv f.mesh) (a1 a2 : String) (k : Int) (R : List Rat)
    (b b' : Bool) (x1 g1 x2 g2 : Fld)
    (h1 : rotate90F f a1 a2 k (some R) b = .ok (x1, g1)) (h2 : rotate90F g1 a1 a2 (-k) (some R) b' = .ok (x2, g2)) :
    g2.mesh.region = f.mesh.region ∧ g2.mesh.n = f.mesh.n ∧ g2.mesh.subs = f.mesh.subs ∧
    (BcWf f.mesh → g2.mesh = f.mesh) ∧
    g2.nvdim = f.nvdim ∧ g2.vdims = f.vdims ∧ g2.vmap = f.vmap ∧ g2.unit = f.unit ∧
    g2.valid.shape = f.valid.shape ∧ g2.data.shape = f.data.shape ∧
    ∀ j, inRange f.mesh.n j = true →
      g2.valid.get j = f.valid.get j ∧
      (f.nvdim ≤ 1 → g2.data.get j = f.data.get j) ∧
      (f.nvdim > 1 → ∃ c1 c2, (f.rDim a1).bind f.vdimIndex = some c1 ∧ (f.rDim a2).bind f.vdimIndex = some c2 ∧
        g2.data.get j = rotVec (rotVec (f.data.get j) c1 c2 k) c1 c2 (-k) ∧
        (c1 ≠ c2 → c1 < (f.data.get j).length → c2 < (f.data.get j).length → g2.data.get j = f.data.get j)) := by
  obtain ⟨r1, r2, r3, _, r5, r6, r7, r8, r9, r10, r11⟩ := rotate90F_inverse f hf hs a1 a2 k R b b' x1 g1 x2 g2 h1 h2
  refine ⟨r1, r2, r3, ?_, r5, r6, r7, r8, r9, r10, r11⟩
  intro hb
  obtain ⟨y1, m1, _, _, hm1, _, _, e1, _⟩ := rotate90F_inv f a1 a2 k (some R) b x1 g1 h1
  obtain ⟨y2, m2, _, _, hm2, _, _, u1, _⟩ := rotate90F_inv g1 a1 a2 (-k) (some R) b' x2 g2 h2
  rw [e1] at hm2
  obtain ⟨_, _, _, m2', c2, c12, _⟩ := stepM_rot_compose_copy_accepts f.mesh hf.1 hs hb a1 a2 k (-k) R y1 m1 hm1
  rw [c2] at hm2
  injection hm2 with hm2; injection hm2 with _ hm2
  obtain ⟨ez, _⟩ := stepM_rot_zero f.mesh hf.1 hs a1 a2 (k + -k) (by simp) (some R) false _ m2' c12
  simp only [Bool.false_eq_true, if_false] at ez
  rw [u1, ← hm2, ez, hb.1.1]

/-- **Field: a turn followed by its reverse gives back every value and the mesh** under the value
invariant `FldVInv` (every cell value has `nvdim` components, `nvdim` labels, mapping keys unique —
what `Field.__init__` guarantees): the two mapped components are then distinct in-range positions
(`mapped_components_distinct`), so vector values come back exactly, like scalar ones. -/
theorem field_inverse_values (f : Fld) (hf : FldInv f) (hv : FldVInv f) (hs : SubInv f.mesh) (a1 a2 : String) (k : Int)
    (R : List Rat) (b b' : Bool) (x1 g1 x2 g2 : Fld)
    (h1 : rotate90F f a1 a2 k (some R) b = .ok (x1, g1)) (h2 : rotate90F g1 a1 a2 (-k) (some R) b' = .ok (x2, g2)) :
    g2.valid.shape = f.valid.shape ∧ g2.data.shape = f.data.shape ∧
    ∀ j, inRange f.mesh.n j = true → g2.valid.get j = f.valid.get j ∧ g2.data.get j = f.data.get j :=
  rotate90F_inverse_vals f hf hv hs a1 a2 k R b b' x1 g1 x2 g2 h1 h2

/-- the two components a quarter turn mixes are distinct in-range positions of every cell value:
labels of two different axes are different keys of the mapping, hence different positions of the
label list, which is as long as the values -/
theorem mapped_components_distinct (f : Fld) (hv : FldVInv f) (a1 a2 : String) (hne : a1 ≠ a2) (c1 c2 : Nat)
    (h1 : (f.rDim a1).bind f.vdimIndex = some c1) (h2 : (f.rDim a2).bind f.vdimIndex = some c2) :
    c1 ≠ c2 ∧ c1 < f.nvdim ∧ c2 < f.nvdim :=
  mapped_distinct f hv a1 a2 hne c1 c2 h1 h2

/-- the value invariant survives every accepted field step (translate, scale, quarter turn; either
form): rotated values keep their length, the source cell of every cell lies in the source shape -/
theorem value_invariant_kept (f : Fld) (hf : FldInv f) (hv : FldVInv f) (op : Op) (recv ret : Fld)
    (h : stepF f op = .ok (recv, ret)) : FldVInv recv ∧ FldVInv ret :=
  stepF_vinv f hf hv op recv ret h

/-- `np.rot90` reads inside the source: for every index `j` of the turned shape the source index
`srcIdx j` is an index of the source shape (all `k`, all axis pairs) -/
theorem rot90_source_in_range (sh j : List Nat) (p q : Nat) (k : Int) (hpq : p ≠ q) (hp : p < sh.length) (hq : q < sh.length)
    (hj : inRange (if isOdd k then swapAt sh p q else sh) j = true) : inRange sh (srcIdx sh p q k j) = true :=
  srcIdx_inRange sh j p q k hpq hp hq hj

/-- **Field: composition of turns, acceptance included.**  For a field satisfying the shape invariant
whose mesh satisfies `SubInv` and `BcWf`: once the turn by `k` about `R` is accepted (either form),
the turn of its result by `l` and the turn of the original by `k + l` about `R` are accepted too
(any forms) — no constructor call is assumed to succeed — and the two final fields have the same
mesh, labels, mapping, unit, and arrays of the same shape with the same validity and values at
every cell (scalar values literally; vector values as `Q^l Q^k v` resp. `Q^(k+l) v` of the same
source value `v`, equal by `field_compose_values`). -/
theorem field_compose (f : Fld) (hf : FldInv f) (hs : SubInv f.mesh) (hb : BcWf f.mesh) (a1 a2 : String) (k l : Int)
    (R : List Rat) (b b' b'' : Bool) (x1 g1 : Fld) (h1 : rotate90F f a1 a2 k (some R) b = .ok (x1, g1)) :
    ∃ g2 g12, rotate90F g1 a1 a2 l (some R) b' = .ok (if b' then g2 else g1, g2) ∧
      rotate90F f a1 a2 (k + l) (some R) b'' = .ok (if b'' then g12 else f, g12) ∧
      g2.mesh = g12.mesh ∧ g2.nvdim = g12.nvdim ∧ g2.vdims = g12.vdims ∧ g2.vmap = g12.vmap ∧ g2.unit = g12.unit ∧
      g2.valid.shape = g12.valid.shape ∧ g2.data.shape = g12.data.shape ∧
      (∀ j, inRange g12.valid.shape j = true → g2.valid.get j = g12.valid.get j) ∧
      (f.nvdim ≤ 1 → ∀ j, inRange g12.data.shape j = true → g2.data.get j = g12.data.get j) ∧
      (f.nvdim > 1 → ∃ i1 i2 c1 c2, f.mesh.region.dim2index a1 = .ok i1 ∧ f.mesh.region.dim2index a2 = .ok i2 ∧
        (f.rDim a1).bind f.vdimIndex = some c1 ∧ (f.rDim a2).bind f.vdimIndex = some c2 ∧
        ∀ j, inRange g12.data.shape j = true →
          g2.data.get j = rotVec (rotVec ((rot90 f.data i1 i2 (k + l)).get j) c1 c2 k) c1 c2 l ∧
          g12.data.get j = rotVec ((rot90 f.data i1 i2 (k + l)).get j) c1 c2 (k + l)) :=
  rotate90F_compose_full f hf hs hb a1 a2 k l R b b' b'' x1 g1 h1

/-- **Field values under composed turns**: with the value invariant, the field turned by `k` then
`l` and the field turned by `k + l` (any reference points, any forms) carry the same value at every
cell — vector values included. -/
theorem field_compose_values (f : Fld) (hf : FldInv f) (hv : FldVInv f) (a1 a2 : String) (k l : Int)
    (ref ref' ref'' : Option (List Rat)) (b b' b'' : Bool) (x1 g1 x2 g2 x12 g12 : Fld)
    (h1 : rotate90F f a1 a2 k ref b = .ok (x1, g1)) (h2 : rotate90F g1 a1 a2 l ref' b' = .ok (x2, g2))
    (h12 : rotate90F f a1 a2 (k + l) ref'' b'' = .ok (x12, g12)) :
    g2.data.shape = g12.data.shape ∧ ∀ j, inRange g12.data.shape j = true → g2.data.get j = g12.data.get j :=
  rotate90F_compose_vals f hf hv a1 a2 k l ref ref' ref'' b b' b'' x1 g1 x2 g2 x12 g12 h1 h2 h12

/-! ## the `bc` letter swap -/

/-- **`rotBc` keeps the `bc` check**: if `bc` passes the `bc` setter's check (one of the words, or
distinct single letters that are dimension names) and the two axis names are dimension names, the
turned `bc` passes it too — for every `k`, whatever the lengths of the names. -/
theorem rotBc_keeps_bcOk (dims : List String) (bc a1 a2 : String) (k : Int) (hok : Mesh.bcOk dims bc = true)
    (m1 : a1 ∈ dims) (m2 : a2 ∈ dims) : Mesh.bcOk dims (rotBc bc a1 a2 k) = true :=
  rotBc_bcOk dims bc a1 a2 k hok m1 m2

/-- **`rotBc` and `str.lower` commute on lower-case input**: a lower-case `bc` stays lower-case when
the axis names — as far as they are single characters — are lower-case; so the `bc` setter
(in-place form) and the constructor (copying form) store exactly the swapped string. -/
theorem rotBc_lowercase (bc a1 a2 : String) (k : Int) (hl : bc.toLower = bc)
    (l1 : a1.length = 1 → a1.toLower = a1) (l2 : a2.length = 1 → a2.toLower = a2) :
    (rotBc bc a1 a2 k).toLower = rotBc bc a1 a2 k :=
  rotBc_lower bc a1 a2 k hl l1 l2

/-- **The letter swap composes like the turns**: `rotBc` by `k` then by `l` is `rotBc` by `k + l`
(for `bc` one of the words or with distinct letters — in particular whenever it passes the check);
hence it is the identity for even `k` and an involution for odd `k`. -/
theorem rotBc_group (bc a1 a2 : String) (k l : Int) (hd : PlainBc bc ∨ Distinct bc.toList) :
    rotBc (rotBc bc a1 a2 k) a1 a2 l = rotBc bc a1 a2 (k + l) ∧
    (isOdd k = false → rotBc bc a1 a2 k = bc) ∧
    (isOdd k = true → rotBc (rotBc bc a1 a2 k) a1 a2 k = bc) := by
  refine ⟨rotBc_compose bc a1 a2 k l hd, rotBc_even bc a1 a2 k, ?_⟩
  intro hk
  rw [rotBc_compose bc a1 a2 k k hd]
  exact rotBc_even _ _ _ _ (by rw [isOdd_add', hk]; rfl)

/-- what the check gives: one of the words, or distinct letters -/
theorem bcOk_distinct (dims : List String) (bc : String) (h : Mesh.bcOk dims bc = true) :
    PlainBc bc ∨ Distinct bc.toList := distinct_of_bcOk dims bc h

/-- **Periodic directions turn with the axes.**  For an odd quarter turn in the plane of two axes with
single-character lower-case names (the only names a `bc` string can mention: the `bc` setter
lower-cases it; since repo fix be43fa9b `rotate90` leaves `bc` alone for any other name), on a mesh whose `bc` passes the check: the turned mesh (`bc` =
`rotBc bc a1 a2 k`, either form) is periodic along `a2` iff the original was along `a1`, along `a1`
iff the original was along `a2`, and along every other axis iff the original was. -/
theorem periodic_directions_turn (m m' : Mesh) (hok : Mesh.bcOk m.region.dims m.bc = true) (a1 a2 : String) (k : Int)
    (hk : isOdd k = true) (s1 : a1.length = 1) (s2 : a2.length = 1) (lo1 : a1.toLower = a1) (lo2 : a2.toLower = a2)
    (hbc : m'.bc = rotBc m.bc a1 a2 k) :
    (PeriodicAlong m' a2 ↔ PeriodicAlong m a1) ∧ (PeriodicAlong m' a1 ↔ PeriodicAlong m a2) ∧
    ∀ d, d ≠ a1 → d ≠ a2 → (PeriodicAlong m' d ↔ PeriodicAlong m d) :=
  periodic_turns m m' hok a1 a2 k hk s1 s2 lo1 lo2 hbc

/-- **Where this is NOT true — the exact condition (open finding D57).**  `rotBc` swaps letters only
if BOTH axis names are single characters; if one of them has a multi-character name `bc` is
returned unchanged for every `k` (`rotBc_multichar`), and then a mesh periodic along the
single-character axis `a1` is still periodic along `a1` after the turn, never along `a2` (a
multi-character name cannot occur in `bc`): "periodic along `a1` after ⟺ periodic along `a2` before"
— which `periodic_directions_turn` proves for single-character names — fails. -/
theorem periodic_direction_lost_multichar (m m' : Mesh) (a1 a2 : String) (k : Int) (h2 : a2.length ≠ 1)
    (hbc : m'.bc = rotBc m.bc a1 a2 k) (hper : PeriodicAlong m a1) :
    m'.bc = m.bc ∧ PeriodicAlong m' a1 ∧ ¬ PeriodicAlong m a2 ∧ ¬ (PeriodicAlong m' a1 ↔ PeriodicAlong m a2) :=
  periodic_not_turned_multichar m m' a1 a2 k h2 hbc hper

/-- negative witness (D57) on the model: the mesh of the finding — dims `x`, `yy`, n = (4, 3),
periodic along `x` — is well-formed, the quarter turn `x → yy` is accepted in both forms, the counts
are swapped (axis `x` now has the 3 cells that were `yy`'s) and `bc` is still `x`. -/
theorem d57_witness :
    exD57.Inv ∧ SubInv exD57 ∧ BcWf exD57 ∧ PeriodicAlong exD57 "x" ∧
    ∃ m', stepM exD57 (.rotate90 "x" "yy" 1 none true) = .ok (m', m') ∧
      stepM exD57 (.rotate90 "x" "yy" 1 none false) = .ok (exD57, m') ∧
      m'.n = [3, 4] ∧ m'.bc = "x" ∧ PeriodicAlong m' "x" ∧ ¬ PeriodicAlong exD57 "yy" := by
  have hper : PeriodicAlong exD57 "x" := ⟨by decide +kernel, 'x', by decide +kernel, by decide +kernel⟩
  have hi : exD57.Inv := mesh_inv_of_invB' exD57 (by decide +kernel)
  have hs : SubInv exD57 := fun p hp => by cases hp
  have hb : BcWf exD57 := bcWf_of_bcWfB exD57 (by decide +kernel)
  refine ⟨hi, hs, hb, hper, ?_⟩
  rcases stepM_forms_bc exD57 hi hs hb (.rotate90 "x" "yy" 1 none true) with ⟨T, _, _, _, _, _, h4, h5⟩ | ⟨⟨e, h4⟩, _⟩
  · simp only [Op.withInplace] at h4 h5
    have hn : T.n = [3, 4] := by
      have := (stepM_keeps exD57 hi _ _ _ h4).2.2.1
      rw [this]; decide +kernel
    have hbc : T.bc = rotBc exD57.bc "x" "yy" 1 := by
      obtain ⟨_, _, _, _, e, _⟩ := stepM_inplace_parts exD57 (.rotate90 "x" "yy" 1 none true) T T h4
      rw [e]; rfl
    obtain ⟨e, p1, p2, _⟩ := periodic_not_turned_multichar exD57 T "x" "yy" 1 (by decide) hbc hper
    exact ⟨T, h4, h5, hn, by rw [e]; rfl, p1, p2⟩
  · exfalso
    simp only [Op.withInplace] at h4
    have : ¬ Malformed exD57.region (.rotate90 "x" "yy" 1 none true) := by
      have hx : exD57.region.dim2index "x" = .ok 0 := by decide +kernel
      have hy : exD57.region.dim2index "yy" = .ok 1 := by decide +kernel
      simp only [Malformed, not_or, not_exists]
      refine ⟨by decide, by decide +kernel, ?_, ?_⟩
      · intro e he; rw [hx] at he; cases he
      · intro e he; rw [hy] at he; cases he
    obtain ⟨x, T, hT⟩ := stepM_wellformed exD57 hi hs hb _ this
    rw [h4] at hT; cases hT

/-- non-vacuity of the object-level theorems: on the region of `exP`, the mesh `exP` (two
subregions) and the vector field `exF`, a quarter turn x→y about the point (1, 2, 3) is accepted
in both forms, and so are the follow-up turns the theorems speak about. -/
example : exP.Inv ∧ SubInv exP ∧ FldInv exF ∧ BcWf exP := ⟨exP_inv, exP_subInv, exF_inv, bcWf_of_plain _ (Or.inl rfl)⟩
/-- … and the periodic mesh `exM` (bc = "x") meets the hypotheses of the `BcWf` / `bcOk` theorems; `exF` meets `FldVInv` -/
example : exM.Inv ∧ SubInv exM ∧ BcWf exM ∧ Mesh.bcOk exM.region.dims exM.bc = true :=
  ⟨exM_inv, exM_subInv, bcWf_of_bcWfB exM (by decide +kernel), by decide +kernel⟩
example : FldVInv exF := ⟨fun _ _ => rfl, fun vs h => by cases h; rfl, by decide⟩
example : (match stepM exM (.rotate90 "x" "y" 1 (some [1, 2, 3]) false) with | .ok (_, m) => (m.n, m.bc) | .error _ => ([], "")) = ([6, 4, 1], "y") := by
  decide +kernel
example : (match rotate90R exP.region "x" "y" 1 (some [1, 2, 3]) true with | .ok (_, r) => r.pmin | .error _ => []) = [-3, 1, 0] := by
  decide +kernel
example : (match stepM exP (.rotate90 "x" "y" 1 (some [1, 2, 3]) true) with | .ok (_, m) => m.n | .error _ => []) = [6, 4, 1] := by
  decide +kernel
example : (match rotate90F exF "x" "y" (-3) (some [1, 2, 3]) false with
    | .ok (_, g) => (g.mesh.n, g.data.get [0, 0, 0]) | .error _ => ([], [])) = ([6, 4, 1], [-2, 1, 3]) := by
  decide +kernel
example : (match rotate90F exF "x" "y" (-3) (some [1, 2, 3]) false with
    | .ok (_, g) => (match rotate90F g "x" "y" 3 (some [1, 2, 3]) true with
        | .ok (_, g2) => (g2.mesh.n, g2.data.get [3, 5, 0]) | .error _ => ([], []))
    | .error _ => ([], [])) = ([4, 6, 1], [1, 2, 3]) := by
  decide +kernel


/-! ## round 3: four turns of a field, exactness of the component rotation, axis-name lookup,
non-injective mappings -/

/-- **Field: four successive quarter turns about the same point are the identity** — stated as ONE
theorem (round 2 had it only up to `rotate_mod4` + `field_compose` + `field_turn_zero`).  For a field
satisfying `FInv` (shape invariant, `SubInv` and `BcWf` of its mesh — periodic `bc` included) and the
value invariant: once the first turn is accepted (any form), the three following ones are accepted
too (each in any form — no constructor call is assumed to succeed), and the fourth result has the
mesh, component labels, mapping and unit of the original, arrays of the same shapes, and at EVERY
cell the validity and the value of the original (vector values included). -/
theorem field_four_turns (f : Fld) (hf : FInv f) (hv : FldVInv f) (a1 a2 : String) (R : List Rat) (b1 b2 b3 b4 : Bool)
    (x1 g1 : Fld) (h1 : rotate90F f a1 a2 1 (some R) b1 = .ok (x1, g1)) :
    ∃ g2 g3 g4, rotate90F g1 a1 a2 1 (some R) b2 = .ok (if b2 then g2 else g1, g2) ∧
      rotate90F g2 a1 a2 1 (some R) b3 = .ok (if b3 then g3 else g2, g3) ∧
      rotate90F g3 a1 a2 1 (some R) b4 = .ok (if b4 then g4 else g3, g4) ∧
      g4.mesh = f.mesh ∧ g4.nvdim = f.nvdim ∧ g4.vdims = f.vdims ∧ g4.vmap = f.vmap ∧ g4.unit = f.unit ∧
      g4.valid.shape = f.valid.shape ∧ g4.data.shape = f.data.shape ∧
      ∀ j, inRange f.mesh.n j = true → g4.valid.get j = f.valid.get j ∧ g4.data.get j = f.data.get j :=
  rotate90F_four f hf hv a1 a2 R b1 b2 b3 b4 x1 g1 h1

/-- **Field: `k` then `−k` is the identity, whole statement** (mesh with periodic `bc`, labels, and every
validity and value entry) under `FInv` and the value invariant — `field_inverse` + `field_inverse_values`
in one, for every integer `k` and any forms. -/
theorem field_inverse_complete (f : Fld) (hf : FInv f) (hv : FldVInv f) (a1 a2 : String) (k : Int) (R : List Rat)
    (b b' : Bool) (x1 g1 x2 g2 : Fld)
    (h1 : rotate90F f a1 a2 k (some R) b = .ok (x1, g1)) (h2 : rotate90F g1 a1 a2 (-k) (some R) b' = .ok (x2, g2)) :
    g2.mesh = f.mesh ∧ g2.nvdim = f.nvdim ∧ g2.vdims = f.vdims ∧ g2.vmap = f.vmap ∧ g2.unit = f.unit ∧
    g2.valid.shape = f.valid.shape ∧ g2.data.shape = f.data.shape ∧
    ∀ j, inRange f.mesh.n j = true → g2.valid.get j = f.valid.get j ∧ g2.data.get j = f.data.get j := by
  obtain ⟨_, _, _, _, r5, r6, r7, r8, _⟩ := rotate90F_inverse f hf.1 hf.2.1 a1 a2 k R b b' x1 g1 x2 g2 h1 h2
  obtain ⟨s1, s2, s3⟩ := rotate90F_inverse_vals f hf.1 hv hf.2.1 a1 a2 k R b b' x1 g1 x2 g2 h1 h2
  exact ⟨rotate90F_inverse_mesh f hf a1 a2 k R b b' x1 g1 x2 g2 h1 h2, r5, r6, r7, r8, s1, s2, s3⟩

/-- **Every component of a turned value is a component of the source value or its negative** — the
matrix entries are exactly 0, 1, −1 for every integer `k` (model and, since repo fix 1656fb93, code:
no `np.cos(k·π/2)` with its 6e-17), so no arithmetic beyond a sign change happens to the numbers. -/
theorem rotVec_components_signed (v : List Rat) (c1 c2 : Nat) (k : Int) (c : Nat) (hc : c < v.length) :
    (rotVec v c1 c2 k).getD c 0 = v.getD c 0 ∨
    (rotVec v c1 c2 k).getD c 0 = v.getD c1 0 ∨ (rotVec v c1 c2 k).getD c 0 = - v.getD c1 0 ∨
    (rotVec v c1 c2 k).getD c 0 = v.getD c2 0 ∨ (rotVec v c1 c2 k).getD c 0 = - v.getD c2 0 :=
  rotVec_entry v c1 c2 k c hc

/-- **Closure for every storage kind.**  Let `P` be any set of numbers closed under negation (the
integers of an integer dtype, the numbers representable in float32 / float64, …).  If every
component of every cell value of `f` is in `P`, so is every component of every cell value of the
turned field — every integer `k`, scalar and vector fields, any mapping (non-injective included),
either form.  The model was always exact; since fix 1656fb93 the code is too, so integer storage is
compared EXACTLY by the correspondence check (dtype kept). -/
theorem field_rotation_closed (P : Rat → Prop) (hneg : ∀ x, P x → P (-x)) (f : Fld) (hf : FldInv f) (hv : FldVInv f)
    (hP : ∀ j, inRange f.mesh.n j = true → ∀ c, c < f.nvdim → P ((f.data.get j).getD c 0))
    (a1 a2 : String) (k : Int) (ref : Option (List Rat)) (b : Bool) (x g : Fld)
    (h : rotate90F f a1 a2 k ref b = .ok (x, g)) :
    ∀ j, inRange g.mesh.n j = true → ∀ c, c < g.nvdim → P ((g.data.get j).getD c 0) :=
  rotate90F_closed P hneg f hf hv hP a1 a2 k ref b x g h

/-- … in particular **integer-valued fields stay integer-valued** under every quarter turn. -/
theorem field_rotation_keeps_integers (f : Fld) (hf : FldInv f) (hv : FldVInv f)
    (hP : ∀ j, inRange f.mesh.n j = true → ∀ c, c < f.nvdim → ∃ z : Int, (f.data.get j).getD c 0 = (z : Rat))
    (a1 a2 : String) (k : Int) (ref : Option (List Rat)) (b : Bool) (x g : Fld)
    (h : rotate90F f a1 a2 k ref b = .ok (x, g)) :
    ∀ j, inRange g.mesh.n j = true → ∀ c, c < g.nvdim → ∃ z : Int, (g.data.get j).getD c 0 = (z : Rat) :=
  rotate90F_closed (fun q => ∃ z : Int, q = (z : Rat)) (fun q ⟨z, hz⟩ => ⟨-z, by rw [hz]; push_cast; rfl⟩)
    f hf hv hP a1 a2 k ref b x g h

/-- **The axis-name lookup is exact, case-sensitive membership**: `_dim2index` finds a string iff it
IS one of the dimension names (string equality — `"X"` is not `"x"`). -/
theorem axis_lookup_exact (r : Region) (d : String) :
    ((∃ i, r.dim2index d = .ok i) ↔ d ∈ r.dims) ∧ ((∃ e, r.dim2index d = .error e) ↔ d ∉ r.dims) :=
  ⟨dim2index_ok_iff r d, dim2index_err_iff r d⟩

/-- **A quarter turn is refused iff the two names are equal, a name is not EXACTLY one of the
dimension names, or the reference point has the wrong length** — as an iff, at region, mesh and
field level (there additionally: a vector field whose mapping misses one of the axes), in either
form `b`; the model's step then returns an error carrying no state (nothing changed). -/
theorem rotate_refused_iff (r : Region) (hr : r.Inv) (m : Mesh) (hm : m.Inv) (hs : SubInv m) (hbc : BcWf m)
    (f : Fld) (hf : FInv f) (a1 a2 : String) (k : Int) (ref : Option (List Rat)) (b : Bool) :
    ((∃ e, rotate90R r a1 a2 k ref b = .error e) ↔
      a1 = a2 ∨ (ref.getD r.center).length ≠ r.ndim ∨ a1 ∉ r.dims ∨ a2 ∉ r.dims) ∧
    ((∃ e, stepM m (.rotate90 a1 a2 k ref b) = .error e) ↔
      a1 = a2 ∨ (ref.getD m.region.center).length ≠ m.region.ndim ∨ a1 ∉ m.region.dims ∨ a2 ∉ m.region.dims) ∧
    ((∃ e, rotate90F f a1 a2 k ref b = .error e) ↔
      (a1 = a2 ∨ (ref.getD f.mesh.region.center).length ≠ f.mesh.region.ndim ∨
        a1 ∉ f.mesh.region.dims ∨ a2 ∉ f.mesh.region.dims) ∨
      (f.nvdim > 1 ∧ ((f.rDim a1).bind f.vdimIndex = none ∨ (f.rDim a2).bind f.vdimIndex = none))) := by
  refine ⟨?_, ?_, ?_⟩
  · rw [← malformed_rot_iff r a1 a2 k ref b]
    exact stepR_error_iff r hr (.rotate90 a1 a2 k ref b)
  · rw [← malformed_rot_iff m.region a1 a2 k ref b]
    exact stepM_error_iff m hm hs hbc (.rotate90 a1 a2 k ref b)
  · rw [← malformed_rot_iff f.mesh.region a1 a2 k ref b]
    exact stepF_error_iff f hf (.rotate90 a1 a2 k ref b)

/-- **A name in the wrong case is not an axis name**: a string that is not literally among the
dimension names — e.g. `"X"` on a region with dims `x, y, z` — is refused as first or second axis
at every level and in both forms, whatever else holds (no hypothesis on the objects). -/
theorem wrong_case_refused (r : Region) (m : Mesh) (f : Fld) (a1 a2 : String) (k : Int) (ref : Option (List Rat)) (b : Bool) :
    ((a1 ∉ r.dims ∨ a2 ∉ r.dims) → ∃ e, rotate90R r a1 a2 k ref b = .error e) ∧
    ((a1 ∉ m.region.dims ∨ a2 ∉ m.region.dims) → ∃ e, stepM m (.rotate90 a1 a2 k ref b) = .error e) ∧
    ((a1 ∉ f.mesh.region.dims ∨ a2 ∉ f.mesh.region.dims) → ∃ e, rotate90F f a1 a2 k ref b = .error e) := by
  refine ⟨fun h => ?_, fun h => ?_, fun h => ?_⟩
  · exact stepR_malformed r (.rotate90 a1 a2 k ref b) ((malformed_rot_iff r a1 a2 k ref b).mpr (Or.inr (Or.inr h)))
  · exact stepM_malformed m (.rotate90 a1 a2 k ref b) ((malformed_rot_iff m.region a1 a2 k ref b).mpr (Or.inr (Or.inr h)))
  · exact stepF_malformed f (.rotate90 a1 a2 k ref b)
      (Or.inl ((malformed_rot_iff f.mesh.region a1 a2 k ref b).mpr (Or.inr (Or.inr h))))

/-- **Non-injective mappings: the LAST label mapped onto an axis is the one that is turned.**  If the
reversed mapping gives label `l` for axis `a` (`_r_dim_mapping[a]`, a dict comprehension over
`vdim_mapping.items()`: later keys overwrite earlier ones), the mapping splits as
`pre ++ (l, a) :: post` with no entry of `post` mapped onto `a`; and an axis has no label iff no
entry is mapped onto it.  With the value invariant the two labels of two different axes are still
different components (`mapped_components_distinct` does not need injectivity), so `field_inverse_values`,
`field_compose_values` and `field_four_turns` hold for non-injective mappings as well: the labels that
share an axis with a later one are simply carried along unchanged (`rotVec_other`). -/
theorem turned_label_is_last (f : Fld) (a : String) :
    (∀ l, f.rDim a = some l → ∃ pre post, f.vmap = pre ++ (l, a) :: post ∧ ∀ q ∈ post, q.2 ≠ a) ∧
    (f.rDim a = none ↔ ∀ q ∈ f.vmap, q.2 ≠ a) :=
  ⟨fun l h => rDim_last f a l h, rDim_none_iff f a⟩

/-- non-vacuity of the round-3 theorems: `exF` meets `FInv` and the value invariant, its values are
integers; the mapping `[("x","x"), ("y","y"), ("z","x")]` is non-injective: axis `x` gets the LAST label `z`;
`"X"` is not a dimension name of `exP` -/
example : FInv exF ∧ FldVInv exF := ⟨⟨exF_inv, exP_subInv, bcWf_of_plain _ (Or.inl rfl)⟩, ⟨fun _ _ => rfl, fun vs h => by cases h; rfl, by decide⟩⟩
example : ({ exF with vmap := [("x", "x"), ("y", "y"), ("z", "x")] } : Fld).rDim "x" = some "z" := by decide
example : "X" ∉ exP.region.dims := by decide
example : (match rotate90F exF "X" "y" 1 none false with | .ok _ => true | .error _ => false) = false := by decide +kernel

/-! ## round 3: the constructor establishes the invariants -/

/-- **`Field.__init__` establishes the shape and the value invariant** (was an observed fact): whatever
`mkFld?` — the constructor for an array value: array check of `update_field_values`, `valid` setter,
`vdims` setter, `vdim_mapping` setter, in the code's order — returns on a mesh satisfying the mesh
invariant satisfies `FldInv` (arrays of shape `n`) and `FldVInv` (every cell value has `nvdim`
components, `nvdim` labels when there are labels, mapping keys pairwise different), with mesh, arrays,
`nvdim` and unit as given.  Hypotheses on constructor INPUTS only (none on the mapping: keys that are
not a rearrangement of the labels are refused, which makes them pairwise different). -/
theorem constructor_establishes_invariants (mesh : Mesh) (hm : mesh.Inv) (nvdim : Nat) (value : NDA (List Rat))
    (valid : NDA Bool) (vdims : Option (List String)) (vmap : Option (List (String × Option String)))
    (unit : Option String) (f : Fld) (h : mkFld? mesh nvdim value valid vdims vmap unit = .ok f) :
    FldInv f ∧ FldVInv f ∧ f.mesh = mesh ∧ f.nvdim = nvdim ∧ f.data = value ∧ f.valid = valid ∧ f.unit = unit ∧ 1 ≤ nvdim :=
  mkFld?_inv mesh hm nvdim value valid vdims vmap unit f h

/-- **`k` then `−k`, and `k` then `l` vs `k + l`, on every constructed field** — `field_inverse_values` and
`field_compose_values` with hypotheses on the constructor inputs only: a mesh satisfying the mesh
invariant and `SubInv`, ANY value / validity arrays, labels and mapping (injective or not, partial or
not) the constructor accepts. -/
theorem constructed_field_turns (mesh : Mesh) (hm : mesh.Inv) (hs : SubInv mesh) (nvdim : Nat) (value : NDA (List Rat))
    (valid : NDA Bool) (vdims : Option (List String)) (vmap : Option (List (String × Option String)))
    (unit : Option String) (f : Fld) (h : mkFld? mesh nvdim value valid vdims vmap unit = .ok f)
    (a1 a2 : String) (k l : Int) (R : List Rat) (b b' b'' : Bool) (x1 g1 : Fld)
    (h1 : rotate90F f a1 a2 k (some R) b = .ok (x1, g1)) :
    (∀ x2 g2, rotate90F g1 a1 a2 (-k) (some R) b' = .ok (x2, g2) →
      ∀ j, inRange mesh.n j = true → g2.valid.get j = valid.get j ∧ g2.data.get j = value.get j) ∧
    (∀ x2 g2 x12 g12, rotate90F g1 a1 a2 l (some R) b' = .ok (x2, g2) → rotate90F f a1 a2 (k + l) (some R) b'' = .ok (x12, g12) →
      g2.data.shape = g12.data.shape ∧ ∀ j, inRange g12.data.shape j = true → g2.data.get j = g12.data.get j) := by
  obtain ⟨hf, hv, e1, _, e3, e4, _⟩ := mkFld?_inv mesh hm nvdim value valid vdims vmap unit f h
  constructor
  · intro x2 g2 h2 j hj
    have := (rotate90F_inverse_vals f hf hv (e1 ▸ hs) a1 a2 k R b b' x1 g1 x2 g2 h1 h2).2.2 j (e1 ▸ hj)
    rw [e3, e4] at this; exact this
  · intro x2 g2 x12 g12 h2 h12
    exact rotate90F_compose_vals f hf hv a1 a2 k l (some R) (some R) (some R) b b' b'' x1 g1 x2 g2 x12 g12 h1 h2 h12

/-- non-vacuity: the constructor accepts a 3-component field on `exP` with a NON-INJECTIVE mapping given as
a dict with a `None` value; it refuses keys that are not the labels -/
example : (match mkFld? exP 3 (NDA.const [4, 6, 1] [1, 2, 3]) (NDA.const [4, 6, 1] true) (some ["a", "b", "c"])
    (some [("b", some "x"), ("a", none), ("c", some "x")]) none with
    | .ok f => (f.vmap, f.rDim "x") | .error _ => ([], none)) = ([("b", "x"), ("c", "x")], some "c") := by decide +kernel
example : (match mkFld? exP 3 (NDA.const [4, 6, 1] [1, 2, 3]) (NDA.const [4, 6, 1] true) (some ["a", "b", "c"])
    (some [("b", some "x"), ("q", none), ("c", some "x")]) none with
    | .ok _ => true | .error _ => false) = false := by decide +kernel

end DFV.C12
