import DFV.Lemmas.C02DictCells
import DFV.Lemmas.C02Nearest
import DFV.Lemmas.C02Line
import DFV.Lemmas.C02Ex
import DFV.Lemmas.C02Shape
import DFV.Lemmas.C02Near2
import DFV.Lemmas.C02Frame
import DFV.Lemmas.C02Labels
import DFV.Lemmas.C02Hist
import DFV.Lemmas.C02DictIff
import DFV.Lemmas.C02Src
import DFV.Lemmas.C02Store
import DFV.Lemmas.C02Ex2
import DFV.Lemmas.C02Clip
import DFV.Lemmas.C02Fast
/-!
# C02 — a field holds exactly the value its specification assigns to every cell

Property theorems only (helper lemmas live in `DFV/Lemmas/C02*.lean`).  All statements are
about the executable model `DFV/Model/C02.lean` of `Field._as_array`, the `array` setter,
`update_field_values`, the constructor (`nvdim` check, value conversion, `vdims` setter),
`Field.__call__`, `__getattr__`, `__iter__`, `Mesh.region2slices`, `Mesh.line`, `Field.line` and
the data frame built by `Line.__init__` (column names and column assignment), for every number of
dimensions, every mesh, every component count, every value type `V` (the model only moves values,
so int, float, complex and bool fields are all instances), every specification and every history
of accepted and rejected assignments.  An array entry is addressed by `i ++ [c]`: cell `i`,
component `c`; the array of a field on mesh `m` has shape `m.n ++ [nvdim]`, i.e. `(*n, nvdim)`.

Second round (sections "round 2"): acceptance as an EQUIVALENCE on the inputs alone (`Leaf.WF`, `dictWF`,
`Spec.WF`: `asLeaf_ok_iff`, `asArray_dict_ok_iff`, `line_ok_iff`, `call_ok_iff`, `comp_ok_iff`, `new_ok_iff`);
setter (any specification, also dictionaries: `VF.setSpec`) / `update_field_values` / constructor agree
(`assign_paths_agree`, `assign_rejected_iff_malformed`); the source cell of a field given as value in closed
form, with ties and coarser / finer / shifted sources (`asArray_field_reads_floor_cell`, `…_tie_upper`,
`…_closed_forms`); ownership in a store model (`no_aliasing_ever`, `field_value_is_copied`, `session_same_mesh_copy`); the dictionary and
line clauses with hypotheses on the inputs only (`asArray_dict_total`, `construct_dict_call`, `lineData_total`); the kind (bool / int /
float / complex) of the stored array for a requested / not requested dtype (`kind_*`).
-/
namespace DFV.C02
open DFV DFV.Mesh

variable {V : Type} [Inhabited V]

/-! ## constants, arrays, callables, source fields -/

/-- A scalar constant (for `nvdim = 1`, or the scalar zero for any `nvdim`) fills every entry
of an array of shape `(*n, nvdim)`. -/
theorem asArray_const (isZero : V → Bool) (v : V) (m : Mesh) (nv : Nat)
    (h : nv ≤ 1 ∨ isZero v = true) :
    ∃ a, asArray isZero (.leaf (.scalar v)) m nv = .ok a ∧ a.shape = m.n ++ [nv] ∧ ∀ j, a.get j = v := by
  refine ⟨NDA.const (m.n ++ [nv]) v, ?_, rfl, fun _ => rfl⟩
  simp only [asArray, asLeaf]
  have : ¬ (1 < nv ∧ isZero v = false) := by
    rintro ⟨h1, h2⟩
    rcases h with h | h
    · omega
    · simp [h] at h2
  simp [this]

/-- A non-zero scalar for a field with more than one component is rejected (wrong component
count). -/
theorem asArray_scalar_rejected (isZero : V → Bool) (v : V) (m : Mesh) (nv : Nat)
    (h1 : 1 < nv) (h2 : isZero v = false) :
    asArray isZero (.leaf (.scalar v)) m nv = .error .value := by
  simp [asArray, asLeaf, h1, h2]

/-- A vector of `nvdim` numbers is stored in every cell, in an array of shape `(*n, nvdim)`. -/
theorem asArray_vector (isZero : V → Bool) (a : NDA V) (m : Mesh) (nv : Nat)
    (hs : a.shape = [nv]) (hamb : ¬ (nv = 1 ∧ m.n = [1])) :
    ∃ b, asArray isZero (.leaf (.arr a)) m nv = .ok b ∧ b.shape = m.n ++ [nv] ∧
      ∀ i c, i.length = m.n.length → c < nv → b.get (i ++ [c]) = a.get [c] := by
  obtain ⟨b, hb, hshape, hget⟩ := bcast_vec m.n nv a hs
  refine ⟨b, ?_, hshape, hget⟩
  simp only [asArray, asLeaf]
  have h1 : ¬ (nv = 1 ∧ a.shape = m.n) := by
    rintro ⟨h1, h2⟩
    exact hamb ⟨h1, by rw [← h2, hs, h1]⟩
  rw [if_neg h1, hs]
  simp [hb]

/-- A per-cell array of shape `(*n, nvdim)` is stored entry by entry. -/
theorem asArray_array (isZero : V → Bool) (a : NDA V) (m : Mesh) (nv : Nat)
    (hs : a.shape = m.n ++ [nv]) :
    ∃ b, asArray isZero (.leaf (.arr a)) m nv = .ok b ∧ b.shape = m.n ++ [nv] ∧
      ∀ j, inRange (m.n ++ [nv]) j = true → b.get j = a.get j := by
  obtain ⟨b, hb, hshape, hget⟩ := bcast_same (m.n ++ [nv]) a hs
  refine ⟨b, ?_, hshape, hget⟩
  simp only [asArray, asLeaf]
  have h1 : ¬ (nv = 1 ∧ a.shape = m.n) := by
    rintro ⟨_, h2⟩
    have := congrArg List.length (hs.symm.trans h2)
    simp at this
  simp [h1, hs, hb]

/-- For a scalar field an array of shape `n` (no component axis) gives cell `i` the entry `a[i]`. -/
theorem asArray_array_scalar (isZero : V → Bool) (a : NDA V) (m : Mesh) (hs : a.shape = m.n) :
    ∃ b, asArray isZero (.leaf (.arr a)) m 1 = .ok b ∧ b.shape = m.n ++ [1] ∧
      ∀ i, b.get (i ++ [0]) = a.get i := by
  refine ⟨⟨m.n ++ [1], fun j => a.get j.dropLast⟩, ?_, rfl, fun i => by simp⟩
  simp [asArray, asLeaf, hs]

/-- An array whose last axis is not `nvdim` (and which is not the cell-shaped array of a scalar
field) is rejected. -/
theorem asArray_wrong_count_rejected (isZero : V → Bool) (a : NDA V) (m : Mesh) (nv : Nat)
    (h1 : ¬ (nv = 1 ∧ a.shape = m.n)) (h2 : a.shape.getLast? ≠ some nv) :
    asArray isZero (.leaf (.arr a)) m nv = .error .value := by
  simp [asArray, asLeaf, h1, h2]

/-- An array that NumPy cannot broadcast to `(*n, nvdim)` is rejected (wrong shape). -/
theorem asArray_wrong_shape_rejected (isZero : V → Bool) (a : NDA V) (m : Mesh) (nv : Nat)
    (h1 : ¬ (nv = 1 ∧ a.shape = m.n)) (h2 : bcastOk (m.n ++ [nv]) a.shape = false) :
    asArray isZero (.leaf (.arr a)) m nv = .error .value := by
  simp only [asArray, asLeaf, h1, if_false]
  split
  · rfl
  · simp [bcast, h2]

/-- A string, `None`, … is rejected (wrong type). -/
theorem asArray_wrong_type_rejected (isZero : V → Bool) (m : Mesh) (nv : Nat) :
    asArray isZero (.leaf (.bad : Leaf V)) m nv = .error .type := rfl

/-- Refinement of the callable loop: after `for index, point in zip(mesh.indices, mesh)` every
cell `i` holds the function's value at the centre of cell `i`, in an array of shape `(*n, nvdim)`. -/
theorem asArray_func (isZero : V → Bool) (f : List Rat → List V) (m : Mesh) (nv : Nat)
    (hlen : ∀ i, inRange m.n i = true → (f (m.centre i)).length = nv) :
    ∃ b, asArray isZero (.leaf (.func f)) m nv = .ok b ∧ b.shape = m.n ++ [nv] ∧
      ∀ i c, inRange m.n i = true → b.get (i ++ [c]) = (f (m.centre i)).getD c default := by
  have hz : (indicesCode m.n).zip m.iter = (indicesCode m.n).map fun i => (i, m.centre i) := by
    unfold Mesh.iter; exact zip_map_self _ _
  have hpair : ∀ p ∈ (indicesCode m.n).zip m.iter, p.2 = m.centre p.1 := by
    intro p hp
    rw [hz, List.mem_map] at hp
    obtain ⟨i, _, rfl⟩ := hp; rfl
  obtain ⟨b, hb⟩ := funcLoop_ok f nv ((indicesCode m.n).zip m.iter) (NDA.const (m.n ++ [nv]) default) (by
    intro p hp
    rw [hpair p hp]
    apply hlen
    rw [hz, List.mem_map] at hp
    obtain ⟨i, hi, rfl⟩ := hp
    exact (mem_indicesCode _ _).mp hi)
  refine ⟨b, by simpa [asArray, asLeaf] using hb, funcLoop_shape _ _ _ _ _ hb, fun i c hi => ?_⟩
  rw [funcLoop_get f nv m.centre _ hpair _ _ hb i c]
  have : i ∈ ((indicesCode m.n).zip m.iter).map (·.1) := by
    rw [hz, List.map_map]
    simpa using (mem_indicesCode _ _).mpr hi
  simp [this]

/-- A callable that returns the wrong number of components at some cell centre is rejected. -/
theorem asArray_func_rejected (isZero : V → Bool) (f : List Rat → List V) (m : Mesh) (nv : Nat)
    (i : List Nat) (hi : inRange m.n i = true) (hlen : (f (m.centre i)).length ≠ nv) :
    asArray isZero (.leaf (.func f)) m nv = .error .value := by
  simp only [asArray, asLeaf]
  apply funcLoop_err f nv _ _ (i, m.centre i) _ hlen
  unfold Mesh.iter
  rw [zip_map_self, List.mem_map]
  exact ⟨i, (mem_indicesCode _ _).mpr hi, rfl⟩

/-- A source field on another mesh: target cell `i` receives the value of the source cell whose
centre is nearest (per axis, ties to the larger index), that source cell exists and CONTAINS the
centre of cell `i`; the result has shape `(*n, nvdim)`. -/
theorem asArray_field (isZero : V → Bool) (src : VF V) (m : Mesh) (nv : Nat)
    (hm : m.Inv) (hs : src.mesh.Inv) (hnd : src.mesh.ndim = m.ndim)
    (hdims : m.region.dims = src.mesh.region.dims) (hnv : src.nvdim = nv)
    (hin : ∀ a, a < m.ndim → src.mesh.region.lo a ≤ m.region.lo a ∧ m.region.hi a ≤ src.mesh.region.hi a) :
    ∃ b, asArray isZero (.leaf (.field src)) m nv = .ok b ∧ b.shape = m.n ++ [nv] ∧
      ∀ i c, inRange m.n i = true →
        b.get (i ++ [c]) = src.data.get (nearestIdx src.mesh m i ++ [c]) ∧
        ∀ a, a < m.ndim →
          (nearestIdx src.mesh m i).getD a 0 < src.mesh.nAt a ∧
          src.mesh.region.lo a + ((nearestIdx src.mesh m i).getD a 0 : Rat) * src.mesh.cellAt a
            ≤ m.centreAx a (i.getD a 0 : Nat) ∧
          m.centreAx a (i.getD a 0 : Nat)
            ≤ src.mesh.region.lo a + (((nearestIdx src.mesh m i).getD a 0 : Rat) + 1) * src.mesh.cellAt a := by
  have hlen : m.n.length = m.ndim := hm.2.1
  have hlt : ∀ a, a < m.ndim → m.region.lo a < m.region.hi a := fun a ha => inv_lo_lt_hi m hm a ha
  have hpmax : m.region.pmax.length = m.region.pmin.length := hm.1.2.1
  have hc : src.mesh.region.containsReg m.region = true := by
    unfold Region.containsReg
    have h1 : src.mesh.region.containsPt m.region.pmin = true := by
      apply containsPt_exact
      · exact hnd.symm
      · intro a ha
        have ha' : a < m.ndim := by rw [← hnd]; exact ha
        exact ⟨(hin a ha').1, le_trans (hlt a ha').le (hin a ha').2⟩
    have h2 : src.mesh.region.containsPt m.region.pmax = true := by
      apply containsPt_exact
      · rw [hpmax]; exact hnd.symm
      · intro a ha
        have ha' : a < m.ndim := by rw [← hnd]; exact ha
        exact ⟨le_trans (hin a ha').1 (hlt a ha').le, (hin a ha').2⟩
    simp [h1, h2]
  refine ⟨⟨m.n ++ [src.nvdim], fun j => src.data.get (nearestIdx src.mesh m j.dropLast ++ [j.getLastD 0])⟩,
    ?_, by rw [hnv], fun i c hi => ⟨?_, fun a ha => ?_⟩⟩
  · simp [asArray, asLeaf, hc, hdims, hnv]
  · simp [List.getLastD_eq_getLast?]
  · obtain ⟨hil, hib⟩ := (inRange_iff m.n i).mp hi
    have hia : i.getD a 0 < m.nAt a := hib a (by omega)
    have hcen := centreAx_in m a _ hia (hlt a ha)
    have hx : (m.cells.getD a []).getD (i.getD a 0) 0 = m.centreAx a (i.getD a 0 : Nat) :=
      cells_getD m hm a ha _ hia
    have := nearest_contains src.mesh hs a (by rw [hnd]; exact ha) (m.centreAx a (i.getD a 0 : Nat))
      (le_trans (hin a ha).1 hcen.1) (le_trans hcen.2 (hin a ha).2)
    unfold nearestIdx
    rw [getD_tab _ _ _ _ ha, hx]
    exact this

/-- A source field whose region does not contain the target region is rejected. -/
theorem asArray_field_outside (isZero : V → Bool) (src : VF V) (m : Mesh) (nv : Nat)
    (h : src.mesh.region.containsReg m.region = false) :
    asArray isZero (.leaf (.field src)) m nv = .error .value := by
  simp [asArray, asLeaf, h]

/-- The `array` setter converts again what `update_field_values` produced ("re-validates every
assignment"): on an array of the right shape the second conversion is the identity, so the
two-pass constructor path stores exactly what the specification gives. -/
theorem updateValues_eq (isZero : V → Bool) (s : Spec V) (m : Mesh) (nv : Nat) (a : NDA V)
    (h : asArray isZero s m nv = .ok a) (hs : a.shape = m.n ++ [nv]) :
    ∃ b, updateValues isZero s m nv = .ok b ∧ b.shape = m.n ++ [nv] ∧
      ∀ j, inRange (m.n ++ [nv]) j = true → b.get j = a.get j := by
  obtain ⟨b, hb, hshape, hget⟩ := asArray_array isZero a m nv hs
  refine ⟨b, ?_, hshape, hget⟩
  unfold updateValues
  rw [h]
  simpa [asArray] using hb

/-- A source field with another number of components is rejected (wrong component count), by the
conversion itself — hence by the constructor, by `update_field_values` and by the `array` setter. -/
theorem asArray_field_wrong_nvdim_rejected (isZero : V → Bool) (src : VF V) (m : Mesh) (nv : Nat)
    (h1 : src.nvdim ≠ nv) : asArray isZero (.leaf (.field src)) m nv = .error .value := by
  simp only [asArray, asLeaf]
  by_cases hc : src.mesh.region.containsReg m.region = true
  · simp [hc, h1]
  · simp [hc]

/-! ## sampling, components, iteration -/

omit [Inhabited V] in
/-- Sampling is `array[point2index(p)]`: the `nvdim` stored values of the cell whose index
`point2index` returns; a point `point2index` rejects is rejected. -/
theorem call_eq (f : VF V) (p : List Rat) :
    (∀ i, f.mesh.point2index p = .ok i →
      f.call p = .ok (row f.data f.nvdim i) ∧ (row f.data f.nvdim i).length = f.nvdim ∧
      ∀ c d, c < f.nvdim → (row f.data f.nvdim i).getD c d = f.data.get (i ++ [c])) ∧
    (∀ e, f.mesh.point2index p = .error e → f.call p = .error e) := by
  constructor
  · intro i hi
    refine ⟨by simp [VF.call, hi], by simp [row], fun c d hc => ?_⟩
    unfold row; rw [getD_tab _ _ _ _ hc]
  · intro e he; simp [VF.call, he]

omit [Inhabited V] in
/-- Sampling at any point of the region returns the stored value of a cell that contains the
point: lower faces inclusive, upper faces exclusive except for the last cell of an axis. -/
theorem call_cell_contains (f : VF V) (hm : f.mesh.Inv) (p : List Rat) (hp : f.mesh.region.containsExact p) :
    ∃ i, f.call p = .ok (row f.data f.nvdim i) ∧ inRange f.mesh.n i = true ∧
      ∀ a, a < f.mesh.ndim →
        f.mesh.region.lo a + (i.getD a 0 : Rat) * f.mesh.cellAt a ≤ p.getD a 0 ∧
        (p.getD a 0 < f.mesh.region.lo a + ((i.getD a 0 : Rat) + 1) * f.mesh.cellAt a ∨
          (i.getD a 0 = f.mesh.nAt a - 1 ∧ p.getD a 0 = f.mesh.region.hi a)) := by
  obtain ⟨hl, hb⟩ := hp
  have h2i := point2index_exact f.mesh p hl hb
  have hc : ∀ a, a < f.mesh.ndim → _ := fun a ha =>
    indexAx_contains f.mesh a (p.getD a 0) (inv_n_pos _ hm a ha) (inv_lo_lt_hi _ hm a ha) (hb a ha).1 (hb a ha).2
  refine ⟨_, ((call_eq f p).1 _ h2i).1, ?_, fun a ha => ?_⟩
  · rw [inRange_iff]
    refine ⟨by rw [tab_length]; exact hm.2.1.symm, fun a ha => ?_⟩
    have ha' : a < f.mesh.ndim := by have := hm.2.1; unfold Mesh.ndim; omega
    rw [getD_tab _ _ _ _ ha']
    exact (hc a ha').1
  · rw [getD_tab _ _ _ _ ha]
    exact (hc a ha).2

omit [Inhabited V] in
/-- Sampling at the centre of cell `i` returns the values stored for cell `i`. -/
theorem call_centre (f : VF V) (hm : f.mesh.Inv) (i : List Nat) (hi : inRange f.mesh.n i = true) :
    f.call (f.mesh.centre i) = .ok (row f.data f.nvdim i) :=
  ((call_eq f _).1 i (point2index_centre f.mesh hm i hi)).1

omit [Inhabited V] in
/-- A point outside the region (beyond its comparison tolerance) cannot be sampled. -/
theorem call_outside (f : VF V) (p : List Rat) (h : f.mesh.region.containsPt p = false) :
    f.call p = .error .value := by
  apply (call_eq f p).2
  unfold Mesh.point2index
  split
  · rfl
  · simp [h]

/-- Component access returns the matching column: a scalar field on the same mesh whose cell `i`
holds component `k` of cell `i`, `k` being the position of the label in `vdims`. -/
theorem comp_eq (isZero : V → Bool) (f : VF V) (label : String) (g : VF V) (h : f.comp isZero label = .ok g) :
    g.mesh = f.mesh ∧ g.nvdim = 1 ∧ g.data.shape = f.mesh.n ++ [1] ∧
    ∃ vs k, f.vdims = some vs ∧ k < vs.length ∧ vs.getD k "" = label ∧
      ∀ i, inRange f.mesh.n i = true → g.data.get (i ++ [0]) = f.data.get (i ++ [k]) := by
  unfold VF.comp at h
  split at h
  · cases h
  · rename_i vs hvs
    split at h
    · cases h
    · rename_i k hk
      obtain ⟨hk1, hk2⟩ := indexOf?_spec vs label k hk
      obtain ⟨a, ha, has, hag⟩ := asArray_array isZero
        ⟨f.mesh.n ++ [1], fun j => f.data.get (j.dropLast ++ [k])⟩ f.mesh 1 rfl
      obtain ⟨b, hb, hbs, hbg⟩ := updateValues_eq isZero _ f.mesh 1 a ha has
      unfold VF.mk? at h
      rw [hb] at h
      injection h with h; subst h
      refine ⟨rfl, rfl, hbs, vs, k, hvs, hk1, hk2, fun i hi => ?_⟩
      have hj : inRange (f.mesh.n ++ [1]) (i ++ [0]) = true := by rw [inRange_snoc, hi]; simp
      simp only
      rw [hbg _ hj, hag _ hj]
      simp

/-- A label that is not among the component labels (or any label on a field without labels)
is rejected. -/
theorem comp_unknown_rejected (isZero : V → Bool) (f : VF V) (label : String)
    (h : ∀ vs, f.vdims = some vs → indexOf? vs label = none) : f.comp isZero label = .error .value := by
  unfold VF.comp
  split
  · rfl
  · rename_i vs hvs
    rw [h vs hvs]

omit [Inhabited V] in
/-- Iteration yields the cells in mesh order: the `k`-th item is the stored value of the `k`-th
index of `Mesh.indices`. -/
theorem iter_eq (f : VF V) (hm : f.mesh.Inv) :
    f.iter = (indicesCode f.mesh.n).map fun i => .ok (row f.data f.nvdim i) := by
  unfold VF.iter Mesh.iter
  rw [List.map_map]
  apply List.map_congr_left
  intro i hi
  exact call_centre f hm i ((mem_indicesCode _ _).mp hi)

/-! ## lines -/

omit [Inhabited V] in
/-- A line has the requested number of points, `point_j = p1 + j·(p2 − p1)/(n − 1)`. -/
theorem line_points (f : VF V) (p1 p2 : List Rat) (n : Nat) (o : LineOut V) (h : f.line p1 p2 n = .ok o) :
    o.points.length = n ∧ o.values.length = n ∧ o.r2.length = n ∧
    ∀ j a, j < n → a < f.mesh.ndim →
      (o.points.getD j []).getD a 0 = p1.getD a 0 + (j : Rat) * ((p2.getD a 0 - p1.getD a 0) / ((n : Rat) - 1)) := by
  obtain ⟨hml, hv, hr⟩ := line_ok f p1 p2 n o h
  obtain ⟨_, _, _, hpts⟩ := meshLine_ok _ _ _ _ _ hml
  have hl : o.points.length = n := by rw [hpts]; simp
  refine ⟨hl, ?_, by rw [hr]; simp [hl], fun j a hj ha => ?_⟩
  · have := congrArg List.length hv
    simpa [hl] using this.symm
  · rw [hpts, getD_tab _ _ _ _ hj, getD_tab _ _ _ _ ha]

omit [Inhabited V] in
/-- The line runs from `p1` to `p2` inclusive. -/
theorem line_ends (f : VF V) (p1 p2 : List Rat) (n : Nat) (o : LineOut V) (h : f.line p1 p2 n = .ok o) :
    o.points.getD 0 [] = p1 ∧ o.points.getD (n - 1) [] = p2 := by
  obtain ⟨hml, _, _⟩ := line_ok f p1 p2 n o h
  obtain ⟨hc1, hc2, hn, hpts⟩ := meshLine_ok _ _ _ _ _ hml
  have hl1 := containsPt_length _ _ hc1
  have hl2 := containsPt_length _ _ hc2
  have hne : (n : Rat) - 1 ≠ 0 := by
    have : (2 : Rat) ≤ (n : Rat) := by exact_mod_cast hn
    linarith
  constructor
  · rw [hpts, getD_tab _ _ _ _ (by omega)]
    symm
    apply eq_tab_of_getD p1 _ _ 0 hl1
    intro a _; push_cast; ring
  · rw [hpts, getD_tab _ _ _ _ (by omega)]
    symm
    apply eq_tab_of_getD p2 _ _ 0 hl2
    intro a _
    have : ((n - 1 : Nat) : Rat) = (n : Rat) - 1 := by rw [Nat.cast_sub (by omega)]; simp
    rw [this]; field_simp; ring

omit [Inhabited V] in
/-- The points are equidistant: consecutive points differ by the same vector `(p2 − p1)/(n − 1)`. -/
theorem line_equidistant (f : VF V) (p1 p2 : List Rat) (n : Nat) (o : LineOut V) (h : f.line p1 p2 n = .ok o)
    (j a : Nat) (hj : j + 1 < n) (ha : a < f.mesh.ndim) :
    (o.points.getD (j + 1) []).getD a 0 - (o.points.getD j []).getD a 0
      = (p2.getD a 0 - p1.getD a 0) / ((n : Rat) - 1) := by
  obtain ⟨_, _, _, hp⟩ := line_points f p1 p2 n o h
  rw [hp (j + 1) a hj ha, hp j a (by omega) ha]
  push_cast; ring

omit [Inhabited V] in
/-- The distance column: `r_j² = j²·|p2 − p1|²/(n − 1)²`, i.e. `r_j = j·|p2 − p1|/(n − 1)`
(stated on squares; the data frame holds the square roots). -/
theorem line_r2 (f : VF V) (p1 p2 : List Rat) (n : Nat) (o : LineOut V) (h : f.line p1 p2 n = .ok o)
    (j : Nat) (hj : j < n) :
    o.r2.getD j 0 = ((j : Rat) * (j : Rat)) / (((n : Rat) - 1) * ((n : Rat) - 1)) * sqDist p2 p1 := by
  obtain ⟨hml, _, hr⟩ := line_ok f p1 p2 n o h
  obtain ⟨_, hc2, hn, hpts⟩ := meshLine_ok _ _ _ _ _ hml
  have hl : o.points.length = n := by rw [hpts]; simp
  rw [hr]
  have : (o.points.map fun p => sqDist p (o.points.getD 0 [])).getD j 0
      = sqDist (o.points.getD j []) (o.points.getD 0 []) := by
    simp [List.getD_eq_getElem?_getD, hl, hj]
  rw [this, hpts, getD_tab _ _ _ _ hj, getD_tab _ _ _ _ (by omega)]
  exact sqDist_line f.mesh.ndim n j p1 p2 (containsPt_length _ _ hc2) hn

omit [Inhabited V] in
/-- The values along the line are the field sampled at the line's points. -/
theorem line_values (f : VF V) (p1 p2 : List Rat) (n : Nat) (o : LineOut V) (h : f.line p1 p2 n = .ok o)
    (j : Nat) (hj : j < n) : f.call (o.points.getD j []) = .ok (o.values.getD j []) := by
  obtain ⟨hl, hvl, _, _⟩ := line_points f p1 p2 n o h
  obtain ⟨_, hv, _⟩ := line_ok f p1 p2 n o h
  have := congrArg (fun l => l[j]?) hv
  simp only [List.getElem?_map] at this
  rw [List.getElem?_eq_getElem (by omega), List.getElem?_eq_getElem (by omega)] at this
  simp only [Option.map_some, Option.some.injEq] at this
  simp only [List.getD_eq_getElem?_getD, List.getElem?_eq_getElem (show j < o.points.length by omega),
    List.getElem?_eq_getElem (show j < o.values.length by omega), Option.getD_some]
  exact this

omit [Inhabited V] in
/-- A line with an end point outside the region is rejected. -/
theorem line_outside_rejected (f : VF V) (p1 p2 : List Rat) (n : Nat)
    (h : f.mesh.region.containsPt p1 = false ∨ f.mesh.region.containsPt p2 = false) :
    f.line p1 p2 n = .error .value := by
  unfold VF.line meshLine
  rcases h with h | h <;> simp [h]

/-! ## rejected assignments -/

/-- A rejected assignment — through the `array` setter or `update_field_values` — leaves the
field exactly as it was; an accepted one changes only the array. -/
theorem reject_leaves_unchanged (isZero : V → Bool) (f : VF V) :
    (∀ l e, f.setArray isZero l = .error e → f.after (f.setArray isZero l) = f) ∧
    (∀ s e, f.update isZero s = .error e → f.after (f.update isZero s) = f) ∧
    (∀ l g, f.setArray isZero l = .ok g → f.after (f.setArray isZero l) = g ∧
      g.mesh = f.mesh ∧ g.nvdim = f.nvdim ∧ g.vdims = f.vdims) ∧
    (∀ s g, f.update isZero s = .ok g → f.after (f.update isZero s) = g ∧
      g.mesh = f.mesh ∧ g.nvdim = f.nvdim ∧ g.vdims = f.vdims) := by
  refine ⟨fun l e h => by rw [h]; rfl, fun s e h => by rw [h]; rfl, fun l g h => ?_, fun s g h => ?_⟩
  · refine ⟨by rw [h]; rfl, ?_⟩
    unfold VF.setArray at h
    split at h
    · cases h
    · injection h with h; subst h; exact ⟨rfl, rfl, rfl⟩
  · refine ⟨by rw [h]; rfl, ?_⟩
    unfold VF.update at h
    split at h
    · cases h
    · injection h with h; subst h; exact ⟨rfl, rfl, rfl⟩

/-- Every kind of malformed value is rejected by `update_field_values`, so (previous theorem) the
field keeps its state: wrong type, non-zero scalar for several components, wrong last axis. -/
theorem update_malformed_rejected (isZero : V → Bool) (f : VF V) :
    (∃ e, f.update isZero (.leaf .bad) = .error e) ∧
    (∀ v, 1 < f.nvdim → isZero v = false → ∃ e, f.update isZero (.leaf (.scalar v)) = .error e) ∧
    (∀ a : NDA V, ¬ (f.nvdim = 1 ∧ a.shape = f.mesh.n) → a.shape.getLast? ≠ some f.nvdim →
      ∃ e, f.update isZero (.leaf (.arr a)) = .error e) := by
  refine ⟨⟨.type, by simp [VF.update, updateValues, asArray, asLeaf]⟩, fun v h1 h2 => ⟨.value, ?_⟩,
    fun a h1 h2 => ⟨.value, ?_⟩⟩
  · simp [VF.update, updateValues, asArray_scalar_rejected isZero v f.mesh f.nvdim h1 h2]
  · simp [VF.update, updateValues, asArray_wrong_count_rejected isZero a f.mesh f.nvdim h1 h2]

/-- The `array` setter rejects a source field with another number of components and keeps the
field as it was (formerly finding D44: the setter accepted it). -/
theorem setArray_field_wrong_nvdim_rejected (isZero : V → Bool) (f : VF V) (src : VF V) (h : src.nvdim ≠ f.nvdim) :
    f.setArray isZero (.field src) = .error .value ∧ f.after (f.setArray isZero (.field src)) = f := by
  have e : f.setArray isZero (.field src) = .error .value := by
    have := asArray_field_wrong_nvdim_rejected isZero src f.mesh f.nvdim h
    simp only [asArray] at this
    simp [VF.setArray, this]
  exact ⟨e, by rw [e]; rfl⟩

/-! ## dictionaries over subregions -/

/-- `Mesh.region2slices` of a subregion that is a union of cells is exactly its index box, and a
cell lies in that box iff the subregion contains the cell's centre. -/
theorem region2slices_cells (m : Mesh) (hm : m.Inv) (r : Region) (k1 k2 : Nat → Nat) (h : AlignedSub m r k1 k2) :
    region2slices m r = .ok (tab m.ndim k1, tab m.ndim k2) ∧
    ∀ i, inRange m.n i = true →
      (inBox (tab m.ndim k1) (tab m.ndim k2) i = true ↔
        ∀ a, a < m.ndim → r.lo a ≤ m.centreAx a (i.getD a 0 : Nat) ∧ m.centreAx a (i.getD a 0 : Nat) ≤ r.hi a) := by
  refine ⟨region2slices_spec m hm r k1 k2 h, fun i hi => ?_⟩
  have := inBox_iff_centre m hm r k1 k2 h i hi []
  simpa using this

/-- CENTREPIECE — refinement of the dictionary overload.  The code fills an array with the
default (or the NaN sentinel), walks `reversed(mesh.subregions)` assigning each listed
subregion's converted value to its slices, and finally calls a callable default on the cells
still holding the sentinel.  Entry `(i, c)` of the result is: what the FIRST LISTED subregion
that writes the entry writes there (`patchVal`), and otherwise the default's value for the cell. -/
theorem asArray_dict (isZero : V → Bool) (items : List (String × Leaf V)) (dflt : Option (Dflt V))
    (m : Mesh) (nv : Nat) (a : NDA V) (hlen : m.n.length = m.ndim)
    (h : asArray isZero (.dict items dflt) m nv = .ok a)
    (i : List Nat) (hi : inRange m.n i = true) (c : Nat) (hc : c < nv) :
    a.get (i ++ [c]) =
      match m.subs.findSome? (fun p => patchVal isZero items m nv p (i ++ [c])) with
      | some v => v
      | none => dfltVal dflt m nv i c :=
  asArray_dict_main isZero items dflt m nv a hlen h i hi c hc

/-- The same on a mesh whose subregions are unions of cells (which `Mesh` guarantees, C14): the
value of cell `i` comes from the first listed subregion that is a key of the dictionary and
contains the cell (`hits`; by `region2slices_cells`: contains its centre) — namely that key's
specification converted on the subregion's own mesh, read at the cell's index there — and
otherwise from the default. -/
theorem asArray_dict_first_listed (isZero : V → Bool) (items : List (String × Leaf V)) (dflt : Option (Dflt V))
    (m : Mesh) (hm : m.Inv) (nv : Nat) (a : NDA V) (k1 k2 : String × Region → Nat → Nat)
    (hal : ∀ p ∈ m.subs, AlignedSub m p.2 (k1 p) (k2 p))
    (h : asArray isZero (.dict items dflt) m nv = .ok a)
    (i : List Nat) (hi : inRange m.n i = true) (c : Nat) (hc : c < nv) :
    a.get (i ++ [c]) =
      match m.subs.find? (hits items m k1 k2 i) with
      | some p => cellOf isZero items m nv k1 k2 i c p
      | none => dfltVal dflt m nv i c := by
  have hlen : m.n.length = m.ndim := hm.2.1
  have hil : i.length = m.ndim := by rw [← hlen]; exact inRange_length _ _ hi
  rw [asArray_dict isZero items dflt m nv a hlen h i hi c hc,
    findSome_patch isZero items m hm nv k1 k2 i hil c hc m.subs hal]
  · cases m.subs.find? (hits items m k1 k2 i) <;> rfl
  · intro p hp lf hl
    obtain ⟨sub, hsub⟩ := listed_leaf_ok isZero items dflt m hm nv a h k1 k2 p hp (hal p hp) lf hl
    exact ⟨sub, hsub, asLeaf_shape isZero lf _ nv sub hsub⟩

/-- What a listed subregion assigns to a cell it contains: a constant gives the constant, … -/
theorem dict_cell_const (isZero : V → Bool) (items : List (String × Leaf V)) (m : Mesh) (nv : Nat)
    (k1 k2 : String × Region → Nat → Nat) (i : List Nat) (c : Nat) (p : String × Region) (v : V)
    (hl : lookupLeaf items p.1 = some (.scalar v)) (hv : nv ≤ 1 ∨ isZero v = true) :
    cellOf isZero items m nv k1 k2 i c p = v := by
  obtain ⟨a, ha, _, hg⟩ := asArray_const isZero v (subMeshOf m p.2 (k1 p) (k2 p)) nv hv
  simp only [asArray] at ha
  simp [cellOf, hl, leafVal, ha, hg]

/-- … a callable gives its value at the centre of the MESH cell (the submesh's cell centres are
the mesh's), … -/
theorem dict_cell_func (isZero : V → Bool) (items : List (String × Leaf V)) (m : Mesh) (hm : m.Inv) (nv : Nat)
    (k1 k2 : String × Region → Nat → Nat) (i : List Nat) (hi : inRange m.n i = true) (c : Nat)
    (p : String × Region) (f : List Rat → List V)
    (hal : AlignedSub m p.2 (k1 p) (k2 p)) (hit : hits items m k1 k2 i p = true)
    (hl : lookupLeaf items p.1 = some (.func f))
    (hlen : ∀ il, inRange (subMeshOf m p.2 (k1 p) (k2 p)).n il = true →
      (f ((subMeshOf m p.2 (k1 p) (k2 p)).centre il)).length = nv) :
    cellOf isZero items m nv k1 k2 i c p = (f (m.centre i)).getD c default := by
  have hil : i.length = m.ndim := (inRange_length _ _ hi).trans hm.2.1
  have hb : inBox (tab m.ndim (k1 p)) (tab m.ndim (k2 p)) (i ++ []) = true := by
    simp only [hits, Bool.and_eq_true] at hit; simpa using hit.2
  obtain ⟨b, hb1, _, hg⟩ := asArray_func isZero f (subMeshOf m p.2 (k1 p) (k2 p)) nv hlen
  simp only [asArray] at hb1
  have hr := subIdx_inRange m (k1 p) (k2 p) i hil [] hb
  simp only [cellOf, hl, leafVal, hb1]
  rw [hg _ c hr, subMesh_centre m hm p.2 (k1 p) (k2 p) hal i hil [] hb]

/-- … a per-cell array of the subregion's shape gives its entry at the cell's index within the
subregion. -/
theorem dict_cell_array (isZero : V → Bool) (items : List (String × Leaf V)) (m : Mesh) (hm : m.Inv) (nv : Nat)
    (k1 k2 : String × Region → Nat → Nat) (i : List Nat) (hi : inRange m.n i = true) (c : Nat) (hc : c < nv)
    (p : String × Region) (arr : NDA V) (hit : hits items m k1 k2 i p = true)
    (hl : lookupLeaf items p.1 = some (.arr arr))
    (hs : arr.shape = (subMeshOf m p.2 (k1 p) (k2 p)).n ++ [nv]) :
    cellOf isZero items m nv k1 k2 i c p = arr.get (subIdx m (k1 p) i ++ [c]) := by
  have hil : i.length = m.ndim := (inRange_length _ _ hi).trans hm.2.1
  have hb : inBox (tab m.ndim (k1 p)) (tab m.ndim (k2 p)) (i ++ []) = true := by
    simp only [hits, Bool.and_eq_true] at hit; simpa using hit.2
  obtain ⟨b, hb1, _, hg⟩ := asArray_array isZero arr (subMeshOf m p.2 (k1 p) (k2 p)) nv hs
  simp only [asArray] at hb1
  have hr := subIdx_inRange m (k1 p) (k2 p) i hil [] hb
  simp only [cellOf, hl, leafVal, hb1]
  apply hg
  show inRange ((tab m.ndim fun a => k2 p a - k1 p a) ++ [nv]) (subIdx m (k1 p) i ++ [c]) = true
  rw [inRange_snoc, hr]; simp [hc]

/-- No `default` and some cell that no listed subregion covers: rejected. -/
theorem asArray_dict_missing_default (isZero : V → Bool) (items : List (String × Leaf V)) (m : Mesh) (nv : Nat)
    (i : List Nat) (hi : inRange m.n i = true) (c : Nat) (hc : c < nv)
    (hun : (m.subs.findSome? fun p => patchVal isZero items m nv p (i ++ [c])) = none) :
    ∃ e, asArray isZero (.dict items none) m nv = .error e :=
  asArray_dict_nodefault isZero items m nv i hi c hc hun

/-- Well-formed dictionaries are accepted: subregions that are unions of cells, every listed
value convertible on its submesh, a default NumPy can broadcast — the conversion succeeds with
an array of shape `(*n, nvdim)` (so the hypotheses of the theorems above are satisfiable on
meshes with overlapping subregions). -/
theorem asArray_dict_accepts (isZero : V → Bool) (items : List (String × Leaf V)) (d : NDA V)
    (m : Mesh) (hm : m.Inv) (nv : Nat) (k1 k2 : String × Region → Nat → Nat)
    (hal : ∀ p ∈ m.subs, AlignedSub m p.2 (k1 p) (k2 p))
    (hok : ∀ p ∈ m.subs, ∀ lf, lookupLeaf items p.1 = some lf →
      ∃ sub, asLeaf isZero lf (subMeshOf m p.2 (k1 p) (k2 p)) nv = .ok sub ∧
        sub.shape = (subMeshOf m p.2 (k1 p) (k2 p)).n ++ [nv])
    (hd : bcastOk (m.n ++ [nv]) d.shape = true) :
    ∃ a, asArray isZero (.dict items (some (.val d))) m nv = .ok a ∧ a.shape = m.n ++ [nv] := by
  have hfill : fillOf (some (.val d)) m nv =
      .ok (NDA.map some ⟨m.n ++ [nv], fun j => d.get (bcastIdx (m.n ++ [nv]) d.shape j)⟩) := by
    simp [fillOf, bcast, hd]
  obtain ⟨a1, ha1, hs1⟩ := dictLoop_ok isZero items m hm nv k1 k2 m.subs.reverse
    (fun p hp => hal p (by simpa using hp)) (fun p hp => hok p (by simpa using hp))
    (NDA.map some ⟨m.n ++ [nv], fun j => d.get (bcastIdx (m.n ++ [nv]) d.shape j)⟩)
  have hany : anyNone a1 = false := anyNone_of_all_some a1 fun j => hs1 j rfl
  refine ⟨unwrap a1, by simp [asArray, hfill, ha1, hany], ?_⟩
  exact (dictLoop_get isZero items m nv _ _ a1 ha1).1

/-- The default is applied for EVERY value type (formerly finding D41: int and bool fields lost
the NaN sentinel): a cell that no listed subregion writes receives the callable default's value
at the cell centre, … -/
theorem dict_default_callable (isZero : V → Bool) (items : List (String × Leaf V)) (f : List Rat → List V)
    (m : Mesh) (nv : Nat) (a : NDA V) (hlen : m.n.length = m.ndim)
    (h : asArray isZero (.dict items (some (.func f))) m nv = .ok a)
    (i : List Nat) (hi : inRange m.n i = true) (c : Nat) (hc : c < nv)
    (hun : (m.subs.findSome? fun p => patchVal isZero items m nv p (i ++ [c])) = none) :
    a.get (i ++ [c]) = (f (m.centre i)).getD c default := by
  rw [asArray_dict isZero items _ m nv a hlen h i hi c hc, hun]; rfl

/-- … a constant default's value, … -/
theorem dict_default_const (isZero : V → Bool) (items : List (String × Leaf V)) (d : NDA V)
    (m : Mesh) (nv : Nat) (a : NDA V) (hlen : m.n.length = m.ndim)
    (h : asArray isZero (.dict items (some (.val d))) m nv = .ok a)
    (i : List Nat) (hi : inRange m.n i = true) (c : Nat) (hc : c < nv)
    (hun : (m.subs.findSome? fun p => patchVal isZero items m nv p (i ++ [c])) = none) :
    a.get (i ++ [c]) = d.get (bcastIdx (m.n ++ [nv]) d.shape (i ++ [c])) := by
  rw [asArray_dict isZero items _ m nv a hlen h i hi c hc, hun]; rfl

/-- … and a field default's sample at the cell centre, which (with `call_cell_contains`) is the
value of a source cell containing that centre. -/
theorem dict_default_field (isZero : V → Bool) (items : List (String × Leaf V)) (src : VF V)
    (m : Mesh) (nv : Nat) (a : NDA V) (hlen : m.n.length = m.ndim)
    (h : asArray isZero (.dict items (some (.field src))) m nv = .ok a)
    (i : List Nat) (hi : inRange m.n i = true) (c : Nat) (hc : c < nv)
    (hun : (m.subs.findSome? fun p => patchVal isZero items m nv p (i ++ [c])) = none)
    (vs : List V) (hvs : src.call (m.centre i) = .ok vs) :
    a.get (i ++ [c]) = vs.getD c default := by
  rw [asArray_dict isZero items _ m nv a hlen h i hi c hc, hun]
  simp [dfltVal, hvs]

/-! ## acceptance (the hypotheses `… = .ok _` above are satisfiable) -/

omit [Inhabited V] in
/-- Two points of the region and `n ≥ 2` give a line on every mesh, one-dimensional ones included
(formerly finding D43): all its points lie in the region, so all can be sampled. -/
theorem line_accepts (f : VF V) (p1 p2 : List Rat) (n : Nat) (hn : 2 ≤ n)
    (h1 : f.mesh.region.containsExact p1) (h2 : f.mesh.region.containsExact p2) :
    ∃ o, f.line p1 p2 n = .ok o := by
  have c1 := containsPt_exact _ p1 h1.1 h1.2
  have c2 := containsPt_exact _ p2 h2.1 h2.2
  have hml : meshLine f.mesh p1 p2 n = .ok (tab n fun i => tab f.mesh.ndim fun a =>
      p1.getD a 0 + (i : Rat) * ((p2.getD a 0 - p1.getD a 0) / ((n : Rat) - 1))) := by
    unfold meshLine
    have : ¬ n < 2 := by omega
    simp [c1, c2, this]
  obtain ⟨vals, hvals⟩ := seqM_map_ok (tab n fun i => tab f.mesh.ndim fun a =>
      p1.getD a 0 + (i : Rat) * ((p2.getD a 0 - p1.getD a 0) / ((n : Rat) - 1))) f.call (by
    intro pt hpt
    obtain ⟨j, hj, rfl⟩ := (mem_tab _ _ _).mp hpt
    refine ⟨_, ((call_eq f _).1 _ (point2index_exact f.mesh _ (by simp) fun a ha => ?_)).1⟩
    rw [getD_tab _ _ _ _ ha]
    exact segment_in _ _ _ _ j n hn hj (h1.2 a ha) (h2.2 a ha))
  unfold VF.line
  rw [hml]
  simp only [hvals]
  exact ⟨_, rfl⟩

/-- A label of the field is accepted by component access. -/
theorem comp_accepts (isZero : V → Bool) (f : VF V) (label : String) (vs : List String) (k : Nat)
    (hv : f.vdims = some vs) (hk : indexOf? vs label = some k) : ∃ g, f.comp isZero label = .ok g := by
  obtain ⟨a, ha, has, _⟩ := asArray_array isZero
    ⟨f.mesh.n ++ [1], fun j => f.data.get (j.dropLast ++ [k])⟩ f.mesh 1 rfl
  obtain ⟨b, hb, _, _⟩ := updateValues_eq isZero _ f.mesh 1 a ha has
  exact ⟨⟨f.mesh, 1, b, none⟩, by simp [VF.comp, hv, hk, VF.mk?, hb]⟩

/-! ## every specification: shape, and what `update_field_values` / the constructor store -/

/-- Whatever the kind of specification (constant, array, callable, dictionary, field): an accepted
conversion yields an array of shape `(*n, nvdim)`. -/
theorem asArray_shape (isZero : V → Bool) (s : Spec V) (m : Mesh) (nv : Nat) (a : NDA V)
    (h : asArray isZero s m nv = .ok a) : a.shape = m.n ++ [nv] :=
  asArray_shape_any isZero s m nv a h

/-- `update_field_values` on an existing field, for EVERY specification (no shape hypothesis, cf.
`updateValues_eq`): it is accepted exactly when the conversion is; then the field holds the
conversion's result in every entry (the setter's second conversion changes nothing) and mesh,
`nvdim` and labels are kept; when the conversion is rejected the field keeps its state. -/
theorem update_stores_spec (isZero : V → Bool) (f : VF V) (s : Spec V) :
    (∀ a, asArray isZero s f.mesh f.nvdim = .ok a →
      ∃ g, f.update isZero s = .ok g ∧ f.after (f.update isZero s) = g ∧
        g.mesh = f.mesh ∧ g.nvdim = f.nvdim ∧ g.vdims = f.vdims ∧
        g.data.shape = f.mesh.n ++ [f.nvdim] ∧
        ∀ j, inRange (f.mesh.n ++ [f.nvdim]) j = true → g.data.get j = a.get j) ∧
    (∀ e, asArray isZero s f.mesh f.nvdim = .error e →
      f.update isZero s = .error e ∧ f.after (f.update isZero s) = f) := by
  constructor
  · intro a ha
    obtain ⟨b, hb, hs, hg⟩ := updateValues_of_ok isZero s f.mesh f.nvdim a ha
    have e : f.update isZero s = .ok { f with data := b } := by simp [VF.update, hb]
    exact ⟨_, e, by rw [e]; rfl, rfl, rfl, rfl, hs, hg⟩
  · intro e he
    have e' : f.update isZero s = .error e := by
      simp [VF.update, updateValues_of_err isZero s f.mesh f.nvdim e he]
    exact ⟨e', by rw [e']; rfl⟩

/-- The `array` setter with an array of the field's own shape `(*n, nvdim)` stores it entry by
entry (in particular `f.array = f.array` changes nothing). -/
theorem setArray_array_stores (isZero : V → Bool) (f : VF V) (a : NDA V) (hs : a.shape = f.mesh.n ++ [f.nvdim]) :
    ∃ g, f.setArray isZero (.arr a) = .ok g ∧ g.mesh = f.mesh ∧ g.nvdim = f.nvdim ∧ g.vdims = f.vdims ∧
      g.data.shape = f.mesh.n ++ [f.nvdim] ∧
      ∀ j, inRange (f.mesh.n ++ [f.nvdim]) j = true → g.data.get j = a.get j := by
  obtain ⟨b, hb, hshape, hget⟩ := asArray_array isZero a f.mesh f.nvdim hs
  simp only [asArray] at hb
  exact ⟨{ f with data := b }, by simp [VF.setArray, hb], rfl, rfl, rfl, hshape, hget⟩

/-! ## source fields: initialisation = sampling the source at the target's cell centres -/

/-- A source field on ANY mesh whose region contains the target's (other origin, other resolution,
coarser or finer): for every target cell `i` the stored row is exactly what sampling the source
at the centre of cell `i` returns, `src(mesh.index2point(i))` — the xarray nearest-centre
selection (ties to the larger index) and `point2index` of the source pick the same source cell. -/
theorem asArray_field_samples_source (isZero : V → Bool) (src : VF V) (m : Mesh) (nv : Nat)
    (hm : m.Inv) (hs : src.mesh.Inv) (hnd : src.mesh.ndim = m.ndim)
    (hdims : m.region.dims = src.mesh.region.dims) (hnv : src.nvdim = nv)
    (hin : ∀ a, a < m.ndim → src.mesh.region.lo a ≤ m.region.lo a ∧ m.region.hi a ≤ src.mesh.region.hi a) :
    ∃ b, asArray isZero (.leaf (.field src)) m nv = .ok b ∧ b.shape = m.n ++ [nv] ∧
      ∀ i, inRange m.n i = true → src.call (m.centre i) = .ok (row b nv i) := by
  obtain ⟨b, hb, hshape, hget⟩ := asArray_field isZero src m nv hm hs hnd hdims hnv hin
  refine ⟨b, hb, hshape, fun i hi => ?_⟩
  have hp := nearestIdx_eq_point2index src.mesh m hm hs hnd hin i hi
  rw [((call_eq src (m.centre i)).1 _ hp).1, hnv]
  congr 1
  unfold row
  apply tab_congr
  intro c _
  exact ((hget i c hi).1).symm

/-- A source field on the same mesh is copied cell by cell. -/
theorem asArray_field_same_mesh (isZero : V → Bool) (src : VF V) (hs : src.mesh.Inv) :
    ∃ b, asArray isZero (.leaf (.field src)) src.mesh src.nvdim = .ok b ∧
      b.shape = src.mesh.n ++ [src.nvdim] ∧
      ∀ i c, inRange src.mesh.n i = true → c < src.nvdim → b.get (i ++ [c]) = src.data.get (i ++ [c]) := by
  obtain ⟨b, hb, hshape, hget⟩ := asArray_field_samples_source isZero src src.mesh src.nvdim hs hs rfl rfl rfl
    (fun a _ => ⟨le_refl _, le_refl _⟩)
  refine ⟨b, hb, hshape, fun i c hi hc => ?_⟩
  have h1 := hget i hi
  rw [call_centre src hs i hi] at h1
  injection h1 with h1
  have := congrArg (fun l => l.getD c default) h1
  simp only [row] at this
  rw [getD_tab _ _ _ _ hc, getD_tab _ _ _ _ hc] at this
  exact this.symm

/-- Round trip: `field.update_field_values(field)` (a field as its own source) is accepted and
changes no entry. -/
theorem update_with_self (isZero : V → Bool) (f : VF V) (hm : f.mesh.Inv) :
    ∃ g, f.update isZero (.leaf (.field f)) = .ok g ∧ g.data.shape = f.mesh.n ++ [f.nvdim] ∧
      ∀ i c, inRange f.mesh.n i = true → c < f.nvdim → g.data.get (i ++ [c]) = f.data.get (i ++ [c]) := by
  obtain ⟨b, hb, _, hbg⟩ := asArray_field_same_mesh isZero f hm
  obtain ⟨g, hg, _, _, _, _, hs, hgg⟩ := (update_stores_spec isZero f (.leaf (.field f))).1 b hb
  refine ⟨g, hg, hs, fun i c hi hc => ?_⟩
  rw [hgg _ (by rw [inRange_snoc, hi]; simp [hc]), hbg i c hi hc]

/-! ## iteration order -/

omit [Inhabited V] in
/-- Iteration yields the cells with the FIRST index running fastest: there are `∏ n` items, item `k`
is the stored row of the cell with mixed-radix digits `k = i₀ + n₀·(i₁ + n₁·(…))`, and cell `i` is
item number `flatF n i`. -/
theorem iter_first_index_fastest (f : VF V) (hm : f.mesh.Inv) :
    f.iter.length = natProd f.mesh.n ∧
    (∀ k, k < natProd f.mesh.n →
      f.iter.getD k (.error .index) = .ok (row f.data f.nvdim (unflatF f.mesh.n k))) ∧
    (∀ i, inRange f.mesh.n i = true →
      f.iter.getD (flatF f.mesh.n i) (.error .index) = .ok (row f.data f.nvdim i)) := by
  have e := iter_eq f hm
  rw [indicesCode_eq_indicesF] at e
  have hk : ∀ k, k < natProd f.mesh.n →
      f.iter.getD k (.error .index) = .ok (row f.data f.nvdim (unflatF f.mesh.n k)) := by
    intro k hk
    rw [e]
    simp [indicesF, List.getD_eq_getElem?_getD, hk]
  refine ⟨by rw [e]; simp [indicesF], hk, fun i hi => ?_⟩
  rw [hk _ (flatF_lt _ _ hi), unflatF_flatF _ _ hi]

/-! ## component labels -/

/-- Component access by label, for every component count and every duplicate-free label list (the
only ones the `vdims` setter lets through, `new_labels`): the `k`-th label returns the `k`-th
column, as a scalar field on the same mesh. -/
theorem comp_kth (isZero : V → Bool) (f : VF V) (vs : List String) (k : Nat)
    (hv : f.vdims = some vs) (hnd : hasDup vs = false) (hk : k < vs.length) :
    ∃ g, f.comp isZero (vs.getD k "") = .ok g ∧ g.mesh = f.mesh ∧ g.nvdim = 1 ∧
      g.data.shape = f.mesh.n ++ [1] ∧
      ∀ i, inRange f.mesh.n i = true → g.data.get (i ++ [0]) = f.data.get (i ++ [k]) := by
  have hidx := indexOf?_nodup vs k hk hnd
  obtain ⟨g, hg⟩ := comp_accepts isZero f _ vs k hv hidx
  obtain ⟨h1, h2, h3, vs', k', hv', _, _, h4⟩ := comp_eq isZero f _ g hg
  refine ⟨g, hg, h1, h2, h3, ?_⟩
  -- the column `comp_eq` speaks about is column `k`: replay the definition
  unfold VF.comp at hg
  rw [hv] at hg
  simp only [hidx] at hg
  obtain ⟨a, ha, has, hag⟩ := asArray_array isZero
    ⟨f.mesh.n ++ [1], fun j => f.data.get (j.dropLast ++ [k])⟩ f.mesh 1 rfl
  obtain ⟨b, hb, hbs, hbg⟩ := updateValues_eq isZero _ f.mesh 1 a ha has
  unfold VF.mk? at hg
  rw [hb] at hg
  injection hg with hg; subst hg
  intro i hi
  have hj : inRange (f.mesh.n ++ [1]) (i ++ [0]) = true := by rw [inRange_snoc, hi]; simp
  simp only
  rw [hbg _ hj, hag _ hj]
  simp

/-- The constructor `Field(mesh, nvdim, value, vdims)`: `nvdim < 1` is rejected; otherwise it is
accepted exactly when the value conversion and the label check are; the new field then lives on
the given mesh with the given `nvdim`, holds the conversion's result in every entry of an array
of shape `(*n, nvdim)`, and its labels are what the `vdims` setter returns. -/
theorem new_stores_spec (isZero : V → Bool) (reserved : List String) (m : Mesh) (nv : Nat) (s : Spec V)
    (vdims : Option (List String)) :
    (nv < 1 → VF.new? isZero reserved m nv s vdims = .error .value) ∧
    (∀ a vd, 1 ≤ nv → asArray isZero s m nv = .ok a → vdimsSet reserved nv vdims = .ok vd →
      ∃ g, VF.new? isZero reserved m nv s vdims = .ok g ∧ g.mesh = m ∧ g.nvdim = nv ∧ g.vdims = vd ∧
        g.data.shape = m.n ++ [nv] ∧ ∀ j, inRange (m.n ++ [nv]) j = true → g.data.get j = a.get j) ∧
    (∀ e, 1 ≤ nv → asArray isZero s m nv = .error e → VF.new? isZero reserved m nv s vdims = .error e) ∧
    (∀ a e, 1 ≤ nv → asArray isZero s m nv = .ok a → vdimsSet reserved nv vdims = .error e →
      VF.new? isZero reserved m nv s vdims = .error e) := by
  refine ⟨fun h => by simp [VF.new?, h], fun a vd h1 ha hvd => ?_, fun e h1 he => ?_, fun a e h1 ha he => ?_⟩
  · obtain ⟨b, hb, hs, hg⟩ := updateValues_of_ok isZero s m nv a ha
    have : ¬ nv < 1 := by omega
    exact ⟨⟨m, nv, b, vd⟩, by simp [VF.new?, this, hb, hvd], rfl, rfl, rfl, hs, hg⟩
  · have : ¬ nv < 1 := by omega
    simp [VF.new?, this, updateValues_of_err isZero s m nv e he]
  · obtain ⟨b, hb, _, _⟩ := updateValues_of_ok isZero s m nv a ha
    have : ¬ nv < 1 := by omega
    simp [VF.new?, this, hb, he]

/-- Labels of a new field: none given → `x, y(, z)` for 2 or 3 components, `v0, v1, …` for more,
none for a scalar field; an empty list removes the labels; a given list must have `nvdim`
pairwise different entries, none of them the name of an attribute — everything else is rejected. -/
theorem new_labels (reserved : List String) (nv : Nat) :
    vdimsSet reserved nv none = .ok (defaultLabels nv) ∧
    vdimsSet reserved nv (some []) = .ok none ∧
    (∀ vs r, vdimsSet reserved nv (some vs) = .ok r → vs ≠ [] →
      r = some vs ∧ vs.length = nv ∧ hasDup vs = false ∧ ∀ c ∈ vs, c ∉ reserved) ∧
    (∀ vs, vs ≠ [] → vs.length = nv → hasDup vs = false → (∀ c ∈ vs, c ∉ reserved) →
      vdimsSet reserved nv (some vs) = .ok (some vs)) ∧
    (∀ vs, vs ≠ [] → (vs.length ≠ nv ∨ hasDup vs = true) → vdimsSet reserved nv (some vs) = .error .value) := by
  refine ⟨rfl, rfl, fun vs r h hne => ?_, fun vs hne hl hd hr => ?_, fun vs hne h => ?_⟩
  · rcases vdimsSet_ok reserved nv _ r h with ⟨h1, _⟩ | ⟨h1, _⟩ | ⟨vs', h1, h2, h3, _, h5, h6⟩
    · cases h1
    · injection h1 with h1; exact absurd h1 hne
    · injection h1 with h1; subst h1; exact ⟨h2, h3, h5, h6⟩
  · have h0 : ¬ vs.length = 0 := fun e => hne (List.eq_nil_of_length_eq_zero e)
    have h3 : (vs.any fun c => reserved.contains c) = false := by
      rw [List.any_eq_false]
      intro c hc
      simpa using hr c hc
    subst hl
    simp only [vdimsSet, h0, hd, h3, if_false, ne_eq, not_true_eq_false, Bool.false_eq_true]
  · have h0 : ¬ vs.length = 0 := fun e => hne (List.eq_nil_of_length_eq_zero e)
    rcases h with h | h
    · simp [vdimsSet, h0, h]
    · by_cases hl : vs.length = nv
      · subst hl; simp [vdimsSet, h0, h]
      · simp [vdimsSet, h0, hl]

/-- A vector field created without labels: `.x`, `.y` (and `.z`) are columns 0, 1 (and 2). -/
theorem new_default_labels_comp (isZero : V → Bool) (reserved : List String) (m : Mesh) (nv : Nat) (s : Spec V)
    (g : VF V) (hnv : nv = 2 ∨ nv = 3) (h : VF.new? isZero reserved m nv s none = .ok g) (k : Nat) (hk : k < nv) :
    ∃ c, g.comp isZero (["x", "y", "z"].getD k "") = .ok c ∧ c.nvdim = 1 ∧ c.mesh = m ∧
      ∀ i, inRange m.n i = true → c.data.get (i ++ [0]) = g.data.get (i ++ [k]) := by
  have hg : g.mesh = m ∧ g.vdims = defaultLabels nv := by
    unfold VF.new? at h
    split at h
    · cases h
    · split at h
      · cases h
      · simp only [vdimsSet] at h
        injection h with h; subst h; exact ⟨rfl, rfl⟩
  obtain ⟨hgm, hgv⟩ := hg
  rcases hnv with rfl | rfl
  · rw [(defaultLabels_spec 2).1 rfl] at hgv
    obtain ⟨c, hc, h1, h2, _, h4⟩ := comp_kth isZero g ["x", "y"] k hgv (by decide) hk
    refine ⟨c, ?_, h2, h1.trans hgm, fun i hi => h4 i (by rw [hgm]; exact hi)⟩
    have : (["x", "y"] : List String).getD k "" = ["x", "y", "z"].getD k "" := by
      have : k = 0 ∨ k = 1 := by omega
      rcases this with rfl | rfl <;> rfl
    rw [← this]; exact hc
  · rw [(defaultLabels_spec 3).2.1 rfl] at hgv
    obtain ⟨c, hc, h1, h2, _, h4⟩ := comp_kth isZero g ["x", "y", "z"] k hgv (by decide) hk
    exact ⟨c, hc, h2, h1.trans hgm, fun i hi => h4 i (by rw [hgm]; exact hi)⟩

/-! ## end to end: construct, then sample -/

/-- A field constructed from a function of position, sampled at ANY point of the region, returns
the function's value at the centre of a cell that contains the point. -/
theorem construct_func_call (isZero : V → Bool) (reserved : List String) (m : Mesh) (hm : m.Inv) (nv : Nat)
    (fn : List Rat → List V) (vdims : Option (List String)) (g : VF V)
    (hlen : ∀ i, inRange m.n i = true → (fn (m.centre i)).length = nv)
    (h : VF.new? isZero reserved m nv (.leaf (.func fn)) vdims = .ok g)
    (p : List Rat) (hp : m.region.containsExact p) :
    ∃ i, inRange m.n i = true ∧ g.call p = .ok (fn (m.centre i)) ∧
      ∀ a, a < m.ndim →
        m.region.lo a + (i.getD a 0 : Rat) * m.cellAt a ≤ p.getD a 0 ∧
        (p.getD a 0 < m.region.lo a + ((i.getD a 0 : Rat) + 1) * m.cellAt a ∨
          (i.getD a 0 = m.nAt a - 1 ∧ p.getD a 0 = m.region.hi a)) := by
  obtain ⟨a, ha, _, hag⟩ := asArray_func isZero fn m nv hlen
  have hnv : 1 ≤ nv := by
    by_contra hc
    have : nv < 1 := by omega
    simp [VF.new?, this] at h
  -- unfold the constructor
  obtain ⟨b, hb, hbs, hbg⟩ := updateValues_of_ok isZero _ m nv a ha
  have hgd : g.mesh = m ∧ g.nvdim = nv ∧ g.data = b := by
    unfold VF.new? at h
    have : ¬ nv < 1 := by omega
    simp only [this, if_false, hb] at h
    split at h
    · cases h
    · injection h with h; subst h; exact ⟨rfl, rfl, rfl⟩
  obtain ⟨hgm, hgn, hgdat⟩ := hgd
  obtain ⟨i, hcall, hir, hbox⟩ := call_cell_contains g (by rw [hgm]; exact hm) p (by rw [hgm]; exact hp)
  rw [hgm] at hir hbox
  refine ⟨i, hir, ?_, hbox⟩
  rw [hcall, hgn, hgdat]
  congr 1
  apply List.ext_getElem
  · simp [row, hlen i hir]
  · intro c h1 h2
    have hc : c < nv := by simpa [row] using h1
    simp only [row, getElem_tab]
    have hj : inRange (m.n ++ [nv]) (i ++ [c]) = true := by rw [inRange_snoc, hir]; simp [hc]
    rw [hbg _ hj, hag i c hir]
    simp [List.getD_eq_getElem?_getD, h2]

/-! ## the data frame of a line: column names -/

/-- POSITIVE statement for non-clashing names.  When `r`, the mesh dimension names and the value
column names (`v<label>`; without labels `v`, or `v0, v1, …` for a vector field) are pairwise different, the data frame of `Field.line` has
exactly the columns `r, *dims, *value columns` in this order; column `r` holds the (squared)
distances, the column of dimension `a` the `a`-th coordinate of every point, the `c`-th value
column the `c`-th component of every sampled value.  There are `nvdim` value columns, one for
every component, whenever the labels have passed the `vdims` setter (`valueColumns_complete`). -/
theorem lineData_columns (f : VF V) (p1 p2 : List Rat) (n : Nat) (fr : List (String × Col V))
    (h : f.lineData p1 p2 n = .ok fr)
    (hnd : ("r" :: (f.mesh.region.dims ++ (valueColumns f.vdims f.nvdim).take f.nvdim)).Nodup) :
    ∃ o, f.line p1 p2 n = .ok o ∧
      colNames fr = "r" :: (f.mesh.region.dims ++ (valueColumns f.vdims f.nvdim).take f.nvdim) ∧
      colOf fr "r" = some (.dist2 o.r2) ∧
      (∀ a, a < f.mesh.region.dims.length →
        colOf fr (f.mesh.region.dims.getD a "") = some (.num (o.points.map fun p => p.getD a 0))) ∧
      (∀ c, c < f.nvdim → c < (valueColumns f.vdims f.nvdim).length →
        colOf fr ((valueColumns f.vdims f.nvdim).getD c "") = some (.val (o.values.map fun v => v.getD c default))) := by
  unfold VF.lineData at h
  split at h
  · cases h
  · rename_i o ho
    injection h with h; subst h
    have hnames := colNames_frameAssigns f.mesh.region.dims (valueColumns f.vdims f.nvdim) f.nvdim o
    have hfr : lineFrame f.mesh.region.dims (valueColumns f.vdims f.nvdim) f.nvdim o
        = frameAssigns f.mesh.region.dims (valueColumns f.vdims f.nvdim) f.nvdim o := by
      unfold lineFrame
      rw [applyAssigns_fresh [] _ (by
        show (colNames (frameAssigns f.mesh.region.dims (valueColumns f.vdims f.nvdim) f.nvdim o)).Nodup
        rw [hnames]; exact hnd)]
      simp
    have hnd' : (colNames (frameAssigns f.mesh.region.dims (valueColumns f.vdims f.nvdim) f.nvdim o)).Nodup := by
      rw [hnames]; exact hnd
    refine ⟨o, ho, by rw [hfr, hnames], ?_, fun a ha => ?_, fun c hc hc' => ?_⟩
    · rw [hfr]
      exact colOf_of_nodup _ hnd' ("r", Col.dist2 o.r2) (by rw [frameAssigns_eq]; simp)
    · rw [hfr]
      exact colOf_of_nodup _ hnd' (_, _) (by
        rw [frameAssigns_eq]
        exact List.mem_cons_of_mem _ (List.mem_append_left _ (mem_dimAssigns _ o a ha)))
    · rw [hfr]
      exact colOf_of_nodup _ hnd' (_, _) (by
        rw [frameAssigns_eq]
        exact List.mem_cons_of_mem _ (List.mem_append_right _ (mem_valAssigns _ _ o c hc hc')))

/-- Two points of the region and `n ≥ 2` give a data frame (on every mesh, with any names). -/
theorem lineData_accepts (f : VF V) (p1 p2 : List Rat) (n : Nat) (hn : 2 ≤ n)
    (h1 : f.mesh.region.containsExact p1) (h2 : f.mesh.region.containsExact p2) :
    ∃ fr, f.lineData p1 p2 n = .ok fr := by
  obtain ⟨o, ho⟩ := line_accepts f p1 p2 n hn h1 h2
  exact ⟨_, lineData_of_line f p1 p2 n o ho⟩

/-- A field whose labels passed the `vdims` setter (`nvdim` different labels) on a mesh whose
dimension names are different from `r` and from every `v<label>`: the hypothesis of
`lineData_columns` holds and all `nvdim` value columns are there. -/
theorem lineData_noclash_of_labels (dims vs : List String) (nv : Nat) (hl : vs.length = nv)
    (hd : dims.Nodup) (hv : vs.Nodup) (hr : "r" ∉ dims) (hrv : ∀ l ∈ vs, "v" ++ l ≠ "r")
    (hdv : ∀ l ∈ vs, "v" ++ l ∉ dims) :
    ("r" :: (dims ++ (valueColumns (some vs) nv).take nv)).Nodup := by
  have htake : (valueColumns (some vs) nv).take nv = vs.map fun d => "v" ++ d := by
    simp only [valueColumns]
    rw [List.take_of_length_le (by simp [hl])]
  rw [htake]
  have hinj : (vs.map fun d => "v" ++ d).Nodup := by
    rw [List.Nodup, List.pairwise_map]
    exact List.Pairwise.imp (fun h e => h (prefix_cancel _ _ e)) hv
  rw [List.nodup_cons, List.nodup_append]
  refine ⟨?_, hd, hinj, ?_⟩
  · rw [List.mem_append]
    rintro (h | h)
    · exact hr h
    · obtain ⟨l, hl', e⟩ := List.mem_map.mp h
      exact hrv l hl' e
  · intro a ha b hb e
    obtain ⟨l, hl', e'⟩ := List.mem_map.mp hb
    exact hdv l hl' (by rw [e', ← e]; exact ha)

/-- NEGATIVE statement (open finding D42), value columns.  If a mesh dimension carries the name of
the `c`-th value column (`v<label>`, or `v` for an unlabelled scalar field), then in the data
frame of `Field.line` the column of that name holds the `c`-th COMPONENT of the sampled values:
the coordinate column has been overwritten, the points of the line are not in the frame. -/
theorem lineData_clash_value_column (f : VF V) (p1 p2 : List Rat) (n : Nat) (fr : List (String × Col V))
    (h : f.lineData p1 p2 n = .ok fr) (a c : Nat) (ha : a < f.mesh.region.dims.length)
    (hc : c < f.nvdim) (hc' : c < (valueColumns f.vdims f.nvdim).length)
    (hvn : ((valueColumns f.vdims f.nvdim).take f.nvdim).Nodup)
    (hclash : f.mesh.region.dims.getD a "" = (valueColumns f.vdims f.nvdim).getD c "") :
    ∃ o, f.line p1 p2 n = .ok o ∧
      colOf fr (f.mesh.region.dims.getD a "") = some (.val (o.values.map fun v => v.getD c default)) ∧
      fr.length ≤ f.mesh.region.dims.length + min f.nvdim (valueColumns f.vdims f.nvdim).length := by
  unfold VF.lineData at h
  split at h
  · cases h
  · rename_i o ho
    injection h with h; subst h
    refine ⟨o, ho, ?_, ?_⟩
    · unfold lineFrame
      rw [colOf_applyAssigns, frameAssigns_eq, List.reverse_cons, List.reverse_append, List.append_assoc,
        List.find?_append, hclash]
      have := find_rev_of_nodup (valAssigns (valueColumns f.vdims f.nvdim) f.nvdim o)
        (by rw [colNames_valAssigns]; exact hvn) _ (mem_valAssigns _ _ o c hc hc')
      simp only at this
      rw [this]; rfl
    · -- one name is assigned twice: at most 1 + ndim + nvalues - 1 columns
      obtain ⟨s, t, hst⟩ := List.append_of_mem (mem_valAssigns (valueColumns f.vdims f.nvdim) f.nvdim o c hc hc')
      have hlen : (frameAssigns f.mesh.region.dims (valueColumns f.vdims f.nvdim) f.nvdim o).length
          = 1 + f.mesh.region.dims.length + min f.nvdim (valueColumns f.vdims f.nvdim).length := by
        rw [frameAssigns_eq]; simp [dimAssigns, valAssigns]; omega
      have hsplit : frameAssigns f.mesh.region.dims (valueColumns f.vdims f.nvdim) f.nvdim o
          = (("r", Col.dist2 o.r2) :: (dimAssigns f.mesh.region.dims o ++ s)) ++
            ((valueColumns f.vdims f.nvdim).getD c "", Col.val (o.values.map fun v => v.getD c default)) :: t := by
        rw [frameAssigns_eq, hst]; simp
      have := length_applyAssigns_dup [] (("r", Col.dist2 o.r2) :: (dimAssigns f.mesh.region.dims o ++ s)) t
        ((valueColumns f.vdims f.nvdim).getD c "", Col.val (o.values.map fun v => v.getD c default)) (Or.inr (by
          simp only [colNames, List.map_cons, List.map_append]
          apply List.mem_cons_of_mem
          apply List.mem_append_left
          have hd := colNames_dimAssigns f.mesh.region.dims o
          simp only [colNames] at hd
          rw [hd, ← hclash]
          simp [List.getD_eq_getElem?_getD, ha]))
      unfold lineFrame
      rw [hsplit]
      rw [← hsplit, hlen] at this
      simp only [List.length_nil] at this
      rw [hsplit] at this
      omega

/-- NEGATIVE statement (open finding D42), distance column.  If a mesh dimension is called `r` (and
no value column is), the column `r` of the data frame holds that COORDINATE of the points: the
distances from `p1` are not in the frame. -/
theorem lineData_clash_r (f : VF V) (p1 p2 : List Rat) (n : Nat) (fr : List (String × Col V))
    (h : f.lineData p1 p2 n = .ok fr) (a : Nat) (ha : a < f.mesh.region.dims.length)
    (hdn : f.mesh.region.dims.Nodup) (hr : f.mesh.region.dims.getD a "" = "r")
    (hv : "r" ∉ (valueColumns f.vdims f.nvdim).take f.nvdim) :
    ∃ o, f.line p1 p2 n = .ok o ∧ colOf fr "r" = some (.num (o.points.map fun p => p.getD a 0)) := by
  unfold VF.lineData at h
  split at h
  · cases h
  · rename_i o ho
    injection h with h; subst h
    refine ⟨o, ho, ?_⟩
    unfold lineFrame
    rw [colOf_applyAssigns, frameAssigns_eq, List.reverse_cons, List.reverse_append, List.append_assoc,
      List.find?_append, List.find?_append]
    have h1 : (valAssigns (valueColumns f.vdims f.nvdim) f.nvdim o).reverse.find? (fun p => p.1 == "r") = none := by
      apply find_none_of_not_mem
      simp only [colNames, List.map_reverse, List.mem_reverse]
      have := colNames_valAssigns (valueColumns f.vdims f.nvdim) f.nvdim o
      simp only [colNames] at this
      rw [this]; exact hv
    have h2 := find_rev_of_nodup (dimAssigns f.mesh.region.dims o)
      (by rw [colNames_dimAssigns]; exact hdn) _ (mem_dimAssigns _ o a ha)
    simp only [hr] at h2
    rw [h1, h2]; rfl

/-- Every component has its own value column: for labels that passed the `vdims` setter (`nvdim` of
them), for an unlabelled scalar field (`v`) and for an unlabelled vector field (`v0 … v{nvdim-1}`)
there are exactly `nvdim` value column names, so `zip(range(nvdim), value_columns)` drops nothing. -/
theorem valueColumns_complete (vdims : Option (List String)) (nv : Nat)
    (h : vdims = none ∨ ∃ vs, vdims = some vs ∧ vs.length = nv) :
    (valueColumns vdims nv).length = nv ∧ (valueColumns vdims nv).take nv = valueColumns vdims nv ∧
    (vdims = none → 1 < nv → ∀ c, c < nv → (valueColumns vdims nv).getD c "" = s!"v{c}") ∧
    (vdims = none → nv = 1 → valueColumns vdims nv = ["v"]) ∧
    (∀ vs, vdims = some vs → ∀ c, c < nv → (valueColumns vdims nv).getD c "" = "v" ++ vs.getD c "") := by
  have hlen : (valueColumns vdims nv).length = nv := by
    rcases h with rfl | ⟨vs, rfl, hl⟩
    · unfold valueColumns
      by_cases h1 : nv = 1
      · simp [h1]
      · simp [h1]
    · simp [valueColumns, hl]
  refine ⟨hlen, List.take_of_length_le (by omega), fun hv h1 c hc => ?_, fun hv h1 => ?_, fun vs hv c hc => ?_⟩
  · subst hv
    have : ¬ nv = 1 := by omega
    simp [valueColumns, this, List.getD_eq_getElem?_getD, hc]
  · subst hv; simp [valueColumns, h1]
  · subst hv
    rcases h with h | ⟨vs', h', hl⟩
    · cases h
    · injection h' with h'; subst h'
      simp [valueColumns, List.getD_eq_getElem?_getD, hl, hc]

/-- POSITIVE statement that replaces the former finding D45 (a vector field without labels —
`vdims=[]` removes them — used to keep only its first component in the data frame): the frame of
an unlabelled vector field has the columns `r, *dims, v0, …, v{nvdim-1}`, and column `v{c}` holds
component `c` of every sampled value, for EVERY `c < nvdim`. -/
theorem lineData_unlabelled_vector (f : VF V) (p1 p2 : List Rat) (n : Nat) (fr : List (String × Col V))
    (hv : f.vdims = none) (hnv : 1 < f.nvdim) (h : f.lineData p1 p2 n = .ok fr)
    (hnd : ("r" :: (f.mesh.region.dims ++ (List.range f.nvdim).map fun i => s!"v{i}")).Nodup) :
    ∃ o, f.line p1 p2 n = .ok o ∧
      colNames fr = "r" :: (f.mesh.region.dims ++ (List.range f.nvdim).map fun i => s!"v{i}") ∧
      ∀ c, c < f.nvdim → colOf fr s!"v{c}" = some (.val (o.values.map fun v => v.getD c default)) := by
  obtain ⟨hlen, htake, hget, _, _⟩ := valueColumns_complete f.vdims f.nvdim (Or.inl hv)
  have hvc : valueColumns f.vdims f.nvdim = (List.range f.nvdim).map fun i => s!"v{i}" := by
    have : ¬ f.nvdim = 1 := by omega
    simp [hv, valueColumns, this]
  obtain ⟨o, ho, hnames, _, _, hvals⟩ := lineData_columns f p1 p2 n fr h (by rw [htake, hvc]; exact hnd)
  refine ⟨o, ho, by rw [hnames, htake, hvc], fun c hc => ?_⟩
  have := hvals c hc (by omega)
  rw [hget hv hnv c hc] at this
  exact this

omit [Inhabited V] in
/-- The values along a line between two points of the region are stored values: value `j` is the
row of a cell that contains point `j` of the line (composition of `line_values` and
`call_cell_contains`; every point of the segment lies in the region). -/
theorem line_values_cell (f : VF V) (hm : f.mesh.Inv) (p1 p2 : List Rat) (n : Nat) (o : LineOut V)
    (h : f.line p1 p2 n = .ok o)
    (h1 : f.mesh.region.containsExact p1) (h2 : f.mesh.region.containsExact p2) (j : Nat) (hj : j < n) :
    ∃ i, inRange f.mesh.n i = true ∧ o.values.getD j [] = row f.data f.nvdim i ∧
      ∀ a, a < f.mesh.ndim →
        f.mesh.region.lo a + (i.getD a 0 : Rat) * f.mesh.cellAt a ≤ (o.points.getD j []).getD a 0 ∧
        ((o.points.getD j []).getD a 0 < f.mesh.region.lo a + ((i.getD a 0 : Rat) + 1) * f.mesh.cellAt a ∨
          (i.getD a 0 = f.mesh.nAt a - 1 ∧ (o.points.getD j []).getD a 0 = f.mesh.region.hi a)) := by
  obtain ⟨hml, _, _⟩ := line_ok f p1 p2 n o h
  obtain ⟨_, _, hn, hpts⟩ := meshLine_ok _ _ _ _ _ hml
  have hin : f.mesh.region.containsExact (o.points.getD j []) := by
    rw [hpts, getD_tab _ _ _ _ hj]
    refine ⟨by simp; rfl, fun a ha => ?_⟩
    have ha' : a < f.mesh.ndim := ha
    rw [getD_tab _ _ _ _ ha']
    exact segment_in _ _ _ _ j n hn hj (h1.2 a ha) (h2.2 a ha)
  obtain ⟨i, hcall, hir, hbox⟩ := call_cell_contains f hm _ hin
  have hv := line_values f p1 p2 n o h j hj
  rw [hcall] at hv
  injection hv with hv
  exact ⟨i, hir, hv.symm, hbox⟩

omit [Inhabited V] in
/-- Fewer than two points are rejected. -/
theorem line_short_rejected (f : VF V) (p1 p2 : List Rat) (n : Nat) (hn : n < 2) :
    ∃ e, f.line p1 p2 n = .error e := by
  unfold VF.line meshLine
  split
  · exact ⟨_, rfl⟩
  · rename_i pts hp
    split at hp
    · cases hp
    · cases hp

/-- THE PROPERTY'S WORDING for dictionaries, literally: the value stored for cell `i` is supplied by
the FIRST LISTED subregion (order of `mesh.subregions`) that is a key of the dictionary and whose
region CONTAINS THE CENTRE of cell `i` — that key's specification converted on the subregion's own
mesh and read at the cell — and otherwise by the default. -/
theorem asArray_dict_first_containing (isZero : V → Bool) (items : List (String × Leaf V)) (dflt : Option (Dflt V))
    (m : Mesh) (hm : m.Inv) (nv : Nat) (a : NDA V) (k1 k2 : String × Region → Nat → Nat)
    (hal : ∀ p ∈ m.subs, AlignedSub m p.2 (k1 p) (k2 p))
    (h : asArray isZero (.dict items dflt) m nv = .ok a)
    (i : List Nat) (hi : inRange m.n i = true) (c : Nat) (hc : c < nv) :
    a.get (i ++ [c]) =
      match m.subs.find? (listedContains items m i) with
      | some p => cellOf isZero items m nv k1 k2 i c p
      | none => dfltVal dflt m nv i c := by
  rw [asArray_dict_first_listed isZero items dflt m hm nv a k1 k2 hal h i hi c hc]
  have hcongr : ∀ l : List (String × Region), (∀ p ∈ l, p ∈ m.subs) →
      l.find? (hits items m k1 k2 i) = l.find? (listedContains items m i) := by
    intro l hl
    induction l with
    | nil => rfl
    | cons p rest ih =>
      have hp : hits items m k1 k2 i p = listedContains items m i p := by
        have hiff := inBox_iff_centre m hm p.2 (k1 p) (k2 p) (hal p (hl p (by simp))) i hi []
        simp only [List.append_nil] at hiff
        unfold hits listedContains
        congr 1
        rw [Bool.eq_iff_iff, hiff, allLt_iff]
        simp only [Bool.and_eq_true, decide_eq_true_eq]
      simp only [List.find?_cons, hp]
      rw [ih fun q hq => hl q (by simp [hq])]
  rw [hcongr m.subs fun _ h => h]

/-! ## dictionaries: the remaining leaf kinds, acceptance with callable / without default, rejections -/

/-- … a vector of `nvdim` numbers gives that vector, … -/
theorem dict_cell_vector (isZero : V → Bool) (items : List (String × Leaf V)) (m : Mesh) (nv : Nat)
    (k1 k2 : String × Region → Nat → Nat) (i : List Nat) (c : Nat) (hc : c < nv)
    (p : String × Region) (arr : NDA V)
    (hl : lookupLeaf items p.1 = some (.arr arr)) (hs : arr.shape = [nv])
    (hamb : ¬ (nv = 1 ∧ (subMeshOf m p.2 (k1 p) (k2 p)).n = [1])) :
    cellOf isZero items m nv k1 k2 i c p = arr.get [c] := by
  obtain ⟨b, hb1, _, hg⟩ := asArray_vector isZero arr (subMeshOf m p.2 (k1 p) (k2 p)) nv hs hamb
  simp only [asArray] at hb1
  simp only [cellOf, hl, leafVal, hb1]
  exact hg _ c (by simp [subIdx, subMeshOf]) hc

/-- … and a source field gives its sample at the centre of the MESH cell, i.e. (with
`call_cell_contains`) the value of a source cell containing that centre. -/
theorem dict_cell_field (isZero : V → Bool) (items : List (String × Leaf V)) (m : Mesh) (hm : m.Inv) (nv : Nat)
    (k1 k2 : String × Region → Nat → Nat) (i : List Nat) (hi : inRange m.n i = true) (c : Nat) (hc : c < nv)
    (p : String × Region) (src : VF V)
    (hal : AlignedSub m p.2 (k1 p) (k2 p)) (hit : hits items m k1 k2 i p = true)
    (hl : lookupLeaf items p.1 = some (.field src))
    (hsm : (subMeshOf m p.2 (k1 p) (k2 p)).Inv) (hs : src.mesh.Inv) (hnd : src.mesh.ndim = m.ndim)
    (hdims : p.2.dims = src.mesh.region.dims) (hnv : src.nvdim = nv)
    (hin : ∀ a, a < m.ndim → src.mesh.region.lo a ≤ p.2.lo a ∧ p.2.hi a ≤ src.mesh.region.hi a) :
    ∃ vs, src.call (m.centre i) = .ok vs ∧ cellOf isZero items m nv k1 k2 i c p = vs.getD c default := by
  have hil : i.length = m.ndim := (inRange_length _ _ hi).trans hm.2.1
  have hb : inBox (tab m.ndim (k1 p)) (tab m.ndim (k2 p)) (i ++ []) = true := by
    simp only [hits, Bool.and_eq_true] at hit; simpa using hit.2
  have hsnd : (subMeshOf m p.2 (k1 p) (k2 p)).ndim = m.ndim := hal.ndim
  obtain ⟨b, hb1, _, hg⟩ := asArray_field_samples_source isZero src (subMeshOf m p.2 (k1 p) (k2 p)) nv hsm hs
    (by rw [hnd, hsnd]) hdims hnv (by rw [hsnd]; exact hin)
  simp only [asArray] at hb1
  have hr := subIdx_inRange m (k1 p) (k2 p) i hil [] hb
  have hcall := hg _ hr
  rw [subMesh_centre m hm p.2 (k1 p) (k2 p) hal i hil [] hb] at hcall
  refine ⟨_, hcall, ?_⟩
  simp only [cellOf, hl, leafVal, hb1, row]
  rw [getD_tab _ _ _ _ hc]

/-- A listed subregion whose value cannot be converted on its submesh (wrong shape, component
count or type) makes the whole dictionary rejected — also when the subregion is completely hidden
behind earlier ones. -/
theorem asArray_dict_leaf_rejected (isZero : V → Bool) (items : List (String × Leaf V)) (dflt : Option (Dflt V))
    (m : Mesh) (hm : m.Inv) (nv : Nat) (k1 k2 : Nat → Nat) (p : String × Region) (hp : p ∈ m.subs)
    (hal : AlignedSub m p.2 k1 k2) (lf : Leaf V) (hl : lookupLeaf items p.1 = some lf) (e : Err)
    (herr : asLeaf isZero lf (subMeshOf m p.2 k1 k2) nv = .error e) :
    ∃ e', asArray isZero (.dict items dflt) m nv = .error e' := by
  simp only [asArray]
  split
  · exact ⟨_, rfl⟩
  · rename_i a0 _
    obtain ⟨e', he'⟩ := dictLoop_err_of isZero items m nv m.subs.reverse a0 p (by simpa using hp) lf hl
      (subMeshOf m p.2 k1 k2) (mkCell_aligned m hm p.2 k1 k2 hal) e
      ⟨_, region2slices_spec m hm p.2 k1 k2 hal⟩ herr
    rw [he']
    exact ⟨_, rfl⟩

/-- A `default` of the wrong type, or one NumPy cannot broadcast to `(*n, nvdim)` (e.g. a vector of
another length), is rejected. -/
theorem asArray_dict_bad_default_rejected (isZero : V → Bool) (items : List (String × Leaf V)) (m : Mesh) (nv : Nat) :
    asArray isZero (.dict items (some .bad)) m nv = .error .value ∧
    ∀ d : NDA V, bcastOk (m.n ++ [nv]) d.shape = false →
      asArray isZero (.dict items (some (.val d))) m nv = .error .value := by
  refine ⟨rfl, fun d hd => ?_⟩
  simp [asArray, fillOf, bcast, hd]

/-- Well-formed dictionaries with a CALLABLE default (a function, or a field — fields are called
like functions) are accepted: subregions that are unions of cells, every listed value convertible
on its submesh, the default returning `nvdim` values at every cell centre. -/
theorem asArray_dict_accepts_callable (isZero : V → Bool) (items : List (String × Leaf V)) (d : Dflt V)
    (m : Mesh) (hm : m.Inv) (nv : Nat) (k1 k2 : String × Region → Nat → Nat)
    (hal : ∀ p ∈ m.subs, AlignedSub m p.2 (k1 p) (k2 p))
    (hok : ∀ p ∈ m.subs, ∀ lf, lookupLeaf items p.1 = some lf →
      ∃ sub, asLeaf isZero lf (subMeshOf m p.2 (k1 p) (k2 p)) nv = .ok sub ∧
        sub.shape = (subMeshOf m p.2 (k1 p) (k2 p)).n ++ [nv])
    (hd : (∃ fn, d = .func fn ∧ ∀ i, inRange m.n i = true → (fn (m.centre i)).length = nv) ∨
          (∃ src : VF V, d = .field src ∧ src.nvdim = nv ∧
            ∀ i, inRange m.n i = true → ∃ j, src.mesh.point2index (m.centre i) = .ok j)) :
    ∃ a, asArray isZero (.dict items (some d)) m nv = .ok a ∧ a.shape = m.n ++ [nv] := by
  have hlen : m.n.length = m.ndim := hm.2.1
  have hfill : fillOf (some d) m nv = .ok (NDA.const (m.n ++ [nv]) none) := by
    rcases hd with ⟨fn, rfl, _⟩ | ⟨src, rfl, _⟩ <;> rfl
  obtain ⟨a1, ha1, _⟩ := dictLoop_ok isZero items m hm nv k1 k2 m.subs.reverse
    (fun p hp => hal p (by simpa using hp)) (fun p hp => hok p (by simpa using hp))
    (NDA.const (m.n ++ [nv]) none)
  have hcell : ∀ i ∈ nanCells m a1, ∃ vs, dfltCell d m i = .ok vs ∧ vs.length = nv := by
    intro i hi
    have hir := mem_nanCells_inRange m a1 i hi (inv_all_pos m hm)
    unfold dfltCell
    rw [index2point_nat m hlen i hir]
    rcases hd with ⟨fn, rfl, hfn⟩ | ⟨src, rfl, hsn, hsp⟩
    · exact ⟨_, rfl, hfn i hir⟩
    · obtain ⟨j, hj⟩ := hsp i hir
      exact ⟨_, ((call_eq src _).1 j hj).1, by rw [((call_eq src _).1 j hj).2.1, hsn]⟩
  obtain ⟨a2, ha2⟩ := dfltLoop_ok d m nv (nanCells m a1) a1 hcell
  have hex : ∃ a, asArray isZero (.dict items (some d)) m nv = .ok a := by
    simp only [asArray, hfill, ha1]
    split
    · simp only [ha2]; exact ⟨_, rfl⟩
    · exact ⟨_, rfl⟩
  obtain ⟨a, ha⟩ := hex
  exact ⟨a, ha, asArray_shape isZero _ m nv a ha⟩

/-- A dictionary WITHOUT default whose listed subregions cover every cell is accepted. -/
theorem asArray_dict_accepts_covered (isZero : V → Bool) (items : List (String × Leaf V))
    (m : Mesh) (hm : m.Inv) (nv : Nat) (k1 k2 : String × Region → Nat → Nat)
    (hal : ∀ p ∈ m.subs, AlignedSub m p.2 (k1 p) (k2 p))
    (hok : ∀ p ∈ m.subs, ∀ lf, lookupLeaf items p.1 = some lf →
      ∃ sub, asLeaf isZero lf (subMeshOf m p.2 (k1 p) (k2 p)) nv = .ok sub ∧
        sub.shape = (subMeshOf m p.2 (k1 p) (k2 p)).n ++ [nv])
    (hcov : ∀ i, inRange m.n i = true → ∃ p ∈ m.subs, hits items m k1 k2 i p = true) :
    ∃ a, asArray isZero (.dict items none) m nv = .ok a ∧ a.shape = m.n ++ [nv] := by
  have hlen : m.n.length = m.ndim := hm.2.1
  obtain ⟨a1, ha1, _⟩ := dictLoop_ok isZero items m hm nv k1 k2 m.subs.reverse
    (fun p hp => hal p (by simpa using hp)) (fun p hp => hok p (by simpa using hp))
    (NDA.const (m.n ++ [nv]) none)
  obtain ⟨hs1, hg1⟩ := dictLoop_get isZero items m nv _ _ a1 ha1
  simp only [List.reverse_reverse] at hg1
  have hany : anyNone a1 = false := by
    unfold anyNone
    rw [List.any_eq_false]
    intro j hj
    -- j is an in-range index of shape n ++ [nv]
    rw [hs1] at hj
    simp only [NDA.const, indicesC, List.mem_map, List.mem_range] at hj
    obtain ⟨k, hk, rfl⟩ := hj
    have hnv : 0 < nv := by
      by_contra h0
      have : nv = 0 := by omega
      subst this
      simp [natProd_append, natProd] at hk
    have hpos : ∀ n ∈ m.n ++ [nv], 0 < n := by
      intro n hn
      rcases List.mem_append.mp hn with h | h
      · exact inv_all_pos m hm n h
      · simp at h; omega
    have hr := unflatC_inRange (m.n ++ [nv]) k hpos hk
    -- split the index into cell and component
    obtain ⟨i, c, hic⟩ : ∃ i c, unflatC (m.n ++ [nv]) k = i ++ [c] := by
      have hl := inRange_length _ _ hr
      have hne : unflatC (m.n ++ [nv]) k ≠ [] := by
        intro e; rw [e] at hl; simp at hl
      exact ⟨_, _, (List.dropLast_append_getLast hne).symm⟩
    rw [hic] at hr ⊢
    rw [inRange_snoc] at hr
    simp only [Bool.and_eq_true, decide_eq_true_eq] at hr
    obtain ⟨hir, hc⟩ := hr
    have hil : i.length = m.ndim := (inRange_length _ _ hir).trans hlen
    rw [hg1, findSome_patch isZero items m hm nv k1 k2 i hil c hc m.subs hal hok]
    obtain ⟨p, hp, hhit⟩ := hcov i hir
    have : (m.subs.find? (hits items m k1 k2 i)).isSome = true := by
      rw [List.find?_isSome]; exact ⟨p, hp, hhit⟩
    cases hf : m.subs.find? (hits items m k1 k2 i) with
    | none => rw [hf] at this; simp at this
    | some q => simp
  refine ⟨unwrap a1, by simp [asArray, fillOf, ha1, hany], ?_⟩
  simp only [unwrap, NDA.map]
  exact hs1

/-- A callable default that returns another number of components at the centre of a cell no listed
subregion covers is rejected (wrong component count). -/
theorem asArray_dict_default_count_rejected (isZero : V → Bool) (items : List (String × Leaf V))
    (fn : List Rat → List V) (m : Mesh) (nv : Nat) (hlen : m.n.length = m.ndim) (hnv : 0 < nv)
    (i : List Nat) (hi : inRange m.n i = true)
    (hun : (m.subs.findSome? fun p => patchVal isZero items m nv p (i ++ [0])) = none)
    (hbad : (fn (m.centre i)).length ≠ nv) :
    ∃ e, asArray isZero (.dict items (some (.func fn))) m nv = .error e := by
  have hj : inRange (m.n ++ [nv]) (i ++ [0]) = true := by rw [inRange_snoc, hi]; simp [hnv]
  simp only [asArray, fillOf]
  split
  · exact ⟨_, rfl⟩
  · rename_i a1 hloop
    obtain ⟨hs1, hg1⟩ := dictLoop_get isZero items m nv _ _ a1 hloop
    simp only [List.reverse_reverse] at hg1
    have n0 : a1.get (i ++ [0]) = none := by rw [hg1, hun]; rfl
    have hany : anyNone a1 = true := anyNone_true a1 (i ++ [0]) (by rw [hs1]; exact hj) n0
    rw [hany]
    simp only [if_true]
    have hin : i ∈ nanCells m a1 := by
      rw [mem_nanCells]; exact ⟨mem_indicesC _ _ hi, by simp [n0]⟩
    obtain ⟨e, he⟩ := dfltLoop_err (.func fn) m nv (nanCells m a1) a1 i hin (by
      intro vs hvs
      unfold dfltCell at hvs
      rw [index2point_nat m hlen i hi] at hvs
      simp only at hvs
      injection hvs with hvs; subst hvs; exact hbad)
    rw [he]
    exact ⟨_, rfl⟩

/-! ## histories: any sequence of accepted and rejected assignments -/

/-- INVARIANT over histories.  After ANY sequence of assignments through the `array` setter and
`update_field_values` — each one accepted or rejected — the field still lives on its mesh with
its `nvdim` and labels, and its array still has shape `(*n, nvdim)`. -/
theorem history_invariant (isZero : V → Bool) (f : VF V) (ops : List (Assign V))
    (hs : f.data.shape = f.mesh.n ++ [f.nvdim]) :
    (f.run isZero ops).mesh = f.mesh ∧ (f.run isZero ops).nvdim = f.nvdim ∧
    (f.run isZero ops).vdims = f.vdims ∧
    (f.run isZero ops).data.shape = f.mesh.n ++ [f.nvdim] := by
  have h := run_withData isZero f none ops
  simp only [withData] at h
  rw [h]
  cases hl : lastResult isZero f.mesh f.nvdim none ops with
  | none => exact ⟨rfl, rfl, rfl, hs⟩
  | some a =>
    exact ⟨rfl, rfl, rfl, lastResult_shape isZero f.mesh f.nvdim none ops (fun _ h => by cases h) a hl⟩

/-- The state after a history is determined by its LAST ACCEPTED assignment: whatever was assigned
(or rejected) before, and however many assignments were rejected afterwards, the field holds
exactly the array that assignment produces; if every assignment was rejected the field is
unchanged. -/
theorem history_last_accepted (isZero : V → Bool) (f : VF V) :
    (∀ ops : List (Assign V), (∀ q ∈ ops, ∃ e, Assign.result isZero f.mesh f.nvdim q = .error e) →
      f.run isZero ops = f) ∧
    (∀ (pre post : List (Assign V)) (op : Assign V) (a : NDA V),
      Assign.result isZero f.mesh f.nvdim op = .ok a →
      (∀ q ∈ post, ∃ e, Assign.result isZero f.mesh f.nvdim q = .error e) →
      f.run isZero (pre ++ op :: post) = { f with data := a }) := by
  constructor
  · intro ops hrej
    have h := run_withData isZero f none ops
    simp only [withData] at h
    rw [h]
    have : lastResult isZero f.mesh f.nvdim none ops = none := by
      clear h
      induction ops with
      | nil => rfl
      | cons q rest ih =>
        obtain ⟨e, he⟩ := hrej q (by simp)
        simp only [lastResult, List.foldl_cons, he] at ih ⊢
        exact ih fun q' hq' => hrej q' (by simp [hq'])
    rw [this]
  · intro pre post op a hop hpost
    have h := run_withData isZero f none (pre ++ op :: post)
    simp only [withData] at h
    rw [h, lastResult_append_ok isZero f.mesh f.nvdim none pre post op a hop hpost]

/-- … and that array is the specification's: after a history whose last accepted step is
`update_field_values(s)`, sampling at the centre of any cell returns the row the conversion of
`s` assigns to that cell. -/
theorem history_then_call (isZero : V → Bool) (f : VF V) (hm : f.mesh.Inv) (pre post : List (Assign V))
    (s : Spec V) (a : NDA V) (ha : asArray isZero s f.mesh f.nvdim = .ok a)
    (hpost : ∀ q ∈ post, ∃ e, Assign.result isZero f.mesh f.nvdim q = .error e)
    (i : List Nat) (hi : inRange f.mesh.n i = true) :
    (f.run isZero (pre ++ .upd s :: post)).call (f.mesh.centre i) = .ok (row a f.nvdim i) := by
  obtain ⟨b, hb, _, hbg⟩ := updateValues_of_ok isZero s f.mesh f.nvdim a ha
  rw [(history_last_accepted isZero f).2 pre post (.upd s) b hb hpost]
  have := call_centre ({ f with data := b } : VF V) hm i hi
  rw [this]
  congr 1
  apply tab_congr
  intro c hc
  exact hbg _ (by rw [inRange_snoc, hi]; simp [hc])

/-! ## round 2: acceptance as an equivalence (rejected ⇔ malformed) -/

/-- A specification that is not a dictionary is accepted EXACTLY when it is well formed
(`Leaf.WF`, a statement about the input alone): a number for a scalar field or the number zero; an
array of the cells' shape (scalar field) or one with last axis `nvdim` that NumPy broadcasts to
`(*n, nvdim)`; a function returning `nvdim` numbers at EVERY cell centre; a field with `nvdim`
components and the mesh's dimension names whose region contains the mesh's.  Everything else —
wrong type, wrong component count, wrong shape — is rejected. -/
theorem asLeaf_ok_iff (isZero : V → Bool) (l : Leaf V) (m : Mesh) (nv : Nat) :
    ((∃ a, asArray isZero (.leaf l) m nv = .ok a) ↔ Leaf.WF isZero l m nv) ∧
    ((∃ e, asArray isZero (.leaf l) m nv = .error e) ↔ ¬ Leaf.WF isZero l m nv) := by
  have h1 : (∃ a, asArray isZero (.leaf l) m nv = .ok a) ↔ Leaf.WF isZero l m nv :=
    ⟨fun ⟨a, h⟩ => wf_of_asLeaf_ok isZero l m nv a h, asLeaf_ok_of_wf isZero l m nv⟩
  refine ⟨h1, ?_⟩
  rw [← h1]
  cases asArray isZero (.leaf l) m nv with
  | ok a => simp
  | error e => simp

/-- A dictionary over subregions (on a mesh whose subregions are unions of cells, any number of them,
overlapping in any pattern; `nvdim ≥ 1`) is accepted EXACTLY when it is well formed (`dictWF`, on
the inputs alone): a constant default can be broadcast to `(*n, nvdim)`; the value of EVERY listed
subregion is well formed on the subregion's own mesh — also of a subregion completely hidden behind
earlier ones; and every cell that no listed subregion covers is served by the default (a constant;
a function returning `nvdim` numbers at that cell's centre; a field with `nvdim` components defined
there) — in particular a missing default is accepted iff the listed subregions cover the mesh. -/
theorem asArray_dict_ok_iff (isZero : V → Bool) (items : List (String × Leaf V)) (dflt : Option (Dflt V))
    (m : Mesh) (hm : m.Inv) (nv : Nat) (hnv : 0 < nv) (k1 k2 : String × Region → Nat → Nat)
    (hal : ∀ p ∈ m.subs, AlignedSub m p.2 (k1 p) (k2 p)) :
    ((∃ a, asArray isZero (.dict items dflt) m nv = .ok a) ↔ dictWF isZero items dflt m nv k1 k2) ∧
    ((∃ e, asArray isZero (.dict items dflt) m nv = .error e) ↔ ¬ dictWF isZero items dflt m nv k1 k2) := by
  have h1 := spec_ok_iff isZero (.dict items dflt) m hm nv hnv k1 k2 hal
  simp only [Spec.WF] at h1
  refine ⟨h1, ?_⟩
  rw [← h1]
  cases asArray isZero (.dict items dflt) m nv with
  | ok a => simp
  | error e => simp

/-! ## round 2: the three ways of assigning a value agree -/

/-- `field.array = value`, `field.update_field_values(value)` and `Field(mesh, nvdim, value=value)`
— for EVERY specification (constant, array, function, dictionary, field): they are refused for
exactly the same specifications, with the same error, namely when the conversion `_as_array` refuses
(the constructor, in addition, when the labels are refused); and when accepted all three hold the
same array of shape `(*n, nvdim)`: the conversion's result, entry by entry (the second conversion
of the two-pass paths changes nothing). -/
theorem assign_paths_agree (isZero : V → Bool) (reserved : List String) (f : VF V) (s : Spec V)
    (vdims : Option (List String)) (hnv : 1 ≤ f.nvdim) :
    (∀ e, asArray isZero s f.mesh f.nvdim = .error e →
      f.setSpec isZero s = .error e ∧ f.update isZero s = .error e ∧
      VF.new? isZero reserved f.mesh f.nvdim s vdims = .error e) ∧
    (∀ a, asArray isZero s f.mesh f.nvdim = .ok a →
      ∃ g1 g2, f.setSpec isZero s = .ok g1 ∧ f.update isZero s = .ok g2 ∧
        g1.data.shape = f.mesh.n ++ [f.nvdim] ∧ g2.data.shape = f.mesh.n ++ [f.nvdim] ∧
        (∀ j, inRange (f.mesh.n ++ [f.nvdim]) j = true → g1.data.get j = a.get j ∧ g2.data.get j = a.get j) ∧
        (∀ vd, vdimsSet reserved f.nvdim vdims = .ok vd →
          ∃ g3, VF.new? isZero reserved f.mesh f.nvdim s vdims = .ok g3 ∧ g3.mesh = f.mesh ∧ g3.nvdim = f.nvdim ∧
            g3.data.shape = f.mesh.n ++ [f.nvdim] ∧
            ∀ j, inRange (f.mesh.n ++ [f.nvdim]) j = true → g3.data.get j = a.get j) ∧
        (∀ e, vdimsSet reserved f.nvdim vdims = .error e →
          VF.new? isZero reserved f.mesh f.nvdim s vdims = .error e)) ∧
    (((∃ e, f.setSpec isZero s = .error e) ↔ (∃ e, f.update isZero s = .error e)) ∧
     ((∃ vd, vdimsSet reserved f.nvdim vdims = .ok vd) →
       ((∃ e, f.update isZero s = .error e) ↔ ∃ e, VF.new? isZero reserved f.mesh f.nvdim s vdims = .error e))) := by
  have hN := new_stores_spec isZero reserved f.mesh f.nvdim s vdims
  have hU := update_stores_spec isZero f s
  have part1 : ∀ e, asArray isZero s f.mesh f.nvdim = .error e →
      f.setSpec isZero s = .error e ∧ f.update isZero s = .error e ∧
      VF.new? isZero reserved f.mesh f.nvdim s vdims = .error e := fun e he =>
    ⟨by simp [VF.setSpec, he], (hU.2 e he).1, hN.2.2.1 e hnv he⟩
  refine ⟨part1, fun a ha => ?_, ?_, fun ⟨vd, hvd⟩ => ?_⟩
  · obtain ⟨g2, hg2, _, _, _, _, hs2, hget2⟩ := hU.1 a ha
    refine ⟨{ f with data := a }, g2, by simp [VF.setSpec, ha], hg2, asArray_shape isZero s _ _ a ha, hs2,
      fun j hj => ⟨rfl, hget2 j hj⟩, fun vd hvd => ?_, fun e he => hN.2.2.2 a e hnv ha he⟩
    obtain ⟨g3, hg3, h1, h2, _, h4, h5⟩ := hN.2.1 a vd hnv ha hvd
    exact ⟨g3, hg3, h1, h2, h4, h5⟩
  · cases ha : asArray isZero s f.mesh f.nvdim with
    | error e =>
      obtain ⟨h1, h2, _⟩ := part1 e ha
      exact ⟨fun _ => ⟨e, h2⟩, fun _ => ⟨e, h1⟩⟩
    | ok a =>
      obtain ⟨g2, hg2, _⟩ := hU.1 a ha
      constructor
      · rintro ⟨e, he⟩; simp [VF.setSpec, ha] at he
      · rintro ⟨e, he⟩; rw [hg2] at he; cases he
  · cases ha : asArray isZero s f.mesh f.nvdim with
    | error e =>
      obtain ⟨_, h2, h3⟩ := part1 e ha
      exact ⟨fun _ => ⟨e, h3⟩, fun _ => ⟨e, h2⟩⟩
    | ok a =>
      obtain ⟨g2, hg2, _⟩ := hU.1 a ha
      obtain ⟨g3, hg3, _⟩ := hN.2.1 a vd hnv ha hvd
      constructor
      · rintro ⟨e, he⟩; rw [hg2] at he; cases he
      · rintro ⟨e, he⟩; rw [hg3] at he; cases he

/-- REJECTED ⇔ MALFORMED for all three paths at once: on a mesh whose subregions are unions of
cells, the setter, `update_field_values` and the constructor (with acceptable labels) refuse a
specification exactly when it is not well formed (`Spec.WF`: wrong type, component count or shape
somewhere — whole value, a listed subregion's entry, the default), and then the field is unchanged. -/
theorem assign_rejected_iff_malformed (isZero : V → Bool) (reserved : List String) (f : VF V) (hm : f.mesh.Inv)
    (s : Spec V) (vdims : Option (List String)) (hnv : 1 ≤ f.nvdim) (k1 k2 : String × Region → Nat → Nat)
    (hal : ∀ p ∈ f.mesh.subs, AlignedSub f.mesh p.2 (k1 p) (k2 p))
    (hvd : ∃ vd, vdimsSet reserved f.nvdim vdims = .ok vd) :
    ((∃ e, f.setSpec isZero s = .error e) ↔ ¬ Spec.WF isZero s f.mesh f.nvdim k1 k2) ∧
    ((∃ e, f.update isZero s = .error e) ↔ ¬ Spec.WF isZero s f.mesh f.nvdim k1 k2) ∧
    ((∃ e, VF.new? isZero reserved f.mesh f.nvdim s vdims = .error e) ↔ ¬ Spec.WF isZero s f.mesh f.nvdim k1 k2) ∧
    (¬ Spec.WF isZero s f.mesh f.nvdim k1 k2 →
      f.after (f.setSpec isZero s) = f ∧ f.after (f.update isZero s) = f) := by
  have hiff := spec_ok_iff isZero s f.mesh hm f.nvdim hnv k1 k2 hal
  obtain ⟨p1, p2, p3, p4⟩ := assign_paths_agree isZero reserved f s vdims hnv
  have hset : (∃ e, f.setSpec isZero s = .error e) ↔ ¬ Spec.WF isZero s f.mesh f.nvdim k1 k2 := by
    rw [← hiff]
    cases ha : asArray isZero s f.mesh f.nvdim with
    | error e => simp [VF.setSpec, ha]
    | ok a => simp [VF.setSpec, ha]
  refine ⟨hset, p3.symm.trans hset, (p4 hvd).symm.trans (p3.symm.trans hset), fun hbad => ?_⟩
  obtain ⟨e, he⟩ := hset.mpr hbad
  obtain ⟨e', he'⟩ := p3.mp ⟨e, he⟩
  exact ⟨by rw [he]; rfl, by rw [he']; rfl⟩

/-! ## round 2: a field as value — exactly which source cell is read -/

/-- CLOSED FORM of the source cell.  A source field on any mesh whose region contains the target's:
target cell `i` receives, component by component, the value of the source cell whose index along
every axis `a` is `floor((centre_a(i) − src.pmin_a) / src.cell_a)` clipped to the source's cell
range (`Mesh.indexAx`) — xarray's nearest-centre selection with ties to the larger index computes
exactly this index. -/
theorem asArray_field_reads_floor_cell (isZero : V → Bool) (src : VF V) (m : Mesh) (nv : Nat)
    (hm : m.Inv) (hs : src.mesh.Inv) (hnd : src.mesh.ndim = m.ndim)
    (hdims : m.region.dims = src.mesh.region.dims) (hnv : src.nvdim = nv)
    (hin : ∀ a, a < m.ndim → src.mesh.region.lo a ≤ m.region.lo a ∧ m.region.hi a ≤ src.mesh.region.hi a) :
    ∃ b, asArray isZero (.leaf (.field src)) m nv = .ok b ∧ b.shape = m.n ++ [nv] ∧
      ∀ i c, inRange m.n i = true →
        b.get (i ++ [c]) =
          src.data.get ((tab m.ndim fun a => src.mesh.indexAx a (m.centreAx a (i.getD a 0 : Nat))) ++ [c]) := by
  obtain ⟨b, hb, hshape, hget⟩ := asArray_field isZero src m nv hm hs hnd hdims hnv hin
  refine ⟨b, hb, hshape, fun i c hi => ?_⟩
  rw [(hget i c hi).1, nearestIdx_eq_indexAx src.mesh m hm hs hnd hin i hi]

/-- TIES.  If along axis `a` the centre of target cell `i` lies exactly on the face between the
source cells `k − 1` and `k`, the UPPER cell `k` is read (both are "a source cell containing that
centre", the code always takes this one). -/
theorem asArray_field_tie_upper (isZero : V → Bool) (src : VF V) (m : Mesh) (nv : Nat)
    (hm : m.Inv) (hs : src.mesh.Inv) (hnd : src.mesh.ndim = m.ndim)
    (hdims : m.region.dims = src.mesh.region.dims) (hnv : src.nvdim = nv)
    (hin : ∀ a, a < m.ndim → src.mesh.region.lo a ≤ m.region.lo a ∧ m.region.hi a ≤ src.mesh.region.hi a)
    (i : List Nat) (hi : inRange m.n i = true) (a : Nat) (ha : a < m.ndim) (k : Nat) (hk : k < src.mesh.nAt a)
    (hface : m.centreAx a (i.getD a 0 : Nat) = src.mesh.region.lo a + (k : Rat) * src.mesh.cellAt a) :
    ∃ b, asArray isZero (.leaf (.field src)) m nv = .ok b ∧
      ∃ js, js.getD a 0 = k ∧ ∀ c, b.get (i ++ [c]) = src.data.get (js ++ [c]) := by
  obtain ⟨b, hb, _, hget⟩ := asArray_field_reads_floor_cell isZero src m nv hm hs hnd hdims hnv hin
  refine ⟨b, hb, _, ?_, fun c => hget i c hi⟩
  rw [getD_tab _ _ _ _ ha, hface]
  exact indexAx_face src.mesh a k hk (inv_lo_lt_hi _ hs a (by rw [hnd]; exact ha))

/-- COARSER / FINER / SHIFTED source meshes, axis by axis.  Let `js` be the index of the source cell
that target cell `i` reads.  Along an axis where source and target have the same edge and the source
has `r` times FEWER cells, `js_a = i_a / r`; where it has `r` times MORE cells, `js_a = r·i_a + r/2`
(odd `r`: the middle one of the `r` source cells inside the target cell; even `r`: the target centre
is on a source face and the upper neighbour is read); where the cell sizes agree and the target's
lower corner lies `s` source cells above the source's, `js_a = s + i_a`. -/
theorem asArray_field_closed_forms (isZero : V → Bool) (src : VF V) (m : Mesh) (nv : Nat)
    (hm : m.Inv) (hs : src.mesh.Inv) (hnd : src.mesh.ndim = m.ndim)
    (hdims : m.region.dims = src.mesh.region.dims) (hnv : src.nvdim = nv)
    (hin : ∀ a, a < m.ndim → src.mesh.region.lo a ≤ m.region.lo a ∧ m.region.hi a ≤ src.mesh.region.hi a)
    (i : List Nat) (hi : inRange m.n i = true) :
    ∃ b js, asArray isZero (.leaf (.field src)) m nv = .ok b ∧ (∀ c, b.get (i ++ [c]) = src.data.get (js ++ [c])) ∧
      js.length = m.ndim ∧
      (∀ a r, a < m.ndim → 0 < r → src.mesh.region.lo a = m.region.lo a → src.mesh.region.hi a = m.region.hi a →
        m.nAt a = r * src.mesh.nAt a → js.getD a 0 = i.getD a 0 / r) ∧
      (∀ a r, a < m.ndim → 0 < r → src.mesh.region.lo a = m.region.lo a → src.mesh.region.hi a = m.region.hi a →
        src.mesh.nAt a = r * m.nAt a → js.getD a 0 = r * i.getD a 0 + r / 2) ∧
      (∀ (a s : Nat), a < m.ndim → src.mesh.cellAt a = m.cellAt a →
        m.region.lo a = src.mesh.region.lo a + (s : Rat) * src.mesh.cellAt a → s + i.getD a 0 < src.mesh.nAt a →
        js.getD a 0 = s + i.getD a 0) := by
  obtain ⟨b, hb, _, hget⟩ := asArray_field_reads_floor_cell isZero src m nv hm hs hnd hdims hnv hin
  obtain ⟨_, hib⟩ := (inRange_iff m.n i).mp hi
  have hlen : m.n.length = m.ndim := hm.2.1
  have hia : ∀ a, a < m.ndim → i.getD a 0 < m.nAt a := fun a ha => hib a (by omega)
  refine ⟨b, _, hb, fun c => hget i c hi, by simp, fun a r ha hr h1 h2 h3 => ?_, fun a r ha hr h1 h2 h3 => ?_,
    fun a s ha h1 h2 h3 => ?_⟩
  · rw [getD_tab _ _ _ _ ha]
    exact indexAx_coarser src.mesh m a r _ hr h1 h2 h3 (hia a ha) (inv_lo_lt_hi m hm a ha)
  · rw [getD_tab _ _ _ _ ha]
    exact indexAx_finer src.mesh m a r _ hr h1 h2 h3 (hia a ha) (inv_lo_lt_hi m hm a ha)
  · rw [getD_tab _ _ _ _ ha]
    exact indexAx_shifted src.mesh m a s _ h1 h2 h3 (inv_lo_lt_hi _ hs a (by rw [hnd]; exact ha))

/-! ## round 2: the stored array is a NEW array (ownership) -/

/-- NO ALIASING, for every history.  In a session of field objects and arrays in which different
objects hold different arrays (`Sess.Sep`; true of freshly created fields), after ANY sequence of
assignments through the setter / `update_field_values` / the constructor — with another field of the
session, an array of the session or any other value as the source — and in-place writes: different
objects still hold different arrays, so an in-place write through one object (`f.array[j] = v`)
changes that object's array and no other object's. -/
theorem no_aliasing_ever (isZero : V → Bool) (st : Sess V) (h : st.Sep) (prog : List (Stmt V)) :
    (st.run isZero prog).Sep ∧
    ∀ i k j v, i < (st.run isZero prog).objs.length → k < (st.run isZero prog).objs.length → i ≠ k →
      (((st.run isZero prog).step isZero (.poke ((st.run isZero prog).obj i).addr j v)).1.field k
        = (st.run isZero prog).field k) ∧
      (((st.run isZero prog).step isZero (.poke ((st.run isZero prog).obj i).addr j v)).1.field i
        = { (st.run isZero prog).field i with data := pokeNDA ((st.run isZero prog).field i).data j v }) := by
  have hsep := run_sep isZero st prog h
  refine ⟨hsep, fun i k j v hi hk hne => ?_⟩
  have hb := hsep.1 i hi
  have e : ((st.run isZero prog).step isZero (.poke ((st.run isZero prog).obj i).addr j v)).1
      = written (st.run isZero prog) ((st.run isZero prog).obj i).addr
          (pokeNDA ((st.run isZero prog).buf ((st.run isZero prog).obj i).addr) j v) := by
    simp only [Sess.step, hb, if_true]; rfl
  rw [e]
  obtain ⟨w1, w2, _⟩ := written_fields (st.run isZero prog) _
    (pokeNDA ((st.run isZero prog).buf ((st.run isZero prog).obj i).addr) j v) hb
  exact ⟨w1 k (hsep.2 k i hk hi (fun e => hne e.symm)), w2 i rfl⟩

/-- A FIELD AS VALUE IS COPIED.  After `objs[i].array = objs[j]` (or `update_field_values`), object
`i` holds the array the conversion assigns — for a source on the same mesh: the source's values
cell by cell (`asArray_field_same_mesh`) — in a buffer that did not exist before; and whatever is
done afterwards to the SOURCE, to any other object and to any other array (in-place writes,
assignments, new fields: any history not assigning to `i` or writing into `i`'s own array) leaves
object `i`'s array exactly as assigned. -/
theorem field_value_is_copied (isZero : V → Bool) (st : Sess V) (h : st.Sep) (i : Nat) (src : Src V) (upd : Bool)
    (hacc : (st.step isZero (if upd then .upd i src else .set i src)).2 = true) :
    ∃ a, (if upd then updateValues isZero (st.spec src) (st.obj i).mesh (st.obj i).nvdim
          else asArray isZero (st.spec src) (st.obj i).mesh (st.obj i).nvdim) = .ok a ∧
      i < st.objs.length ∧
      (st.step isZero (if upd then .upd i src else .set i src)).1 = assigned st i a ∧
      (assigned st i a).field i = { st.field i with data := a } ∧
      ((assigned st i a).obj i).addr = st.store.length ∧
      (∀ k, k < st.objs.length → k ≠ i → (assigned st i a).field k = st.field k) ∧
      ∀ prog : List (Stmt V),
        (∀ c ∈ prog, c.assigns i = false ∧ c.writes st.store.length = false) →
        ((assigned st i a).run isZero prog).field i = { st.field i with data := a } := by
  have key : ∀ (r : M (NDA V)) (c : Stmt V),
      (st.step isZero c) = (if i < st.objs.length then
        match r with
        | .error _ => (st, false)
        | .ok a => (assigned st i a, true) else (st, false)) →
      (st.step isZero c).2 = true → ∃ a, r = .ok a ∧ i < st.objs.length ∧ (st.step isZero c).1 = assigned st i a := by
    intro r c hc hacc
    rw [hc] at hacc ⊢
    by_cases hi : i < st.objs.length
    · rw [if_pos hi] at hacc ⊢
      cases r with
      | error e => simp at hacc
      | ok a => exact ⟨a, rfl, hi, rfl⟩
    · simp [hi] at hacc
  have main : ∃ a, (if upd then updateValues isZero (st.spec src) (st.obj i).mesh (st.obj i).nvdim
          else asArray isZero (st.spec src) (st.obj i).mesh (st.obj i).nvdim) = .ok a ∧
      i < st.objs.length ∧ (st.step isZero (if upd then .upd i src else .set i src)).1 = assigned st i a := by
    cases upd with
    | true =>
      simp only [if_true] at hacc ⊢
      exact key _ _ rfl hacc
    | false =>
      simp only [Bool.false_eq_true, if_false] at hacc ⊢
      exact key _ _ rfl hacc
  obtain ⟨a, ha, hi, hstep⟩ := main
  obtain ⟨f1, f2, _, f4⟩ := assigned_fields st i a hi h
  refine ⟨a, ha, hi, hstep, f1, f4, f2, fun prog hprog => ?_⟩
  have hsep' := assigned_sep st i a hi h
  have := run_keeps isZero (assigned st i a) prog hsep' i (by simpa [assigned] using hi)
    (fun c hc => by rw [f4]; exact hprog c hc)
  rw [this, f1]

/-! ## round 2: dictionaries — total statement, overlap patterns, key order -/

/-- THE DICTIONARY CLAUSE WITH HYPOTHESES ON THE INPUTS ONLY.  On a mesh whose subregions are unions
of cells (any number, any overlap pattern), a well-formed dictionary (`dictWF`; default absent,
constant, function or field) is accepted, the result has shape `(*n, nvdim)`, and EVERY cell holds
what the FIRST LISTED subregion that is a key and contains the cell's centre assigns to it, and
otherwise what the default assigns. -/
theorem asArray_dict_total (isZero : V → Bool) (items : List (String × Leaf V)) (dflt : Option (Dflt V))
    (m : Mesh) (hm : m.Inv) (nv : Nat) (hnv : 0 < nv) (k1 k2 : String × Region → Nat → Nat)
    (hal : ∀ p ∈ m.subs, AlignedSub m p.2 (k1 p) (k2 p))
    (hwf : dictWF isZero items dflt m nv k1 k2) :
    ∃ a, asArray isZero (.dict items dflt) m nv = .ok a ∧ a.shape = m.n ++ [nv] ∧
      ∀ i c, inRange m.n i = true → c < nv →
        a.get (i ++ [c]) =
          match m.subs.find? (listedContains items m i) with
          | some p => cellOf isZero items m nv k1 k2 i c p
          | none => dfltVal dflt m nv i c := by
  obtain ⟨a, ha⟩ := dict_ok_of_wf isZero items dflt m hm nv hnv k1 k2 hal hwf
  exact ⟨a, ha, asArray_shape isZero _ m nv a ha, fun i c hi hc =>
    asArray_dict_first_containing isZero items dflt m hm nv a k1 k2 hal ha i hi c hc⟩

/-- EVERY OVERLAP PATTERN.  Split the list of subregions anywhere: `pre ++ p :: post`.  If `p` is a
key of the dictionary and contains the centre of cell `i`, and no subregion of `pre` does, then cell
`i` holds what `p`'s entry assigns — whatever subregions follow in `post`, however many of them also
contain the cell, and whatever their entries are. -/
theorem dict_overlap_first_wins (isZero : V → Bool) (items : List (String × Leaf V)) (dflt : Option (Dflt V))
    (m : Mesh) (hm : m.Inv) (nv : Nat) (a : NDA V) (k1 k2 : String × Region → Nat → Nat)
    (hal : ∀ p ∈ m.subs, AlignedSub m p.2 (k1 p) (k2 p))
    (h : asArray isZero (.dict items dflt) m nv = .ok a)
    (pre post : List (String × Region)) (p : String × Region) (hsplit : m.subs = pre ++ p :: post)
    (i : List Nat) (hi : inRange m.n i = true) (c : Nat) (hc : c < nv)
    (hpre : ∀ q ∈ pre, listedContains items m i q = false) (hp : listedContains items m i p = true) :
    a.get (i ++ [c]) = cellOf isZero items m nv k1 k2 i c p := by
  rw [asArray_dict_first_containing isZero items dflt m hm nv a k1 k2 hal h i hi c hc, hsplit,
    List.find?_append]
  have : pre.find? (listedContains items m i) = none := by
    rw [List.find?_eq_none]; intro q hq; simp [hpre q hq]
  rw [this]
  simp [hp]

/-- … and a cell that no listed subregion contains holds the default's value, for every kind of
default: the constant (broadcast), the function's value at the cell centre, the field's sample at
the cell centre. -/
theorem dict_uncovered_default (isZero : V → Bool) (items : List (String × Leaf V)) (dflt : Option (Dflt V))
    (m : Mesh) (hm : m.Inv) (nv : Nat) (a : NDA V) (k1 k2 : String × Region → Nat → Nat)
    (hal : ∀ p ∈ m.subs, AlignedSub m p.2 (k1 p) (k2 p))
    (h : asArray isZero (.dict items dflt) m nv = .ok a)
    (i : List Nat) (hi : inRange m.n i = true) (c : Nat) (hc : c < nv)
    (hun : ∀ q ∈ m.subs, listedContains items m i q = false) :
    a.get (i ++ [c]) = dfltVal dflt m nv i c ∧
    (∀ d, dflt = some (.val d) → a.get (i ++ [c]) = d.get (bcastIdx (m.n ++ [nv]) d.shape (i ++ [c]))) ∧
    (∀ fn, dflt = some (.func fn) → a.get (i ++ [c]) = (fn (m.centre i)).getD c default) ∧
    (∀ src vs, dflt = some (.field src) → src.call (m.centre i) = .ok vs → a.get (i ++ [c]) = vs.getD c default) := by
  have e : a.get (i ++ [c]) = dfltVal dflt m nv i c := by
    rw [asArray_dict_first_containing isZero items dflt m hm nv a k1 k2 hal h i hi c hc]
    have : m.subs.find? (listedContains items m i) = none := by
      rw [List.find?_eq_none]; intro q hq; simp [hun q hq]
    rw [this]
  refine ⟨e, fun d hd => ?_, fun fn hd => ?_, fun src vs hd hvs => ?_⟩
  · rw [e, hd]; rfl
  · rw [e, hd]; rfl
  · rw [e, hd]; simp [dfltVal, hvs]

/-- THE ORDER OF THE KEYS of the value dictionary is irrelevant (only the order of
`mesh.subregions` decides): two dictionaries with the same entries in another insertion order
(keys pairwise different, as in every Python dictionary) are converted to the same result —
accepted or rejected alike. -/
theorem dict_key_order_irrelevant (isZero : V → Bool) (items items' : List (String × Leaf V))
    (dflt : Option (Dflt V)) (m : Mesh) (nv : Nat) (hp : items.Perm items') (hnd : (items.map (·.1)).Nodup) :
    asArray isZero (.dict items dflt) m nv = asArray isZero (.dict items' dflt) m nv :=
  asArray_dict_congr isZero items items' dflt m nv (lookupLeaf_perm items items' hp hnd)

/-! ## round 2: lines — acceptance as an equivalence, and the whole data frame from the inputs -/

omit [Inhabited V] in
/-- A point can be sampled EXACTLY when the region contains it (with the region's tolerance). -/
theorem call_ok_iff (f : VF V) (p : List Rat) :
    (∃ vs, f.call p = .ok vs) ↔ f.mesh.region.containsPt p = true := by
  unfold VF.call Mesh.point2index
  by_cases hl : p.length = f.mesh.ndim
  · by_cases hc : f.mesh.region.containsPt p = true
    · simp [hl, hc]
    · simp [hl, hc]
  · have : f.mesh.region.containsPt p = false := by
      unfold Region.containsPt
      have : ¬ p.length = f.mesh.region.ndim := hl
      simp [this]
    simp [hl, this]

omit [Inhabited V] in
/-- A line is accepted EXACTLY when both end points are in the region (with the region's
tolerance), at least two points are requested and every point of the line can be sampled. -/
theorem line_ok_iff (f : VF V) (p1 p2 : List Rat) (n : Nat) :
    (∃ o, f.line p1 p2 n = .ok o) ↔
      f.mesh.region.containsPt p1 = true ∧ f.mesh.region.containsPt p2 = true ∧ 2 ≤ n ∧
      ∀ j, j < n → f.mesh.region.containsPt (tab f.mesh.ndim fun a =>
        p1.getD a 0 + (j : Rat) * ((p2.getD a 0 - p1.getD a 0) / ((n : Rat) - 1))) = true := by
  constructor
  · rintro ⟨o, h⟩
    obtain ⟨hml, hv, _⟩ := line_ok f p1 p2 n o h
    obtain ⟨hc1, hc2, hn, hpts⟩ := meshLine_ok _ _ _ _ _ hml
    refine ⟨hc1, hc2, hn, fun j hj => ?_⟩
    have hmem : f.call (tab f.mesh.ndim fun a =>
        p1.getD a 0 + (j : Rat) * ((p2.getD a 0 - p1.getD a 0) / ((n : Rat) - 1))) ∈ o.points.map f.call := by
      rw [hpts]
      exact List.mem_map.mpr ⟨_, (mem_tab _ _ _).mpr ⟨j, hj, rfl⟩, rfl⟩
    rw [hv] at hmem
    obtain ⟨vs, _, hvs⟩ := List.mem_map.mp hmem
    exact (call_ok_iff f _).mp ⟨vs, hvs.symm⟩
  · rintro ⟨hc1, hc2, hn, hall⟩
    have hml : meshLine f.mesh p1 p2 n = .ok (tab n fun i => tab f.mesh.ndim fun a =>
        p1.getD a 0 + (i : Rat) * ((p2.getD a 0 - p1.getD a 0) / ((n : Rat) - 1))) := by
      unfold meshLine
      have : ¬ n < 2 := by omega
      simp [hc1, hc2, this]
    obtain ⟨vals, hvals⟩ := seqM_map_ok (tab n fun i => tab f.mesh.ndim fun a =>
        p1.getD a 0 + (i : Rat) * ((p2.getD a 0 - p1.getD a 0) / ((n : Rat) - 1))) f.call (by
      intro pt hpt
      obtain ⟨j, hj, rfl⟩ := (mem_tab _ _ _).mp hpt
      exact (call_ok_iff f _).mpr (hall j hj))
    unfold VF.line
    rw [hml]
    simp only [hvals]
    exact ⟨_, rfl⟩

/-- THE LINE CLAUSE WITH HYPOTHESES ON THE INPUTS ONLY, for every number of mesh dimensions and every
component count.  Two points of the region, `n ≥ 2`, and column names `r`, the mesh dimensions, the
value columns pairwise different: `Field.line(p1, p2, n).data` exists, its columns are
`r, *dims, *value columns` in this order; column `r` has `n` entries `r_j² = j²·|p2 − p1|²/(n − 1)²`
(held squared); the column of dimension `a` has the `n` equally spaced coordinates
`p1_a + j·(p2_a − p1_a)/(n − 1)` — first `p1_a`, last `p2_a`; the `c`-th value column has `n` entries,
entry `j` being component `c` of the stored value of a cell that contains point `j`. -/
theorem lineData_total (f : VF V) (hm : f.mesh.Inv) (p1 p2 : List Rat) (n : Nat) (hn : 2 ≤ n)
    (h1 : f.mesh.region.containsExact p1) (h2 : f.mesh.region.containsExact p2)
    (hnd : ("r" :: (f.mesh.region.dims ++ (valueColumns f.vdims f.nvdim).take f.nvdim)).Nodup) :
    ∃ fr, f.lineData p1 p2 n = .ok fr ∧
      colNames fr = "r" :: (f.mesh.region.dims ++ (valueColumns f.vdims f.nvdim).take f.nvdim) ∧
      (∃ rs, colOf fr "r" = some (.dist2 rs) ∧ rs.length = n ∧
        ∀ j, j < n → rs.getD j 0 = ((j : Rat) * (j : Rat)) / (((n : Rat) - 1) * ((n : Rat) - 1)) * sqDist p2 p1) ∧
      (∀ a, a < f.mesh.region.dims.length →
        ∃ xs, colOf fr (f.mesh.region.dims.getD a "") = some (.num xs) ∧ xs.length = n ∧
          xs.getD 0 0 = p1.getD a 0 ∧ xs.getD (n - 1) 0 = p2.getD a 0 ∧
          ∀ j, j < n → xs.getD j 0 = p1.getD a 0 + (j : Rat) * ((p2.getD a 0 - p1.getD a 0) / ((n : Rat) - 1))) ∧
      (∀ c, c < f.nvdim → c < (valueColumns f.vdims f.nvdim).length →
        ∃ vs, colOf fr ((valueColumns f.vdims f.nvdim).getD c "") = some (.val vs) ∧ vs.length = n ∧
          ∀ j, j < n → ∃ i, inRange f.mesh.n i = true ∧ vs.getD j default = f.data.get (i ++ [c]) ∧
            ∀ a, a < f.mesh.ndim →
              f.mesh.region.lo a + (i.getD a 0 : Rat) * f.mesh.cellAt a
                ≤ p1.getD a 0 + (j : Rat) * ((p2.getD a 0 - p1.getD a 0) / ((n : Rat) - 1)) ∧
              (p1.getD a 0 + (j : Rat) * ((p2.getD a 0 - p1.getD a 0) / ((n : Rat) - 1))
                  < f.mesh.region.lo a + ((i.getD a 0 : Rat) + 1) * f.mesh.cellAt a ∨
                (i.getD a 0 = f.mesh.nAt a - 1 ∧
                  p1.getD a 0 + (j : Rat) * ((p2.getD a 0 - p1.getD a 0) / ((n : Rat) - 1)) = f.mesh.region.hi a))) := by
  obtain ⟨fr, hfr⟩ := lineData_accepts f p1 p2 n hn h1 h2
  obtain ⟨o, ho, hnames, hr, hdimc, hvalc⟩ := lineData_columns f p1 p2 n fr hfr hnd
  obtain ⟨hpl, hvl, hrl, hpts⟩ := line_points f p1 p2 n o ho
  obtain ⟨he1, he2⟩ := line_ends f p1 p2 n o ho
  have hdl : f.mesh.region.dims.length = f.mesh.ndim := hm.1.2.2.1
  have hmapget : ∀ (g : List Rat → Rat) j, j < n → (o.points.map g).getD j 0 = g (o.points.getD j []) := by
    intro g j hj
    simp [List.getD_eq_getElem?_getD, hpl, hj]
  refine ⟨fr, hfr, hnames, ⟨o.r2, hr, hrl, fun j hj => line_r2 f p1 p2 n o ho j hj⟩, fun a ha => ?_, fun c hc hc' => ?_⟩
  · have ha' : a < f.mesh.ndim := by rw [← hdl]; exact ha
    refine ⟨_, hdimc a ha, by simp [hpl], ?_, ?_, fun j hj => ?_⟩
    · rw [hmapget _ 0 (by omega), he1]
    · rw [hmapget _ (n - 1) (by omega), he2]
    · rw [hmapget _ j hj, hpts j a hj ha']
  · refine ⟨_, hvalc c hc hc', by simp [hvl], fun j hj => ?_⟩
    obtain ⟨i, hir, hval, hbox⟩ := line_values_cell f hm p1 p2 n o ho h1 h2 j hj
    refine ⟨i, hir, ?_, fun a ha => ?_⟩
    · have : (o.values.map fun v => v.getD c default).getD j default = (o.values.getD j []).getD c default := by
        simp [List.getD_eq_getElem?_getD, hvl, hj]
      rw [this, hval]
      unfold row
      rw [getD_tab _ _ _ _ hc]
    · have := hbox a ha
      rw [hpts j a hj ha] at this
      exact this

/-! ## round 2: value types — which kind of array is stored -/

/-- REQUESTED dtype: whatever the form of the specification (number, array, function, dictionary,
field) and whatever the kind of the values, the setter, `update_field_values` and the constructor
store an array of the requested kind. -/
theorem kind_requested (k vk : Kind) (s : Spec V) (m : Mesh) (nv : Nat) :
    specKind (some k) vk s m nv = k ∧ updKind (some k) vk s m nv = k := by
  constructor
  · cases s with
    | dict items dflt => rfl
    | leaf l =>
      cases l with
      | arr a => simp only [specKind, leafKind]; split <;> rfl
      | _ => rfl
  · simp only [updKind, leafKind]; split <;> rfl

/-- NO dtype requested, `update_field_values` / constructor (two conversions): the stored array is
float or complex, never bool or int — `max(kind of the first conversion, float64)` — and it is
complex exactly when a COMPLEX number, array or source field is given; functions and dictionaries
always give float (complex values need `dtype=`). -/
theorem kind_not_requested_update (vk : Kind) (s : Spec V) (m : Mesh) (nv : Nat) :
    updKind none vk s m nv = Kind.pmax (specKind none vk s m nv) .float ∧
    (updKind none vk s m nv = .float ∨ updKind none vk s m nv = .complex) ∧
    (updKind none vk s m nv = .complex ↔
      vk = .complex ∧ ((∃ v, s = .leaf (.scalar v)) ∨ (∃ a, s = .leaf (.arr a)) ∨ ∃ src, s = .leaf (.field src))) := by
  have h0 : updKind none vk s m nv = Kind.pmax (specKind none vk s m nv) .float := by
    simp only [updKind, leafKind]
    have : ¬ (nv = 1 ∧ (NDA.const (m.n ++ [nv]) (default : V)).shape = m.n) := by
      rintro ⟨_, h⟩
      have := congrArg List.length h
      simp [NDA.const] at this
    rw [if_neg this]
  rw [h0]
  cases s with
  | dict items dflt =>
    refine ⟨rfl, Or.inl rfl, ?_⟩
    simp [specKind, Kind.pmax, Kind.rank]
  | leaf l =>
    cases l with
    | bad => refine ⟨rfl, Or.inl rfl, ?_⟩; simp [specKind, leafKind, Kind.pmax, Kind.rank]
    | func g => refine ⟨rfl, Or.inl rfl, ?_⟩; simp [specKind, leafKind, Kind.pmax, Kind.rank]
    | scalar v =>
      refine ⟨rfl, ?_, ?_⟩ <;> cases vk <;> simp [specKind, leafKind, Kind.pmax, Kind.rank]
    | field src =>
      refine ⟨rfl, ?_, ?_⟩ <;> cases vk <;> simp [specKind, leafKind, Kind.pmax, Kind.rank]
    | arr a =>
      refine ⟨rfl, ?_, ?_⟩ <;> cases vk <;> simp only [specKind, leafKind] <;> split <;>
        simp [Kind.pmax, Kind.rank]

/-- NO dtype requested, the `array` setter (one conversion): the stored kind is below float — the
field silently becomes a bool or int field — in exactly two situations: a bool/int array of the
cells' shape `n` assigned to a scalar field (the `np.array(val, dtype=None)` shortcut), and a source
field whose array is bool/int.  The setter and the two-pass paths therefore store the SAME kind
exactly when a dtype was requested or the single conversion already yields float or complex. -/
theorem kind_setter_vs_update (dtype : Option Kind) (vk : Kind) (s : Spec V) (m : Mesh) (nv : Nat) :
    ((specKind none vk s m nv).rank < Kind.float.rank ↔
      vk.rank < Kind.float.rank ∧
        ((∃ a, s = .leaf (.arr a) ∧ nv = 1 ∧ a.shape = m.n) ∨ ∃ src, s = .leaf (.field src))) ∧
    (specKind dtype vk s m nv = updKind dtype vk s m nv ↔
      dtype.isSome = true ∨ Kind.float.rank ≤ (specKind none vk s m nv).rank) := by
  constructor
  · cases s with
    | dict items dflt => simp [specKind, Kind.rank]
    | leaf l =>
      cases l with
      | bad => simp [specKind, leafKind, Kind.rank]
      | func g => simp [specKind, leafKind, Kind.rank]
      | scalar v => cases vk <;> simp [specKind, leafKind, Kind.pmax, Kind.rank]
      | field src => simp [specKind, leafKind]
      | arr a =>
        simp only [specKind, leafKind]
        split
        · rename_i h; simp [h]
        · rename_i h
          cases vk <;> simp [Kind.pmax, Kind.rank] <;> intro h1 h2 <;> exact h ⟨h1, h2⟩
  · cases dtype with
    | some k =>
      obtain ⟨h1, h2⟩ := kind_requested k vk s m nv
      simp [h1, h2]
    | none =>
      rw [(kind_not_requested_update vk s m nv).1]
      simp only [Option.isSome_none, Bool.false_eq_true, false_or]
      generalize specKind none vk s m nv = k
      cases k <;> simp [Kind.pmax, Kind.rank]

/-! ## round 2: points let through by the region's tolerance; more equivalences -/

omit [Inhabited V] in
/-- Sampling at EVERY point the region accepts — also one that lies outside by less than the region's
comparison tolerance: the stored row of a cell is returned whose index along each axis is 0 when the
coordinate is at or below the lower face, the last index when it is at or above the upper face, and
otherwise the index of the cell containing the coordinate (`call_cell_contains`). -/
theorem call_tolerance_clips (f : VF V) (hm : f.mesh.Inv) (p : List Rat) (hc : f.mesh.region.containsPt p = true) :
    ∃ i, f.call p = .ok (row f.data f.nvdim i) ∧ inRange f.mesh.n i = true ∧
      ∀ a, a < f.mesh.ndim →
        (p.getD a 0 ≤ f.mesh.region.lo a → i.getD a 0 = 0) ∧
        (f.mesh.region.hi a ≤ p.getD a 0 → i.getD a 0 = f.mesh.nAt a - 1) ∧
        (f.mesh.region.lo a ≤ p.getD a 0 → p.getD a 0 ≤ f.mesh.region.hi a →
          f.mesh.region.lo a + (i.getD a 0 : Rat) * f.mesh.cellAt a ≤ p.getD a 0 ∧
          (p.getD a 0 < f.mesh.region.lo a + ((i.getD a 0 : Rat) + 1) * f.mesh.cellAt a ∨
            (i.getD a 0 = f.mesh.nAt a - 1 ∧ p.getD a 0 = f.mesh.region.hi a))) := by
  have hl := containsPt_length _ _ hc
  have hpi : f.mesh.point2index p = .ok (tab f.mesh.ndim fun a => f.mesh.indexAx a (p.getD a 0)) := by
    unfold Mesh.point2index
    have : ¬ p.length ≠ f.mesh.ndim := by
      have h' : p.length = f.mesh.ndim := hl
      simp [h']
    simp [this, hc]
  refine ⟨_, ((call_eq f p).1 _ hpi).1, ?_, fun a ha => ?_⟩
  · rw [inRange_iff]
    refine ⟨by rw [tab_length]; exact hm.2.1.symm, fun a ha => ?_⟩
    have ha' : a < f.mesh.ndim := by have := hm.2.1; unfold Mesh.ndim; omega
    rw [getD_tab _ _ _ _ ha']
    exact indexAx_lt f.mesh a _ (inv_n_pos _ hm a ha')
  · rw [getD_tab _ _ _ _ ha]
    have hn := inv_n_pos _ hm a ha
    have hr := inv_lo_lt_hi _ hm a ha
    exact ⟨fun h => indexAx_low f.mesh a _ hn hr h, fun h => indexAx_high f.mesh a _ hn hr h,
      fun h1 h2 => (indexAx_contains f.mesh a _ hn hr h1 h2).2⟩

/-- Component access is accepted EXACTLY for the labels of the field. -/
theorem comp_ok_iff (isZero : V → Bool) (f : VF V) (label : String) :
    (∃ g, f.comp isZero label = .ok g) ↔ ∃ vs, f.vdims = some vs ∧ label ∈ vs := by
  constructor
  · rintro ⟨g, hg⟩
    obtain ⟨_, _, _, vs, k, hvs, hk, hget, _⟩ := comp_eq isZero f label g hg
    refine ⟨vs, hvs, ?_⟩
    rw [← hget]
    simp [List.getD_eq_getElem?_getD, hk]
  · rintro ⟨vs, hvs, hmem⟩
    cases hidx : indexOf? vs label with
    | some k => exact comp_accepts isZero f label vs k hvs hidx
    | none =>
      exfalso
      have : ∀ (xs : List String) (k0 : Nat), label ∈ xs → indexOf?.go label xs k0 ≠ none := by
        intro xs
        induction xs with
        | nil => intro _ h; cases h
        | cons y ys ih =>
          intro k0 h
          simp only [indexOf?.go]
          split
          · simp
          · rename_i hne
            rcases List.mem_cons.mp h with e | e
            · exact absurd e.symm hne
            · exact ih (k0 + 1) e
      exact this vs 0 hmem hidx

/-- The constructor is accepted EXACTLY for at least one component, a well-formed value
(`Spec.WF`) and acceptable labels. -/
theorem new_ok_iff (isZero : V → Bool) (reserved : List String) (m : Mesh) (hm : m.Inv) (nv : Nat) (s : Spec V)
    (vdims : Option (List String)) (k1 k2 : String × Region → Nat → Nat)
    (hal : ∀ p ∈ m.subs, AlignedSub m p.2 (k1 p) (k2 p)) :
    (∃ g, VF.new? isZero reserved m nv s vdims = .ok g) ↔
      1 ≤ nv ∧ Spec.WF isZero s m nv k1 k2 ∧ ∃ vd, vdimsSet reserved nv vdims = .ok vd := by
  obtain ⟨n1, n2, n3, n4⟩ := new_stores_spec isZero reserved m nv s vdims
  constructor
  · rintro ⟨g, hg⟩
    have hnv : 1 ≤ nv := by
      by_contra hc
      rw [n1 (by omega)] at hg; cases hg
    refine ⟨hnv, ?_, ?_⟩
    · rw [← spec_ok_iff isZero s m hm nv hnv k1 k2 hal]
      cases ha : asArray isZero s m nv with
      | ok a => exact ⟨a, rfl⟩
      | error e => rw [n3 e hnv ha] at hg; cases hg
    · cases ha : asArray isZero s m nv with
      | error e => rw [n3 e hnv ha] at hg; cases hg
      | ok a =>
        cases hv : vdimsSet reserved nv vdims with
        | ok vd => exact ⟨vd, rfl⟩
        | error e => rw [n4 a e hnv ha hv] at hg; cases hg
  · rintro ⟨hnv, hwf, vd, hvd⟩
    obtain ⟨a, ha⟩ := (spec_ok_iff isZero s m hm nv hnv k1 k2 hal).mpr hwf
    obtain ⟨g, hg, _⟩ := n2 a vd hnv ha hvd
    exact ⟨g, hg⟩

/-! ## round 2: the driver's fast conversion of a source field is the code-shaped one -/

/-- VERIFIED OPTIMISATION.  Whenever both meshes satisfy the mesh invariant and the source region
contains the target region exactly (`fieldFastOk`, a decidable test the driver runs), converting a
source field with the closed formula of the source cell (`asLeafFieldFast`: per axis
`floor((centre − src.pmin)/src.cell)`, clipped) gives the same outcome as the code-shaped conversion
with its nearest-centre scan: rejected with the same error, or accepted with the same shape and the
same entries.  (The driver uses the fast form for source fields with thousands of cells.) -/
theorem field_fast_path_equal (isZero : V → Bool) (src : VF V) (m : Mesh) (nv : Nat) (h : fieldFastOk src m = true) :
    (∀ e, asArray isZero (.leaf (.field src)) m nv = .error e ↔ asLeafFieldFast src m nv = .error e) ∧
    (∀ a, asArray isZero (.leaf (.field src)) m nv = .ok a →
      ∃ b, asLeafFieldFast src m nv = .ok b ∧ b.shape = a.shape ∧
        ∀ j, inRange (m.n ++ [nv]) j = true → b.get j = a.get j) :=
  asLeafFieldFast_eq isZero src m nv h

/-! ## round 2: end to end — dictionary, then sample; same-mesh source in a session -/

/-- A field constructed from a well-formed DICTIONARY over subregions (any overlap pattern, any kind of
default), sampled at ANY point of the region, returns — component by component — what the FIRST LISTED
subregion that is a key and contains the centre of the cell containing the point assigns to that cell,
otherwise the default's value for that cell. -/
theorem construct_dict_call (isZero : V → Bool) (reserved : List String) (m : Mesh) (hm : m.Inv) (nv : Nat)
    (items : List (String × Leaf V)) (dflt : Option (Dflt V)) (k1 k2 : String × Region → Nat → Nat)
    (hal : ∀ p ∈ m.subs, AlignedSub m p.2 (k1 p) (k2 p))
    (vdims : Option (List String)) (g : VF V)
    (h : VF.new? isZero reserved m nv (.dict items dflt) vdims = .ok g)
    (p : List Rat) (hp : m.region.containsExact p) :
    ∃ i vs, inRange m.n i = true ∧ g.call p = .ok vs ∧ vs.length = nv ∧
      (∀ c, c < nv → vs.getD c default =
        match m.subs.find? (listedContains items m i) with
        | some q => cellOf isZero items m nv k1 k2 i c q
        | none => dfltVal dflt m nv i c) ∧
      ∀ a, a < m.ndim →
        m.region.lo a + (i.getD a 0 : Rat) * m.cellAt a ≤ p.getD a 0 ∧
        (p.getD a 0 < m.region.lo a + ((i.getD a 0 : Rat) + 1) * m.cellAt a ∨
          (i.getD a 0 = m.nAt a - 1 ∧ p.getD a 0 = m.region.hi a)) := by
  obtain ⟨n1, n2, n3, n4⟩ := new_stores_spec isZero reserved m nv (.dict items dflt) vdims
  have hnv : 1 ≤ nv := by
    by_contra hc
    rw [n1 (by omega)] at h; cases h
  cases ha : asArray isZero (.dict items dflt) m nv with
  | error e => rw [n3 e hnv ha] at h; cases h
  | ok a =>
    cases hv : vdimsSet reserved nv vdims with
    | error e => rw [n4 a e hnv ha hv] at h; cases h
    | ok vd =>
      obtain ⟨g', hg', hgm, hgn, _, hgs, hgg⟩ := n2 a vd hnv ha hv
      rw [hg'] at h
      injection h with h; subst h
      obtain ⟨i, hcall, hir, hbox⟩ := call_cell_contains g' (by rw [hgm]; exact hm) p (by rw [hgm]; exact hp)
      rw [hgm] at hir hbox
      refine ⟨i, _, hir, hcall, by simp [row, hgn], fun c hc => ?_, hbox⟩
      rw [hgn]
      unfold row
      rw [getD_tab _ _ _ _ hc, hgg _ (by rw [inRange_snoc, hir]; simp [hc])]
      exact asArray_dict_first_containing isZero items dflt m hm nv a k1 k2 hal ha i hir c hc

/-- SAME-MESH SOURCE IN A SESSION: `objs[i].array = objs[j]` (or `update_field_values`) where both
objects live on the same mesh with the same number of components is accepted; afterwards object `i`
holds object `j`'s values cell by cell, in an array of its own: whatever is then written in place into
the SOURCE's array (or done to any other object) leaves object `i` as assigned. -/
theorem session_same_mesh_copy (isZero : V → Bool) (st : Sess V) (h : st.Sep) (i j : Nat) (upd : Bool)
    (hi : i < st.objs.length) (hmesh : (st.obj i).mesh = (st.obj j).mesh) (hnv : (st.obj i).nvdim = (st.obj j).nvdim)
    (hm : (st.obj j).mesh.Inv) :
    ∃ a, (st.step isZero (if upd then .upd i (.obj j) else .set i (.obj j))).1 = assigned st i a ∧
      (st.step isZero (if upd then .upd i (.obj j) else .set i (.obj j))).2 = true ∧
      a.shape = (st.obj j).mesh.n ++ [(st.obj j).nvdim] ∧
      (∀ k c, inRange (st.obj j).mesh.n k = true → c < (st.obj j).nvdim →
        a.get (k ++ [c]) = (st.field j).data.get (k ++ [c])) ∧
      ∀ prog : List (Stmt V),
        (∀ c ∈ prog, c.assigns i = false ∧ c.writes st.store.length = false) →
        ((assigned st i a).run isZero prog).field i = { st.field i with data := a } := by
  obtain ⟨b, hb, hbs, hbg⟩ := asArray_field_same_mesh isZero (st.field j) hm
  have hb' : asArray isZero (st.spec (.obj j)) (st.obj i).mesh (st.obj i).nvdim = .ok b := by
    rw [hmesh, hnv]; exact hb
  obtain ⟨u, hu, hus, hug⟩ := updateValues_of_ok isZero _ _ _ b hb'
  have hacc : (st.step isZero (if upd then .upd i (.obj j) else .set i (.obj j))).2 = true := by
    cases upd with
    | true => simp only [if_true, Sess.step, hi, hu]
    | false => simp only [Bool.false_eq_true, if_false, Sess.step, hi, if_true, hb']
  obtain ⟨a, ha, _, hstep, _, _, _, hkeep⟩ := field_value_is_copied isZero st h i (.obj j) upd hacc
  refine ⟨a, hstep, hacc, ?_, fun k c hk hc => ?_, hkeep⟩
  · cases upd with
    | true =>
      simp only [if_true] at ha
      rw [hu] at ha; injection ha with ha; subst ha
      rw [hus, hmesh, hnv]
    | false =>
      simp only [Bool.false_eq_true, if_false] at ha
      rw [hb'] at ha; injection ha with ha; subst ha
      exact hbs
  · cases upd with
    | true =>
      simp only [if_true] at ha
      rw [hu] at ha; injection ha with ha; subst ha
      rw [hug _ (by rw [hmesh, hnv, inRange_snoc, hk]; simp [hc])]
      exact hbg k c hk hc
    | false =>
      simp only [Bool.false_eq_true, if_false] at ha
      rw [hb'] at ha; injection ha with ha; subst ha
      exact hbg k c hk hc

/-! ## non-vacuity: a 2-d mesh, 4 × 2 cells of size 1, two overlapping subregions -/

section Ex
open Ex

/-- hypotheses of `asArray_dict`, `asArray_dict_first_listed`, `region2slices_cells` hold here:
`{"r2": 2, "r1": 1, "default": 0}` on the mesh with overlapping `r1`, `r2` is accepted -/
example : ∃ a, asArray (fun v : Rat => v == 0)
    (.dict [("r2", .scalar 2), ("r1", .scalar 1)] (some (.val (NDA.const [] 0)))) m0 1 = .ok a ∧
    a.shape = [4, 2, 1] := by
  apply asArray_dict_accepts _ _ _ m0 m0_inv 1 k1 k2 m0_aligned
  · intro p _ lf hl
    have : ∃ v, lf = .scalar v := by
      simp only [lookupLeaf, List.find?_cons, List.find?_nil] at hl
      split at hl
      · exact ⟨2, by simpa using hl.symm⟩
      · split at hl
        · exact ⟨1, by simpa using hl.symm⟩
        · cases hl
    obtain ⟨v, rfl⟩ := this
    exact ⟨NDA.const (_ ++ [1]) v, by simp [asLeaf], rfl⟩
  · decide

/-- in that field cell (1,0), which lies in both subregions, is a hit of the first listed one -/
example : (m0.subs.find? (hits [("r2", Leaf.scalar (2 : Rat)), ("r1", .scalar 1)] m0 k1 k2 [1, 0])).map (·.1)
    = some "r1" := by decide

/-- and cell (3,1) is covered by no subregion -/
example : (m0.subs.find? (hits [("r2", Leaf.scalar (2 : Rat)), ("r1", .scalar 1)] m0 k1 k2 [3, 1])).map (·.1)
    = none := by decide

/-- hypotheses of `asArray_field`: a source field on the coarser mesh 2 × 1 over the same region -/
example : ∃ sm : Mesh, sm.Inv ∧ sm.ndim = m0.ndim ∧ m0.region.dims = sm.region.dims ∧
    ∀ a, a < m0.ndim → sm.region.lo a ≤ m0.region.lo a ∧ m0.region.hi a ≤ sm.region.hi a := by
  refine ⟨⟨reg [0, 0] [4, 2], [2, 1], "", []⟩, ⟨⟨by decide, rfl, rfl, rfl, by decide, fun a ha => ?_⟩, rfl,
    fun a ha => ?_⟩, rfl, rfl, fun a ha => ?_⟩
  · rcases lt_two a ha with rfl | rfl <;> decide
  · rcases lt_two a ha with rfl | rfl <;> decide
  · rcases lt_two a ha with rfl | rfl <;> decide

/-- hypotheses of the line theorems: the diagonal of the mesh with 3 points is a line -/
example (data : NDA Rat) : ∃ o, (VF.mk m0 1 data none).line [0, 0] [4, 2] 3 = .ok o :=
  line_accepts _ _ _ _ (by omega)
    (show m0.region.containsExact [0, 0] from
      ⟨rfl, fun a ha => by rcases lt_two a ha with rfl | rfl <;> decide⟩)
    (show m0.region.containsExact [4, 2] from
      ⟨rfl, fun a ha => by rcases lt_two a ha with rfl | rfl <;> decide⟩)

/-- … and so is a segment of a ONE-dimensional mesh (6 cells on [0, 6]) -/
example (data : NDA Rat) :
    ∃ o, (VF.mk ⟨⟨[0], [6], ["x"], ["m"], 1 / 1000000000000⟩, [6], "", []⟩ 1 data none).line [1] [5] 3
      = .ok o :=
  line_accepts _ _ _ _ (by omega)
    (show Region.containsExact ⟨[0], [6], ["x"], ["m"], 1 / 1000000000000⟩ [1] from
      ⟨rfl, fun a ha => by have h0 : a = 0 := Nat.lt_one_iff.mp ha
                           subst h0; decide⟩)
    (show Region.containsExact ⟨[0], [6], ["x"], ["m"], 1 / 1000000000000⟩ [5] from
      ⟨rfl, fun a ha => by have h0 : a = 0 := Nat.lt_one_iff.mp ha
                           subst h0; decide⟩)

/-- hypothesis of `asArray_func`: `p ↦ (p_x, p_y, 1)` returns 3 values everywhere -/
example : ∀ i, inRange m0.n i = true → ((fun p : List Rat => [p.getD 0 0, p.getD 1 0, 1]) (m0.centre i)).length = 3 :=
  fun _ _ => rfl

/-- hypothesis of `comp_eq`: label `"y"` of a field with labels `x, y` -/
example (data : NDA Rat) : ∃ g, (VF.mk m0 2 data (some ["x", "y"])).comp (fun v => v == 0) "y" = .ok g :=
  comp_accepts _ _ "y" ["x", "y"] 1 rfl (by decide)

/-- `lineData_columns` / `lineData_noclash_of_labels`: labels `x, y` on the mesh with dimensions `x, y` -/
example : ("r" :: ((m0.region.dims) ++ (valueColumns (some ["x", "y"]) 2).take 2)).Nodup :=
  lineData_noclash_of_labels ["x", "y"] ["x", "y"] 2 rfl (by decide) (by decide) (by decide) (by decide) (by decide)

/-- … and the frame exists -/
example (data : NDA Rat) : ∃ fr, (VF.mk m0 2 data (some ["x", "y"])).lineData [0, 0] [4, 2] 3 = .ok fr := by
  obtain ⟨o, ho⟩ := line_accepts (VF.mk m0 2 data (some ["x", "y"])) [0, 0] [4, 2] 3 (by omega)
    (mD_corner0 "x" "y") (mD_corner1 "x" "y")
  exact ⟨_, lineData_of_line _ _ _ _ o ho⟩

/-- WITNESS for finding D42 (`lineData_clash_value_column`): dimensions named `vx, y`, labels `x, y`:
the frame exists, its column `vx` holds component 0 of the values, and it has at most 4 columns
(not 5). -/
example (data : NDA Rat) : ∃ o fr, (VF.mk (mD "vx" "y") 2 data (some ["x", "y"])).line [0, 0] [4, 2] 3 = .ok o ∧
    (VF.mk (mD "vx" "y") 2 data (some ["x", "y"])).lineData [0, 0] [4, 2] 3 = .ok fr ∧
    colOf fr "vx" = some (.val (o.values.map fun v => v.getD 0 default)) ∧ fr.length ≤ 4 := by
  obtain ⟨o, ho⟩ := line_accepts (VF.mk (mD "vx" "y") 2 data (some ["x", "y"])) [0, 0] [4, 2] 3 (by omega)
    (mD_corner0 _ _) (mD_corner1 _ _)
  have hfr := lineData_of_line _ _ _ _ o ho
  obtain ⟨o', ho', h1, h2⟩ := lineData_clash_value_column _ _ _ _ _ hfr 0 0 (show 0 < 2 by decide) (show 0 < 2 by decide)
    (show 0 < 2 by decide) (show (["vx", "vy"] : List String).Nodup by decide) rfl
  rw [ho] at ho'
  injection ho' with ho'; subst ho'
  exact ⟨o, _, ho, hfr, h1, h2⟩

/-- WITNESS for finding D42 (`lineData_clash_r`): a dimension named `r` -/
example (data : NDA Rat) : ∃ o fr, (VF.mk (mD "r" "y") 1 data none).line [0, 0] [4, 2] 3 = .ok o ∧
    (VF.mk (mD "r" "y") 1 data none).lineData [0, 0] [4, 2] 3 = .ok fr ∧
    colOf fr "r" = some (.num (o.points.map fun p => p.getD 0 0)) := by
  obtain ⟨o, ho⟩ := line_accepts (VF.mk (mD "r" "y") 1 data none) [0, 0] [4, 2] 3 (by omega)
    (mD_corner0 _ _) (mD_corner1 _ _)
  have hfr := lineData_of_line _ _ _ _ o ho
  obtain ⟨o', ho', h1⟩ := lineData_clash_r _ _ _ _ _ hfr 0 (show 0 < 2 by decide)
    (show (["r", "y"] : List String).Nodup by decide) rfl (show "r" ∉ (["v"] : List String) by decide)
  rw [ho] at ho'
  injection ho' with ho'; subst ho'
  exact ⟨o, _, ho, hfr, h1⟩

/-- hypotheses of `lineData_unlabelled_vector` (the witness of the former finding D45): 3 components, no
labels, dimensions `x, y`: the names `r, x, y, v0, v1, v2` are pairwise different and the frame exists -/
example (data : NDA Rat) : ("r" :: (m0.region.dims ++ (List.range 3).map fun i => s!"v{i}")).Nodup ∧
    ∃ fr, (VF.mk m0 3 data none).lineData [0, 0] [4, 2] 3 = .ok fr := by
  refine ⟨by decide, ?_⟩
  obtain ⟨o, ho⟩ := line_accepts (VF.mk m0 3 data none) [0, 0] [4, 2] 3 (by omega)
    (mD_corner0 "x" "y") (mD_corner1 "x" "y")
  exact ⟨_, lineData_of_line _ _ _ _ o ho⟩

/-- hypotheses of `dict_cell_field`: the field leaf of `r1` is a source field on the mesh itself -/
example : (subMeshOf m0 (reg [0, 0] [2, 2]) (k1 ("r1", reg [0, 0] [2, 2])) (k2 ("r1", reg [0, 0] [2, 2]))).Inv ∧
    m0.Inv ∧ (reg [0, 0] [2, 2]).dims = m0.region.dims ∧
    ∀ a, a < m0.ndim → m0.region.lo a ≤ (reg [0, 0] [2, 2]).lo a ∧ (reg [0, 0] [2, 2]).hi a ≤ m0.region.hi a :=
  ⟨m0_sub_r1_inv, m0_inv, rfl, fun a ha => by rcases lt_two a ha with rfl | rfl <;> decide⟩

/-- `asArray_dict_accepts_callable`: `{"r1": 1, "default": lambda p: p[0]}` on the mesh with overlapping subregions -/
example : ∃ a, asArray (fun v : Rat => v == 0)
    (.dict [("r1", .scalar 1)] (some (.func fun p => [p.getD 0 0]))) m0 1 = .ok a ∧ a.shape = [4, 2, 1] := by
  apply asArray_dict_accepts_callable _ _ _ m0 m0_inv 1 k1 k2 m0_aligned
  · intro p _ lf hl
    have : lf = .scalar 1 := by
      simp only [lookupLeaf, List.find?_cons, List.find?_nil] at hl
      split at hl
      · simpa using hl.symm
      · cases hl
    subst this
    exact ⟨NDA.const (_ ++ [1]) 1, by simp [asLeaf], rfl⟩
  · exact Or.inl ⟨_, rfl, fun _ _ => rfl⟩

/-- `asArray_dict_accepts_covered`: `{"all": 7}` without default where `all` is the whole mesh -/
example : ∃ a, asArray (fun v : Rat => v == 0) (.dict [("all", .scalar 7)] none) mAll 1 = .ok a ∧
    a.shape = [4, 2, 1] := by
  apply asArray_dict_accepts_covered _ _ mAll mAll_inv 1 kA1 kA2 mAll_aligned
  · intro p _ lf hl
    have : lf = .scalar 7 := by
      simp only [lookupLeaf, List.find?_cons, List.find?_nil] at hl
      split at hl
      · simpa using hl.symm
      · cases hl
    subst this
    exact ⟨NDA.const (_ ++ [1]) 7, by simp [asLeaf], rfl⟩
  · intro i hi
    refine ⟨("all", reg [0, 0] [4, 2]), by simp [mAll], ?_⟩
    obtain ⟨hl, hb⟩ := (inRange_iff mAll.n i).mp hi
    simp only [hits, lookupLeaf, List.find?_cons, beq_self_eq_true, Option.map_some, Option.isSome_some,
      Bool.true_and]
    unfold inBox
    rw [allLt_iff]
    intro a ha
    simp only [tab_length] at ha
    have ha2 : a < 2 := ha
    have := hb a ha2
    rw [getD_tab _ _ _ _ ha, getD_tab _ _ _ _ ha]
    rcases lt_two a ha2 with rfl | rfl <;> simp [kA1, kA2] <;> simpa [mAll] using this

/-- `asArray_dict_leaf_rejected`: `{"r1": "abc", "default": 0}` -/
example : ∃ e, asArray (fun v : Rat => v == 0) (.dict [("r1", .bad)] (some (.val (NDA.const [] 0)))) m0 1 = .error e :=
  asArray_dict_leaf_rejected _ _ _ m0 m0_inv 1 _ _ ("r1", reg [0, 0] [2, 2]) (by simp [m0])
    (m0_aligned _ (by simp [m0])) .bad rfl .type rfl

/-- `asArray_dict_default_count_rejected`: `{"default": lambda p: (1, 2)}` for a scalar field -/
example : ∃ e, asArray (fun v : Rat => v == 0) (.dict [] (some (.func fun _ => [1, 2]))) m0 1 = .error e :=
  asArray_dict_default_count_rejected _ _ _ m0 1 rfl (by decide) [3, 1] (by decide)
    (by
      rw [List.findSome?_eq_none_iff]
      intro p _
      exact patchVal_unlisted _ _ _ _ p _ rfl)
    (by decide)

/-- `comp_kth` / `new_labels`: the labels `mx, my, mz` have no duplicates and are accepted -/
example : hasDup ["mx", "my", "mz"] = false ∧
    vdimsSet ["mesh", "array"] 3 (some ["mx", "my", "mz"]) = .ok (some ["mx", "my", "mz"]) := by decide

/-- `new_default_labels_comp`, `construct_func_call`: the constructor accepts `p ↦ (p_x, p_y)` without labels -/
example : ∃ g, VF.new? (fun v : Rat => v == 0) [] m0 2 (.leaf (.func fun p => [p.getD 0 0, p.getD 1 0])) none = .ok g := by
  obtain ⟨a, ha, _, _⟩ := asArray_func (fun v : Rat => v == 0) (fun p => [p.getD 0 0, p.getD 1 0]) m0 2 (fun _ _ => rfl)
  obtain ⟨g, hg, _⟩ := (new_stores_spec (fun v : Rat => v == 0) [] m0 2 (.leaf (.func fun p => [p.getD 0 0, p.getD 1 0])) none).2.1
    a _ (by omega) ha rfl
  exact ⟨g, hg⟩

/-- `setArray_array_stores`: an array of shape `(4, 2, 3)` for a 3-component field on the 4 × 2 mesh -/
example : (NDA.const [4, 2, 3] (0 : Rat)).shape = m0.n ++ [3] := rfl

/-- hypotheses of `history_last_accepted` / `history_then_call`: on every field `update_field_values(0)` is
accepted and `field.array = "abc"` is rejected -/
example (f : VF Rat) : (∃ a, Assign.result (fun v : Rat => v == 0) f.mesh f.nvdim (.upd (.leaf (.scalar 0))) = .ok a) ∧
    ∃ e, Assign.result (fun v : Rat => v == 0) f.mesh f.nvdim (.set .bad) = .error e := by
  obtain ⟨a, ha, _, _⟩ := asArray_const (fun v : Rat => v == 0) 0 f.mesh f.nvdim (Or.inr rfl)
  obtain ⟨b, hb, _, _⟩ := updateValues_of_ok _ _ f.mesh f.nvdim a ha
  exact ⟨⟨b, hb⟩, .type, rfl⟩

/-! ### round 2 -/

example : ∃ a, asArray (fun v : Rat => v == 0) (.dict [("r2", .scalar 2), ("r1", .scalar 1)]
    (some (.func fun p => [p.getD 0 0]))) m0 1 = .ok a ∧ a.shape = [4, 2, 1] := by
  obtain ⟨a, h1, h2, _⟩ := asArray_dict_total _ _ _ m0 m0_inv 1 (by decide) k1 k2 m0_aligned ex_dictWF
  exact ⟨a, h1, h2⟩

/-- … and `{"r1": 1}` without default is NOT well formed (cell (3,1) is uncovered): rejected -/
example : ∃ e, asArray (fun v : Rat => v == 0) (.dict [("r1", .scalar 1)] none) m0 1 = .error e := by
  apply (asArray_dict_ok_iff _ _ _ m0 m0_inv 1 (by decide) k1 k2 m0_aligned).2.mpr
  rintro ⟨_, _, h3⟩
  exact h3 [3, 1] (by decide) (by decide)

/-- `dict_overlap_first_wins`: cell (1,0) lies in `r1` and in `r2`; `r1` is listed first -/
example : m0.subs = [] ++ ("r1", reg [0, 0] [2, 2]) :: [("r2", reg [1, 0] [4, 1])] ∧
    listedContains [("r2", Leaf.scalar (2 : Rat)), ("r1", .scalar 1)] m0 [1, 0] ("r1", reg [0, 0] [2, 2]) = true ∧
    listedContains [("r2", Leaf.scalar (2 : Rat)), ("r1", .scalar 1)] m0 [1, 0] ("r2", reg [1, 0] [4, 1]) = true := by
  refine ⟨rfl, ?_, ?_⟩
  · rw [← hits_eq_listedContains _ m0 m0_inv k1 k2 _ (m0_aligned _ (by simp [m0])) [1, 0] (by decide)]; decide
  · rw [← hits_eq_listedContains _ m0 m0_inv k1 k2 _ (m0_aligned _ (by simp [m0])) [1, 0] (by decide)]; decide

/-- `dict_uncovered_default`: cell (3,1) lies in no subregion -/
example : ∀ q ∈ m0.subs, listedContains [("r2", Leaf.scalar (2 : Rat)), ("r1", .scalar 1)] m0 [3, 1] q = false := by
  intro q hq
  rw [← hits_eq_listedContains _ m0 m0_inv k1 k2 q (m0_aligned q hq) [3, 1] (by decide)]
  simp only [m0, List.mem_cons, List.mem_nil_iff, or_false] at hq
  rcases hq with rfl | rfl <;> decide

/-- `dict_key_order_irrelevant` -/
example : ([("r2", Leaf.scalar (2 : Rat)), ("r1", .scalar 1)]).Perm [("r1", .scalar 1), ("r2", .scalar 2)] ∧
    (([("r2", Leaf.scalar (2 : Rat)), ("r1", .scalar 1)]).map (·.1)).Nodup :=
  ⟨List.Perm.swap _ _ _, by decide⟩

/-- `assign_rejected_iff_malformed`: a scalar field on `m0` without labels; the malformed value `"abc"` -/
example (data : NDA Rat) : (∃ vd, vdimsSet [] (VF.mk m0 1 data none).nvdim none = .ok vd) ∧
    ¬ Spec.WF (fun v : Rat => v == 0) (.leaf .bad) m0 1 k1 k2 ∧
    Spec.WF (fun v : Rat => v == 0) (.leaf (.scalar 3)) m0 1 k1 k2 :=
  ⟨⟨_, rfl⟩, id, Or.inl (Nat.le_refl 1)⟩

/-- `asArray_field_reads_floor_cell`, `asArray_field_closed_forms` (finer source, `r = 2`, both axes)
and `asArray_field_tie_upper`: the source lives on the 8 × 4 mesh; the centre 1/2 of target cell 0
lies on the face between the source cells 0 and 1 -/
example : mFine.Inv ∧ mFine.ndim = m0.ndim ∧ m0.region.dims = mFine.region.dims ∧
    (∀ a, a < m0.ndim → mFine.region.lo a ≤ m0.region.lo a ∧ m0.region.hi a ≤ mFine.region.hi a) ∧
    (∀ a, a < m0.ndim → mFine.nAt a = 2 * m0.nAt a) ∧
    m0.centreAx 0 (([0, 0] : List Nat).getD 0 0 : Nat) = mFine.region.lo 0 + ((1 : Nat) : Rat) * mFine.cellAt 0 := by
  refine ⟨mFine_inv, rfl, rfl, fun a ha => ?_, fun a ha => ?_, by
    norm_num [Mesh.centreAx, Mesh.cellAt, Mesh.nAt, Region.edge, Region.hi, Region.lo, m0, mFine, reg]⟩
  · rcases lt_two a ha with rfl | rfl <;> decide
  · rcases lt_two a ha with rfl | rfl <;> decide

/-- … coarser (`m0` as the source of a field on `mFine`, `r = 2`) and shifted (`r1`'s own mesh inside `m0`,
`s = 0`; the subregion `r2` starts `s = 1` cells above `m0`'s corner along `x`) -/
example : (∀ a, a < mFine.ndim → mFine.nAt a = 2 * m0.nAt a) ∧
    (reg [1, 0] [4, 1]).lo 0 = m0.region.lo 0 + ((1 : Nat) : Rat) * m0.cellAt 0 := by
  refine ⟨fun a ha => ?_, by
    norm_num [Mesh.cellAt, Mesh.nAt, Region.edge, Region.hi, Region.lo, m0, reg]⟩
  rcases lt_two a ha with rfl | rfl <;> decide

example (a b c : NDA Rat) : ((st0 a b c).step (fun v : Rat => v == 0) (if false then .upd 0 (.obj 1) else .set 0 (.obj 1))).2 = true := by
  have hc : m0.region.containsReg m0.region = true := by decide
  simp [Sess.step, st0, Sess.spec, Sess.field, Sess.obj, asArray, asLeaf, hc]

/-- `lineData_total`: labels `x, y`, dimensions `x, y`, the diagonal with 3 points -/
example : m0.Inv ∧ 2 ≤ 3 ∧ m0.region.containsExact [0, 0] ∧ m0.region.containsExact [4, 2] ∧
    ("r" :: (m0.region.dims ++ (valueColumns (some ["x", "y"]) 2).take 2)).Nodup :=
  ⟨m0_inv, by omega, mD_corner0 "x" "y", mD_corner1 "x" "y", by decide⟩

/-- `line_ok_iff`: the right-hand side holds for the diagonal of `m0` -/
example (data : NDA Rat) : m0.region.containsPt [0, 0] = true ∧ m0.region.containsPt [4, 2] = true ∧
    ∃ o, (VF.mk m0 1 data none).line [0, 0] [4, 2] 3 = .ok o := by
  obtain ⟨o, ho⟩ := line_accepts (VF.mk m0 1 data none) [0, 0] [4, 2] 3 (by omega)
    (mD_corner0 "x" "y") (mD_corner1 "x" "y")
  obtain ⟨h1, h2, _, _⟩ := (line_ok_iff (VF.mk m0 1 data none) [0, 0] [4, 2] 3).mp ⟨o, ho⟩
  exact ⟨h1, h2, o, ho⟩

/-- kinds: an int array of the cells' shape assigned to a scalar float field without requested dtype:
the setter stores int, `update_field_values` float; with `dtype=float` both store float -/
example (a : NDA Rat) (h : a.shape = m0.n) :
    specKind none .int (.leaf (.arr a)) m0 1 = .int ∧ updKind none .int (.leaf (.arr a)) m0 1 = .float ∧
    specKind (some .float) .int (.leaf (.arr a)) m0 1 = .float := by
  refine ⟨by simp [specKind, leafKind, h], ?_, (kind_requested .float .int _ m0 1).1⟩
  rw [(kind_not_requested_update .int (.leaf (.arr a)) m0 1).1]
  simp [specKind, leafKind, h, Kind.pmax, Kind.rank]

/-- `field_fast_path_equal`: the test holds for a source on the finer mesh `mFine` and the target `m0` -/
example (data : NDA Rat) : fieldFastOk (VF.mk mFine 1 data none) m0 = true := by
  simp only [fieldFastOk, Bool.and_eq_true, decide_eq_true_eq]
  refine ⟨⟨⟨by decide, by decide⟩, rfl⟩, ?_⟩
  rw [allLt_iff]
  intro a ha
  rcases lt_two a ha with rfl | rfl <;> norm_num [Region.lo, Region.hi, mFine, m0, reg]

/-- `call_tolerance_clips`: the point (−10⁻¹³, 1) lies outside `m0` but within its tolerance -/
example : m0.region.containsPt [-(1 / 10000000000000), 1] = true := by
  norm_num [Region.containsPt, Region.containsAx, Region.isclose, Region.atol, Region.edges, Region.edge, Region.ndim,
    Region.lo, Region.hi, allLt, tab, listMin, absR, m0, reg, List.range, List.range.loop]

/-- `new_ok_iff`: one component, the constant 3, default labels -/
example : 1 ≤ 1 ∧ Spec.WF (fun v : Rat => v == 0) (.leaf (.scalar 3)) m0 1 k1 k2 ∧ ∃ vd, vdimsSet [] 1 none = .ok vd :=
  ⟨Nat.le_refl 1, Or.inl (Nat.le_refl 1), _, rfl⟩


/-- `construct_dict_call`: the constructor accepts the well-formed dictionary of `ex_dictWF` on `m0` -/
example : ∃ g, VF.new? (fun v : Rat => v == 0) [] m0 1 (.dict [("r2", .scalar 2), ("r1", .scalar 1)]
    (some (.func fun p => [p.getD 0 0]))) none = .ok g :=
  (new_ok_iff _ [] m0 m0_inv 1 _ none k1 k2 m0_aligned).mpr ⟨Nat.le_refl 1, ex_dictWF, _, rfl⟩

/-- `session_same_mesh_copy`: the two objects of `st0` live on the same mesh `m0` with one component -/
example (a b c : NDA Rat) : (st0 a b c).Sep ∧ 0 < (st0 a b c).objs.length ∧
    ((st0 a b c).obj 0).mesh = ((st0 a b c).obj 1).mesh ∧ ((st0 a b c).obj 0).nvdim = ((st0 a b c).obj 1).nvdim ∧
    ((st0 a b c).obj 1).mesh.Inv :=
  ⟨st0_sep a b c, by simp [st0], rfl, rfl, m0_inv⟩

end Ex

end DFV.C02
